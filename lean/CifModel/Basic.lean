/-
  CifModel.Basic — shared vocabulary of every model module (core Lean only; no Mathlib).
  A string of the C library is a NUL-terminated array of UTF-16 code units; the model uses `List Nat`.
-/
namespace CifModel

/-- a UTF-16 code unit (`UChar`).  Kept an unbounded `Nat`; models that care state `< 65536` explicitly. -/
abbrev CU := Nat
/-- a UTF-16 string (`UChar *` without its terminator) -/
abbrev Str := List CU
/-- a result code of the C API (values in `CifModel.Gen.ErrCodes`) -/
abbrev Code := Nat

/-- ASCII helper for run-time use (the driver): the code units of a string. Not for use in `decide`d statements:
    kernel reduction of `String` operations is very slow — use the `a!"…"` literal below instead. -/
def asc (s : String) : Str := s.toList.map Char.toNat

open Lean in
/-- `a!"abc"` is the literal list `[97, 98, 99]` (expanded at parse time, so that the kernel only sees `Nat`s) -/
macro "a!" s:str : term => do
  let elems := s.getString.toList.map (fun c => Syntax.mkNumLit (toString c.toNat))
  `(([$(elems.toArray),*] : List Nat))

end CifModel
