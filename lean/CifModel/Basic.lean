def hello := "world"
