import CifModel.Lemmas.NumbLimbRefine
/-
  Limb level of C10, part 6: to_digits — storing the fraction in the work array and applying the binary exponent:
  after the shift phase the array denotes |d| exactly.
-/
namespace CifModel.Lemmas.NumbLimbDigits
open CifModel.Model.Numb CifModel.Model.NumbLimbs CifModel.Lemmas.NumbLimbPass CifModel.Lemmas.NumbLimbRefine
  CifModel.Lemmas.NumbToDouble

/-! ### the fraction as limbs -/

theorem limbsOfNat_spec : ∀ (fuel n : Nat), n < Bb ^ fuel →
    natOfLimbs (limbsOfNat fuel n).reverse = n ∧ Small (limbsOfNat fuel n) ∧ (limbsOfNat fuel n).length ≤ fuel := by
  intro fuel
  induction fuel with
  | zero =>
    intro n h
    simp at h
    subst h
    exact ⟨rfl, by intro x hx; simp [limbsOfNat] at hx, Nat.le_refl _⟩
  | succ f ih =>
    intro n h
    rw [limbsOfNat]
    by_cases h0 : n = 0
    · rw [if_pos h0, h0]
      exact ⟨rfl, by intro x hx; simp at hx, Nat.zero_le _⟩
    · rw [if_neg h0]
      have hq : n / BBASE < Bb ^ f := by
        apply (Nat.div_lt_iff_lt_mul Bb_pos).mpr
        rw [Nat.pow_succ] at h
        exact h
      obtain ⟨a1, a2, a3⟩ := ih (n / BBASE) hq
      refine ⟨?_, ?_, ?_⟩
      · rw [List.reverse_cons, nat_snoc, a1]
        have := Nat.div_add_mod n BBASE
        show n / BBASE * Bb + n % BBASE = n
        rw [Nat.mul_comm]; exact this
      · intro x hx
        rw [List.mem_cons] at hx
        rcases hx with e | e
        · rw [e]; exact Nat.mod_lt _ Bb_pos
        · exact a2 x e
      · simp only [List.length_cons]; omega

abbrev GoodD (A : Arr) : Prop := GoodL 156 A

theorem frac_lt (m : Nat) (hm : m ≠ 0) (hb : bitLen m ≤ 53) : m * pow2 (53 - bitLen m) < Bb ^ 8 ∧ m * pow2 (53 - bitLen m) ≠ 0 := by
  obtain ⟨_, h2⟩ := bitLen_bounds m hm
  have : m * 2 ^ (53 - bitLen m) < 2 ^ bitLen m * 2 ^ (53 - bitLen m) := Nat.mul_lt_mul_of_pos_right h2 (Nat.two_pow_pos _)
  rw [← Nat.pow_add] at this
  have e : bitLen m + (53 - bitLen m) = 53 := by omega
  rw [e] at this
  have hB : (2 : Nat) ^ 53 ≤ Bb ^ 8 := by decide +kernel
  unfold pow2
  exact ⟨by omega, Nat.mul_ne_zero hm (Nat.ne_of_gt (Nat.two_pow_pos _))⟩

/-- the array after the fraction has been stored: well formed, and it denotes the integer fraction -/
theorem digInit_spec (m : Nat) (hm : m ≠ 0) (hb : bitLen m ≤ 53) :
    GoodD (digInit m) ∧ natOfLimbs (digInit m).digits = m * pow2 (53 - bitLen m) * Bb ^ 121 := by
  obtain ⟨hlt, hne⟩ := frac_lt m hm hb
  obtain ⟨a1, a2, a3⟩ := limbsOfNat_spec 8 _ hlt
  unfold digInit
  simp only
  generalize m * pow2 (53 - bitLen m) = F at *
  generalize hfl : (limbsOfNat 8 F).reverse = fl at *
  have hfl8 : fl.length ≤ 8 := by rw [← hfl, List.length_reverse]; exact a3
  have hsm : Small fl := by rw [← hfl]; intro x hx; exact a2 x (List.mem_reverse.mp hx)
  unfold UNITS_DIGIT DIG_PER_DBL at *
  simp only [Nat.reduceAdd, Nat.reduceSub] at *
  have hlen : (List.replicate (35 - fl.length) 0 ++ fl ++ List.replicate 121 0).length = 156 := by
    simp only [List.length_append, List.length_replicate]; omega
  have hN : natOfLimbs (List.replicate (35 - fl.length) 0 ++ fl ++ List.replicate 121 0) = F * Bb ^ 121 := by
    rw [nat_append, nat_append, nat_zeros, nat_zeros, List.length_replicate, a1]; simp
  obtain ⟨sd1, sd2⟩ := skipDown_spec 156 (List.replicate (35 - fl.length) 0 ++ fl ++ List.replicate 121 0) 34
  have hpos : natOfLimbs (List.replicate (35 - fl.length) 0 ++ fl ++ List.replicate 121 0) ≠ 0 := by
    rw [hN]; exact Nat.mul_ne_zero hne (Nat.ne_of_gt (Nat.pow_pos Bb_pos))
  refine ⟨⟨⟨?_, ?_, ?_⟩, hlen, ?_, ?_, hpos⟩, hN⟩
  · intro x hx
    simp only [List.mem_append] at hx
    rcases hx with (hx | hx) | hx
    · rw [(List.mem_replicate.mp hx).2]; exact Bb_pos
    · exact hsm x hx
    · rw [(List.mem_replicate.mp hx).2]; exact Bb_pos
  · intro j hj
    simp only at hj
    rw [List.append_assoc, getD_append_l _ _ _ (by rw [List.length_replicate]; exact hj)]
    exact replicate_getD _ _
  · intro j hj
    simp only at hj
    rcases Nat.lt_or_ge 34 j with h1 | h1
    · have : (List.replicate (35 - fl.length) 0 ++ fl).length ≤ j := by
        simp only [List.length_append, List.length_replicate]; omega
      rw [getD_append_r _ _ _ this]
      exact replicate_getD _ _
    · exact sd2 j hj h1
  · dsimp only; omega
  · -- msd ≤ lsd + 1: a non-zero limb of the fraction lies between them
    simp only
    have wf0 : WF { digits := List.replicate (35 - fl.length) 0 ++ fl ++ List.replicate 121 0,
                    msd := 34 + 1 - fl.length, lsd := 34 } := by
      refine ⟨?_, ?_, ?_⟩
      · intro x hx
        simp only [List.mem_append] at hx
        rcases hx with (hx | hx) | hx
        · rw [(List.mem_replicate.mp hx).2]; exact Bb_pos
        · exact hsm x hx
        · rw [(List.mem_replicate.mp hx).2]; exact Bb_pos
      · intro j hj
        simp only at hj
        rw [List.append_assoc, getD_append_l _ _ _ (by rw [List.length_replicate]; exact hj)]
        exact replicate_getD _ _
      · intro j hj
        simp only at hj
        have : (List.replicate (35 - fl.length) 0 ++ fl).length ≤ j := by
          simp only [List.length_append, List.length_replicate]; omega
        rw [getD_append_r _ _ _ this]
        exact replicate_getD _ _
    obtain ⟨j, hj1, hj2, hj3⟩ := nonzero_between _ wf0 hpos
    simp only at hj1 hj2
    have := skipDown_ge 156 _ 34 j hj2 hj3
    dsimp only at this
    omega


/-! ### applying the binary exponent -/

theorem digShr_spec : ∀ (fuel : Nat) (A : Arr) (k : Nat) (A' : Arr), GoodD A → k ≤ 28 * fuel → digShr fuel A k = some A' →
    GoodD A' ∧ natOfLimbs A'.digits * 2 ^ k = natOfLimbs A.digits := by
  intro fuel
  induction fuel with
  | zero =>
    intro A k A' g hk h
    simp only [digShr, Option.some.injEq] at h
    have : k = 0 := by omega
    rw [← h, this]
    exact ⟨g, by simp⟩
  | succ f ih =>
    intro A k A' g hk h
    rw [digShr] at h
    by_cases h0 : k = 0
    · rw [if_pos h0] at h
      simp only [Option.some.injEq] at h
      rw [← h, h0]
      exact ⟨g, by simp⟩
    · rw [if_neg h0] at h
      cases hp : shrPass 1 (min BDIG_PER_DIG k) A with
      | none => rw [hp] at h; cases h
      | some A1 =>
        rw [hp] at h
        simp only at h
        obtain ⟨g1, hv⟩ := shrPass_good 1 _ A A1 hp g
        have hmin : min BDIG_PER_DIG k ≤ k := Nat.min_le_right _ _
        have hmin2 : min BDIG_PER_DIG k = 28 ∨ min BDIG_PER_DIG k = k := by
          unfold BDIG_PER_DIG
          rcases Nat.le_total 28 k with hh | hh
          · left; exact Nat.min_eq_left hh
          · right; exact Nat.min_eq_right hh
        generalize min BDIG_PER_DIG k = sh at *
        obtain ⟨g2, hv2⟩ := ih A1 (k - sh) A' g1 (by rcases hmin2 with hh | hh <;> omega) h
        refine ⟨g2, ?_⟩
        have : k = (k - sh) + sh := by omega
        rw [this, Nat.pow_add, ← Nat.mul_assoc, hv2]
        exact hv

theorem digShl_spec : ∀ (fuel : Nat) (A : Arr) (k : Nat) (A' : Arr), GoodD A → k ≤ 28 * fuel → digShl fuel A k = some A' →
    GoodD A' ∧ natOfLimbs A'.digits = natOfLimbs A.digits * 2 ^ k := by
  intro fuel
  induction fuel with
  | zero =>
    intro A k A' g hk h
    simp only [digShl, Option.some.injEq] at h
    have : k = 0 := by omega
    rw [← h, this]
    exact ⟨g, by simp⟩
  | succ f ih =>
    intro A k A' g hk h
    rw [digShl] at h
    by_cases h0 : k = 0
    · rw [if_pos h0] at h
      simp only [Option.some.injEq] at h
      rw [← h, h0]
      exact ⟨g, by simp⟩
    · rw [if_neg h0] at h
      cases hp : shlPass (min BDIG_PER_DIG k) A with
      | none => rw [hp] at h; cases h
      | some A1 =>
        rw [hp] at h
        simp only at h
        obtain ⟨g1, hv, _⟩ := shlPass_good _ A A1 hp g
        have hmin : min BDIG_PER_DIG k ≤ k := Nat.min_le_right _ _
        have hmin2 : min BDIG_PER_DIG k = 28 ∨ min BDIG_PER_DIG k = k := by
          unfold BDIG_PER_DIG
          rcases Nat.le_total 28 k with hh | hh
          · left; exact Nat.min_eq_left hh
          · right; exact Nat.min_eq_right hh
        generalize min BDIG_PER_DIG k = sh at *
        obtain ⟨g2, hv2⟩ := ih A1 (k - sh) A' g1 (by rcases hmin2 with hh | hh <;> omega) h
        refine ⟨g2, ?_⟩
        rw [hv2, hv]
        unfold pow2
        have : k = sh + (k - sh) := by omega
        conv => rhs; rw [this, Nat.pow_add]
        grind

/-- **to_digits, shift phase**: for a finite non-zero double `m·2^e` (`m < 2^53`, `-1074 ≤ e ≤ 1024`), after the
    fraction has been stored and the binary exponent applied — by however many passes — the array denotes `|d|`
    exactly: (number of the array) / 10⁹^121 = `m·2^e`, and the array is well formed -/
theorem digShift_spec (m : Nat) (e : Int) (A : Arr) (hm : m ≠ 0) (hb : bitLen m ≤ 53) (he1 : -1074 ≤ e) (he2 : e ≤ 1024)
    (h : digShift m e = some A) :
    GoodD A ∧ natOfLimbs A.digits * (ratOfBin m e).2 = (ratOfBin m e).1 * Bb ^ 121 := by
  obtain ⟨g0, hN0⟩ := digInit_spec m hm hb
  have hb1 : 1 ≤ bitLen m := by
    obtain ⟨_, h2⟩ := bitLen_bounds m hm
    rcases Nat.eq_zero_or_pos (bitLen m) with hh | hh
    · rw [hh] at h2; simp at h2; omega
    · exact hh
  unfold digShift digExp at h
  unfold ratOfBin pow2 at *
  generalize hk0 : 53 - bitLen m = k0 at *
  by_cases hneg : e - (k0 : Int) < 0
  · rw [if_pos hneg] at h
    obtain ⟨g, hv⟩ := digShr_spec 64 _ _ A g0 (by omega) h
    refine ⟨g, ?_⟩
    rw [hN0] at hv
    by_cases hge : e ≥ 0
    · rw [if_pos hge]
      simp only [Nat.mul_one]
      -- N · 2^(k0 - e) = m · 2^k0 · W
      have hk : (-(e - (k0 : Int))).toNat + e.toNat = k0 := by omega
      apply Nat.eq_of_mul_eq_mul_right (Nat.two_pow_pos (-(e - (k0 : Int))).toNat)
      rw [hv]
      have : m * 2 ^ k0 = m * 2 ^ e.toNat * 2 ^ (-(e - (k0 : Int))).toNat := by
        rw [Nat.mul_assoc, ← Nat.pow_add]
        congr 2
        omega
      rw [this]; grind
    · rw [if_neg hge]
      simp only
      have hk : (-(e - (k0 : Int))).toNat = k0 + (-e).toNat := by omega
      rw [hk, Nat.pow_add] at hv
      apply Nat.eq_of_mul_eq_mul_right (Nat.two_pow_pos k0)
      calc natOfLimbs A.digits * 2 ^ (-e).toNat * 2 ^ k0 = natOfLimbs A.digits * (2 ^ k0 * 2 ^ (-e).toNat) := by grind
        _ = m * 2 ^ k0 * Bb ^ 121 := hv
        _ = m * Bb ^ 121 * 2 ^ k0 := by grind
  · rw [if_neg hneg] at h
    obtain ⟨g, hv⟩ := digShl_spec 64 _ _ A g0 (by omega) h
    refine ⟨g, ?_⟩
    have hge : e ≥ 0 := by omega
    rw [if_pos hge]
    simp only [Nat.mul_one]
    rw [hv, hN0]
    have : m * 2 ^ e.toNat = m * 2 ^ k0 * 2 ^ (e - (k0 : Int)).toNat := by
      rw [Nat.mul_assoc, ← Nat.pow_add]
      congr 2
      omega
    rw [this]; grind

end CifModel.Lemmas.NumbLimbDigits
