import CifModel.Lemmas.NumbLimbRefine
import CifModel.Lemmas.NumbLimbRound
/-
  Limb level of C10, part 6: to_digits — storing the fraction in the work array and applying the binary exponent:
  after the shift phase the array denotes |d| exactly.
-/
namespace CifModel.Lemmas.NumbLimbDigits
open CifModel.Model.Numb CifModel.Model.NumbLimbs CifModel.Lemmas.NumbLimbPass CifModel.Lemmas.NumbLimbRefine
  CifModel.Lemmas.NumbToDouble

/-! ### the fraction as limbs -/

theorem limbsOfNat_spec : ∀ (fuel n : Nat), n < Bb ^ fuel →
    natOfLimbs (limbsOfNat fuel n).reverse = n ∧ Small (limbsOfNat fuel n) ∧ (limbsOfNat fuel n).length ≤ fuel := by
  intro fuel
  induction fuel with
  | zero =>
    intro n h
    simp at h
    subst h
    exact ⟨rfl, by intro x hx; simp [limbsOfNat] at hx, Nat.le_refl _⟩
  | succ f ih =>
    intro n h
    rw [limbsOfNat]
    by_cases h0 : n = 0
    · rw [if_pos h0, h0]
      exact ⟨rfl, by intro x hx; simp at hx, Nat.zero_le _⟩
    · rw [if_neg h0]
      have hq : n / BBASE < Bb ^ f := by
        apply (Nat.div_lt_iff_lt_mul Bb_pos).mpr
        rw [Nat.pow_succ] at h
        exact h
      obtain ⟨a1, a2, a3⟩ := ih (n / BBASE) hq
      refine ⟨?_, ?_, ?_⟩
      · rw [List.reverse_cons, nat_snoc, a1]
        have := Nat.div_add_mod n BBASE
        show n / BBASE * Bb + n % BBASE = n
        rw [Nat.mul_comm]; exact this
      · intro x hx
        rw [List.mem_cons] at hx
        rcases hx with e | e
        · rw [e]; exact Nat.mod_lt _ Bb_pos
        · exact a2 x e
      · simp only [List.length_cons]; omega

abbrev GoodD (A : Arr) : Prop := GoodL 156 A

theorem frac_lt (m : Nat) (hm : m ≠ 0) (hb : bitLen m ≤ 53) : m * pow2 (53 - bitLen m) < Bb ^ 8 ∧ m * pow2 (53 - bitLen m) ≠ 0 := by
  obtain ⟨_, h2⟩ := bitLen_bounds m hm
  have : m * 2 ^ (53 - bitLen m) < 2 ^ bitLen m * 2 ^ (53 - bitLen m) := Nat.mul_lt_mul_of_pos_right h2 (Nat.two_pow_pos _)
  rw [← Nat.pow_add] at this
  have e : bitLen m + (53 - bitLen m) = 53 := by omega
  rw [e] at this
  have hB : (2 : Nat) ^ 53 ≤ Bb ^ 8 := by decide +kernel
  unfold pow2
  exact ⟨by omega, Nat.mul_ne_zero hm (Nat.ne_of_gt (Nat.two_pow_pos _))⟩

/-- the array after the fraction has been stored: well formed, and it denotes the integer fraction -/
theorem digInit_spec (m : Nat) (hm : m ≠ 0) (hb : bitLen m ≤ 53) :
    GoodD (digInit m) ∧ natOfLimbs (digInit m).digits = m * pow2 (53 - bitLen m) * Bb ^ 121 := by
  obtain ⟨hlt, hne⟩ := frac_lt m hm hb
  obtain ⟨a1, a2, a3⟩ := limbsOfNat_spec 8 _ hlt
  unfold digInit
  simp only
  generalize m * pow2 (53 - bitLen m) = F at *
  generalize hfl : (limbsOfNat 8 F).reverse = fl at *
  have hfl8 : fl.length ≤ 8 := by rw [← hfl, List.length_reverse]; exact a3
  have hsm : Small fl := by rw [← hfl]; intro x hx; exact a2 x (List.mem_reverse.mp hx)
  unfold UNITS_DIGIT DIG_PER_DBL at *
  simp only [Nat.reduceAdd, Nat.reduceSub] at *
  have hlen : (List.replicate (35 - fl.length) 0 ++ fl ++ List.replicate 121 0).length = 156 := by
    simp only [List.length_append, List.length_replicate]; omega
  have hN : natOfLimbs (List.replicate (35 - fl.length) 0 ++ fl ++ List.replicate 121 0) = F * Bb ^ 121 := by
    rw [nat_append, nat_append, nat_zeros, nat_zeros, List.length_replicate, a1]; simp
  obtain ⟨sd1, sd2⟩ := skipDown_spec 156 (List.replicate (35 - fl.length) 0 ++ fl ++ List.replicate 121 0) 34
  have hpos : natOfLimbs (List.replicate (35 - fl.length) 0 ++ fl ++ List.replicate 121 0) ≠ 0 := by
    rw [hN]; exact Nat.mul_ne_zero hne (Nat.ne_of_gt (Nat.pow_pos Bb_pos))
  refine ⟨⟨⟨?_, ?_, ?_⟩, hlen, ?_, ?_, hpos⟩, hN⟩
  · intro x hx
    simp only [List.mem_append] at hx
    rcases hx with (hx | hx) | hx
    · rw [(List.mem_replicate.mp hx).2]; exact Bb_pos
    · exact hsm x hx
    · rw [(List.mem_replicate.mp hx).2]; exact Bb_pos
  · intro j hj
    simp only at hj
    rw [List.append_assoc, getD_append_l _ _ _ (by rw [List.length_replicate]; exact hj)]
    exact replicate_getD _ _
  · intro j hj
    simp only at hj
    rcases Nat.lt_or_ge 34 j with h1 | h1
    · have : (List.replicate (35 - fl.length) 0 ++ fl).length ≤ j := by
        simp only [List.length_append, List.length_replicate]; omega
      rw [getD_append_r _ _ _ this]
      exact replicate_getD _ _
    · exact sd2 j hj h1
  · dsimp only; omega
  · -- msd ≤ lsd + 1: a non-zero limb of the fraction lies between them
    simp only
    have wf0 : WF { digits := List.replicate (35 - fl.length) 0 ++ fl ++ List.replicate 121 0,
                    msd := 34 + 1 - fl.length, lsd := 34 } := by
      refine ⟨?_, ?_, ?_⟩
      · intro x hx
        simp only [List.mem_append] at hx
        rcases hx with (hx | hx) | hx
        · rw [(List.mem_replicate.mp hx).2]; exact Bb_pos
        · exact hsm x hx
        · rw [(List.mem_replicate.mp hx).2]; exact Bb_pos
      · intro j hj
        simp only at hj
        rw [List.append_assoc, getD_append_l _ _ _ (by rw [List.length_replicate]; exact hj)]
        exact replicate_getD _ _
      · intro j hj
        simp only at hj
        have : (List.replicate (35 - fl.length) 0 ++ fl).length ≤ j := by
          simp only [List.length_append, List.length_replicate]; omega
        rw [getD_append_r _ _ _ this]
        exact replicate_getD _ _
    obtain ⟨j, hj1, hj2, hj3⟩ := nonzero_between _ wf0 hpos
    simp only at hj1 hj2
    have := skipDown_ge 156 _ 34 j hj2 hj3
    dsimp only at this
    omega


/-! ### applying the binary exponent -/

theorem digShr_spec : ∀ (fuel : Nat) (A : Arr) (k : Nat) (A' : Arr), GoodD A → k ≤ 28 * fuel → digShr fuel A k = some A' →
    GoodD A' ∧ natOfLimbs A'.digits * 2 ^ k = natOfLimbs A.digits := by
  intro fuel
  induction fuel with
  | zero =>
    intro A k A' g hk h
    simp only [digShr, Option.some.injEq] at h
    have : k = 0 := by omega
    rw [← h, this]
    exact ⟨g, by simp⟩
  | succ f ih =>
    intro A k A' g hk h
    rw [digShr] at h
    by_cases h0 : k = 0
    · rw [if_pos h0] at h
      simp only [Option.some.injEq] at h
      rw [← h, h0]
      exact ⟨g, by simp⟩
    · rw [if_neg h0] at h
      cases hp : shrPass 1 (min BDIG_PER_DIG k) A with
      | none => rw [hp] at h; cases h
      | some A1 =>
        rw [hp] at h
        simp only at h
        obtain ⟨g1, hv⟩ := shrPass_good 1 _ A A1 hp g
        have hmin : min BDIG_PER_DIG k ≤ k := Nat.min_le_right _ _
        have hmin2 : min BDIG_PER_DIG k = 28 ∨ min BDIG_PER_DIG k = k := by
          unfold BDIG_PER_DIG
          rcases Nat.le_total 28 k with hh | hh
          · left; exact Nat.min_eq_left hh
          · right; exact Nat.min_eq_right hh
        generalize min BDIG_PER_DIG k = sh at *
        obtain ⟨g2, hv2⟩ := ih A1 (k - sh) A' g1 (by rcases hmin2 with hh | hh <;> omega) h
        refine ⟨g2, ?_⟩
        have : k = (k - sh) + sh := by omega
        rw [this, Nat.pow_add, ← Nat.mul_assoc, hv2]
        exact hv

theorem digShl_spec : ∀ (fuel : Nat) (A : Arr) (k : Nat) (A' : Arr), GoodD A → k ≤ 28 * fuel → digShl fuel A k = some A' →
    GoodD A' ∧ natOfLimbs A'.digits = natOfLimbs A.digits * 2 ^ k := by
  intro fuel
  induction fuel with
  | zero =>
    intro A k A' g hk h
    simp only [digShl, Option.some.injEq] at h
    have : k = 0 := by omega
    rw [← h, this]
    exact ⟨g, by simp⟩
  | succ f ih =>
    intro A k A' g hk h
    rw [digShl] at h
    by_cases h0 : k = 0
    · rw [if_pos h0] at h
      simp only [Option.some.injEq] at h
      rw [← h, h0]
      exact ⟨g, by simp⟩
    · rw [if_neg h0] at h
      cases hp : shlPass (min BDIG_PER_DIG k) A with
      | none => rw [hp] at h; cases h
      | some A1 =>
        rw [hp] at h
        simp only at h
        obtain ⟨g1, hv, _⟩ := shlPass_good _ A A1 hp g
        have hmin : min BDIG_PER_DIG k ≤ k := Nat.min_le_right _ _
        have hmin2 : min BDIG_PER_DIG k = 28 ∨ min BDIG_PER_DIG k = k := by
          unfold BDIG_PER_DIG
          rcases Nat.le_total 28 k with hh | hh
          · left; exact Nat.min_eq_left hh
          · right; exact Nat.min_eq_right hh
        generalize min BDIG_PER_DIG k = sh at *
        obtain ⟨g2, hv2⟩ := ih A1 (k - sh) A' g1 (by rcases hmin2 with hh | hh <;> omega) h
        refine ⟨g2, ?_⟩
        rw [hv2, hv]
        unfold pow2
        have : k = sh + (k - sh) := by omega
        conv => rhs; rw [this, Nat.pow_add]
        grind

/-- **to_digits, shift phase**: for a finite non-zero double `m·2^e` (`m < 2^53`, `-1074 ≤ e ≤ 1024`), after the
    fraction has been stored and the binary exponent applied — by however many passes — the array denotes `|d|`
    exactly: (number of the array) / 10⁹^121 = `m·2^e`, and the array is well formed -/
theorem digShift_spec (m : Nat) (e : Int) (A : Arr) (hm : m ≠ 0) (hb : bitLen m ≤ 53) (he1 : -1074 ≤ e) (he2 : e ≤ 1024)
    (h : digShift m e = some A) :
    GoodD A ∧ natOfLimbs A.digits * (ratOfBin m e).2 = (ratOfBin m e).1 * Bb ^ 121 := by
  obtain ⟨g0, hN0⟩ := digInit_spec m hm hb
  have hb1 : 1 ≤ bitLen m := by
    obtain ⟨_, h2⟩ := bitLen_bounds m hm
    rcases Nat.eq_zero_or_pos (bitLen m) with hh | hh
    · rw [hh] at h2; simp at h2; omega
    · exact hh
  unfold digShift digExp at h
  unfold ratOfBin pow2 at *
  generalize hk0 : 53 - bitLen m = k0 at *
  by_cases hneg : e - (k0 : Int) < 0
  · rw [if_pos hneg] at h
    obtain ⟨g, hv⟩ := digShr_spec 64 _ _ A g0 (by omega) h
    refine ⟨g, ?_⟩
    rw [hN0] at hv
    by_cases hge : e ≥ 0
    · rw [if_pos hge]
      simp only [Nat.mul_one]
      -- N · 2^(k0 - e) = m · 2^k0 · W
      have hk : (-(e - (k0 : Int))).toNat + e.toNat = k0 := by omega
      apply Nat.eq_of_mul_eq_mul_right (Nat.two_pow_pos (-(e - (k0 : Int))).toNat)
      rw [hv]
      have : m * 2 ^ k0 = m * 2 ^ e.toNat * 2 ^ (-(e - (k0 : Int))).toNat := by
        rw [Nat.mul_assoc, ← Nat.pow_add]
        congr 2
        omega
      rw [this]; grind
    · rw [if_neg hge]
      simp only
      have hk : (-(e - (k0 : Int))).toNat = k0 + (-e).toNat := by omega
      rw [hk, Nat.pow_add] at hv
      apply Nat.eq_of_mul_eq_mul_right (Nat.two_pow_pos k0)
      calc natOfLimbs A.digits * 2 ^ (-e).toNat * 2 ^ k0 = natOfLimbs A.digits * (2 ^ k0 * 2 ^ (-e).toNat) := by grind
        _ = m * 2 ^ k0 * Bb ^ 121 := hv
        _ = m * Bb ^ 121 * 2 ^ k0 := by grind
  · rw [if_neg hneg] at h
    obtain ⟨g, hv⟩ := digShl_spec 64 _ _ A g0 (by omega) h
    refine ⟨g, ?_⟩
    have hge : e ≥ 0 := by omega
    rw [if_pos hge]
    simp only [Nat.mul_one]
    rw [hv, hN0]
    have : m * 2 ^ e.toNat = m * 2 ^ k0 * 2 ^ (e - (k0 : Int)).toNat := by
      rw [Nat.mul_assoc, ← Nat.pow_add]
      congr 2
      omega
    rw [this]; grind


/-! ### rounding inside a limb -/

open CifModel.Spec.Rounding CifModel.Lemmas.NumbLimbRound in
/-- `is_zero` behind index `i`, for any position of `i` relative to `lsd` -/
theorem tail_zero_iff' (ds : List Nat) (i lsd : Nat) (hz : ∀ j, lsd < j → ds.getD j 0 = 0) :
    (i = lsd ∨ isZero ds (ds.getD (i + 1) 0) (i + 1) lsd = true) ↔ natOfLimbs (ds.drop (i + 1)) = 0 := by
  by_cases hil : i ≤ lsd
  · exact tail_zero_iff ds i lsd hil hz
  · have h0 : natOfLimbs (ds.drop (i + 1)) = 0 := by
      apply all_zero_nat
      apply drop_zero_of_idx
      intro j hj
      exact hz j (by omega)
    constructor
    · intro _; exact h0
    · intro _
      right
      unfold isZero
      have : lsd - (i + 1) = 0 := by omega
      simp only [Bool.and_eq_true, decide_eq_true_eq, List.all_eq_true, this, List.take_zero]
      exact ⟨hz (i + 1) (by omega), by intro x hx; simp at hx⟩

/-- the three outcomes of `round_it` on the value `rv`, by the comparison it makes -/
theorem roundIt_cases (ds : List Nat) (rv cv i lsd : Nat) :
    (cv < BBASE / 2 → roundIt ds rv cv i lsd = rv) ∧
    (cv = BBASE / 2 → (i = lsd ∨ isZero ds (ds.getD (i + 1) 0) (i + 1) lsd = true) →
      roundIt ds rv cv i lsd = if rv % 2 = 1 then rv + 1 else rv) ∧
    (BBASE / 2 ≤ cv → ¬ (cv = BBASE / 2 ∧ (i = lsd ∨ isZero ds (ds.getD (i + 1) 0) (i + 1) lsd = true)) →
      roundIt ds rv cv i lsd = rv + 1) := by
  unfold roundIt compareHalf
  refine ⟨?_, ?_, ?_⟩
  · intro h; rw [if_pos h]; rfl
  · intro h1 h2
    have : ¬ (cv < BBASE / 2) := by omega
    rw [if_neg this, if_pos ⟨h1, h2⟩]; rfl
  · intro h1 h2
    have : ¬ (cv < BBASE / 2) := by omega
    rw [if_neg this, if_neg h2]; rfl

open CifModel.Spec.Rounding in
/-- half-even rounding of `((H·E + k)·U + R) / U` with `E` even: quotient `H·E + k`, parity of `k` -/
theorem rhe_decomp (H k E U R : Nat) (hE : E % 2 = 0) (hR : R < U) :
    roundHalfEven ((H * E + k) * U + R) U =
      (H * E + k) + (if 2 * R < U then 0 else if 2 * R = U then (if k % 2 = 1 then 1 else 0) else 1) := by
  have hU : 0 < U := by omega
  have hdiv : ((H * E + k) * U + R) / U = H * E + k := by
    rw [Nat.mul_comm _ U, Nat.mul_add_div hU, Nat.div_eq_of_lt hR]; simp
  have hmod : ((H * E + k) * U + R) % U = R := by
    rw [Nat.mul_comm _ U, Nat.mul_add_mod, Nat.mod_eq_of_lt hR]
  unfold roundHalfEven
  simp only [hdiv, hmod]
  have hpar : (H * E + k) % 2 = k % 2 := by
    have : H * E % 2 = 0 := by rw [Nat.mul_mod, hE]; simp
    omega
  by_cases h1 : 2 * R < U
  · simp [h1]
  · simp only [h1, if_false]
    by_cases h2 : 2 * R = U
    · simp only [h2, if_true]
      rcases Nat.mod_two_eq_zero_or_one k with hk | hk
      · have : (H * E + k) % 2 = 0 := by omega
        simp [this, hk]
      · have : ¬ ((H * E + k) % 2 = 0) := by omega
        simp [this, hk]
    · simp [h2]

theorem set_take_succ (hi lo : List Nat) (x v : Nat) :
    ((hi ++ x :: lo).set hi.length v).take (hi.length + 1) = hi ++ [v] ∧
    ((hi ++ x :: lo).set hi.length v).drop (hi.length + 1) = lo ∧
    ((hi ++ x :: lo).set hi.length v).getD hi.length 0 = v := by
  have hset : (hi ++ x :: lo).set hi.length v = hi ++ v :: lo := by
    rw [List.set_append_right _ _ (Nat.le_refl _)]; simp
  rw [hset]
  refine ⟨?_, ?_, ?_⟩
  · rw [List.take_length_add_append]; simp
  · rw [List.drop_length_add_append]; simp
  · rw [getD_append_r _ _ _ (Nat.le_refl _)]; simp

theorem pow10_dvd_B (rp : Nat) (hp : rp ≤ 8) :
    BBASE = pow10 rp * pow10 (9 - rp) ∧ BBASE / pow10 rp = pow10 (9 - rp) ∧ pow10 (9 - rp) % 2 = 0 ∧ 0 < pow10 rp := by
  have hpos : 0 < pow10 rp := Nat.pow_pos (by decide)
  have e : BBASE = pow10 rp * pow10 (9 - rp) := by
    unfold pow10
    rw [← Nat.pow_add]
    have : rp + (9 - rp) = 9 := by omega
    rw [this]; rfl
  refine ⟨e, ?_, ?_, hpos⟩
  · rw [e, Nat.mul_div_cancel_left _ hpos]
  · unfold pow10
    have : 9 - rp = (9 - rp - 1) + 1 := by omega
    rw [this, Nat.pow_succ]
    omega

open CifModel.Spec.Rounding in
/-- **rounding inside a limb**: with the rounding unit `U = p10·10⁹^(limbs behind limb r)`, `p10 = 10^roundPos`
    (`roundPos ≤ 8`), the limbs `0..r` after the rounding step of to_digits denote `p10 · roundHalfEven(N / U)`, where
    `N` is the number of the whole array -/
theorem round_in_limb (ds : List Nat) (r lsd roundPos : Nat) (hs : Small ds) (hz : ∀ j, lsd < j → ds.getD j 0 = 0)
    (hr : r + 1 < ds.length) (hp : roundPos ≤ 8) :
    natOfLimbs (((if roundPos = 0 then ds else ds.set r (ds.getD r 0 - ds.getD r 0 % pow10 roundPos)).set r
        (pow10 roundPos * roundIt (if roundPos = 0 then ds else ds.set r (ds.getD r 0 - ds.getD r 0 % pow10 roundPos))
          ((if roundPos = 0 then ds else ds.set r (ds.getD r 0 - ds.getD r 0 % pow10 roundPos)).getD r 0 / pow10 roundPos)
          (if roundPos = 0 then ds.getD (r + 1) 0 else (ds.getD r 0 % pow10 roundPos) * (BBASE / pow10 roundPos))
          (if roundPos = 0 then r + 1 else r) lsd)).take (r + 1)) =
      pow10 roundPos * roundHalfEven (natOfLimbs ds) (pow10 roundPos * Bb ^ (ds.length - (r + 1))) := by
  -- the array as  hi ++ x :: lo
  have hrl : r < ds.length := by omega
  have hsplit : ds = ds.take r ++ ds.getD r 0 :: ds.drop (r + 1) := by
    rw [List.getD_eq_getElem?_getD, List.getElem?_eq_getElem hrl]
    simp only [Option.getD_some]
    rw [← List.drop_eq_getElem_cons hrl, List.take_append_drop]
  have hhilen : (ds.take r).length = r := by rw [List.length_take]; omega
  have hlolen : (ds.drop (r + 1)).length = ds.length - (r + 1) := List.length_drop
  have hx : ds.getD r 0 < Bb := by
    rw [List.getD_eq_getElem?_getD, List.getElem?_eq_getElem hrl]
    exact hs _ (List.getElem_mem hrl)
  have hsmlo : Small (ds.drop (r + 1)) := fun y hy => hs y (List.mem_of_mem_drop hy)
  have hT := nat_lt _ hsmlo
  rw [hlolen] at hT
  have hN : natOfLimbs ds = natOfLimbs (ds.take r) * (Bb * Bb ^ (ds.length - (r + 1)))
      + ds.getD r 0 * Bb ^ (ds.length - (r + 1)) + natOfLimbs (ds.drop (r + 1)) := by
    conv => lhs; rw [hsplit]
    rw [nat_append, nat_cons, List.length_cons, hlolen, Nat.pow_succ]
    grind
  obtain ⟨hB, hBdiv, hEeven, hp10pos⟩ := pow10_dvd_B roundPos hp
  generalize hhi : ds.take r = hi at *
  generalize hlo : ds.drop (r + 1) = lo at *
  generalize hxx : ds.getD r 0 = x at *
  generalize hW : Bb ^ (ds.length - (r + 1)) = W at *
  generalize hH : natOfLimbs hi = H at *
  generalize hTT : natOfLimbs lo = T at *
  have hWpos : 0 < W := by rw [← hW]; exact Nat.pow_pos Bb_pos
  subst hhilen
  have hBB : Bb = BBASE := rfl
  by_cases hrp : roundPos = 0
  · -- the rounding position is a limb boundary: the check value is the next limb
    subst hrp
    simp only [if_true]
    have hp1 : pow10 0 = 1 := rfl
    rw [hp1]
    simp only [Nat.one_mul, Nat.div_one]
    rw [hsplit, (set_take_succ hi lo x _).1, nat_snoc, hH]
    rw [← hsplit, hxx]
    -- the limb behind
    have hlo1 : 0 < lo.length := by rw [hlolen]; omega
    obtain ⟨y, lo', hlo'⟩ : ∃ y lo', lo = y :: lo' := by
      cases lo with
      | nil => simp at hlo1
      | cons y t => exact ⟨y, t, rfl⟩
    have hy : ds.getD (hi.length + 1) 0 = y := by
      rw [hsplit, getD_append_r _ _ _ (by omega)]
      have : hi.length + 1 - hi.length = 1 := by omega
      rw [this, hlo']; rfl
    have hdrop2 : ds.drop (hi.length + 1 + 1) = lo' := by
      have : ds.drop (hi.length + 1 + 1) = (ds.drop (hi.length + 1)).drop 1 := by rw [List.drop_drop]
      rw [this, hlo, hlo']; rfl
    have hysm : y < Bb := hsmlo y (by rw [hlo']; simp)
    have hT' : natOfLimbs lo' < Bb ^ lo'.length := nat_lt _ (fun z hz' => hsmlo z (by rw [hlo']; simp [hz']))
    have hTeq : T = y * Bb ^ lo'.length + natOfLimbs lo' := by rw [← hTT, hlo', nat_cons]
    have hWeq : W = Bb * Bb ^ lo'.length := by
      rw [← hW]
      have : ds.length - (hi.length + 1) = lo'.length + 1 := by
        have := congrArg List.length hlo'
        simp only [List.length_cons] at this
        omega
      rw [this, Nat.pow_succ, Nat.mul_comm]
    have htz := tail_zero_iff' ds (hi.length + 1) lsd hz
    rw [hdrop2] at htz
    rw [hy]
    generalize natOfLimbs lo' = T' at *
    generalize Bb ^ lo'.length = W' at *
    have hW'pos : 0 < W' := by omega
    -- N = (H·B + x)·W + T
    have hNq : natOfLimbs ds = (H * Bb + x) * W + T := by rw [hN]; grind
    rw [hNq, rhe_decomp H x Bb W T (by decide) hT]
    have hB2 : BBASE / 2 = 500000000 := by decide
    have hBv : Bb = 1000000000 := rfl
    obtain ⟨c1, c2, c3⟩ := roundIt_cases ds x y (hi.length + 1) lsd
    by_cases k1 : y < 500000000
    · rw [c1 (by rw [hB2]; exact k1)]
      have : 2 * T < W := by
        have : (y + 1) * W' ≤ 500000000 * W' := Nat.mul_le_mul_right _ k1
        have e1 : (y + 1) * W' = y * W' + W' := by grind
        have e2 : Bb * W' = 2 * (500000000 * W') := by rw [hBv]; grind
        omega
      simp [this]
    · by_cases k2 : y = 500000000 ∧ (hi.length + 1 = lsd ∨ isZero ds (ds.getD (hi.length + 1 + 1) 0) (hi.length + 1 + 1) lsd = true)
      · rw [c2 (by rw [hB2]; exact k2.1) k2.2]
        have hT0 : T' = 0 := htz.mp k2.2
        have heq : 2 * T = W := by rw [hTeq, hT0, k2.1, hWeq, hBv]; grind
        have n1 : ¬ (2 * T < W) := by omega
        rw [if_neg n1, if_pos heq]
        by_cases hx2 : x % 2 = 1
        · simp only [hx2, if_true]; omega
        · simp only [hx2, if_false]; omega
      · rw [c3 (by rw [hB2]; omega) (by rw [hB2]; exact k2)]
        have hgt : W < 2 * T := by
          by_cases hy5 : y = 500000000
          · have : T' ≠ 0 := fun e => k2 ⟨hy5, htz.mpr e⟩
            rw [hTeq, hy5, hWeq, hBv]
            have : 1000000000 * W' = 2 * (500000000 * W') := by grind
            omega
          · have hy6 : 500000001 ≤ y := by omega
            have : 500000001 * W' ≤ y * W' := Nat.mul_le_mul_right _ hy6
            have e2 : Bb * W' = 2 * (500000000 * W') := by rw [hBv]; grind
            have e3 : 500000001 * W' = 500000000 * W' + W' := by grind
            omega
        have n1 : ¬ (2 * T < W) := by omega
        have n2 : ¬ (2 * T = W) := by omega
        simp only [n1, n2, if_false]
        omega
  · -- inside a limb
    simp only [hrp, if_false]
    generalize hp10 : pow10 roundPos = p10 at *
    generalize hE : pow10 (9 - roundPos) = E at *
    have hdm : p10 * (x / p10) + x % p10 = x := Nat.div_add_mod x p10
    have hc : x % p10 < p10 := Nat.mod_lt _ hp10pos
    generalize hk : x / p10 = k at *
    generalize hcc : x % p10 = c at *
    have hxc : x - c = p10 * k := by omega
    rw [hxc]
    -- the cleared array
    have hcl : ds.set hi.length (p10 * k) = hi ++ (p10 * k) :: lo := by
      rw [hsplit, List.set_append_right _ _ (Nat.le_refl _)]; simp
    have hclget : (ds.set hi.length (p10 * k)).getD hi.length 0 = p10 * k := by
      rw [hcl, getD_append_r _ _ _ (Nat.le_refl _)]; simp
    rw [hclget, Nat.mul_div_cancel_left _ hp10pos, List.set_set]
    rw [hsplit, (set_take_succ hi lo x _).1, nat_snoc, hH, ← hsplit]
    -- zeros behind lsd in the cleared array
    have hzc : ∀ j, lsd < j → (ds.set hi.length (p10 * k)).getD j 0 = 0 := by
      intro j hj
      by_cases hjr : j = hi.length
      · rw [hjr, hclget]
        have := hz hi.length (by omega)
        rw [hxx] at this
        rw [this] at hdm
        have : p10 * k = 0 := by omega
        exact this
      · rw [List.getD_eq_getElem?_getD, List.getElem?_set_ne (fun e => hjr e.symm), ← List.getD_eq_getElem?_getD]
        exact hz j hj
    have htz := tail_zero_iff' (ds.set hi.length (p10 * k)) hi.length lsd hzc
    have hdropc : (ds.set hi.length (p10 * k)).drop (hi.length + 1) = lo := by
      rw [hcl, List.drop_length_add_append]; simp
    rw [hdropc, hTT] at htz
    -- N = (H·E + k)·(p10·W) + (c·W + T)
    have hBE : Bb = p10 * E := by rw [hBB]; exact hB
    have hNq : natOfLimbs ds = (H * E + k) * (p10 * W) + (c * W + T) := by
      rw [hN, ← hdm, hBE]; grind
    have hRlt : c * W + T < p10 * W := by
      have : (c + 1) * W ≤ p10 * W := Nat.mul_le_mul_right _ hc
      have e : (c + 1) * W = c * W + W := by grind
      omega
    rw [hNq, rhe_decomp H k E (p10 * W) (c * W + T) hEeven hRlt]
    have hB2 : BBASE / 2 = p10 * (E / 2) := by
      rw [hB]
      have : E = 2 * (E / 2) := by omega
      conv => lhs; rw [this]
      rw [← Nat.mul_assoc, Nat.mul_comm (p10) 2, Nat.mul_assoc, Nat.mul_div_cancel_left _ (by decide : 0 < 2)]
    have hE2 : E = 2 * (E / 2) := by omega
    generalize E / 2 = E2 at *
    have hE2pos : 0 < E2 := by
      rcases Nat.eq_zero_or_pos E2 with h0 | h0
      · rw [h0] at hE2
        have : 0 < E := by rw [← hE]; exact Nat.pow_pos (by decide)
        omega
      · exact h0
    -- comparison of the check value c·E with B/2 = p10·E2  ⇔  comparison of 2c with p10
    have cmp_lt : c * E < p10 * E2 ↔ 2 * c < p10 := by
      rw [hE2]
      constructor
      · intro h
        apply Nat.lt_of_mul_lt_mul_right (a := E2)
        calc 2 * c * E2 = c * (2 * E2) := by grind
          _ < p10 * E2 := h
      · intro h
        calc c * (2 * E2) = 2 * c * E2 := by grind
          _ < p10 * E2 := Nat.mul_lt_mul_of_pos_right h hE2pos
    have cmp_eq : c * E = p10 * E2 ↔ 2 * c = p10 := by
      rw [hE2]
      constructor
      · intro h
        apply Nat.eq_of_mul_eq_mul_right hE2pos
        calc 2 * c * E2 = c * (2 * E2) := by grind
          _ = p10 * E2 := h
      · intro h
        calc c * (2 * E2) = 2 * c * E2 := by grind
          _ = p10 * E2 := by rw [h]
    rw [hBdiv]
    obtain ⟨c1, c2, c3⟩ := roundIt_cases (ds.set hi.length (p10 * k)) k (c * E) hi.length lsd
    rw [hB2] at c1 c2 c3
    have hdist : p10 * (H * E + k + 0) = H * Bb + p10 * k := by rw [hBE]; grind
    by_cases k1 : 2 * c < p10
    · rw [c1 (cmp_lt.mpr k1)]
      -- p10 is even here, so 2c ≤ p10 - 2
      have hpe : p10 % 2 = 0 := by
        rw [← hp10]; unfold pow10
        have : roundPos = (roundPos - 1) + 1 := by omega
        rw [this, Nat.pow_succ]; omega
      have : 2 * (c * W + T) < p10 * W := by
        have h2 : (2 * c + 2) * W ≤ p10 * W := Nat.mul_le_mul_right _ (by omega)
        have e : (2 * c + 2) * W = 2 * (c * W) + 2 * W := by grind
        omega
      simp only [this, if_true]
      rw [hBE]; grind
    · by_cases k2 : 2 * c = p10 ∧ T = 0
      · have hz2 := htz.mpr k2.2
        rw [c2 (cmp_eq.mpr k2.1) hz2]
        have heq : 2 * (c * W + T) = p10 * W := by rw [k2.2, ← k2.1]; grind
        have n1 : ¬ (2 * (c * W + T) < p10 * W) := by omega
        rw [if_neg n1, if_pos heq, hBE]
        by_cases hk2 : k % 2 = 1
        · simp only [hk2, if_true]; grind
        · simp only [hk2, if_false]; grind
      · have hge : p10 * E2 ≤ c * E := by
          rcases Nat.lt_or_ge (c * E) (p10 * E2) with hh | hh
          · exact absurd (cmp_lt.mp hh) k1
          · exact hh
        have hnot : ¬ (c * E = p10 * E2 ∧ (hi.length = lsd ∨
            isZero (ds.set hi.length (p10 * k)) ((ds.set hi.length (p10 * k)).getD (hi.length + 1) 0) (hi.length + 1) lsd = true)) := by
          intro hh
          exact k2 ⟨cmp_eq.mp hh.1, htz.mp hh.2⟩
        rw [c3 hge hnot]
        have hgt : p10 * W < 2 * (c * W + T) := by
          by_cases hceq : 2 * c = p10
          · have : T ≠ 0 := fun e => k2 ⟨hceq, e⟩
            rw [← hceq]
            have : 2 * (c * W + T) = 2 * c * W + 2 * T := by grind
            omega
          · have hpe : p10 % 2 = 0 := by
              rw [← hp10]; unfold pow10
              have : roundPos = (roundPos - 1) + 1 := by omega
              rw [this, Nat.pow_succ]; omega
            have h2 : (p10 + 2) * W ≤ 2 * c * W := Nat.mul_le_mul_right _ (by omega)
            have e : (p10 + 2) * W = p10 * W + 2 * W := by grind
            have e2 : 2 * (c * W + T) = 2 * c * W + 2 * T := by grind
            omega
        have n1 : ¬ (2 * (c * W + T) < p10 * W) := by omega
        have n2 : ¬ (2 * (c * W + T) = p10 * W) := by omega
        simp only [n1, n2, if_false]
        rw [hBE]; grind

end CifModel.Lemmas.NumbLimbDigits
