import CifModel.Lemmas.HeapMap
import CifModel.Lemmas.Value
/-
  Lemmas about Model/Heap, level D: cif_packet_create over a whole name list (with the CIF_DUP_ITEMNAME refusal of
  c571e89) and cif_packet_free.
-/
namespace CifModel.Model.Heap
open CifModel

/-! ### releasing a list of blocks -/

theorem freeList_spec : ∀ (l : List Nat) (h : Heap), (∀ a, a ∈ l → (h.cell a).isSome = true) → l.Nodup →
    ∃ h', freeList h l = some h' ∧ Cleared h h' l
  | [], h, _, _ => ⟨h, rfl, Cleared.nil h⟩
  | a :: l, h, hl, hnd => by
    obtain ⟨c, hc⟩ := Option.isSome_iff_exists.mp (hl a (by simp))
    obtain ⟨h1, hf, c1⟩ := Cleared.free h a c hc
    have hnd' := List.nodup_cons.mp hnd
    obtain ⟨h2, hf2, c2⟩ := freeList_spec l h1 (fun x hx => by
      rw [c1.2 x]
      have : x ≠ a := fun e => hnd'.1 (e ▸ hx)
      simp [this, hl x (by simp [hx])]) hnd'.2
    refine ⟨h2, by simp [freeList, hf, hf2], ?_⟩
    have := c1.trans c2
    simpa using this

/-! ### the normalised names -/

theorem allocStrs_spec : ∀ (ss : List Str) (h : Heap) (kas : List Nat) (h1 : Heap), h.WF → allocStrs h ss = (kas, h1) →
    Ext h h1 ∧ h1.next = h.next + ss.length ∧ kas = List.range' h.next ss.length
      ∧ ∀ p, p ∈ ss.zip kas → h1.cell p.2 = some (.str p.1)
  | [], h, kas, h1, hw, hb => by
    simp only [allocStrs, Prod.mk.injEq] at hb
    obtain ⟨rfl, rfl⟩ := hb
    exact ⟨Ext.refl h hw, by simp, by simp, fun p hp => by simp at hp⟩
  | s :: ss, h, kas, h1, hw, hb => by
    simp only [allocStrs] at hb
    generalize hr : allocStrs (alloc h (.str s)).2 ss = r at hb
    obtain ⟨as, h2⟩ := r
    simp only [alloc_fst, Prod.mk.injEq] at hb
    obtain ⟨rfl, rfl⟩ := hb
    have e1 := Ext.alloc h (.str s) hw
    obtain ⟨e2, hn, has, hcells⟩ := allocStrs_spec ss _ as _ e1.wf hr
    rw [alloc_next] at hn has
    refine ⟨e1.trans e2, by rw [hn]; simp; omega, by rw [has]; simp [List.range'], ?_⟩
    intro p hp
    simp only [List.zip_cons_cons, List.mem_cons] at hp
    rcases hp with rfl | hp
    · simp only
      rw [e2.frame h.next (by rw [alloc_next]; omega)]
      simp [alloc_cell]
    · exact hcells p hp

/-! ### the entries -/

/-- the association list a packet has right after cif_packet_create_norm: each name is its own original spelling -/
def triples (pairs : List (Str × Nat)) : List (Str × Str × V) := pairs.map (fun p => (p.1, p.1, V.unk))

theorem triples_append (a b : List (Str × Nat)) : triples (a ++ b) = triples a ++ triples b := by simp [triples]

theorem mapFind_triples_none (pairs : List (Str × Nat)) (nk : Str) (h : ∀ p, p ∈ pairs → p.1 ≠ nk) :
    Value.mapFind (triples pairs) nk = none := by
  induction pairs with
  | nil => rfl
  | cons p ps ih =>
    simp only [triples, List.map_cons, Value.mapFind]
    have : ¬ p.1 = nk := h p (by simp)
    simp only [this, if_false]
    exact ih (fun q hq => h q (by simp [hq]))

theorem mapFind_triples_some (pairs : List (Str × Nat)) (nk : Str) (p : Str × Nat) (hp : p ∈ pairs) (hk : p.1 = nk) :
    (Value.mapFind (triples pairs) nk).isSome = true := by
  induction pairs with
  | nil => cases hp
  | cons q qs ih =>
    simp only [triples, List.map_cons, Value.mapFind]
    by_cases hq : q.1 = nk
    · simp [hq]
    · simp only [hq, if_false]
      rcases List.mem_cons.mp hp with rfl | hp'
      · exact absurd hk hq
      · exact ih hp'

theorem mapFind_append_some (a b : List (Str × Str × V)) (k : Str) (h : (Value.mapFind a k).isSome = true) :
    (Value.mapFind (a ++ b) k).isSome = true := by
  induction a with
  | nil => simp [Value.mapFind] at h
  | cons q qs ih =>
    simp only [List.cons_append, Value.mapFind] at h ⊢
    split
    · rfl
    · rename_i hq; simp only [hq, if_false] at h; exact ih h

/-- one step of the entry loop on a represented list: a fresh entry block aliasing the name's block as both keys -/
theorem RepEntry_alias (g : Heap) (e ka : Nat) (nk : Str) (he : g.cell e = some (.entry .unk ka ka))
    (hka : g.cell ka = some (.str nk)) (hne : e ≠ ka) : RepEntry g e nk nk .unk [ka, e] :=
  ⟨.unk, ka, ka, [], he, hka, hka, by simp [Rep], by simp, by simp, by simp, hne, hne, Or.inl ⟨rfl, by simp⟩⟩

/-- **the entry loop of cif_packet_create_norm**: `used` = the names processed before the loop ended; on `true` that is
    all of them and no two are equal; on `false` the next name equals an earlier one and its block has been released. -/
theorem addEntries_spec : ∀ (rest : List (Str × Nat)) (g : Heap) (ents : List Nat) (done : List (Str × Nat)) (F : List Nat),
    g.WF → RepEntries g ents (triples done) F → (∀ a, a ∈ F → a < g.next) →
    (∀ p, p ∈ rest → g.cell p.2 = some (.str p.1) ∧ p.2 < g.next ∧ p.2 ∉ F) → (rest.map (·.2)).Nodup →
    ∃ ok ents' g' F' used newEnts, addEntries g ents rest = some (ok, ents', g') ∧ g'.WF ∧ g.next ≤ g'.next
      ∧ (∀ a, a < g.next → g'.cell a = g.cell a)
      ∧ RepEntries g' ents' (triples (done ++ used)) F'
      ∧ ents' = ents ++ newEnts ∧ newEnts.Nodup ∧ (∀ e, e ∈ newEnts → g.next ≤ e ∧ e < g'.next)
      ∧ (∀ a, a ∈ F' ↔ (a ∈ F ∨ (∃ p, p ∈ used ∧ a = p.2) ∨ a ∈ newEnts))
      ∧ (∀ a, g.next ≤ a → a < g'.next → a ∉ newEnts → g'.cell a = none)
      ∧ (ok = true → used = rest ∧ ∀ p, p ∈ rest → Value.mapFind (triples done) p.1 = none)
      ∧ (ok = false → ∃ p tail, rest = used ++ p :: tail ∧ (Value.mapFind (triples (done ++ used)) p.1).isSome = true)
      ∧ (Value.nodupKeys (triples done) = true → Value.nodupKeys (triples (done ++ used)) = true)
  | [], g, ents, done, F, hw, hr, hF, _, _ => by
    refine ⟨true, ents, g, F, [], [], rfl, hw, Nat.le_refl _, fun _ _ => rfl, by simpa using hr, by simp, List.nodup_nil,
      ?_, ?_, ?_, ?_, ?_, ?_⟩
    · intro e he; cases he
    · intro a; simp
    · intro a h1 h2; omega
    · intro _; exact ⟨rfl, fun p hp => by cases hp⟩
    · intro h; cases h
    · intro h; simpa using h
  | (nk, ka) :: rest, g, ents, done, F, hw, hr, hF, hrest, hnd => by
    have hhead := hrest (nk, ka) (by simp)
    simp only at hhead
    obtain ⟨hkacell, hkalt, hkaF⟩ := hhead
    have e1 := Ext.alloc g (.entry .unk ka ka) hw
    generalize hg1 : (alloc g (.entry .unk ka ka)).2 = g1 at e1
    have hn1 : g1.next = g.next + 1 := by rw [← hg1]; rfl
    have hecell : g1.cell g.next = some (.entry .unk ka ka) := by rw [← hg1]; simp [alloc_cell]
    have hr1 : RepEntries g1 ents (triples done) F := RepEntries_congr g g1 _ ents F (fun a ha => e1.frame a (hF a ha)) hr
    have hnd' : ka ∉ rest.map (·.2) ∧ (rest.map (·.2)).Nodup := by
      simp only [List.map_cons] at hnd
      exact List.nodup_cons.mp hnd
    rcases RepEntries_find g1 (triples done) ents F nk hr1 with ⟨hmf, hfe⟩ | ⟨e', ko', v', Fe', hmf, hfe, _⟩
    · -- a new name: the entry is linked and the loop goes on
      have hka1 : g1.cell ka = some (.str nk) := by rw [e1.frame ka hkalt]; exact hkacell
      have hre : RepEntry g1 g.next nk nk .unk [ka, g.next] := RepEntry_alias g1 g.next ka nk hecell hka1 (by omega)
      have happ := RepEntries_append g1 (triples done) ents F g.next nk nk .unk [ka, g.next] hr1 hre (by
        intro a ha hb
        simp only [List.mem_cons, List.not_mem_nil, or_false] at hb
        rcases hb with hb | hb
        · exact hkaF (hb ▸ ha)
        · have := hF a ha; omega)
      have happ' : RepEntries g1 (ents ++ [g.next]) (triples (done ++ [(nk, ka)])) (F ++ [ka, g.next]) := by
        simpa [triples] using happ
      obtain ⟨ok, ents', g', F', used, newEnts, hop, hw', hle', hfr', hrep', hents', hnd2, hrange', hmem', hnone', hok', hfalse', hnodup'⟩ :=
        addEntries_spec rest g1 (ents ++ [g.next]) (done ++ [(nk, ka)]) (F ++ [ka, g.next]) e1.wf happ'
          (by
            intro a ha
            simp only [List.mem_append, List.mem_cons, List.not_mem_nil, or_false] at ha
            rw [hn1]
            rcases ha with ha | ha | ha
            · have := hF a ha; omega
            · omega
            · omega)
          (by
            intro p hp
            obtain ⟨h1', h2', h3'⟩ := hrest p (by simp [hp])
            refine ⟨by rw [e1.frame p.2 h2']; exact h1', by rw [hn1]; omega, ?_⟩
            intro hm
            simp only [List.mem_append, List.mem_cons, List.not_mem_nil, or_false] at hm
            rcases hm with hm | hm | hm
            · exact h3' hm
            · exact hnd'.1 (by rw [← hm]; exact List.mem_map.mpr ⟨p, hp, rfl⟩)
            · omega)
          hnd'.2
      refine ⟨ok, ents', g', F', (nk, ka) :: used, g.next :: newEnts, ?_, hw', by omega, ?_, ?_, ?_, ?_, ?_, ?_, ?_, ?_, ?_, ?_⟩
      · simp only [addEntries, alloc_fst]
        rw [hg1]
        simp only [hfe]
        exact hop
      · intro a ha; rw [hfr' a (by omega), e1.frame a ha]
      · simpa [List.append_assoc] using hrep'
      · rw [hents']; simp
      · refine List.nodup_cons.mpr ⟨?_, hnd2⟩
        intro hm; have := (hrange' _ hm).1; omega
      · intro e he
        rcases List.mem_cons.mp he with rfl | he'
        · omega
        · have := hrange' e he'; omega
      · intro a
        rw [hmem' a]
        simp only [List.mem_append, List.mem_cons, List.not_mem_nil, or_false]
        constructor
        · rintro ((h1' | h1' | h1') | ⟨p, hp, hpa⟩ | h1')
          · exact Or.inl h1'
          · exact Or.inr (Or.inl ⟨(nk, ka), Or.inl rfl, h1'⟩)
          · exact Or.inr (Or.inr (Or.inl h1'))
          · exact Or.inr (Or.inl ⟨p, Or.inr hp, hpa⟩)
          · exact Or.inr (Or.inr (Or.inr h1'))
        · rintro (h1' | ⟨p, hp | hp, hpa⟩ | h1' | h1')
          · exact Or.inl (Or.inl h1')
          · subst hp; exact Or.inl (Or.inr (Or.inl hpa))
          · exact Or.inr (Or.inl ⟨p, hp, hpa⟩)
          · exact Or.inl (Or.inr (Or.inr h1'))
          · exact Or.inr (Or.inr h1')
      · intro a h1' h2' hna
        simp only [List.mem_cons, not_or] at hna
        exact hnone' a (by omega) h2' hna.2
      · intro hok
        obtain ⟨hu, hall⟩ := hok' hok
        refine ⟨by rw [hu], ?_⟩
        intro p hp
        rcases List.mem_cons.mp hp with rfl | hp'
        · exact hmf
        · have := hall p hp'
          rw [triples_append] at this
          -- absent from the longer list ⇒ absent from `done`
          cases hd : Value.mapFind (triples done) p.1 with
          | none => rfl
          | some e =>
            exfalso
            have hsome := mapFind_append_some (triples done) (triples [(nk, ka)]) p.1 (by rw [hd]; rfl)
            rw [this] at hsome; cases hsome
      · intro hok
        obtain ⟨p, tail, hsplit, hsome⟩ := hfalse' hok
        exact ⟨p, tail, by rw [hsplit]; rfl, by simpa [List.append_assoc] using hsome⟩
      · intro hnd0
        have h1' : Value.nodupKeys (triples (done ++ [(nk, ka)])) = true := by
          rw [triples_append]
          exact Value.nodup_append (triples done) (nk, nk, .unk) hnd0 hmf
        have := hnodup' h1'
        simpa [List.append_assoc] using this
    · -- a name that is already present: the new block is released, the loop stops
      obtain ⟨g2, hf2, hn2, hc2⟩ := free_spec g1 g.next _ hecell
      refine ⟨false, ents, g2, F, [], [], ?_, ?_, by rw [hn2, hn1]; omega, ?_, ?_, by simp, List.nodup_nil,
        (fun e he => by cases he), (fun a => by simp), ?_, (fun h => by cases h), ?_, (fun h => by simpa using h)⟩
      · simp only [addEntries, alloc_fst]
        rw [hg1]
        simp only [hfe, hf2]
      · intro a ha; rw [hn2] at ha; rw [hc2]
        split
        · rfl
        · exact e1.wf a ha
      · intro a ha
        have : a ≠ g.next := by omega
        rw [hc2]; simp only [this, if_false]; exact e1.frame a ha
      · simp only [List.append_nil]
        apply RepEntries_congr g1 g2 _ ents F _ hr1
        intro a ha
        have : a ≠ g.next := by have := hF a ha; omega
        rw [hc2]; simp [this]
      · intro a h1' h2' _
        rw [hn2, hn1] at h2'
        have : a = g.next := by omega
        rw [hc2]; simp [this]
      · intro _
        exact ⟨(nk, ka), rest, by simp, by simp [hmf]⟩


/-! ### the original spellings -/

theorem free_next (h h' : Heap) (a : Nat) (hf : free h a = some h') : h'.next = h.next := by
  unfold free at hf
  split at hf
  · cases hf
  · simp only [Option.some.injEq] at hf; rw [← hf]

theorem write_next (h h' : Heap) (a : Nat) (c : Cell) (hf : write h a c = some h') : h'.next = h.next := by
  unfold write at hf
  split at hf
  · cases hf
  · simp only [Option.some.injEq] at hf; rw [← hf]

theorem entryRespell_next_le (pinned : Bool) (h h' : Heap) (e : Nat) (key : Str) (hop : entryRespell pinned h e key = some h') :
    h.next ≤ h'.next := by
  unfold entryRespell at hop
  split at hop
  · split at hop
    · split at hop
      · simp only [Option.some.injEq] at hop; rw [← hop]; exact Nat.le_refl _
      · simp only [alloc] at hop
        split at hop
        · cases hop
        · rename_i g2 hg2
          have := write_next _ _ _ _ hop
          rw [this]
          split at hg2
          · have := free_next _ _ _ hg2; rw [this]; simp
          · simp only [Option.some.injEq] at hg2; rw [← hg2]; simp
    · cases hop
  · cases hop

/-- **the second loop of cif_packet_create**: every entry takes the spelling given for it; nothing outside the entries is
    touched, what is dropped is released, what is allocated is owned -/
theorem setOrigs_spec : ∀ (names : List (Str × Str)) (ents : List Nat) (g : Heap) (F : List Nat), g.WF →
    RepEntries g ents (names.map (fun n => (n.2, n.2, V.unk))) F → (∀ a, a ∈ F → a < g.next) →
    ∃ g' F', setOrigs g (ents.zip names) = some g' ∧ RepEntries g' ents (names.map (fun n => (n.2, n.1, V.unk))) F'
      ∧ g'.WF ∧ g.next ≤ g'.next
      ∧ (∀ a, a < g.next → a ∉ F → g'.cell a = g.cell a)
      ∧ (∀ a, a ∈ F → a ∉ F' → g'.cell a = none)
      ∧ (∀ a, g.next ≤ a → a < g'.next → a ∈ F')
      ∧ (∀ a, a ∈ F' → a < g'.next)
      ∧ (∀ a, a ∈ F' → a ∈ F ∨ g.next ≤ a)
  | [], ents, g, F, hw, hr, hF => by
    simp only [List.map_nil, RepEntries] at hr
    obtain ⟨rfl, rfl⟩ := hr
    exact ⟨g, [], rfl, by simp [RepEntries], hw, Nat.le_refl _, fun _ _ _ => rfl, (fun a ha => by cases ha),
      (fun a h1 h2 => by omega), (fun a ha => by cases ha), (fun a ha => by cases ha)⟩
  | n :: names, ents, g, F, hw, hr, hF => by
    simp only [List.map_cons] at hr
    obtain ⟨e0, ents', Fe0, F2, rfl, hre0, hrest, hdis, rfl⟩ := (RepEntries_cons g ents n.2 n.2 .unk _ F).mp hr
    have hFe0 : ∀ a, a ∈ Fe0 → a < g.next := fun a ha => hF a (List.mem_append_left _ ha)
    have hF2 : ∀ a, a ∈ F2 → a < g.next := fun a ha => hF a (List.mem_append_right _ ha)
    obtain ⟨g1, Fe0', hop1, hre1, hw1, _, hfr1, hdrop1, hown1, hlt1, hsub1⟩ :=
      entryRespell_spec g hw e0 n.2 n.2 .unk Fe0 n.1 hre0 hFe0
    have hle1 := entryRespell_next_le false g g1 e0 n.1 hop1
    have hrest1 : RepEntries g1 ents' (names.map (fun n => (n.2, n.2, V.unk))) F2 :=
      RepEntries_congr g g1 _ ents' F2 (fun a ha => hfr1 a (hF2 a ha) (fun hm => hdis a hm ha)) hrest
    obtain ⟨g', F2', hop2, hrep2, hw2, hle2, hfr2, hdrop2, hown2, hlt2, hsub2⟩ :=
      setOrigs_spec names ents' g1 F2 hw1 hrest1 (fun a ha => by have := hF2 a ha; omega)
    have hFe0'notF2 : ∀ a, a ∈ Fe0' → a ∉ F2 := by
      intro a ha hb
      rcases hsub1 a ha with hh | hh
      · exact hdis a hh hb
      · have := hF2 a hb; omega
    have hre' : RepEntry g' e0 n.2 n.1 .unk Fe0' :=
      RepEntry_congr g1 g' e0 n.2 n.1 .unk Fe0' (fun a ha => hfr2 a (hlt1 a ha) (hFe0'notF2 a ha)) hre1
    refine ⟨g', Fe0' ++ F2', ?_, ?_, hw2, by omega, ?_, ?_, ?_, ?_, ?_⟩
    · simp only [List.zip_cons_cons, setOrigs, hop1]; exact hop2
    · simp only [List.map_cons]
      apply (RepEntries_cons g' _ n.2 n.1 .unk _ _).mpr
      refine ⟨e0, ents', Fe0', F2', rfl, hre', hrep2, ?_, rfl⟩
      intro a ha hb
      rcases hsub2 a hb with hh | hh
      · exact hFe0'notF2 a ha hh
      · have := hlt1 a ha; omega
    · intro a ha hna
      have hn1 : a ∉ Fe0 := fun hm => hna (List.mem_append_left _ hm)
      have hn2 : a ∉ F2 := fun hm => hna (List.mem_append_right _ hm)
      rw [hfr2 a (by omega) hn2, hfr1 a ha hn1]
    · intro a ha hna
      simp only [List.mem_append, not_or] at hna
      rcases List.mem_append.mp ha with ha | ha
      · have hn2 : a ∉ F2 := fun hm => hdis a ha hm
        rw [hfr2 a (by have := hFe0 a ha; omega) hn2]
        exact hdrop1 a ha hna.1
      · exact hdrop2 a ha hna.2
    · intro a h1 h2
      simp only [List.mem_append]
      by_cases hlt : a < g1.next
      · exact Or.inl (hown1 a h1 hlt)
      · exact Or.inr (hown2 a (by omega) h2)
    · intro a ha
      rcases List.mem_append.mp ha with ha | ha
      · have := hlt1 a ha; omega
      · exact hlt2 a ha
    · intro a ha
      rcases List.mem_append.mp ha with ha | ha
      · rcases hsub1 a ha with hh | hh
        · exact Or.inl (List.mem_append_left _ hh)
        · exact Or.inr hh
      · rcases hsub2 a ha with hh | hh
        · exact Or.inl (List.mem_append_right _ hh)
        · exact Or.inr (by omega)


/-! ### cif_packet_create -/

theorem mapFind_triples_mem (pairs : List (Str × Nat)) (nk : Str) (h : (Value.mapFind (triples pairs) nk).isSome = true) :
    ∃ q, q ∈ pairs ∧ q.1 = nk := by
  apply Classical.byContradiction
  intro hn
  have := mapFind_triples_none pairs nk (fun p hp he => hn ⟨p, hp, he⟩)
  rw [this] at h; cases h

theorem nodup_of_nodupKeys_triples : ∀ (pairs : List (Str × Nat)), Value.nodupKeys (triples pairs) = true →
    (pairs.map (·.1)).Nodup
  | [], _ => List.nodup_nil
  | p :: ps, h => by
    simp only [triples, List.map_cons, Value.nodupKeys, Bool.and_eq_true, Option.isNone_iff_eq_none] at h
    simp only [List.map_cons]
    refine List.nodup_cons.mpr ⟨?_, nodup_of_nodupKeys_triples ps h.2⟩
    intro hm
    obtain ⟨q, hq, hqe⟩ := List.mem_map.mp hm
    have := mapFind_triples_some ps p.1 q hq hqe
    simp only [triples] at this
    rw [h.1] at this; cases this

theorem RepEntries_ents_live : ∀ (es : List (Str × Str × V)) (h : Heap) (ents : List Nat) (F : List Nat),
    RepEntries h ents es F → ∀ e, e ∈ ents → (h.cell e).isSome = true ∧ e ∈ F
  | [], h, ents, F, hr, e, he => by
    simp only [RepEntries] at hr; rw [hr.1] at he; cases he
  | (k, ko, v) :: es, h, ents, F, hr, e, he => by
    obtain ⟨e0, ents', Fe0, F2, rfl, hre0, hrest, _, rfl⟩ := (RepEntries_cons h ents k ko v es F).mp hr
    rcases List.mem_cons.mp he with rfl | he'
    · have hm := RepEntry_mem h e k ko v Fe0 hre0
      obtain ⟨hv, ka, koa, F1, hc, _⟩ := hre0
      exact ⟨by rw [hc]; rfl, List.mem_append_left _ hm⟩
    · have := RepEntries_ents_live es h ents' F2 hrest e he'
      exact ⟨this.1, List.mem_append_right _ this.2⟩

/-- **`cif_packet_create` over a whole name list** (names given with their normalised forms).
    Names that are pairwise different as data names: the call touches live blocks only and yields a standalone packet whose
    entries represent, in the order given, each name under its original spelling with the unknown value; the temporary
    array of normalised names is released; nothing that existed before is touched; every block allocated and still live is
    the packet block or owned by an entry.
    Two names for one item: CIF_DUP_ITEMNAME, and every block allocated on the way — array, normalised names, packet, the
    entries made so far — has been released: the heap is exactly what it was. -/
theorem packetCreateH_spec (h : Heap) (hw : h.WF) (names : List (Str × Str)) :
    ((names.map (·.2)).Nodup →
      ∃ p ents h' F, packetCreateH h names = some (some (p, ents), h') ∧ h'.cell p = some (.pkt ents true)
        ∧ RepEntries h' ents (names.map (fun n => (n.2, n.1, V.unk))) F ∧ h'.WF
        ∧ (∀ a, a < h.next → h'.cell a = h.cell a) ∧ p ∉ F ∧ h.next ≤ p
        ∧ (∀ a, a ∈ F → h.next ≤ a ∧ a < h'.next)
        ∧ (∀ a, h.next ≤ a → (h'.cell a).isSome = true → a = p ∨ a ∈ F))
    ∧ (¬ (names.map (·.2)).Nodup →
      ∃ h', packetCreateH h names = some (none, h') ∧ ∀ a, h'.cell a = h.cell a) := by
  -- the common prefix of both outcomes
  have e0 := Ext.alloc h (.arr [] (names.length + 1)) hw
  generalize hh0 : (alloc h (.arr [] (names.length + 1))).2 = h0 at e0
  have hn0 : h0.next = h.next + 1 := by rw [← hh0]; rfl
  have harr0 : h0.cell h.next = some (.arr [] (names.length + 1)) := by rw [← hh0]; simp [alloc_cell]
  generalize hks : allocStrs h0 (names.map (·.2)) = r
  obtain ⟨kas, h1⟩ := r
  obtain ⟨e1, hn1, hkas, hkcells⟩ := allocStrs_spec (names.map (·.2)) h0 kas h1 e0.wf hks
  simp only [List.length_map] at hn1 hkas
  have hlen : kas.length = names.length := by rw [hkas]; simp
  have hlenm : (List.map (fun x : Str × Str => x.2) names).length = names.length := List.length_map _
  have e2 := Ext.alloc h1 (.pkt [] false) e1.wf
  generalize hh2 : (alloc h1 (.pkt [] false)).2 = h2 at e2
  have hn2 : h2.next = h1.next + 1 := by rw [← hh2]; rfl
  have hp2 : h2.cell h1.next = some (.pkt [] false) := by rw [← hh2]; simp [alloc_cell]
  have hkarange : ∀ ka, ka ∈ kas → h0.next ≤ ka ∧ ka < h1.next := by
    intro ka hka; rw [hkas] at hka
    have := List.mem_range'.mp hka
    obtain ⟨i, hi, rfl⟩ := this
    rw [hn1]; omega
  have hrestcells : ∀ q, q ∈ (names.map (·.2)).zip kas → h2.cell q.2 = some (.str q.1) ∧ q.2 < h2.next ∧ q.2 ∉ ([] : List Nat) := by
    intro q hq
    have hka : q.2 ∈ kas := (List.of_mem_zip hq).2
    have := hkarange q.2 hka
    refine ⟨by rw [e2.frame q.2 this.2]; exact hkcells q hq, by omega, by simp⟩
  have hsnd : ((names.map (·.2)).zip kas).map (·.2) = kas := by
    rw [List.map_snd_zip]; omega
  have hfst : ((names.map (·.2)).zip kas).map (·.1) = names.map (·.2) := by
    rw [List.map_fst_zip]; omega
  have hkasnd : kas.Nodup := by rw [hkas]; exact List.nodup_range' (h := Nat.one_pos)
  obtain ⟨ok, ents', g, F', used, newEnts, hop, hwg, hleg, hfrg, hrepg, hents, hndn, hrangen, hmemF, hnoneg, hok, hfalse, hnodupk⟩ :=
    addEntries_spec ((names.map (·.2)).zip kas) h2 [] [] [] e2.wf (by simp [triples, RepEntries]) (fun a ha => by cases ha)
      hrestcells (by rw [hsnd]; exact hkasnd)
  try simp only [List.nil_append] at hents
  try simp only [List.nil_append] at hrepg
  try simp only [List.nil_append] at hfalse
  try simp only [List.nil_append] at hnodupk
  subst hents
  have hunfold : packetCreateH h names =
      (match (ok, ents', g) with
        | (false, ents, g) =>
          match freeList g ents with
          | none => none
          | some g1 =>
            match free g1 h1.next with
            | none => none
            | some g2 =>
              match freeList g2 kas with
              | none => none
              | some g3 =>
                match free g3 h.next with
                | none => none
                | some g4 => some (none, g4)
        | (true, ents, g) =>
          match setOrigs g (ents.zip names) with
          | none => none
          | some g1 =>
            match write g1 h1.next (.pkt ents true) with
            | none => none
            | some g2 =>
              match free g2 h.next with
              | none => none
              | some g3 => some (some (h1.next, ents), g3)) := by
    unfold packetCreateH
    simp only [alloc_fst]
    rw [hh0]
    simp only [hks]
    rw [hh2]
    simp only [hop]
    cases ok <;> rfl
  have hpF' : h1.next ∉ F' := by
    intro hm
    rcases (hmemF _).mp hm with hh | ⟨q, hq, hqe⟩ | hh
    · cases hh
    · have hsub : q ∈ (names.map (·.2)).zip kas := by
        cases ok with
        | true => rw [(hok rfl).1] at hq; exact hq
        | false => obtain ⟨p', tail, hsplit, _⟩ := hfalse rfl; rw [hsplit]; exact List.mem_append_left _ hq
      have := hkarange q.2 (List.of_mem_zip hsub).2
      omega
    · have := (hrangen _ hh).1; omega
  have harrF' : h.next ∉ F' := by
    intro hm
    rcases (hmemF _).mp hm with hh | ⟨q, hq, hqe⟩ | hh
    · cases hh
    · have hsub : q ∈ (names.map (·.2)).zip kas := by
        cases ok with
        | true => rw [(hok rfl).1] at hq; exact hq
        | false => obtain ⟨p', tail, hsplit, _⟩ := hfalse rfl; rw [hsplit]; exact List.mem_append_left _ hq
      have := hkarange q.2 (List.of_mem_zip hsub).2
      omega
    · have := (hrangen _ hh).1; omega
  have hgp : g.cell h1.next = some (.pkt [] false) := by rw [hfrg _ (by omega)]; exact hp2
  have hgarr : g.cell h.next = some (.arr [] (names.length + 1)) := by
    rw [hfrg _ (by have := e1.le; omega), e2.frame _ (by have := e1.le; omega), e1.frame _ (by omega)]; exact harr0
  have hgbelow : ∀ a, a < h.next → g.cell a = h.cell a := by
    intro a ha
    have := e1.le
    rw [hfrg a (by omega), e2.frame a (by omega), e1.frame a (by omega), e0.frame a ha]
  constructor
  · -- distinct names
    intro hnd
    have hoktrue : ok = true := by
      cases hokc : ok with
      | true => rfl
      | false =>
        exfalso
        obtain ⟨p', tail, hsplit, hsome⟩ := hfalse hokc
        obtain ⟨q, hq, hqe⟩ := mapFind_triples_mem used p'.1 hsome
        have : ((names.map (·.2)).zip kas).map (·.1) = used.map (·.1) ++ p'.1 :: tail.map (·.1) := by
          rw [hsplit]; simp
        rw [hfst] at this
        rw [this] at hnd
        have := (List.nodup_append.mp hnd).2.2
        exact this q.1 (List.mem_map.mpr ⟨q, hq, rfl⟩) p'.1 (by simp) hqe
    subst hoktrue
    obtain ⟨hused, _⟩ := hok rfl
    subst hused
    have htr : triples ((names.map (·.2)).zip kas) = names.map (fun n => (n.2, n.2, V.unk)) := by
      simp only [triples]
      have : ((names.map (·.2)).zip kas).map (fun p => (p.1, p.1, V.unk))
          = (((names.map (·.2)).zip kas).map (·.1)).map (fun k => (k, k, V.unk)) := by simp
      rw [this, hfst]; simp
    rw [htr] at hrepg
    have hF'lt : ∀ a, a ∈ F' → a < g.next := by
      intro a ha
      rcases (hmemF a).mp ha with hh | ⟨q, hq, hqe⟩ | hh
      · cases hh
      · have := hkarange q.2 (List.of_mem_zip hq).2; omega
      · exact (hrangen a hh).2
    obtain ⟨g1, F1, hso, hrep1, hw1, hle1, hfr1, hdrop1, hown1, hlt1, hsub1⟩ := setOrigs_spec names ents' g F' hwg hrepg hF'lt
    have hg1p : g1.cell h1.next = some (.pkt [] false) := by rw [hfr1 _ (by omega) hpF']; exact hgp
    obtain ⟨g2, hwr2, hng2, hcg2⟩ := write_spec g1 h1.next _ (.pkt ents' true) hg1p
    have hg2arr : g2.cell h.next = some (.arr [] (names.length + 1)) := by
      rw [hcg2]; have : h.next ≠ h1.next := by have := e1.le; omega
      simp only [this, if_false]; rw [hfr1 _ (by have := e1.le; omega) harrF']; exact hgarr
    obtain ⟨g3, hf3, hng3, hcg3⟩ := free_spec g2 h.next _ hg2arr
    have hF1not : ∀ a, a ∈ F1 → a ≠ h1.next ∧ a ≠ h.next := by
      intro a ha
      rcases hsub1 a ha with hh | hh
      · exact ⟨fun e => hpF' (e ▸ hh), fun e => harrF' (e ▸ hh)⟩
      · have := e1.le; exact ⟨by omega, by omega⟩
    refine ⟨h1.next, ents', g3, F1, by rw [hunfold]; simp [hso, hwr2, hf3], ?_, ?_, ?_, ?_, ?_, (by have := e1.le; omega), ?_, ?_⟩
    · rw [hcg3]; have : h1.next ≠ h.next := by have := e1.le; omega
      simp [this, hcg2]
    · apply RepEntries_congr g1 g3 _ ents' F1 _ hrep1
      intro a ha
      obtain ⟨h1', h2'⟩ := hF1not a ha
      rw [hcg3, hcg2]; simp [h1', h2']
    · intro a ha; rw [hng3, hng2] at ha; rw [hcg3, hcg2]
      have h1' : a ≠ h.next := by have := e1.le; omega
      have h2' : a ≠ h1.next := by omega
      simp [h1', h2', hw1 a ha]
    · intro a ha
      have h1' : a ≠ h.next := by omega
      have h2' : a ≠ h1.next := by have := e1.le; omega
      rw [hcg3, hcg2]; simp only [h1', h2', if_false]
      have hnF' : a ∉ F' := by
        intro hm
        rcases (hmemF a).mp hm with hh | ⟨q, hq, hqe⟩ | hh
        · cases hh
        · have := hkarange q.2 (List.of_mem_zip hq).2; omega
        · have := (hrangen a hh).1; have := e1.le; omega
      rw [hfr1 a (by have := e1.le; omega) hnF', hgbelow a ha]
    · intro hm; exact (hF1not _ hm).1 rfl
    · intro a ha
      rw [hng3, hng2]
      refine ⟨?_, hlt1 a ha⟩
      rcases hsub1 a ha with hh | hh
      · rcases (hmemF a).mp hh with h3' | ⟨q, hq, hqe⟩ | h3'
        · cases h3'
        · have := hkarange q.2 (List.of_mem_zip hq).2; omega
        · have := (hrangen a h3').1; have := e1.le; omega
      · have := e1.le; omega
    · intro a ha hlive
      by_cases hap : a = h1.next
      · exact Or.inl hap
      · right
        have haarr : a ≠ h.next := by
          intro e; rw [e, hcg3] at hlive; simp at hlive
        rw [hcg3, hcg2] at hlive
        simp only [haarr, hap, if_false] at hlive
        by_cases hlt : a < g.next
        · by_cases haF' : a ∈ F'
          · by_cases haF1 : a ∈ F1
            · exact haF1
            · rw [hdrop1 a haF' haF1] at hlive; cases hlive
          · exfalso
            rw [hfr1 a hlt haF'] at hlive
            -- a fresh address that no entry owns: the array (excluded), a name block or the packet (excluded), or released
            by_cases hlt2 : a < h2.next
            · -- below h2.next: array, names, packet
              have hka : a ∈ kas := by
                rw [hkas]; apply List.mem_range'.mpr
                refine ⟨a - h0.next, ?_, by omega⟩
                omega
              obtain ⟨i, hi⟩ := List.mem_iff_getElem.mp hka
              obtain ⟨hi1, hi2⟩ := hi
              have hq : ((names.map (·.2))[i]'(by omega), a) ∈ (names.map (·.2)).zip kas := by
                rw [← hi2]
                exact List.mem_iff_getElem.mpr ⟨i, by simp; omega, by simp⟩
              exact haF' ((hmemF a).mpr (Or.inr (Or.inl ⟨_, hq, rfl⟩)))
            · have hnn : a ∉ ents' := fun hm => haF' ((hmemF a).mpr (Or.inr (Or.inr hm)))
              rw [hnoneg a (by omega) hlt hnn] at hlive; cases hlive
        · exact hown1 a (by omega) (by
            by_cases hlt1' : a < g1.next
            · exact hlt1'
            · rw [hw1 a (by omega)] at hlive; cases hlive)
  · -- a duplicate
    intro hnd
    have hokfalse : ok = false := by
      cases hokc : ok with
      | false => rfl
      | true =>
        exfalso
        obtain ⟨hused, _⟩ := hok hokc
        have := hnodupk (by simp [triples, Value.nodupKeys])
        rw [hused] at this
        have := nodup_of_nodupKeys_triples _ this
        rw [hfst] at this
        exact hnd this
    subst hokfalse
    -- everything allocated is released: the entries, the packet, the names, the array
    have hlive1 : ∀ e, e ∈ ents' → (g.cell e).isSome = true := fun e he => (RepEntries_ents_live _ g ents' F' hrepg e he).1
    obtain ⟨g1, hfl1, c1⟩ := freeList_spec ents' g hlive1 hndn
    have hpn : h1.next ∉ ents' := fun hm => by have := (hrangen _ hm).1; omega
    have hg1p : g1.cell h1.next = some (.pkt [] false) := by rw [c1.2]; simp [hpn, hgp]
    obtain ⟨g2, hf2, c2⟩ := Cleared.free g1 h1.next _ hg1p
    have c12 := c1.trans c2
    have hkaslive : ∀ ka, ka ∈ kas → (g2.cell ka).isSome = true := by
      intro ka hka
      have hr := hkarange ka hka
      have hnn : ka ∉ ents' ++ [h1.next] := by
        intro hm
        rcases List.mem_append.mp hm with hm | hm
        · have := (hrangen _ hm).1; omega
        · simp only [List.mem_singleton] at hm; omega
      rw [c12.2 ka, if_neg hnn, hfrg ka (by omega), e2.frame ka hr.2]
      obtain ⟨i, hi1, hi2⟩ := List.mem_iff_getElem.mp hka
      have hq : ((names.map (·.2))[i]'(by omega), ka) ∈ (names.map (·.2)).zip kas := by
        rw [← hi2]
        exact List.mem_iff_getElem.mpr ⟨i, by simp; omega, by simp⟩
      rw [hkcells _ hq]; rfl
    obtain ⟨g3, hfl3, c3⟩ := freeList_spec kas g2 hkaslive hkasnd
    have c123 := c12.trans c3
    have harrn : h.next ∉ ents' ++ [h1.next] ++ kas := by
      intro hm
      rcases List.mem_append.mp hm with hm | hm
      · rcases List.mem_append.mp hm with hm | hm
        · have := (hrangen _ hm).1; have := e1.le; omega
        · simp only [List.mem_singleton] at hm; have := e1.le; omega
      · have := (hkarange _ hm).1; omega
    have hg3arr : g3.cell h.next = some (.arr [] (names.length + 1)) := by rw [c123.2, if_neg harrn]; exact hgarr
    obtain ⟨g4, hf4, c4⟩ := Cleared.free g3 h.next _ hg3arr
    have call := c123.trans c4
    refine ⟨g4, by rw [hunfold]; simp [hfl1, hf2, hfl3, hf4], ?_⟩
    intro a
    rw [call.2 a]
    by_cases hin : a ∈ ents' ++ [h1.next] ++ kas ++ [h.next]
    · rw [if_pos hin]
      have hge : h.next ≤ a := by
        simp only [List.mem_append, List.mem_singleton] at hin
        rcases hin with ((hm | hm) | hm) | hm
        · have := (hrangen _ hm).1; have := e1.le; omega
        · have := e1.le; omega
        · have := (hkarange _ hm).1; omega
        · omega
      rw [hw a hge]
    · rw [if_neg hin]
      simp only [List.mem_append, List.mem_singleton, not_or] at hin
      obtain ⟨⟨⟨hn1', hn2'⟩, hn3'⟩, hn4'⟩ := hin
      by_cases hlt : a < h.next
      · exact hgbelow a hlt
      · rw [hw a (by omega)]
        by_cases hlt2 : a < h2.next
        · exfalso
          have hka : a ∈ kas := by
            rw [hkas]; apply List.mem_range'.mpr
            refine ⟨a - h0.next, ?_, by omega⟩
            omega
          exact hn3' hka
        · by_cases hlt3 : a < g.next
          · exact hnoneg a (by omega) hlt3 hn1'
          · exact hwg a (by omega)


/-- **cif_packet_free**: every block of the entries (shared key blocks once) and the packet block are released, nothing
    else is touched -/
theorem packetFreeH_spec (h : Heap) (p : Nat) (ents : List Nat) (sa : Bool) (es : List (Str × Str × V)) (F : List Nat)
    (hp : h.cell p = some (.pkt ents sa)) (hr : RepEntries h ents es F) (hpF : p ∉ F) :
    ∃ h', packetFreeH (needEntries es + 1) h p = some h' ∧ Cleared h h' (F ++ [p]) := by
  obtain ⟨h1, hfe, c1⟩ := freeEntries_spec es h ents F (needEntries es + 1) hr (Nat.le_refl _)
  have hp1 : h1.cell p = some (.pkt ents sa) := by rw [c1.2 p]; simp [hpF, hp]
  obtain ⟨h2, hf2, c2⟩ := Cleared.free h1 p _ hp1
  exact ⟨h2, by simp [packetFreeH, read, hp, hfe, hf2], c1.trans c2⟩


/-! ### (re)initialisers -/

/-- **every (re)initialising function releases the previous content** (heap level): the object keeps its address, the blocks
    it owned are released exactly once, the new value's components are fresh, nothing else is touched -/
theorem reinitH_spec (h : Heap) (hw : h.WF) (t : Nat) (old : HVal) (vOld : V) (F : List Nat) (x : V)
    (ht : h.cell t = some (.val old)) (hr : Rep h old vOld F) (hF : ∀ a, a ∈ F → a < h.next) (htlt : t < h.next) (htF : t ∉ F) :
    ∃ h' new F', reinitH (need vOld) h t x = some h' ∧ h'.cell t = some (.val new) ∧ Rep h' new x F' ∧ h'.WF
      ∧ (∀ a, a ∈ F' ↔ (h.next ≤ a ∧ a < h'.next))
      ∧ (∀ a, a < h.next → a ≠ t → h'.cell a = if a ∈ F then none else h.cell a) := by
  obtain ⟨h1, new, h2, Fn, hc, hb, hrepn, hw2, hle, hrange, hcover, hcells⟩ :=
    cleanBuild_spec h hw old vOld F x hr hF (need vOld) (Nat.le_refl _)
  have ht2 : h2.cell t = some (.val old) := by rw [hcells t htlt]; simp [htF, ht]
  obtain ⟨h3, hwr, hn3, hc3⟩ := write_spec h2 t _ (.val new) ht2
  refine ⟨h3, new, Fn, by simp [reinitH, read, ht, hc, hb, hwr], by simp [hc3], ?_, ?_, ?_, ?_⟩
  · apply Rep_congr h2 h3 x new Fn _ hrepn
    intro a ha
    have : a ≠ t := by have := (hrange a ha).1; omega
    rw [hc3]; simp [this]
  · intro a ha; rw [hn3] at ha; rw [hc3]
    have : a ≠ t := by omega
    simp [this, hw2 a ha]
  · intro a; rw [hn3]
    exact ⟨fun ha => hrange a ha, fun ha => hcover a ha.1 ha.2⟩
  · intro a ha hne
    rw [hc3]; simp only [hne, if_false]; exact hcells a ha

end CifModel.Model.Heap
