import CifModel.Lemmas.ParseCBPrune
/-
  CifModel.Lemmas.ParseCBStop — stage 1 of the stop semantics of the store: for EVERY handler program (answers END and
  error codes included) the token parser, on the layout-free token sequence of a well-formed document, behaves like the
  structural interpreter `x…` below: the handler steps of parser.c applied to the document tree, with the early exits of the
  productions (`result != CIF_OK`), without tokens and without fuel.  (`k…` of ParseCBDoc is its CIF_OK path.)
-/
set_option linter.unusedSimpArgs false
set_option linter.unusedVariables false

namespace CifModel.Lemmas.ParseCB
open CifModel.ParseCB CifModel.Spec.Doc

/-- the values of one packet from column `col` on; stops at the first item answer that is not CIF_OK -/
def xRow (p : Prog) (names : List Str) : Nat → List V → St → Int × St
  | _, [], s => (OK, s)
  | col, v :: vs, s =>
    if (itemStep p (names.getD col []) OK v s).1 = OK then xRow p names (col + 1) vs (itemStep p (names.getD col []) OK v s).2
    else itemStep p (names.getD col []) OK v s

/-- one packet from column `col` on (`row` = its values so far): (result, state, the packet is recorded) -/
def xPk (p : Prog) (names : List Str) (col : Nat) (row cur : List V) (s : St) : Int × St × Bool :=
  let ps := if col = 0 then pktStartStep p s else (OK, s)
  if ps.1 ≠ OK then (ps.1, ps.2, false) else
  let rw := xRow p names col cur ps.2
  if rw.1 ≠ OK then (rw.1, rw.2, false) else
  let pe := pktEndStep p (List.zip names (row ++ cur)) rw.2
  (pe.1, pe.2.1, pe.2.2)

def xPackets (p : Prog) (loopH : Bool) (names : List Str) : List (List V) → St → List (List V) → Int × St × List (List V)
  | [], s, acc => (OK, s, acc)
  | pk :: pks, s, acc =>
    if (xPk p names 0 [] pk s).1 ≠ OK then ((xPk p names 0 [] pk s).1, (xPk p names 0 [] pk s).2.1, acc)
    else xPackets p loopH names pks (xPk p names 0 [] pk s).2.1 (if (xPk p names 0 [] pk s).2.2 && loopH then acc ++ [pk] else acc)

def xLoop (p : Prog) (cont : Bool) (names : List Str) (pks : List (List V)) (s : St) : Int × St × Option Loop :=
  let ls := loopStartStep p cont names (kHeader names (inc s))
  if ls.2.2.2 then
    let pk := xPackets p ls.2.2.1 names pks ls.2.1 []
    let e := loopEndStep p (if ls.2.2.1 then some names else none) pk.1 pk.2.1
    (e.1, e.2, if ls.2.2.1 then some { category := none, names := names, packets := pk.2.2 } else none)
  else
    let e := loopEndStep p (if ls.2.2.1 then some names else none) ls.1 ls.2.1
    (e.1, e.2, if ls.2.2.1 then some { category := none, names := names, packets := [] } else none)

mutual
  def xElem (p : Prog) (cont : Bool) : Elem → St → Content → Int × St × Content
    | .item nm v, s, c =>
      if s.skip > 0 then (OK, dec (inc s), c)
      else
        let it := scalarItemStep p cont nm v (inc (note s (.dataname nm)))
        (it.1, dec it.2.1, match it.2.2 with | some (n, w) => c.setScalar n w | none => c)
    | .loop names pks, s, c =>
      let lp := xLoop p cont names pks (if s.skip ≤ 0 then note s (.keyword []) else s)
      (lp.1, lp.2.1, match lp.2.2 with | some l => c.addLoop l | none => c)
    | .frame code body, s, c =>
      let fc := !(!cont ∨ s.skip > 0)
      let st := contStartStep p fc false code s
      let ce := if st.1 ≠ OK then containerEnd p fc false code st.1 st.2 .empty
        else containerEnd p fc false code (xElems p fc body st.2 .empty).1 (xElems p fc body st.2 .empty).2.1
          (xElems p fc body st.2 .empty).2.2
      (ce.1, ce.2.1, if fc then c.addFrame (.mk code ce.2.2.frames ce.2.2.loops) else c)
  def xElems (p : Prog) (cont : Bool) : List Elem → St → Content → Int × St × Content
    | [], s, c => (OK, s, c)
    | e :: es, s, c =>
      if (xElem p cont e s c).1 = OK then xElems p cont es (xElem p cont e s c).2.1 (xElem p cont e s c).2.2
      else xElem p cont e s c
end

/-- parse_container on a container body -/
def xCont (p : Prog) (fc isBlock : Bool) (code : Str) (body : List Elem) (s : St) : Int × St × Content :=
  let st := contStartStep p fc isBlock code s
  if st.1 ≠ OK then containerEnd p fc isBlock code st.1 st.2 .empty
  else containerEnd p fc isBlock code (xElems p fc body st.2 .empty).1 (xElems p fc body st.2 .empty).2.1
    (xElems p fc body st.2 .empty).2.2

def xBlocks (p : Prog) (cif : Bool) : List Block → St → List Container → Int × St × List Container
  | [], s, acc => (OK, s, acc)
  | b :: bs, s, acc =>
    let bc := cif && decide (s.skip ≤ 0)
    let ce := xCont p bc true b.code b.body s
    let acc1 := if bc then acc ++ [.mk b.code ce.2.2.frames ce.2.2.loops] else acc
    if ce.1 = OK then xBlocks p cif bs ce.2.1 acc1 else (ce.1, ce.2.1, acc1)

/-- parse_cif over the document -/
def xDoc (p : Prog) (cif : Bool) (d : Doc) (s : St) : Int × St × List Container :=
  if p s.n (.cifStart cif) = END then (OK, push s (.cifStart cif), []) else
  let st := site p s (.cifStart cif) (some 1) (some 1)
  if st.1 = OK then
    let b := xBlocks p cif d st.2 []
    ((cifEndStep p cif b.1 b.2.1).1, (cifEndStep p cif b.1 b.2.1).2, b.2.2)
  else ((cifEndStep p cif st.1 st.2).1, (cifEndStep p cif st.1 st.2).2, [])

theorem xElem_frame (p : Prog) (cont : Bool) (code : Str) (body : List Elem) (s : St) (c : Content) :
    xElem p cont (.frame code body) s c
      = ((xCont p (!(!cont ∨ s.skip > 0)) false code body s).1, (xCont p (!(!cont ∨ s.skip > 0)) false code body s).2.1,
         if (!(!cont ∨ s.skip > 0)) then
           c.addFrame (.mk code (xCont p (!(!cont ∨ s.skip > 0)) false code body s).2.2.frames
             (xCont p (!(!cont ∨ s.skip > 0)) false code body s).2.2.loops)
         else c) := by
  simp only [xElem, xCont]


-- ---- a result CIF_OK behind an end step means CIF_OK in front of it -------------------------------------------------------

theorem loopEnd_ok_inv (p : Prog) (hd : Option (List Str)) (r : Int) (s : St) (h : (loopEndStep p hd r s).1 = OK) : r = OK := by
  unfold loopEndStep at h
  by_cases h1 : s.skip > 0
  · simpa [h1] using h
  · by_cases h2 : r = OK
    · exact h2
    · simp only [h1, h2, if_false] at h

theorem containerEnd_ok_inv (p : Prog) (cont isBlock : Bool) (code : Str) (r : Int) (s : St) (c : Content)
    (h : (containerEnd p cont isBlock code r s c).1 = OK) : r = OK := by
  unfold containerEnd at h
  by_cases h1 : r = OK ∧ (dec s).skip ≤ 0
  · exact h1.1
  · simp only [h1, if_false] at h; exact h

/-- continuing a packet: the state after the packet_start step and the first item -/
theorem xPk_step (p : Prog) (names : List Str) (col : Nat) (row : List V) (v : V) (vs : List V) (s : St)
    (hps : (if col = 0 then pktStartStep p s else (OK, s)).1 = OK)
    (hit : (itemStep p (names.getD col []) OK v (if col = 0 then pktStartStep p s else (OK, s)).2).1 = OK) :
    xPk p names col row (v :: vs) s
      = (let s2 := (itemStep p (names.getD col []) OK v (if col = 0 then pktStartStep p s else (OK, s)).2).2
         let rw := xRow p names (col + 1) vs s2
         if rw.1 ≠ OK then (rw.1, rw.2, false) else
         let pe := pktEndStep p (List.zip names ((row ++ [v]) ++ vs)) rw.2
         (pe.1, pe.2.1, pe.2.2)) := by
  unfold xPk
  simp only [hps, ne_eq, not_true_eq_false, if_false, xRow, hit, if_true, List.append_assoc, List.singleton_append]


-- ---- stage 1, for every program ---------------------------------------------------------------------------------------------

/-- the rest `cur` of the current packet: either the packet is completed and the loop of parse_loop_packets goes on, or a
    handler stopped the parse (then nothing more is recorded) -/
theorem row_x (p : Prog) (loopH : Bool) (names : List Str) :
    ∀ (cur : List V) (X : List Tok) (s : St) (b : Bool) (k : PkSt) (fuel : Nat),
      cur ≠ [] → k.col + cur.length = names.length → (∀ v ∈ cur, wfV v = true ∧ szV v ≤ fuel) →
      ((xPk p names k.col k.row cur s).1 = OK →
        packetsLoop p loopH names (fuel + cur.length) (atb s (valuesToks cur ++ X) b) k
          = packetsLoop p loopH names fuel (atb (xPk p names k.col k.row cur s).2.1 X false)
              { col := 0, row := [], havePk := true,
                stored := if (xPk p names k.col k.row cur s).2.2 && loopH then k.stored ++ [k.row ++ cur] else k.stored })
      ∧ ((xPk p names k.col k.row cur s).1 ≠ OK →
        ∃ t' b' k', packetsLoop p loopH names (fuel + cur.length) (atb s (valuesToks cur ++ X) b) k
          = ((xPk p names k.col k.row cur s).1, atb (xPk p names k.col k.row cur s).2.1 t' b', k') ∧ k'.stored = k.stored)
  | [], _, _, _, _, _, h, _, _ => absurd rfl h
  | v :: vs, X, s, b, k, fuel, _, hlen, hv => by
    have hvv := hv v (List.mem_cons_self ..)
    obtain ⟨h1, h2⟩ := nextToken_value v (valuesToks vs ++ X) s b
    have hs1 : (if k.col = 0 then pktStartStep p (atb s (valueToks v ++ (valuesToks vs ++ X)) true)
          else (OK, atb s (valueToks v ++ (valuesToks vs ++ X)) true))
        = ((if k.col = 0 then pktStartStep p s else (OK, s)).1,
           atb (if k.col = 0 then pktStartStep p s else (OK, s)).2 (valueToks v ++ (valuesToks vs ++ X)) true) := by
      by_cases hc : k.col = 0
      · simp only [hc, if_true, pktStart_atb]
      · simp only [hc, if_false]
    rw [show fuel + (v :: vs).length = (fuel + vs.length) + 1 by simp; omega]
    simp only [packetsLoop, valuesToks, List.append_assoc, h1, h2, if_true, hs1]
    by_cases hps : (if k.col = 0 then pktStartStep p s else (OK, s)).1 = OK
    · simp only [hps, ne_eq, not_true_eq_false, if_false,
        value_mirror v (valuesToks vs ++ X) _ true (fuel + vs.length) hvv.1 (by omega), itemStep_atb]
      by_cases hit : (itemStep p (names.getD k.col []) OK v (if k.col = 0 then pktStartStep p s else (OK, s)).2).1 = OK
      · rw [xPk_step p names k.col k.row v vs s hps hit]
        simp only [hit, ne_eq, not_true_eq_false, if_false]
        cases vs with
        | nil =>
          have hcol : (k.col + 1) % names.length = 0 := by
            simp only [List.length_cons, List.length_nil] at hlen
            rw [hlen]; exact Nat.mod_self _
          simp only [hcol, if_true, pktEnd_atb, valuesToks, List.nil_append, List.length_nil, Nat.add_zero, xRow,
            ne_eq, not_true_eq_false, if_false, List.append_nil]
          by_cases hpe : (pktEndStep p (List.zip names (k.row ++ [v]))
              (itemStep p (names.getD k.col []) OK v (if k.col = 0 then pktStartStep p s else (OK, s)).2).2).1 = OK
          · simp only [hpe, ne_eq, not_true_eq_false, if_false]
            exact ⟨fun _ => trivial, fun h => h.elim⟩
          · simp only [hpe, ne_eq, not_false_eq_true, if_true]
            exact ⟨fun h => h.elim, fun _ => ⟨_, _, _, rfl, rfl⟩⟩
        | cons v' vs' =>
          have hlt : k.col + 1 < names.length := by simp only [List.length_cons] at hlen; omega
          have hcol : (k.col + 1) % names.length = k.col + 1 := Nat.mod_eq_of_lt hlt
          have hne : ¬ (k.col + 1 = 0) := by omega
          simp only [hcol, hne, if_false]
          have ih := row_x p loopH names (v' :: vs') X
            (itemStep p (names.getD k.col []) OK v (if k.col = 0 then pktStartStep p s else (OK, s)).2).2 false
            { k with col := k.col + 1, row := k.row ++ [v] } fuel (by simp)
            (by simp only [List.length_cons] at hlen ⊢; omega)
            (fun w hw => hv w (List.mem_cons_of_mem _ hw))
          unfold xPk at ih
          simp only [hne, if_false, ne_eq, not_true_eq_false, List.append_assoc, List.singleton_append] at ih
          simp only [List.append_assoc, List.singleton_append]
          exact ih
      · have hx : xPk p names k.col k.row (v :: vs) s
            = ((itemStep p (names.getD k.col []) OK v (if k.col = 0 then pktStartStep p s else (OK, s)).2).1,
               (itemStep p (names.getD k.col []) OK v (if k.col = 0 then pktStartStep p s else (OK, s)).2).2, false) := by
          unfold xPk
          simp only [hps, ne_eq, not_true_eq_false, if_false, xRow, hit, not_false_eq_true, if_true]
        rw [hx]
        simp only [hit, ne_eq, not_false_eq_true, if_true]
        exact ⟨fun h => h.elim, fun _ => ⟨_, _, _, rfl, rfl⟩⟩
    · have hx : xPk p names k.col k.row (v :: vs) s
          = ((if k.col = 0 then pktStartStep p s else (OK, s)).1, (if k.col = 0 then pktStartStep p s else (OK, s)).2, false) := by
        unfold xPk
        simp only [hps, ne_eq, not_false_eq_true, if_true]
      rw [hx]
      simp only [hps, ne_eq, not_false_eq_true, if_true]
      exact ⟨fun h => h.elim, fun _ => ⟨_, _, _, rfl, rfl⟩⟩


/-- the packets of a loop body, up to the token that ends it — or up to the handler that stopped the parse -/
theorem packets_x (p : Prog) (loopH : Bool) (names : List Str) (F : Nat) :
    ∀ (pks : List (List V)) (t : Tok) (rest : List Tok) (s : St) (b : Bool) (h : Bool) (acc : List (List V)),
      t.pre = [] → isStopper t.ty = true → (h = true ∨ pks ≠ []) →
      (∀ pk ∈ pks, pk ≠ [] ∧ pk.length = names.length ∧ ∀ v ∈ pk, wfV v = true ∧ szV v ≤ F) →
      ((xPackets p loopH names pks s acc).1 = OK →
        packetsLoop p loopH names (F + totLen pks + 1) (atb s ((pks.map valuesToks).flatten ++ t :: rest) b)
            { col := 0, row := [], havePk := h, stored := acc }
          = (OK, atb (xPackets p loopH names pks s acc).2.1 (t :: rest) true,
             { col := 0, row := [], havePk := true, stored := (xPackets p loopH names pks s acc).2.2 }))
      ∧ ((xPackets p loopH names pks s acc).1 ≠ OK →
        ∃ t' b' k', packetsLoop p loopH names (F + totLen pks + 1) (atb s ((pks.map valuesToks).flatten ++ t :: rest) b)
            { col := 0, row := [], havePk := h, stored := acc }
          = ((xPackets p loopH names pks s acc).1, atb (xPackets p loopH names pks s acc).2.1 t' b', k')
          ∧ k'.stored = (xPackets p loopH names pks s acc).2.2)
  | [], t, rest, s, b, h, acc, hpre, hst, hh, _ => by
    have hh' : h = true := by rcases hh with h1 | h1; exact h1; exact absurd rfl h1
    have hv : isValueStart t.ty = false := by cases ht : t.ty <;> simp_all [isStopper, isValueStart]
    have hc : ¬ (t.ty = .clist ∨ t.ty = .ctable) := by cases ht : t.ty <;> simp_all [isStopper]
    refine ⟨fun _ => ?_, fun hno => absurd rfl hno⟩
    simp only [totLen, List.map_nil, List.sum_nil, Nat.add_zero, List.flatten_nil, List.nil_append, packetsLoop,
      nextToken_atb s t rest b hpre, hv, Bool.false_eq_true, if_false, hc, ne_eq, not_true_eq_false, hh',
      Bool.not_true, xPackets]
  | pk :: pks, t, rest, s, b, h, acc, hpre, hst, _, hall => by
    obtain ⟨hne, hlen, hvals⟩ := hall pk (List.mem_cons_self ..)
    have hfuel : F + totLen (pk :: pks) + 1 = (F + totLen pks + 1) + pk.length := by
      simp [totLen]; omega
    rw [hfuel]
    simp only [List.map_cons, List.flatten_cons, List.append_assoc]
    obtain ⟨r1, r2⟩ := row_x p loopH names pk ((pks.map valuesToks).flatten ++ t :: rest) s b
      { col := 0, row := [], havePk := h, stored := acc } (F + totLen pks + 1) hne
      (by simpa using hlen) (fun v hv => ⟨(hvals v hv).1, by have := (hvals v hv).2; omega⟩)
    simp only [List.nil_append] at r1 r2
    by_cases hok : (xPk p names 0 [] pk s).1 = OK
    · rw [r1 hok]
      simp only [xPackets, hok, ne_eq, not_true_eq_false, if_false]
      exact packets_x p loopH names F pks t rest _ false true _ hpre hst (Or.inl rfl)
        (fun q hq => hall q (List.mem_cons_of_mem _ hq))
    · obtain ⟨t', b', k', e1, e2⟩ := r2 hok
      simp only [xPackets, hok, ne_eq, not_false_eq_true, if_true]
      exact ⟨fun h => h.elim, fun _ => ⟨t', b', k', e1, e2⟩⟩

/-- a loop (after its `loop_` keyword) -/
theorem loop_x (p : Prog) (cont : Bool) (names : List Str) (pks : List (List V)) (F : Nat)
    (t : Tok) (rest : List Tok) (s : St) (b : Bool) (fuel : Nat)
    (hpre : t.pre = []) (hst : isStopper t.ty = true) (hn : names ≠ []) (hpk : pks ≠ [])
    (hall : ∀ pk ∈ pks, pk ≠ [] ∧ pk.length = names.length ∧ ∀ v ∈ pk, wfV v = true ∧ szV v ≤ F)
    (hf1 : names.length + 1 ≤ fuel) (hf2 : F + totLen pks + 1 ≤ fuel) :
    ∃ t' b', parseLoop p fuel cont (atb s (names.map (fun n => plain .name n) ++ ((pks.map valuesToks).flatten ++ t :: rest)) b)
        = ((xLoop p cont names pks s).1, atb (xLoop p cont names pks s).2.1 t' b', (xLoop p cont names pks s).2.2)
      ∧ ((xLoop p cont names pks s).1 = OK → t' = t :: rest ∧ b' = true) := by
  obtain ⟨tv, tvs, hbody, htvpre, htvty⟩ := body_head pks (t :: rest) (fun pk h => (hall pk h).1) hpk
  unfold parseLoop xLoop
  simp only [inc_atb, hbody]
  rw [header_doc names tv tvs (inc s) b fuel [] htvpre htvty hf1]
  simp only [List.nil_append, ne_eq, not_true_eq_false, if_false]
  have hemp : names.isEmpty = false := by cases names <;> simp_all
  simp only [hemp, Bool.false_eq_true, if_false, loopStart_atb]
  by_cases hbodyP : (loopStartStep p cont names (kHeader names (inc s))).2.2.2 = true
  · simp only [hbodyP, if_true]
    rw [← hbody]
    have hfuel : fuel = (fuel - totLen pks - 1) + totLen pks + 1 := by omega
    obtain ⟨q1, q2⟩ := packets_x p (loopStartStep p cont names (kHeader names (inc s))).2.2.1 names (fuel - totLen pks - 1) pks t rest
      (loopStartStep p cont names (kHeader names (inc s))).2.1 true false [] hpre hst (Or.inr hpk)
      (fun pk h => ⟨(hall pk h).1, (hall pk h).2.1, fun v hv => ⟨((hall pk h).2.2 v hv).1, by
        have := ((hall pk h).2.2 v hv).2; omega⟩⟩)
    rw [← hfuel] at q1 q2
    by_cases hok : (xPackets p (loopStartStep p cont names (kHeader names (inc s))).2.2.1 names pks
        (loopStartStep p cont names (kHeader names (inc s))).2.1 []).1 = OK
    · rw [q1 hok]
      simp only [loopEnd_atb, hok]
      exact ⟨_, _, rfl, fun _ => ⟨rfl, rfl⟩⟩
    · obtain ⟨t', b', k', e1, e2⟩ := q2 hok
      rw [e1]
      simp only [loopEnd_atb, e2]
      refine ⟨t', b', rfl, fun h => ?_⟩
      exact absurd (loopEnd_ok_inv p _ _ _ h) hok
  · simp only [hbodyP, Bool.false_eq_true, if_false, loopEnd_atb]
    refine ⟨_, _, rfl, fun h => ?_⟩
    have h1 := loopEnd_ok_inv p _ _ _ h
    -- the loop_start answer was not CIF_OK
    unfold loopStartStep at hbodyP h1
    by_cases hsk : (kHeader names (inc s)).skip ≤ 0
    · simp only [hsk, if_true] at hbodyP h1
      simp [h1] at hbodyP
    · simp only [hsk, if_false] at hbodyP
      exact (hbodyP trivial).elim

theorem scalarItem_code (p : Prog) (cont : Bool) (nm : Str) (v : V) (s : St) :
    (scalarItemStep p cont nm v s).1 = (site p s (.item nm v) none (some 2)).1 := rfl

/-- one iteration of the element loop: a scalar item -/
theorem step_item_x (p : Prog) (m : Int) (f : Nat) (cont isBlock : Bool) (nm : Str) (v : V) (Y : List Tok)
    (s : St) (b : Bool) (c : Content) (hw : wfV v = true) (hf : szV v ≤ f) :
    elemsLoop p m (f + 1) cont isBlock (atb s (plain .name nm :: (valueToks v ++ Y)) b) c
      = (if (xElem p cont (.item nm v) s c).1 = OK then
           elemsLoop p m f cont isBlock (atb (xElem p cont (.item nm v) s c).2.1 Y false) (xElem p cont (.item nm v) s c).2.2
         else ((xElem p cont (.item nm v) s c).1, atb (xElem p cont (.item nm v) s c).2.1 Y false,
               (xElem p cont (.item nm v) s c).2.2)) := by
  simp only [elemsLoop, nextToken_atb s (plain .name nm) _ b rfl, plain_ty, atb_skip, cur_atb, plain_text, xElem]
  by_cases h : s.skip > 0
  · simp only [h, if_true, consume_atb, item_doc_skip p f cont v Y s false hw hf]
  · simp only [h, if_false, note_atb, consume_atb, item_doc_named p f cont nm v Y _ false hw hf]
    rfl

/-- one iteration of the element loop: a loop -/
theorem step_loop_x (p : Prog) (m : Int) (f : Nat) (cont isBlock : Bool) (names : List Str)
    (pks : List (List V)) (F : Nat) (t : Tok) (rest : List Tok) (s : St) (b : Bool) (c : Content)
    (hpre : t.pre = []) (hst : isStopper t.ty = true) (hn : names ≠ []) (hpk : pks ≠ [])
    (hall : ∀ pk ∈ pks, pk ≠ [] ∧ pk.length = names.length ∧ ∀ v ∈ pk, wfV v = true ∧ szV v ≤ F)
    (hf1 : names.length + 1 ≤ f) (hf2 : F + totLen pks + 1 ≤ f) :
    ∃ t' b', elemsLoop p m (f + 1) cont isBlock
        (atb s (plain .loopKw [] :: (names.map (fun n => plain .name n) ++ ((pks.map valuesToks).flatten ++ t :: rest))) b) c
      = (if (xElem p cont (.loop names pks) s c).1 = OK then
           elemsLoop p m f cont isBlock (atb (xElem p cont (.loop names pks) s c).2.1 (t :: rest) true)
             (xElem p cont (.loop names pks) s c).2.2
         else ((xElem p cont (.loop names pks) s c).1, atb (xElem p cont (.loop names pks) s c).2.1 t' b',
               (xElem p cont (.loop names pks) s c).2.2)) := by
  simp only [elemsLoop, nextToken_atb s (plain .loopKw []) _ b rfl, plain_ty, atb_skip, cur_atb, plain_text, xElem]
  have hnote : (if s.skip ≤ 0 then note (atb s (plain .loopKw [] :: (names.map (fun n => plain .name n) ++
        ((pks.map valuesToks).flatten ++ t :: rest))) true) (Ev.keyword []) else
        atb s (plain .loopKw [] :: (names.map (fun n => plain .name n) ++ ((pks.map valuesToks).flatten ++ t :: rest))) true)
      = atb (if s.skip ≤ 0 then note s (Ev.keyword []) else s)
          (plain .loopKw [] :: (names.map (fun n => plain .name n) ++ ((pks.map valuesToks).flatten ++ t :: rest))) true := by
    by_cases h : s.skip ≤ 0 <;> simp only [h, if_true, if_false, note_atb]
  obtain ⟨t', b', e1, e2⟩ := loop_x p cont names pks F t rest (if s.skip ≤ 0 then note s (Ev.keyword []) else s) false f hpre hst
    hn hpk hall hf1 hf2
  simp only [hnote, consume_atb, e1]
  refine ⟨t', b', ?_⟩
  by_cases hok : (xLoop p cont names pks (if s.skip ≤ 0 then note s (Ev.keyword []) else s)).1 = OK
  · obtain ⟨rfl, rfl⟩ := e2 hok
    simp only [hok, if_true]
    rfl
  · simp only [hok, if_false]
    rfl


theorem atb_inj {s : St} {t t' : List Tok} {b b' : Bool} (h : atb s t b = atb s t' b') : t = t' ∧ b = b' :=
  ⟨congrArg St.toks h, congrArg St.scanned h⟩

/-- one iteration of the element loop on a save frame (hypothesis of `elems_x`, discharged by `step_frame_x`) -/
def StepFrameX (p : Prog) (cont : Bool) : Prop :=
  ∀ (code : Str) (body : List Elem) (Y : List Tok) (s : St) (b : Bool) (c : Content) (f : Nat),
    wfElems false body = true → szElems body + 2 ≤ f →
    ∃ t' b', elemsLoop p 1 (f + 1) cont true (atb s (plain .frameHead code :: (elemsToks body ++ plain .frameTerm [] :: Y)) b) c
      = (if (xElem p cont (.frame code body) s c).1 = OK then
           elemsLoop p 1 f cont true (atb (xElem p cont (.frame code body) s c).2.1 Y false) (xElem p cont (.frame code body) s c).2.2
         else ((xElem p cont (.frame code body) s c).1, atb (xElem p cont (.frame code body) s c).2.1 t' b',
               (xElem p cont (.frame code body) s c).2.2))

/-- the body of a container, up to the token that ends it or to the handler that stopped the parse -/
theorem elems_x (p : Prog) (cont isBlock : Bool) (hframe : isBlock = true → StepFrameX p cont) :
    ∀ (es : List Elem) (t : Tok) (rest : List Tok) (s : St) (b : Bool) (c : Content) (fuel : Nat),
      wfElems isBlock es = true → t.pre = [] → termOK isBlock t.ty → szElems es + 1 ≤ fuel →
      ∃ t' b', elemsLoop p 1 fuel cont isBlock (atb s (elemsToks es ++ t :: rest) b) c
          = ((xElems p cont es s c).1, atb (xElems p cont es s c).2.1 t' b', (xElems p cont es s c).2.2)
        ∧ ((xElems p cont es s c).1 = OK → atb (xElems p cont es s c).2.1 t' b' = endState isBlock (xElems p cont es s c).2.1 t rest)
  | [], t, rest, s, b, c, fuel, _, hpre, hterm, hf => by
    obtain ⟨f, rfl⟩ : ∃ f, fuel = f + 1 := ⟨fuel - 1, by omega⟩
    simp only [elemsToks, List.nil_append, elemsLoop, nextToken_atb s t rest b hpre, xElems]
    unfold termOK at hterm
    cases isBlock with
    | true =>
      simp only [if_true] at hterm
      refine ⟨t :: rest, true, ?_, fun _ => by simp [endState]⟩
      rcases hterm with h | h <;> simp [h]
    | false =>
      simp only [Bool.false_eq_true, if_false] at hterm
      exact ⟨rest, false, by simp [hterm, consume_atb], fun _ => by simp [endState]⟩
  | e :: es, t, rest, s, b, c, fuel, hw, hpre, hterm, hf => by
    obtain ⟨f, rfl⟩ : ∃ f, fuel = f + 1 := ⟨fuel - 1, by omega⟩
    simp only [wfElems, Bool.and_eq_true] at hw
    simp only [szElems] at hf
    have hstT : isStopper t.ty = true := by
      unfold termOK at hterm
      cases isBlock <;> simp at hterm
      · simp [hterm, isStopper]
      · rcases hterm with h | h <;> simp [h, isStopper]
    have ih := elems_x p cont isBlock hframe es t rest
    -- every kind of element: one iteration, then either the rest or the stop
    have key : ∃ Y bY t1 b1, elemsLoop p 1 (f + 1) cont isBlock (atb s (elemsToks (e :: es) ++ t :: rest) b) c
        = (if (xElem p cont e s c).1 = OK then
             elemsLoop p 1 f cont isBlock (atb (xElem p cont e s c).2.1 Y bY) (xElem p cont e s c).2.2
           else ((xElem p cont e s c).1, atb (xElem p cont e s c).2.1 t1 b1, (xElem p cont e s c).2.2))
        ∧ Y = elemsToks es ++ t :: rest := by
      cases e with
      | item n v =>
        simp only [szElem] at hf
        refine ⟨_, false, elemsToks es ++ t :: rest, false, ?_, rfl⟩
        simp only [elemsToks, elemToks_item, List.cons_append, List.append_assoc]
        exact step_item_x p 1 f cont isBlock n v _ s b c (by simpa [wfElem] using hw.1) (by omega)
      | loop ns pks =>
        simp only [szElem] at hf
        obtain ⟨hn, hpk, hall⟩ := loop_wf_all ns pks hw.1
        obtain ⟨th, tl, hhead, hthpre, hthst⟩ := elems_head es t rest hpre hstT
        obtain ⟨t1, b1, e1⟩ := step_loop_x p 1 f cont isBlock ns pks (sumSz pks) th tl s b c hthpre hthst hn hpk hall
          (by omega) (by omega)
        refine ⟨_, true, t1, b1, ?_, rfl⟩
        simp only [elemsToks, elemToks_loop, List.cons_append, List.append_assoc, hhead]
        exact e1
      | frame code body =>
        simp only [szElem] at hf
        have hb : isBlock = true ∧ wfElems false body = true := by
          simpa [wfElem] using hw.1
        obtain ⟨hb1, hb2⟩ := hb
        subst hb1
        obtain ⟨t1, b1, e1⟩ := hframe rfl code body (elemsToks es ++ t :: rest) s b c f hb2 (by omega)
        refine ⟨_, false, t1, b1, ?_, rfl⟩
        simp only [elemsToks, elemToks_frame, List.cons_append, List.append_assoc, List.singleton_append]
        exact e1
    obtain ⟨Y, bY, t1, b1, hkey, rfl⟩ := key
    rw [hkey]
    simp only [xElems]
    by_cases hok : (xElem p cont e s c).1 = OK
    · simp only [hok, if_true]
      have hsz : szElems es + 1 ≤ f := by
        cases e <;> simp only [szElem] at hf <;> omega
      exact ih _ bY _ f hw.2 hpre hterm hsz
    · simp only [hok, if_false]
      exact ⟨t1, b1, rfl, fun h => h.elim⟩

/-- a save frame after its `save_<code>` token -/
theorem frame_x (p : Prog) (fc : Bool) (code : Str) (body : List Elem) (Y : List Tok) (s : St) (b : Bool)
    (f : Nat) (hw : wfElems false body = true) (hf : szElems body + 1 ≤ f) :
    ∃ t' b', parseContainer p 1 (f + 1) fc false code (atb s (elemsToks body ++ plain .frameTerm [] :: Y) b)
        = ((xCont p fc false code body s).1, atb (xCont p fc false code body s).2.1 t' b', (xCont p fc false code body s).2.2)
      ∧ ((xCont p fc false code body s).1 = OK → t' = Y ∧ b' = false) := by
  simp only [parseContainer, contStart_atb, xCont]
  by_cases hst : (contStartStep p fc false code s).1 = OK
  · simp only [hst, ne_eq, not_true_eq_false, if_false]
    obtain ⟨t', b', e1, e2⟩ := elems_x p fc false (fun h => nomatch h) body (plain .frameTerm []) Y
      (contStartStep p fc false code s).2 b .empty f hw rfl rfl hf
    rw [e1]
    simp only [containerEnd_atb]
    refine ⟨t', b', rfl, fun h => ?_⟩
    have h1 := containerEnd_ok_inv p _ _ _ _ _ _ h
    have h2 := e2 h1
    simp only [endState, Bool.false_eq_true, if_false] at h2
    exact atb_inj h2
  · simp only [hst, ne_eq, not_false_eq_true, if_true, containerEnd_atb]
    exact ⟨_, _, rfl, fun h => absurd (containerEnd_ok_inv p _ _ _ _ _ _ h) hst⟩

theorem step_frame_x (p : Prog) (cont : Bool) : StepFrameX p cont := by
  intro code body Y s b c f hw hf
  simp only [elemsLoop, nextToken_atb s (plain .frameHead code) _ b rfl, plain_ty, atb_skip, cur_atb, plain_text,
    consume_atb, xElem_frame]
  obtain ⟨g, rfl⟩ : ∃ g, f = g + 1 := ⟨f - 1, by omega⟩
  by_cases h : ((!cont) = true ∨ s.skip > 0)
  · have hfc : (!decide ((!cont) = true ∨ s.skip > 0)) = false := by rw [decide_eq_true h]; rfl
    simp only [hfc]
    simp only [h, if_true]
    obtain ⟨t', b', e1, e2⟩ := frame_x p false code body Y s false g hw (by omega)
    rw [e1]
    refine ⟨t', b', ?_⟩
    by_cases hok : (xCont p false false code body s).1 = OK
    · obtain ⟨rfl, rfl⟩ := e2 hok
      simp only [hok, if_true, Bool.false_eq_true, if_false]
    · simp only [hok, if_false, Bool.false_eq_true]
  · have hfc : (!decide ((!cont) = true ∨ s.skip > 0)) = true := by rw [decide_eq_false h]; rfl
    have h10 : ¬ ((1 : Int) = 0) := by decide
    simp only [hfc]
    simp only [h, if_false, h10, Bool.not_true, Bool.false_eq_true, and_false]
    obtain ⟨t', b', e1, e2⟩ := frame_x p true code body Y s false g hw (by omega)
    rw [e1]
    refine ⟨t', b', ?_⟩
    by_cases hok : (xCont p true false code body s).1 = OK
    · obtain ⟨rfl, rfl⟩ := e2 hok
      simp only [hok, if_true]
    · simp only [hok, if_false, if_true]

/-- a data block after its `data_<code>` token -/
theorem block_x (p : Prog) (bc : Bool) (code : Str) (body : List Elem) (t : Tok) (rest : List Tok) (s : St)
    (b : Bool) (f : Nat) (hw : wfElems true body = true) (hpre : t.pre = []) (hterm : t.ty = .blockHead ∨ t.ty = .end_)
    (hf : szElems body + 1 ≤ f) :
    ∃ t' b', parseContainer p 1 (f + 1) bc true code (atb s (elemsToks body ++ t :: rest) b)
        = ((xCont p bc true code body s).1, atb (xCont p bc true code body s).2.1 t' b', (xCont p bc true code body s).2.2)
      ∧ ((xCont p bc true code body s).1 = OK → t' = t :: rest ∧ b' = true) := by
  simp only [parseContainer, contStart_atb, xCont]
  by_cases hst : (contStartStep p bc true code s).1 = OK
  · simp only [hst, ne_eq, not_true_eq_false, if_false]
    obtain ⟨t', b', e1, e2⟩ := elems_x p bc true (fun _ => step_frame_x p bc) body t rest
      (contStartStep p bc true code s).2 b .empty f hw hpre (by simpa [termOK] using hterm) hf
    rw [e1]
    simp only [containerEnd_atb]
    refine ⟨t', b', rfl, fun h => ?_⟩
    have h1 := containerEnd_ok_inv p _ _ _ _ _ _ h
    have h2 := e2 h1
    simp only [endState, if_true] at h2
    exact atb_inj h2
  · simp only [hst, ne_eq, not_false_eq_true, if_true, containerEnd_atb]
    exact ⟨_, _, rfl, fun h => absurd (containerEnd_ok_inv p _ _ _ _ _ _ h) hst⟩

theorem blocks_x (p : Prog) (cif : Bool) : ∀ (d : Doc) (s : St) (b : Bool) (acc : List Container) (fuel : Nat),
    wfDoc d = true → szDoc d + 1 ≤ fuel →
    ∃ t' b', blocksLoop p 1 cif fuel (atb s (blocksToks d ++ [plain .end_ []]) b) acc
      = ((xBlocks p cif d s acc).1, atb (xBlocks p cif d s acc).2.1 t' b', (xBlocks p cif d s acc).2.2)
  | [], s, b, acc, fuel, _, hf => by
    obtain ⟨f, rfl⟩ : ∃ f, fuel = f + 1 := ⟨fuel - 1, by omega⟩
    exact ⟨[plain .end_ []], true, by simp [blocksToks, blocksLoop, nextToken_atb s (plain .end_ []) [] b rfl, xBlocks]⟩
  | blk :: bs, s, b, acc, fuel, hw, hf => by
    obtain ⟨f, rfl⟩ : ∃ f, fuel = f + 1 := ⟨fuel - 1, by omega⟩
    simp only [szDoc] at hf
    simp only [wfDoc, List.all_cons, Bool.and_eq_true] at hw
    obtain ⟨t, rest, hhead, hpre, hterm⟩ := blocks_head bs
    have htoks : blocksToks (blk :: bs) ++ [plain .end_ []]
        = plain .blockHead blk.code :: (elemsToks blk.body ++ (t :: rest)) := by
      rw [← hhead]; simp [blocksToks]
    rw [htoks]
    simp only [blocksLoop, nextToken_atb s (plain .blockHead blk.code) _ b rfl, plain_ty, atb_skip, cur_atb, plain_text,
      consume_atb, xBlocks]
    obtain ⟨g, rfl⟩ : ∃ g, f = g + 1 := ⟨f - 1, by omega⟩
    obtain ⟨t', b', e1, e2⟩ := block_x p (cif && decide (s.skip ≤ 0)) blk.code blk.body t rest s false g hw.1 hpre hterm
      (by omega)
    rw [e1]
    by_cases hok : (xCont p (cif && decide (s.skip ≤ 0)) true blk.code blk.body s).1 = OK
    · obtain ⟨rfl, rfl⟩ := e2 hok
      simp only [hok, if_true]
      rw [← hhead]
      exact blocks_x p cif bs _ true _ (g + 1) (by simpa [wfDoc] using hw.2) (by omega)
    · simp only [hok, if_false]
      exact ⟨t', b', rfl⟩

theorem cifEnd_atb (p : Prog) (cif : Bool) (r : Int) (s : St) (t : List Tok) (b : Bool) :
    cifEndStep p cif r (atb s t b) = ((cifEndStep p cif r s).1, atb (cifEndStep p cif r s).2 t b) := by
  unfold cifEndStep
  simp only [dec_atb, atb_n, push_atb]
  by_cases h : r = OK <;> simp only [h, if_true, if_false]

/-- **stage 1, for every program**: on the token sequence of a well-formed document the token parser with enough fuel is the
    structural interpreter `xDoc` — result, callbacks, store -/
theorem doc_x (p : Prog) (cif : Bool) (d : Doc) (fuel : Nat) (hw : wfDoc d = true) (hf : szDoc d + 1 ≤ fuel) :
    (parseCif p 1 cif fuel (St.init (tokensOf d))).1 = (xDoc p cif d (St.init [])).1
    ∧ (parseCif p 1 cif fuel (St.init (tokensOf d))).2.1.log = (xDoc p cif d (St.init [])).2.1.log
    ∧ (parseCif p 1 cif fuel (St.init (tokensOf d))).2.2 = (xDoc p cif d (St.init [])).2.2 := by
  have hinit : St.init (tokensOf d) = atb (St.init []) (blocksToks d ++ [plain .end_ []]) false := rfl
  unfold parseCif xDoc
  rw [hinit]
  simp only [atb_n]
  by_cases hend : p (St.init []).n (.cifStart cif) = END
  · simp only [hend, if_true]
    exact ⟨trivial, rfl, trivial⟩
  · simp only [hend, if_false, site_atb]
    by_cases hok : (site p (St.init []) (.cifStart cif) (some 1) (some 1)).1 = OK
    · simp only [hok, if_true]
      obtain ⟨t', b', e1⟩ := blocks_x p cif d (site p (St.init []) (.cifStart cif) (some 1) (some 1)).2 false [] fuel hw hf
      rw [e1]
      simp only [cifEnd_atb]
      exact ⟨trivial, rfl, trivial⟩
    · simp only [hok, if_false, cifEnd_atb]
      exact ⟨trivial, rfl, trivial⟩

end CifModel.Lemmas.ParseCB
