import CifModel.Lemmas.HeapHistState
/-
  Lemmas for operation histories on the heap, part 3: the operations on ONE object (`ObjUpd` producers) — clone onto an
  existing object with the source given by address (any aliasing), the (re)initialisers, list insert / remove.
-/
namespace CifModel.Model.Hist
open CifModel CifModel.Model.Heap
open CifModel.Model.Value (Step Entry resolve update child setChild defaultOf)

theorem ObjUpd.ofFresh (h h' : Heap) (t : Nat) (Ft : List Nat) (hvt' : HVal) (c' : V) (Fn : List Nat)
    (hw' : h'.WF) (hle : h.next ≤ h'.next) (hg' : getHV h' t = some hvt') (hsk : SameKind (h.cell t) (h'.cell t))
    (hrep : Rep h' hvt' c' Fn) (hrange : ∀ a, a ∈ Fn → h.next ≤ a ∧ a < h'.next)
    (hold : ∀ a, a < h.next → a ≠ t → h'.cell a = if a ∈ Ft then none else h.cell a)
    (hcover : ∀ a, h.next ≤ a → (h'.cell a).isSome = true → a ∈ Fn) : ObjUpd h h' t Ft hvt' c' Fn [] := by
  refine ⟨hw', hle, hg', hsk, hrep, fun x hx => Or.inr (hrange x hx), ?_, ?_, fun x hx => by cases hx⟩
  · intro x hlt hnf hne; rw [hold x hlt hne, if_neg hnf]
  · intro x hl
    by_cases hlt : x < h.next
    · by_cases hxt : x = t
      · exact Or.inr (Or.inl hxt)
      · refine Or.inr (Or.inr (Or.inr ⟨hlt, fun hm => ?_⟩))
        rw [hold x hlt hxt, if_pos hm] at hl; cases hl
    · exact Or.inl (hcover x (by omega) hl)

theorem reShell_val {c : Option Cell} (hval : IsValCell c) (new : HVal) :
    ∃ ct ct', c = some ct ∧ reShell ct new = some ct' ∧ SameKind c (some ct')
      ∧ ∀ (g : Heap) (a : Nat), g.cell a = some ct' → getHV g a = some new := by
  cases c with
  | none => cases hval
  | some ct =>
    cases ct <;> simp_all [IsValCell, reShell, SameKind]
    all_goals (intro g a hc; simp [getHV, hc])

/-- `cif_value_clean` + new fields on the object at `t`, in a heap `g` that extends `h` -/
theorem installAt_spec (h g : Heap) (hw : h.WF) (e : Ext h g) (t : Nat) (old : HVal) (vOld : V) (Ft : List Nat) (fuel : Nat)
    (hg : getHV h t = some old) (hval : IsValCell (h.cell t)) (hr : Rep h old vOld Ft) (htF : t ∉ Ft)
    (hF : ∀ x, x ∈ Ft → x < h.next) (hfuel : need vOld ≤ fuel) (new : HVal) :
    ∃ g2, installAt fuel g t new = some g2 ∧ g2.next = g.next ∧ g2.WF ∧ getHV g2 t = some new
      ∧ SameKind (h.cell t) (g2.cell t) ∧ ∀ a, a ≠ t → g2.cell a = if a ∈ Ft then none else g.cell a := by
  have htlt := getHV_lt hw hg
  have hct : g.cell t = h.cell t := e.frame t htlt
  have hgg : getHV g t = some old := by rw [getHV_congr h g t hct]; exact hg
  have hrg : Rep g old vOld Ft := Rep_congr h g vOld old Ft (fun a ha => e.frame a (hF a ha)) hr
  obtain ⟨g1, hcl, c1⟩ := cleanVal_spec vOld g old Ft fuel hrg hfuel
  obtain ⟨ct, ct', hc0, hrs, hsk, hfld⟩ := reShell_val hval new
  have hc1 : g1.cell t = some ct := by rw [c1.2 t, if_neg htF, hct, hc0]
  obtain ⟨g2, hwr, hn2, hc2⟩ := write_spec g1 t ct ct' hc1
  refine ⟨g2, by simp [installAt, hgg, hcl, putHV, hc1, hrs, hwr], by rw [hn2, c1.1], ?_, ?_, ?_, ?_⟩
  · intro a ha
    rw [hc2 a]
    have hne : a ≠ t := by rw [hn2, c1.1] at ha; have := e.le; omega
    rw [if_neg hne]
    exact Cleared.wf c1 e.wf a (by rw [hn2] at ha; exact ha)
  · exact hfld g2 t (by rw [hc2 t, if_pos rfl])
  · rw [hc2 t, if_pos rfl]; exact hsk
  · intro a hne; rw [hc2 a, if_neg hne, c1.2 a]

/-- **clone onto an existing object, source given by address, any aliasing** (`cif_value_clone(src, &dst)`,
    `set_element_at`, `set_item_by_key` / `packet_set_item` on an existing member): wherever the source lies — elsewhere, inside
    the target, around it — the target object (a free-standing object, a list element or the inline value of a map entry)
    afterwards holds a representation of the source's value on fresh blocks, its old blocks are released, the scratch object
    is gone, nothing else changed -/
theorem cloneOntoAt_spec (h : Heap) (hw : h.WF) (t : Nat) (old : HVal) (vOld : V) (Ft : List Nat) (fuel : Nat)
    (hg : getHV h t = some old) (hval : IsValCell (h.cell t)) (hr : Rep h old vOld Ft) (htF : t ∉ Ft)
    (hF : ∀ x, x ∈ Ft → x < h.next) (hfuel : need vOld ≤ fuel)
    (sa : Nat) (hs : HVal) (x : V) (Fs : List Nat) (hsrc : fieldsAt h sa = some hs) (hrs : Rep h hs x Fs)
    (hFs : ∀ a, a ∈ Fs → a < h.next) (hfx : need x ≤ fuel) :
    ∃ h' new Fn, cloneOntoAt fuel h t sa = some h' ∧ ObjUpd h h' t Ft new x Fn []
      ∧ ∀ a, a ∈ Fn → h.next ≤ a ∧ a < h'.next := by
  have hcn := cloneNewH_build h hw sa hs x Fs fuel hsrc hrs hFs hfx
  generalize hb : buildNew h x = r at hcn
  obtain ⟨c, h1⟩ := r
  obtain ⟨e1, new, Fn, hc, hrn, hcF, hcl, hcu, hrange, hcover⟩ := buildNew_spec x h hw c h1 hb
  have htlt := getHV_lt hw hg
  obtain ⟨g2, hin, hn2, hw2, hg2, hsk2, hc2⟩ := installAt_spec h h1 hw e1 t old vOld Ft fuel hg hval hr htF hF hfuel new
  have hct : c ≠ t := by omega
  have hcFt : c ∉ Ft := fun hm => by have := hF c hm; omega
  have hcc : g2.cell c = some (.val new) := by rw [hc2 c hct, if_neg hcFt, hc]
  obtain ⟨h4, hf4, c4⟩ := Cleared.free g2 c _ hcc
  have hcell4 : ∀ a, a ≠ c → h4.cell a = g2.cell a := fun a hne => by rw [c4.2 a]; simp [hne]
  refine ⟨h4, new, Fn, by simp [cloneOntoAt, hcn, getHV, hc, hin, hf4], ?_,
    fun a ha => by have := hrange a ha; rw [c4.1, hn2]; exact this⟩
  apply ObjUpd.ofFresh
  · exact Cleared.wf c4 hw2
  · rw [c4.1, hn2]; exact e1.le
  · rw [getHV_congr g2 h4 t (hcell4 t (Ne.symm hct))]; exact hg2
  · rw [hcell4 t (Ne.symm hct)]; exact hsk2
  · apply Rep_congr h1 h4 x new Fn _ hrn
    intro a ha
    have hr' := hrange a ha
    have h1' : a ≠ c := fun e => hcF (e ▸ ha)
    have h2' : a ≠ t := by omega
    have h3' : a ∉ Ft := fun hm => by have := hF a hm; omega
    rw [hcell4 a h1', hc2 a h2', if_neg h3']
  · intro a ha; have := hrange a ha; rw [c4.1, hn2]; exact this
  · intro a hlt hne
    have h1' : a ≠ c := by omega
    rw [hcell4 a h1', hc2 a hne, e1.frame a hlt]
  · intro a hge hl
    by_cases hac : a = c
    · rw [c4.2 a] at hl; simp [hac] at hl
    · rw [hcell4 a hac] at hl
      have hat : a ≠ t := by omega
      rw [hc2 a hat] at hl
      have hnf : a ∉ Ft := fun hm => by have := hF a hm; omega
      rw [if_neg hnf] at hl
      have halt : a < h1.next := isSome_lt e1.wf hl
      rcases hcover a hge halt with hh | hh
      · exact hh
      · exact absurd hh hac

/-- the new value's components are built first (`cif_value_init_numb`, `init_char`, `copy_char`) -/
theorem buildOntoAt_spec (h : Heap) (hw : h.WF) (t : Nat) (old : HVal) (vOld : V) (Ft : List Nat) (fuel : Nat)
    (hg : getHV h t = some old) (hval : IsValCell (h.cell t)) (hr : Rep h old vOld Ft) (htF : t ∉ Ft)
    (hF : ∀ x, x ∈ Ft → x < h.next) (hfuel : need vOld ≤ fuel) (x : V) :
    ∃ h' new Fn, buildOntoAt fuel h t x = some h' ∧ ObjUpd h h' t Ft new x Fn [] := by
  generalize hb : buildVal h x = r
  obtain ⟨new, h1⟩ := r
  obtain ⟨e1, Fn, hrn, hrange, hcover⟩ := buildVal_spec x h hw new h1 hb
  have htlt := getHV_lt hw hg
  obtain ⟨g2, hin, hn2, hw2, hg2, hsk2, hc2⟩ := installAt_spec h h1 hw e1 t old vOld Ft fuel hg hval hr htF hF hfuel new
  refine ⟨g2, new, Fn, by simp [buildOntoAt, hb, hin], ?_⟩
  apply ObjUpd.ofFresh
  · exact hw2
  · rw [hn2]; exact e1.le
  · exact hg2
  · exact hsk2
  · apply Rep_congr h1 g2 x new Fn _ hrn
    intro a ha
    have hr' := hrange a ha
    have h2' : a ≠ t := by omega
    have h3' : a ∉ Ft := fun hm => by have := hF a hm; omega
    rw [hc2 a h2', if_neg h3']
  · intro a ha; have := hrange a ha; rw [hn2]; exact this
  · intro a hlt hne
    rw [hc2 a hne, e1.frame a hlt]
  · intro a hge hl
    have hat : a ≠ t := by omega
    rw [hc2 a hat] at hl
    have hnf : a ∉ Ft := fun hm => by have := hF a hm; omega
    rw [if_neg hnf] at hl
    exact hcover a hge (isSome_lt e1.wf hl)

/-- `cif_value_clean` through a member pointer / `set_element_at(…, NULL)`: the object becomes the unknown value -/
theorem cleanAt_spec (h : Heap) (hw : h.WF) (t : Nat) (old : HVal) (vOld : V) (Ft : List Nat) (fuel : Nat)
    (hg : getHV h t = some old) (hval : IsValCell (h.cell t)) (hr : Rep h old vOld Ft) (htF : t ∉ Ft)
    (hF : ∀ x, x ∈ Ft → x < h.next) (hfuel : need vOld ≤ fuel) :
    ∃ h', installAt fuel h t .unk = some h' ∧ ObjUpd h h' t Ft .unk .unk [] [] ∧ h'.next = h.next
      ∧ IsValCell (h'.cell t) := by
  obtain ⟨g2, hin, hn2, hw2, hg2, hsk2, hc2⟩ :=
    installAt_spec h h hw (Ext.refl h hw) t old vOld Ft fuel hg hval hr htF hF hfuel .unk
  refine ⟨g2, hin, ?_, hn2, ?_⟩
  · apply ObjUpd.ofFresh
    · exact hw2
    · rw [hn2]; exact Nat.le_refl _
    · exact hg2
    · exact hsk2
    · simp [Rep]
    · intro a ha; cases ha
    · intro a _ hne; exact hc2 a hne
    · intro a hge hl
      have := isSome_lt hw2 hl
      omega
  · cases hc : h.cell t with
    | none => rw [hc] at hval; cases hval
    | some c =>
      rw [hc] at hsk2 hval
      cases hc' : g2.cell t with
      | none => rw [hc'] at hsk2; cases c <;> simp [SameKind] at hsk2
      | some c' => rw [hc'] at hsk2; cases c <;> cases c' <;> simp_all [SameKind, IsValCell]

theorem SameKind_trans {a b c : Option Cell} (h1 : SameKind a b) (h2 : SameKind b c) : SameKind a c := by
  cases a <;> cases b <;> cases c <;> try (simp [SameKind] at h1 h2 ⊢)
  rename_i x y z
  cases x <;> cases y <;> cases z <;> simp_all [SameKind]

theorem putHV_spec (g : Heap) (t : Nat) (hv : HVal) (hval : IsValCell (g.cell t)) :
    ∃ g', putHV g t hv = some g' ∧ g'.next = g.next ∧ getHV g' t = some hv ∧ SameKind (g.cell t) (g'.cell t)
      ∧ (∀ a, a ≠ t → g'.cell a = g.cell a) ∧ (g.WF → g'.WF) := by
  obtain ⟨ct, ct', hc0, hrs, hsk, hfld⟩ := reShell_val hval hv
  obtain ⟨g', hwr, hn, hc⟩ := write_spec g t ct ct' hc0
  refine ⟨g', by simp [putHV, hc0, hrs, hwr], hn, hfld g' t (by rw [hc t, if_pos rfl]), by rw [hc t, if_pos rfl]; exact hsk,
    fun a hne => by rw [hc a, if_neg hne], ?_⟩
  intro hw a ha
  rw [hc a]
  have hne : a ≠ t := fun e => by
    subst e
    have := hw a (by rw [hn] at ha; exact ha)
    rw [hc0] at this; cases this
  rw [if_neg hne]; exact hw a (by rw [hn] at ha; exact ha)

theorem ObjUpd.dead {h h' : Heap} {t : Nat} {Ft : List Nat} {hv : HVal} {c : V} {Ft' : List Nat}
    (U : ObjUpd h h' t Ft hv c Ft' []) (a : Nat) (ha : a ∈ Ft) (hnot : a ∉ Ft') (hne : a ≠ t) : h'.cell a = none := by
  cases hc : h'.cell a with
  | none => rfl
  | some c' =>
    rcases U.cov a (by rw [hc]; rfl) with h1 | h1 | h1 | ⟨_, h1⟩
    · exact absurd h1 hnot
    · exact absurd h1 hne
    · cases h1
    · exact absurd ha h1

/-- the default content `cif_value_init` gives a cleaned object -/
theorem initFields_spec (h : Heap) (hw : h.WF) (kind : Nat) (hv : HVal) (h2 : Heap) (hb : initFields h kind = (hv, h2)) :
    Ext h h2 ∧ ∃ Fn, Rep h2 hv ((defaultOf kind).getD .unk) Fn ∧ (∀ a, a ∈ Fn → h.next ≤ a ∧ a < h2.next)
      ∧ (∀ a, h.next ≤ a → a < h2.next → a ∈ Fn) := by
  unfold initFields at hb
  by_cases h2' : kind = 2
  · subst h2'
    simp only [if_true, Prod.mk.injEq] at hb
    obtain ⟨rfl, rfl⟩ := hb
    exact ⟨Ext.refl h hw, [], by simp [defaultOf, Rep], by simp, fun a h1 h2 => by omega⟩
  · by_cases h3 : kind = 3
    · subst h3
      simp only [if_true, Prod.mk.injEq] at hb
      simp only [show ¬ (3 = 2) by decide, if_false] at hb
      obtain ⟨rfl, rfl⟩ := hb
      exact ⟨Ext.refl h hw, [], by simp [defaultOf, Rep, RepEntries], by simp, fun a h1 h2 => by omega⟩
    · simp only [h2', h3, if_false] at hb
      cases hd : defaultOf kind with
      | none =>
        rw [hd] at hb
        simp only [Prod.mk.injEq] at hb
        obtain ⟨rfl, rfl⟩ := hb
        exact ⟨Ext.refl h hw, [], by simp [Rep], by simp, fun a h1 h2 => by omega⟩
      | some d =>
        rw [hd] at hb
        simp only [] at hb
        obtain ⟨e, Fn, hr, hrange, hcover⟩ := buildVal_spec d h hw hv h2 hb
        exact ⟨e, Fn, by simpa using hr, hrange, hcover⟩

/-- `cif_value_init(v, kind)`, kind ≠ NUMB: the object is cleaned, then given the default content of the kind (an invalid
    kind leaves the unknown value) -/
theorem cleanInitAt_spec (h : Heap) (hw : h.WF) (t : Nat) (old : HVal) (vOld : V) (Ft : List Nat) (fuel : Nat)
    (hg : getHV h t = some old) (hval : IsValCell (h.cell t)) (hr : Rep h old vOld Ft) (htF : t ∉ Ft)
    (hF : ∀ x, x ∈ Ft → x < h.next) (hfuel : need vOld ≤ fuel) (kind : Nat) :
    ∃ h' new Fn, cleanInitAt fuel h t kind = some h' ∧ ObjUpd h h' t Ft new ((defaultOf kind).getD .unk) Fn [] := by
  obtain ⟨h1, hin, U1, hn1, hval1⟩ := cleanAt_spec h hw t old vOld Ft fuel hg hval hr htF hF hfuel
  have htlt := getHV_lt hw hg
  generalize hb : initFields h1 kind = r
  obtain ⟨new, h2⟩ := r
  obtain ⟨e2, Fn, hrn, hrange, hcover⟩ := initFields_spec h1 U1.wf kind new h2 hb
  have hct2 : h2.cell t = h1.cell t := e2.frame t (by rw [hn1]; exact htlt)
  obtain ⟨h3, hput, hn3, hg3, hsk3, hc3, hw3⟩ := putHV_spec h2 t new (by rw [hct2]; exact hval1)
  refine ⟨h3, new, Fn, by simp [cleanInitAt, hin, hb, hput], ?_⟩
  apply ObjUpd.ofFresh
  · exact hw3 e2.wf
  · rw [hn3, ← hn1]; exact e2.le
  · exact hg3
  · exact SameKind_trans U1.kind (by rw [← hct2]; exact hsk3)
  · apply Rep_congr h2 h3 _ new Fn _ hrn
    intro a ha
    have := hrange a ha
    exact hc3 a (by omega)
  · intro a ha; have := hrange a ha; rw [hn3]; omega
  · intro a hlt hne
    rw [hc3 a hne, e2.frame a (by rw [hn1]; exact hlt)]
    by_cases hm : a ∈ Ft
    · rw [if_pos hm]; exact U1.dead a hm (by simp) hne
    · rw [if_neg hm]; exact U1.frame a hlt hm hne
  · intro a hge hl
    have hne : a ≠ t := by omega
    rw [hc3 a hne] at hl
    exact hcover a (by rw [hn1]; exact hge) (isSome_lt e2.wf hl)

end CifModel.Model.Hist
