import CifModel.Lemmas.LadderNames
import CifModel.Lemmas.LadderPacket
/-
  CifModel.Lemmas.LadderNamesNorm — cif_loop_get_names_internal with normalisation (as repaired by /repo c161ded).
-/
namespace CifModel.Lemmas.Ladder
open CifModel.Model.Ladder CifModel.Spec.HeapTrace

theorem namesNormLoop_spec (k arr : Nat) : ∀ (todo : List (Nat × Nat)) (done : List Nat) (s : St) (L : List Nat),
    Inv s (nodeIds todo ++ (arr :: (done ++ L))) →
    (∃ names, (namesNormLoop k arr todo done s).1 = some names ∧ Good k (3 * todo.length) s (namesNormLoop k arr todo done s).2 ∧
        Inv (namesNormLoop k arr todo done s).2 (arr :: (names ++ L)) ∧ names.length = done.length + todo.length) ∨
    ((namesNormLoop k arr todo done s).1 = none ∧ Bad k (3 * todo.length) s (namesNormLoop k arr todo done s).2 ∧
        Inv (namesNormLoop k arr todo done s).2 L)
  | [], done, s, L, h => by
    left
    simp only [namesNormLoop]
    exact ⟨done, rfl, Good.refl k s, by simpa [nodeIds] using h, by simp⟩
  | (nd, str) :: rest, done, s, L, h => by
    simp only [namesNormLoop]
    have hh := normalize_spec k s _ h
    generalize normalize k s = r at hh ⊢
    obtain ⟨ro, rs⟩ := r
    rcases hh with ⟨nm, h1, h2, h3⟩ | ⟨h1, h2, h3⟩ <;> simp only at h1 h2 h3 <;> subst h1 <;> simp only
    · have i1 : Inv rs (str :: nd :: (nodeIds rest ++ (arr :: ((nm :: done) ++ L)))) :=
        h3.perm (by simp only [nodeIds]; perm_ac)
      rcases namesNormLoop_spec k arr rest (nm :: done) _ L i1.free.free with ⟨names, e1, e2, e3, e4⟩ | ⟨e1, e2, e3⟩
      · left
        exact ⟨names, e1, ((h2.free _).free _).trans' e2 (by simp; omega), e3, by rw [e4]; simp; omega⟩
      · right
        exact ⟨e1, ((h2.free _).free _).bad' e2 (by simp; omega), e3⟩
    · right
      have i1 : Inv rs (str :: nd :: (done ++ (arr :: (nodeIds rest ++ L)))) := h3.perm (by simp only [nodeIds]; perm_ac)
      have i2 := (i1.free.free).freeAll done _ _
      have ⟨f1, f2⟩ := freeNodes_spec rest _ L i2.free
      refine ⟨trivial, ?_, f1⟩
      exact (((((h2.free _).free _).same (Same.freeAll done _)).free _).same f2).mono (by simp; omega)

/-- requests of cif_loop_get_names_internal with normalisation: two per name, the array, three per name -/
def namesNormAllocs (n : Nat) : Nat := if n = 0 then 0 else 5 * n + 1

theorem getNamesNorm_spec (k n : Nat) (s : St) (L : List Nat) (h : Inv s L) :
    ((getNamesNorm k n s).1 = (if n = 0 then INVALID_HANDLE else OK) ∧
        Good k (namesNormAllocs n) s (getNamesNorm k n s).2.2 ∧
        (getNamesNorm k n s).2.1.length = namesNormAllocs n - 4 * n ∧
        Inv (getNamesNorm k n s).2.2 ((getNamesNorm k n s).2.1 ++ L)) ∨
    ((getNamesNorm k n s).1 = MEMORY_ERROR ∧ (getNamesNorm k n s).2.1 = [] ∧
        Bad k (namesNormAllocs n) s (getNamesNorm k n s).2.2 ∧ Inv (getNamesNorm k n s).2.2 L) := by
  simp only [getNamesNorm, namesNormAllocs]
  have hh := namesRows_spec true k n [] s L (by simpa [nodeIds] using h)
  generalize namesRows true k n [] s = r at hh ⊢
  obtain ⟨ro, rs⟩ := r
  rcases hh with ⟨nodes, h1, h2, h3, h4⟩ | ⟨h1, h2, h3⟩ <;> simp only at h1 h2 h3 <;> subst h1 <;> simp only
  · by_cases hn : n = 0
    · left
      subst hn
      simp only [if_true]
      have : nodes = [] := List.eq_nil_of_length_eq_zero (by simpa using h4)
      subst this
      exact ⟨trivial, h2, rfl, by simpa [nodeIds] using h3⟩
    · simp only [hn, if_false]
      have hlen : nodes.length = n := by simpa using h4
      rcases alloc_cases k rs with ⟨hk, ha⟩ | ⟨hk, ha⟩ <;> simp only [ha]
      · right
        have ⟨f1, f2⟩ := freeNodes_spec nodes _ L h3.fail
        exact ⟨trivial, trivial, ((h2.bad (Bad.alloc hk)).same f2).mono (by omega), f1⟩
      · have g1 := h2.trans (Good.alloc hk)
        have i1 : Inv { count := rs.count + 1, evs := rs.evs ++ [.alloc (rs.count + 1)] }
            (nodeIds nodes ++ ((rs.count + 1) :: ([] ++ L))) := h3.alloc.perm (by perm_ac)
        have hh := namesNormLoop_spec k (rs.count + 1) nodes [] _ L i1
        rw [hlen] at hh
        generalize namesNormLoop k (rs.count + 1) nodes [] { count := rs.count + 1, evs := rs.evs ++ [.alloc (rs.count + 1)] } = r at hh ⊢
        obtain ⟨ro, s3⟩ := r
        rcases hh with ⟨names, e1, e2, e3, e4⟩ | ⟨e1, e2, e3⟩ <;> simp only at e1 e2 e3 <;> subst e1 <;> simp only
        · left
          exact ⟨trivial, g1.trans' e2 (by omega), by simp [e4]; omega, e3⟩
        · right
          exact ⟨trivial, trivial, g1.bad' e2 (by omega), e3⟩
  · right
    have hl : leakOf true k s.count = [] := by simp [leakOf]
    rw [hl] at h3
    exact ⟨trivial, trivial, h2.mono (by split <;> omega), by simpa using h3⟩

end CifModel.Lemmas.Ladder
