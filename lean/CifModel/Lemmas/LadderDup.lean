import CifModel.Lemmas.Ladder
/-
  CifModel.Lemmas.LadderDup — the dup_ustrings ladder: loop invariant and whole-function summary.
-/
namespace CifModel.Lemmas.Ladder
open CifModel.Model.Ladder CifModel.Spec.HeapTrace

/-- summary of the copy loop started with `n` strings to go, the array `arr` and the strings `done` live (besides the
    unrelated blocks `L`): either all `n` requests succeed and the caller owns array + old + new strings, or the fault
    position lies among them, everything (array, strings copied so far) is released exactly once and only `L` stays. -/
theorem dupLoop_spec (k arr : Nat) : ∀ (n : Nat) (done : List Nat) (s : St) (L : List Nat),
    Inv s (arr :: (done ++ L)) →
    ((dupLoop k arr n done s).1 = OK ∧ Good k n s (dupLoop k arr n done s).2.2 ∧
        (dupLoop k arr n done s).2.1.length = n + 1 + done.length ∧
        Inv (dupLoop k arr n done s).2.2 ((dupLoop k arr n done s).2.1 ++ L)) ∨
    ((dupLoop k arr n done s).1 = MEMORY_ERROR ∧ (dupLoop k arr n done s).2.1 = [] ∧
        Bad k n s (dupLoop k arr n done s).2.2 ∧ Inv (dupLoop k arr n done s).2.2 L) := by
  intro n
  induction n with
  | zero =>
    intro done s L h
    left
    simp only [dupLoop]
    exact ⟨trivial, Good.refl k s, by simp; omega, h⟩
  | succ n ih =>
    intro done s L h
    simp only [dupLoop]
    rcases alloc_cases k s with ⟨hk, ha⟩ | ⟨hk, ha⟩ <;> simp only [ha]
    · right
      refine ⟨trivial, trivial, ((Bad.alloc hk).freeAll done).free arr |>.mono (by omega), ?_⟩
      have h1 : Inv _ (done ++ (arr :: L)) := h.fail.perm (List.perm_middle.symm)
      exact (h1.freeAll done _ _).free
    · have h1 : Inv _ (arr :: (((s.count + 1) :: done) ++ L)) := h.alloc.perm (List.Perm.swap _ _ _)
      rcases ih ((s.count + 1) :: done) _ L h1 with ⟨h2, h3, h4, h5⟩ | ⟨h2, h3, h4, h5⟩
      · left
        exact ⟨h2, (Good.alloc hk).trans' h3 (by omega), by rw [h4]; simp; omega, h5⟩
      · right
        exact ⟨h2, h3, (Good.alloc hk).bad' h4 (by omega), h5⟩

/-- summary of dup_ustrings from any consistent state -/
theorem dupUstrings_spec (k n : Nat) (s : St) (L : List Nat) (h : Inv s L) :
    ((dupUstrings k n s).1 = OK ∧ Good k (n + 1) s (dupUstrings k n s).2.2 ∧
        (dupUstrings k n s).2.1.length = n + 1 ∧
        Inv (dupUstrings k n s).2.2 ((dupUstrings k n s).2.1 ++ L)) ∨
    ((dupUstrings k n s).1 = MEMORY_ERROR ∧ (dupUstrings k n s).2.1 = [] ∧
        Bad k (n + 1) s (dupUstrings k n s).2.2 ∧ Inv (dupUstrings k n s).2.2 L) := by
  simp only [dupUstrings]
  rcases alloc_cases k s with ⟨hk, ha⟩ | ⟨hk, ha⟩ <;> simp only [ha]
  · right
    exact ⟨trivial, trivial, (Bad.alloc hk).mono (by omega), h.fail⟩
  · rcases dupLoop_spec k (s.count + 1) n [] _ L h.alloc with ⟨h2, h3, h4, h5⟩ | ⟨h2, h3, h4, h5⟩
    · left
      exact ⟨h2, (Good.alloc hk).trans' h3 (by omega), by simpa using h4, h5⟩
    · right
      exact ⟨h2, h3, (Good.alloc hk).bad' h4 (by omega), h5⟩

end CifModel.Lemmas.Ladder
