import CifModel.Lemmas.WriterChunks
/-
  Lemmas/WriterLinesC — the line bound in CHARACTERS.

  `C02_line_bound` (Lemmas/WriterLines.lean) bounds every line of the output by 2048 code UNITS, and therefore has to ask that block
  codes, data names and loop-header names are short in units.  The property speaks of characters, the API bounds names and codes
  in characters, and the writer itself tests data names with `u_countChar32`.  Here the bound is proved in characters: a character
  is a unit that does not continue a surrogate pair (`cpw` — for well-formed UTF-16, which is what the writer is given and emits:
  C02_output_units, this is the number of code points).  Per-unit weights ≤ 1 make the character column a lower bound of the unit
  column, so every unit-level fact transfers (`lineOkC_of`); only the three places where a name or code is printed are new:
  `write_item`'s data name (the writer's own `u_countChar32` test suffices — no hypothesis on its length is left), the
  loop-header lines and the `data_` / `save_` lines.  `last_column` (units) may exceed 2048 behind a long name of supplementary
  characters; the separator that follows (`ENSURE_SPACED`: names are only written where values are separated) then breaks the line.
-/
set_option linter.unusedSimpArgs false
set_option linter.unusedVariables false

namespace CifModel.Lemmas.WriterLinesC
open CifModel CifModel.Model CifModel.Model.Writer CifModel.Gen CifModel.Lemmas.WriterLines CifModel.Lemmas.WriterChunks

/-! ### columns in characters -/

/-- a trail surrogate -/
def isTrail (u : CU) : Bool := decide (0xDC00 ≤ u ∧ u < 0xE000)

/-- the width of a unit in characters: a trail surrogate continues the character its lead surrogate began -/
def cpw (u : CU) : Nat := if isTrail u then 0 else 1

/-- the length of a string in characters -/
def cpLen : Str → Nat
  | [] => 0
  | u :: r => cpw u + cpLen r

def endColC : Nat → Str → Nat
  | k, [] => k
  | k, u :: r => if u = 10 then endColC 0 r else endColC (k + cpw u) r

/-- no line (the last, unterminated one included) exceeds the limit IN CHARACTERS when `o` is written from character column `k` -/
def fitsC : Nat → Str → Bool
  | k, [] => decide (k ≤ LINE)
  | k, u :: r => if u = 10 then decide (k ≤ LINE) && fitsC 0 r else fitsC (k + cpw u) r

theorem cpw_le (u : CU) : cpw u ≤ 1 := by unfold cpw; split <;> omega

theorem cpLen_le_length : ∀ (s : Str), cpLen s ≤ s.length
  | [] => Nat.le_refl _
  | u :: r => by have := cpLen_le_length r; have := cpw_le u; simp only [cpLen, List.length_cons]; omega

/-- characters never exceed `u_countChar32` (they are equal for well-formed UTF-16; a lone trail surrogate is counted by ICU) -/
theorem cpLen_le_countChar32 : ∀ (n : Nat) (s : Str), s.length ≤ n → cpLen s ≤ Writer.countChar32 s := by
  intro n
  induction n with
  | zero => intro s h; have : s = [] := List.eq_nil_of_length_eq_zero (by omega); subst this; simp [cpLen, Writer.countChar32]
  | succ m ih =>
    intro s h
    match s with
    | [] => simp [cpLen, Writer.countChar32]
    | [a] => have := cpw_le a; simp only [cpLen, Writer.countChar32]; omega
    | a :: b :: r =>
      simp only [Writer.countChar32]
      split
      · rename_i hp
        have hb : cpw b = 0 := by
          unfold cpw isTrail
          have : (0xDC00 ≤ b ∧ b < 0xE000) := ⟨hp.2.2.1, hp.2.2.2⟩
          simp [this]
        have := ih r (by simp only [List.length_cons] at h; omega)
        have := cpw_le a
        simp only [cpLen, hb]; omega
      · have h1 := ih (b :: r) (by simp only [List.length_cons] at h ⊢; omega)
        have h2 := cpw_le a
        simp only [cpLen] at h1 ⊢; omega

theorem cpLen_le_count (s : Str) : cpLen s ≤ Writer.countChar32 s := cpLen_le_countChar32 s.length s (Nat.le_refl _)

theorem fitsC_le : ∀ (o : Str) (k : Nat), fitsC k o = true → k ≤ LINE := by
  intro o
  induction o with
  | nil => intro k h; simpa [fitsC] using h
  | cons u r ih =>
    intro k h
    simp only [fitsC] at h
    split at h
    · simp only [Bool.and_eq_true, decide_eq_true_eq] at h; exact h.1
    · have := ih _ h; omega

theorem endColC_append : ∀ (a b : Str) (k : Nat), endColC k (a ++ b) = endColC (endColC k a) b := by
  intro a
  induction a with
  | nil => intro b k; rfl
  | cons u r ih =>
    intro b k
    simp only [List.cons_append, endColC]
    split <;> exact ih _ _

theorem fitsC_append : ∀ (a b : Str) (k : Nat), fitsC k (a ++ b) = (fitsC k a && fitsC (endColC k a) b) := by
  intro a
  induction a with
  | nil =>
    intro b k
    simp only [List.nil_append, fitsC, endColC]
    cases h : fitsC k b
    · simp
    · simp [fitsC_le b k h]
  | cons u r ih =>
    intro b k
    simp only [List.cons_append, fitsC, endColC]
    split
    · rw [ih]; simp [Bool.and_assoc]
    · exact ih _ _

theorem trackC_noeol : ∀ (t : Str) (k : Nat), (10 : CU) ∉ t → endColC k t = k + cpLen t ∧ fitsC k t = decide (k + cpLen t ≤ LINE) := by
  intro t
  induction t with
  | nil => intro k _; exact ⟨by simp [endColC, cpLen], by simp only [fitsC, cpLen, Nat.add_zero]; rfl⟩
  | cons u r ih =>
    intro k h
    have hu : u ≠ 10 := fun e => h (e ▸ List.mem_cons_self)
    have hr : (10 : CU) ∉ r := fun e => h (List.mem_cons_of_mem _ e)
    simp only [endColC, fitsC, hu, if_false, cpLen]
    obtain ⟨h1, h2⟩ := ih (k + cpw u) hr
    rw [h1, h2]
    constructor
    · omega
    · congr 1; simp only [eq_iff_iff]; omega

/-- the unit-level facts imply the character-level ones, from every character column below the unit column -/
theorem fitsC_of_fitsU : ∀ (o : Str) (k k' : Nat), k' ≤ k → fitsU k o = true → fitsC k' o = true ∧ endColC k' o ≤ endCol k o := by
  intro o
  induction o with
  | nil => intro k k' hk h; simp only [fitsU, fitsC, endCol, endColC, decide_eq_true_eq] at *; exact ⟨by omega, hk⟩
  | cons u r ih =>
    intro k k' hk h
    simp only [fitsU, endCol] at h
    simp only [fitsC, endColC, endCol]
    by_cases hu : u = 10
    · simp only [hu, if_true, Bool.and_eq_true, decide_eq_true_eq] at h ⊢
      obtain ⟨a, b⟩ := ih 0 0 (Nat.le_refl _) h.2
      exact ⟨⟨by omega, a⟩, b⟩
    · simp only [hu, if_false] at h ⊢
      have := cpw_le u
      exact ih (k + 1) (k' + cpw u) (by omega) h

/-- the bound on every line of the output, in characters -/
theorem lines_of_fitsC : ∀ (o : Str) (k : Nat), fitsC k o = true →
    (∀ l ∈ (splitLines o).tail, cpLen l ≤ LINE) ∧ k + cpLen ((splitLines o).headD []) ≤ LINE := by
  intro o
  induction o with
  | nil => intro k h; simp [splitLines, fitsC, cpLen] at h ⊢; exact h
  | cons u r ih =>
    intro k h
    have hne := Lemmas.WriterText.splitLines_ne_nil r
    simp only [fitsC] at h
    simp only [splitLines]
    by_cases hu : u = 10
    · simp only [hu, if_true, Bool.and_eq_true, decide_eq_true_eq] at h ⊢
      obtain ⟨h1, h2⟩ := ih 0 h.2
      constructor
      · intro l hl
        simp only [List.tail_cons] at hl
        cases hs : splitLines r with
        | nil => exact absurd hs hne
        | cons a b =>
          rw [hs] at hl h1 h2
          rcases List.mem_cons.mp hl with e | e
          · subst e; simpa using h2
          · exact h1 l (by simpa using e)
      · simpa [cpLen] using h.1
    · simp only [hu, if_false] at h ⊢
      obtain ⟨h1, h2⟩ := ih (k + cpw u) h
      cases hs : splitLines r with
      | nil => exact absurd hs hne
      | cons a b =>
        rw [hs] at h1 h2
        simp only [List.tail_cons, List.headD_cons, cpLen] at h1 h2 ⊢
        exact ⟨h1, by omega⟩

theorem all_lines_of_fitsC (o : Str) (h : fitsC 0 o = true) : ∀ l ∈ splitLines o, cpLen l ≤ LINE := by
  obtain ⟨h1, h2⟩ := lines_of_fitsC o 0 h
  intro l hl
  have hne := Lemmas.WriterText.splitLines_ne_nil o
  cases hs : splitLines o with
  | nil => exact absurd hs hne
  | cons a b =>
    rw [hs] at hl h1 h2
    rcases List.mem_cons.mp hl with e | e
    · subst e; simpa using h2
    · exact h1 l (by simpa using e)

/-! ### the invariant in characters -/

/-- `LineOk` with the output measured in characters: `last_column` (units) stays within the line, and from every character
    column `k ≤ last_column` the output keeps all lines within the limit and ends at a character column `≤` the new `last_column` -/
def LineOkC (c : Ctx) (r : W) : Prop :=
  c.lastColumn ≤ LINE → ∀ o c', r = .ok (o, c') →
    c'.lastColumn ≤ LINE ∧ ∀ k, k ≤ c.lastColumn → fitsC k o = true ∧ endColC k o ≤ c'.lastColumn

theorem lineOkC_of {c : Ctx} {r : W} (h : LineOk c r) : LineOkC c r := by
  intro hc o c' he
  obtain ⟨h1, h2⟩ := h hc o c' he
  refine ⟨h1, fun k hk => ?_⟩
  obtain ⟨f, e⟩ := h2 c.lastColumn (Nat.le_refl _)
  obtain ⟨f', e'⟩ := fitsC_of_fitsU o c.lastColumn k hk f
  exact ⟨f', by omega⟩

theorem lineOkC_error (c : Ctx) (e : Code) : LineOkC c (.error e) := by
  intro _ o c' h; cases h

theorem lineOkC_andThen {c : Ctx} {a : W} {f : Ctx → W} (ha : LineOkC c a) (hf : ∀ c1, LineOkC c1 (f c1)) :
    LineOkC c (andThen a f) := by
  intro hc o c' h
  obtain ⟨o1, c1, o2, e1, e2, eo⟩ := andThen_ok h
  obtain ⟨h1, h2⟩ := ha hc o1 c1 e1
  obtain ⟨h3, h4⟩ := hf c1 h1 o2 c' e2
  refine ⟨h3, ?_⟩
  intro k hk
  obtain ⟨f1, g1⟩ := h2 k hk
  obtain ⟨f2, g2⟩ := h4 (endColC k o1) g1
  rw [eo, fitsC_append, endColC_append, f1, f2]
  exact ⟨rfl, g2⟩

theorem lineOkC_congr {c c2 : Ctx} {r : W} (h : c2.lastColumn = c.lastColumn) (hl : LineOkC c r) : LineOkC c2 r := by
  intro hc o c' he
  obtain ⟨h1, h2⟩ := hl (by omega) o c' he
  exact ⟨h1, fun k hk => h2 k (by omega)⟩

theorem lineOkC_of_track (c : Ctx) (o : Str) (c' : Ctx) (hc' : c'.lastColumn ≤ LINE)
    (h : c.lastColumn ≤ LINE → ∀ k, k ≤ c.lastColumn → fitsC k o = true ∧ endColC k o ≤ c'.lastColumn) :
    LineOkC c (.ok (o, c')) := by
  intro hc o' c'' he
  simp only [Except.ok.injEq, Prod.mk.injEq] at he
  rw [← he.1, ← he.2]
  exact ⟨hc', h hc⟩

/-- a line `t` (no line feed, at most `LINE` characters) behind a line feed, ended by a line feed -/
theorem lineOkC_lit_lf (c : Ctx) (t : Str) (c' : Ctx) (ht : (10 : CU) ∉ t) (hlen : cpLen t ≤ LINE) (hc' : c'.lastColumn = 0) :
    LineOkC c (.ok (10 :: (t ++ [10]), c')) := by
  apply lineOkC_of_track c _ _ (by omega)
  intro hc k hk
  obtain ⟨a1, a2⟩ := trackC_noeol t 0 ht
  simp only [fitsC, endColC, if_true]
  rw [fitsC_append, endColC_append, a1, a2]
  simp only [fitsC, endColC, if_true, Nat.zero_add, Bool.and_eq_true, decide_eq_true_eq, and_true]
  exact ⟨⟨by omega, hlen, hlen, Nat.zero_le _⟩, by omega⟩

/-! ### the data name of an item -/

/-- `write_item` up to the value, where the name is written and values are separated: the writer's own `u_countChar32` test
    bounds the name's line in characters; `ENSURE_SPACED` brings `last_column` back within the line -/
theorem lineOkC_head_named (c : Ctx) (n : Str) (hw : c.writeItemNames = true) (hs : c.separateValues = true) (hn : (10 : CU) ∉ n) :
    LineOkC c (writeItemHead c n) := by
  intro hc o c' h
  unfold writeItemHead at h
  simp only [hw, if_true] at h
  obtain ⟨o1, c1, o2, e1, e2, eo⟩ := andThen_ok h
  -- the named part
  have hnamed : ∃ pre, o1 = pre ++ n ∧ (pre = [] ∧ c.lastColumn = 0 ∨ pre = [10]) ∧ Writer.countChar32 n ≤ LINE
      ∧ c1.lastColumn = n.length ∧ c1.separateValues = true := by
    split at e1
    · cases e1
    · have hp : printfS n.length n = n := by simp [printfS]
      by_cases hcol : c.lastColumn > 0
      · simp only [hcol, if_true, writeNewline] at e1
        unfold writeULiteral at e1
        simp only [hp, Nat.add_zero] at e1
        by_cases hz : Writer.countChar32 n = 0
        · simp only [hz, if_true] at e1
          simp at e1
        · simp only [hz, if_false] at e1
          by_cases h1 : Writer.countChar32 n > LINE
          · simp only [h1, if_true, Bool.false_eq_true, if_false] at e1; cases e1
          · simp only [h1, if_false] at e1
            split at e1
            · cases e1
            · simp only [Except.ok.injEq, Prod.mk.injEq] at e1
              refine ⟨[10], e1.1.symm, Or.inr rfl, by omega, ?_, ?_⟩
              · rw [← e1.2]; simp
              · rw [← e1.2]; exact hs
      · have h0 : c.lastColumn = 0 := by omega
        simp only [hcol, if_false] at e1
        unfold writeULiteral at e1
        simp only [hp, h0, Nat.add_zero] at e1
        by_cases hz : Writer.countChar32 n = 0
        · simp only [hz, if_true] at e1
          simp at e1
        · simp only [hz, if_false] at e1
          by_cases h1 : Writer.countChar32 n > LINE
          · simp only [h1, if_true, Bool.false_eq_true, if_false] at e1; cases e1
          · simp only [h1, if_false] at e1
            split at e1
            · cases e1
            · simp only [List.nil_append, Except.ok.injEq, Prod.mk.injEq] at e1
              refine ⟨[], by simpa using e1.1.symm, Or.inl ⟨rfl, h0⟩, by omega, ?_, ?_⟩
              · rw [← e1.2]; simp
              · rw [← e1.2]; exact hs
  obtain ⟨pre, ho1, hpre, hcnt, hc1, hs1⟩ := hnamed
  -- the separator
  simp only [hs1, if_true, Except.ok.injEq, Prod.mk.injEq] at e2
  have hcp := cpLen_le_count n
  obtain ⟨t1, t2⟩ := trackC_noeol n 0 hn
  have hsp : (o2 = [10] ∧ c'.lastColumn = 0) ∨ (o2 = [32] ∧ c'.lastColumn = n.length + 1 ∧ n.length + 1 ≤ LINE)
      ∨ (o2 = [] ∧ c'.lastColumn = 0 ∧ n.length = 0) := by
    unfold ensureSpaced at e2
    by_cases hz : c1.lastColumn = 0
    · rw [if_pos hz] at e2
      simp only [Prod.mk.injEq] at e2
      right; right
      exact ⟨e2.1.symm, by rw [← e2.2]; exact hz, by omega⟩
    · rw [if_neg hz] at e2
      unfold writeLiteral at e2
      simp only [List.length_cons, List.length_nil, Nat.zero_add, Nat.one_ne_zero, if_false] at e2
      by_cases hfit : 1 + c1.lastColumn > LINE
      · simp only [hfit, if_true, Bool.false_eq_true, if_false, writeNewline, Prod.mk.injEq] at e2
        left; exact ⟨e2.1.symm, by rw [← e2.2]⟩
      · simp only [hfit, if_false, Prod.mk.injEq] at e2
        right; left
        exact ⟨e2.1.symm, by rw [← e2.2]; simp; omega, by omega⟩
  have hfinal : ∀ k, k ≤ c.lastColumn → fitsC k (pre ++ n ++ o2) = true ∧ endColC k (pre ++ n ++ o2) ≤ c'.lastColumn := by
    intro k hk
    -- everything after `pre` is written from character column 0
    have body : fitsC 0 (n ++ o2) = true ∧ endColC 0 (n ++ o2) ≤ c'.lastColumn := by
      rw [fitsC_append, endColC_append, t1, t2]
      rcases hsp with ⟨a, b⟩ | ⟨a, b, b'⟩ | ⟨a, b, b'⟩
      · rw [a, b]; simp only [fitsC, endColC, if_true, Nat.zero_add, Bool.and_eq_true, decide_eq_true_eq, and_true]
        exact ⟨⟨by omega, by omega, Nat.zero_le _⟩, Nat.le_refl _⟩
      · have := cpLen_le_length n
        rw [a, b]; simp only [fitsC, endColC, Nat.zero_add, Bool.and_eq_true, decide_eq_true_eq]
        have h32 : ¬ ((32 : CU) = 10) := by decide
        have hw32 : cpw 32 = 1 := by decide
        simp only [h32, if_false, hw32, decide_eq_true_eq]
        exact ⟨⟨by omega, by omega⟩, by omega⟩
      · have : n = [] := List.eq_nil_of_length_eq_zero b'
        subst this
        rw [a, b]; simp [fitsC, endColC, cpLen]
    rcases hpre with ⟨hp, h0⟩ | hp
    · subst hp
      have hk0 : k = 0 := by omega
      subst hk0
      simpa using body
    · subst hp
      simp only [List.cons_append, List.nil_append, fitsC, endColC, if_true, Bool.and_eq_true, decide_eq_true_eq]
      exact ⟨⟨by omega, body.1⟩, body.2⟩
  refine ⟨?_, ?_⟩
  · rcases hsp with ⟨_, b⟩ | ⟨_, b, b'⟩ | ⟨_, b, _⟩ <;> omega
  · intro k hk
    rw [eo, ho1]
    exact hfinal k hk

/-- `write_item` up to the value, in every context the writer reaches: names are written only where values are separated -/
theorem lineOkC_head (c : Ctx) (n : Str) (hn : c.writeItemNames = true → c.separateValues = true ∧ (10 : CU) ∉ n) :
    LineOkC c (writeItemHead c n) := by
  cases hw : c.writeItemNames with
  | true => exact lineOkC_head_named c n hw (hn hw).1 (hn hw).2
  | false => exact lineOkC_of (lineOk_writeItemHead c n (fun h => by rw [hw] at h; cases h))

/-! ### `write_item` keeps the flags -/

theorem literalOrError_keep (c : Ctx) (t : Str) (w : Bool) (o : Str) (c' : Ctx) (h : literalOrError c t w = .ok (o, c')) : Keep c c' := by
  unfold literalOrError at h
  cases hl : writeLiteral c t w with
  | none => simp [hl] at h
  | some r =>
    simp only [hl, Except.ok.injEq] at h
    have := Lemmas.WriterTotal.writeLiteral_same c t w r hl
    unfold writeLiteral at hl
    split at hl
    · cases hl; cases h; exact Keep.refl c
    · split at hl
      · split at hl
        · cases hl; cases h; exact keep_col c _
        · cases hl
      · cases hl; cases h; exact keep_col c _

theorem ensureSpaced_keep (c : Ctx) : Keep c (ensureSpaced c).2 := by
  unfold ensureSpaced
  split
  · exact Keep.refl c
  · cases hl : writeLiteral c [32] false with
    | none => exact keep_col c 0
    | some r =>
      simp only
      unfold writeLiteral at hl
      simp only [List.length_cons, List.length_nil, Nat.zero_add, Nat.one_ne_zero, if_false] at hl
      split at hl
      · simp at hl
      · cases hl; exact keep_col c _

theorem head_keep (c : Ctx) (n : Str) (o : Str) (c' : Ctx) (h : writeItemHead c n = .ok (o, c')) : Keep c c' := by
  unfold writeItemHead at h
  obtain ⟨o1, c1, o2, e1, e2, _⟩ := andThen_ok h
  have k1 : Keep c c1 := by
    split at e1
    · split at e1
      · cases e1
      · cases hu : writeULiteral (if c.lastColumn > 0 then writeNewline c else ([], c)).2 n none false with
        | none => simp [hu] at e1
        | some r =>
          obtain ⟨o3, c3⟩ := r
          simp only [hu] at e1
          split at e1
          · cases e1
          · simp only [Except.ok.injEq, Prod.mk.injEq] at e1
            rw [← e1.2]
            have := writeULiteral_keep _ n none false (o3, c3) hu
            refine Keep.trans ?_ this
            split
            · exact keep_col c 0
            · exact Keep.refl c
    · cases e1; exact Keep.refl c
  split at e2
  · simp only [Except.ok.injEq] at e2
    have e3 : (ensureSpaced c1).2 = c' := by rw [e2]
    rw [← e3]; exact k1.trans (ensureSpaced_keep c1)
  · cases e2; exact k1

/-- `write_item` leaves `separate_values` and `write_item_names` as it found them (the list and table writers restore them) -/
theorem item_keep (n : Str) (v : V) (c : Ctx) (o : Str) (c' : Ctx) (h : writeItem n v c = .ok (o, c')) :
    c'.separateValues = c.separateValues ∧ c'.writeItemNames = c.writeItemNames := by
  unfold writeItem at h
  obtain ⟨o1, c1, o2, e1, e2, _⟩ := andThen_ok h
  have k1 := head_keep c n o1 c1 e1
  match v with
  | .chr q t => have := writeChar_keep c1 t q true o2 c' e2; exact ⟨this.1.trans k1.1, this.2.1.trans k1.2.1⟩
  | .numb q t _ _ _ _ =>
    simp only at e2
    unfold writeNumb at e2
    split at e2
    · have := writeChar_keep c1 t true true o2 c' e2; exact ⟨this.1.trans k1.1, this.2.1.trans k1.2.1⟩
    · split at e2
      · have := writeChar_keep c1 t false true o2 c' e2; exact ⟨this.1.trans k1.1, this.2.1.trans k1.2.1⟩
      · cases hu : writeULiteral c1 t none true with
        | none => simp [hu] at e2
        | some r =>
          obtain ⟨o3, c3⟩ := r
          simp only [hu] at e2
          split at e2
          · cases e2
          · simp only [Except.ok.injEq, Prod.mk.injEq] at e2
            have := writeULiteral_keep c1 t none true (o3, c3) hu
            rw [← e2.2]
            exact ⟨this.1.trans k1.1, this.2.1.trans k1.2.1⟩
  | .na => have := literalOrError_keep c1 _ _ o2 c' e2; exact ⟨this.1.trans k1.1, this.2.1.trans k1.2.1⟩
  | .unk => have := literalOrError_keep c1 _ _ o2 c' e2; exact ⟨this.1.trans k1.1, this.2.1.trans k1.2.1⟩
  | .lst vs =>
    simp only at e2
    split at e2
    · cases e2
    · obtain ⟨o3, c2, o4, f1, f2, _⟩ := andThen_ok e2
      have k2 := literalOrError_keep c1 _ _ o3 c2 f1
      obtain ⟨o5, c3, o6, g1, g2, _⟩ := andThen_ok f2
      obtain ⟨o7, c4, o8, i1, i2, _⟩ := andThen_ok g2
      simp only [Except.ok.injEq, Prod.mk.injEq] at i2
      rw [← i2.2]
      exact ⟨k2.1.trans k1.1, k2.2.1.trans k1.2.1⟩
  | .tbl es =>
    simp only at e2
    split at e2
    · cases e2
    · obtain ⟨o3, c2, o4, f1, f2, _⟩ := andThen_ok e2
      have k2 := literalOrError_keep c1 _ _ o3 c2 f1
      obtain ⟨o5, c3, o6, g1, g2, _⟩ := andThen_ok f2
      obtain ⟨o7, c4, o8, i1, i2, _⟩ := andThen_ok g2
      simp only [Except.ok.injEq, Prod.mk.injEq] at i2
      rw [← i2.2]
      exact ⟨k2.1.trans k1.1, k2.2.1.trans k1.2.1⟩

/-! ### items: the value behind the head -/

theorem lineOkC_item (n : Str) (v : V) (c : Ctx) (hn : c.writeItemNames = true → c.separateValues = true ∧ (10 : CU) ∉ n)
    (hv : valueL v) : LineOkC c (writeItem n v c) := by
  unfold writeItem
  apply lineOkC_andThen (lineOkC_head c n hn)
  intro c1
  apply lineOkC_of
  match v, hv with
  | .chr q t, hv => exact lineOk_writeChar c1 t q true hv.1 hv.2
  | .numb q t _ _ _ _, hv => exact lineOk_writeNumb c1 t q hv
  | .na, _ => exact lineOk_literalOrError c1 _ _ (by decide) (by decide)
  | .unk, _ => exact lineOk_literalOrError c1 _ _ (by decide) (by decide)
  | .lst vs, hv =>
    simp only
    split
    · exact lineOk_error _ _
    · apply lineOk_andThen (lineOk_literalOrError c1 _ _ (by decide) (by decide))
      intro c2
      have hE : LineOk c2 (writeElems vs { c2 with writeItemNames := false, separateValues := true }) :=
        lineOk_congr (c := { c2 with writeItemNames := false, separateValues := true }) rfl
          (lineOk_elems vs _ (by simpa [valueL] using hv))
      apply lineOk_andThen hE
      intro c3
      apply lineOk_andThen (lineOk_literalOrError c3 _ _ (by decide) (by decide))
      intro c4
      exact lineOk_congr (c := { c4 with separateValues := c2.separateValues, writeItemNames := c2.writeItemNames })
        rfl (lineOk_nop _)
  | .tbl es, hv =>
    simp only
    split
    · exact lineOk_error _ _
    · apply lineOk_andThen (lineOk_literalOrError c1 _ _ (by decide) (by decide))
      intro c2
      have hE : LineOk c2 (writeEntries es { c2 with writeItemNames := false }) :=
        lineOk_congr (c := { c2 with writeItemNames := false }) rfl (lineOk_entries es _ (by simpa [valueL] using hv))
      apply lineOk_andThen hE
      intro c3
      apply lineOk_andThen (lineOk_literalOrError c3 _ _ (by decide) (by decide))
      intro c4
      exact lineOk_congr (c := { c4 with separateValues := c2.separateValues, writeItemNames := c2.writeItemNames })
        rfl (lineOk_nop _)

/-! ### the document level: values are separated wherever names are written -/

/-- `LineOkC` for the steps of the walk, which start and end with `separate_values` on -/
def LineOkS (c : Ctx) (r : W) : Prop :=
  c.separateValues = true → c.lastColumn ≤ LINE → ∀ o c', r = .ok (o, c') →
    c'.separateValues = true ∧ c'.lastColumn ≤ LINE ∧ ∀ k, k ≤ c.lastColumn → fitsC k o = true ∧ endColC k o ≤ c'.lastColumn

theorem lineOkS_of {c : Ctx} {r : W} (h : LineOkC c r) (hk : ∀ o c', r = .ok (o, c') → c'.separateValues = c.separateValues) :
    LineOkS c r := by
  intro hs hc o c' he
  obtain ⟨a, b⟩ := h hc o c' he
  exact ⟨by rw [hk o c' he]; exact hs, a, b⟩

theorem lineOkS_error (c : Ctx) (e : Code) : LineOkS c (.error e) := by
  intro _ _ o c' h; cases h

theorem lineOkS_andThen' {c : Ctx} {a : W} {f : Ctx → W} (ha : LineOkS c a)
    (hf : ∀ o1 c1, a = .ok (o1, c1) → LineOkS c1 (f c1)) : LineOkS c (andThen a f) := by
  intro hs hc o c' h
  obtain ⟨o1, c1, o2, e1, e2, eo⟩ := andThen_ok h
  obtain ⟨s1, h1, h2⟩ := ha hs hc o1 c1 e1
  obtain ⟨s2, h3, h4⟩ := hf o1 c1 e1 s1 h1 o2 c' e2
  refine ⟨s2, h3, ?_⟩
  intro k hk
  obtain ⟨f1, g1⟩ := h2 k hk
  obtain ⟨f2, g2⟩ := h4 (endColC k o1) g1
  rw [eo, fitsC_append, endColC_append, f1, f2]
  exact ⟨rfl, g2⟩

theorem lineOkS_andThen {c : Ctx} {a : W} {f : Ctx → W} (ha : LineOkS c a) (hf : ∀ c1, LineOkS c1 (f c1)) :
    LineOkS c (andThen a f) := lineOkS_andThen' ha (fun _ c1 _ => hf c1)

theorem lineOkS_andThen_ok {c c1 : Ctx} {o : Str} {f : Ctx → W} (ha : LineOkS c (.ok (o, c1))) (hf : LineOkS c1 (f c1)) :
    LineOkS c (andThen (.ok (o, c1)) f) := by
  intro hs hc o' c' h
  obtain ⟨o1, c1', o2, e1, e2, eo⟩ := andThen_ok h
  simp only [Except.ok.injEq, Prod.mk.injEq] at e1
  obtain ⟨e1a, e1b⟩ := e1
  subst e1a; subst e1b
  obtain ⟨s1, h1, h2⟩ := ha hs hc o c1 rfl
  obtain ⟨s2, h3, h4⟩ := hf s1 h1 o2 c' e2
  refine ⟨s2, h3, ?_⟩
  intro k hk
  obtain ⟨f1, g1⟩ := h2 k hk
  obtain ⟨f2, g2⟩ := h4 (endColC k o) g1
  rw [eo, fitsC_append, endColC_append, f1, f2]
  exact ⟨rfl, g2⟩

theorem lineOkS_ok (c : Ctx) (o : Str) (c' : Ctx) (hs : c'.separateValues = c.separateValues) (h : LineOkC c (.ok (o, c'))) :
    LineOkS c (.ok (o, c')) :=
  lineOkS_of h (fun o1 c1 e => by simp only [Except.ok.injEq, Prod.mk.injEq] at e; rw [← e.2]; exact hs)

theorem lineOkS_ok' {c : Ctx} {o : Str} {c' : Ctx} (h : LineOkC c (.ok (o, c'))) (hs : c'.separateValues = c.separateValues) :
    LineOkS c (.ok (o, c')) := lineOkS_ok c o c' hs h

theorem lineOkS_newline (c : Ctx) : LineOkS c (.ok (writeNewline c)) :=
  lineOkS_ok c _ _ rfl (lineOkC_of (lineOk_newline c))

theorem lineOkS_nop (c : Ctx) : LineOkS c (.ok ([], c)) := lineOkS_ok c _ _ rfl (lineOkC_of (lineOk_nop c))

/-- the items of a packet: values as for `C02_line_bound`; the data names — where they are written — hold no line feed; their
    LENGTH is not restricted -/
def itemsLC (named : Bool) (p : List (Str × V)) : Prop := ∀ nv ∈ p, valueL nv.2 ∧ (named = true → (10 : CU) ∉ nv.1)

theorem lineOkS_item (n : Str) (v : V) (c : Ctx) (hn : c.writeItemNames = true → (10 : CU) ∉ n) (hv : valueL v) :
    LineOkS c (writeItem n v c) := by
  intro hs
  exact lineOkS_of (lineOkC_item n v c (fun hw => ⟨hs, hn hw⟩) hv) (fun o c' e => (item_keep n v c o c' e).1) hs

theorem lineOkS_items : ∀ (p : List (Str × V)) (c : Ctx), itemsLC c.writeItemNames p → LineOkS c (writeItems p c) := by
  intro p
  induction p with
  | nil => intro c _; exact lineOkS_nop c
  | cons nv rest ih =>
    intro c h
    obtain ⟨n, v⟩ := nv
    simp only [writeItems]
    have h1 := h (n, v) List.mem_cons_self
    apply lineOkS_andThen' (lineOkS_item n v c h1.2 h1.1)
    intro o1 c1 e1
    apply ih c1
    rw [(item_keep n v c o1 c1 e1).2]
    exact fun x hx => h x (List.mem_cons_of_mem _ hx)

theorem items_keep : ∀ (p : List (Str × V)) (c : Ctx) (o : Str) (c' : Ctx), writeItems p c = .ok (o, c') →
    c'.writeItemNames = c.writeItemNames := by
  intro p
  induction p with
  | nil => intro c o c' h; simp only [writeItems, Except.ok.injEq, Prod.mk.injEq] at h; rw [← h.2]
  | cons nv rest ih =>
    intro c o c' h
    obtain ⟨n, v⟩ := nv
    simp only [writeItems] at h
    obtain ⟨o1, c1, o2, e1, e2, _⟩ := andThen_ok h
    rw [ih c1 o2 c' e2, (item_keep n v c o1 c1 e1).2]

theorem lineOkS_packets : ∀ (ps : List (List (Str × V))) (c : Ctx), (∀ p ∈ ps, itemsLC c.writeItemNames p) →
    LineOkS c (writePackets ps c) := by
  intro ps
  induction ps with
  | nil => intro c _; exact lineOkS_nop c
  | cons p rest ih =>
    intro c h
    simp only [writePackets, writePacket]
    apply lineOkS_andThen'
    · apply lineOkS_andThen (lineOkS_items p c (h p List.mem_cons_self))
      intro c1; exact lineOkS_newline c1
    · intro o1 c1 e1
      apply ih c1
      obtain ⟨o2, c2, o3, f1, f2, _⟩ := andThen_ok e1
      simp only [writeNewline, Except.ok.injEq, Prod.mk.injEq] at f2
      have : c1.writeItemNames = c.writeItemNames := by rw [← f2.2]; exact items_keep p c o2 c2 f1
      rw [this]
      exact fun x hx => h x (List.mem_cons_of_mem _ hx)

/-- a name of a loop header: one line of at most 2048 CHARACTERS (what the API admits) -/
def headerLC (n : Str) : Prop := (10 : CU) ∉ n ∧ cpLen n ≤ LINE

theorem lineOkS_headerNames : ∀ (ns : List Str) (c : Ctx), c.lastColumn = 0 → (∀ n ∈ ns, headerLC n) →
    LineOkS c (writeHeaderNames ns c) := by
  intro ns
  induction ns with
  | nil => intro c _ _; exact lineOkS_nop c
  | cons n rest ih =>
    intro c h0 h
    have hn := h n List.mem_cons_self
    simp only [writeHeaderNames]
    split
    · exact lineOkS_error _ _
    · apply lineOkS_andThen_ok (c1 := { c with lastColumn := 0 })
      · apply lineOkS_ok c _ { c with lastColumn := 0 } rfl
        apply lineOkC_of_track c _ _ (by simp)
        intro _ k hk
        have hk0 : k = 0 := by omega
        subst hk0
        have hno : (10 : CU) ∉ (if Writer.countChar32 n < LINE then [32] else []) ++ n := by
          simp only [List.mem_append, not_or]
          refine ⟨?_, hn.1⟩
          split <;> simp
        have hlen : cpLen ((if Writer.countChar32 n < LINE then [32] else []) ++ n) ≤ LINE := by
          have hcc := cpLen_le_count n
          by_cases hc : Writer.countChar32 n < LINE
          · simp only [hc, if_true, List.cons_append, List.nil_append, cpLen]
            have : cpw 32 = 1 := by decide
            omega
          · simp only [hc, if_false, List.nil_append]; exact hn.2
        generalize (if Writer.countChar32 n < LINE then [32] else []) ++ n = t at hno hlen
        obtain ⟨a1, a2⟩ := trackC_noeol t 0 hno
        rw [fitsC_append, endColC_append, a1, a2]
        simp only [fitsC, endColC, if_true, Nat.zero_add, Bool.and_eq_true, decide_eq_true_eq, and_true]
        exact ⟨⟨hlen, hlen, Nat.zero_le _⟩, Nat.le_refl _⟩
      · exact ih _ rfl (fun x hx => h x (List.mem_cons_of_mem _ hx))

/-- a loop: header names (they are written for loops other than the scalar loop) of at most 2048 characters; items as `itemsLC` -/
def loopLC (l : WLoop) : Prop :=
  (isScalars l.category = false → ∀ n ∈ l.header, headerLC n) ∧ ∀ p ∈ l.packets, itemsLC (isScalars l.category) p

theorem headerNames_keep : ∀ (ns : List Str) (c : Ctx) (o : Str) (c' : Ctx), writeHeaderNames ns c = .ok (o, c') →
    c'.writeItemNames = c.writeItemNames := by
  intro ns
  induction ns with
  | nil => intro c o c' h; simp only [writeHeaderNames, Except.ok.injEq, Prod.mk.injEq] at h; rw [← h.2]
  | cons n rest ih =>
    intro c o c' h
    simp only [writeHeaderNames] at h
    split at h
    · cases h
    · obtain ⟨o1, c1, o2, e1, e2, _⟩ := andThen_ok h
      simp only [Except.ok.injEq, Prod.mk.injEq] at e1
      rw [ih c1 o2 c' e2, ← e1.2]

theorem lineOkS_loop (l : WLoop) (c : Ctx) (h : loopLC l) : LineOkS c (writeLoop l c) := by
  unfold writeLoop
  apply lineOkS_andThen'
  · split
    · apply lineOkS_ok'
      · apply lineOkC_of
        have := lineOk_newline c
        exact lineOk_congr (c := c) rfl (by
          intro hc o c' he
          simp only [writeNewline, Except.ok.injEq, Prod.mk.injEq] at he
          obtain ⟨l1, l2⟩ := this hc [10] { c with lastColumn := 0 } rfl
          rw [← he.1, ← he.2]
          exact ⟨l1, l2⟩)
      · rfl
    · rename_i hsc
      apply lineOkS_andThen_ok (c1 := { c with writeItemNames := false, lastColumn := 0 })
      · apply lineOkS_ok'
        · have := lineOk_lit_lf c (a!"loop_") { c with writeItemNames := false, lastColumn := 0 } (by decide) (by decide) rfl
          exact lineOkC_of (by simpa [LOOP_HEAD] using this)
        · rfl
      · exact lineOkS_headerNames l.header _ rfl (h.1 (by simpa using hsc))
  · intro o1 c1 e1
    have hnames : c1.writeItemNames = isScalars l.category := by
      split at e1
      · rename_i hsc
        simp only [writeNewline, Except.ok.injEq, Prod.mk.injEq] at e1
        rw [← e1.2, hsc]
      · rename_i hsc
        obtain ⟨o2, c2, o3, f1, f2, _⟩ := andThen_ok e1
        simp only [Except.ok.injEq, Prod.mk.injEq] at f1
        rw [headerNames_keep l.header c2 o3 c1 f2, ← f1.2]
        simpa using hsc
    split
    · exact lineOkS_error _ _
    · apply lineOkS_andThen (lineOkS_packets l.packets c1 (by rw [hnames]; exact h.2))
      intro c2; exact lineOkS_newline c2

theorem lineOkS_loops : ∀ (ls : List WLoop) (c : Ctx), (∀ l ∈ ls, loopLC l) → LineOkS c (writeLoops ls c) := by
  intro ls
  induction ls with
  | nil => intro c _; exact lineOkS_nop c
  | cons l rest ih =>
    intro c h
    simp only [writeLoops]
    apply lineOkS_andThen (lineOkS_loop l c (h l List.mem_cons_self))
    intro c1; exact ih c1 (fun x hx => h x (List.mem_cons_of_mem _ hx))

/-- a block or frame code leaves room for `data_` / `save_`, in CHARACTERS (what the API admits) -/
def codeLC (code : Str) : Prop := (10 : CU) ∉ code ∧ cpLen code + 5 ≤ LINE

mutual
  /-- the hypotheses of the line bound in characters: codes and loop-header names bounded in CHARACTERS; data names of items
      only free of line feeds; strings, keys and numbers as for `C02_line_bound` -/
  def containerLC : WContainer → Prop
    | .mk code frames loops => codeLC code ∧ containersLC frames ∧ ∀ l ∈ loops, loopLC l
  def containersLC : List WContainer → Prop
    | [] => True
    | k :: rest => containerLC k ∧ containersLC rest
end

mutual
  theorem lineOkS_container (k : WContainer) (c : Ctx) (h : containerLC k) : LineOkS c (writeContainer k c) := by
    match k, h with
    | .mk code frames loops, h =>
      simp only [containerLC] at h
      unfold writeContainer
      split
      · exact lineOkS_error _ _
      · apply lineOkS_andThen
        · -- the header line
          apply lineOkS_ok' (c := c) (c' := { c with lastColumn := 0, depth := c.depth + 1 }) ?_ (by simp)
          have hno : (10 : CU) ∉ (if c.depth = 0 then a!"data_" else a!"save_") ++ code := by
            simp only [List.mem_append, not_or]
            refine ⟨?_, h.1.1⟩
            split <;> decide
          have hlen : cpLen ((if c.depth = 0 then a!"data_" else a!"save_") ++ code) ≤ LINE := by
            have := h.1.2
            have e5 : ∀ t : Str, cpLen (a!"data_" ++ t) = 5 + cpLen t ∧ cpLen (a!"save_" ++ t) = 5 + cpLen t := by
              intro t; constructor <;> simp [cpLen, cpw, isTrail] <;> omega
            split
            · rw [(e5 code).1]; omega
            · rw [(e5 code).2]; omega
          have := lineOkC_lit_lf c _ { c with lastColumn := 0, depth := c.depth + 1 } hno hlen rfl
          have e : (if c.depth = 0 then BLOCK_HEAD else FRAME_HEAD) ++ code ++ [10]
              = 10 :: ((if c.depth = 0 then a!"data_" else a!"save_") ++ code ++ [10]) := by
            split <;> simp [BLOCK_HEAD, FRAME_HEAD]
          rw [e]
          exact this
        · intro c1
          apply lineOkS_andThen (lineOkS_containers frames c1 h.2.1)
          intro c2
          apply lineOkS_andThen (lineOkS_loops loops c2 h.2.2)
          intro c3
          simp only []
          split
          · apply lineOkS_ok' ?_ (by simp [writeNewline])
            apply lineOkC_of
            apply lineOk_of_track c3 _ _ (by simp [writeNewline])
            intro hc k hk
            simp only [writeNewline, fitsU, endCol, if_true, Bool.and_eq_true, decide_eq_true_eq]
            exact ⟨⟨by omega, Nat.zero_le _⟩, Nat.le_refl _⟩
          · apply lineOkS_ok' (c := c3) (c' := { c3 with depth := c3.depth - 1, lastColumn := 0 }) ?_ (by simp)
            have := lineOk_lit_lf c3 (a!"save_") { c3 with depth := c3.depth - 1, lastColumn := 0 } (by decide) (by decide) rfl
            exact lineOkC_of (by simpa [FRAME_END] using this)
  theorem lineOkS_containers (ks : List WContainer) (c : Ctx) (h : containersLC ks) : LineOkS c (writeContainers ks c) := by
    match ks, h with
    | [], _ => unfold writeContainers; exact lineOkS_nop c
    | k :: rest, h =>
      simp only [containersLC] at h
      unfold writeContainers
      apply lineOkS_andThen (lineOkS_container k c h.1)
      intro c1
      exact lineOkS_containers rest c1 h.2
end

/-! ### `C02_line_bound`'s hypotheses are stronger -/

theorem itemsLC_of_L (named : Bool) (p : List (Str × V)) (h : itemsL p) : itemsLC named p :=
  fun nv hnv => ⟨(h nv hnv).1, fun _ => (h nv hnv).2.1⟩

theorem headerLC_of_L (n : Str) (h : headerL n) : headerLC n := by
  refine ⟨h.1, ?_⟩
  have := cpLen_le_length n
  have := h.2
  split at this <;> omega

theorem loopLC_of_L (l : WLoop) (h : loopL l) : loopLC l :=
  ⟨fun _ n hn => headerLC_of_L n (h.1 n hn), fun p hp => itemsLC_of_L _ p (h.2 p hp)⟩

mutual
  theorem containerLC_of_L : ∀ (k : WContainer), containerL k → containerLC k
    | .mk code frames loops, h => by
      simp only [containerL] at h
      have := cpLen_le_length code
      exact ⟨⟨h.1.1, by have := h.1.2; omega⟩, containersLC_of_L frames h.2.1, fun l hl => loopLC_of_L l (h.2.2 l hl)⟩
  theorem containersLC_of_L : ∀ (ks : List WContainer), containersL ks → containersLC ks
    | [], _ => trivial
    | k :: r, h => by
      simp only [containersL] at h
      exact ⟨containerLC_of_L k h.1, containersLC_of_L r h.2⟩
end

/-! ### the whole run -/

/-- no line of the output exceeds the limit in characters -/
theorem write_fitsC (version : Nat) (cif : WCif) (out : Str) (h : containersLC cif) (hw : writeCif version cif = .ok out) :
    fitsC 0 out = true := by
  unfold writeCif at hw
  simp only at hw
  generalize hc0 : ({ version := if version = 1 then 1 else 0 } : Ctx) = c0 at hw
  have hcol : c0.lastColumn = 0 := by rw [← hc0]
  have hsep : c0.separateValues = true := by rw [← hc0]
  have L : LineOkS c0 (andThen (.ok ((if c0.isCif1 then MAGIC11 else MAGIC20), c0)) fun c1 =>
      andThen (writeContainers cif c1) fun c2 => .ok (writeNewline c2)) := by
    apply lineOkS_andThen_ok
    · apply lineOkS_ok' ?_ rfl
      apply lineOkC_of
      apply lineOk_of_track c0 _ _ (by rw [hcol]; exact Nat.zero_le _)
      intro _ k hk
      have hk0 : k = 0 := by omega
      subst hk0
      split
      · rw [hcol]; decide
      · rw [hcol]; decide
    · apply lineOkS_andThen (lineOkS_containers cif c0 h)
      intro c2; exact lineOkS_newline c2
  cases hr : (andThen (.ok ((if c0.isCif1 then MAGIC11 else MAGIC20), c0)) fun c1 =>
      andThen (writeContainers cif c1) fun c2 => (.ok (writeNewline c2) : W)) with
  | error e => simp [hr] at hw
  | ok p =>
    obtain ⟨o, c'⟩ := p
    simp only [hr, Except.ok.injEq] at hw
    subst hw
    obtain ⟨_, _, hfit⟩ := L hsep (by rw [hcol]; exact Nat.zero_le _) o c' hr
    exact (hfit 0 (Nat.zero_le _)).1

/-- the scanner's line-length condition (`Spec.Lexical.linesFit`, also in characters) follows -/
theorem linesFit_of_fitsC : ∀ (o : Str) (k col : Nat), col ≤ k → fitsC k o = true → Spec.Lexical.linesFit col o = true := by
  intro o
  induction o with
  | nil => intro k col _ _; rfl
  | cons u r ih =>
    intro k col hk h
    have hL : LINE = 2048 := rfl
    have hw : (if Spec.Lexical.isTrailU u then 0 else 1) = cpw u := by
      unfold cpw isTrail Spec.Lexical.isTrailU
      by_cases h1 : 0xDC00 ≤ u
      · by_cases h2 : u ≤ 0xDFFF
        · have h3 : u < 0xE000 := Nat.lt_succ_of_le h2
          simp [h1, h2, h3]
        · have h3 : ¬ u < 0xE000 := fun h => h2 (Nat.le_of_lt_succ h)
          simp [h1, h2, h3]
      · simp [h1]
    simp only [fitsC] at h
    simp only [Spec.Lexical.linesFit]
    by_cases hu : u = 10
    · simp only [hu, if_true, Bool.and_eq_true, decide_eq_true_eq] at h ⊢
      exact ⟨by omega, ih 0 0 (Nat.le_refl _) h.2⟩
    · simp only [hu, if_false] at h ⊢
      rw [hw]
      exact ih (k + cpw u) (col + cpw u) (by omega) h

/-- characters never exceed `u_countChar32` as `cif_is_valid_name` computes it (Model/Names.lean) -/
theorem cpLen_le_nameCount : ∀ (n : Nat) (s : Str), s.length ≤ n → cpLen s ≤ Model.countChar32 s := by
  intro n
  induction n with
  | zero => intro s h; have : s = [] := List.eq_nil_of_length_eq_zero (by omega); subst this; simp [cpLen, Model.countChar32]
  | succ m ih =>
    intro s h
    match s with
    | [] => simp [cpLen, Model.countChar32]
    | [a] => have := cpw_le a; simp only [cpLen, Model.countChar32]; split <;> omega
    | a :: b :: r =>
      have ha := cpw_le a
      have hb := cpw_le b
      have ih1 := ih (b :: r) (by simp only [List.length_cons] at h ⊢; omega)
      have ih2 := ih r (by simp only [List.length_cons] at h; omega)
      simp only [Model.countChar32]
      split
      · split
        · rename_i hp
          have hb0 : cpw b = 0 := by
            unfold cpw isTrail
            have : (0xDC00 ≤ b ∧ b < 0xE000) := ⟨hp.1, Nat.lt_succ_of_le hp.2⟩
            simp [this]
          simp only [cpLen, hb0]; omega
        · simp only [cpLen] at ih1 ⊢; omega
      · simp only [cpLen] at ih1 ⊢; omega

end CifModel.Lemmas.WriterLinesC
