import CifModel.Model.Writer
/-
  Lemmas about `fold_line`: the value returned never exceeds the length of the line, and — when semicolons are harmless
  (prefixing, or no semicolon in the line) — it is positive, so that the segment loop of `write_text` makes progress
  and never returns CIF_INTERNAL_ERROR.
-/
namespace CifModel.Lemmas.WriterFold
open CifModel.Model.Writer

theorem at0_of_ge (line : Str) (i : Nat) (h : line.length ≤ i) : at0 line i = 0 := by
  unfold at0
  simp [List.getD_eq_getElem?_getD, List.getElem?_eq_none h]

theorem isBlank_at0_lt (line : Str) (i : Nat) (h : isBlank (at0 line i) = true) : i < line.length := by
  by_cases hl : i < line.length
  · exact hl
  · rw [at0_of_ge line i (by omega)] at h
    simp [isBlank] at h

/-- first loop: a terminator is only met at the end of the line; a recorded low candidate lies inside the line -/
theorem foldScanLow_spec (line : Str) (target : Nat) :
    ∀ (fuel len : Nat) (low : Option Nat), len ≤ line.length → (∀ lo, low = some lo → lo < line.length) →
      (∀ k, foldScanLow line target fuel len low = .inl k → k = line.length) ∧
      (∀ low', foldScanLow line target fuel len low = .inr low' → ∀ lo, low' = some lo → lo < line.length) := by
  intro fuel
  induction fuel with
  | zero =>
    intro len low _ hlow
    constructor
    · intro k h; simp [foldScanLow] at h
    · intro low' h lo hlo
      simp [foldScanLow] at h
      subst h; exact hlow lo hlo
  | succ f ih =>
    intro len low hlen hlow
    simp only [foldScanLow]
    by_cases h1 : len > target
    · simp only [h1, ↓reduceIte]
      constructor
      · intro k h; cases h
      · intro low' h lo hlo
        cases h; exact hlow lo hlo
    · simp only [h1, ↓reduceIte]
      by_cases h2 : len ≥ line.length
      · simp only [h2, ↓reduceIte]
        constructor
        · intro k h; cases h; omega
        · intro low' h; cases h
      · simp only [h2, ↓reduceIte]
        apply ih (len + 1) _ (by omega)
        intro lo hlo
        split at hlo
        · cases hlo; omega
        · exact hlow lo hlo

theorem mem_windowOrder (target window x : Nat) (h : x ∈ windowOrder target window) :
    x ≤ target + window ∧ target - window ≤ x := by
  unfold windowOrder at h
  rcases List.mem_cons.mp h with h | h
  · subst h; omega
  · rw [List.mem_flatMap] at h
    obtain ⟨k, hk, hx⟩ := h
    rw [List.mem_range] at hk
    simp at hx
    rcases hx with hx | hx <;> omega

theorem target_mem_windowOrder (target window : Nat) : target ∈ windowOrder target window := by
  simp [windowOrder]

theorem succ_target_mem_windowOrder (target window : Nat) (hw : 0 < window) : target + 1 ∈ windowOrder target window := by
  unfold windowOrder
  apply List.mem_cons_of_mem
  rw [List.mem_flatMap]
  exact ⟨0, List.mem_range.mpr hw, by simp⟩

/-- `fold_line` never returns more than the length of the line -/
theorem foldLine_le (line : Str) (doFold : Bool) (target window : Nat) (forPrefix : Bool) :
    foldLine line doFold target window forPrefix ≤ line.length := by
  unfold foldLine
  split
  · exact Nat.le_refl _
  · have hs := foldScanLow_spec line target (target + 2) 0 none (Nat.zero_le _) (by intro lo h; cases h)
    split
    · rename_i len hl
      rw [hs.1 len hl]; exact Nat.le_refl _
    · rename_i low hl
      have hlow := hs.2 low hl
      split
      · exact Nat.le_refl _
      · rename_i hlong
        split
        · rename_i high hh
          have hhigh : high < line.length := isBlank_at0_lt line high (by simpa using List.find?_some hh)
          split
          · omega
          · rename_i lo
            have := hlow lo rfl
            split
            · omega
            · split <;> omega
        · split
          · rename_i len hf
            have := (mem_windowOrder target window len (List.mem_of_find?_eq_some hf)).1
            omega
          · split
            · rename_i len hf
              have hm := List.mem_of_find?_eq_some hf
              rw [List.mem_reverse, List.mem_range'_1] at hm
              omega
            · split
              · rename_i len hf
                have hm := List.mem_of_find?_eq_some hf
                rw [List.mem_range'_1] at hm
                omega
              · exact Nat.zero_le _

/-- where semicolons are harmless, the fall-back test fails only at a surrogate pair -/
theorem foldOk_false (line : Str) (forPrefix : Bool) (len : Nat) (hsemi : forPrefix = true ∨ 59 ∉ line)
    (h : foldOk line forPrefix len = false) : isSurrogatePair (at0 line (len - 1)) (at0 line len) = true := by
  unfold foldOk at h
  have h1 : (at0 line len != 59 || forPrefix) = true := by
    rcases hsemi with hp | hn
    · simp [hp]
    · have : at0 line len ≠ 59 := by
        intro he
        by_cases hl : len < line.length
        · apply hn
          unfold at0 at he
          rw [List.getD_eq_getElem?_getD, List.getElem?_eq_getElem hl] at he
          simp at he
          rw [← he]; exact List.getElem_mem hl
        · rw [at0_of_ge line len (by omega)] at he; cases he
      simp [this]
  rw [h1] at h
  simpa using h

/-- a unit cannot be both the trail of one pair and the lead of the next -/
theorem not_two_pairs (a b c : Nat) (h1 : isSurrogatePair a b = true) (h2 : isSurrogatePair b c = true) : False := by
  simp [isSurrogatePair] at h1 h2
  exact Nat.lt_irrefl _ (Nat.lt_of_lt_of_le h2.2.2.2 h1.1)

/-- `fold_line` makes progress wherever semicolons are harmless -/
theorem foldLine_pos (line : Str) (doFold : Bool) (target window : Nat) (forPrefix : Bool)
    (hne : line ≠ []) (hw : 0 < window) (hwt : window < target) (hsemi : forPrefix = true ∨ 59 ∉ line) :
    0 < foldLine line doFold target window forPrefix := by
  have hlen : 0 < line.length := List.length_pos_iff.mpr hne
  unfold foldLine
  split
  · exact hlen
  · have hs := foldScanLow_spec line target (target + 2) 0 none (Nat.zero_le _) (by intro lo h; cases h)
    split
    · rename_i len hl
      rw [hs.1 len hl]; exact hlen
    · rename_i low hl
      split
      · exact hlen
      · rename_i hlong
        split
        · rename_i high hh
          have hm := List.mem_of_find?_eq_some hh
          rw [List.mem_range'_1] at hm
          split
          · omega
          · rename_i lo
            split
            · omega
            · split <;> omega
        · split
          · rename_i len hf
            have := (mem_windowOrder target window len (List.mem_of_find?_eq_some hf)).2
            omega
          · rename_i hnone
            -- impossible: `target` and `target + 1` cannot both be refused
            exfalso
            rw [List.find?_eq_none] at hnone
            have h1 := hnone target (target_mem_windowOrder target window)
            have h2 := hnone (target + 1) (succ_target_mem_windowOrder target window hw)
            have p1 := foldOk_false line forPrefix target hsemi (by simpa using h1)
            have p2 := foldOk_false line forPrefix (target + 1) hsemi (by simpa using h2)
            simp only [Nat.add_sub_cancel] at p2
            exact not_two_pairs _ _ _ p1 p2

end CifModel.Lemmas.WriterFold
