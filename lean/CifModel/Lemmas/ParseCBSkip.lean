import CifModel.Lemmas.ParseCBTrace
/-
  CifModel.Lemmas.ParseCBSkip — while `skip_depth > 0` the parser model makes no handler, data-name or keyword callback
  (only comments reach the whitespace callback) and stores nothing.
-/
namespace CifModel.Lemmas.ParseCB
open CifModel.ParseCB

/-- between `s` and `s'` only whitespace callbacks were made -/
def Quiet (s s' : St) : Prop :=
  ∃ l : List Ev, s'.log = l.reverse ++ s.log ∧ (∀ e ∈ l, ∃ t, e = Ev.ws t) ∧ s'.n = s.n

theorem Quiet.refl (s : St) : Quiet s s := ⟨[], by simp, by simp, rfl⟩
theorem Quiet.of_eq {s s' : St} (hl : s'.log = s.log) (hn : s'.n = s.n) : Quiet s s' := ⟨[], by simp [hl], by simp, hn⟩
theorem Quiet.trans {a b c : St} (h1 : Quiet a b) (h2 : Quiet b c) : Quiet a c := by
  obtain ⟨l1, hl1, hh1, hn1⟩ := h1
  obtain ⟨l2, hl2, hh2, hn2⟩ := h2
  refine ⟨l1 ++ l2, by simp [hl2, hl1], ?_, by omega⟩
  intro e he
  rcases List.mem_append.mp he with h | h
  · exact hh1 e h
  · exact hh2 e h
theorem Quiet.ws (s : St) (t : Str) : Quiet s (note s (.ws t)) := ⟨[.ws t], by simp [ParseCB.note], by simp, rfl⟩

theorem reportPre_quiet : ∀ (l : List Seg) (s : St), Quiet s (reportPre l s)
  | [], s => Quiet.refl s
  | .ws t :: r, s => by
    simp only [reportPre]
    split
    · exact (Quiet.ws s t).trans (reportPre_quiet r _)
    · exact reportPre_quiet r s
  | .comment t :: r, s => by
    simp only [reportPre]
    exact (Quiet.ws s t).trans (reportPre_quiet r _)

theorem nextToken_quiet (s : St) : Quiet s (nextToken s).2 := by
  unfold nextToken
  split
  · exact Quiet.refl s
  · split
    · exact Quiet.refl s
    · exact (reportPre_quiet _ s).trans (Quiet.of_eq rfl rfl)

theorem consume_quiet (s : St) : Quiet s (consume s) := Quiet.of_eq rfl rfl
theorem inc_quiet (s : St) : Quiet s (inc s) := by unfold inc; split <;> exact Quiet.of_eq rfl rfl
theorem dec_quiet (s : St) : Quiet s (dec s) := by unfold dec; split <;> exact Quiet.of_eq rfl rfl

/-- values are always quiet -/
theorem value_quiet : ∀ (fuel : Nat),
    (∀ s, Quiet s (parseValue fuel s).2.2) ∧ (∀ s acc, Quiet s (listLoop fuel s acc).2.2) ∧ (∀ s acc, Quiet s (tableLoop fuel s acc).2.2)
  | 0 => by simp [parseValue, listLoop, tableLoop, Quiet.refl]
  | fuel + 1 => by
    obtain ⟨ihv, ihl, iht⟩ := value_quiet fuel
    refine ⟨?_, ?_, ?_⟩
    · intro s
      simp only [parseValue]
      split
      · exact (nextToken_quiet s).trans ((consume_quiet _).trans (ihl _ _))
      · exact (nextToken_quiet s).trans ((consume_quiet _).trans (iht _ _))
      · exact (nextToken_quiet s).trans (consume_quiet _)
      · exact (nextToken_quiet s).trans (consume_quiet _)
      · exact (nextToken_quiet s).trans (consume_quiet _)
      · exact nextToken_quiet s
    · intro s acc
      simp only [listLoop]
      split
      · split
        · exact (nextToken_quiet s).trans ((ihv _).trans (ihl _ _))
        · exact (nextToken_quiet s).trans (ihv _)
      · split
        · exact (nextToken_quiet s).trans (consume_quiet _)
        · exact nextToken_quiet s
    · intro s acc
      simp only [tableLoop]
      split
      · split
        · split
          · exact (nextToken_quiet s).trans ((consume_quiet _).trans ((nextToken_quiet _).trans ((ihv _).trans (iht _ _))))
          · exact (nextToken_quiet s).trans ((consume_quiet _).trans ((nextToken_quiet _).trans (ihv _)))
        · exact (nextToken_quiet s).trans ((consume_quiet _).trans (nextToken_quiet _))
      · split
        · exact (nextToken_quiet s).trans (consume_quiet _)
        · exact nextToken_quiet s

theorem pv_quiet (fuel : Nat) (s : St) : Quiet s (parseValue fuel s).2.2 := (value_quiet fuel).1 s

/-- a skipped item (no name): quiet, nothing stored -/
theorem item_skipped (p : Prog) (fuel : Nat) (cont : Bool) (s : St) :
    Quiet s (parseItem p fuel cont none s).2.1 ∧ (parseItem p fuel cont none s).2.2 = none := by
  unfold parseItem
  dsimp only
  have h1 : Quiet s (inc (nextToken s).2) := (nextToken_quiet s).trans (inc_quiet _)
  split
  · exact ⟨h1.trans (dec_quiet _), rfl⟩
  · split
    · exact ⟨(h1.trans (pv_quiet fuel _)).trans (dec_quiet _), rfl⟩
    · exact ⟨(h1.trans (pv_quiet fuel _)).trans (dec_quiet _), rfl⟩

theorem header_skipped : ∀ (fuel : Nat) (s : St) (acc : List Str), s.skip > 0 → Quiet s (headerLoop fuel s acc).2.2
  | 0, s, acc, _ => Quiet.refl s
  | fuel + 1, s, acc, h => by
    simp only [headerLoop]
    have hsk : ¬ (nextToken s).2.skip ≤ 0 := by rw [nextToken_skip]; omega
    split
    · exact (nextToken_quiet s).trans ((consume_quiet _).trans (header_skipped fuel _ _ (by
        simp only [consume_skip, nextToken_skip]; omega)))
    · exact nextToken_quiet s

/-- the packet loop inside a skipped region (boundary depth `b > 0`): quiet, nothing recorded -/
theorem packets_skipped (p : Prog) (loopH : Bool) (names : List Str) (b : Int) (hb : 0 < b) :
    ∀ (fuel : Nat) (s : St) (k : PkSt), PInv b k.col s.skip →
      Quiet s (packetsLoop p loopH names fuel s k).2.1 ∧ (packetsLoop p loopH names fuel s k).2.2.stored = k.stored
  | 0, s, k, _ => ⟨Quiet.refl s, rfl⟩
  | fuel + 1, s, k, hinv => by
    have ih := packets_skipped p loopH names b hb fuel
    unfold packetsLoop
    have hnt := nextToken_quiet s
    have hsk : (nextToken s).2.skip = s.skip := nextToken_skip s
    by_cases hval : isValueStart (nextToken s).1 = true
    · simp only [hval, if_true]
      -- the state after the (skipped) packet start: depth b + 1, quiet
      have hs1 : (if k.col = 0 then pktStartStep p (nextToken s).2 else (OK, (nextToken s).2)).1 = OK
          ∧ (if k.col = 0 then pktStartStep p (nextToken s).2 else (OK, (nextToken s).2)).2.skip = b + 1
          ∧ Quiet s (if k.col = 0 then pktStartStep p (nextToken s).2 else (OK, (nextToken s).2)).2 := by
        unfold PInv Bal at hinv
        by_cases hc : k.col = 0
        · simp only [hc, if_true] at hinv ⊢
          have hpos : (nextToken s).2.skip > 0 := by omega
          unfold pktStartStep
          simp only [hpos, if_true]
          exact ⟨trivial, by omega, hnt.trans (Quiet.of_eq rfl rfl)⟩
        · simp only [hc, if_false] at hinv ⊢
          exact ⟨trivial, by omega, hnt⟩
      generalize (if k.col = 0 then pktStartStep p (nextToken s).2 else (OK, (nextToken s).2)) = s1 at hs1 ⊢
      obtain ⟨h1, hd1, hq1⟩ := hs1
      simp only [h1, ne_eq, not_true_eq_false, if_false]
      have hpvq := pv_quiet fuel s1.2
      have hpvs := pv_skip fuel s1.2
      generalize parseValue fuel s1.2 = pv at hpvq hpvs ⊢
      have hit : itemStep p (names.getD k.col []) pv.1 pv.2.1 pv.2.2 = (pv.1, pv.2.2) := by
        unfold itemStep
        have : ¬ (pv.1 = OK ∧ pv.2.2.skip ≤ 0) := by rw [hpvs]; omega
        simp only [this, if_false]
      rw [hit]
      dsimp only
      by_cases h2 : pv.1 = OK
      · simp only [h2, ne_eq, not_true_eq_false, if_false]
        by_cases hcol : (k.col + 1) % names.length = 0
        · simp only [hcol, if_true]
          have hpos : pv.2.2.skip > 0 := by rw [hpvs]; omega
          have hpe : pktEndStep p (List.zip names (k.row ++ [pv.2.1])) pv.2.2
              = (OK, { pv.2.2 with skip := pv.2.2.skip - 1 }, false) := by
            unfold pktEndStep; simp only [hpos, if_true]
          rw [hpe]
          dsimp only
          simp only [ne_eq, not_true_eq_false, if_false, Bool.false_and, Bool.false_eq_true]
          have := ih { pv.2.2 with skip := pv.2.2.skip - 1 } { col := 0, row := [], havePk := true, stored := k.stored }
            (by unfold PInv Bal; simp only [if_true]; rw [hpvs]; omega)
          exact ⟨(hq1.trans hpvq).trans ((Quiet.of_eq rfl rfl).trans this.1), this.2⟩
        · simp only [hcol, if_false]
          have := ih pv.2.2 { k with col := (k.col + 1) % names.length, row := k.row ++ [pv.2.1] }
            (by unfold PInv; simp only [hcol, if_false]; rw [hpvs]; omega)
          exact ⟨(hq1.trans hpvq).trans this.1, this.2⟩
      · simp only [h2, ne_eq, not_false_eq_true, if_true]
        exact ⟨hq1.trans hpvq, trivial⟩
    · simp only [hval, Bool.false_eq_true, if_false]
      split
      · exact ⟨hnt, rfl⟩
      · split
        · exact ⟨hnt, rfl⟩
        · split
          · exact ⟨hnt, rfl⟩
          · exact ⟨hnt, rfl⟩

/-- a loop inside a skipped region: quiet, no loop created -/
theorem loop_skipped (p : Prog) (fuel : Nat) (cont : Bool) (s : St) (hs : s.skip > 0) :
    Quiet s (parseLoop p fuel cont s).2.1 ∧ (parseLoop p fuel cont s).2.2 = none := by
  unfold parseLoop
  have hinc : (inc s).skip = s.skip + 1 := by rw [inc_skip]; simp [hs]
  have hq : Quiet s (headerLoop fuel (inc s) []).2.2 := (inc_quiet s).trans (header_skipped fuel _ _ (by omega))
  have hsk : (headerLoop fuel (inc s) []).2.2.skip = s.skip + 1 := by rw [header_skip, hinc]
  generalize headerLoop fuel (inc s) [] = hd at hq hsk ⊢
  dsimp only
  have hend : ∀ h r, Quiet hd.2.2 (loopEndStep p h r hd.2.2).2 := by
    intro h r
    unfold loopEndStep
    have : hd.2.2.skip > 0 := by omega
    simp only [this, if_true]
    exact Quiet.of_eq rfl rfl
  split
  · exact ⟨hq.trans (hend _ _), rfl⟩
  · split
    · exact ⟨hq.trans (hend _ _), rfl⟩
    · have hls : loopStartStep p cont hd.2.1 hd.2.2 = (OK, hd.2.2, false, true) := by
        unfold loopStartStep
        have : ¬ hd.2.2.skip ≤ 0 := by omega
        simp only [this, if_false]
      rw [hls]
      dsimp only
      simp only [if_true, Bool.false_eq_true, if_false]
      have hpk := packets_skipped p false hd.2.1 (s.skip + 1) (by omega) fuel hd.2.2
        { col := 0, row := [], havePk := false, stored := [] } (by unfold PInv Bal; simp only [if_true]; omega)
      have hbal := packets_bal p false hd.2.1 (s.skip + 1) (by omega) fuel hd.2.2
        { col := 0, row := [], havePk := false, stored := [] } (by unfold PInv Bal; simp only [if_true]; omega)
      generalize packetsLoop p false hd.2.1 fuel hd.2.2 { col := 0, row := [], havePk := false, stored := [] } = pk
        at hpk hbal ⊢
      refine ⟨(hq.trans hpk.1).trans ?_, trivial⟩
      unfold loopEndStep
      split
      · exact Quiet.of_eq rfl rfl
      · split
        · rename_i hnp hr
          have := hbal hr
          unfold Bal at this
          omega
        · exact Quiet.refl _

/-- a container, and the rest of a container body, inside a skipped region: quiet, nothing stored -/
theorem container_skipped (p : Prog) (m : Int) : ∀ (fuel : Nat),
    (∀ cont isBlock code s, s.skip > 0 →
      Quiet s (parseContainer p m fuel cont isBlock code s).2.1
      ∧ (parseContainer p m fuel cont isBlock code s).2.2.frames = [] ∧ (parseContainer p m fuel cont isBlock code s).2.2.loops = [])
    ∧ (∀ cont isBlock s c, s.skip > 0 →
      Quiet s (elemsLoop p m fuel cont isBlock s c).2.1 ∧ (elemsLoop p m fuel cont isBlock s c).2.2 = c)
  | 0 => by
    constructor
    · intro cont isBlock code s _; simp only [parseContainer]; exact ⟨Quiet.refl s, rfl, rfl⟩
    · intro cont isBlock s c _; simp only [elemsLoop]; exact ⟨Quiet.refl s, trivial⟩
  | fuel + 1 => by
    obtain ⟨ihc, ihe⟩ := container_skipped p m fuel
    constructor
    · intro cont isBlock code s hs
      unfold parseContainer
      dsimp only
      have hst : contStartStep p cont isBlock code s = (OK, inc s) := by
        unfold contStartStep; simp only [hs, if_true]
      rw [hst]
      dsimp only
      simp only [ne_eq, not_true_eq_false, if_false]
      have hinc : (inc s).skip = s.skip + 1 := by rw [inc_skip]; simp [hs]
      have hel := ihe cont isBlock (inc s) Content.empty (by omega)
      have hbal := (container_bal p m fuel).2 cont isBlock (inc s) Content.empty (by omega)
      generalize elemsLoop p m fuel cont isBlock (inc s) Content.empty = el at hel hbal ⊢
      unfold containerEnd
      split
      · rename_i hr
        have := hbal hr.1
        unfold Bal at this
        have h2 := hr.2
        rw [dec_skip] at h2
        split at h2 <;> omega
      · dsimp only
        rw [hel.2]
        exact ⟨((inc_quiet s).trans hel.1).trans (dec_quiet _), rfl, rfl⟩
    · intro cont isBlock s0 c hs
      unfold elemsLoop
      dsimp only
      have hnt := nextToken_quiet s0
      have hsk : (nextToken s0).2.skip = s0.skip := nextToken_skip s0
      generalize nextToken s0 = nt at hnt hsk ⊢
      have hpos : nt.2.skip > 0 := by omega
      split
      · split <;> exact ⟨hnt, rfl⟩
      · -- frameHead: frame = NULL
        have hcond : (!cont ∨ nt.2.skip > 0) := Or.inr hpos
        simp only [hcond, if_true]
        have hf := ihc false false (cur nt.2).text (consume nt.2) (by simpa using hpos)
        have hfb := (container_bal p m fuel).1 false false (cur nt.2).text (consume nt.2) (by simp; omega)
        generalize parseContainer p m fuel false false (cur nt.2).text (consume nt.2) = f at hf hfb ⊢
        split
        · rename_i hr
          have hb := hfb hr
          have := ihe cont isBlock f.2.1 c (by unfold Bal at hb; simp at hb; omega)
          exact ⟨(hnt.trans ((consume_quiet _).trans hf.1)).trans this.1, this.2⟩
        · exact ⟨hnt.trans ((consume_quiet _).trans hf.1), rfl⟩
      · split <;> exact ⟨hnt.trans (consume_quiet _), rfl⟩
      · -- loopKw
        have hno : ¬ nt.2.skip ≤ 0 := by omega
        simp only [hno, if_false]
        have hl := loop_skipped p fuel cont (consume nt.2) (by simpa using hpos)
        have hlb := loop_bal p fuel cont (consume nt.2) (by simp; omega)
        generalize parseLoop p fuel cont (consume nt.2) = l at hl hlb ⊢
        rw [hl.2]
        dsimp only
        split
        · rename_i hr
          have hb := hlb hr
          have := ihe cont isBlock l.2.1 c (by unfold Bal at hb; simp at hb; omega)
          exact ⟨(hnt.trans ((consume_quiet _).trans hl.1)).trans this.1, this.2⟩
        · exact ⟨hnt.trans ((consume_quiet _).trans hl.1), rfl⟩
      · -- name
        simp only [hpos, if_true]
        have hi := item_skipped p fuel cont (consume nt.2)
        have hib := item_bal p fuel cont none (consume nt.2) (by simp; omega) (fun _ => rfl)
        generalize parseItem p fuel cont none (consume nt.2) = it at hi hib ⊢
        split
        · have := ihe cont isBlock it.2.1 c (by unfold Bal at hib; simp at hib; omega)
          exact ⟨(hnt.trans ((consume_quiet _).trans hi.1)).trans this.1, this.2⟩
        · exact ⟨hnt.trans ((consume_quiet _).trans hi.1), rfl⟩
      · split <;> exact ⟨hnt, rfl⟩
      · exact ⟨hnt, rfl⟩

/-- the remaining blocks after cif_start / a block asked to skip: quiet, no block created -/
theorem blocks_skipped (p : Prog) (m : Int) (cif : Bool) : ∀ (fuel : Nat) (s : St) (acc : List Container), s.skip > 0 →
    Quiet s (blocksLoop p m cif fuel s acc).2.1 ∧ (blocksLoop p m cif fuel s acc).2.2 = acc
  | 0, s, acc, _ => ⟨Quiet.refl s, rfl⟩
  | fuel + 1, s0, acc, hs => by
    unfold blocksLoop
    dsimp only
    have hnt := nextToken_quiet s0
    have hsk : (nextToken s0).2.skip = s0.skip := nextToken_skip s0
    generalize nextToken s0 = nt at hnt hsk ⊢
    have hno : ¬ nt.2.skip ≤ 0 := by omega
    split
    · simp only [hno, decide_false, Bool.and_false, Bool.false_eq_true, if_false]
      have hb := (container_skipped p m fuel).1 false true (cur nt.2).text (consume nt.2) (by simp; omega)
      have hbb := (container_bal p m fuel).1 false true (cur nt.2).text (consume nt.2) (by simp; omega)
      generalize parseContainer p m fuel false true (cur nt.2).text (consume nt.2) = b at hb hbb ⊢
      split
      · rename_i hr
        have hbal := hbb hr
        have := blocks_skipped p m cif fuel b.2.1 acc (by unfold Bal at hbal; simp at hbal; omega)
        exact ⟨(hnt.trans ((consume_quiet _).trans hb.1)).trans this.1, this.2⟩
      · exact ⟨hnt.trans ((consume_quiet _).trans hb.1), rfl⟩
    · exact ⟨hnt, rfl⟩
    · exact ⟨hnt, rfl⟩

end CifModel.Lemmas.ParseCB
