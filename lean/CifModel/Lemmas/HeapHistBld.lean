import CifModel.Lemmas.HeapHistMapStep
/-
  Lemmas for operation histories on the heap, part 4d: `bld` — a value built through the API into an empty slot (lists by
  successive inserts at the end, tables by successive `set_item_by_key`).
-/
namespace CifModel.Model.Hist
open CifModel CifModel.Model.Heap
open CifModel.Model.Value (Step Entry resolve update child setChild defaultOf mapFind mapSet mapReplace mapErase insertAt removeAt
  getAt setAt)

theorem RepS.congrP {T : List Nat} {s : HState} {p q : PState} {F : Root → List Nat} (inv : RepS T s p F)
    (h : ∀ r, q.get r = p.get r) : RepS T s q F :=
  ⟨inv.wf, inv.ok, fun r => by rw [h r]; exact inv.rel r, inv.lt, inv.dis, inv.tdis, inv.tlive, inv.cov⟩

/-! ### fuel for the table being built -/

theorem needEntries_append (a b : List (Str × Str × V)) : needEntries (a ++ b) = needEntries a + needEntries b := by
  induction a with
  | nil => simp [needEntries]
  | cons e a ih => obtain ⟨k, ko, v⟩ := e; simp only [List.cons_append, needEntries, ih]; omega

theorem needEntries_replace_le (es : List (Str × Str × V)) (nk ko : Str) (x : V) :
    needEntries (mapReplace es nk ko x) ≤ needEntries es + 1 + need x := by
  induction es with
  | nil => simp [mapReplace, needEntries]
  | cons e es ih =>
    obtain ⟨k, ko', v⟩ := e
    simp only [mapReplace]
    split
    · simp only [needEntries]; omega
    · simp only [needEntries]; omega

theorem needEntries_mapSet_le (es : List (Str × Str × V)) (nk ko : Str) (x : V) :
    needEntries (mapSet es nk ko (some x)) ≤ needEntries es + 1 + need x := by
  unfold mapSet
  cases mapFind es nk with
  | none => simp only [Option.getD_some, needEntries_append, needEntries]; omega
  | some e => exact needEntries_replace_le es nk ko x

/-! ### `cif_map_set_item` with a value given directly, on the map object at `m` -/

theorem mapSetPut_spec (h : Heap) (hw : h.WF) (m : Nat) (ents : List Nat) (es : List (Str × Str × V)) (Ft : List Nat)
    (k ko : Str) (x : V) (fuel : Nat) (hg : getHV h m = some (.tbl ents)) (hr : RepEntries h ents es Ft) (hmF : m ∉ Ft)
    (hF : ∀ a, a ∈ Ft → a < h.next) (hfuel : needEntries es ≤ fuel) :
    ∃ ents' h1 h2 F', mapSetItemH fuel h ents k ko (some x) = some (ents', h1) ∧ putHV h1 m (.tbl ents') = some h2
      ∧ ObjUpd h h2 m Ft (.tbl ents') (.tbl (mapSet es k ko (some x))) F' [] := by
  have hmlt := getHV_lt hw hg
  obtain ⟨ents', h1, F', hop, hrep, hw1, hframe, hdrop, hown, hlt1, hsub, hle⟩ := mapSetItemH_spec h hw ents es Ft k ko (some x) hr hF fuel hfuel
  have hc1 : h1.cell m = h.cell m := hframe m hmlt hmF
  obtain ⟨h2, hput, hn2, hg2, hsk2, hc2, hw2⟩ := putHV_tbl_spec h1 m ents ents' (by rw [getHV_congr h h1 m hc1]; exact hg)
  have hmF' : m ∉ F' := fun hm => by
    rcases hsub m hm with hh | hh
    · exact hmF hh
    · omega
  refine ⟨ents', h1, h2, F', hop, hput, hw2 hw1, by rw [hn2]; exact hle, hg2, by rw [← hc1]; exact hsk2, ?_, ?_, ?_, ?_,
    fun x hx => by cases hx⟩
  · simp only [Rep]
    exact ⟨_, rfl, RepEntries_congr h1 h2 _ _ F' (fun a ha => hc2 a (fun e => hmF' (e ▸ ha))) hrep⟩
  · intro a ha
    rcases hsub a ha with hh | hh
    · exact Or.inl hh
    · exact Or.inr ⟨hh, by rw [hn2]; exact hlt1 a ha⟩
  · intro a halt hnf hne; rw [hc2 a hne, hframe a halt hnf]
  · intro a hl
    by_cases hne : a = m
    · exact Or.inr (Or.inl hne)
    · rw [hc2 a hne] at hl
      by_cases halt : a < h.next
      · by_cases hm : a ∈ Ft
        · by_cases hm' : a ∈ F'
          · exact Or.inl hm'
          · rw [hdrop a hm hm'] at hl; cases hl
        · exact Or.inr (Or.inr (Or.inr ⟨halt, hm⟩))
      · rcases hown a (by omega) (isSome_lt hw1 hl) with hh | hh
        · exact Or.inl hh
        · rw [hh] at hl; cases hl

/-! ### the loops of `build_value` -/

theorem resolve_slot_root {g : Heap} {sl : Root → Option Nat} {rt : Root} {a t : Nat} (hsl : sl rt = some a)
    (h : resolveRef ⟨g, sl⟩ ⟨rt, []⟩ = some t) : t = a := by
  simp only [resolveRef, hsl, resolveAddr] at h
  cases hg : getHV g a with
  | none => rw [hg] at h; cases h
  | some hv => rw [hg] at h; simpa [resolveF] using h.symm

theorem apiBuildList_spec (i a : Nat) (hok : (Root.val i).ok = true) : ∀ (xs done : List V) (g : Heap) (sl : Root → Option Nat)
    (q : PState) (Fq : Root → List Nat), RepS [] ⟨g, sl⟩ q Fq → sl (.val i) = some a → q.get (.val i) = some (.lst done) →
    ∃ g' Fq', apiBuildList g a xs done.length = some g'
      ∧ RepS [] ⟨g', sl⟩ (setP q (.val i) (some (.lst (done ++ xs)))) Fq' := by
  intro xs
  induction xs with
  | nil =>
    intro done g sl q Fq inv _ hq
    refine ⟨g, Fq, rfl, inv.congrP (fun r => ?_)⟩
    simp only [setP_get, List.append_nil]
    by_cases he : r = .val i
    · rw [he, hq]; simp
    · simp [he]
  | cons x xs ih =>
    intro done g sl q Fq inv hsl hq
    have hget : getP q ⟨.val i, []⟩ = some (.lst done) := by simp [getP, hq, resolve]
    have hisv : (⟨.val i, []⟩ : Ref).isVal = true := by simp [Ref.isVal, hok]
    obtain ⟨t, hvt, Ft, hres, hgt, hvalt, _, hrept, htF, hFt, hk⟩ := inv.atVal ⟨.val i, []⟩ hisv _ hget
    have hta : t = a := resolve_slot_root hsl hres
    subst hta
    obtain ⟨hv', h1, h2, F', hop, hput, U⟩ := listInsertPut_spec g inv.wf t hvt done Ft done.length (some x) hvalt
      (getHV_lt inv.wf hgt) hrept htF hFt (Nat.le_refl _)
    obtain ⟨q', F'', hputP, inv'⟩ := hk h2 hv' _ F' [] U
    have inv2 : RepS [] ⟨h2, sl⟩ q' F'' := inv'.congrT (fun a => by simp)
    have hq' : q' = setP q (.val i) (some (.lst (done ++ [x]))) := by
      simp only [putP, hq, update, Option.some.injEq] at hputP
      rw [← hputP]
      simp [List.insertIdx_length_self]
    subst hq'
    obtain ⟨g', Fq', hrec, invr⟩ := ih (done ++ [x]) h2 sl _ F'' inv2 hsl (by simp [setP_get])
    refine ⟨g', Fq', ?_, invr.congrP (fun r => ?_)⟩
    · simp only [apiBuildList, hgt, hop, hput, compact_eq h2 inv2.wf]
      simpa using hrec
    · simp only [setP_get]
      by_cases he : r = .val i
      · simp [he]
      · simp [he]

theorem apiBuildTable_spec (i a : Nat) (hok : (Root.val i).ok = true) : ∀ (es done : List (Str × Str × V)) (g : Heap)
    (sl : Root → Option Nat) (q : PState) (Fq : Root → List Nat), RepS [] ⟨g, sl⟩ q Fq → sl (.val i) = some a →
    q.get (.val i) = some (.tbl done) →
    ∃ g' Fq', apiBuildTable g a es = some g'
      ∧ RepS [] ⟨g', sl⟩ (setP q (.val i) (some (.tbl (es.foldl (fun acc e => mapSet acc e.1 e.2.1 (some e.2.2)) done)))) Fq' := by
  intro es
  induction es with
  | nil =>
    intro done g sl q Fq inv _ hq
    refine ⟨g, Fq, rfl, inv.congrP (fun r => ?_)⟩
    simp only [setP_get, List.foldl_nil]
    by_cases he : r = .val i
    · rw [he, hq]; simp
    · simp [he]
  | cons e es ih =>
    obtain ⟨k, ko, x⟩ := e
    intro done g sl q Fq inv hsl hq
    have hget : getP q ⟨.val i, []⟩ = some (.tbl done) := by simp [getP, hq, resolve]
    obtain ⟨t, hvt, Ft, hres, hgt, hrept, htF, hFt, hk⟩ := inv.atAny ⟨.val i, []⟩ _ hget
    have hta : t = a := resolve_slot_root hsl hres
    subst hta
    obtain ⟨ents, rfl, hen⟩ := Rep_tbl hrept
    have hfuel : needEntries done ≤ fuelOf g := by
      have := inv.fitsAt (3 * g.next + 2) (Nat.le_refl _) (.val i) _ hq
      simp only [need] at this
      simp only [fuelOf]; omega
    obtain ⟨ents', h1, h2, F', hop, hput, U⟩ := mapSetPut_spec g inv.wf t ents done Ft k ko x (fuelOf g) hgt hen htF hFt hfuel
    obtain ⟨q', F'', hputP, inv'⟩ := hk h2 _ _ F' [] U
    have inv2 : RepS [] ⟨h2, sl⟩ q' F'' := inv'.congrT (fun a => by simp)
    have hq' : q' = setP q (.val i) (some (.tbl (mapSet done k ko (some x)))) := by
      simp only [putP, hq, update, Option.some.injEq] at hputP
      exact hputP.symm
    subst hq'
    obtain ⟨g', Fq', hrec, invr⟩ := ih (mapSet done k ko (some x)) h2 sl _ F'' inv2 hsl (by simp [setP_get])
    refine ⟨g', Fq', ?_, invr.congrP (fun r => ?_)⟩
    · simp only [apiBuildTable, hgt, hop, hput, compact_eq h2 inv2.wf]
      exact hrec
    · simp only [setP_get, List.foldl_cons]
      by_cases he : r = .val i
      · simp [he]
      · simp [he]

section
variable {s : HState} {p : PState} {F : Root → List Nat}

theorem step_bld (inv : RepS [] s p F) (fuel : Nat) (i : Nat) (v : V) :
    Sim [] (stepH? fuel s (.bld i v)) (stepP? p (.bld i v)) := by
  simp only [stepH?, stepP?, ← inv.slot_iff]
  by_cases hc : ((Root.val i).ok && (s.slot (.val i)).isNone) = true
  · simp only [hc, if_true]
    simp only [Bool.and_eq_true, Option.isNone_iff_eq_none] at hc
    -- scalars: a plain copy
    have scalar : (∀ vs, v ≠ .lst vs) → (∀ es, v ≠ .tbl es) → apiBuild s.h v = some (buildNew s.h v) ∧ apiValue v = v := by
      intro h1 h2
      cases v <;> first | exact ⟨rfl, rfl⟩ | exact absurd rfl (h1 _) | exact absurd rfl (h2 _)
    by_cases hl : ∃ vs, v = .lst vs
    · obtain ⟨vs, rfl⟩ := hl
      have inv0 := inv.addRoot (.val i) hc.1 hc.2 (alloc s.h (.val (.lst none 0))).2 s.h.next (.lst []) [s.h.next]
        (alloc_WF s.h _ inv.wf) (by rw [alloc_next]; omega) (fun x hx => alloc_cell_lt s.h _ x hx)
        ⟨.lst none 0, [], by simp [getHV, alloc_cell], by simp [shellOK, alloc_cell], by simp [Rep], by simp, by simp⟩
        (by intro x hx; simp at hx; subst hx; rw [alloc_next]; omega)
        (by
          intro x hge hl
          have := isSome_lt (alloc_WF s.h _ inv.wf) hl
          rw [alloc_next] at this
          simp; omega)
      obtain ⟨g', Fq', hrec, invr⟩ := apiBuildList_spec i s.h.next hc.1 vs [] _ _ _ _ inv0 (by simp) (by simp [setP_get])
      have hab : apiBuild s.h (.lst vs) = some (s.h.next, g') := by
        simp only [apiBuild, alloc]
        simp only [alloc, List.length_nil] at hrec
        rw [hrec]; rfl
      rw [hab]
      simp only [Option.map_some, apiValue]
      refine Sim.mk (invr.congrP (fun r => ?_))
      simp only [setP_get, List.nil_append]
      by_cases he : r = .val i <;> simp [he]
    · by_cases ht : ∃ es, v = .tbl es
      · obtain ⟨es, rfl⟩ := ht
        have inv0 := inv.addRoot (.val i) hc.1 hc.2 (alloc s.h (.val (.tbl []))).2 s.h.next (.tbl []) [s.h.next]
          (alloc_WF s.h _ inv.wf) (by rw [alloc_next]; omega) (fun x hx => alloc_cell_lt s.h _ x hx)
          ⟨.tbl [], [], by simp [getHV, alloc_cell], by simp [shellOK, alloc_cell], by simp [Rep, RepEntries], by simp, by simp⟩
          (by intro x hx; simp at hx; subst hx; rw [alloc_next]; omega)
          (by
            intro x hge hl
            have := isSome_lt (alloc_WF s.h _ inv.wf) hl
            rw [alloc_next] at this
            simp; omega)
        obtain ⟨g', Fq', hrec, invr⟩ := apiBuildTable_spec i s.h.next hc.1 es [] _ _ _ _ inv0 (by simp) (by simp [setP_get])
        have hab : apiBuild s.h (.tbl es) = some (s.h.next, g') := by
          simp only [apiBuild, alloc]
          simp only [alloc] at hrec
          rw [hrec]; rfl
        rw [hab]
        simp only [Option.map_some, apiValue]
        refine Sim.mk (invr.congrP (fun r => ?_))
        simp only [setP_get]
        by_cases he : r = .val i <;> simp [he]
      · obtain ⟨hab, hav⟩ := scalar (fun vs e => hl ⟨vs, e⟩) (fun es e => ht ⟨es, e⟩)
        rw [hab, hav]
        generalize hb : buildNew s.h v = r
        obtain ⟨c, h1⟩ := r
        obtain ⟨e1, new, Fn, hcc, hrn, hcF, hcl, hcu, hrange, hcover⟩ := buildNew_spec v s.h inv.wf c h1 hb
        simp only [Option.map_some]
        refine Sim.mk (inv.addRoot (.val i) hc.1 hc.2 h1 c v (c :: Fn) e1.wf e1.le e1.frame ?_ ?_ ?_)
        · exact ⟨new, Fn, by simp [getHV, hcc], by simp [shellOK, hcc], hrn, hcF, fun x => List.mem_cons⟩
        · intro x hx
          rcases List.mem_cons.mp hx with rfl | hx
          · exact ⟨hcl, hcu⟩
          · exact hrange x hx
        · intro x h1' hl'
          rcases hcover x h1' (isSome_lt e1.wf hl') with hh | hh
          · exact List.mem_cons_of_mem _ hh
          · subst hh; exact List.mem_cons_self
  · simp only [hc]; exact Sim.none

end

end CifModel.Model.Hist
