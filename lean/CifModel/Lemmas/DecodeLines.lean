import CifModel.Model.Decode
import CifModel.Spec.TextProtocol
/-
  Lemmas about `decode_text`'s per-line loop: on a body made of line-terminator-free physical lines separated by LF the
  loop computes the specification's `unfoldLines` of the (leniently) unprefixed lines.
-/
namespace CifModel.Lemmas.DecodeLines
open CifModel.Model.Decode
open CifModel.Spec.TextProtocol (isBlank endsBslBlank dropFold lineContent unfoldLines)

/-- no line terminator in the list -/
def NoEol (l : Str) : Prop := ∀ c ∈ l, c ≠ 10 ∧ c ≠ 13

theorem NoEol.tail {c : CU} {l : Str} (h : NoEol (c :: l)) : NoEol l := fun x hx => h x (List.mem_cons_of_mem _ hx)
theorem NoEol.head {c : CU} {l : Str} (h : NoEol (c :: l)) : c ≠ 10 ∧ c ≠ 13 := h c (List.mem_cons_self)
theorem NoEol.nil : NoEol [] := fun _ h => by cases h

theorem NoEol.append {a b : Str} (ha : NoEol a) (hb : NoEol b) : NoEol (a ++ b) := by
  intro c hc
  rcases List.mem_append.mp hc with h | h
  · exact ha c h
  · exact hb c h

theorem NoEol.of_append_left {a b : Str} (h : NoEol (a ++ b)) : NoEol a := fun c hc => h c (List.mem_append_left _ hc)
theorem NoEol.of_append_right {a b : Str} (h : NoEol (a ++ b)) : NoEol b := fun c hc => h c (List.mem_append_right _ hc)

theorem isEol_of_noEol {c : CU} (h : c ≠ 10 ∧ c ≠ 13) : isEol c = false := by
  simp [isEol, h.1, h.2]

theorem isWs_eq_isBlank (c : CU) : isWs c = isBlank c := rfl

/-- the per-unit part of `copyLine` over a terminator-free stretch -/
def runLine (folded : Bool) (s : LineSt) (l : Str) : LineSt := l.foldl (lineStep folded) s

theorem lineStep_out (folded : Bool) (s : LineSt) (c : CU) : (lineStep folded s c).out = c :: s.out := by
  unfold lineStep
  split
  · rfl
  · split <;> rfl

theorem runLine_out (folded : Bool) (s : LineSt) (l : Str) : (runLine folded s l).out = l.reverse ++ s.out := by
  induction l generalizing s with
  | nil => rfl
  | cons c cs ih =>
    simp only [runLine, List.foldl_cons] at *
    rw [ih, lineStep_out]
    simp

theorem copyLine_line (folded : Bool) (l rest : Str) (s : LineSt) (h : NoEol l) :
    copyLine folded (l ++ 10 :: rest) s = (lineEnd (runLine folded s l), rest) := by
  induction l generalizing s with
  | nil => simp [copyLine, isEol, runLine]
  | cons c cs ih =>
    have hc := isEol_of_noEol h.head
    simp only [List.cons_append, copyLine, hc, Bool.false_eq_true, ↓reduceIte]
    rw [ih _ h.tail]
    rfl

theorem copyLine_last (folded : Bool) (l : Str) (s : LineSt) (h : NoEol l) :
    copyLine folded l s = ((runLine folded s l).out, []) := by
  induction l generalizing s with
  | nil => rfl
  | cons c cs ih =>
    have hc := isEol_of_noEol h.head
    simp only [copyLine, hc, Bool.false_eq_true, ↓reduceIte]
    rw [ih _ h.tail]
    rfl

/-- `buf_temp` after a terminator-free stretch -/
theorem runLine_mark (folded : Bool) (l : Str) (o : Str) (m : Option Nat) :
    (runLine folded ⟨o, m⟩ l).mark =
      if folded && endsBslBlank l then some (o.length + (dropFold l).length)
      else if l.all isBlank then m else none := by
  induction l generalizing o m with
  | nil => simp [runLine, endsBslBlank]
  | cons c r ih =>
    simp only [runLine, List.foldl_cons]
    by_cases h92 : c = 92
    · subst h92
      cases folded with
      | true =>
        have : lineStep true ⟨o, m⟩ 92 = ⟨92 :: o, some o.length⟩ := by simp [lineStep]
        rw [this]
        have := ih (92 :: o) (some o.length)
        simp only [runLine] at this
        rw [this]
        by_cases he : endsBslBlank r = true
        · simp [endsBslBlank, dropFold, he]; omega
        · by_cases hb : r.all isBlank = true
          · simp [endsBslBlank, dropFold, he, hb, isBlank]
          · simp [endsBslBlank, dropFold, he, hb, isBlank]
      | false =>
        have : lineStep false ⟨o, m⟩ 92 = ⟨92 :: o, none⟩ := by simp [lineStep, isWs]
        rw [this]
        have := ih (92 :: o) none
        simp only [runLine] at this
        rw [this]
        simp [isBlank]
    · by_cases hb : isBlank c = true
      · have : lineStep folded ⟨o, m⟩ c = ⟨c :: o, m⟩ := by
          simp [lineStep, h92, isWs_eq_isBlank, hb]
        rw [this]
        have := ih (c :: o) m
        simp only [runLine] at this
        rw [this]
        have h92' : (c == 92) = false := by simp [h92]
        by_cases he : endsBslBlank r = true
        · simp [endsBslBlank, dropFold, he]
          cases folded <;> simp [hb] <;> omega
        · simp [endsBslBlank, dropFold, he, h92', hb]
      · have : lineStep folded ⟨o, m⟩ c = ⟨c :: o, none⟩ := by
          simp [lineStep, h92, isWs_eq_isBlank, hb]
        rw [this]
        have := ih (c :: o) none
        simp only [runLine] at this
        rw [this]
        have h92' : (c == 92) = false := by simp [h92]
        by_cases he : endsBslBlank r = true
        · simp [endsBslBlank, dropFold, he]
          cases folded <;> simp [hb] <;> omega
        · simp [endsBslBlank, dropFold, he, h92', hb]

/-- `dropFold l` is an initial segment of `l` -/
theorem dropFold_prefix (l : Str) : dropFold l = l.take (dropFold l).length := by
  induction l with
  | nil => rfl
  | cons c r ih =>
    simp only [dropFold]
    split
    · simp only [List.length_cons, List.take_succ_cons]
      rw [← ih]
    · rfl

theorem dropFold_length_le (l : Str) : (dropFold l).length ≤ l.length := by
  induction l with
  | nil => simp [dropFold]
  | cons c r ih =>
    simp only [dropFold]
    split
    · simp; exact ih
    · simp

/-- a complete physical line (terminator-free, followed by its terminator) adds the specification's `lineContent` -/
theorem lineEnd_runLine (folded : Bool) (l o : Str) :
    lineEnd (runLine folded ⟨o, none⟩ l) = (lineContent folded l).reverse ++ o := by
  unfold lineEnd
  rw [runLine_mark, runLine_out]
  by_cases h : (folded && endsBslBlank l) = true
  · simp only [h, ↓reduceIte, lineContent]
    have hk := dropFold_length_le l
    have hp := dropFold_prefix l
    generalize (dropFold l).length = k at *
    rw [hp]
    simp only [List.length_append, List.length_reverse]
    have : l.length + o.length - (o.length + k) = l.length - k := by omega
    rw [this]
    have h1 : (l.reverse ++ o).drop (l.length - k) = (l.reverse.drop (l.length - k)) ++ o := by
      rw [List.drop_append_of_le_length]
      simp
    rw [h1]
    congr 1
    rw [← List.reverse_take]
  · simp only [h, Bool.false_eq_true, ↓reduceIte, lineContent]
    simp

/-- lenient prefix removal of one line, as the C does it -/
theorem stripPrefix_append (pre x : Str) : stripPrefix pre (pre ++ x) = x := by
  unfold stripPrefix
  by_cases h : pre = []
  · simp [h]
  · simp [h]

theorem stripPrefix_nil_pre (x : Str) : stripPrefix [] x = x := by simp [stripPrefix]

theorem stripPrefix_noEol {pre l : Str} (h : NoEol l) : NoEol (stripPrefix pre l) := by
  unfold stripPrefix
  split
  · intro c hc; exact h c (List.mem_of_mem_drop hc)
  · exact h

/-- body = physical lines `p :: ps`, `p` first, consecutive lines separated by one LF -/
def body : Str → List Str → Str
  | p, [] => p
  | p, q :: qs => p ++ 10 :: body q qs

theorem body_length_pos_fuel (p : Str) (ps : List Str) : ps.length + 1 ≤ (body p ps).length + 1 := by
  induction ps generalizing p with
  | nil => simp
  | cons q qs ih =>
    have := ih q
    simp only [body, List.length_append, List.length_cons] at *
    omega

/-- a prefix without LF that starts `p ++ LF ++ …` already starts `p` -/
theorem isPrefixOf_line (pre p rest : Str) (hpre : NoEol pre) :
    pre.isPrefixOf (p ++ 10 :: rest) = pre.isPrefixOf p := by
  by_cases hpp : pre.isPrefixOf p = true
  · rw [hpp]
    rw [List.isPrefixOf_iff_prefix] at *
    exact List.IsPrefix.trans hpp (List.prefix_append _ _)
  · have hpp' : pre.isPrefixOf p = false := Bool.eq_false_iff.mpr hpp
    rw [hpp']
    apply Bool.eq_false_iff.mpr
    intro hcon
    rw [List.isPrefixOf_iff_prefix] at hcon
    by_cases hle : pre.length ≤ p.length
    · have : pre <+: p := List.prefix_of_prefix_length_le hcon (List.prefix_append _ _) hle
      rw [← List.isPrefixOf_iff_prefix] at this
      exact hpp this
    · have h1 : p ++ [10] <+: p ++ 10 :: rest := by
        have : p ++ 10 :: rest = (p ++ [10]) ++ rest := by simp
        rw [this]; exact List.prefix_append _ _
      have h2 : p ++ [10] <+: pre := by
        apply List.prefix_of_prefix_length_le h1 hcon
        simp; omega
      have : (10 : CU) ∈ pre := by
        obtain ⟨t, ht⟩ := h2
        rw [← ht]; simp
      exact (hpre 10 this).1 rfl

/-- prefix removal acts on the first line only -/
theorem stripPrefix_line (pre p rest : Str) (hpre : NoEol pre) :
    stripPrefix pre (p ++ 10 :: rest) = stripPrefix pre p ++ 10 :: rest := by
  unfold stripPrefix
  rw [isPrefixOf_line pre p rest hpre]
  by_cases h : pre ≠ [] ∧ pre.isPrefixOf p = true
  · have hle : pre.length ≤ p.length := by
      have := h.2
      rw [List.isPrefixOf_iff_prefix] at this
      exact this.length_le
    rw [if_pos h, if_pos h, List.drop_append_of_le_length hle]
  · rw [if_neg h, if_neg h]

/-- The per-line loop of decode_text on LF-separated, terminator-free physical lines computes `unfoldLines` of the
    leniently unprefixed lines (result buffers are reversed). -/
theorem decLines_body (pre : Str) (folded : Bool) (p : Str) (ps : List Str) (buf : Str) (fuel : Nat)
    (hpre : NoEol pre) (hp : NoEol p) (hps : ∀ q ∈ ps, NoEol q) (hfuel : ps.length + 1 ≤ fuel) :
    decLines pre folded fuel (body p ps) buf
      = (unfoldLines folded ((p :: ps).map (stripPrefix pre))).reverse ++ buf := by
  induction ps generalizing p buf fuel with
  | nil =>
    cases fuel with
    | zero => simp at hfuel
    | succ f =>
      simp only [body, List.map_cons, List.map_nil, unfoldLines]
      cases p with
      | nil => simp [decLines, stripPrefix]
      | cons c cs =>
        simp only [decLines]
        rw [copyLine_last _ _ _ (stripPrefix_noEol hp), runLine_out]
        cases f <;> simp [decLines]
  | cons q qs ih =>
    cases fuel with
    | zero => simp at hfuel
    | succ f =>
      have hq : NoEol q := hps q (List.mem_cons_self)
      have hqs : ∀ x ∈ qs, NoEol x := fun x hx => hps x (List.mem_cons_of_mem _ hx)
      have hf : qs.length + 1 ≤ f := by simp at hfuel; omega
      simp only [body, List.map_cons, unfoldLines]
      -- the input is non-empty
      have hne : ∃ c cs, p ++ 10 :: body q qs = c :: cs := by
        cases p with
        | nil => exact ⟨10, body q qs, rfl⟩
        | cons c cs => exact ⟨c, cs ++ 10 :: body q qs, rfl⟩
      obtain ⟨c, cs, hcs⟩ := hne
      rw [hcs]
      simp only [decLines]
      rw [← hcs, stripPrefix_line pre p _ hpre, copyLine_line _ _ _ _ (stripPrefix_noEol hp)]
      simp only
      rw [ih q _ f hq hqs hf, lineEnd_runLine]
      simp [List.map_cons]

end CifModel.Lemmas.DecodeLines
