import CifModel.Lemmas.StoreIterOk
import CifModel.Model.StoreContract
/-
  Lemmas/StoreWOk — the World-level invariant `WTied`: every managed CIF is `Good` (Inv, PacketsTotal, RowsBelowAll, ScalarCount; content
  and every snapshot), every open iterator is tied to its store (`IterOk`), and a CIF has at most one open iterator.
-/
namespace CifModel.Store
open Gen.ErrCodes World

def Iters (w : World) : Prop := ∀ i e, w.its.getD i none = some e → ∃ s, w.liveC e.cif = some s ∧ IterOk e.it s.db
def OneIter (w : World) : Prop :=
  ∀ i j e e', w.its.getD i none = some e → w.its.getD j none = some e' → e.cif = e'.cif → i = j

structure WTied (w : World) : Prop where
  good : WGood w
  iters : Iters w
  one : OneIter w

theorem WTied.empty : WTied {} :=
  ⟨WGood.empty, (fun i e h => by simp [List.getD] at h), (fun i j e e' h => by simp [List.getD] at h)⟩

theorem liveI_its {w : World} {i : Nat} {e : ITE} {s : Store} (hl : w.liveI i = some (e, s)) : w.its.getD i none = some e := by
  unfold liveI at hl
  split at hl
  · cases hl
  · rename_i e' he
    split at hl
    · cases hl
    · cases hc : w.liveC e'.cif with
      | none => simp [hc] at hl
      | some s' => simp [hc] at hl; rw [← hl.1]; exact he

theorem Iters.of_liveI {w : World} (h : Iters w) {i : Nat} {e : ITE} {s : Store} (hl : w.liveI i = some (e, s)) : IterOk e.it s.db := by
  obtain ⟨s', hs', hok⟩ := h i e (liveI_its hl)
  rw [liveI_liveC hl] at hs'
  cases hs'; exact hok

theorem cifBusy_false {w : World} {c : Nat} (h : w.cifBusy c = false) : ∀ i e, w.its.getD i none = some e → e.cif ≠ c := by
  intro i e hi hc
  have hmem : some e ∈ w.its := by
    have : w.its[i]? = some (some e) := by
      simp only [List.getD] at hi
      cases hg : w.its[i]? with
      | none => simp [hg] at hi
      | some x => simp [hg] at hi; rw [hi]
    exact List.mem_of_getElem? this
  have : w.cifBusy c = true := by
    unfold cifBusy
    exact List.any_eq_true.mpr ⟨some e, hmem, by simp [hc]⟩
  rw [h] at this; cases this

/-- the op leaves the iterator table alone and works on a CIF (if any) that has no open iterator -/
theorem Iters.frame {w w' : World} (h : Iters w) (hits : w'.its = w.its)
    (hc : ∀ c s, w.liveC c = some s → w.cifBusy c = true → w'.liveC c = some s) : Iters w' := by
  intro i e hi
  rw [hits] at hi
  obtain ⟨s, hs, hok⟩ := h i e hi
  refine ⟨s, hc _ s hs ?_, hok⟩
  cases hb : w.cifBusy e.cif with
  | true => rfl
  | false => exact absurd rfl (cifBusy_false hb i e hi)

theorem OneIter.of_its {w w' : World} (h : OneIter w) (hits : w'.its = w.its) : OneIter w' := by
  intro i j e e' h1 h2; rw [hits] at h1 h2; exact h i j e e' h1 h2

/-- same iterator table, same CIF table -/
theorem WTied.same {w w' : World} (h : WTied w) (hits : w'.its = w.its) (hcifs : w'.cifs = w.cifs) : WTied w' :=
  ⟨h.good.of_cifs hcifs, h.iters.frame hits (fun c s hs _ => by unfold liveC at hs ⊢; rw [hcifs]; exact hs), h.one.of_its hits⟩

/-- same iterator table, one CIF without open iterator gets a new (good) store -/
theorem WTied.setFree {w w' : World} (h : WTied w) (c : Nat) (s1 : Store) (hg : GoodS s1) (hb : w.cifBusy c = false)
    (hits : w'.its = w.its) (hcifs : w'.cifs = w.cifs.set c (some s1)) : WTied w' := by
  refine ⟨?_, h.iters.frame hits ?_, h.one.of_its hits⟩
  · have := h.good.setCif c s1 hg
    exact this.of_cifs (by rw [hcifs]; rfl)
  · intro c' s hs hbusy
    have hne : c' ≠ c := by intro e; subst e; rw [hb] at hbusy; cases hbusy
    unfold liveC at hs ⊢
    rw [hcifs, getD_set_ne' _ _ _ _ hne]; exact hs

-- ---- list facts -----------------------------------------------------------------------------------------------------------------------

theorem getD_set_cases {α} (l : List (Option α)) (i j : Nat) (x : Option α) (a : α) (h : (l.set i x).getD j none = some a) :
    (j = i ∧ x = some a) ∨ (j ≠ i ∧ l.getD j none = some a) := by
  by_cases hj : j = i
  · subst hj
    by_cases hl : j < l.length
    · left; exact ⟨rfl, by simpa [List.getD, hl] using h⟩
    · have : l.set j x = l := List.set_eq_of_length_le (by omega)
      rw [this] at h
      have : l.getD j none = none := by simp [List.getD, List.getElem?_eq_none (Nat.le_of_not_lt hl)]
      rw [this] at h; cases h
  · right
    exact ⟨hj, by simpa [List.getD, List.getElem?_set_ne (Ne.symm hj)] using h⟩

theorem getD_append_cases {α} (l : List (Option α)) (j : Nat) (x : Option α) (a : α) (h : (l ++ [x]).getD j none = some a) :
    (j < l.length ∧ l.getD j none = some a) ∨ (j = l.length ∧ x = some a) := by
  by_cases hj : j < l.length
  · left; exact ⟨hj, by simpa [List.getD, List.getElem?_append_left hj] using h⟩
  · right
    have hge : l.length ≤ j := by omega
    simp only [List.getD, List.getElem?_append_right hge] at h
    cases hi : j - l.length with
    | zero => simp [hi] at h; exact ⟨by omega, h⟩
    | succ k => simp [hi] at h

theorem getD_some_lt {α} (l : List (Option α)) (j : Nat) (a : α) (h : l.getD j none = some a) : j < l.length := by
  by_cases hj : j < l.length
  · exact hj
  · simp [List.getD, List.getElem?_eq_none (Nat.le_of_not_lt hj)] at h

theorem liveC_set_self (w : World) (c : Nat) (s s1 : Store) (hl : w.liveC c = some s) : (w.cifs.set c (some s1)).getD c none = some s1 := by
  have := getD_some_lt _ _ _ hl
  simp [List.getD, this]

-- ---- the ops that touch the iterator table ---------------------------------------------------------------------------------------

theorem WTied.cifNew {w w' : World} (h : WTied w) (hits : w'.its = w.its) (hcifs : w'.cifs = w.cifs ++ [some ({} : Store)]) : WTied w' := by
  refine ⟨?_, h.iters.frame hits ?_, h.one.of_its hits⟩
  · intro c s hs
    rw [hcifs] at hs
    rcases getD_append_cases _ _ _ _ hs with ⟨_, h1⟩ | ⟨_, h1⟩
    · exact h.good c s h1
    · cases h1; exact GoodS.empty
  · intro c s hs _
    unfold liveC at hs ⊢
    have := getD_some_lt _ _ _ hs
    rw [hcifs]
    simpa [List.getD, List.getElem?_append_left this] using hs

theorem WTied.cifDel {w w' : World} (h : WTied w) (c : Nat) (hb : w.cifBusy c = false)
    (hits : w'.its = w.its.map (fun e => match e with | some e => if e.cif == c then none else some e | none => none))
    (hcifs : w'.cifs = w.cifs.set c none) : WTied w' := by
  have hentry : ∀ i e, w'.its.getD i none = some e → w.its.getD i none = some e := by
    intro i e hi
    rw [hits] at hi
    simp only [List.getD, List.getElem?_map] at hi ⊢
    cases hg : w.its[i]? with
    | none => simp [hg] at hi
    | some x =>
      cases x with
      | none => simp [hg] at hi
      | some e0 =>
        simp only [hg, Option.map_some, Option.getD_some] at hi ⊢
        split at hi
        · cases hi
        · exact hi
  refine ⟨?_, ?_, ?_⟩
  · intro c' s hs
    rw [hcifs] at hs
    rcases getD_set_cases _ _ _ _ _ hs with ⟨_, h1⟩ | ⟨_, h1⟩
    · cases h1
    · exact h.good c' s h1
  · intro i e hi
    have hi0 := hentry i e hi
    obtain ⟨s, hs, hok⟩ := h.iters i e hi0
    refine ⟨s, ?_, hok⟩
    have hne := cifBusy_false hb i e hi0
    unfold liveC at hs ⊢
    rw [hcifs]
    simpa [List.getD, List.getElem?_set_ne (Ne.symm hne)] using hs
  · intro i j e e' h1 h2
    exact h.one i j e e' (hentry i e h1) (hentry j e' h2)

theorem WTied.itOpen {w w' : World} (h : WTied w) (l : Nat) (e : LHE) (s : Store) (hl : w.liveL l = some (e, s))
    (hb : w.cifBusy e.cif = false) (hv : e.h.validB s.db = true)
    (hits : w'.its = w.its ++ [match (getPackets s e.h).2 with | .ok it => some { cif := e.cif, lh := l, it := it } | .error _ => none])
    (hcifs : w'.cifs = w.cifs.set e.cif (some (getPackets s e.h).1)) : WTied w' := by
  have hs := liveL_liveC hl
  have hgs := h.good.live hs
  have hvalid : e.h.Valid s.db := by
    unfold LH.validB at hv
    split at hv
    · rename_i x hf
      have hm := List.mem_of_find?_eq_some hf
      have hk := List.find?_some hf
      simp at hk hv
      exact ⟨x, hm, hk.1, hk.2, hv⟩
    · cases hv
  have hother : ∀ c' s', w.liveC c' = some s' → c' ≠ e.cif → w'.liveC c' = some s' := by
    intro c' s' hs' hne
    unfold liveC at hs' ⊢
    rw [hcifs, getD_set_ne' _ _ _ _ hne]; exact hs'
  refine ⟨?_, ?_, ?_⟩
  · exact (h.good.setCif e.cif _ (getPackets_goodS hgs e.h)).of_cifs (by rw [hcifs]; rfl)
  · intro i e' hi
    rw [hits] at hi
    rcases getD_append_cases _ _ _ _ hi with ⟨_, h1⟩ | ⟨_, h1⟩
    · obtain ⟨s', hs', hok⟩ := h.iters i e' h1
      exact ⟨s', hother _ s' hs' (cifBusy_false hb i e' h1), hok⟩
    · cases hr : (getPackets s e.h).2 with
      | error c => rw [hr] at h1; cases h1
      | ok it =>
        rw [hr] at h1
        simp only [Option.some.injEq] at h1
        subst h1
        have hgp : getPackets s e.h = ((getPackets s e.h).1, .ok it) := by rw [← hr]
        obtain ⟨hdb, hok⟩ := getPackets_iterOk s _ e.h it hvalid hgs.db.inv hgp
        refine ⟨(getPackets s e.h).1, ?_, by rw [hdb]; exact hok⟩
        unfold liveC; rw [hcifs]; exact liveC_set_self w e.cif s _ hs
  · intro i j e1 e2 h1 h2 hc
    rw [hits] at h1 h2
    rcases getD_append_cases _ _ _ _ h1 with ⟨_, a1⟩ | ⟨i1, a1⟩ <;> rcases getD_append_cases _ _ _ _ h2 with ⟨_, a2⟩ | ⟨j1, a2⟩
    · exact h.one i j e1 e2 a1 a2 hc
    · exfalso
      have hne := cifBusy_false hb i e1 a1
      cases hr : (getPackets s e.h).2 with
      | error c => rw [hr] at a2; cases a2
      | ok it => rw [hr] at a2; simp only [Option.some.injEq] at a2; subst a2; exact hne hc
    · exfalso
      have hne := cifBusy_false hb j e2 a2
      cases hr : (getPackets s e.h).2 with
      | error c => rw [hr] at a1; cases a1
      | ok it => rw [hr] at a1; simp only [Option.some.injEq] at a1; subst a1; exact hne hc.symm
    · omega

theorem WTied.itNext {w w' : World} (h : WTied w) (i : Nat) (e : ITE) (s : Store) (hl : w.liveI i = some (e, s))
    (hits : w'.its = w.its.set i (some { e with it := (nextPacket s e.it).1 })) (hcifs : w'.cifs = w.cifs) : WTied w' := by
  have hi := liveI_its hl
  have hs := liveI_liveC hl
  refine ⟨h.good.of_cifs hcifs, ?_, ?_⟩
  · intro j e' hj
    rw [hits] at hj
    have hlc : ∀ c, w'.liveC c = w.liveC c := by intro c; unfold liveC; rw [hcifs]
    rcases getD_set_cases _ _ _ _ _ hj with ⟨_, h1⟩ | ⟨_, h1⟩
    · simp only [Option.some.injEq] at h1
      subst h1
      exact ⟨s, by rw [hlc]; exact hs, nextPacket_iterOk s e.it s.db (h.iters.of_liveI hl)⟩
    · obtain ⟨s', hs', hok⟩ := h.iters j e' h1
      exact ⟨s', by rw [hlc]; exact hs', hok⟩
  · intro j k e1 e2 h1 h2 hc
    rw [hits] at h1 h2
    rcases getD_set_cases _ _ _ _ _ h1 with ⟨j1, a1⟩ | ⟨j1, a1⟩ <;> rcases getD_set_cases _ _ _ _ _ h2 with ⟨k1, a2⟩ | ⟨k1, a2⟩
    · omega
    · simp only [Option.some.injEq] at a1; subst a1; rw [j1]; exact h.one i k e e2 hi a2 hc
    · simp only [Option.some.injEq] at a2; subst a2; rw [k1]; exact h.one j i e1 e a1 hi hc
    · exact h.one j k e1 e2 a1 a2 hc

theorem WTied.itUpd {w w' : World} (h : WTied w) (i : Nat) (e : ITE) (s : Store) (p : List (Str × V)) (hl : w.liveI i = some (e, s))
    (hits : w'.its = w.its) (hcifs : w'.cifs = w.cifs.set e.cif (some (updatePacket s e.it p).1)) : WTied w' := by
  have hs := liveI_liveC hl
  have hok := h.iters.of_liveI hl
  refine ⟨?_, ?_, h.one.of_its hits⟩
  · exact (h.good.setCif e.cif _ (updatePacket_goodS (h.good.live hs) e.it p hok.attached)).of_cifs (by rw [hcifs]; rfl)
  · intro j e' hj
    rw [hits] at hj
    obtain ⟨s', hs', hok'⟩ := h.iters j e' hj
    by_cases hc : e'.cif = e.cif
    · rw [hc, hs] at hs'; cases hs'
      have hje : j = i := h.one j i e' e hj (liveI_its hl) hc
      subst hje
      have : e' = e := by have h1 := liveI_its hl; rw [hj] at h1; cases h1; rfl
      subst this
      refine ⟨(updatePacket s e'.it p).1, ?_, updatePacket_iterOk s e'.it p hok'⟩
      unfold liveC; rw [hcifs]; exact liveC_set_self w e'.cif s _ hs
    · refine ⟨s', ?_, hok'⟩
      unfold liveC at hs' ⊢
      rw [hcifs, getD_set_ne' _ _ _ _ hc]; exact hs'

theorem WTied.itRem {w w' : World} (h : WTied w) (i : Nat) (e : ITE) (s : Store) (hl : w.liveI i = some (e, s))
    (hits : w'.its = w.its.set i (some { e with it := (removePacket s e.it).2.1 }))
    (hcifs : w'.cifs = w.cifs.set e.cif (some (removePacket s e.it).1)) : WTied w' := by
  have hi := liveI_its hl
  have hs := liveI_liveC hl
  have hok := h.iters.of_liveI hl
  have hgs := h.good.live hs
  refine ⟨?_, ?_, ?_⟩
  · exact (h.good.setCif e.cif _ (removePacket_goodS hgs e.it hok.attached hok.scalar)).of_cifs (by rw [hcifs]; rfl)
  · intro j e' hj
    rw [hits] at hj
    rcases getD_set_cases _ _ _ _ _ hj with ⟨_, h1⟩ | ⟨hne, h1⟩
    · simp only [Option.some.injEq] at h1
      subst h1
      refine ⟨(removePacket s e.it).1, ?_, removePacket_iterOk s e.it hgs.db.inv hok⟩
      unfold liveC; rw [hcifs]; exact liveC_set_self w e.cif s _ hs
    · obtain ⟨s', hs', hok'⟩ := h.iters j e' h1
      have hc : e'.cif ≠ e.cif := fun hc => hne (h.one j i e' e h1 hi hc)
      refine ⟨s', ?_, hok'⟩
      unfold liveC at hs' ⊢
      rw [hcifs, getD_set_ne' _ _ _ _ hc]; exact hs'
  · intro j k e1 e2 h1 h2 hc
    rw [hits] at h1 h2
    rcases getD_set_cases _ _ _ _ _ h1 with ⟨j1, a1⟩ | ⟨j1, a1⟩ <;> rcases getD_set_cases _ _ _ _ _ h2 with ⟨k1, a2⟩ | ⟨k1, a2⟩
    · omega
    · simp only [Option.some.injEq] at a1; subst a1; rw [j1]; exact h.one i k e e2 hi a2 hc
    · simp only [Option.some.injEq] at a2; subst a2; rw [k1]; exact h.one j i e1 e a1 hi hc
    · exact h.one j k e1 e2 a1 a2 hc

/-- cif_pktitr_close / cif_pktitr_abort: the iterator is gone, the store is what COMMIT / ROLLBACK leave -/
theorem WTied.itEnd {w w' : World} (h : WTied w) (i : Nat) (e : ITE) (s s1 : Store) (hl : w.liveI i = some (e, s)) (hg : GoodS s1)
    (hits : w'.its = w.its.set i none) (hcifs : w'.cifs = w.cifs.set e.cif (some s1)) : WTied w' := by
  have hi := liveI_its hl
  refine ⟨(h.good.setCif e.cif _ hg).of_cifs (by rw [hcifs]; rfl), ?_, ?_⟩
  · intro j e' hj
    rw [hits] at hj
    rcases getD_set_cases _ _ _ _ _ hj with ⟨_, h1⟩ | ⟨hne, h1⟩
    · cases h1
    · obtain ⟨s', hs', hok'⟩ := h.iters j e' h1
      have hc : e'.cif ≠ e.cif := fun hc => hne (h.one j i e' e h1 hi hc)
      refine ⟨s', ?_, hok'⟩
      unfold liveC at hs' ⊢
      rw [hcifs, getD_set_ne' _ _ _ _ hc]; exact hs'
  · intro j k e1 e2 h1 h2 hc
    rw [hits] at h1 h2
    rcases getD_set_cases _ _ _ _ _ h1 with ⟨_, a1⟩ | ⟨_, a1⟩
    · cases a1
    · rcases getD_set_cases _ _ _ _ _ h2 with ⟨_, a2⟩ | ⟨_, a2⟩
      · cases a2
      · exact h.one j k e1 e2 a1 a2 hc

/-- cif_loop_get_packets not executed (dead handle): the iterator table gets an empty slot -/
theorem WTied.itNone {w w' : World} (h : WTied w) (hits : w'.its = w.its ++ [none]) (hcifs : w'.cifs = w.cifs) : WTied w' := by
  have hentry : ∀ i e, w'.its.getD i none = some e → w.its.getD i none = some e := by
    intro i e hi
    rw [hits] at hi
    rcases getD_append_cases _ _ _ _ hi with ⟨_, h1⟩ | ⟨_, h1⟩
    · exact h1
    · cases h1
  refine ⟨h.good.of_cifs hcifs, ?_, fun i j e e' h1 h2 => h.one i j e e' (hentry i e h1) (hentry j e' h2)⟩
  intro i e hi
  obtain ⟨s, hs, hok⟩ := h.iters i e (hentry i e hi)
  exact ⟨s, by unfold liveC at hs ⊢; rw [hcifs]; exact hs, hok⟩

end CifModel.Store
