import CifModel.Model.Numb
import CifModel.Gen.NumbConsts
/-
  Link lemmas of property C10: the constants the model of the number code assumes are the constants the compiler sees
  in /repo's working tree (Gen/NumbConsts.lean is regenerated on every run).  If a source edit changes one of them the
  lemma stops checking — a broken proof obligation.
-/
namespace CifModel.Lemmas.NumbLink
open CifModel.Model CifModel.Gen

theorem link_chars : Numb.UCHAR_PLUS = NumbConsts.UCHAR_PLUS ∧ Numb.UCHAR_MINUS = NumbConsts.UCHAR_MINUS ∧
    Numb.UCHAR_DECIMAL = NumbConsts.UCHAR_DECIMAL ∧ Numb.UCHAR_0 = NumbConsts.UCHAR_0 ∧ Numb.UCHAR_9 = NumbConsts.UCHAR_9 ∧
    Numb.UCHAR_E = NumbConsts.UCHAR_E ∧ Numb.UCHAR_e = NumbConsts.UCHAR_e ∧ Numb.UCHAR_OPEN = NumbConsts.UCHAR_OPEN ∧
    Numb.UCHAR_CLOSE = NumbConsts.UCHAR_CLOSE := by decide

theorem link_int : Numb.INT_MAX = NumbConsts.INT_MAX ∧ Numb.expSatLimit = NumbConsts.expSatLimit := by decide

theorem link_float : Numb.DBL_MANT_DIG = NumbConsts.DBL_MANT_DIG ∧ Numb.DBL_DIG = NumbConsts.DBL_DIG ∧
    Numb.DBL_MAX_10_EXP = (NumbConsts.DBL_MAX_10_EXP : Int) ∧ Numb.DBL_MIN_10_EXP = NumbConsts.DBL_MIN_10_EXP ∧
    Numb.DBL_MAX_EXP = (NumbConsts.DBL_MAX_EXP : Int) ∧ Numb.DBL_MIN_EXP = NumbConsts.DBL_MIN_EXP ∧
    NumbConsts.FLT_RADIX = 2 := by decide

theorem link_bignum : Numb.BBASE = NumbConsts.BBASE ∧ Numb.DDIG_PER_DIG = NumbConsts.DDIG_PER_DIG ∧
    Numb.BDIG_PER_DIG = NumbConsts.BDIG_PER_DIG ∧ NumbConsts.UNITS_DIGIT = 34 ∧ NumbConsts.DIG_PER_DBL = 155 ∧
    NumbConsts.BBASE = 10 ^ NumbConsts.DDIG_PER_DIG := by decide

theorem link_misc : Numb.CIF_LINE_LENGTH = NumbConsts.CIF_LINE_LENGTH ∧ Numb.LEAST_DBL_10_DIGIT = NumbConsts.LEAST_DBL_10_DIGIT ∧
    Numb.DEFAULT_MAX_LEAD_ZEROES = NumbConsts.DEFAULT_MAX_LEAD_ZEROES ∧ Numb.BUF_SIZE = NumbConsts.BUF_SIZE := by decide

/-- the exponent ranges hard-wired into `ldexpNat`: `DBL_MIN_EXP - 1 = -1022`, `DBL_MIN_EXP - DBL_MANT_DIG = -1074` -/
theorem link_ldexp : NumbConsts.DBL_MIN_EXP - 1 = -1022 ∧ NumbConsts.DBL_MIN_EXP - (NumbConsts.DBL_MANT_DIG : Int) = -1074 ∧
    NumbConsts.DBL_MAX_EXP = 1024 := by decide

end CifModel.Lemmas.NumbLink
