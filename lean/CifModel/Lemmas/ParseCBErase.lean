import CifModel.Lemmas.ParseCBTrace
/-
  CifModel.Lemmas.ParseCBErase — syntax-only mode (no container handles) makes the same callbacks as storing mode, up to
  the handles passed: a simulation between a run with container handles and the run without, for handler programs that
  do not look at the handles.
-/
namespace CifModel.Lemmas.ParseCB
open CifModel.ParseCB

/-- forget the handles a callback was given -/
def erase : Ev → Ev
  | .cifStart _ => .cifStart false
  | .cifEnd _ => .cifEnd false
  | .blockStart _ => .blockStart none
  | .blockEnd _ => .blockEnd none
  | .frameStart _ => .frameStart none
  | .frameEnd _ => .frameEnd none
  | .loopEnd _ => .loopEnd none
  | e => e

def eraseSt (s : St) : St := { s with log := s.log.map erase }

/-- the program does not look at the handles -/
def HandleBlind (p : Prog) : Prop := ∀ k e, p k e = p k (erase e)

@[simp] theorem eraseSt_skip (s : St) : (eraseSt s).skip = s.skip := rfl
@[simp] theorem eraseSt_n (s : St) : (eraseSt s).n = s.n := rfl
@[simp] theorem eraseSt_toks (s : St) : (eraseSt s).toks = s.toks := rfl
@[simp] theorem eraseSt_scanned (s : St) : (eraseSt s).scanned = s.scanned := rfl

theorem consume_erase (s : St) : consume (eraseSt s) = eraseSt (consume s) := rfl
theorem inc_erase (s : St) : inc (eraseSt s) = eraseSt (inc s) := by
  unfold inc; simp only [eraseSt_skip]; by_cases h : s.skip > 0 <;> simp only [h, if_true, if_false] <;> rfl
theorem dec_erase (s : St) : dec (eraseSt s) = eraseSt (dec s) := by
  unfold dec; simp only [eraseSt_skip]; by_cases h : s.skip > 0 <;> simp only [h, if_true, if_false] <;> rfl
theorem cur_erase (s : St) : cur (eraseSt s) = cur s := rfl
theorem note_erase (s : St) (e : Ev) (he : erase e = e) : note (eraseSt s) e = eraseSt (note s e) := by
  simp [ParseCB.note, eraseSt, he]
theorem push_erase (s : St) (e : Ev) : push (eraseSt s) (erase e) = eraseSt (push s e) := by
  simp [push, eraseSt]
theorem setSkip_erase (s : St) (d : Option Int) : setSkip (eraseSt s) d = eraseSt (setSkip s d) := by
  cases d <;> rfl

theorem reportPre_erase : ∀ (l : List Seg) (s : St), reportPre l (eraseSt s) = eraseSt (reportPre l s)
  | [], s => rfl
  | .ws t :: r, s => by
    simp only [reportPre, eraseSt_skip]
    by_cases h : s.skip ≤ 0
    · simp only [h, if_true]; rw [note_erase s _ rfl, reportPre_erase r]
    · simp only [h, if_false]; rw [reportPre_erase r]
  | .comment t :: r, s => by
    simp only [reportPre]
    rw [note_erase s _ rfl, reportPre_erase r]

theorem nextToken_erase (s : St) : nextToken (eraseSt s) = ((nextToken s).1, eraseSt (nextToken s).2) := by
  unfold nextToken
  simp only [eraseSt_toks, eraseSt_scanned]
  split
  · rfl
  · by_cases hs : s.scanned = true
    · simp only [hs, if_true]
    · simp only [hs, if_false, Bool.false_eq_true]
      rw [reportPre_erase]; rfl

theorem site_erase (p : Prog) (hp : HandleBlind p) (s : St) (e : Ev) (cur sib : Option Int) :
    site p (eraseSt s) (erase e) cur sib = ((site p s e cur sib).1, eraseSt (site p s e cur sib).2) := by
  unfold site
  simp only [eraseSt_n, ← hp s.n e, push_erase, setSkip_erase]
  split
  · rfl
  · split
    · rfl
    · split <;> rfl

/-- values commute with erasing -/
theorem value_erase : ∀ (fuel : Nat),
    (∀ s, parseValue fuel (eraseSt s) = ((parseValue fuel s).1, (parseValue fuel s).2.1, eraseSt (parseValue fuel s).2.2))
    ∧ (∀ s acc, listLoop fuel (eraseSt s) acc = ((listLoop fuel s acc).1, (listLoop fuel s acc).2.1, eraseSt (listLoop fuel s acc).2.2))
    ∧ (∀ s acc, tableLoop fuel (eraseSt s) acc = ((tableLoop fuel s acc).1, (tableLoop fuel s acc).2.1, eraseSt (tableLoop fuel s acc).2.2))
  | 0 => by simp [parseValue, listLoop, tableLoop]
  | fuel + 1 => by
    obtain ⟨ihv, ihl, iht⟩ := value_erase fuel
    refine ⟨?_, ?_, ?_⟩
    · intro s
      simp only [parseValue, nextToken_erase, consume_erase, cur_erase]
      split <;> simp [ihl, iht]
    · intro s acc
      simp only [listLoop, nextToken_erase, consume_erase]
      split
      · rw [ihv]
        dsimp only
        split
        · rw [ihl]
        · rfl
      · split <;> rfl
    · intro s acc
      simp only [tableLoop, nextToken_erase, consume_erase, cur_erase]
      split
      · split
        · rw [ihv]
          dsimp only
          split
          · rw [iht]
          · rfl
        · rfl
      · split <;> rfl

theorem pv_erase (fuel : Nat) (s : St) :
    parseValue fuel (eraseSt s) = ((parseValue fuel s).1, (parseValue fuel s).2.1, eraseSt (parseValue fuel s).2.2) :=
  (value_erase fuel).1 s

theorem erase_item (nm : Str) (v : V) : erase (.item nm v) = .item nm v := rfl

/-- parse_item: same result, same callbacks up to handles, whatever the container handle -/
theorem item_erase (p : Prog) (hp : HandleBlind p) (fuel : Nat) (cont : Bool) (name : Option Str) (s : St) :
    (parseItem p fuel false name (eraseSt s)).1 = (parseItem p fuel cont name s).1
    ∧ (parseItem p fuel false name (eraseSt s)).2.1 = eraseSt (parseItem p fuel cont name s).2.1 := by
  unfold parseItem
  simp only [nextToken_erase, inc_erase, pv_erase]
  by_cases h1 : (!isValueStart (nextToken s).1) = true
  · simp only [h1, if_true, dec_erase, and_self]
  · simp only [h1, Bool.false_eq_true, if_false]
    by_cases h2 : (parseValue fuel (inc (nextToken s).2)).1 = OK
    · simp only [h2, if_true]
      cases name with
      | none => simp only [dec_erase, and_self]
      | some nm =>
        simp only [scalarItemStep]
        have := site_erase p hp (parseValue fuel (inc (nextToken s).2)).2.2
          (.item nm (parseValue fuel (inc (nextToken s).2)).2.1) none (some 2)
        rw [erase_item] at this
        rw [this]
        simp only [dec_erase, and_self]
    · simp only [h2, if_false, dec_erase, and_self]

theorem header_erase : ∀ (fuel : Nat) (s : St) (acc : List Str),
    headerLoop fuel (eraseSt s) acc = ((headerLoop fuel s acc).1, (headerLoop fuel s acc).2.1, eraseSt (headerLoop fuel s acc).2.2)
  | 0, s, acc => rfl
  | fuel + 1, s, acc => by
    simp only [headerLoop, nextToken_erase, cur_erase, eraseSt_skip]
    by_cases h : (nextToken s).1 = TokType.name
    · simp only [h, if_true]
      by_cases h2 : (nextToken s).2.skip ≤ 0
      · simp only [h2, if_true]
        rw [note_erase _ _ rfl, consume_erase, header_erase fuel]
      · simp only [h2, if_false]
        rw [consume_erase, header_erase fuel]
    · simp only [h, if_false]

theorem pktStart_erase (p : Prog) (hp : HandleBlind p) (s : St) :
    pktStartStep p (eraseSt s) = ((pktStartStep p s).1, eraseSt (pktStartStep p s).2) := by
  unfold pktStartStep
  simp only [eraseSt_skip]
  by_cases h : s.skip > 0
  · simp only [h, if_true]; rfl
  · simp only [h, if_false]
    exact site_erase p hp s .pktStart _ _

theorem itemStep_erase (p : Prog) (hp : HandleBlind p) (nm : Str) (r : Int) (v : V) (s : St) :
    itemStep p nm r v (eraseSt s) = ((itemStep p nm r v s).1, eraseSt (itemStep p nm r v s).2) := by
  unfold itemStep
  simp only [eraseSt_skip]
  by_cases h : r = OK ∧ s.skip ≤ 0
  · simp only [h, and_self, if_true]
    exact site_erase p hp s (.item nm v) _ _
  · simp only [h, if_false]

theorem pktEnd_erase (p : Prog) (hp : HandleBlind p) (items : List (Str × V)) (s : St) :
    pktEndStep p items (eraseSt s) = ((pktEndStep p items s).1, eraseSt (pktEndStep p items s).2.1, (pktEndStep p items s).2.2) := by
  unfold pktEndStep
  simp only [eraseSt_skip, eraseSt_n]
  by_cases h : s.skip > 0
  · simp only [h, if_true]; rfl
  · simp only [h, if_false]
    have := site_erase p hp s (.pktEnd items) none (some 1)
    have he : erase (.pktEnd items) = .pktEnd items := rfl
    rw [he] at this
    simp only [this]
    rfl

/-- the packet loop: same result and callbacks whatever the loop handle -/
theorem packets_erase (p : Prog) (hp : HandleBlind p) (loopH : Bool) (names : List Str) : ∀ (fuel : Nat) (s : St) (k k' : PkSt),
    k'.col = k.col → k'.row = k.row → k'.havePk = k.havePk →
    (packetsLoop p false names fuel (eraseSt s) k').1 = (packetsLoop p loopH names fuel s k).1
    ∧ (packetsLoop p false names fuel (eraseSt s) k').2.1 = eraseSt (packetsLoop p loopH names fuel s k).2.1
  | 0, s, k, k', _, _, _ => ⟨rfl, rfl⟩
  | fuel + 1, s, k, k', hc, hr, hh => by
    have ih := packets_erase p hp loopH names fuel
    unfold packetsLoop
    simp only [nextToken_erase, hc, hr, hh]
    by_cases hval : isValueStart (nextToken s).1 = true
    · simp only [hval, if_true]
      have hs1 : (if k.col = 0 then pktStartStep p (eraseSt (nextToken s).2) else (OK, eraseSt (nextToken s).2))
          = ((if k.col = 0 then pktStartStep p (nextToken s).2 else (OK, (nextToken s).2)).1,
             eraseSt (if k.col = 0 then pktStartStep p (nextToken s).2 else (OK, (nextToken s).2)).2) := by
        by_cases h0 : k.col = 0
        · simp only [h0, if_true]; exact pktStart_erase p hp _
        · simp only [h0, if_false]
      rw [hs1]
      generalize (if k.col = 0 then pktStartStep p (nextToken s).2 else (OK, (nextToken s).2)) = s1
      dsimp only
      by_cases h1 : s1.1 = OK
      · simp only [h1, ne_eq, not_true_eq_false, if_false, pv_erase, itemStep_erase p hp]
        generalize itemStep p (names.getD k.col []) (parseValue fuel s1.2).1 (parseValue fuel s1.2).2.1 (parseValue fuel s1.2).2.2 = it
        by_cases h2 : it.1 = OK
        · simp only [h2, not_true_eq_false, if_false]
          by_cases hcol : (k.col + 1) % names.length = 0
          · simp only [hcol, if_true, pktEnd_erase p hp]
            generalize pktEndStep p (List.zip names (k.row ++ [(parseValue fuel s1.2).2.1])) it.2 = pe
            by_cases h3 : pe.1 = OK
            · simp only [h3, not_true_eq_false, if_false]
              exact ih _ _ _ rfl rfl rfl
            · simp only [h3, not_false_eq_true, if_true, and_self]
          · simp only [hcol, if_false]
            exact ih _ _ _ rfl rfl rfl
        · simp only [h2, not_false_eq_true, if_true, and_self]
      · simp only [h1, ne_eq, not_false_eq_true, if_true, and_self]
    · simp only [hval, Bool.false_eq_true, if_false]
      split
      · exact ⟨rfl, rfl⟩
      · split
        · exact ⟨rfl, rfl⟩
        · split
          · exact ⟨rfl, rfl⟩
          · exact ⟨rfl, rfl⟩

theorem loopStart_erase (p : Prog) (hp : HandleBlind p) (cont : Bool) (names : List Str) (s : St) :
    (loopStartStep p false names (eraseSt s)).1 = (loopStartStep p cont names s).1
    ∧ (loopStartStep p false names (eraseSt s)).2.1 = eraseSt (loopStartStep p cont names s).2.1
    ∧ (loopStartStep p false names (eraseSt s)).2.2.2 = (loopStartStep p cont names s).2.2.2
    ∧ (loopStartStep p false names (eraseSt s)).2.2.1 = false := by
  unfold loopStartStep
  simp only [eraseSt_skip]
  by_cases h : s.skip ≤ 0
  · simp only [h, if_true]
    have := site_erase p hp s (.loopStart names) (some 1) (some 2)
    have he : erase (.loopStart names) = .loopStart names := rfl
    rw [he] at this
    simp only [this, Bool.false_and, and_self]
  · simp only [h, if_false, and_self]

theorem loopEnd_erase (p : Prog) (hp : HandleBlind p) (hd : Option (List Str)) (r : Int) (s : St) :
    loopEndStep p none r (eraseSt s) = ((loopEndStep p hd r s).1, eraseSt (loopEndStep p hd r s).2) := by
  unfold loopEndStep
  simp only [eraseSt_skip]
  by_cases h : s.skip > 0
  · simp only [h, if_true]; rfl
  · simp only [h, if_false]
    by_cases hr : r = OK
    · simp only [hr, if_true]
      exact site_erase p hp s (.loopEnd hd) none (some 1)
    · simp only [hr, if_false]

/-- parse_loop: same result and callbacks (up to the loop_end handle) with and without a container -/
theorem loop_erase (p : Prog) (hp : HandleBlind p) (fuel : Nat) (cont : Bool) (s : St) :
    (parseLoop p fuel false (eraseSt s)).1 = (parseLoop p fuel cont s).1
    ∧ (parseLoop p fuel false (eraseSt s)).2.1 = eraseSt (parseLoop p fuel cont s).2.1 := by
  unfold parseLoop
  simp only [inc_erase, header_erase]
  generalize headerLoop fuel (inc s) [] = hd
  by_cases h1 : hd.1 = OK
  · simp only [h1, ne_eq, not_true_eq_false, if_false]
    by_cases h2 : hd.2.1.isEmpty = true
    · simp only [h2, if_true, loopEnd_erase p hp none, and_self]
    · simp only [h2, Bool.false_eq_true, if_false]
      obtain ⟨e1, e2, e3, e4⟩ := loopStart_erase p hp cont hd.2.1 hd.2.2
      generalize loopStartStep p false hd.2.1 (eraseSt hd.2.2) = lsB at e1 e2 e3 e4 ⊢
      generalize loopStartStep p cont hd.2.1 hd.2.2 = lsA at e1 e2 e3 ⊢
      rw [e3, e4, e2, e1]
      by_cases h3 : lsA.2.2.2 = true
      · simp only [h3, if_true, Bool.false_eq_true, if_false]
        obtain ⟨q1, q2⟩ := packets_erase p hp lsA.2.2.1 hd.2.1 fuel lsA.2.1
          { col := 0, row := [], havePk := false, stored := [] } { col := 0, row := [], havePk := false, stored := [] } rfl rfl rfl
        rw [q1, q2, loopEnd_erase p hp (if lsA.2.2.1 = true then some hd.2.1 else none)]
        exact ⟨rfl, rfl⟩
      · simp only [h3, Bool.false_eq_true, if_false]
        rw [loopEnd_erase p hp (if lsA.2.2.1 = true then some hd.2.1 else none)]
        exact ⟨rfl, rfl⟩
  · simp only [h1, ne_eq, not_false_eq_true, if_true, loopEnd_erase p hp none, and_self]

theorem contStart_erase (p : Prog) (hp : HandleBlind p) (cont isBlock : Bool) (code : Str) (s : St) :
    contStartStep p false isBlock code (eraseSt s)
      = ((contStartStep p cont isBlock code s).1, eraseSt (contStartStep p cont isBlock code s).2) := by
  unfold contStartStep
  simp only [eraseSt_skip, inc_erase]
  by_cases h : s.skip > 0
  · simp only [h, if_true]
  · simp only [h, if_false]
    have := site_erase p hp s (if isBlock then Ev.blockStart (if cont then some code else none)
      else Ev.frameStart (if cont then some code else none)) (some 1) (some 2)
    rw [← this]
    cases isBlock <;> simp [erase]

theorem containerEnd_erase (p : Prog) (hp : HandleBlind p) (cont isBlock : Bool) (code : Str) (r : Int) (s : St)
    (c c' : Content) :
    (containerEnd p false isBlock code r (eraseSt s) c').1 = (containerEnd p cont isBlock code r s c).1
    ∧ (containerEnd p false isBlock code r (eraseSt s) c').2.1 = eraseSt (containerEnd p cont isBlock code r s c).2.1 := by
  unfold containerEnd
  simp only [dec_erase, eraseSt_skip]
  by_cases h : r = OK ∧ (dec s).skip ≤ 0
  · simp only [h, and_self, if_true]
    have := site_erase p hp (dec s) (if isBlock then Ev.blockEnd (if cont then some code else none)
      else Ev.frameEnd (if cont then some code else none)) none (some 1)
    have he : erase (if isBlock then Ev.blockEnd (if cont then some code else none)
        else Ev.frameEnd (if cont then some code else none))
        = (if isBlock then Ev.blockEnd (if false then some code else none) else Ev.frameEnd (if false then some code else none)) := by
      cases isBlock <;> simp [erase]
    rw [he] at this
    rw [this]
    exact ⟨rfl, rfl⟩
  · simp only [h, if_false, and_self]

/-- sequencing for the simulation: an element production, then the rest of the loop -/
theorem seq_erase (xA1 xB1 : Int) (xAs xBs : St) (cA cB : Content) (restA restB : Int × St × Content)
    (hne : (if xA1 = OK then restA else (xA1, xAs, cA)).1 ≠ MALFORMED)
    (hx : xA1 ≠ MALFORMED → xB1 = xA1 ∧ xBs = eraseSt xAs)
    (hrest : xB1 = xA1 → xBs = eraseSt xAs → restA.1 ≠ MALFORMED → restB.1 = restA.1 ∧ restB.2.1 = eraseSt restA.2.1) :
    (if xB1 = OK then restB else (xB1, xBs, cB)).1 = (if xA1 = OK then restA else (xA1, xAs, cA)).1
    ∧ (if xB1 = OK then restB else (xB1, xBs, cB)).2.1 = eraseSt (if xA1 = OK then restA else (xA1, xAs, cA)).2.1 := by
  by_cases h : xA1 = OK
  · have hx' := hx (by rw [h]; decide)
    simp only [h, if_true] at hne ⊢
    simp only [hx'.1, h, if_true]
    exact hrest (by rw [hx'.1]) hx'.2 hne
  · simp only [h, if_false] at hne ⊢
    have hx' := hx hne
    simp only [hx'.1, h, if_false, hx'.2, and_self]

/-- parse_container and its element loop without container handles make the same callbacks (up to handles) and return
    the same result as with them — unless the run with handles stops on a frame-nesting diagnostic (MALFORMED) -/
theorem container_erase (p : Prog) (hp : HandleBlind p) (m : Int) : ∀ (fuel : Nat),
    (∀ cont isBlock code s, (parseContainer p m fuel cont isBlock code s).1 ≠ MALFORMED →
      (parseContainer p m fuel false isBlock code (eraseSt s)).1 = (parseContainer p m fuel cont isBlock code s).1
      ∧ (parseContainer p m fuel false isBlock code (eraseSt s)).2.1 = eraseSt (parseContainer p m fuel cont isBlock code s).2.1)
    ∧ (∀ cont isBlock s c c', (elemsLoop p m fuel cont isBlock s c).1 ≠ MALFORMED →
      (elemsLoop p m fuel false isBlock (eraseSt s) c').1 = (elemsLoop p m fuel cont isBlock s c).1
      ∧ (elemsLoop p m fuel false isBlock (eraseSt s) c').2.1 = eraseSt (elemsLoop p m fuel cont isBlock s c).2.1)
  | 0 => by
    constructor
    · intro cont isBlock code s _; simp [parseContainer]
    · intro cont isBlock s c c' _; simp [elemsLoop]
  | fuel + 1 => by
    obtain ⟨ihc, ihe⟩ := container_erase p hp m fuel
    constructor
    · intro cont isBlock code s hne
      unfold parseContainer at hne ⊢
      simp only [contStart_erase p hp cont] at hne ⊢
      generalize contStartStep p cont isBlock code s = st at hne ⊢
      by_cases h1 : st.1 = OK
      · simp only [h1, ne_eq, not_true_eq_false, if_false] at hne ⊢
        have hel : (elemsLoop p m fuel cont isBlock st.2 Content.empty).1 ≠ MALFORMED := by
          intro h
          rw [containerEnd_ne p cont isBlock code _ _ _ (by rw [h]; decide)] at hne
          exact hne h
        obtain ⟨e1, e2⟩ := ihe cont isBlock st.2 Content.empty Content.empty hel
        rw [e1, e2]
        exact containerEnd_erase p hp cont isBlock code _ _ _ _
      · simp only [h1, ne_eq, not_false_eq_true, if_true] at hne ⊢
        exact containerEnd_erase p hp cont isBlock code _ _ _ _
    · intro cont isBlock s0 c c' hne
      unfold elemsLoop at hne ⊢
      simp only [nextToken_erase, cur_erase, eraseSt_skip, consume_erase] at hne ⊢
      generalize nextToken s0 = nt at hne ⊢
      rcases nt with ⟨ty, s⟩
      dsimp only at hne ⊢
      cases ty <;> dsimp only at hne ⊢
      case blockHead => cases isBlock <;> exact ⟨rfl, rfl⟩
      case frameHead =>
        simp only [Bool.not_false, true_or, if_true]
        by_cases hcond : (!cont ∨ s.skip > 0)
        · simp only [hcond, if_true] at hne ⊢
          exact seq_erase _ _ _ _ _ _ _ _ hne (fun h => ihc false false _ _ h)
            (fun h1 h2 h3 => by rw [h2]; exact ihe cont isBlock _ c c' h3)
        · simp only [hcond, if_false] at hne ⊢
          by_cases hm0 : m = 0
          · simp only [hm0, if_true] at hne; exact absurd rfl hne
          · simp only [hm0, if_false] at hne ⊢
            by_cases hm1 : m = 1 ∧ (!isBlock) = true
            · simp only [hm1, and_self, if_true] at hne; exact absurd rfl hne
            · simp only [hm1, if_false] at hne ⊢
              exact seq_erase _ _ _ _ _ _ _ _ hne (fun h => ihc true false _ _ h)
                (fun h1 h2 h3 => by rw [h2]; exact ihe cont isBlock _ _ c' h3)
      case frameTerm => cases isBlock <;> exact ⟨rfl, rfl⟩
      case loopKw =>
        have hs1 : (if s.skip ≤ 0 then note (eraseSt s) (Ev.keyword (cur s).text) else eraseSt s)
            = eraseSt (if s.skip ≤ 0 then note s (Ev.keyword (cur s).text) else s) := by
          by_cases h : s.skip ≤ 0
          · simp only [h, if_true]; exact note_erase _ _ rfl
          · simp only [h, if_false]
        simp only [hs1, consume_erase] at hne ⊢
        exact seq_erase _ _ _ _ _ _ _ _ hne (fun _ => loop_erase p hp fuel cont _)
          (fun h1 h2 h3 => by rw [h2]; exact ihe cont isBlock _ _ _ h3)
      case name =>
        by_cases hpos : s.skip > 0
        · simp only [hpos, if_true] at hne ⊢
          exact seq_erase _ _ _ _ _ _ _ _ hne (fun _ => item_erase p hp fuel cont none _)
            (fun h1 h2 h3 => by rw [h2]; exact ihe cont isBlock _ _ _ h3)
        · simp only [hpos, if_false] at hne ⊢
          rw [note_erase _ _ rfl, consume_erase]
          exact seq_erase _ _ _ _ _ _ _ _ hne (fun _ => item_erase p hp fuel cont _ _)
            (fun h1 h2 h3 => by rw [h2]; exact ihe cont isBlock _ _ _ h3)
      case end_ => cases isBlock <;> exact ⟨rfl, rfl⟩
      all_goals exact ⟨rfl, rfl⟩

theorem blocks_erase (p : Prog) (hp : HandleBlind p) (m : Int) (cif : Bool) : ∀ (fuel : Nat) (s : St) (acc acc' : List Container),
    (blocksLoop p m cif fuel s acc).1 ≠ MALFORMED →
    (blocksLoop p m false fuel (eraseSt s) acc').1 = (blocksLoop p m cif fuel s acc).1
    ∧ (blocksLoop p m false fuel (eraseSt s) acc').2.1 = eraseSt (blocksLoop p m cif fuel s acc).2.1
  | 0, s, acc, acc', _ => ⟨rfl, rfl⟩
  | fuel + 1, s0, acc, acc', hne => by
    unfold blocksLoop at hne ⊢
    simp only [nextToken_erase, cur_erase, eraseSt_skip, consume_erase] at hne ⊢
    generalize nextToken s0 = nt at hne ⊢
    rcases nt with ⟨ty, s⟩
    dsimp only at hne ⊢
    cases ty <;> dsimp only at hne ⊢
    case blockHead =>
      simp only [Bool.false_and, Bool.false_eq_true, if_false] at hne ⊢
      generalize hb : parseContainer p m fuel (cif && decide (s.skip ≤ 0)) true (cur s).text (consume s) = b at hne
      have hce := (container_erase p hp m fuel).1 (cif && decide (s.skip ≤ 0)) true (cur s).text (consume s)
      rw [hb] at hce
      by_cases h1 : b.1 = OK
      · simp only [h1, if_true] at hne
        obtain ⟨e1, e2⟩ := hce (by rw [h1]; decide)
        simp only [e1, e2, h1, if_true]
        exact blocks_erase p hp m cif fuel _ _ _ hne
      · simp only [h1, if_false] at hne
        obtain ⟨e1, e2⟩ := hce hne
        simp only [e1, e2, h1, if_false, and_self]
    case end_ => exact ⟨rfl, rfl⟩
    all_goals exact ⟨rfl, rfl⟩

theorem cifEnd_erase (p : Prog) (hp : HandleBlind p) (cif : Bool) (r : Int) (s : St) :
    cifEndStep p false r (eraseSt s) = ((cifEndStep p cif r s).1, eraseSt (cifEndStep p cif r s).2) := by
  unfold cifEndStep
  have h1 : p (dec s).n (.cifEnd cif) = p (dec s).n (.cifEnd false) := hp _ _
  have h2 : push (eraseSt (dec s)) (.cifEnd false) = eraseSt (push (dec s) (.cifEnd cif)) := push_erase (dec s) (.cifEnd cif)
  by_cases hr : r = OK
  · simp only [hr, if_true, dec_erase, eraseSt_n, h1, h2]
  · simp only [hr, if_false, dec_erase]

/-- parse_cif without a target CIF makes the same callbacks (up to handles) and returns the same value as with one —
    unless the storing parse stops on a frame-nesting diagnostic -/
theorem cif_erase (p : Prog) (hp : HandleBlind p) (m : Int) (fuel : Nat) (s : St)
    (hne : (parseCif p m true fuel s).1 ≠ MALFORMED) :
    (parseCif p m false fuel (eraseSt s)).1 = (parseCif p m true fuel s).1
    ∧ (parseCif p m false fuel (eraseSt s)).2.1 = eraseSt (parseCif p m true fuel s).2.1 := by
  unfold parseCif at hne ⊢
  have h1 : p s.n (.cifStart true) = p s.n (.cifStart false) := hp _ _
  have hsite := site_erase p hp s (.cifStart true) (some 1) (some 1)
  have he : erase (.cifStart true) = .cifStart false := rfl
  rw [he] at hsite
  simp only [eraseSt_n, ← h1, hsite] at hne ⊢
  by_cases hend : p s.n (.cifStart true) = END
  · simp only [hend, if_true]
    exact ⟨trivial, (push_erase s (.cifStart true))⟩
  · simp only [hend, if_false] at hne ⊢
    generalize site p s (.cifStart true) (some 1) (some 1) = st at hne ⊢
    by_cases h2 : st.1 = OK
    · simp only [h2, if_true] at hne ⊢
      have hb : (blocksLoop p m true fuel st.2 []).1 ≠ MALFORMED := by
        intro h
        unfold cifEndStep at hne
        simp only [h] at hne
        exact hne (by simp [MALFORMED, OK])
      obtain ⟨e1, e2⟩ := blocks_erase p hp m true fuel st.2 [] [] hb
      rw [e1, e2, cifEnd_erase p hp true]
      exact ⟨rfl, rfl⟩
    · simp only [h2, if_false] at hne ⊢
      rw [cifEnd_erase p hp true]
      exact ⟨rfl, rfl⟩

end CifModel.Lemmas.ParseCB
