import CifModel.Lemmas.HeapHistOps
import CifModel.Lemmas.HeapHistInj
/-
  Lemmas for operation histories on the heap, part 4: one operation of the op language keeps the invariant
  (`Sim [] (stepH? fuel s op) (stepP? p op)`): the heap interpretation succeeds exactly when the pure one does, and the
  resulting states are related again.
-/
namespace CifModel.Model.Hist
open CifModel CifModel.Model.Heap
open CifModel.Model.Value (Step Entry resolve update child setChild defaultOf mapFind mapSet mapReplace mapErase insertAt removeAt getAt setAt)

/-- the fuel of the pointer-following heap functions covers every value of the pure state -/
def Fits (fuel : Nat) (p : PState) : Prop := ∀ r v, p.get r = some v → need v ≤ fuel

theorem need_child (v : V) (s : Step) (c : V) (h : child v s = some c) : need c ≤ need v := by
  cases v <;> cases s <;> simp only [child] at h <;> try (cases h)
  · rename_i vs i
    rw [Value.getAt_eq] at h
    have := need_le_needList vs i c h
    simp only [need]; omega
  · rename_i es nk
    cases hm : mapFind es nk with
    | none => rw [hm] at h; cases h
    | some e =>
      rw [hm] at h
      simp only [Option.map_some, Option.some.injEq] at h
      have hk := Value.mapFind_key es nk e hm
      obtain ⟨k, ko, v⟩ := e
      simp only at hk h
      subst hk; subst h
      have := need_le_needEntries es k ko v hm
      simp only [need]; omega

theorem need_resolve : ∀ (path : List Step) (v c : V), resolve v path = some c → need c ≤ need v := by
  intro path
  induction path with
  | nil => intro v c h; simp only [resolve, Option.some.injEq] at h; subst h; exact Nat.le_refl _
  | cons s path ih =>
    intro v c h
    simp only [resolve] at h
    cases hc : child v s with
    | none => rw [hc] at h; cases h
    | some c1 =>
      rw [hc] at h
      exact Nat.le_trans (ih c1 c h) (need_child v s c1 hc)

theorem Fits.getP {fuel : Nat} {p : PState} (hf : Fits fuel p) {r : Ref} {c : V} (h : getP p r = some c) : need c ≤ fuel := by
  unfold Hist.getP at h
  cases hp : p.get r.root with
  | none => rw [hp] at h; cases h
  | some v =>
    rw [hp] at h
    exact Nat.le_trans (need_resolve r.path v c h) (hf r.root v hp)

/-- heap and pure interpretation agree: both succeed in related states, or both fail -/
def Sim (T : List Nat) (a : Option HState) (b : Option PState) : Prop :=
  (∃ s' p' F', a = some s' ∧ b = some p' ∧ RepS T s' p' F') ∨ (a = none ∧ b = none)

theorem Sim.none {T : List Nat} : Sim T none none := Or.inr ⟨rfl, rfl⟩

theorem Sim.mk {T : List Nat} {s' : HState} {p' : PState} {F' : Root → List Nat} (h : RepS T s' p' F') :
    Sim T (some s') (some p') := Or.inl ⟨s', p', F', rfl, rfl, h⟩

section
variable {T : List Nat} {s : HState} {p : PState} {F : Root → List Nat}

theorem RepS.atNone (inv : RepS T s p F) (r : Ref) (h : getP p r = none) : resolveRef s r = none := by
  have := inv.atRef r
  rw [h] at this
  exact this

/-- a reference to a value object that resolves: the object on the heap -/
theorem RepS.atVal (inv : RepS T s p F) (r : Ref) (hv : r.isVal = true) (c : V) (hget : getP p r = some c) :
    ∃ t hvt Ft, resolveRef s r = some t ∧ getHV s.h t = some hvt ∧ IsValCell (s.h.cell t) ∧ fieldsAt s.h t = some hvt
      ∧ Rep s.h hvt c Ft ∧ t ∉ Ft ∧ (∀ x, x ∈ Ft → x < s.h.next)
      ∧ ∀ h' hvt' c' Ft' Tn, ObjUpd s.h h' t Ft hvt' c' Ft' Tn →
          ∃ p' F', putP p r c' = some p' ∧ RepS (T ++ Tn) ⟨h', s.slot⟩ p' F' := by
  have := inv.atRef r
  rw [hget] at this
  obtain ⟨a, t, hvt, Ft, hs, hres, hg, hrep, htF, htG, hsub, hcons, hnil, hsh, hk⟩ := this
  have hval : IsValCell (s.h.cell t) := by
    by_cases hp : r.path = []
    · rw [hnil hp]
      unfold Ref.isVal at hv
      rw [hp] at hv
      cases hr : r.root with
      | pkt k => rw [hr] at hv; simp at hv
      | val k =>
        rw [hr] at hsh
        cases hc : s.h.cell a with
        | none => rw [hc] at hsh; simp [shellOK] at hsh
        | some c => rw [hc] at hsh; cases c <;> simp_all [shellOK, IsValCell]
    · exact hcons hp
  exact ⟨t, hvt, Ft, hres, hg, hval, by rw [getHV_fieldsAt hval]; exact hg, hrep, htF,
    fun x hx => inv.lt r.root x (hsub x hx), hk⟩

theorem copyOnto_step (inv : RepS T s p F) (fuel : Nat) (hf : Fits fuel p) (src dst : Ref) :
    Sim T (copyOntoH fuel s src dst) (copyOntoP p src dst) := by
  unfold copyOntoH copyOntoP
  by_cases hv : (src.isVal && dst.isVal) = true
  · simp only [hv, if_true]
    simp only [Bool.and_eq_true] at hv
    cases hs : getP p src with
    | none => rw [inv.atNone src hs]; exact Sim.none
    | some sv =>
      obtain ⟨sa, hs', Fs, hres, _, _, hfs, hreps, _, hFs, _⟩ := inv.atVal src hv.1 sv hs
      rw [hres]
      cases hd : getP p dst with
      | none => rw [inv.atNone dst hd]; exact Sim.none
      | some dv =>
        obtain ⟨t, hvt, Ft, hrest, hgt, hvalt, _, hrept, htF, hFt, hk⟩ := inv.atVal dst hv.2 dv hd
        rw [hrest]
        simp only []
        by_cases hta : t = sa
        · -- the same address: the same reference (RepS.resolve_inj)
          have he : src = dst := inv.resolve_inj src dst sv dv hs hd sa hres (hta ▸ hrest)
          simp only [hta, he, if_true]; exact Sim.mk inv
        · have he : ¬ src = dst := fun e => by
            subst e
            rw [hres] at hrest
            exact hta (Option.some.inj hrest).symm
          simp only [hta, he, if_false]
          obtain ⟨h', new, Fn, hop, U, _⟩ := cloneOntoAt_spec s.h inv.wf t hvt dv Ft fuel hgt hvalt hrept htF hFt (hf.getP hd)
            sa hs' sv Fs hfs hreps hFs (hf.getP hs)
          obtain ⟨p', F', hput, inv'⟩ := hk h' new sv Fn [] U
          rw [hop, hput]
          exact Sim.mk (inv'.congrT (fun a => by simp))
  · simp only [hv]
    exact Sim.none

end

/-! ### kinds agree -/

theorem Rep_lst {h : Heap} {hv : HVal} {vs : List V} {F : List Nat} (hr : Rep h hv (.lst vs) F) :
    ∃ elems size, hv = .lst elems size ∧ lstSize elems size = vs.length := by
  simp only [Rep] at hr
  rcases hr with ⟨rfl, n, rfl, _⟩ | ⟨arr, xs, cap, F1, rfl, _, _, hel, _, _⟩
  · exact ⟨none, n, rfl, rfl⟩
  · exact ⟨some arr, xs.length, rfl, RepElems_length h vs xs F1 hel⟩

theorem Rep_not_lst {h : Heap} {hv : HVal} {v : V} {F : List Nat} (hr : Rep h hv v F) (hn : ∀ vs, v ≠ .lst vs)
    (elems : Option Nat) (size : Nat) : hv ≠ .lst elems size := by
  intro e; subst e
  cases v with
  | lst vs => exact hn vs rfl
  | unk => simp [Rep] at hr
  | na => simp [Rep] at hr
  | chr q t => simp [Rep] at hr
  | numb q t neg d su sc =>
    simp only [Rep] at hr
    obtain ⟨a, b, _, _, _, hrest⟩ := hr
    rcases hrest with ⟨_, h1, _⟩ | ⟨_, _, _, _, _, _, h1, _⟩ <;> cases h1
  | tbl es => simp [Rep] at hr

theorem Rep_tbl {h : Heap} {hv : HVal} {es : List (Str × Str × V)} {F : List Nat} (hr : Rep h hv (.tbl es) F) :
    ∃ ents, hv = .tbl ents ∧ RepEntries h ents es F := by
  simpa [Rep] using hr

theorem Rep_not_tbl {h : Heap} {hv : HVal} {v : V} {F : List Nat} (hr : Rep h hv v F) (hn : ∀ es, v ≠ .tbl es)
    (ents : List Nat) : hv ≠ .tbl ents := by
  intro e; subst e
  cases v with
  | tbl es => exact hn es rfl
  | unk => simp [Rep] at hr
  | na => simp [Rep] at hr
  | chr q t => simp [Rep] at hr
  | numb q t neg d su sc =>
    simp only [Rep] at hr
    obtain ⟨a, b, _, _, _, hrest⟩ := hr
    rcases hrest with ⟨_, h1, _⟩ | ⟨_, _, _, _, _, _, h1, _⟩ <;> cases h1
  | lst vs =>
    simp only [Rep] at hr
    rcases hr with ⟨_, n, h1, _⟩ | ⟨_, _, _, _, h1, _⟩ <;> cases h1

theorem isVal_member {r : Ref} (hv : r.isVal = true) (st : Step) : (r.member st).isVal = true := by
  unfold Ref.isVal Ref.member at *
  cases hr : r.root <;> cases hp : r.path <;> simp_all

theorem root_ok_member {r : Ref} (hv : r.root.ok = true) (st : Step) : (r.member st).isVal = true := by
  unfold Ref.isVal Ref.member
  cases hr : r.root <;> cases hp : r.path <;> simp_all

section
variable {s : HState} {p : PState} {F : Root → List Nat}

/-! ### creation and release of whole objects -/

theorem createVal_spec (h : Heap) (hw : h.WF) (kind i : Nat) :
    (defaultOf kind = none ∧ createVal h kind = none)
    ∨ ∃ v a h' G, defaultOf kind = some v ∧ createVal h kind = some (a, h') ∧ h'.WF ∧ h.next ≤ h'.next
        ∧ (∀ x, x < h.next → h'.cell x = h.cell x) ∧ RootRel h' (.val i) a v G
        ∧ (∀ x, x ∈ G → h.next ≤ x ∧ x < h'.next) ∧ (∀ x, h.next ≤ x → x < h'.next → x ∈ G) := by
  unfold createVal
  by_cases h2 : kind = 2
  · subst h2
    refine Or.inr ⟨.lst [], h.next, (alloc h (.val (.lst none 0))).2, [h.next], by simp [defaultOf], by simp [alloc],
      alloc_WF h _ hw, by rw [alloc_next]; omega, fun x hx => alloc_cell_lt h _ x hx, ?_, ?_, ?_⟩
    · exact ⟨.lst none 0, [], by simp [getHV, alloc_cell], by simp [shellOK, alloc_cell], by simp [Rep], by simp, by simp⟩
    · intro x hx; simp at hx; subst hx; rw [alloc_next]; omega
    · intro x h1 h2; rw [alloc_next] at h2; simp; omega
  · by_cases h3 : kind = 3
    · subst h3
      refine Or.inr ⟨.tbl [], h.next, (alloc h (.val (.tbl []))).2, [h.next], by simp [defaultOf], by simp [alloc],
        alloc_WF h _ hw, by rw [alloc_next]; omega, fun x hx => alloc_cell_lt h _ x hx, ?_, ?_, ?_⟩
      · exact ⟨.tbl [], [], by simp [getHV, alloc_cell], by simp [shellOK, alloc_cell], by simp [Rep, RepEntries], by simp, by simp⟩
      · intro x hx; simp at hx; subst hx; rw [alloc_next]; omega
      · intro x h1 h2; rw [alloc_next] at h2; simp; omega
    · simp only [h2, h3, if_false]
      cases hd : defaultOf kind with
      | none => exact Or.inl ⟨rfl, rfl⟩
      | some d =>
        generalize hb : buildNew h d = r
        obtain ⟨c, h1⟩ := r
        obtain ⟨e1, hv, Fn, hc, hrn, hcF, hcl, hcu, hrange, hcover⟩ := buildNew_spec d h hw c h1 hb
        refine Or.inr ⟨d, c, h1, c :: Fn, rfl, by simp [hb], e1.wf, e1.le, e1.frame, ?_, ?_, ?_⟩
        · exact ⟨hv, Fn, by simp [getHV, hc], by simp [shellOK, hc], hrn, hcF, fun x => List.mem_cons⟩
        · intro x hx
          rcases List.mem_cons.mp hx with rfl | hx
          · exact ⟨hcl, hcu⟩
          · exact hrange x hx
        · intro x h1' h2'
          rcases hcover x h1' h2' with hh | hh
          · exact List.mem_cons_of_mem _ hh
          · subst hh; exact List.mem_cons_self

theorem step_new (inv : RepS [] s p F) (fuel i kind : Nat) : Sim [] (stepH? fuel s (.new i kind)) (stepP? p (.new i kind)) := by
  simp only [stepH?, stepP?, ← inv.slot_iff]
  by_cases hc : ((Root.val i).ok && (s.slot (.val i)).isNone) = true
  · simp only [hc, if_true]
    simp only [Bool.and_eq_true, Option.isNone_iff_eq_none] at hc
    rcases createVal_spec s.h inv.wf kind i with ⟨h1, h2⟩ | ⟨v, a, h', G, h1, h2, hw', hle, hfr, hroot, hG, hcov⟩
    · rw [h1, h2]; exact Sim.none
    · rw [h1, h2]
      exact Sim.mk (inv.addRoot (.val i) hc.1 hc.2 h' a v G hw' hle hfr hroot hG
        (fun x hge hl => hcov x hge (isSome_lt hw' hl)))
  · simp only [hc]; exact Sim.none

theorem freeObj_spec (h : Heap) (i a : Nat) (v : V) (G : List Nat) (fuel : Nat) (hroot : RootRel h (.val i) a v G)
    (hfuel : need v ≤ fuel) : ∃ h' G', freeObj fuel h a = some h' ∧ Cleared h h' G' ∧ ∀ x, x ∈ G' ↔ x ∈ G := by
  obtain ⟨hv, F0, hg, hsh, hrep, haF, hG⟩ := hroot
  obtain ⟨h1, hcl, c1⟩ := cleanVal_spec v h hv F0 fuel hrep hfuel
  cases hc : h.cell a with
  | none => rw [hc] at hsh; simp [shellOK] at hsh
  | some c =>
    have hc1 : h1.cell a = some c := by rw [c1.2 a, if_neg haF, hc]
    obtain ⟨h2, hf2, c2⟩ := Cleared.free h1 a c hc1
    refine ⟨h2, F0 ++ [a], ?_, c1.trans c2, fun x => by rw [hG x]; simp [or_comm]⟩
    rw [hc] at hsh
    unfold getHV at hg
    rw [hc] at hg
    cases c <;> simp [shellOK] at hsh
    · simp only [Option.some.injEq] at hg; subst hg
      simp [freeObj, hc, freeVal, Heap.read, hcl, hf2]
    · simp only [Option.some.injEq] at hg; subst hg
      simp [freeObj, hc, freeDetached, Heap.read, hcl, hf2]

theorem step_free (inv : RepS [] s p F) (fuel : Nat) (hf : Fits fuel p) (i : Nat) :
    Sim [] (stepH? fuel s (.free i)) (stepP? p (.free i)) := by
  simp only [stepH?, stepP?]
  cases hs : s.slot (.val i) with
  | none => rw [(inv.emptySlot _ hs).1]; exact Sim.none
  | some a =>
    obtain ⟨v, hp, hroot⟩ := inv.fullSlot _ a hs
    rw [hp]
    obtain ⟨h', G', hop, hcl, hG'⟩ := freeObj_spec s.h i a v (F (.val i)) fuel hroot (hf _ v hp)
    simp only [hop, Option.map_some]
    exact Sim.mk (inv.dropRoot (.val i) h' G' hcl hG')

/-! ### clone -/

theorem cloneNew_step (inv : RepS [] s p F) (fuel : Nat) (hf : Fits fuel p) (src : Ref) (i : Nat) (hv : src.isVal = true)
    (hok : (Root.val i).ok = true) (hempty : s.slot (.val i) = none) :
    Sim [] (match resolveRef s src with
        | some sa => (cloneNewH fuel s.h sa).map (fun r => ({ (setSlot s (.val i) (some r.1)) with h := r.2 } : HState))
        | none => none)
      ((getP p src).map (fun sv => setP p (.val i) (some sv))) := by
  cases hs : getP p src with
  | none => rw [inv.atNone src hs]; exact Sim.none
  | some sv =>
    obtain ⟨sa, hs', Fs, hres, _, _, hfs, hreps, _, hFs, _⟩ := inv.atVal src hv sv hs
    rw [hres]
    have hcn := cloneNewH_build s.h inv.wf sa hs' sv Fs fuel hfs hreps hFs (hf.getP hs)
    generalize hb : buildNew s.h sv = r at hcn
    obtain ⟨c, h1⟩ := r
    obtain ⟨e1, new, Fn, hc, hrn, hcF, hcl, hcu, hrange, hcover⟩ := buildNew_spec sv s.h inv.wf c h1 hb
    simp only [hcn, Option.map_some]
    refine Sim.mk (inv.addRoot (.val i) hok hempty h1 c sv (c :: Fn) e1.wf e1.le e1.frame ?_ ?_ ?_)
    · exact ⟨new, Fn, by simp [getHV, hc], by simp [shellOK, hc], hrn, hcF, fun x => List.mem_cons⟩
    · intro x hx
      rcases List.mem_cons.mp hx with rfl | hx
      · exact ⟨hcl, hcu⟩
      · exact hrange x hx
    · intro x h1' hl
      rcases hcover x h1' (isSome_lt e1.wf hl) with hh | hh
      · exact List.mem_cons_of_mem _ hh
      · subst hh; exact List.mem_cons_self

theorem step_cln (inv : RepS [] s p F) (fuel : Nat) (hf : Fits fuel p) (src dst : Ref) :
    Sim [] (stepH? fuel s (.cln src dst)) (stepP? p (.cln src dst)) := by
  obtain ⟨droot, dpath⟩ := dst
  cases droot with
  | pkt k => simp only [stepH?, stepP?]; exact copyOnto_step inv fuel hf src _
  | val i =>
    cases dpath with
    | cons st rest => simp only [stepH?, stepP?]; exact copyOnto_step inv fuel hf src _
    | nil =>
      simp only [stepH?, stepP?, ← inv.slot_iff]
      by_cases he : (s.slot (.val i)).isNone = true
      · simp only [he, if_true]
        by_cases hc : (src.isVal && (Root.val i).ok) = true
        · simp only [hc, if_true]
          simp only [Bool.and_eq_true] at hc
          exact cloneNew_step inv fuel hf src i hc.1 hc.2 (Option.isNone_iff_eq_none.mp he)
        · simp only [hc]; exact Sim.none
      · simp only [he]
        exact copyOnto_step inv fuel hf src _

/-! ### (re)initialisers -/

theorem step_init (inv : RepS [] s p F) (fuel : Nat) (hf : Fits fuel p) (r : Ref) (kind : Nat) :
    Sim [] (stepH? fuel s (.init r kind)) (stepP? p (.init r kind)) := by
  simp only [stepH?, stepP?]
  by_cases hv : r.isVal = true
  · simp only [hv, if_true]
    cases hg : getP p r with
    | none => rw [inv.atNone r hg]; exact Sim.none
    | some c =>
      obtain ⟨t, hvt, Ft, hres, hgt, hvalt, _, hrept, htF, hFt, hk⟩ := inv.atVal r hv c hg
      rw [hres]
      simp only []
      by_cases h1 : kind = 1
      · subst h1
        simp only [if_true]
        obtain ⟨h', new, Fn, hop, U⟩ := buildOntoAt_spec s.h inv.wf t hvt c Ft fuel hgt hvalt hrept htF hFt (hf.getP hg)
          (.numb false [48] false [0] none 0)
        obtain ⟨p', F', hput, inv'⟩ := hk h' new _ Fn [] U
        rw [hop]
        simp only [Option.map_some]
        have : (defaultOf 1).getD .unk = .numb false [48] false [0] none 0 := by simp [defaultOf]
        rw [this, hput]
        exact Sim.mk (inv'.congrT (fun a => by simp))
      · simp only [h1, if_false]
        obtain ⟨h', new, Fn, hop, U⟩ := cleanInitAt_spec s.h inv.wf t hvt c Ft fuel hgt hvalt hrept htF hFt (hf.getP hg) kind
        obtain ⟨p', F', hput, inv'⟩ := hk h' new _ Fn [] U
        rw [hop, hput]
        exact Sim.mk (inv'.congrT (fun a => by simp))
  · simp only [hv]; exact Sim.none

theorem step_ichr (inv : RepS [] s p F) (fuel : Nat) (hf : Fits fuel p) (r : Ref) (txt : Str) :
    Sim [] (stepH? fuel s (.ichr r txt)) (stepP? p (.ichr r txt)) := by
  simp only [stepH?, stepP?]
  by_cases hv : r.isVal = true
  · simp only [hv, if_true]
    cases hg : getP p r with
    | none => rw [inv.atNone r hg]; exact Sim.none
    | some c =>
      obtain ⟨t, hvt, Ft, hres, hgt, hvalt, _, hrept, htF, hFt, hk⟩ := inv.atVal r hv c hg
      rw [hres]
      simp only []
      obtain ⟨h', new, Fn, hop, U⟩ := buildOntoAt_spec s.h inv.wf t hvt c Ft fuel hgt hvalt hrept htF hFt (hf.getP hg)
        (.chr true txt)
      obtain ⟨p', F', hput, inv'⟩ := hk h' new _ Fn [] U
      rw [hop, hput]
      exact Sim.mk (inv'.congrT (fun a => by simp))
  · simp only [hv]; exact Sim.none

/-- `cif_value_clean` through a reference -/
theorem clean_step {T : List Nat} (inv : RepS T s p F) (fuel : Nat) (hf : Fits fuel p) (r : Ref) (hv : r.isVal = true) :
    Sim T (match resolveRef s r with
        | some t => (installAt fuel s.h t .unk).map (fun h' => ({ s with h := h' } : HState))
        | none => none) (cleanP p r) := by
  unfold cleanP
  cases hg : getP p r with
  | none => rw [inv.atNone r hg]; exact Sim.none
  | some c =>
    obtain ⟨t, hvt, Ft, hres, hgt, hvalt, _, hrept, htF, hFt, hk⟩ := inv.atVal r hv c hg
    rw [hres]
    simp only []
    obtain ⟨h', hop, U, _, _⟩ := cleanAt_spec s.h inv.wf t hvt c Ft fuel hgt hvalt hrept htF hFt (hf.getP hg)
    obtain ⟨p', F', hput, inv'⟩ := hk h' .unk .unk [] [] U
    rw [hop, hput]
    exact Sim.mk (inv'.congrT (fun a => by simp))

theorem setValue_step {T : List Nat} (inv : RepS T s p F) (fuel : Nat) (hf : Fits fuel p) (src : Option Ref) (target : Ref)
    (hv : target.isVal = true) : Sim T (setValueH fuel s src target) (setValueP p src target) := by
  unfold setValueH setValueP
  cases src with
  | none => exact clean_step inv fuel hf _ hv
  | some sr => exact copyOnto_step inv fuel hf sr _

theorem step_lset (inv : RepS [] s p F) (fuel : Nat) (hf : Fits fuel p) (r : Ref) (i : Nat) (src : Option Ref) :
    Sim [] (stepH? fuel s (.lset r i src)) (stepP? p (.lset r i src)) := by
  simp only [stepH?, stepP?]
  by_cases hv : r.isVal = true
  · simp only [hv, if_true]
    cases hg : getP p r with
    | none => rw [inv.atNone r hg]; exact Sim.none
    | some c =>
      obtain ⟨t, hvt, Ft, hres, hgt, hvalt, _, hrept, htF, hFt, hk⟩ := inv.atVal r hv c hg
      rw [hres]
      simp only [hgt]
      by_cases hl : ∃ vs, c = .lst vs
      · obtain ⟨vs, rfl⟩ := hl
        obtain ⟨elems, size, rfl, hsz⟩ := Rep_lst hrept
        simp only [hsz]
        by_cases hi : i < vs.length
        · simp only [hi, if_true]
          exact setValue_step inv fuel hf src _ (isVal_member hv _)
        · simp only [hi]; exact Sim.none
      · have hn : ∀ vs, c ≠ .lst vs := fun vs e => hl ⟨vs, e⟩
        have hn' := Rep_not_lst hrept hn
        cases c <;> first | exact absurd rfl (hn _) | (cases hvt <;> first | exact absurd rfl (hn' _ _) | exact Sim.none)
  · simp only [hv]; exact Sim.none

end

end CifModel.Model.Hist
