import CifModel.Lemmas.ParserBasic
/-
  CifModel.Lemmas.ParserLines — every report the scanner or the productions deliver to the error callback carries a line
  number ≥ the line the scan started on (≥ 1 for a whole parse: INIT_V2_SCANNER sets `line = 1`, HANDLE_EOL only ever
  increments it, and every call site passes `scanner->line` or the literal 1).

  A unary logical relation over the two reporting monads (`L` of Model/Lexer, `P` of Model/Parser): an action keeps the
  log good and establishes a postcondition on its result, whether it completes or aborts.
-/
namespace CifModel.Model.Lexer
open CifModel.Model.Chars

section Lines
variable (n : Nat)

/-- every report so far has line ≥ n -/
def GoodLog (log : List Report) : Prop := ∀ r ∈ log, n ≤ r.line

theorem GoodLog.cons {log : List Report} (h : GoodLog n log) (r : Report) (hr : n ≤ r.line) : GoodLog n (r :: log) := by
  intro x hx
  rcases List.mem_cons.mp hx with h1 | h1
  · subst h1; exact hr
  · exact h x h1

def LInv {α : Type} (post : α → Prop) (m : L α) : Prop :=
  ∀ pol log, GoodLog n log →
    match m pol log with
    | .ok a l => post a ∧ GoodLog n l
    | .abort _ l => GoodLog n l

theorem linv_pure {α : Type} (post : α → Prop) (a : α) (h : post a) : LInv n post (pure a : L α) := by
  intro pol log hl; exact ⟨h, hl⟩

theorem linv_bind {α β : Type} (p1 : α → Prop) (p2 : β → Prop) (m : L α) (k : α → L β)
    (hm : LInv n p1 m) (hk : ∀ a, p1 a → LInv n p2 (k a)) : LInv n p2 (m >>= k) := by
  intro pol log hl
  have h := hm pol log hl
  show match L.bind m k pol log with | .ok a l => p2 a ∧ GoodLog n l | .abort _ l => GoodLog n l
  unfold L.bind
  cases h1 : m pol log with
  | ok a la => rw [h1] at h; exact hk a h.1 pol la h.2
  | abort rv la => rw [h1] at h; exact h

theorem linv_report (code : Code) (line col : Nat) (h : n ≤ line) : LInv n (fun _ => True) (report code line col) := by
  intro pol log hl
  unfold report
  by_cases h0 : pol log.length ⟨code, line, col⟩ = 0
  · simp only [h0, if_true]; exact ⟨trivial, hl.cons n ⟨code, line, col⟩ h⟩
  · simp only [h0, if_false]; exact hl.cons n ⟨code, line, col⟩ h

theorem linv_reportIf (c : Bool) (code : Code) (line col : Nat) (h : n ≤ line) : LInv n (fun _ => True) (reportIf c code line col) := by
  unfold reportIf
  cases c
  · exact linv_pure n _ () trivial
  · exact linv_report n code line col h

theorem linv_seq {β : Type} (p2 : β → Prop) (m : L Unit) (k : L β) (hm : LInv n (fun _ => True) m) (hk : LInv n p2 k) :
    LInv n p2 (m >>= fun _ => k) :=
  linv_bind n _ p2 m _ hm (fun _ _ => hk)

theorem linv_ite {α : Type} (post : α → Prop) (c : Prop) [Decidable c] (a b : L α) (ha : LInv n post a) (hb : LInv n post b) :
    LInv n post (if c then a else b) := by
  by_cases h : c
  · rw [if_pos h]; exact ha
  · rw [if_neg h]; exact hb

theorem linv_scanUChar (dia : Dialect) (line col prev c : Nat) (lead : Bool) (h : n ≤ line) :
    LInv n (fun _ => True) (scanUChar dia line col prev c lead) := by
  unfold scanUChar
  simp only
  split
  · split
    · exact linv_seq n _ _ _ (linv_reportIf n _ _ _ _ h) (linv_pure n _ _ trivial)
    · exact linv_seq n _ _ _ (linv_report n _ _ _ h) (linv_pure n _ _ trivial)
  · refine linv_seq n _ _ _ (linv_reportIf n _ _ _ _ h) ?_
    refine linv_seq n _ _ _ (linv_reportIf n _ _ _ _ h) ?_
    exact linv_seq n _ _ _ (linv_reportIf n _ _ _ _ h) (linv_pure n _ _ trivial)

theorem linv_leadAtEof (dia : Dialect) (line col : Nat) (lead : Bool) (acc : Str) (h : n ≤ line) :
    LInv n (fun _ => True) (leadAtEof dia line col lead acc) := by
  unfold leadAtEof
  exact linv_seq n _ _ _ (linv_reportIf n _ _ _ _ h) (linv_pure n _ _ trivial)

theorem linv_handleEol (line col sol c : Nat) (h : n ≤ line) :
    LInv n (fun a => n ≤ a.1) (handleEol line col sol c) := by
  unfold handleEol
  refine linv_seq n _ _ _ (linv_reportIf n _ _ _ _ h) (linv_pure n _ _ ?_)
  simp only; omega

theorem linv_scanWs (dia : Dialect) : ∀ (inp : Str) (line col sol : Nat), n ≤ line →
    LInv n (fun p => n ≤ p.line) (scanWs dia inp line col sol) := by
  intro inp
  induction inp with
  | nil => intro line col sol h; unfold scanWs; exact linv_pure n _ _ h
  | cons c r ih =>
    intro line col sol h
    unfold scanWs
    split
    · exact ih line (col + 1) 0 h
    · split
      · refine linv_bind n _ _ _ _ (linv_handleEol n line col sol c h) ?_
        intro a ha
        obtain ⟨l, c', s⟩ := a
        exact ih l c' s ha
      · exact linv_pure n _ _ h

theorem linv_scanToWs (dia : Dialect) : ∀ (inp : Str) (line col : Nat) (lead : Bool) (acc : Str), n ≤ line →
    LInv n (fun s => n ≤ s.pos.line) (scanToWs dia inp line col lead acc) := by
  intro inp
  induction inp with
  | nil =>
    intro line col lead acc h; unfold scanToWs
    exact linv_bind n _ _ _ _ (linv_leadAtEof n dia line col lead acc h) (fun _ _ => linv_pure n _ _ h)
  | cons c r ih =>
    intro line col lead acc h
    unfold scanToWs
    refine linv_bind n _ _ _ _ (linv_scanUChar n dia line col _ c lead h) ?_
    intro a _
    simp only
    split
    · exact linv_pure n _ _ h
    · exact ih line a.col a.lead _ h

theorem linv_scanToEol (dia : Dialect) : ∀ (inp : Str) (line col : Nat) (lead : Bool) (acc : Str), n ≤ line →
    LInv n (fun s => n ≤ s.pos.line) (scanToEol dia inp line col lead acc) := by
  intro inp
  induction inp with
  | nil =>
    intro line col lead acc h; unfold scanToEol
    exact linv_bind n _ _ _ _ (linv_leadAtEof n dia line col lead acc h) (fun _ _ => linv_pure n _ _ h)
  | cons c r ih =>
    intro line col lead acc h
    unfold scanToEol
    refine linv_bind n _ _ _ _ (linv_scanUChar n dia line col _ c lead h) ?_
    intro a _
    simp only
    split
    · exact linv_pure n _ _ h
    · exact ih line a.col a.lead _ h

theorem linv_scanUnquoted (dia : Dialect) :
    ∀ (inp : Str) (line col : Nat) (lead : Bool) (acc : Str) (k : Nat) (kd ks : Bool), n ≤ line →
    LInv n (fun s => n ≤ s.pos.line) (scanUnquoted dia inp line col lead acc k kd ks) := by
  intro inp
  induction inp with
  | nil =>
    intro line col lead acc k kd ks h; unfold scanUnquoted
    exact linv_bind n _ _ _ _ (linv_leadAtEof n dia line col lead acc h) (fun _ _ => linv_pure n _ _ h)
  | cons c r ih =>
    intro line col lead acc k kd ks h
    unfold scanUnquoted
    refine linv_bind n _ _ _ _ (linv_scanUChar n dia line col _ c lead h) ?_
    intro a _
    simp only
    split
    · exact ih _ _ _ _ _ _ _ h
    · split
      · exact linv_seq n _ _ _ (linv_report n _ _ _ h) (linv_pure n _ _ h)
      · exact ih _ _ _ _ _ _ _ h
    · split
      · exact linv_pure n _ _ h
      · exact ih _ _ _ _ _ _ _ h
    · split
      · exact linv_pure n _ _ h
      · exact linv_pure n _ _ h
    · exact ih _ _ _ _ _ _ _ h

theorem linv_scanTriple (dia : Dialect) (delim : Nat) :
    ∀ (inp : Str) (line col : Nat) (lead : Bool) (acc : Str) (dc sol : Nat), n ≤ line →
    LInv n (fun s => n ≤ s.pos.line) (scanTriple dia delim inp line col lead acc dc sol) := by
  intro inp
  induction inp with
  | nil =>
    intro line col lead acc dc sol h; unfold scanTriple
    refine linv_bind n _ _ _ _ (linv_leadAtEof n dia line col lead acc h) ?_
    intro _ _
    exact linv_seq n _ _ _ (linv_report n _ _ _ h) (linv_pure n _ _ h)
  | cons c r ih =>
    intro line col lead acc dc sol h
    unfold scanTriple
    refine linv_bind n _ _ _ _ (linv_scanUChar n dia line col _ c lead h) ?_
    intro a _
    simp only
    split
    · split
      · exact linv_pure n _ _ h
      · exact ih _ _ _ _ _ _ h
    · split
      · refine linv_bind n _ _ _ _ (linv_handleEol n line _ sol a.c h) ?_
        intro x hx
        obtain ⟨l, c', s⟩ := x
        exact ih l c' _ _ _ s hx
      · exact ih _ _ _ _ _ _ h

theorem linv_scanDelim (dia : Dialect) (delim : Nat) :
    ∀ (inp : Str) (line col : Nat) (lead : Bool) (acc : Str) (first : Bool), n ≤ line →
    LInv n (fun s => n ≤ s.pos.line) (scanDelim dia delim inp line col lead acc first) := by
  intro inp
  induction inp with
  | nil =>
    intro line col lead acc first h; unfold scanDelim
    refine linv_bind n _ _ _ _ (linv_leadAtEof n dia line col lead acc h) ?_
    intro _ _
    exact linv_seq n _ _ _ (linv_report n _ _ _ h) (linv_pure n _ _ h)
  | cons c r ih =>
    intro line col lead acc first h
    unfold scanDelim
    refine linv_bind n _ _ _ _ (linv_scanUChar n dia line col _ c lead h) ?_
    intro a _
    simp only
    split
    · split
      · exact linv_pure n _ _ h
      · split
        · split
          · exact ih _ _ _ _ _ h
          · exact linv_pure n _ _ h
        · split
          · exact linv_scanTriple n dia delim _ _ _ _ _ _ _ h
          · exact linv_pure n _ _ h
    · split
      · exact linv_seq n _ _ _ (linv_report n _ _ _ h) (linv_pure n _ _ h)
      · exact ih _ _ _ _ _ h

theorem linv_scanText (dia : Dialect) :
    ∀ (inp : Str) (line col : Nat) (lead : Bool) (acc : Str) (sol : Nat), n ≤ line →
    LInv n (fun s => n ≤ s.pos.line) (scanText dia inp line col lead acc sol) := by
  intro inp
  induction inp with
  | nil =>
    intro line col lead acc sol h; unfold scanText
    refine linv_bind n _ _ _ _ (linv_leadAtEof n dia line col lead acc h) ?_
    intro _ _
    exact linv_seq n _ _ _ (linv_report n _ _ _ h) (linv_pure n _ _ h)
  | cons c r ih =>
    intro line col lead acc sol h
    unfold scanText
    refine linv_bind n _ _ _ _ (linv_scanUChar n dia line col _ c lead h) ?_
    intro a _
    simp only
    split
    · split
      · exact linv_pure n _ _ h
      · exact ih _ _ _ _ _ h
    · split
      · refine linv_bind n _ _ _ _ (linv_handleEol n line _ sol a.c h) ?_
        intro x hx
        obtain ⟨l, c', s⟩ := x
        exact ih l c' _ _ s hx
      · exact ih _ _ _ _ _ h

/-- the lines a step mentions -/
def Step.linesGe : Step → Prop
  | .tok t p => n ≤ t.line ∧ n ≤ p.line
  | .skip _ p => n ≤ p.line

theorem mkTok_lines (ty : TokType) (text : Str) (p : Pos) (h : n ≤ p.line) : Step.linesGe n (mkTok ty text p) := ⟨h, h⟩

theorem keyPeek_lines (a b : TokType) (text : Str) (p : Pos) (h : n ≤ p.line) : Step.linesGe n (keyPeek a b text p) := by
  obtain ⟨rest, line, col⟩ := p
  cases rest with
  | nil => exact ⟨h, h⟩
  | cons c r =>
    simp only [keyPeek]
    split <;> exact ⟨h, h⟩

theorem linv_finishUnquoted (dia : Dialect) (aw : Bool) (t : Str) (p : Pos) (h : n ≤ p.line) :
    LInv n (Step.linesGe n) (finishUnquoted dia aw t p) := by
  unfold finishUnquoted
  split
  · exact linv_pure n _ _ (mkTok_lines n _ _ _ h)
  · exact linv_pure n _ _ (mkTok_lines n _ _ _ h)
  · exact linv_pure n _ _ (mkTok_lines n _ _ _ h)
  · exact linv_pure n _ _ (mkTok_lines n _ _ _ h)
  · exact linv_pure n _ _ (mkTok_lines n _ _ _ h)
  · exact linv_seq n _ _ _ (linv_report n _ _ _ h) (linv_pure n _ _ h)

theorem linv_stepTok (dia : Dialect) (aw : Bool) (c : Nat) (r : Str) (line col : Nat) (h : n ≤ line) :
    LInv n (Step.linesGe n) (stepTok dia aw c r line col) := by
  unfold stepTok
  refine linv_seq n _ _ _ (linv_reportIf n _ _ _ _ h) ?_
  refine linv_ite n _ _ _ _ ?_ ?_
  · exact linv_bind n _ _ _ _ (linv_scanWs n dia _ line _ 0 h) (fun a ha => linv_pure n _ _ ha)
  refine linv_ite n _ _ _ _ ?_ ?_
  · exact linv_bind n _ _ _ _ (linv_scanWs n dia _ line _ 0 h) (fun a ha => linv_pure n _ _ ha)
  refine linv_ite n _ _ _ _ ?_ ?_
  · exact linv_bind n _ _ _ _ (linv_scanToEol n dia _ line _ _ _ h) (fun a ha => linv_pure n _ _ ha)
  refine linv_ite n _ _ _ _ ?_ ?_
  · exact linv_bind n _ _ _ _ (linv_scanToWs n dia _ line _ _ _ h) (fun a ha => linv_pure n _ _ (mkTok_lines n _ _ _ ha))
  refine linv_ite n _ _ _ _ (linv_pure n _ _ ⟨h, h⟩) ?_
  refine linv_ite n _ _ _ _ (linv_pure n _ _ ⟨h, h⟩) ?_
  refine linv_ite n _ _ _ _ (linv_pure n _ _ ⟨h, h⟩) ?_
  refine linv_ite n _ _ _ _ (linv_pure n _ _ ⟨h, h⟩) ?_
  refine linv_ite n _ _ _ _ ?_ ?_
  · exact linv_bind n _ _ _ _ (linv_scanDelim n dia c _ line _ _ _ _ h) (fun a ha => linv_pure n _ _ (keyPeek_lines n _ _ _ _ ha))
  refine linv_ite n _ _ _ _ ?_ ?_
  · refine linv_ite n _ _ _ _ ?_ ?_
    · refine linv_bind n _ _ _ _ (linv_scanText n dia _ line _ _ _ _ h) ?_
      intro a ha
      refine linv_ite n _ _ _ _ ?_ ?_
      · exact linv_pure n _ _ (keyPeek_lines n _ _ _ _ ha)
      · exact linv_pure n _ _ (mkTok_lines n _ _ _ ha)
    · exact linv_bind n _ _ _ _ (linv_scanUnquoted n dia _ line _ _ _ _ _ _ h) (fun a ha => linv_finishUnquoted n dia aw _ _ ha)
  · exact linv_bind n _ _ _ _ (linv_scanUnquoted n dia _ line _ _ _ _ _ _ h) (fun a ha => linv_finishUnquoted n dia aw _ _ ha)

theorem linv_tokLoop (dia : Dialect) : ∀ (fuel : Nat) (aw : Bool) (p : Pos), n ≤ p.line →
    LInv n (fun a => n ≤ a.1.line ∧ n ≤ a.2.line) (tokLoop dia fuel aw p) := by
  intro fuel
  induction fuel with
  | zero => intro aw p h; unfold tokLoop; exact linv_pure n _ _ ⟨h, h⟩
  | succ f ih =>
    intro aw p h
    obtain ⟨rest, line, col⟩ := p
    cases rest with
    | nil => unfold tokLoop; exact linv_pure n _ _ ⟨h, h⟩
    | cons c r =>
      unfold tokLoop
      refine linv_bind n _ _ _ _ (linv_stepTok n dia aw c r line col h) ?_
      intro a ha
      cases a with
      | tok t p' => exact linv_pure n _ _ ha
      | skip aw' p' => exact ih aw' p' ha

/-- next_token: from a scanner on line ≥ n, every new report has line ≥ n, and so have the token and the new state -/
theorem linv_nextToken (dia : Dialect) (s : Scan) (h : n ≤ s.line) :
    LInv n (fun a => n ≤ a.1.line ∧ n ≤ a.2.line) (nextToken dia s) := by
  unfold nextToken
  refine linv_bind n _ _ _ _ (linv_tokLoop n dia (s.rest.length + 1) (afterWsOf s.lastType) ⟨s.rest, s.line, s.col⟩ h) ?_
  intro a ha
  obtain ⟨t, p⟩ := a
  exact linv_pure n _ _ ha

end Lines
end CifModel.Model.Lexer

namespace CifModel.Model.Parser
open CifModel CifModel.Model CifModel.Model.Lexer
open CifModel.Gen.ErrCodes

section Lines
variable (n : Nat)

def PInv {α : Type} (post : α → Prop) (m : P α) : Prop :=
  ∀ pol w, GoodLog n w.log →
    match m pol w with
    | .ok a w' => post a ∧ GoodLog n w'.log
    | .abort _ w' => GoodLog n w'.log

/-- the scanner state the productions hold is on a line ≥ n -/
def okPS (s : PS) : Prop := n ≤ s.scan.line

theorem pinv_pure {α : Type} (post : α → Prop) (a : α) (h : post a) : PInv n post (P.pure a) := by
  intro pol w hl; exact ⟨h, hl⟩

theorem pinv_fail {α : Type} (post : α → Prop) (code : Int) : PInv n post (Parser.fail code : P α) := by
  intro pol w hl; exact hl

theorem pinv_bind {α β : Type} (p1 : α → Prop) (p2 : β → Prop) (m : P α) (k : α → P β)
    (hm : PInv n p1 m) (hk : ∀ a, p1 a → PInv n p2 (k a)) : PInv n p2 (P.bind m k) := by
  intro pol w hl
  have h := hm pol w hl
  unfold P.bind
  cases h1 : m pol w with
  | ok a wa => rw [h1] at h; exact hk a h.1 pol wa h.2
  | abort rv wa => rw [h1] at h; exact h

theorem pinv_weaken {α : Type} (p1 p2 : α → Prop) (m : P α) (hm : PInv n p1 m) (h : ∀ a, p1 a → p2 a) : PInv n p2 m := by
  intro pol w hl
  have := hm pol w hl
  cases h1 : m pol w with
  | ok a wa => rw [h1] at this; exact ⟨h a this.1, this.2⟩
  | abort rv wa => rw [h1] at this; exact this

theorem pinv_liftL {α : Type} (post : α → Prop) (m : L α) (hm : LInv n post m) : PInv n post (liftL m) := by
  intro pol w hl
  have h := hm pol w.log hl
  unfold liftL
  cases h1 : m pol w.log with
  | ok a l => rw [h1] at h; exact h
  | abort rv l => rw [h1] at h; exact h

theorem pinv_ask (code : Code) (line col : Nat) (h : n ≤ line) : PInv n (fun _ => True) (ask code line col) := by
  intro pol w hl
  exact ⟨trivial, hl.cons n ⟨code, line, col⟩ h⟩

theorem pinv_report (code : Code) (line col : Nat) (h : n ≤ line) : PInv n (fun _ => True) (report code line col) := by
  unfold report
  refine pinv_bind n _ _ _ _ (pinv_ask n code line col h) ?_
  intro rv _
  by_cases h0 : rv = 0
  · rw [if_pos h0]; exact pinv_pure n _ _ trivial
  · rw [if_neg h0]; exact pinv_fail n _ _

theorem pinv_getCif : PInv n (fun _ => True) getCif := by
  intro pol w hl; exact ⟨trivial, hl⟩

theorem pinv_setCif (c : Cif) : PInv n (fun _ => True) (setCif c) := by
  intro pol w hl; exact ⟨trivial, hl⟩

theorem pinv_ite {α : Type} (post : α → Prop) (c : Prop) [Decidable c] (a b : P α) (ha : PInv n post a) (hb : PInv n post b) :
    PInv n post (if c then a else b) := by
  by_cases h : c
  · rw [if_pos h]; exact ha
  · rw [if_neg h]; exact hb

theorem pinv_clamp (m : P Unit) (hm : PInv n (fun _ => True) m) : PInv n (fun _ => True) (clamp m) := by
  intro pol w hl
  have h := hm pol w hl
  unfold clamp
  cases h1 : m pol w with
  | ok a wa => rw [h1] at h; exact h
  | abort rv wa =>
    rw [h1] at h
    simp only at h ⊢
    by_cases hp : rv > 0
    · rw [if_pos hp]; exact h
    · rw [if_neg hp]; exact ⟨trivial, h⟩

theorem pinv_nextTok (o : Opts) (s : PS) (h : okPS n s) : PInv n (fun r => okPS n r.2) (nextTok o s) := by
  unfold nextTok
  split
  · exact pinv_pure n _ _ h
  · refine pinv_bind n _ _ _ _ (pinv_liftL n _ _ (linv_nextToken n o.dia s.scan h)) ?_
    intro a ha
    exact pinv_pure n _ _ ha.2

attribute [local irreducible] parseValue listLoop tableLoop tableEntry nextTok P.bind P.pure report Parser.fail
  headerLoop packetsLoop parseContainer elemsLoop blocksLoop getCif setCif PInv

/-- `pinvq (n) [h₁, …]`: decompose a production along its binds, branches and matches, closing the leaves with the
    combinators and the given facts -/
syntax "pinvq" "(" term ")" "[" term,* "]" : tactic
macro_rules
  | `(tactic| pinvq ($n) [$hs,*]) => `(tactic| repeat (first
      | (refine pinv_pure _ (fun (r : _ × PS) => okPS $n r.2) _ ?_; assumption)
      | (refine pinv_pure _ (okPS $n) _ ?_; assumption)
      | (refine pinv_pure _ _ _ ?_; first | trivial | assumption)
      | exact pinv_fail _ _ _
      | exact pinv_fail _ (fun _ => True) _
      | exact pinv_pure _ (fun _ => True) _ trivial
      | exact pinv_getCif _
      | exact pinv_setCif _ _
      | (refine pinv_report _ _ _ _ ?_; first | assumption | exact Nat.le_refl _)
      | (first $[| (apply $hs <;> assumption)]*)
      | apply pinv_bind _
      | apply pinv_ite _
      | intro _
      | split))

theorem pinv_values (o : Opts) : ∀ fuel : Nat,
    (∀ s, okPS n s → PInv n (fun r => okPS n r.2) (parseValue o fuel s)) ∧
    (∀ s acc, okPS n s → PInv n (fun r => okPS n r.2) (listLoop o fuel s acc)) ∧
    (∀ s acc, okPS n s → PInv n (fun r => okPS n r.2) (tableLoop o fuel s acc)) ∧
    (∀ s acc key, okPS n s → PInv n (fun r => okPS n r.2) (tableEntry o fuel s acc key)) := by
  intro fuel
  induction fuel with
  | zero =>
    refine ⟨?_, ?_, ?_, ?_⟩ <;> intros
    · rw [parseValue]; exact pinv_fail n _ _
    · rw [listLoop]; exact pinv_fail n _ _
    · rw [tableLoop]; exact pinv_fail n _ _
    · rename_i key _; cases key <;> rw [tableEntry] <;> exact pinv_fail n _ _
  | succ fuel ih =>
    obtain ⟨hv, hl, ht, he⟩ := ih
    have hn := pinv_nextTok n o
    refine ⟨?_, ?_, ?_, ?_⟩
    · intro s hs
      rw [parseValue]
      simp only [bind_eq, pure_eq, pushColon, trimTok]
      pinvq (n) [hv, hl, ht, he, hn]
    · intro s acc hs
      rw [listLoop]
      simp only [bind_eq, pure_eq, pushColon, trimTok]
      pinvq (n) [hv, hl, ht, he, hn]
    · intro s acc hs
      rw [tableLoop]
      simp only [bind_eq, pure_eq, pushColon, trimTok]
      pinvq (n) [hv, hl, ht, he, hn]
    · intro s acc key hs
      cases key <;> rw [tableEntry] <;> simp only [bind_eq, pure_eq] <;> pinvq (n) [hv, hl, ht, he, hn]

theorem pinv_parseValue (o : Opts) (fuel : Nat) (s : PS) (h : okPS n s) : PInv n (fun r => okPS n r.2) (parseValue o fuel s) :=
  (pinv_values n o fuel).1 s h

theorem pinv_setValue (o : Opts) (path : Path) (name : Str) (v : V) : PInv n (fun _ => True) (setValue o path name v) := by
  unfold setValue
  simp only [bind_eq, pure_eq]
  pinvq (n) []

theorem pinv_itemExists (o : Opts) (path : Path) (name : Str) : PInv n (fun _ => True) (itemExists o path name) := by
  unfold itemExists
  simp only [bind_eq, pure_eq]
  pinvq (n) []

theorem pinv_parseItem (o : Opts) (fuel : Nat) (s : PS) (cont : Option Path) (name : Option Str) (h : okPS n s) :
    PInv n (okPS n) (parseItem o fuel s cont name) := by
  unfold parseItem
  simp only [bind_eq, pure_eq, pushColon]
  have hn := pinv_nextTok n o
  have hv := pinv_parseValue n o
  have hs := pinv_setValue n o
  pinvq (n) [hn, hv, hs]

theorem pinv_headerLoop (o : Opts) (cont : Option Path) : ∀ (fuel : Nat) (s : PS) (slots : List (Option Str)), okPS n s →
    PInv n (fun r => okPS n r.2) (headerLoop o cont fuel s slots) := by
  intro fuel
  induction fuel with
  | zero => intro s slots _; rw [headerLoop]; exact pinv_fail n _ _
  | succ fuel ih =>
    intro s slots hs
    rw [headerLoop]
    simp only [bind_eq, pure_eq]
    have hn := pinv_nextTok n o
    have hi := pinv_itemExists n o
    pinvq (n) [hn, hi, ih]

theorem pinv_addPacket (o : Opts) (loopAt : Option Path) (p : List V) : PInv n (fun _ => True) (addPacket o loopAt p) := by
  unfold addPacket
  simp only [bind_eq, pure_eq]
  pinvq (n) []

theorem pinv_packetsLoop (o : Opts) (loopAt : Option Path) (slots : List (Option Str)) : ∀ (fuel : Nat) (s : PS) (k : Pk),
    okPS n s → PInv n (okPS n) (packetsLoop o loopAt slots fuel s k) := by
  intro fuel
  induction fuel with
  | zero => intro s k _; rw [packetsLoop]; exact pinv_fail n _ _
  | succ fuel ih =>
    intro s k hs
    rw [packetsLoop]
    simp only [bind_eq, pure_eq, pushColon]
    have hn := pinv_nextTok n o
    have hv := pinv_parseValue n o
    have ha := pinv_addPacket n o
    pinvq (n) [hn, hv, ha, ih]

theorem pinv_parseLoop (o : Opts) (fuel : Nat) (s : PS) (cont : Option Path) (h : okPS n s) :
    PInv n (okPS n) (parseLoop o fuel s cont) := by
  unfold parseLoop
  simp only [bind_eq, pure_eq]
  have hh := pinv_headerLoop n o
  have hp := pinv_packetsLoop n o
  pinvq (n) [hh, hp]

theorem pinv_createIn (o : Opts) (isBlock : Bool) (parent : Path) (code : Str) (line col : Nat) (h : n ≤ line) :
    PInv n (fun _ => True) (createIn o isBlock parent code line col) := by
  unfold createIn
  simp only [bind_eq, pure_eq]
  pinvq (n) []

theorem pinv_containers (o : Opts) : ∀ fuel : Nat,
    (∀ s cont isBlock, okPS n s → PInv n (okPS n) (parseContainer o fuel s cont isBlock)) ∧
    (∀ s cont isBlock, okPS n s → PInv n (okPS n) (elemsLoop o fuel s cont isBlock)) := by
  intro fuel
  induction fuel with
  | zero =>
    refine ⟨?_, ?_⟩ <;> intros
    · rw [parseContainer]; exact pinv_fail n _ _
    · rw [elemsLoop]; exact pinv_fail n _ _
  | succ fuel ih =>
    obtain ⟨hc, he⟩ := ih
    have hn := pinv_nextTok n o
    have hi := pinv_itemExists n o
    have hp := pinv_parseItem n o
    have hl := pinv_parseLoop n o
    have hcr := pinv_createIn n o
    refine ⟨?_, ?_⟩
    · intro s cont isBlock hs
      rw [parseContainer]
      simp only [bind_eq, pure_eq]
      pinvq (n) [hc, he]
    · intro s cont isBlock hs
      rw [elemsLoop]
      simp only [bind_eq, pure_eq, pushColon]
      pinvq (n) [hc, he, hn, hi, hp, hl, hcr]

theorem pinv_blocksLoop (o : Opts) : ∀ (fuel : Nat) (s : PS), okPS n s → PInv n (okPS n) (blocksLoop o fuel s) := by
  intro fuel
  induction fuel with
  | zero => intro s _; rw [blocksLoop]; exact pinv_fail n _ _
  | succ fuel ih =>
    intro s hs
    rw [blocksLoop]
    simp only [bind_eq, pure_eq]
    have hn := pinv_nextTok n o
    have hc := fun f => (pinv_containers n o f).1
    have hcr := pinv_createIn n o
    pinvq (n) [hn, hc, hcr, ih]

theorem pinv_parseCif (o : Opts) (fuel : Nat) (s : PS) (h : okPS n s) : PInv n (fun _ => True) (parseCif o fuel s) := by
  unfold parseCif
  refine pinv_clamp n _ ?_
  simp only [bind_eq, pure_eq]
  have hb := pinv_blocksLoop n o
  pinvq (n) [hb]

end Lines

theorem pinv_afterFirst (o : Opts) (fuel : Nat) (c : CU) (rest : Str) : PInv 1 (fun _ => True) (afterFirst o fuel c rest) := by
  unfold afterFirst
  simp only [bind_eq, pure_eq]
  have hp : ∀ inp, PInv 1 (fun _ => True) (parseCif o fuel { scan := Scan.init inp, tok := none }) :=
    fun inp => pinv_parseCif 1 o fuel _ (Nat.le_refl _)
  pinvq (1) [hp]

/-- **every report of a whole parse has line ≥ 1** -/
theorem parseInternal_lines (o : Opts) (fuel : Nat) (units : Str) : PInv 1 (fun _ => True) (parseInternal o fuel units) := by
  unfold parseInternal
  cases units with
  | nil => exact pinv_pure 1 _ _ trivial
  | cons c rest =>
    simp only
    refine pinv_bind 1 (fun _ => True) _ _ _ ?_ ?_
    · refine pinv_ite 1 _ _ _ _ ?_ ?_
      · exact pinv_ask 1 _ _ _ (Nat.le_refl _)
      · exact pinv_pure 1 _ _ trivial
    · intro rv _
      refine pinv_ite 1 _ _ _ _ (pinv_pure 1 _ _ trivial) ?_
      refine pinv_ite 1 _ _ _ _ (pinv_fail 1 _ _) ?_
      exact pinv_afterFirst o fuel c rest

end CifModel.Model.Parser
