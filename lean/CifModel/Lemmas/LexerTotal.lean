import CifModel.Lemmas.LexerTok
/-
  Lemmas/LexerTotal — progress and fuel: every scan function returns a remaining input that is no longer than what it
  was given; every iteration of next_token's loop consumes at least one unit; the loop's result does not depend on the
  fuel once the fuel exceeds the remaining length.  For every callback policy.
-/
namespace CifModel.Model.Lexer
open CifModel CifModel.Model.Chars

theorem L.bind_ok_inv {α β} {m : L α} {f : α → L β} {pol : Policy} {log log' : List Report} {b : β}
    (h : L.bind m f pol log = .ok b log') : ∃ a l1, m pol log = .ok a l1 ∧ f a pol l1 = .ok b log' := by
  unfold L.bind at h
  cases hm : m pol log with
  | ok a l1 => rw [hm] at h; exact ⟨a, l1, rfl, h⟩
  | abort rv l1 => rw [hm] at h; cases h

theorem L.pure_ok_inv {α} {a b : α} {pol : Policy} {log log' : List Report} (h : L.pure a pol log = .ok b log') :
    a = b ∧ log = log' := by
  simp only [L.pure_apply, Res.ok.injEq] at h; exact h

theorem scanWs_len (dia : Dialect) : ∀ (inp : Str) (line col sol : Nat) (pol : Policy) (log log' : List Report) (p : Pos),
    scanWs dia inp line col sol pol log = .ok p log' → p.rest.length ≤ inp.length := by
  intro inp
  induction inp with
  | nil =>
    intro line col sol pol log log' p h
    simp only [scanWs, pure_eq] at h
    obtain ⟨h, _⟩ := L.pure_ok_inv h
    subst h; simp
  | cons c r ih =>
    intro line col sol pol log log' p h
    simp only [scanWs, bind_eq, pure_eq] at h
    split at h
    · have := ih _ _ _ _ _ _ _ h
      simp only [List.length_cons]; omega
    · split at h
      · obtain ⟨a, l1, _, h2⟩ := L.bind_ok_inv h
        have := ih _ _ _ _ _ _ _ h2
        simp only [List.length_cons]; omega
      · obtain ⟨h, _⟩ := L.pure_ok_inv h
        subst h; simp

/-- a whitespace run that starts with a whitespace unit consumes that unit -/
theorem scanWs_len_lt (dia : Dialect) (c : Nat) (r : Str) (hc : classOf dia c = .ws ∨ classOf dia c = .eol)
    (line col sol : Nat) (pol : Policy) (log log' : List Report) (p : Pos)
    (h : scanWs dia (c :: r) line col sol pol log = .ok p log') : p.rest.length ≤ r.length := by
  simp only [scanWs, bind_eq, pure_eq] at h
  split at h
  · exact scanWs_len dia _ _ _ _ _ _ _ _ h
  · split at h
    · obtain ⟨a, l1, _, h2⟩ := L.bind_ok_inv h
      exact scanWs_len dia _ _ _ _ _ _ _ _ h2
    · rcases hc with hc | hc <;> contradiction

theorem leadAtEof_ok_inv {dia : Dialect} {line col : Nat} {lead : Bool} {acc a : Str} {pol : Policy} {log log' : List Report}
    (h : leadAtEof dia line col lead acc pol log = .ok a log') : a = fixAcc dia lead acc := by
  simp only [leadAtEof, bind_eq, pure_eq] at h
  obtain ⟨_, l1, _, h2⟩ := L.bind_ok_inv h
  exact (L.pure_ok_inv h2).1.symm

theorem scanToWs_len (dia : Dialect) : ∀ (inp : Str) (line col : Nat) (lead : Bool) (acc : Str) (pol : Policy)
    (log log' : List Report) (s : Scanned),
    scanToWs dia inp line col lead acc pol log = .ok s log' → s.pos.rest.length ≤ inp.length := by
  intro inp
  induction inp with
  | nil =>
    intro line col lead acc pol log log' s h
    simp only [scanToWs, bind_eq, pure_eq] at h
    obtain ⟨a, l1, _, h2⟩ := L.bind_ok_inv h
    obtain ⟨h2, _⟩ := L.pure_ok_inv h2
    subst h2; simp
  | cons c r ih =>
    intro line col lead acc pol log log' s h
    simp only [scanToWs, bind_eq, pure_eq] at h
    obtain ⟨u, l1, _, h2⟩ := L.bind_ok_inv h
    split at h2
    · obtain ⟨h2, _⟩ := L.pure_ok_inv h2
      subst h2; simp
    · have := ih _ _ _ _ _ _ _ _ h2
      simp only [List.length_cons]; omega

theorem scanToEol_len (dia : Dialect) : ∀ (inp : Str) (line col : Nat) (lead : Bool) (acc : Str) (pol : Policy)
    (log log' : List Report) (s : Scanned),
    scanToEol dia inp line col lead acc pol log = .ok s log' → s.pos.rest.length ≤ inp.length := by
  intro inp
  induction inp with
  | nil =>
    intro line col lead acc pol log log' s h
    simp only [scanToEol, bind_eq, pure_eq] at h
    obtain ⟨a, l1, _, h2⟩ := L.bind_ok_inv h
    obtain ⟨h2, _⟩ := L.pure_ok_inv h2
    subst h2; simp
  | cons c r ih =>
    intro line col lead acc pol log log' s h
    simp only [scanToEol, bind_eq, pure_eq] at h
    obtain ⟨u, l1, _, h2⟩ := L.bind_ok_inv h
    split at h2
    · obtain ⟨h2, _⟩ := L.pure_ok_inv h2
      subst h2; simp
    · have := ih _ _ _ _ _ _ _ _ h2
      simp only [List.length_cons]; omega

theorem scanUnquoted_len (dia : Dialect) : ∀ (inp : Str) (line col : Nat) (lead : Bool) (acc : Str) (k : Nat) (kd ks : Bool)
    (pol : Policy) (log log' : List Report) (s : Scanned),
    scanUnquoted dia inp line col lead acc k kd ks pol log = .ok s log' → s.pos.rest.length ≤ inp.length := by
  intro inp
  induction inp with
  | nil =>
    intro line col lead acc k kd ks pol log log' s h
    simp only [scanUnquoted, bind_eq, pure_eq] at h
    obtain ⟨a, l1, _, h2⟩ := L.bind_ok_inv h
    obtain ⟨h2, _⟩ := L.pure_ok_inv h2
    subst h2; simp
  | cons c r ih =>
    intro line col lead acc k kd ks pol log log' s h
    simp only [scanUnquoted, bind_eq, pure_eq] at h
    obtain ⟨u, l1, _, h2⟩ := L.bind_ok_inv h
    have hrec : ∀ {line col lead acc k kd ks l1}, scanUnquoted dia r line col lead acc k kd ks pol l1 = .ok s log' →
        s.pos.rest.length ≤ (c :: r).length := by
      intro line col lead acc k kd ks l1 h
      have := ih _ _ _ _ _ _ _ _ _ _ _ h
      simp only [List.length_cons]; omega
    cases hm : metaOfCls (classOf dia u.c) with
    | no => simp only [hm] at h2; exact hrec h2
    | general => simp only [hm] at h2; exact hrec h2
    | ws =>
      simp only [hm] at h2
      split at h2 <;> (obtain ⟨h3, _⟩ := L.pure_ok_inv h2; subst h3; simp)
    | open_ =>
      simp only [hm] at h2
      split at h2
      · obtain ⟨_, l2, _, h3⟩ := L.bind_ok_inv h2
        obtain ⟨h3, _⟩ := L.pure_ok_inv h3
        subst h3; simp
      · exact hrec h2
    | close =>
      simp only [hm] at h2
      split at h2
      · obtain ⟨h3, _⟩ := L.pure_ok_inv h2
        subst h3; simp
      · exact hrec h2


theorem scanTriple_len (dia : Dialect) (delim : Nat) : ∀ (inp : Str) (line col : Nat) (lead : Bool) (acc : Str) (dc sol : Nat)
    (pol : Policy) (log log' : List Report) (s : Scanned),
    scanTriple dia delim inp line col lead acc dc sol pol log = .ok s log' → s.pos.rest.length ≤ inp.length := by
  intro inp
  induction inp with
  | nil =>
    intro line col lead acc dc sol pol log log' s h
    simp only [scanTriple, bind_eq, pure_eq] at h
    obtain ⟨a, l1, _, h2⟩ := L.bind_ok_inv h
    obtain ⟨_, l2, _, h3⟩ := L.bind_ok_inv h2
    obtain ⟨h3, _⟩ := L.pure_ok_inv h3
    subst h3; simp
  | cons c r ih =>
    intro line col lead acc dc sol pol log log' s h
    have hrec : ∀ {line col lead acc dc sol l1}, scanTriple dia delim r line col lead acc dc sol pol l1 = .ok s log' →
        s.pos.rest.length ≤ (c :: r).length := by
      intro line col lead acc dc sol l1 h
      have := ih _ _ _ _ _ _ _ _ _ _ h
      simp only [List.length_cons]; omega
    simp only [scanTriple, bind_eq, pure_eq] at h
    obtain ⟨u, l1, _, h2⟩ := L.bind_ok_inv h
    split at h2
    · split at h2
      · obtain ⟨h3, _⟩ := L.pure_ok_inv h2
        subst h3; simp
      · exact hrec h2
    · split at h2
      · obtain ⟨_, l2, _, h3⟩ := L.bind_ok_inv h2
        exact hrec h3
      · exact hrec h2

theorem scanDelim_len (dia : Dialect) (delim : Nat) : ∀ (inp : Str) (line col : Nat) (lead : Bool) (acc : Str) (first : Bool)
    (pol : Policy) (log log' : List Report) (s : Scanned),
    scanDelim dia delim inp line col lead acc first pol log = .ok s log' → s.pos.rest.length ≤ inp.length := by
  intro inp
  induction inp with
  | nil =>
    intro line col lead acc first pol log log' s h
    simp only [scanDelim, bind_eq, pure_eq] at h
    obtain ⟨a, l1, _, h2⟩ := L.bind_ok_inv h
    obtain ⟨_, l2, _, h3⟩ := L.bind_ok_inv h2
    obtain ⟨h3, _⟩ := L.pure_ok_inv h3
    subst h3; simp
  | cons c r ih =>
    intro line col lead acc first pol log log' s h
    have hrec : ∀ {line col lead acc first l1}, scanDelim dia delim r line col lead acc first pol l1 = .ok s log' →
        s.pos.rest.length ≤ (c :: r).length := by
      intro line col lead acc first l1 h
      have := ih _ _ _ _ _ _ _ _ _ h
      simp only [List.length_cons]; omega
    simp only [scanDelim, bind_eq, pure_eq] at h
    obtain ⟨u, l1, _, h2⟩ := L.bind_ok_inv h
    split at h2
    · cases r with
      | nil =>
        simp only [] at h2
        obtain ⟨h3, _⟩ := L.pure_ok_inv h2
        subst h3; simp
      | cons d r' =>
        simp only [] at h2
        split at h2
        · split at h2
          · exact hrec h2
          · obtain ⟨h3, _⟩ := L.pure_ok_inv h2
            subst h3; simp
        · split at h2
          · have := scanTriple_len dia delim _ _ _ _ _ _ _ _ _ _ _ h2
            simp only [List.length_cons]; omega
          · obtain ⟨h3, _⟩ := L.pure_ok_inv h2
            subst h3; simp
    · split at h2
      · obtain ⟨_, l2, _, h3⟩ := L.bind_ok_inv h2
        obtain ⟨h3, _⟩ := L.pure_ok_inv h3
        subst h3; simp
      · exact hrec h2

theorem scanText_len (dia : Dialect) : ∀ (inp : Str) (line col : Nat) (lead : Bool) (acc : Str) (sol : Nat)
    (pol : Policy) (log log' : List Report) (s : Scanned),
    scanText dia inp line col lead acc sol pol log = .ok s log' → s.pos.rest.length ≤ inp.length := by
  intro inp
  induction inp with
  | nil =>
    intro line col lead acc sol pol log log' s h
    simp only [scanText, bind_eq, pure_eq] at h
    obtain ⟨a, l1, _, h2⟩ := L.bind_ok_inv h
    obtain ⟨_, l2, _, h3⟩ := L.bind_ok_inv h2
    obtain ⟨h3, _⟩ := L.pure_ok_inv h3
    subst h3; simp
  | cons c r ih =>
    intro line col lead acc sol pol log log' s h
    have hrec : ∀ {line col lead acc sol l1}, scanText dia r line col lead acc sol pol l1 = .ok s log' →
        s.pos.rest.length ≤ (c :: r).length := by
      intro line col lead acc sol l1 h
      have := ih _ _ _ _ _ _ _ _ _ h
      simp only [List.length_cons]; omega
    simp only [scanText, bind_eq, pure_eq] at h
    obtain ⟨u, l1, _, h2⟩ := L.bind_ok_inv h
    split at h2
    · split at h2
      · obtain ⟨h3, _⟩ := L.pure_ok_inv h2
        subst h3; simp
      · exact hrec h2
    · split at h2
      · obtain ⟨_, l2, _, h3⟩ := L.bind_ok_inv h2
        exact hrec h3
      · exact hrec h2

theorem reportIf_ok_inv {cond : Bool} {code : Code} {line col : Nat} {pol : Policy} {log log' : List Report} {x : Unit}
    (h : reportIf cond code line col pol log = .ok x log') :
    log' = (if cond then ⟨code, line, col⟩ :: log else log) := by
  cases cond with
  | false => simp only [reportIf_false, L.pure_apply, Res.ok.injEq] at h; simp [h.2]
  | true =>
    simp only [reportIf_true, report] at h
    split at h
    · simp only [Res.ok.injEq] at h; simp [h.2]
    · cases h

theorem report_ok_inv {code : Code} {line col : Nat} {pol : Policy} {log log' : List Report} {x : Unit}
    (h : report code line col pol log = .ok x log') : log' = ⟨code, line, col⟩ :: log := by
  have := reportIf_ok_inv (cond := true) (by simpa using h)
  simpa using this

/-- everything SCAN_UCHAR can yield: the unit (or the replacement character for an unpaired trail surrogate), the new
    column and lead flag as functions of the input, and a log that only grew by reports of SCAN_UCHAR's three codes -/
theorem scanUChar_ok_inv {dia : Dialect} {line col prev c : Nat} {lead : Bool} {pol : Policy} {log log' : List Report} {u : UStep}
    (h : scanUChar dia line col prev c lead pol log = .ok u log') :
    (u.c = c ∨ (isTrail c = true ∧ lead = false ∧ u.c = replChar dia))
    ∧ u.col = (if isTrail c && lead then col else col + 1)
    ∧ u.lead = (if isTrail c then false else isLead c)
    ∧ (∃ extra : List Report, log' = extra ++ log ∧ ∀ r ∈ extra, r.line = line ∧
        (r.code = Gen.ErrCodes.CIF_INVALID_CHAR ∨ r.code = Gen.ErrCodes.CIF_DISALLOWED_CHAR)) := by
  simp only [scanUChar, bind_eq, pure_eq] at h
  split at h
  next ht =>
    split at h
    next hl =>
      obtain ⟨_, l1, h1, h2⟩ := L.bind_ok_inv h
      obtain ⟨hu, hlog⟩ := L.pure_ok_inv h2
      have := reportIf_ok_inv h1
      subst hu; subst hlog
      refine ⟨Or.inl rfl, by simp [ht, hl], by simp [ht], ?_⟩
      rw [this]
      split
      · exact ⟨[_], rfl, by simp⟩
      · exact ⟨[], rfl, by simp⟩
    next hl =>
      obtain ⟨_, l1, h1, h2⟩ := L.bind_ok_inv h
      obtain ⟨hu, hlog⟩ := L.pure_ok_inv h2
      have := report_ok_inv h1
      subst hu; subst hlog
      have hl' : lead = false := by simpa using hl
      refine ⟨Or.inr ⟨ht, hl', rfl⟩, by simp [ht, hl'], by simp [ht], ?_⟩
      rw [this]
      exact ⟨[_], rfl, by simp⟩
  next ht =>
    obtain ⟨_, l1, h1, h2⟩ := L.bind_ok_inv h
    obtain ⟨_, l2, h3, h4⟩ := L.bind_ok_inv h2
    obtain ⟨_, l3, h5, h6⟩ := L.bind_ok_inv h4
    obtain ⟨hu, hlog⟩ := L.pure_ok_inv h6
    have e1 := reportIf_ok_inv h1
    have e2 := reportIf_ok_inv h3
    have e3 := reportIf_ok_inv h5
    subst hu; subst hlog
    have ht' : isTrail c = false := by simpa using ht
    refine ⟨Or.inl rfl, by simp [ht'], by simp [ht'], ?_⟩
    rw [e3, e2, e1]
    refine ⟨(if lead then [⟨Gen.ErrCodes.CIF_INVALID_CHAR, line, col + 1⟩] else [])
      ++ (if (dia == .cif1 && decide (c > cif1MaxChar)) then [⟨Gen.ErrCodes.CIF_DISALLOWED_CHAR, line, col + 1⟩] else [])
      ++ (if disallowedBmp dia c then [⟨Gen.ErrCodes.CIF_DISALLOWED_CHAR, line, col + 1⟩] else []), ?_, ?_⟩
    · cases lead <;> cases (dia == .cif1 && decide (c > cif1MaxChar)) <;> cases disallowedBmp dia c <;> simp
    · intro r hr
      simp only [List.mem_append] at hr
      rcases hr with (hr | hr) | hr <;> split at hr <;> simp at hr <;> subst hr <;> simp

theorem replChar_meta (dia : Dialect) : metaOfCls (classOf dia (replChar dia)) = .general := by
  cases dia <;> decide

theorem high_meta (dia : Dialect) (c : Nat) (h : isTrail c = true) :
    metaOfCls (classOf dia c) = .general ∨ metaOfCls (classOf dia c) = .no := by
  have hc : ¬ c < 160 := by simp [isTrail] at h; omega_cu
  cases dia <;> simp [classOf, hc, metaOfCls]

/-- scan_unquoted consumes its first unit unless that unit is whitespace or a bracket -/
theorem scanUnquoted_len_lt (dia : Dialect) (c : Nat) (r : Str) (line col : Nat) (acc : Str) (k : Nat) (kd ks : Bool)
    (pol : Policy) (log log' : List Report) (s : Scanned)
    (hc : metaOfCls (classOf dia c) = .general ∨ metaOfCls (classOf dia c) = .no)
    (h : scanUnquoted dia (c :: r) line col false acc k kd ks pol log = .ok s log') : s.pos.rest.length ≤ r.length := by
  simp only [scanUnquoted, bind_eq, pure_eq] at h
  obtain ⟨u, l1, hu, h2⟩ := L.bind_ok_inv h
  have hm : metaOfCls (classOf dia u.c) = .general ∨ metaOfCls (classOf dia u.c) = .no := by
    rcases (scanUChar_ok_inv hu).1 with e | ⟨_, _, e⟩
    · rw [e]; exact hc
    · rw [e]; exact Or.inl (replChar_meta dia)
  rcases hm with hm | hm <;> simp only [hm] at h2 <;> exact scanUnquoted_len dia _ _ _ _ _ _ _ _ _ _ _ _ h2


def Step.pos : Step → Pos
  | .tok _ p => p
  | .skip _ p => p

/-- a token that leaves the loop iteration is never of type END or ERROR, and carries the position behind it -/
def Step.tyOk : Step → Prop
  | .tok t p => t.ty ≠ .end_ ∧ t.ty ≠ .error ∧ t.line = p.line ∧ t.col = p.col
  | .skip _ _ => True

theorem keyPeek_len (a b : TokType) (text : Str) (p : Pos) : (keyPeek a b text p).pos.rest.length ≤ p.rest.length := by
  unfold keyPeek
  split
  · simp [mkTok, Step.pos, *]
  · split <;> simp_all [mkTok, Step.pos]

theorem keyPeek_tyOk (a b : TokType) (text : Str) (p : Pos) (ha : a ≠ .end_ ∧ a ≠ .error) (hb : b ≠ .end_ ∧ b ≠ .error) :
    (keyPeek a b text p).tyOk := by
  unfold keyPeek
  split
  · simpa [mkTok, Step.tyOk] using hb
  · split
    · simpa [mkTok, Step.tyOk] using ha
    · simpa [mkTok, Step.tyOk] using hb

theorem finishUnquoted_len {dia : Dialect} {aw : Bool} {t : Str} {p : Pos} {pol : Policy} {log log' : List Report} {st : Step}
    (h : finishUnquoted dia aw t p pol log = .ok st log') : st.pos.rest.length ≤ p.rest.length ∧ st.tyOk := by
  unfold finishUnquoted at h
  cases hk : classify dia t <;> simp only [hk] at h
  all_goals first
    | (obtain ⟨h1, _⟩ := L.pure_ok_inv h; subst h1; simp [mkTok, Step.pos, Step.tyOk])
    | (simp only [bind_eq, pure_eq] at h
       obtain ⟨_, l1, _, h2⟩ := L.bind_ok_inv h
       obtain ⟨h1, _⟩ := L.pure_ok_inv h2; subst h1; simp [Step.pos, Step.tyOk])

/-- every iteration of next_token's loop consumes at least its first unit, and a token it yields is a real token -/
theorem stepTok_len (dia : Dialect) (aw : Bool) (c : Nat) (r : Str) (line col : Nat) (pol : Policy) (log log' : List Report)
    (st : Step) (h : stepTok dia aw c r line col pol log = .ok st log') : st.pos.rest.length ≤ r.length ∧ st.tyOk := by
  unfold stepTok at h
  simp only [bind_eq] at h
  simp only [pure_eq] at h
  obtain ⟨_, l0, _, h⟩ := L.bind_ok_inv h
  by_cases he : classOf dia c = .eol
  · rw [if_pos he] at h
    obtain ⟨p, l1, h1, h2⟩ := L.bind_ok_inv h
    obtain ⟨h2, _⟩ := L.pure_ok_inv h2; subst h2
    exact ⟨scanWs_len_lt dia c r (Or.inr he) _ _ _ _ _ _ _ h1, trivial⟩
  rw [if_neg he] at h
  by_cases hw : classOf dia c = .ws
  · rw [if_pos hw] at h
    obtain ⟨p, l1, h1, h2⟩ := L.bind_ok_inv h
    obtain ⟨h2, _⟩ := L.pure_ok_inv h2; subst h2
    exact ⟨scanWs_len dia _ _ _ _ _ _ _ _ h1, trivial⟩
  rw [if_neg hw] at h
  by_cases hh : classOf dia c = .hash
  · rw [if_pos hh] at h
    obtain ⟨s, l1, h1, h2⟩ := L.bind_ok_inv h
    obtain ⟨h2, _⟩ := L.pure_ok_inv h2; subst h2
    exact ⟨scanToEol_len dia _ _ _ _ _ _ _ _ _ h1, trivial⟩
  rw [if_neg hh] at h
  by_cases hu : classOf dia c = .undersc
  · rw [if_pos hu] at h
    obtain ⟨s, l1, h1, h2⟩ := L.bind_ok_inv h
    obtain ⟨h2, _⟩ := L.pure_ok_inv h2; subst h2
    exact ⟨scanToWs_len dia _ _ _ _ _ _ _ _ _ h1, by simp [mkTok, Step.tyOk]⟩
  rw [if_neg hu] at h
  by_cases h1 : classOf dia c = .obrak
  · rw [if_pos h1] at h; obtain ⟨h2, _⟩ := L.pure_ok_inv h; subst h2; simp [mkTok, Step.pos, Step.tyOk]
  rw [if_neg h1] at h
  by_cases h2 : classOf dia c = .cbrak
  · rw [if_pos h2] at h; obtain ⟨h2, _⟩ := L.pure_ok_inv h; subst h2; simp [mkTok, Step.pos, Step.tyOk]
  rw [if_neg h2] at h
  by_cases h3 : classOf dia c = .ocurl
  · rw [if_pos h3] at h; obtain ⟨h2, _⟩ := L.pure_ok_inv h; subst h2; simp [mkTok, Step.pos, Step.tyOk]
  rw [if_neg h3] at h
  by_cases h4 : classOf dia c = .ccurl
  · rw [if_pos h4] at h; obtain ⟨h2, _⟩ := L.pure_ok_inv h; subst h2; simp [mkTok, Step.pos, Step.tyOk]
  rw [if_neg h4] at h
  by_cases hq : classOf dia c = .quote
  · rw [if_pos hq] at h
    obtain ⟨s, l1, hs, h5⟩ := L.bind_ok_inv h
    obtain ⟨h5, _⟩ := L.pure_ok_inv h5; subst h5
    have := scanDelim_len dia c _ _ _ _ _ _ _ _ _ _ hs
    have := keyPeek_len .key .qvalue s.acc.reverse s.pos
    exact ⟨by omega, keyPeek_tyOk _ _ _ _ (by decide) (by decide)⟩
  rw [if_neg hq] at h
  by_cases hs : classOf dia c = .semi
  · rw [if_pos hs] at h
    by_cases hcol : col + 1 = 1
    · rw [if_pos hcol] at h
      obtain ⟨s, l1, hs1, h5⟩ := L.bind_ok_inv h
      have hl := scanText_len dia _ _ _ _ _ _ _ _ _ _ hs1
      by_cases hd : dia = .cif2
      · rw [if_pos hd] at h5
        obtain ⟨h5, _⟩ := L.pure_ok_inv h5; subst h5
        have := keyPeek_len .tkey .tvalue s.acc.reverse s.pos
        exact ⟨by omega, keyPeek_tyOk _ _ _ _ (by decide) (by decide)⟩
      · rw [if_neg hd] at h5
        obtain ⟨h5, _⟩ := L.pure_ok_inv h5; subst h5
        exact ⟨by simpa [mkTok, Step.pos] using hl, by simp [mkTok, Step.tyOk]⟩
    · rw [if_neg hcol] at h
      obtain ⟨s, l1, hs1, h5⟩ := L.bind_ok_inv h
      have hm : metaOfCls (classOf dia c) = .general ∨ metaOfCls (classOf dia c) = .no := by rw [hs]; exact Or.inl rfl
      have hl := scanUnquoted_len_lt dia c r _ _ _ _ _ _ _ _ _ _ hm hs1
      have := finishUnquoted_len h5
      exact ⟨by omega, this.2⟩
  · rw [if_neg hs] at h
    obtain ⟨s, l1, hs1, h5⟩ := L.bind_ok_inv h
    have hm : metaOfCls (classOf dia c) = .general ∨ metaOfCls (classOf dia c) = .no := by
      cases hcl : classOf dia c <;> simp_all [metaOfCls]
    have hl := scanUnquoted_len_lt dia c r _ _ _ _ _ _ _ _ _ _ hm hs1
    have := finishUnquoted_len h5
    exact ⟨by omega, this.2⟩

/-- fuel suffices: with more fuel than remaining units the loop's result does not depend on the fuel -/
theorem tokLoop_fuel (dia : Dialect) (pol : Policy) : ∀ (f1 f2 : Nat) (aw : Bool) (p : Pos) (log : List Report),
    p.rest.length < f1 → p.rest.length < f2 → tokLoop dia f1 aw p pol log = tokLoop dia f2 aw p pol log := by
  intro f1
  induction f1 with
  | zero => intro f2 aw p log h; omega
  | succ f1 ih =>
    intro f2 aw p log h1 h2
    cases f2 with
    | zero => omega
    | succ f2 =>
      obtain ⟨rest, line, col⟩ := p
      cases rest with
      | nil => rfl
      | cons c r =>
        rw [tokLoop_cons, tokLoop_cons]
        simp only [L.bind]
        cases hst : stepTok dia aw c r line col pol log with
        | abort rv l => rfl
        | ok st l =>
          cases st with
          | tok t p' => rfl
          | skip aw' p' =>
            have := (stepTok_len dia aw c r line col pol log l _ hst).1
            simp only [Step.pos] at this
            simp only [List.length_cons] at h1 h2
            exact ih f2 aw' p' l (by omega) (by omega)

/-- the loop's outcome with sufficient fuel: END with nothing left, or a token that is neither END nor ERROR and
    strictly less remaining input -/
theorem tokLoop_progress (dia : Dialect) (pol : Policy) : ∀ (f : Nat) (aw : Bool) (p : Pos) (log log' : List Report) (t : Tok) (p' : Pos),
    p.rest.length < f → tokLoop dia f aw p pol log = .ok (t, p') log' →
    (t.ty = .end_ ∧ p'.rest = [] ∧ t.text = []) ∨ (t.ty ≠ .end_ ∧ t.ty ≠ .error ∧ p'.rest.length < p.rest.length) := by
  intro f
  induction f with
  | zero => intro aw p log log' t p' h; omega
  | succ f ih =>
    intro aw p log log' t p' hf h
    obtain ⟨rest, line, col⟩ := p
    cases rest with
    | nil =>
      rw [tokLoop_nil] at h
      simp only [Res.ok.injEq, Prod.mk.injEq] at h
      obtain ⟨⟨h1, h2⟩, h3⟩ := h
      subst h1; subst h2; subst h3
      exact Or.inl ⟨rfl, rfl, rfl⟩
    | cons c r =>
      rw [tokLoop_cons] at h
      obtain ⟨st, l1, hst, h2⟩ := L.bind_ok_inv h
      obtain ⟨hlen, hty⟩ := stepTok_len dia aw c r line col pol log l1 st hst
      cases st with
      | tok t1 p1 =>
        simp only [] at h2
        obtain ⟨h3, _⟩ := L.pure_ok_inv h2
        simp only [Prod.mk.injEq] at h3
        obtain ⟨h3, h4⟩ := h3
        subst h3; subst h4
        simp only [Step.pos] at hlen
        exact Or.inr ⟨hty.1, hty.2.1, by simp only [List.length_cons]; omega⟩
      | skip aw' p1 =>
        simp only [] at h2
        simp only [Step.pos] at hlen
        simp only [List.length_cons] at hf
        rcases ih aw' p1 l1 log' t p' (by omega) h2 with h5 | ⟨h5, h6, h7⟩
        · exact Or.inl h5
        · exact Or.inr ⟨h5, h6, by simp only [List.length_cons]; omega⟩

end CifModel.Model.Lexer
