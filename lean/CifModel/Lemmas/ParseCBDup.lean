import CifModel.Lemmas.ParseCBCut
import CifModel.Spec.TraversalDup
/-
  CifModel.Lemmas.ParseCBDup — duplicates under callbacks: with handlers that always continue (and the accepting error callback
  of Model/ParseCBDup.lean) the parse of a document in which block codes, frame codes and scalar data names may repeat delivers
  the callbacks `dupEvents` and stores `dupDenote` (Spec/TraversalDup.lean).
-/
set_option linter.unusedSimpArgs false
set_option linter.unusedVariables false

namespace CifModel.Lemmas.ParseCB
open CifModel.ParseCB CifModel.Spec.Doc
open CifModel.Gen.ErrCodes (CIF_DUP_ITEMNAME CIF_DUP_BLOCKCODE CIF_DUP_FRAMECODE)

-- ---- loops whose header repeats nothing: the productions with the duplicate check are the plain ones -----------------------

theorem any_map_some (norm : Str → Str) (pre : List Str) (nm : Str) :
    (pre.map some).any (slotIs norm nm) = pre.any (fun m => norm m == norm nm) := by
  induction pre with
  | nil => rfl
  | cons a r ih => simp [List.any_cons, ih, slotIs]

theorem headerD_doc (norm : Str → Str) (cont : Bool) (c : Content) :
    ∀ (names pre : List Str) (t : Tok) (rest : List Tok) (s : St) (b : Bool) (fuel : Nat),
      t.pre = [] → t.ty ≠ .name → names.length + 1 ≤ fuel → headerNew norm c names pre = true →
      headerLoopD norm cont c fuel (atb s (names.map (fun n => plain .name n) ++ t :: rest) b) (pre.map some)
        = (OK, (pre ++ names).map some, atb (kHeader names s) (t :: rest) true)
  | [], pre, t, rest, s, b, fuel, hpre, hty, hf, _ => by
    obtain ⟨f, rfl⟩ : ∃ f, fuel = f + 1 := ⟨fuel - 1, by omega⟩
    simp only [List.map_nil, List.nil_append, headerLoopD, nextToken_atb s t rest b hpre, hty, if_false, kHeader,
      List.append_nil]
  | nm :: ns, pre, t, rest, s, b, fuel, hpre, hty, hf, hnew => by
    obtain ⟨f, rfl⟩ : ∃ f, fuel = f + 1 := ⟨fuel - 1, by omega⟩
    simp only [headerNew, Bool.and_eq_true, Bool.not_eq_true'] at hnew
    obtain ⟨⟨h1, h2⟩, h3⟩ := hnew
    have hdup : ((cont && hasName norm c nm) || (pre.map some).any (slotIs norm nm)) = false := by
      rw [any_map_some, h1, h2]; simp
    simp only [List.map_cons, List.cons_append, headerLoopD, nextToken_atb s (plain .name nm) _ b rfl]
    simp only [plain_ty, plain_text, if_true, cur_atb, atb_skip, kHeader, hdup, Bool.false_eq_true, if_false]
    have hacc : pre.map some ++ [some nm] = (pre ++ [nm]).map some := by simp
    by_cases h : s.skip ≤ 0
    · simp only [h, if_true, note_atb, consume_atb, hacc]
      rw [headerD_doc norm cont c ns (pre ++ [nm]) t rest _ false f hpre hty (by simpa using hf) h3]
      simp
    · simp only [h, if_false, consume_atb, hacc]
      rw [headerD_doc norm cont c ns (pre ++ [nm]) t rest _ false f hpre hty (by simpa using hf) h3]
      simp

theorem filterMap_map_some' (l : List Str) : (l.map some).filterMap id = l := by
  induction l with
  | nil => rfl
  | cons a r ih => simp [ih]

theorem getD_map_some (l : List Str) (i : Nat) (h : i < l.length) : (l.map some).getD i none = some (l.getD i []) := by
  simp [List.getD, h]

/-- without dropped columns parse_loop_packets is the plain one -/
theorem packetsD_same (p : Prog) (loopH : Bool) (names : List Str) (hn : names ≠ []) :
    ∀ (fuel : Nat) (s : St) (k : PkSt), k.col < names.length →
      packetsLoopD p loopH (names.map some) fuel s k = packetsLoop p loopH names fuel s k
  | 0, s, k, _ => rfl
  | fuel + 1, s, k, hk => by
    have hlen : 0 < names.length := List.length_pos_iff.mpr hn
    have hcol : (k.col + 1) % names.length < names.length := Nat.mod_lt _ hlen
    have ih0 : ∀ (s' : St) (r : List V) (h : Bool) (st : List (List V)),
        packetsLoopD p loopH (names.map some) fuel s' { col := 0, row := r, havePk := h, stored := st }
          = packetsLoop p loopH names fuel s' { col := 0, row := r, havePk := h, stored := st } :=
      fun s' r h st => packetsD_same p loopH names hn fuel s' _ hlen
    have ih1 : ∀ (s' : St) (r : List V) (h : Bool) (st : List (List V)),
        packetsLoopD p loopH (names.map some) fuel s' { col := (k.col + 1) % names.length, row := r, havePk := h, stored := st }
          = packetsLoop p loopH names fuel s' { col := (k.col + 1) % names.length, row := r, havePk := h, stored := st } :=
      fun s' r h st => packetsD_same p loopH names hn fuel s' _ hcol
    simp only [packetsLoopD, packetsLoop, filterMap_map_some', List.length_map, getD_map_some names k.col hk,
      Option.isSome_some, if_true, itemStepD, ih0, ih1]


/-- a loop whose header repeats nothing: parse_loop with the duplicate check is the plain parse_loop -/
theorem loopD_same (p : Prog) (norm : Str → Str) (cont : Bool) (c : Content) (names : List Str) (pks : List (List V))
    (t : Tok) (rest : List Tok) (s : St) (b : Bool) (fuel : Nat)
    (hn : names ≠ []) (hpk : pks ≠ []) (hall : ∀ pk ∈ pks, pk ≠ [])
    (hf1 : names.length + 1 ≤ fuel) (hnew : headerNew norm c names [] = true) :
    parseLoopD p norm fuel cont c (atb s (names.map (fun n => plain .name n) ++ ((pks.map valuesToks).flatten ++ t :: rest)) b)
      = parseLoop p fuel cont (atb s (names.map (fun n => plain .name n) ++ ((pks.map valuesToks).flatten ++ t :: rest)) b) := by
  obtain ⟨tv, tvs, hbody, htvpre, htvty⟩ := body_head pks (t :: rest) hall hpk
  unfold parseLoopD parseLoop
  simp only [inc_atb, hbody]
  have h1 := headerD_doc norm cont c names [] tv tvs (inc s) b fuel htvpre htvty hf1 hnew
  simp only [List.map_nil, List.nil_append] at h1
  rw [h1, header_doc names tv tvs (inc s) b fuel [] htvpre htvty hf1]
  have hlen : 0 < names.length := List.length_pos_iff.mpr hn
  have hpk0 : ∀ (lh : Bool) (s' : St), packetsLoopD p lh (names.map some) fuel s' { col := 0, row := [], havePk := false, stored := [] }
      = packetsLoop p lh names fuel s' { col := 0, row := [], havePk := false, stored := [] } :=
    fun lh s' => packetsD_same p lh names hn fuel s' _ hlen
  simp only [List.nil_append, filterMap_map_some', hpk0]

-- ---- the documents covered ---------------------------------------------------------------------------------------------------

/-- the content a frame header with this code continues: that of the existing frame, or nothing -/
def frameBase (norm : Str → Str) (c : Content) (code : Str) : Content :=
  match findC norm c.frames code with
  | some old => ⟨old.frames, old.loops⟩
  | none => .empty

mutual
  /-- well-formed with respect to what the container holds: values well-formed, loops rectangular with headers that are new
      to the container and repeat nothing; scalar names and frame codes may repeat -/
  def okElem (norm : Str → Str) (allowF : Bool) : Elem → Content → Bool
    | .item _ v, _ => wfV v
    | .loop ns pks, c => wfElem allowF (.loop ns pks) && headerNew norm c ns []
    | .frame code body, c => allowF && okElems norm false body (frameBase norm c code)
  def okElems (norm : Str → Str) (allowF : Bool) : List Elem → Content → Bool
    | [], _ => true
    | e :: es, c => okElem norm allowF e c && okElems norm allowF es (dupElem norm e c).2
end

def blockBase (norm : Str → Str) (acc : List Container) (code : Str) : Content :=
  match findC norm acc code with
  | some old => ⟨old.frames, old.loops⟩
  | none => .empty

def okBlocks (norm : Str → Str) : List Block → List Container → Bool
  | [], _ => true
  | b :: bs, acc =>
    okElems norm true b.body (blockBase norm acc b.code)
      && okBlocks norm bs (match findC norm acc b.code with
          | some old => replaceC norm acc b.code (.mk old.code (dupElems norm b.body ⟨old.frames, old.loops⟩).2.prune.frames
              (dupElems norm b.body ⟨old.frames, old.loops⟩).2.prune.loops)
          | none => acc ++ [.mk b.code (dupElems norm b.body .empty).2.prune.frames (dupElems norm b.body .empty).2.prune.loops])

def okDoc (norm : Str → Str) (d : Doc) : Bool := okBlocks norm d []

-- ---- one iteration of the element loop -----------------------------------------------------------------------------------------

theorem errEv_notHandler (code : Nat) : (errEv code).isHandler = false := rfl

theorem report_adv (s : St) (code : Nat) : report s code = adv s [errEv code] := note_adv s _ rfl

theorem stepD_item_new (norm : Str → Str) (m : Int) (f : Nat) (isBlock : Bool) (nm : Str) (v : V) (Y : List Tok)
    (s : St) (b : Bool) (c : Content) (h0 : s.skip = 0) (hw : wfV v = true) (hf : szV v ≤ f) (hnew : hasName norm c nm = false) :
    elemsLoopD allContP norm m (f + 1) true isBlock (atb s (plain .name nm :: (valueToks v ++ Y)) b) c
      = elemsLoopD allContP norm m f true isBlock (atb (adv s [.dataname nm, .item nm v]) Y false) (c.setScalar nm v) := by
  have hns : ¬ s.skip > 0 := by omega
  simp only [elemsLoopD, nextToken_atb s (plain .name nm) _ b rfl, plain_ty, atb_skip, cur_atb, plain_text, hns, if_false,
    hnew, Bool.and_false, Bool.false_eq_true, note_atb, consume_atb,
    item_doc_named allContP f true nm v Y _ false hw hf, scalarItemStep, site_allCont, allContP, and_self, if_true]
  have hn : (note s (Ev.dataname nm)).skip = 0 := h0
  rw [inc0 _ hn, dec0 _ (by simpa [push, ParseCB.note] using h0), note_adv _ _ rfl, push_adv _ _ rfl, adv_adv]
  rfl

theorem stepD_item_dup (norm : Str → Str) (m : Int) (f : Nat) (isBlock : Bool) (nm : Str) (v : V) (Y : List Tok)
    (s : St) (b : Bool) (c : Content) (h0 : s.skip = 0) (hw : wfV v = true) (hf : szV v ≤ f) (hdup : hasName norm c nm = true) :
    elemsLoopD allContP norm m (f + 1) true isBlock (atb s (plain .name nm :: (valueToks v ++ Y)) b) c
      = elemsLoopD allContP norm m f true isBlock (atb (adv s [.dataname nm, errEv CIF_DUP_ITEMNAME]) Y false) c := by
  have hns : ¬ s.skip > 0 := by omega
  have hrep : ∀ (x : St) (t : List Tok) (bb : Bool), report (atb x t bb) CIF_DUP_ITEMNAME = atb (report x CIF_DUP_ITEMNAME) t bb :=
    fun _ _ _ => rfl
  simp only [elemsLoopD, nextToken_atb s (plain .name nm) _ b rfl, plain_ty, atb_skip, cur_atb, plain_text, hns, if_false,
    hdup, Bool.and_true, if_true, note_atb, consume_atb, hrep,
    item_doc_skip allContP f true v Y _ false hw hf]
  have hn : (report (note s (Ev.dataname nm)) CIF_DUP_ITEMNAME).skip = 0 := h0
  rw [dec_inc _ (by omega), note_adv _ _ rfl, report_adv, adv_adv]
  rfl

theorem stepD_loop (norm : Str → Str) (m : Int) (f : Nat) (isBlock : Bool) (names : List Str)
    (pks : List (List V)) (t : Tok) (rest : List Tok) (s : St) (b : Bool) (c : Content) (h0 : s.skip = 0)
    (hpre : t.pre = []) (hst : isStopper t.ty = true) (a : Bool) (hw : wfElem a (.loop names pks) = true)
    (hnew : headerNew norm c names [] = true)
    (hf1 : names.length + 1 ≤ f) (hf2 : sumSz pks + totLen pks + 1 ≤ f) :
    elemsLoopD allContP norm m (f + 1) true isBlock
        (atb s (plain .loopKw [] :: (names.map (fun n => plain .name n) ++ ((pks.map valuesToks).flatten ++ t :: rest))) b) c
      = elemsLoopD allContP norm m f true isBlock (atb (adv s (elemEvents true (.loop names pks))) (t :: rest) true)
          (c.addLoop { category := none, names := names, packets := pks }) := by
  obtain ⟨hn, hpk, hall⟩ := loop_wf_all names pks hw
  have hle : s.skip ≤ 0 := by omega
  simp only [elemsLoopD, nextToken_atb s (plain .loopKw []) _ b rfl, plain_ty, atb_skip, cur_atb, plain_text, hle, if_true,
    note_atb, consume_atb]
  rw [loopD_same allContP norm true c names pks t rest _ false f hn hpk (fun pk h => (hall pk h).1) hf1 hnew,
    loop_doc allContP allContP_noStop true names pks (sumSz pks) t rest _ false f hpre hst hn hpk hall hf1 hf2,
    kLoop_allCont names pks _ (by simp [ParseCB.note, h0]) (fun pk h => (hall pk h).2.1)]
  simp only [if_true]
  rw [note_adv _ _ rfl, adv_adv, elemEvents_loop]
  rfl


/-- one iteration of the element loop of a data block on a save frame, new or reopened (hypothesis of `elemsD_doc`) -/
def StepFrameD (norm : Str → Str) : Prop :=
  ∀ (code : Str) (body : List Elem) (Y : List Tok) (s : St) (b : Bool) (c : Content) (f : Nat),
    s.skip = 0 → okElems norm false body (frameBase norm c code) = true → szElems body + 2 ≤ f →
    elemsLoopD allContP norm 1 (f + 1) true true (atb s (plain .frameHead code :: (elemsToks body ++ plain .frameTerm [] :: Y)) b) c
      = elemsLoopD allContP norm 1 f true true (atb (adv s (dupElem norm (.frame code body) c).1) Y false)
          (dupElem norm (.frame code body) c).2

/-- the body of a container, up to the token that ends it -/
theorem elemsD_doc (norm : Str → Str) (isBlock : Bool) (hframe : isBlock = true → StepFrameD norm) :
    ∀ (es : List Elem) (t : Tok) (rest : List Tok) (s : St) (b : Bool) (c : Content) (fuel : Nat),
      s.skip = 0 → okElems norm isBlock es c = true → t.pre = [] → termOK isBlock t.ty → szElems es + 1 ≤ fuel →
      elemsLoopD allContP norm 1 fuel true isBlock (atb s (elemsToks es ++ t :: rest) b) c
        = (OK, endState isBlock (adv s (dupElems norm es c).1) t rest, (dupElems norm es c).2)
  | [], t, rest, s, b, c, fuel, _, _, hpre, hterm, hf => by
    obtain ⟨f, rfl⟩ : ∃ f, fuel = f + 1 := ⟨fuel - 1, by omega⟩
    simp only [elemsToks, List.nil_append, elemsLoopD, nextToken_atb s t rest b hpre, dupElems, adv_nil]
    unfold termOK at hterm
    cases isBlock with
    | true =>
      simp only [if_true] at hterm
      rcases hterm with h | h <;> simp [h, endState]
    | false =>
      simp only [Bool.false_eq_true, if_false] at hterm
      simp [hterm, endState, consume_atb]
  | e :: es, t, rest, s, b, c, fuel, h0, hw, hpre, hterm, hf => by
    obtain ⟨f, rfl⟩ : ∃ f, fuel = f + 1 := ⟨fuel - 1, by omega⟩
    simp only [okElems, Bool.and_eq_true] at hw
    simp only [szElems] at hf
    have hstT : isStopper t.ty = true := by
      unfold termOK at hterm
      cases isBlock <;> simp at hterm
      · simp [hterm, isStopper]
      · rcases hterm with h | h <;> simp [h, isStopper]
    have ih := elemsD_doc norm isBlock hframe es t rest
    simp only [dupElems]
    cases e with
    | item n v =>
      simp only [szElem] at hf
      have hwv : wfV v = true := by simpa [okElem] using hw.1
      simp only [elemsToks, elemToks_item, List.cons_append, List.append_assoc]
      by_cases hd : hasName norm c n = true
      · rw [stepD_item_dup norm 1 f isBlock n v _ s b c h0 hwv (by omega) hd]
        have e1 : dupElem norm (.item n v) c = ([.dataname n, errEv CIF_DUP_ITEMNAME], c) := by simp [dupElem, hd]
        rw [e1] at hw ⊢
        rw [ih _ false _ f (by simp [h0]) hw.2 hpre hterm (by omega), adv_adv]
      · have hd' : hasName norm c n = false := by simpa using hd
        rw [stepD_item_new norm 1 f isBlock n v _ s b c h0 hwv (by omega) hd']
        have e1 : dupElem norm (.item n v) c = ([.dataname n, .item n v], c.setScalar n v) := by simp [dupElem, hd']
        rw [e1] at hw ⊢
        rw [ih _ false _ f (by simp [h0]) hw.2 hpre hterm (by omega), adv_adv]
    | loop ns pks =>
      simp only [szElem] at hf
      have hw1 : wfElem isBlock (.loop ns pks) = true ∧ headerNew norm c ns [] = true := by
        simpa [okElem] using hw.1
      obtain ⟨th, tl, hhead, hthpre, hthst⟩ := elems_head es t rest hpre hstT
      simp only [elemsToks, elemToks_loop, List.cons_append, List.append_assoc, hhead]
      rw [stepD_loop norm 1 f isBlock ns pks th tl s b c h0 hthpre hthst isBlock hw1.1 hw1.2 (by omega) (by omega)]
      rw [← hhead]
      have e1 : dupElem norm (.loop ns pks) c
          = (elemEvents true (.loop ns pks), c.addLoop { category := none, names := ns, packets := pks }) := by simp [dupElem]
      rw [e1] at hw ⊢
      rw [ih _ true _ f (by simp [h0]) hw.2 hpre hterm (by omega), adv_adv]
    | frame code body =>
      simp only [szElem] at hf
      have hb : isBlock = true ∧ okElems norm false body (frameBase norm c code) = true := by
        simpa [okElem] using hw.1
      obtain ⟨hb1, hb2⟩ := hb
      subst hb1
      simp only [elemsToks, elemToks_frame, List.cons_append, List.append_assoc, List.singleton_append, List.nil_append]
      rw [hframe rfl code body _ s b c f h0 hb2 (by omega)]
      rw [ih _ false _ f (by simp [h0]) hw.2 hpre hterm (by omega), adv_adv]

theorem contStart_allCont (isBlock : Bool) (code : Str) (s : St) (h0 : s.skip = 0) :
    contStartStep allContP true isBlock code s
      = (OK, adv s [if isBlock then Ev.blockStart (some code) else Ev.frameStart (some code)]) := by
  unfold contStartStep
  have : ¬ s.skip > 0 := by omega
  simp only [this, if_false, if_true, site_allCont]
  cases isBlock <;> simp only [Bool.false_eq_true, if_false, if_true] <;> rw [push_adv _ _ rfl]

theorem containerEnd_allCont (isBlock : Bool) (code : Str) (s : St) (c : Content) (h0 : s.skip = 0) :
    containerEnd allContP true isBlock code OK s c
      = (OK, adv s [if isBlock then Ev.blockEnd (some code) else Ev.frameEnd (some code)], c.prune) := by
  unfold containerEnd
  have hd : dec s = s := dec0 s h0
  have hc : (True ∧ s.skip ≤ 0) := ⟨trivial, by omega⟩
  simp only [hd, hc, if_true, site_allCont]
  cases isBlock <;> simp only [Bool.false_eq_true, if_false, if_true] <;> rw [push_adv _ _ rfl] <;> simp

/-- a save frame after its `save_<code>` token, continuing the content `c0` -/
theorem frameD_doc (norm : Str → Str) (code : Str) (body : List Elem) (Y : List Tok) (s : St) (b : Bool) (c0 : Content)
    (f : Nat) (h0 : s.skip = 0) (hw : okElems norm false body c0 = true) (hf : szElems body + 1 ≤ f) :
    parseContainerD allContP norm 1 (f + 1) true false code (atb s (elemsToks body ++ plain .frameTerm [] :: Y) b) c0
      = (OK, atb (adv s (Ev.frameStart (some code) :: ((dupElems norm body c0).1 ++ [Ev.frameEnd (some code)]))) Y false,
         (dupElems norm body c0).2.prune) := by
  simp only [parseContainerD, contStart_atb, contStart_allCont false code s h0, ne_eq, not_true_eq_false, if_false,
    Bool.false_eq_true]
  rw [elemsD_doc norm false (fun h => nomatch h) body (plain .frameTerm []) Y _ b c0 f (by simp [h0]) hw rfl rfl hf]
  simp only [endState, Bool.false_eq_true, if_false, containerEnd_atb,
    containerEnd_allCont false code _ _ (by simp [h0] : (adv (adv s [Ev.frameStart (some code)]) (dupElems norm body c0).1).skip = 0)]
  simp [adv_adv]

theorem stepD_frame (norm : Str → Str) : StepFrameD norm := by
  intro code body Y s b c f h0 hw hf
  have hns : ¬ (False ∨ s.skip > 0) := by simp [h0]
  have h10 : ¬ ((1 : Int) = 0) := by decide
  have hrep : ∀ (x : St) (t : List Tok) (bb : Bool) (k : Nat), report (atb x t bb) k = atb (report x k) t bb := fun _ _ _ _ => rfl
  obtain ⟨g, rfl⟩ : ∃ g, f = g + 1 := ⟨f - 1, by omega⟩
  simp only [elemsLoopD, nextToken_atb s (plain .frameHead code) _ b rfl, plain_ty, atb_skip, cur_atb, plain_text, hns, if_false,
    h10, Bool.not_true, Bool.false_eq_true, and_false, consume_atb]
  cases hfind : findC norm c.frames code with
  | some old =>
    have hbase : frameBase norm c code = ⟨old.frames, old.loops⟩ := by simp [frameBase, hfind]
    rw [hbase] at hw
    simp only [hrep, consume_atb]
    rw [frameD_doc norm old.code body Y (report s CIF_DUP_FRAMECODE) false ⟨old.frames, old.loops⟩ g h0 hw (by omega)]
    simp only [if_true, dupElem, hfind, report_adv, adv_adv, List.singleton_append]
  | none =>
    have hbase : frameBase norm c code = .empty := by simp [frameBase, hfind]
    rw [hbase] at hw
    rw [frameD_doc norm code body Y s false .empty g h0 hw (by omega)]
    simp only [if_true, dupElem, hfind]

/-- a data block after its `data_<code>` token, continuing the content `c0` -/
theorem blockD_doc (norm : Str → Str) (code : Str) (body : List Elem) (t : Tok) (rest : List Tok) (s : St) (b : Bool)
    (c0 : Content) (f : Nat) (h0 : s.skip = 0) (hw : okElems norm true body c0 = true) (hpre : t.pre = [])
    (hterm : t.ty = .blockHead ∨ t.ty = .end_) (hf : szElems body + 1 ≤ f) :
    parseContainerD allContP norm 1 (f + 1) true true code (atb s (elemsToks body ++ t :: rest) b) c0
      = (OK, atb (adv s (Ev.blockStart (some code) :: ((dupElems norm body c0).1 ++ [Ev.blockEnd (some code)]))) (t :: rest) true,
         (dupElems norm body c0).2.prune) := by
  simp only [parseContainerD, contStart_atb, contStart_allCont true code s h0, ne_eq, not_true_eq_false, if_false, if_true]
  rw [elemsD_doc norm true (fun _ => stepD_frame norm) body t rest _ b c0 f (by simp [h0]) hw hpre (by simpa [termOK] using hterm) hf]
  simp only [endState, if_true, containerEnd_atb,
    containerEnd_allCont true code _ _ (by simp [h0] : (adv (adv s [Ev.blockStart (some code)]) (dupElems norm body c0).1).skip = 0)]
  simp [adv_adv]

theorem blocksD_doc (norm : Str → Str) : ∀ (d : Doc) (s : St) (b : Bool) (acc : List Container) (fuel : Nat),
    s.skip = 0 → okBlocks norm d acc = true → szDoc d + 1 ≤ fuel →
    blocksLoopD allContP norm 1 true fuel (atb s (blocksToks d ++ [plain .end_ []]) b) acc
      = (OK, atb (adv s (dupBlocks norm d acc).1) [plain .end_ []] true, (dupBlocks norm d acc).2)
  | [], s, b, acc, fuel, _, _, hf => by
    obtain ⟨f, rfl⟩ : ∃ f, fuel = f + 1 := ⟨fuel - 1, by omega⟩
    simp [blocksToks, blocksLoopD, nextToken_atb s (plain .end_ []) [] b rfl, dupBlocks, adv_nil]
  | blk :: bs, s, b, acc, fuel, h0, hw, hf => by
    obtain ⟨f, rfl⟩ : ∃ f, fuel = f + 1 := ⟨fuel - 1, by omega⟩
    simp only [szDoc] at hf
    simp only [okBlocks, Bool.and_eq_true] at hw
    obtain ⟨t, rest, hhead, hpre, hterm⟩ := blocks_head bs
    have htoks : blocksToks (blk :: bs) ++ [plain .end_ []]
        = plain .blockHead blk.code :: (elemsToks blk.body ++ (t :: rest)) := by
      rw [← hhead]; simp [blocksToks]
    have hle : s.skip ≤ 0 := by omega
    have hrep : ∀ (x : St) (tt : List Tok) (bb : Bool) (k : Nat), report (atb x tt bb) k = atb (report x k) tt bb :=
      fun _ _ _ _ => rfl
    rw [htoks]
    simp only [blocksLoopD, nextToken_atb s (plain .blockHead blk.code) _ b rfl, plain_ty, atb_skip, cur_atb, plain_text,
      consume_atb, hle, decide_true, Bool.and_self, if_true]
    obtain ⟨g, rfl⟩ : ∃ g, f = g + 1 := ⟨f - 1, by omega⟩
    cases hfind : findC norm acc blk.code with
    | some old =>
      have hbase : blockBase norm acc blk.code = ⟨old.frames, old.loops⟩ := by simp [blockBase, hfind]
      rw [hbase] at hw
      simp only [hfind] at hw
      simp only [hrep, consume_atb]
      rw [blockD_doc norm old.code blk.body t rest (report s CIF_DUP_BLOCKCODE) false ⟨old.frames, old.loops⟩ g h0 hw.1 hpre hterm
        (by omega)]
      simp only [if_true]
      rw [← hhead, blocksD_doc norm bs _ true _ (g + 1) (by simp [h0, report]) hw.2 (by omega)]
      simp only [dupBlocks, hfind, report_adv, adv_adv]
      simp
    | none =>
      have hbase : blockBase norm acc blk.code = .empty := by simp [blockBase, hfind]
      rw [hbase] at hw
      simp only [hfind] at hw
      rw [blockD_doc norm blk.code blk.body t rest s false .empty g h0 hw.1 hpre hterm (by omega)]
      simp only [if_true]
      rw [← hhead, blocksD_doc norm bs _ true _ (g + 1) (by simp [h0]) hw.2 (by omega)]
      simp only [dupBlocks, hfind, adv_adv]
      simp

/-- **duplicates under callbacks, all-continue, accepting error callback**: callbacks and store -/
theorem docD_allCont (norm : Str → Str) (d : Doc) (fuel : Nat) (hw : okDoc norm d = true) (hf : szDoc d + 1 ≤ fuel) :
    (parseCifD allContP norm 1 true fuel (St.init (tokensOf d))).1 = OK
    ∧ (parseCifD allContP norm 1 true fuel (St.init (tokensOf d))).2.1.log.reverse = dupEvents norm d
    ∧ (parseCifD allContP norm 1 true fuel (St.init (tokensOf d))).2.2 = dupDenote norm d := by
  have hinit : St.init (tokensOf d) = atb (St.init []) (blocksToks d ++ [plain .end_ []]) false := rfl
  have hne : allContP (St.init []).n (.cifStart true) ≠ END := by simp [allContP, CONTINUE, END]
  unfold parseCifD
  rw [hinit]
  simp only [atb_n, hne, if_false, site_atb, site_allCont, if_true]
  rw [blocksD_doc norm d _ false [] fuel (by rfl) hw hf]
  unfold cifEndStep
  simp only [if_true, dec_atb, push_atb, allContP]
  refine ⟨by simp [CONTINUE, OK], ?_, rfl⟩
  have hd : dec (adv (push (St.init []) (Ev.cifStart true)) (dupBlocks norm d []).1)
      = adv (push (St.init []) (Ev.cifStart true)) (dupBlocks norm d []).1 := dec0 _ (by rfl)
  simp only [hd]
  simp [adv, push, St.init, atb, dupEvents]


-- ---- documents without duplicates -------------------------------------------------------------------------------------------

/-- pairwise distinct after normalisation -/
def distinctN (norm : Str → Str) : List Str → Bool
  | [] => true
  | a :: r => !r.any (fun b => norm b == norm a) && distinctN norm r

def elemNames : Elem → List Str
  | .item n _ => [n]
  | .loop ns _ => ns
  | .frame _ _ => []

def frameCodes : List Elem → List Str
  | [] => []
  | .frame c _ :: es => c :: frameCodes es
  | _ :: es => frameCodes es

/-- the data names of a container body are pairwise distinct, and so are its frame codes -/
def distinctFlat (norm : Str → Str) (es : List Elem) : Bool :=
  distinctN norm (es.flatMap elemNames) && distinctN norm (frameCodes es)

def distinctBlock (norm : Str → Str) (es : List Elem) : Bool :=
  distinctFlat norm es && es.all (fun e => match e with | .frame _ body => distinctFlat norm body | _ => true)

/-- no duplicate block code, frame code (per block) or data name (per container), after normalisation `norm` -/
def distinctDoc (norm : Str → Str) (d : Doc) : Bool :=
  distinctN norm (d.map (·.code)) && d.all (fun b => distinctBlock norm b.body)

/-- the documents of the document-level theorems about `parseCB`: well-formed AND free of duplicates — with duplicates the C
    makes a DUP_* diagnostic, which `parseCB` does not model (`parseCBD` does: `C15_dup_all_continue_mirror`) -/
def wfDocN (norm : Str → Str) (d : Doc) : Bool := wfDoc d && distinctDoc norm d

theorem wfDocN_wf {norm : Str → Str} {d : Doc} (h : wfDocN norm d = true) : wfDoc d = true := by
  simp only [wfDocN, Bool.and_eq_true] at h; exact h.1

end CifModel.Lemmas.ParseCB
