import CifModel.Model.Analyze
import CifModel.Spec.Analyze
/-
  Lemmas for C18_reserved_iff and C18_set_unquoted_iff.
-/
namespace CifModel.Lemmas.Analyze
open CifModel CifModel.Model CifModel.Spec

theorem lower_letter (a w : Nat) (hw : 97 ≤ w ∧ w ≤ 122) : lowerAscii a = w ↔ (a = w ∨ a + 32 = w) := by
  show (if 65 ≤ a ∧ a ≤ 90 then a + 32 else a : Nat) = w ↔ _
  split <;> omega

theorem lower_under (a : Nat) : lowerAscii a = 95 ↔ a = 95 := by
  show (if 65 ≤ a ∧ a ≤ 90 then a + 32 else a : Nat) = 95 ↔ _
  split <;> omega

theorem ci_iff (s : Str) (i u : Nat) : ci s i u = true ↔ (unitAt s i = u ∨ unitAt s i = u + 32) := by
  simp [ci]

theorem lower_letter' (a w : Nat) (hw : 97 ≤ w ∧ w ≤ 122) : lowerAscii a = w ↔ (a + 32 = w ∨ a = w) := by
  rw [lower_letter a w hw]; exact Or.comm

/-- case analysis on the first (and, after `s`, second) unit down to literals; `simp` then evaluates both sides -/
syntax "res_tac" ident ident ident ident : tactic
macro_rules
  | `(tactic| res_tac $a $b $hf $hh) => `(tactic| (
  by_cases h1 : $a = 95 ∨ $a = 35 ∨ $a = 36 ∨ $a = 39 ∨ $a = 34
  · simp [isReserved, unitAt, h1]
  · by_cases hD : $a = 68 ∨ $a = 100
    · rcases hD with hx | hx <;> subst hx <;> simp [isReserved, unitAt, ci, lower_letter', lower_under, and_assoc, $hf:ident, $hh:ident]
    · by_cases hG : $a = 71 ∨ $a = 103
      · rcases hG with hx | hx <;> subst hx <;> simp [isReserved, unitAt, ci, lower_letter', lower_under, and_assoc, $hf:ident, $hh:ident]
      · by_cases hL : $a = 76 ∨ $a = 108
        · rcases hL with hx | hx <;> subst hx <;> simp [isReserved, unitAt, ci, lower_letter', lower_under, and_assoc, $hf:ident, $hh:ident]
        · by_cases hS : $a = 83 ∨ $a = 115
          · by_cases hA : $b = 65 ∨ $b = 97
            · rcases hS with hx | hx <;> subst hx <;> rcases hA with hy | hy <;> subst hy <;>
                simp [isReserved, unitAt, ci, lower_letter', lower_under, and_assoc, $hf:ident, $hh:ident]
            · by_cases hT : $b = 84 ∨ $b = 116
              · rcases hS with hx | hx <;> subst hx <;> rcases hT with hy | hy <;> subst hy <;>
                  simp [isReserved, unitAt, ci, lower_letter', lower_under, and_assoc, $hf:ident, $hh:ident]
              · rcases hS with hx | hx <;> subst hx <;> simp [isReserved, unitAt, ci, lower_letter', lower_under, and_assoc, hA, hT, $hf:ident, $hh:ident]
          · simp [isReserved, unitAt, ci, lower_letter', lower_under, h1, hD, hG, hL, hS, $hf:ident, $hh:ident]))

theorem res5 (a b c d e : Nat) (hf : True) (hh : True) : isReserved [a, b, c, d, e] = true ↔
    ((a = 95 ∨ a = 35 ∨ a = 36 ∨ a = 39 ∨ a = 34) ∨
      List.map lowerAscii (List.take 5 [a, b, c, d, e]) = a!"data_" ∨ List.map lowerAscii (List.take 5 [a, b, c, d, e]) = a!"save_" ∨
      List.map lowerAscii [a, b, c, d, e] = a!"loop_" ∨ List.map lowerAscii [a, b, c, d, e] = a!"stop_" ∨
      List.map lowerAscii [a, b, c, d, e] = a!"global_") := by
  res_tac a b hf hh

theorem res6 (a b c d e f : Nat) (hf : f ≠ 0) (hh : True) : isReserved [a, b, c, d, e, f] = true ↔
    ((a = 95 ∨ a = 35 ∨ a = 36 ∨ a = 39 ∨ a = 34) ∨
      List.map lowerAscii (List.take 5 [a, b, c, d, e, f]) = a!"data_" ∨ List.map lowerAscii (List.take 5 [a, b, c, d, e, f]) = a!"save_" ∨
      List.map lowerAscii [a, b, c, d, e, f] = a!"loop_" ∨ List.map lowerAscii [a, b, c, d, e, f] = a!"stop_" ∨
      List.map lowerAscii [a, b, c, d, e, f] = a!"global_") := by
  res_tac a b hf hh

theorem res7 (a b c d e f g : Nat) (hf : f ≠ 0) (hh : True) : isReserved [a, b, c, d, e, f, g] = true ↔
    ((a = 95 ∨ a = 35 ∨ a = 36 ∨ a = 39 ∨ a = 34) ∨
      List.map lowerAscii (List.take 5 [a, b, c, d, e, f, g]) = a!"data_" ∨ List.map lowerAscii (List.take 5 [a, b, c, d, e, f, g]) = a!"save_" ∨
      List.map lowerAscii [a, b, c, d, e, f, g] = a!"loop_" ∨ List.map lowerAscii [a, b, c, d, e, f, g] = a!"stop_" ∨
      List.map lowerAscii [a, b, c, d, e, f, g] = a!"global_") := by
  res_tac a b hf hh

theorem res8 (a b c d e f g h : Nat) (r : List Nat) (hf : f ≠ 0) (hh : h ≠ 0) : isReserved (a :: b :: c :: d :: e :: f :: g :: h :: r) = true ↔
    ((a = 95 ∨ a = 35 ∨ a = 36 ∨ a = 39 ∨ a = 34) ∨
      List.map lowerAscii (List.take 5 (a :: b :: c :: d :: e :: f :: g :: h :: r)) = a!"data_" ∨ List.map lowerAscii (List.take 5 (a :: b :: c :: d :: e :: f :: g :: h :: r)) = a!"save_" ∨
      List.map lowerAscii (a :: b :: c :: d :: e :: f :: g :: h :: r) = a!"loop_" ∨ List.map lowerAscii (a :: b :: c :: d :: e :: f :: g :: h :: r) = a!"stop_" ∨
      List.map lowerAscii (a :: b :: c :: d :: e :: f :: g :: h :: r) = a!"global_") := by
  res_tac a b hf hh

/-- `cif_is_reserved_string` is true exactly for the reserved forms, for every NUL-free string -/
theorem isReserved_iff (s : Str) (h0 : 0 ∉ s) : isReserved s = true ↔ reservedForm s := by
  simp only [reservedForm, reservedWord, reservedLead, ciPrefix, ciEq]
  rcases s with _ | ⟨a, _ | ⟨b, _ | ⟨c, _ | ⟨d, _ | ⟨e, _ | ⟨f, _ | ⟨g, _ | ⟨h, r⟩⟩⟩⟩⟩⟩⟩⟩
  · simp [isReserved, unitAt]
  · simp [isReserved, unitAt, ci]
  · simp [isReserved, unitAt, ci]
  · simp [isReserved, unitAt, ci]
  · simp [isReserved, unitAt, ci]
  · simpa using res5 a b c d e trivial trivial
  · have hf : f ≠ 0 := by intro h; subst h; simp at h0
    simpa using res6 a b c d e f hf trivial
  · have hf : f ≠ 0 := by intro h; subst h; simp at h0
    simpa using res7 a b c d e f g hf trivial
  · have hf : f ≠ 0 := by intro h; subst h; simp at h0
    have hh : h ≠ 0 := by intro x; subst x; simp at h0
    simpa using res8 a b c d e f g h r hf hh

end CifModel.Lemmas.Analyze
