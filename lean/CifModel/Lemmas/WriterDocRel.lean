import CifModel.Lemmas.WriterChunksDoc
/-
  Lemmas/WriterDocRel — from the abstract document of a walked CIF (`BlockRel`, Lemmas/WriterChunksDoc) to the hypotheses and the
  conclusion of gJ's C01_structure:
    * the fuel the parser model needs is bounded by the number of tokens,
    * the document is well-formed (`C01_wfDoc`) when the names and codes of the CIF are valid and distinct (`blocksN`),
    * what the document denotes is the CIF written (`backBlock`).
  Nothing of the writer's code occurs here.
-/
set_option linter.unusedSimpArgs false
set_option linter.unusedVariables false

namespace CifModel.Lemmas.WriterChunks
open CifModel CifModel.Model CifModel.Model.Writer CifModel.Model.Lexer CifModel.Model.Parser CifModel.Spec.Lexical CifModel.Spec.Grammar
open CifModel.Lemmas.LexGlue

/-! ### fuel: the size measure of Lemmas/ParserStructure against the number of tokens -/

mutual
  theorem szVal_toks : ∀ (v : Val), szVal v = (valToks v).length
    | .unk => rfl
    | .na => rfl
    | .str _ _ => rfl
    | .enc _ _ => rfl
    | .lst vs => by simp [szVal, valToks, szVals_toks vs]
    | .tbl es => by simp [szVal, valToks, szEntries_toks es]
  theorem szVals_toks : ∀ (vs : List Val), szVals vs = (valsToks vs).length
    | [] => rfl
    | v :: vs => by simp [szVals, valsToks, szVal_toks v, szVals_toks vs]
  theorem szEntries_toks : ∀ (es : List (Str × Presentation × Val)), szEntries es = (entriesToks es).length
    | [] => rfl
    | (k, p, v) :: es => by simp [szEntries, entriesToks, szVal_toks v, szEntries_toks es]; try omega
end

theorem szPackets_toks : ∀ (ps : List (List Val)), szPackets ps = (packetsToks ps).length
  | [] => rfl
  | p :: ps => by simp [szPackets, packetsToks, szVals_toks p, szPackets_toks ps]

theorem szItem_toks (i : Item) : szItem i = (itemToks i).length := by
  cases i with
  | item n v => simp [szItem, itemToks, szVal_toks v]
  | loop ns ps => simp [szItem, itemToks, szPackets_toks ps]; try omega

theorem szItem_pos (i : Item) : 0 < szItem i := by
  cases i <;> simp [szItem]

theorem szItems_toks : ∀ (b : List Item), szItems b = (itemsToks b).length ∧ b.length ≤ szItems b
  | [] => ⟨rfl, Nat.le_refl _⟩
  | i :: r => by
    have := szItems_toks r
    have hp := szItem_pos i
    simp only [szItems, itemsToks, List.length_append, List.length_cons, szItem_toks i] at hp ⊢
    omega

theorem szElems_toks : ∀ (es : List Elem), szElems es + es.length ≤ 2 * (elemsToks es).length
  | [] => by simp [szElems, elemsToks]
  | .plain i :: r => by
    have ih := szElems_toks r
    have hp := szItem_pos i
    simp only [szElems, szElem, elemsToks, elemToks, List.length_append, List.length_cons, szItem_toks i] at hp ⊢
    omega
  | .frame c b :: r => by
    have ih := szElems_toks r
    have hb := szElems_toks b
    simp only [szElems, szElem, elemsToks, elemToks, List.length_append, List.length_cons, List.length_nil] at ⊢
    omega

theorem szBlocks_toks : ∀ (d : List Block), szBlocks d ≤ 2 * (blocksToks d).length + d.length
  | [] => by simp [szBlocks, blocksToks]
  | b :: r => by
    have ih := szBlocks_toks r
    have hb := szElems_toks b.body
    simp only [szBlocks, szBlock, blocksToks, List.length_append, List.length_cons]
    omega

/-! ### what is asked of the names and codes -/

/-- the names of the scalar items: valid, not yet defined in the container -/
def scalarsN (o : Opts) : List Str → List Str → Prop
  | [], _ => True
  | n :: r, seen => wfName n = true ∧ seen.contains (o.norm n) = false ∧ scalarsN o r (o.norm n :: seen)

def seenScalars (o : Opts) : List Str → List Str → List Str
  | [], s => s
  | n :: r, s => seenScalars o r (o.norm n :: s)

/-- the loops of a container, `seen` = the normalised names defined so far: the scalar loop has a non-empty packet of validly
    named items; any other loop has a header of valid, fresh, pairwise different names, at least one packet, packets as long as
    the header -/
def loopsN (o : Opts) : List WLoop → List Str → Prop
  | [], _ => True
  | l :: r, seen =>
    (if isScalars l.category then scalarsN o ((l.packets.headD []).map (·.1)) seen ∧ l.packets.headD [] ≠ []
     else l.header ≠ [] ∧ l.packets ≠ [] ∧ l.header.all wfName = true ∧ freshAll o l.header seen = true
       ∧ hasDup (l.header.map o.norm) = false ∧ ∀ p ∈ l.packets, p.length = l.header.length)
    ∧ loopsN o r (if isScalars l.category then seenScalars o ((l.packets.headD []).map (·.1)) seen else l.header.map o.norm ++ seen)

/-- at most one scalar loop -/
def scalarOnce : List WLoop → Prop
  | [] => True
  | l :: r => (isScalars l.category = true → ∀ l' ∈ r, isScalars l'.category = false) ∧ scalarOnce r

/-- the code of a walked container -/
def wcode : WContainer → Str | .mk code _ _ => code

mutual
  /-- a save frame: valid code; its own save frames and loops as below; save frames inside a save frame ask for a parser whose
      max_frame_depth is not 1 -/
  def frameN (o : Opts) : WContainer → Prop
    | .mk code frames loops =>
      wfCode code = true ∧ (frames = [] ∨ o.maxFrameDepth ≠ 1) ∧ framesN o frames [] ∧ loopsN o loops [] ∧ scalarOnce loops
  /-- save frames: valid, pairwise different codes; loops as above -/
  def framesN (o : Opts) : List WContainer → List Str → Prop
    | [], _ => True
    | k :: r, fseen => frameN o k ∧ fseen.contains (o.norm (wcode k)) = false ∧ framesN o r (o.norm (wcode k) :: fseen)
end

/-- data blocks: valid, pairwise different codes; frames and loops as above -/
def blocksN (o : Opts) : List WContainer → List Str → Prop
  | [], _ => True
  | .mk code frames loops :: r, bseen =>
    wfCode code = true ∧ bseen.contains (o.norm code) = false ∧ framesN o frames [] ∧ loopsN o loops [] ∧ scalarOnce loops
      ∧ blocksN o r (o.norm code :: bseen)

/-! ### well-formedness of the document -/

theorem wfItems_cons (o : Opts) (i : Item) (r : List Item) (seen : List Str) :
    wfItems o (i :: r) seen = (wfItems o [i] seen && wfItems o r (itemNames o i ++ seen)) := by
  cases i with
  | item n v => simp [wfItems, itemNames, Bool.and_assoc]
  | loop ns ps => simp [wfItems, itemNames, Bool.and_assoc]

theorem all2_head {α β : Type} {R : α → β → Prop} {as : List α} {bs : List β} (h : All2 R as bs) (a0 : α) (b0 : β) (hne : as ≠ []) :
    R (as.headD a0) (bs.headD b0) := by
  cases h with
  | nil => exact absurd rfl hne
  | cons h _ => exact h

theorem all2_ne {α β : Type} {R : α → β → Prop} {as : List α} {bs : List β} (h : All2 R as bs) (hne : as ≠ []) : bs ≠ [] := by
  cases h with
  | nil => exact absurd rfl hne
  | cons _ _ => simp

/-- the scalar items of a packet are well-formed items -/
theorem scalars_wf (o : Opts) : ∀ (p : List (Str × V)) (vals : List Val) (seen : List Str) (rest : List Item),
    vals.length = p.length → wfVals o vals = true → scalarsN o (p.map (·.1)) seen →
    wfItems o (mkItems p vals ++ rest) seen = wfItems o rest (seenScalars o (p.map (·.1)) seen) := by
  intro p
  induction p with
  | nil =>
    intro vals seen rest hl _ _
    cases vals with
    | nil => rfl
    | cons _ _ => simp at hl
  | cons nv p ih =>
    intro vals seen rest hl hw hn
    obtain ⟨n, v⟩ := nv
    cases vals with
    | nil => simp at hl
    | cons val vals =>
      simp only [List.map_cons, scalarsN] at hn
      simp only [wfVals, Bool.and_eq_true] at hw
      have hl' : vals.length = p.length := by simpa using hl
      have := ih vals (o.norm n :: seen) rest hl' hw.2 hn.2.2
      simp only [mkItems, List.zipWith_cons_cons, List.cons_append, wfItems, hn.1, hn.2.1, hw.1, Bool.not_false, Bool.and_self,
        Bool.true_and, List.map_cons, seenScalars]
      exact this

theorem packets_all (o : Opts) (n : Nat) : ∀ (ps : List (List (Str × V))) (valss : List (List Val)), All2 (packetOk o) ps valss →
    (∀ p ∈ ps, p.length = n) → valss.all (fun p => p.length == n && wfVals o p) = true := by
  intro ps valss h
  induction h with
  | nil => intro _; rfl
  | cons h _ ih =>
    intro hn
    simp only [List.all_cons, Bool.and_eq_true, beq_iff_eq]
    exact ⟨⟨by rw [h.1]; exact hn _ (by simp), h.2.1⟩, ih (fun p hp => hn p (by simp [hp]))⟩

/-- the items of the loops are well-formed items -/
theorem loops_wf (o : Opts) : ∀ (loops : List WLoop) (its : List Item) (seen : List Str), LoopsRel o loops its → loopsN o loops seen →
    wfItems o its seen = true := by
  intro loops
  induction loops with
  | nil =>
    intro its seen h _
    simp only [LoopsRel] at h
    subst h; rfl
  | cons l r ih =>
    intro its seen h hn
    obtain ⟨valss, its', hp, rfl, hrel⟩ := h
    obtain ⟨hl, hr⟩ := hn
    cases hs : isScalars l.category with
    | true =>
      simp only [hs, if_true] at hl hr
      have hpk := all2_head hp [] [] (by intro e; rw [e] at hl; exact hl.2 rfl)
      simp only [loopItems, hs, if_true]
      rw [scalars_wf o _ _ seen its' hpk.1 hpk.2.1 hl.1]
      exact ih its' _ hrel hr
    | false =>
      simp only [hs, Bool.false_eq_true, if_false] at hl hr
      obtain ⟨h1, h2, h3, h4, h5, h6⟩ := hl
      have hv := packets_all o l.header.length l.packets valss hp h6
      have hne : valss ≠ [] := all2_ne hp h2
      simp only [loopItems, hs, Bool.false_eq_true, if_false, List.cons_append, List.nil_append, wfItems, h3, h4, h5, hv, Bool.and_true,
        Bool.not_false, Bool.true_and, Bool.and_eq_true, Bool.not_eq_true', List.isEmpty_eq_false_iff]
      exact ⟨⟨h1, hne⟩, ih its' _ hrel hr⟩

theorem elems_plain_wf (o : Opts) (fseen : List Str) (its : List Item) (seen : List Str) :
    wfElems o (its.map Elem.plain) seen fseen = wfItems o its seen :=
  wfElems_plains o its seen fseen

theorem noFrames_of_rel (o : Opts) (es : List Elem) (its : List Item) (h : FramesRel o [] es) :
    noFrames (es ++ its.map Elem.plain) = true := by
  simp only [FramesRel] at h
  subst h
  simpa using noFrames_plains its

mutual
theorem frame_wf (o : Opts) : ∀ (k : WContainer) (e : Elem), FrameRel o k e → frameN o k →
    ∃ code b, e = .frame code b ∧ code = wcode k ∧ wfCode code = true ∧ wfElems o b [] [] = true
      ∧ (noFrames b || o.maxFrameDepth != 1) = true
  | .mk code frames loops, e, h, hn => by
    simp only [FrameRel] at h
    obtain ⟨es, its, hfr, hlr, rfl⟩ := h
    simp only [frameN] at hn
    obtain ⟨h1, hdeep, h3, h4, _⟩ := hn
    refine ⟨code, _, rfl, rfl, h1, ?_, ?_⟩
    · exact frames_wf o frames es [] _ [] hfr h3 (fun fseen' => by rw [elems_plain_wf]; exact loops_wf o loops its [] hlr h4)
    · rcases hdeep with h | h
      · subst h
        rw [noFrames_of_rel o es its hfr]; rfl
      · simp [h]

theorem frames_wf (o : Opts) : ∀ (frames : List WContainer) (es : List Elem) (fseen : List Str) (tail : List Elem) (seen : List Str),
    FramesRel o frames es → framesN o frames fseen → (∀ fseen', wfElems o tail seen fseen' = true) →
    wfElems o (es ++ tail) seen fseen = true
  | [], es, fseen, tail, seen, h, _, ht => by
    simp only [FramesRel] at h
    subst h
    exact ht fseen
  | k :: r, es, fseen, tail, seen, h, hn, ht => by
    simp only [FramesRel] at h
    obtain ⟨e, es', hrel, rfl, hrest⟩ := h
    simp only [framesN] at hn
    obtain ⟨hk, h2, h5⟩ := hn
    obtain ⟨code, b, rfl, hc, h1, hwb, hdeep⟩ := frame_wf o k e hrel hk
    subst hc
    rw [List.cons_append, wfElems_frame]
    simp only [h1, h2, hwb, hdeep, Bool.not_false, Bool.and_self, Bool.true_and]
    exact frames_wf o r es' _ tail seen hrest h5 ht
end

theorem blocks_wf (o : Opts) : ∀ (ks : List WContainer) (d : List Block) (bseen : List Str), All2 (BlockRel o) ks d → blocksN o ks bseen →
    wfBlocks o d bseen = true := by
  intro ks d bseen h
  induction h generalizing bseen with
  | nil => intro _; rfl
  | cons hb _ ih =>
    intro hn
    obtain ⟨code, frames, loops, es, its, rfl, hfr, hlr, rfl⟩ := hb
    simp only [blocksN] at hn
    obtain ⟨h1, h2, h3, h4, _, h6⟩ := hn
    have hbody : wfElems o (es ++ its.map Elem.plain) [] [] = true :=
      frames_wf o frames es [] _ [] hfr h3 (fun fseen' => by rw [elems_plain_wf]; exact loops_wf o loops its [] hlr h4)
    simp only [wfBlocks, h1, h2, hbody, Bool.not_false, Bool.and_self, Bool.true_and]
    exact ih _ h6

/-! ### what the document denotes -/

/-- the loop read back: the scalar loop carries the names and values of its packet under category ""; any other loop its header
    and packets (the category of a loop is not part of the CIF syntax) -/
def backLoop (l : WLoop) (r : Loop) : Prop :=
  if isScalars l.category then
    r.category = some [] ∧ r.names = (l.packets.headD []).map (·.1) ∧ ∃ rv, r.packets = [rv] ∧ backVs ((l.packets.headD []).map (·.2)) rv
  else r.category = none ∧ r.names = l.header ∧ All2 (fun p rv => backVs (p.map (·.2)) rv) l.packets r.packets

mutual
  /-- the save frame read back: same code, its save frames and its loops in the order written -/
  def backFrame : WContainer → Container → Prop
    | .mk code frames loops, r => ∃ rf rl, r = Container.mk code rf rl ∧ backFrames frames rf ∧ All2 backLoop loops rl
  def backFrames : List WContainer → List Container → Prop
    | [], rs => rs = []
    | k :: ks, rs => ∃ r rs', rs = r :: rs' ∧ backFrame k r ∧ backFrames ks rs'
end

theorem backFrames_all2 : ∀ (ks : List WContainer) (rs : List Container), backFrames ks rs ↔ All2 backFrame ks rs
  | [], rs => by
    simp only [backFrames]
    constructor
    · rintro rfl; exact All2.nil
    · intro h; cases h; rfl
  | k :: ks, rs => by
    simp only [backFrames]
    constructor
    · rintro ⟨r, rs', rfl, h1, h2⟩
      exact All2.cons h1 ((backFrames_all2 ks rs').mp h2)
    · intro h
      cases h with
      | cons h1 h2 => exact ⟨_, _, rfl, h1, (backFrames_all2 ks _).mpr h2⟩

/-- the data block read back: same code, the save frames and the loops in the order written -/
def backBlock (k : WContainer) (r : Container) : Prop :=
  ∃ code frames loops rf rl, k = .mk code frames loops ∧ r = Container.mk code rf rl ∧ All2 backFrame frames rf ∧ All2 backLoop loops rl

theorem denoteItems_cons (dia : Dialect) (nk : Str → Str) (i : Item) (r : List Item) (acc : List Loop) :
    denoteItems dia nk (i :: r) acc = denoteItems dia nk r (denoteItems dia nk [i] acc) := by
  cases i <;> simp [denoteItems]

theorem putScalar_new : ∀ (acc : List Loop) (n : Str) (v : V), (∀ l ∈ acc, Spec.Grammar.isScalarLoop l = false) →
    putScalar acc n v = acc ++ [{ category := some [], names := [n], packets := [[v]] }]
  | [], _, _, _ => rfl
  | l :: ls, n, v, h => by
    have hl := h l (by simp)
    simp only [putScalar, hl, Bool.false_eq_true, if_false, List.cons_append]
    rw [putScalar_new ls n v (fun x hx => h x (by simp [hx]))]

theorem putScalar_more : ∀ (acc : List Loop) (ns : List Str) (pk : List V) (n : Str) (v : V), (∀ l ∈ acc, Spec.Grammar.isScalarLoop l = false) →
    putScalar (acc ++ [{ category := some [], names := ns, packets := [pk] }]) n v
      = acc ++ [{ category := some [], names := ns ++ [n], packets := [pk ++ [v]] }]
  | [], _, _, _, _, _ => by simp [putScalar, Spec.Grammar.isScalarLoop]
  | l :: ls, ns, pk, n, v, h => by
    have hl := h l (by simp)
    simp only [List.cons_append, putScalar, hl, Bool.false_eq_true, if_false]
    rw [putScalar_more ls ns pk n v (fun x hx => h x (by simp [hx]))]

theorem scalars_more (dia : Dialect) (nk : Str → Str) (acc : List Loop) (hacc : ∀ l ∈ acc, Spec.Grammar.isScalarLoop l = false) (rest : List Item) :
    ∀ (p : List (Str × V)) (vals : List Val) (ns : List Str) (pk : List V), vals.length = p.length →
    denoteItems dia nk (mkItems p vals ++ rest) (acc ++ [{ category := some [], names := ns, packets := [pk] }])
      = denoteItems dia nk rest (acc ++ [{ category := some [], names := ns ++ p.map (·.1), packets := [pk ++ denoteVals dia nk vals] }]) := by
  intro p
  induction p with
  | nil =>
    intro vals ns pk hl
    cases vals with
    | nil => simp [mkItems, denoteVals]
    | cons _ _ => simp at hl
  | cons nv p ih =>
    intro vals ns pk hl
    obtain ⟨n, v⟩ := nv
    cases vals with
    | nil => simp at hl
    | cons val vals =>
      have hl' : vals.length = p.length := by simpa using hl
      simp only [mkItems, List.zipWith_cons_cons, List.cons_append, denoteItems]
      rw [putScalar_more acc ns pk n _ hacc]
      have := ih vals (ns ++ [n]) (pk ++ [denoteVal dia nk val]) hl'
      simp only [mkItems] at this
      rw [this]
      simp [denoteVals, List.append_assoc]

theorem scalars_first (dia : Dialect) (nk : Str → Str) (acc : List Loop) (hacc : ∀ l ∈ acc, Spec.Grammar.isScalarLoop l = false) (rest : List Item)
    (p : List (Str × V)) (vals : List Val) (hl : vals.length = p.length) (hne : p ≠ []) :
    denoteItems dia nk (mkItems p vals ++ rest) acc
      = denoteItems dia nk rest (acc ++ [{ category := some [], names := p.map (·.1), packets := [denoteVals dia nk vals] }]) := by
  cases p with
  | nil => exact absurd rfl hne
  | cons nv p =>
    obtain ⟨n, v⟩ := nv
    cases vals with
    | nil => simp at hl
    | cons val vals =>
      have hl' : vals.length = p.length := by simpa using hl
      simp only [mkItems, List.zipWith_cons_cons, List.cons_append, denoteItems]
      rw [putScalar_new acc n _ hacc]
      have := scalars_more dia nk acc hacc rest p vals [n] [denoteVal dia nk val] hl'
      simp only [mkItems] at this
      rw [this]
      simp [denoteVals]

theorem all2_back (o : Opts) : ∀ (ps : List (List (Str × V))) (valss : List (List Val)), All2 (packetOk o) ps valss →
    All2 (fun p rv => backVs (p.map (·.2)) rv) ps (valss.map (denoteVals o.dia o.normKey)) := by
  intro ps valss h
  induction h with
  | nil => exact All2.nil
  | cons h _ ih => exact All2.cons h.2.2 ih

/-- loops other than the scalar loop: appended in the order written -/
theorem loops_denote_plain (o : Opts) : ∀ (loops : List WLoop) (its : List Item) (acc : List Loop),
    (∀ l ∈ loops, isScalars l.category = false) → LoopsRel o loops its →
    ∃ rl, denoteItems o.dia o.normKey its acc = acc ++ rl ∧ All2 backLoop loops rl := by
  intro loops
  induction loops with
  | nil =>
    intro its acc _ h
    simp only [LoopsRel] at h
    subst h
    exact ⟨[], by simp [denoteItems], All2.nil⟩
  | cons l r ih =>
    intro its acc hns h
    obtain ⟨valss, its', hp, rfl, hrel⟩ := h
    have hs := hns l (by simp)
    obtain ⟨rl, hrl, hb⟩ := ih its' (acc ++ [{ category := none, names := l.header, packets := valss.map (denoteVals o.dia o.normKey) }])
      (fun x hx => hns x (by simp [hx])) hrel
    refine ⟨{ category := none, names := l.header, packets := valss.map (denoteVals o.dia o.normKey) } :: rl, ?_, All2.cons ?_ hb⟩
    · simp only [loopItems, hs, Bool.false_eq_true, if_false, List.cons_append, List.nil_append, denoteItems]
      rw [hrl]; simp
    · simp only [backLoop, hs, Bool.false_eq_true, if_false]
      exact ⟨trivial, trivial, all2_back o _ _ hp⟩

theorem Spec.Grammar.isScalarLoop_none (ns : List Str) (ps : List (List V)) :
    Spec.Grammar.isScalarLoop { category := none, names := ns, packets := ps } = false := rfl

/-- the loops of a container: appended in the order written, the scalar loop where it was written -/
theorem loops_denote (o : Opts) : ∀ (loops : List WLoop) (its : List Item) (acc : List Loop) (seen : List Str),
    (∀ l ∈ acc, Spec.Grammar.isScalarLoop l = false) → scalarOnce loops → loopsN o loops seen → LoopsRel o loops its →
    ∃ rl, denoteItems o.dia o.normKey its acc = acc ++ rl ∧ All2 backLoop loops rl := by
  intro loops
  induction loops with
  | nil =>
    intro its acc _ _ _ _ h
    simp only [LoopsRel] at h
    subst h
    exact ⟨[], by simp [denoteItems], All2.nil⟩
  | cons l r ih =>
    intro its acc seen hacc hso hn h
    obtain ⟨valss, its', hp, rfl, hrel⟩ := h
    obtain ⟨hl, hr⟩ := hn
    obtain ⟨hso1, hso2⟩ := hso
    cases hs : isScalars l.category with
    | true =>
      simp only [hs, if_true] at hl hr
      have hne : l.packets ≠ [] := by intro e; rw [e] at hl; exact hl.2 rfl
      have hpk := all2_head hp [] [] hne
      obtain ⟨rl, hrl, hb⟩ := loops_denote_plain o r its'
        (acc ++ [{ category := some [], names := (l.packets.headD []).map (·.1), packets := [denoteVals o.dia o.normKey (valss.headD [])] }])
        (hso1 hs) hrel
      refine ⟨{ category := some [], names := (l.packets.headD []).map (·.1), packets := [denoteVals o.dia o.normKey (valss.headD [])] } :: rl,
        ?_, All2.cons ?_ hb⟩
      · simp only [loopItems, hs, if_true]
        rw [scalars_first o.dia o.normKey acc hacc its' _ _ hpk.1 hl.2, hrl]; simp
      · simp only [backLoop, hs, if_true]
        exact ⟨trivial, trivial, _, rfl, hpk.2.2⟩
    | false =>
      simp only [hs, Bool.false_eq_true, if_false] at hl hr
      obtain ⟨rl, hrl, hb⟩ := ih its' (acc ++ [{ category := none, names := l.header, packets := valss.map (denoteVals o.dia o.normKey) }]) _
        (by
          intro x hx
          rcases List.mem_append.mp hx with hx | hx
          · exact hacc x hx
          · simp only [List.mem_singleton] at hx; subst hx; rfl) hso2 hr hrel
      refine ⟨{ category := none, names := l.header, packets := valss.map (denoteVals o.dia o.normKey) } :: rl, ?_, All2.cons ?_ hb⟩
      · simp only [loopItems, hs, Bool.false_eq_true, if_false, List.cons_append, List.nil_append, denoteItems]
        rw [hrl]; simp
      · simp only [backLoop, hs, Bool.false_eq_true, if_false]
        exact ⟨trivial, trivial, all2_back o _ _ hp⟩

theorem denoteElems_plain (dia : Dialect) (nk : Str → Str) (its : List Item) (fs : List Container) (ls : List Loop) :
    denoteElems dia nk (its.map Elem.plain) fs ls = (fs, denoteItems dia nk its ls) :=
  Spec.Grammar.denoteElems_plains dia nk its fs ls

mutual
theorem frame_denote (o : Opts) : ∀ (k : WContainer) (e : Elem), FrameRel o k e → frameN o k →
    ∃ r, backFrame k r ∧ ∀ (fs : List Container) (ls : List Loop), denoteElem o.dia o.normKey e fs ls = (fs ++ [r], ls)
  | .mk code frames loops, e, h, hn => by
    simp only [FrameRel] at h
    obtain ⟨es, its, hfr, hlr, rfl⟩ := h
    simp only [frameN] at hn
    obtain ⟨_, _, h3, h4, h5⟩ := hn
    obtain ⟨rf, hrf, hden⟩ := frames_denote o frames es [] hfr h3
    obtain ⟨rl, hrl, hbl⟩ := loops_denote o loops its [] [] (by intro l hl; cases hl) h5 h4 hlr
    have hbody : denoteElems o.dia o.normKey (es ++ its.map Elem.plain) [] [] = (rf, rl) := by
      rw [hden, denoteElems_plain, hrl]; simp
    refine ⟨Container.mk code rf rl, ?_, ?_⟩
    · simp only [backFrame]
      exact ⟨rf, rl, rfl, (backFrames_all2 _ _).mpr hrf, hbl⟩
    · intro fs ls
      simp only [denoteElem, hbody]

theorem frames_denote (o : Opts) : ∀ (frames : List WContainer) (es : List Elem) (fseen : List Str),
    FramesRel o frames es → framesN o frames fseen →
    ∃ rf, All2 backFrame frames rf ∧ ∀ (tail : List Elem) (fs : List Container) (ls : List Loop),
      denoteElems o.dia o.normKey (es ++ tail) fs ls = denoteElems o.dia o.normKey tail (fs ++ rf) ls
  | [], es, fseen, h, _ => by
    simp only [FramesRel] at h
    subst h
    exact ⟨[], All2.nil, fun tail fs ls => by simp⟩
  | k :: r, es, fseen, h, hn => by
    simp only [FramesRel] at h
    obtain ⟨e, es', hrel, rfl, hrest⟩ := h
    simp only [framesN] at hn
    obtain ⟨hk, _, h5⟩ := hn
    obtain ⟨r0, hb, hd0⟩ := frame_denote o k e hrel hk
    obtain ⟨rf, hrf, hden⟩ := frames_denote o r es' _ hrest h5
    refine ⟨r0 :: rf, All2.cons hb hrf, ?_⟩
    intro tail fs ls
    rw [List.cons_append]
    simp only [denoteElems, hd0]
    rw [hden]
    simp
end

theorem blocks_denote (o : Opts) : ∀ (ks : List WContainer) (d : List Block) (bseen : List Str), All2 (BlockRel o) ks d → blocksN o ks bseen →
    All2 backBlock ks (denote o.dia o.normKey d) := by
  intro ks d bseen h
  induction h generalizing bseen with
  | nil => intro _; exact All2.nil
  | cons hb _ ih =>
    intro hn
    obtain ⟨code, frames, loops, es, its, rfl, hfr, hlr, rfl⟩ := hb
    simp only [blocksN] at hn
    obtain ⟨_, _, h3, h4, h5, h6⟩ := hn
    obtain ⟨rf, hrf, hden⟩ := frames_denote o frames es [] hfr h3
    obtain ⟨rl, hrl, hbl⟩ := loops_denote o loops its [] [] (by intro l hl; cases hl) h5 h4 hlr
    have hbody : denoteElems o.dia o.normKey (es ++ its.map Elem.plain) [] [] = (rf, rl) := by
      rw [hden, denoteElems_plain, hrl]; simp
    refine All2.cons ⟨code, frames, loops, rf, rl, rfl, ?_, hrf, hbl⟩ (ih _ h6)
    simp only [denoteBlock, hbody]

end CifModel.Lemmas.WriterChunks
