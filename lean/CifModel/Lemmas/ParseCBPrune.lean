import CifModel.Lemmas.ParseCBAllCont
/-
  CifModel.Lemmas.ParseCBPrune — stage 2b: for a program that only continues or skips, the structural interpreter `kDoc`
  stores the denotation of the document with the bypassed sub-trees removed (`Spec.Doc.prunedDoc`).
-/
namespace CifModel.Lemmas.ParseCB
open CifModel.ParseCB CifModel.Spec.Doc

theorem St.eta (s : St) (k : Int) (h : k = s.skip) :
    ({ toks := s.toks, scanned := s.scanned, skip := k, n := s.n, log := s.log } : St) = s := by
  subst h; rfl

theorem dec_inc (s : St) (h : 0 ≤ s.skip) : dec (inc s) = s := by
  unfold inc dec
  by_cases h1 : s.skip > 0
  · have h2 : s.skip + 1 > 0 := by omega
    simp only [h1, if_true, h2]
    exact St.eta s _ (by omega)
  · simp only [h1, if_false]

-- ---- productions entered while skipping: nothing happens ---------------------------------------------------------------

theorem kRow_skipped (p : Prog) (names : List Str) : ∀ (vals : List V) (col : Nat) (s : St), s.skip > 0 →
    kRow p names col vals s = s
  | [], _, _, _ => rfl
  | v :: vs, col, s, h => by
    have : ¬ (True ∧ s.skip ≤ 0) := by omega
    simp only [kRow, itemStep, this, if_false]
    exact kRow_skipped p names vs (col + 1) s h

theorem kPackets_skipped (p : Prog) (loopH : Bool) (names : List Str) : ∀ (pks : List (List V)) (s : St) (acc : List (List V)),
    s.skip > 0 → kPackets p loopH names pks s acc = (s, acc)
  | [], _, _, _ => rfl
  | pk :: pks, s, acc, h => by
    have h1 : (pktStartStep p s) = (OK, { s with skip := s.skip + 1 }) := by unfold pktStartStep; simp only [h, if_true]
    have h2 : ({ s with skip := s.skip + 1 } : St).skip > 0 := by show s.skip + 1 > 0; omega
    simp only [kPackets, h1, kRow_skipped p names pk 0 _ h2, pktEndStep, h2, if_true, Bool.false_and, Bool.false_eq_true,
      if_false]
    rw [St.eta s _ (by omega)]
    exact kPackets_skipped p loopH names pks s acc h

theorem kHeader_skipped : ∀ (names : List Str) (s : St), s.skip > 0 → kHeader names s = s
  | [], _, _ => rfl
  | nm :: ns, s, h => by
    have : ¬ s.skip ≤ 0 := by omega
    simp only [kHeader, this, if_false]
    exact kHeader_skipped ns s h

theorem kLoop_skipped (p : Prog) (cont : Bool) (names : List Str) (pks : List (List V)) (s : St) (h : s.skip > 0) :
    kLoop p cont names pks s = (s, none) := by
  have hi : (inc s).skip > 0 := by rw [inc_skip]; simp only [h, if_true]; omega
  have hn : ¬ (inc s).skip ≤ 0 := by omega
  unfold kLoop
  simp only [kHeader_skipped names _ hi, loopStartStep, hn, if_false, kPackets_skipped p false names pks _ [] hi, loopEndStep,
    hi, if_true, Bool.false_eq_true]
  have := dec_inc s (by omega)
  unfold dec at this
  simp only [hi, if_true] at this
  rw [this]

mutual
  theorem kElem_skipped (p : Prog) (cont : Bool) : ∀ (e : Elem) (s : St) (c : Content), s.skip > 0 →
      kElem p cont e s c = (s, c)
    | .item nm v, s, c, h => by simp only [kElem, h, if_true, dec_inc s (by omega)]
    | .loop names pks, s, c, h => by
      have : ¬ s.skip ≤ 0 := by omega
      simp only [kElem, this, if_false, kLoop_skipped p cont names pks s h]
    | .frame code body, s, c, h => by
      have hfc : (!decide ((!cont) = true ∨ s.skip > 0)) = false := by rw [decide_eq_true (Or.inr h)]; rfl
      have hi : (inc s).skip > 0 := by rw [inc_skip]; simp only [h, if_true]; omega
      have hst : contStartStep p false false code s = (OK, inc s) := by unfold contStartStep; simp only [h, if_true]
      simp only [kElem, hfc, hst, kElems_skipped p false body (inc s) Content.empty hi, containerEnd, Bool.false_eq_true,
        if_false]
      have hd : ¬ (True ∧ s.skip ≤ 0) := by omega
      simp only [dec_inc s (by omega), hd, if_false]
  theorem kElems_skipped (p : Prog) (cont : Bool) : ∀ (es : List Elem) (s : St) (c : Content), s.skip > 0 →
      kElems p cont es s c = (s, c)
    | [], _, _, _ => rfl
    | e :: es, s, c, h => by
      simp only [kElems, kElem_skipped p cont e s c h]
      exact kElems_skipped p cont es s c h
end

-- ---- the three answers at a call site ------------------------------------------------------------------------------------

theorem cur_ne_cont : ¬ (SKIP_CURRENT = CONTINUE) := by decide
theorem sib_ne_cont : ¬ (SKIP_SIBLINGS = CONTINUE) := by decide
theorem sib_ne_cur : ¬ (SKIP_SIBLINGS = SKIP_CURRENT) := by decide
theorem cur_ne_sib : ¬ (SKIP_CURRENT = SKIP_SIBLINGS) := by decide
theorem cont_ne_sib : ¬ (CONTINUE = SKIP_SIBLINGS) := by decide

@[simp] theorem setSkip_some_skip (s : St) (d : Int) : (setSkip s (some d)).skip = d := rfl
@[simp] theorem setSkip_none (s : St) : setSkip s none = s := rfl
@[simp] theorem setSkip_n (s : St) (d : Option Int) : (setSkip s d).n = s.n := by cases d <;> rfl

theorem site_cont (p : Prog) (s : St) (e : Ev) (cur sib : Option Int) (h : p s.n e = CONTINUE) :
    site p s e cur sib = (OK, push s e) := by simp [site, h]
theorem site_cur (p : Prog) (s : St) (e : Ev) (cur sib : Option Int) (h : p s.n e = SKIP_CURRENT) :
    site p s e cur sib = (OK, setSkip (push s e) cur) := by simp [site, h, cur_ne_cont]
theorem site_sib (p : Prog) (s : St) (e : Ev) (cur sib : Option Int) (h : p s.n e = SKIP_SIBLINGS) :
    site p s e cur sib = (OK, setSkip (push s e) sib) := by simp [site, h, sib_ne_cont, sib_ne_cur]

-- ---- productions entered at depth 0 ----------------------------------------------------------------------------------------

theorem kRow_d (p : Prog) (hp : NoStop p) (names : List Str) : ∀ (vals : List V) (col : Nat) (s : St), s.skip = 0 →
    col + vals.length ≤ names.length →
    (kRow p names col vals s).n = (dItems p (List.zip (names.drop col) vals) s.n).1
    ∧ (kRow p names col vals s).skip = (if (dItems p (List.zip (names.drop col) vals) s.n).2 then 1 else 0)
  | [], col, s, h0, _ => by simp [kRow, dItems, h0]
  | v :: vs, col, s, h0, hl => by
    have hlt : col < names.length := by simp at hl; omega
    have hdrop : names.drop col = names[col] :: names.drop (col + 1) := by rw [List.drop_eq_getElem_cons hlt]
    have hget : names.getD col [] = names[col] := by simp [List.getD, hlt]
    have hc : (True ∧ s.skip ≤ 0) := ⟨trivial, by omega⟩
    rw [hdrop]
    simp only [kRow, itemStep, hc, if_true, hget, List.zip_cons_cons, dItems]
    rcases hp s.n (.item names[col] v) with h | h | h
    · rw [site_cont p s _ _ _ h]
      simp only [h, cont_ne_sib, if_false]
      exact kRow_d p hp names vs (col + 1) _ (by simp [h0]) (by simp at hl ⊢; omega)
    · rw [site_cur p s _ _ _ h]
      simp only [h, cur_ne_sib, if_false, setSkip_none]
      exact kRow_d p hp names vs (col + 1) _ (by simp [h0]) (by simp at hl ⊢; omega)
    · rw [site_sib p s _ _ _ h]
      simp only [h, if_true]
      rw [kRow_skipped p names vs (col + 1) _ (by simp)]
      simp

theorem kHeader_ns : ∀ (names : List Str) (s : St), (kHeader names s).n = s.n ∧ (kHeader names s).skip = s.skip
  | [], s => ⟨rfl, rfl⟩
  | nm :: ns, s => by
    simp only [kHeader]
    split
    · exact kHeader_ns ns _
    · exact kHeader_ns ns _

theorem pktEnd_ns (p : Prog) (hp : NoStop p) (items : List (Str × V)) (s : St) :
    (s.skip > 0 → (pktEndStep p items s).2.1.n = s.n ∧ (pktEndStep p items s).2.1.skip = s.skip - 1
        ∧ (pktEndStep p items s).2.2 = false)
    ∧ (s.skip = 0 → (pktEndStep p items s).2.1.n = s.n + 1
        ∧ (pktEndStep p items s).2.1.skip = (if p s.n (.pktEnd items) = SKIP_SIBLINGS then 1 else 0)
        ∧ (pktEndStep p items s).2.2 = decide (p s.n (.pktEnd items) = CONTINUE)) := by
  unfold pktEndStep
  constructor
  · intro h; simp [h]
  · intro h
    have : ¬ s.skip > 0 := by omega
    simp only [this, if_false]
    rcases hp s.n (.pktEnd items) with h1 | h1 | h1
    · rw [site_cont p s _ _ _ h1]; simp [h1, cont_ne_sib, h]
    · rw [site_cur p s _ _ _ h1]; simp [h1, cur_ne_sib, cur_ne_cont, h]
    · rw [site_sib p s _ _ _ h1]; simp [h1, sib_ne_cont]

/-- one packet at depth 0, against `dPacket` -/
theorem packet_d (p : Prog) (hp : NoStop p) (names : List Str) (pk : List V) (s : St) (h0 : s.skip = 0)
    (hl : pk.length = names.length) :
    (pktEndStep p (List.zip names pk) (kRow p names 0 pk (pktStartStep p s).2)).2.1.n = (dPacket p names pk s.n).1
    ∧ (pktEndStep p (List.zip names pk) (kRow p names 0 pk (pktStartStep p s).2)).2.1.skip
        = (if (dPacket p names pk s.n).2.2 then 1 else 0)
    ∧ (pktEndStep p (List.zip names pk) (kRow p names 0 pk (pktStartStep p s).2)).2.2 = (dPacket p names pk s.n).2.1 := by
  have hns : ¬ s.skip > 0 := by omega
  unfold pktStartStep dPacket
  simp only [hns, if_false]
  rcases hp s.n .pktStart with h | h | h
  · rw [site_cont p s _ _ _ h]
    simp only [h, if_true]
    obtain ⟨r1, r2⟩ := kRow_d p hp names pk 0 (push s .pktStart) (by simp [h0]) (by simp [hl])
    simp only [List.drop_zero, push_n] at r1 r2
    obtain ⟨e1, e2⟩ := pktEnd_ns p hp (List.zip names pk) (kRow p names 0 pk (push s .pktStart))
    by_cases hsib : (dItems p (List.zip names pk) (s.n + 1)).2 = true
    · simp only [hsib, if_true] at r2 ⊢
      obtain ⟨a, b, c⟩ := e1 (by omega)
      simp [a, b, c, r1, r2]
    · simp only [hsib, Bool.false_eq_true, if_false] at r2 ⊢
      obtain ⟨a, b, c⟩ := e2 r2
      rw [a, b, c, r1]
      simp
  · rw [site_cur p s _ _ _ h]
    simp only [h, cur_ne_cont, if_false, cur_ne_sib, decide_false]
    rw [kRow_skipped p names pk 0 _ (by simp)]
    obtain ⟨e1, _⟩ := pktEnd_ns p hp (List.zip names pk) (setSkip (push s .pktStart) (some 1))
    obtain ⟨a, b, c⟩ := e1 (by simp)
    simp [a, b, c]
  · rw [site_sib p s _ _ _ h]
    simp only [h, sib_ne_cont, if_false, decide_true]
    rw [kRow_skipped p names pk 0 _ (by simp)]
    obtain ⟨e1, _⟩ := pktEnd_ns p hp (List.zip names pk) (setSkip (push s .pktStart) (some 2))
    obtain ⟨a, b, c⟩ := e1 (by simp)
    simp [a, b, c]

theorem kPackets_d (p : Prog) (hp : NoStop p) (names : List Str) : ∀ (pks : List (List V)) (s : St) (acc : List (List V)),
    s.skip = 0 → (∀ pk ∈ pks, pk.length = names.length) →
    (kPackets p true names pks s acc).1.n = (dPackets p names pks s.n).1
    ∧ (kPackets p true names pks s acc).1.skip = (if (dPackets p names pks s.n).2.2 then 1 else 0)
    ∧ (kPackets p true names pks s acc).2 = acc ++ (dPackets p names pks s.n).2.1
  | [], s, acc, h0, _ => by simp [kPackets, dPackets, h0]
  | pk :: pks, s, acc, h0, hl => by
    obtain ⟨a, b, c⟩ := packet_d p hp names pk s h0 (hl pk (List.mem_cons_self ..))
    simp only [kPackets, dPackets]
    generalize pktEndStep p (List.zip names pk) (kRow p names 0 pk (pktStartStep p s).2) = pe at a b c ⊢
    by_cases hsib : (dPacket p names pk s.n).2.2 = true
    · simp only [hsib, if_true] at b ⊢
      rw [kPackets_skipped p true names pks pe.2.1 _ (by omega)]
      simp only [a, b, c, Bool.and_true, true_and]
      cases (dPacket p names pk s.n).2.1 <;> simp
    · simp only [hsib, Bool.false_eq_true, if_false] at b ⊢
      obtain ⟨x, y, z⟩ := kPackets_d p hp names pks pe.2.1 (if pe.2.2 && true then acc ++ [pk] else acc) b
        (fun q hq => hl q (List.mem_cons_of_mem _ hq))
      rw [x, y, z, a, c]
      refine ⟨rfl, rfl, ?_⟩
      cases (dPacket p names pk s.n).2.1 <;> simp

theorem loopEnd_ns (p : Prog) (hp : NoStop p) (hd : Option (List Str)) (s : St) :
    (s.skip > 0 → (loopEndStep p hd OK s).2.n = s.n ∧ (loopEndStep p hd OK s).2.skip = s.skip - 1)
    ∧ (s.skip = 0 → (loopEndStep p hd OK s).2.n = s.n + 1
        ∧ (loopEndStep p hd OK s).2.skip = (if p s.n (.loopEnd hd) = SKIP_SIBLINGS then 1 else 0)) := by
  unfold loopEndStep
  constructor
  · intro h; simp [h]
  · intro h
    have : ¬ s.skip > 0 := by omega
    simp only [this, if_false, if_true]
    rcases hp s.n (.loopEnd hd) with h1 | h1 | h1
    · rw [site_cont p s _ _ _ h1]; simp [h1, cont_ne_sib, h]
    · rw [site_cur p s _ _ _ h1]; simp [h1, cur_ne_sib, h]
    · rw [site_sib p s _ _ _ h1]; simp [h1]

theorem kLoop_d (p : Prog) (hp : NoStop p) (names : List Str) (pks : List (List V)) (s : St) (c : Content)
    (h0 : s.skip = 0) (hl : ∀ pk ∈ pks, pk.length = names.length) :
    (kLoop p true names pks s).1.n = (dLoop p true names pks s.n).1
    ∧ (kLoop p true names pks s).1.skip = (if (dLoop p true names pks s.n).2.2 then 1 else 0)
    ∧ (match (kLoop p true names pks s).2 with | some l => c.addLoop l | none => c)
        = denotePBody (dLoop p true names pks s.n).2.1 c := by
  obtain ⟨hn1, hs1⟩ := kHeader_ns names (inc s)
  rw [inc0 s h0] at hn1 hs1
  unfold kLoop dLoop
  rw [inc0 s h0]
  generalize kHeader names s = s1 at hn1 hs1 ⊢
  have hs1' : s1.skip ≤ 0 := by omega
  simp only [loopStartStep, hs1', if_true, ← hn1]
  rcases hp s1.n (.loopStart names) with h | h | h
  · rw [site_cont p s1 _ _ _ h]
    simp only [h, if_true, decide_true, Bool.and_self]
    obtain ⟨a, b, e⟩ := kPackets_d p hp names pks (push s1 (.loopStart names)) [] (by simp; omega) hl
    simp only [push_n, List.nil_append] at a b e
    obtain ⟨l1, l2⟩ := loopEnd_ns p hp (some names) (kPackets p true names pks (push s1 (.loopStart names)) []).1
    by_cases hb : (dPackets p names pks (s1.n + 1)).2.2 = true
    · simp only [hb, if_true] at b ⊢
      obtain ⟨x, y⟩ := l1 (by omega)
      simp [x, y, a, b, e, denotePBody, denotePElem]
    · simp only [hb, Bool.false_eq_true, if_false] at b ⊢
      obtain ⟨x, y⟩ := l2 b
      rw [x, y, a, e]
      simp [denotePBody, denotePElem]
  · rw [site_cur p s1 _ _ _ h]
    simp only [h, cur_ne_cont, if_false, decide_false, Bool.and_false, cur_ne_sib]
    rw [kPackets_skipped p false names pks _ [] (by simp)]
    obtain ⟨l1, _⟩ := loopEnd_ns p hp none (setSkip (push s1 (.loopStart names)) (some 1))
    obtain ⟨x, y⟩ := l1 (by simp)
    simp [x, y, denotePBody]
  · rw [site_sib p s1 _ _ _ h]
    simp only [h, sib_ne_cont, if_false, decide_false, Bool.and_false, decide_true]
    rw [kPackets_skipped p false names pks _ [] (by simp)]
    obtain ⟨l1, _⟩ := loopEnd_ns p hp none (setSkip (push s1 (.loopStart names)) (some 2))
    obtain ⟨x, y⟩ := l1 (by simp)
    simp [x, y, denotePBody]

theorem denotePBody_append : ∀ (a b : List Elem) (c : Content), denotePBody (a ++ b) c = denotePBody b (denotePBody a c)
  | [], b, c => by simp [denotePBody]
  | e :: a, b, c => by simp [denotePBody, denotePBody_append a b]

/-- container_end (result CIF_OK so far) from depth 0 or 1: the end handler is called; from depth 2: it is not -/
theorem containerEnd_ns (p : Prog) (hp : NoStop p) (isBlock : Bool) (code : Str) (s : St) (c : Content) :
    (s.skip = 0 ∨ s.skip = 1 →
        (containerEnd p true isBlock code OK s c).2.1.n = s.n + 1
        ∧ (containerEnd p true isBlock code OK s c).2.1.skip
            = (if p s.n (if isBlock then Ev.blockEnd (some code) else Ev.frameEnd (some code)) = SKIP_SIBLINGS then 1 else 0)
        ∧ (containerEnd p true isBlock code OK s c).2.2 = c.prune)
    ∧ (s.skip = 2 → (containerEnd p true isBlock code OK s c).2.1.n = s.n ∧ (containerEnd p true isBlock code OK s c).2.1.skip = 1
        ∧ (containerEnd p true isBlock code OK s c).2.2 = c) := by
  unfold containerEnd
  have hdn : (dec s).n = s.n := dec_n s
  constructor
  · intro h
    have hd : (dec s).skip = 0 := by rw [dec_skip]; split <;> omega
    have hc : (True ∧ (dec s).skip ≤ 0) := ⟨trivial, by omega⟩
    simp only [hc, if_true]
    generalize (if isBlock then Ev.blockEnd (some code) else Ev.frameEnd (some code)) = e
    rw [← hdn]
    rcases hp (dec s).n e with h1 | h1 | h1
    · rw [site_cont p _ _ _ _ h1]; simp [h1, cont_ne_sib]; split <;> omega
    · rw [site_cur p _ _ _ _ h1]; simp [h1, cur_ne_sib]; split <;> omega
    · rw [site_sib p _ _ _ _ h1]; simp [h1]
  · intro h
    have hd : (dec s).skip = 1 := by rw [dec_skip]; split <;> omega
    have hc : ¬ (True ∧ (dec s).skip ≤ 0) := by omega
    simp only [hc, if_false]
    exact ⟨hdn, hd, trivial⟩

theorem contStart_ns (p : Prog) (hp : NoStop p) (isBlock : Bool) (code : Str) (s : St) (h0 : s.skip = 0) :
    (contStartStep p true isBlock code s).2.n = s.n + 1
    ∧ (contStartStep p true isBlock code s).2.skip
        = (if p s.n (if isBlock then Ev.blockStart (some code) else Ev.frameStart (some code)) = CONTINUE then 0
           else if p s.n (if isBlock then Ev.blockStart (some code) else Ev.frameStart (some code)) = SKIP_CURRENT then 1 else 2) := by
  unfold contStartStep
  have : ¬ s.skip > 0 := by omega
  simp only [this, if_false, if_true]
  generalize (if isBlock then Ev.blockStart (some code) else Ev.frameStart (some code)) = e
  rcases hp s.n e with h1 | h1 | h1
  · rw [site_cont p _ _ _ _ h1]; simp [h1, h0]
  · rw [site_cur p _ _ _ _ h1]; simp [h1, cur_ne_cont]
  · rw [site_sib p _ _ _ _ h1]; simp [h1, sib_ne_cont, sib_ne_cur]

theorem prune_empty : Content.empty.prune = Content.empty := rfl

/-- a container (frame or block) entered at depth 0 with a container handle: (handler count, depth after, content) -/
theorem cont_d (p : Prog) (hp : NoStop p) (isBlock : Bool) (code : Str) (body : List Elem) (s : St) (h0 : s.skip = 0)
    (ih : ∀ (s' : St) (c' : Content), s'.skip = 0 →
      (kElems p true body s' c').1.n = (dElems p true body s'.n).1
      ∧ ((kElems p true body s' c').1.skip = 0 ∨ (kElems p true body s' c').1.skip = 1)
      ∧ (kElems p true body s' c').2 = denotePBody (dElems p true body s'.n).2 c') :
    let st := (contStartStep p true isBlock code s).2
    let el := kElems p true body st .empty
    let ce := containerEnd p true isBlock code OK el.1 el.2
    let eS := if isBlock then Ev.blockStart (some code) else Ev.frameStart (some code)
    let eE := if isBlock then Ev.blockEnd (some code) else Ev.frameEnd (some code)
    (p s.n eS = CONTINUE →
        ce.2.1.n = (dElems p true body (s.n + 1)).1 + 1
        ∧ ce.2.1.skip = (if p (dElems p true body (s.n + 1)).1 eE = SKIP_SIBLINGS then 1 else 0)
        ∧ ce.2.2 = (denotePBody (dElems p true body (s.n + 1)).2 .empty).prune)
    ∧ (p s.n eS = SKIP_CURRENT →
        ce.2.1.n = s.n + 2 ∧ ce.2.1.skip = (if p (s.n + 1) eE = SKIP_SIBLINGS then 1 else 0) ∧ ce.2.2 = Content.empty)
    ∧ (p s.n eS = SKIP_SIBLINGS → ce.2.1.n = s.n + 1 ∧ ce.2.1.skip = 1 ∧ ce.2.2 = Content.empty) := by
  intro st el ce eS eE
  obtain ⟨hn, hsk⟩ := contStart_ns p hp isBlock code s h0
  refine ⟨fun h => ?_, fun h => ?_, fun h => ?_⟩
  · have hst0 : st.skip = 0 := by simp only [st, hsk, eS, h, if_true]
    obtain ⟨a, b, e⟩ := ih st .empty hst0
    obtain ⟨c1, _⟩ := containerEnd_ns p hp isBlock code el.1 el.2
    obtain ⟨x, y, z⟩ := c1 b
    have hstn : st.n = s.n + 1 := hn
    refine ⟨?_, ?_, ?_⟩
    · show (containerEnd p true isBlock code OK el.1 el.2).2.1.n = _
      rw [x, a, hstn]
    · show (containerEnd p true isBlock code OK el.1 el.2).2.1.skip = _
      rw [y, a, hstn]
    · show (containerEnd p true isBlock code OK el.1 el.2).2.2 = _
      rw [z, e, hstn]
  · have hst1 : st.skip = 1 := by simp only [st, hsk, eS, h, cur_ne_cont, if_false, if_true]
    have hel : el = (st, Content.empty) := kElems_skipped p true body st .empty (by omega)
    obtain ⟨c1, _⟩ := containerEnd_ns p hp isBlock code st .empty
    obtain ⟨x, y, z⟩ := c1 (Or.inr hst1)
    have hstn : st.n = s.n + 1 := hn
    simp only [ce, hel, x, y, z, hstn, prune_empty]
    exact ⟨trivial, rfl, trivial⟩
  · have hst2 : st.skip = 2 := by simp only [st, hsk, eS, h, sib_ne_cont, sib_ne_cur, if_false]
    have hel : el = (st, Content.empty) := kElems_skipped p true body st .empty (by omega)
    obtain ⟨_, c2⟩ := containerEnd_ns p hp isBlock code st .empty
    obtain ⟨x, y, z⟩ := c2 hst2
    have hstn : st.n = s.n + 1 := hn
    simp only [ce, hel, x, y, z, hstn]
    exact ⟨trivial, trivial, trivial⟩

mutual
  theorem kElem_d (p : Prog) (hp : NoStop p) : ∀ (e : Elem) (a : Bool) (s : St) (c : Content), s.skip = 0 → wfElem a e = true →
      (kElem p true e s c).1.n = (dElem p true e s.n).1
      ∧ (kElem p true e s c).1.skip = (if (dElem p true e s.n).2.2 then 1 else 0)
      ∧ (kElem p true e s c).2 = denotePBody (dElem p true e s.n).2.1 c
    | .item nm v, a, s, c, h0, _ => by
      have hns : ¬ s.skip > 0 := by omega
      have hnote : (note s (Ev.dataname nm)).skip = 0 := h0
      simp only [kElem, hns, if_false, inc0 _ hnote, scalarItemStep, dElem]
      have hnn : (note s (Ev.dataname nm)).n = s.n := rfl
      rw [← hnn]
      rcases hp (note s (Ev.dataname nm)).n (.item nm v) with h | h | h
      · rw [site_cont p _ _ _ _ h]
        simp [h, h0, cont_ne_sib, dec0 (push (note s (Ev.dataname nm)) (Ev.item nm v)) (by simpa using hnote), denotePBody,
          denotePElem]
      · rw [site_cur p _ _ _ _ h]
        simp [h, h0, cur_ne_sib, cur_ne_cont, dec0 (push (note s (Ev.dataname nm)) (Ev.item nm v)) (by simpa using hnote),
          denotePBody]
      · rw [site_sib p _ _ _ _ h]
        simp [h, sib_ne_cont, denotePBody, dec_n, dec_skip]
    | .loop names pks, a, s, c, h0, hw => by
      obtain ⟨_, _, hall⟩ := loop_wf_all names pks hw
      have hle : s.skip ≤ 0 := by omega
      simp only [kElem, hle, if_true, dElem]
      exact kLoop_d p hp names pks (note s (Ev.keyword [])) c h0 (fun pk h => (hall pk h).2.1)
    | .frame code body, a, s, c, h0, hw => by
      have hwb : wfElems false body = true := by
        simp only [wfElem, Bool.and_eq_true] at hw; exact hw.2
      have hfc : (!decide ((!true) = true ∨ s.skip > 0)) = true := by simp [h0]
      obtain ⟨d1, d2, d3⟩ := cont_d p hp false code body s h0 (fun s' c' h => kElems_d p hp body false s' c' h hwb)
      simp only [Bool.false_eq_true, if_false] at d1 d2 d3
      simp only [kElem, hfc, if_true, dElem]
      rcases hp s.n (.frameStart (some code)) with h | h | h
      · obtain ⟨x, y, z⟩ := d1 h
        simp only [h, if_true, x, y, z, denotePBody, denotePElem]
        exact ⟨trivial, by split <;> simp_all, trivial⟩
      · obtain ⟨x, y, z⟩ := d2 h
        simp only [h, cur_ne_cont, if_false, if_true, x, y, z, denotePBody, denotePElem]
        exact ⟨trivial, by split <;> simp_all, rfl⟩
      · obtain ⟨x, y, z⟩ := d3 h
        simp only [h, sib_ne_cont, sib_ne_cur, if_false, x, y, z, denotePBody, denotePElem]
        exact ⟨trivial, by simp, rfl⟩
  theorem kElems_d (p : Prog) (hp : NoStop p) : ∀ (es : List Elem) (a : Bool) (s : St) (c : Content), s.skip = 0 →
      wfElems a es = true →
      (kElems p true es s c).1.n = (dElems p true es s.n).1
      ∧ ((kElems p true es s c).1.skip = 0 ∨ (kElems p true es s c).1.skip = 1)
      ∧ (kElems p true es s c).2 = denotePBody (dElems p true es s.n).2 c
    | [], a, s, c, h0, _ => by simp [kElems, dElems, denotePBody, h0]
    | e :: es, a, s, c, h0, hw => by
      simp only [wfElems, Bool.and_eq_true] at hw
      obtain ⟨x, y, z⟩ := kElem_d p hp e a s c h0 hw.1
      simp only [kElems, dElems]
      by_cases hsib : (dElem p true e s.n).2.2 = true
      · simp only [hsib, if_true] at y ⊢
        rw [kElems_skipped p true es _ _ (by omega)]
        exact ⟨x, Or.inr y, z⟩
      · simp only [hsib, Bool.false_eq_true, if_false] at y ⊢
        obtain ⟨x2, y2, z2⟩ := kElems_d p hp es a (kElem p true e s c).1 (kElem p true e s c).2 y hw.2
        rw [x] at x2 z2
        refine ⟨x2, y2, ?_⟩
        rw [z2, z, denotePBody_append]
end

def denotePBlock (b : Block) : Container :=
  Container.mk b.code (denotePBody b.body .empty).prune.frames (denotePBody b.body .empty).prune.loops

theorem kBlock_skipped (p : Prog) (cif : Bool) (b : Block) (s : St) (acc : List Container) (h : s.skip > 0) :
    kBlock p cif b s acc = (s, acc) := by
  have hbc : (cif && decide (s.skip ≤ 0)) = false := by
    have : ¬ s.skip ≤ 0 := by omega
    simp [this]
  have hi : (inc s).skip > 0 := by rw [inc_skip]; simp only [h, if_true]; omega
  have hst : contStartStep p false true b.code s = (OK, inc s) := by unfold contStartStep; simp only [h, if_true]
  have hd : ¬ (True ∧ s.skip ≤ 0) := by omega
  simp only [kBlock, hbc, hst, kElems_skipped p false b.body (inc s) Content.empty hi, containerEnd, Bool.false_eq_true,
    if_false, dec_inc s (by omega), hd]

theorem kBlocks_skipped (p : Prog) (cif : Bool) : ∀ (d : Doc) (s : St) (acc : List Container), s.skip > 0 →
    kBlocks p cif d s acc = (s, acc)
  | [], _, _, _ => rfl
  | b :: bs, s, acc, h => by
    simp only [kBlocks, kBlock_skipped p cif b s acc h]
    exact kBlocks_skipped p cif bs s acc h

theorem kBlock_d (p : Prog) (hp : NoStop p) (b : Block) (s : St) (acc : List Container) (h0 : s.skip = 0)
    (hw : wfElems true b.body = true) :
    (kBlock p true b s acc).1.n = (dBlock p true b s.n).1
    ∧ (kBlock p true b s acc).1.skip = (if (dBlock p true b s.n).2.2 then 1 else 0)
    ∧ (kBlock p true b s acc).2 = acc ++ [denotePBlock (dBlock p true b s.n).2.1] := by
  have hbc : (true && decide (s.skip ≤ 0)) = true := by simp [h0]
  obtain ⟨d1, d2, d3⟩ := cont_d p hp true b.code b.body s h0 (fun s' c' h => kElems_d p hp b.body true s' c' h hw)
  simp only [if_true] at d1 d2 d3
  simp only [kBlock, hbc, if_true, dBlock]
  rcases hp s.n (.blockStart (some b.code)) with h | h | h
  · obtain ⟨x, y, z⟩ := d1 h
    simp only [h, if_true, x, y, z, denotePBlock]
    exact ⟨trivial, by split <;> simp_all, trivial⟩
  · obtain ⟨x, y, z⟩ := d2 h
    simp only [h, cur_ne_cont, if_false, if_true, x, y, z, denotePBlock]
    exact ⟨trivial, by split <;> simp_all, rfl⟩
  · obtain ⟨x, y, z⟩ := d3 h
    simp only [h, sib_ne_cont, sib_ne_cur, if_false, x, y, z, denotePBlock]
    exact ⟨trivial, by simp, rfl⟩

theorem kBlocks_d (p : Prog) (hp : NoStop p) : ∀ (d : Doc) (s : St) (acc : List Container), s.skip = 0 → wfDoc d = true →
    (kBlocks p true d s acc).2 = acc ++ (dBlocks p true d s.n).map denotePBlock
  | [], s, acc, _, _ => by simp [kBlocks, dBlocks]
  | b :: bs, s, acc, h0, hw => by
    simp only [wfDoc, List.all_cons, Bool.and_eq_true] at hw
    obtain ⟨x, y, z⟩ := kBlock_d p hp b s acc h0 hw.1
    simp only [kBlocks, dBlocks]
    by_cases hsib : (dBlock p true b s.n).2.2 = true
    · simp only [hsib, if_true] at y ⊢
      rw [kBlocks_skipped p true bs _ _ (by omega), z]
      simp
    · simp only [hsib, Bool.false_eq_true, if_false] at y ⊢
      rw [kBlocks_d p hp bs _ _ y (by simpa [wfDoc] using hw.2), z, x]
      simp

/-- **stage 2b**: the structural interpreter stores the denotation of the pruned document -/
theorem kDoc_d (p : Prog) (hp : NoStop p) (d : Doc) (hw : wfDoc d = true) :
    (kDoc p true d (St.init [])).2 = denoteP (prunedDoc p true d) := by
  have h0 : (St.init []).skip = 0 := rfl
  have hn0 : (St.init []).n = 0 := rfl
  unfold kDoc prunedDoc
  rw [← hn0]
  rcases hp (St.init []).n (.cifStart true) with h | h | h
  · rw [site_cont p _ _ _ _ h]
    simp only [h, if_true]
    rw [kBlocks_d p hp d _ [] (by simp [h0]) hw]
    simp [denoteP, denotePBlock, hn0]
  · rw [site_cur p _ _ _ _ h]
    simp only [h, cur_ne_cont, if_false]
    rw [kBlocks_skipped p true d _ [] (by simp)]
    simp [denoteP]
  · rw [site_sib p _ _ _ _ h]
    simp only [h, sib_ne_cont, if_false]
    rw [kBlocks_skipped p true d _ [] (by simp)]
    simp [denoteP]

end CifModel.Lemmas.ParseCB
