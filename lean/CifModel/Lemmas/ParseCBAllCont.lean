import CifModel.Lemmas.ParseCBDoc
/-
  CifModel.Lemmas.ParseCBAllCont — stage 2a: with handlers that always continue, the structural interpreter delivers the
  callbacks the document owes (`docEvents`) and stores its denotation.
-/
namespace CifModel.Lemmas.ParseCB
open CifModel.ParseCB CifModel.Spec.Doc

def allContP : Prog := fun _ _ => CONTINUE

theorem allContP_noStop : NoStop allContP := fun _ _ => Or.inl rfl

/-- the state after the callbacks `l` (chronological) -/
def adv (s : St) (l : List Ev) : St := { s with n := s.n + (hs l).length, log := l.reverse ++ s.log }

@[simp] theorem adv_skip (s : St) (l : List Ev) : (adv s l).skip = s.skip := rfl
theorem adv_nil (s : St) : adv s [] = s := by simp [adv]
theorem adv_adv (s : St) (a b : List Ev) : adv (adv s a) b = adv s (a ++ b) := by
  simp [adv, Nat.add_assoc]
theorem push_adv (s : St) (e : Ev) (he : e.isHandler = true) : push s e = adv s [e] := by
  simp [push, adv, hs, he]
theorem note_adv (s : St) (e : Ev) (he : e.isHandler = false) : note s e = adv s [e] := by
  simp [ParseCB.note, adv, hs, he]

theorem site_allCont (s : St) (e : Ev) (cur sib : Option Int) : site allContP s e cur sib = (OK, push s e) := by
  simp [site, allContP]

theorem inc0 (s : St) (h : s.skip = 0) : inc s = s := by simp [inc, h]
theorem dec0 (s : St) (h : s.skip = 0) : dec s = s := by simp [dec, h]

def itemEvs (names : List Str) (vals : List V) : List Ev := (List.zip names vals).map (fun x => Ev.item x.1 x.2)

theorem kRow_allCont (names : List Str) : ∀ (vals : List V) (col : Nat) (s : St), s.skip = 0 →
    col + vals.length ≤ names.length →
    kRow allContP names col vals s = adv s (itemEvs (names.drop col) vals)
  | [], col, s, _, _ => by simp [kRow, itemEvs, adv_nil]
  | v :: vs, col, s, h0, hl => by
    have hlt : col < names.length := by simp at hl; omega
    have hdrop : names.drop col = names[col] :: names.drop (col + 1) := by
      rw [List.drop_eq_getElem_cons hlt]
    have hget : names.getD col [] = names[col] := by simp [List.getD, hlt]
    simp only [kRow, itemStep, h0, Int.le_refl, and_self, if_true, site_allCont]
    rw [kRow_allCont names vs (col + 1) _ (by simp [push, h0]) (by simp at hl ⊢; omega), hget,
      push_adv _ _ rfl, adv_adv]
    rw [hdrop]
    rfl

def pktEvs (names : List Str) (pk : List V) : List Ev :=
  Ev.pktStart :: (itemEvs names pk ++ [Ev.pktEnd (List.zip names pk)])

theorem kPackets_allCont (names : List Str) : ∀ (pks : List (List V)) (s : St) (acc : List (List V)), s.skip = 0 →
    (∀ pk ∈ pks, pk.length = names.length) →
    kPackets allContP true names pks s acc = (adv s (pks.map (pktEvs names)).flatten, acc ++ pks)
  | [], s, acc, _, _ => by simp [kPackets, adv_nil]
  | pk :: pks, s, acc, h0, hl => by
    have hlen := hl pk (List.mem_cons_self ..)
    simp only [kPackets, pktStartStep, h0, Int.lt_irrefl, gt_iff_lt, if_false, site_allCont, pktEndStep]
    have hrow := kRow_allCont names pk 0 (push s .pktStart) (by simp [push, h0]) (by simp [hlen])
    simp only [List.drop_zero] at hrow
    rw [hrow]
    simp only [adv_skip, push_skip, h0, Int.lt_irrefl, if_false, site_allCont, allContP, decide_true, Bool.and_self, if_true]
    rw [kPackets_allCont names pks _ _ (by simp [h0]) (fun q hq => hl q (List.mem_cons_of_mem _ hq))]
    rw [push_adv s _ rfl, push_adv _ (Ev.pktEnd _) rfl, adv_adv, adv_adv, adv_adv]
    simp [pktEvs]

theorem kHeader_allCont : ∀ (names : List Str) (s : St), s.skip = 0 → kHeader names s = adv s (names.map Ev.dataname)
  | [], s, _ => by simp [kHeader, adv_nil]
  | nm :: ns, s, h0 => by
    simp only [kHeader, h0, Int.le_refl, if_true]
    rw [kHeader_allCont ns _ (by simp [ParseCB.note, h0]), note_adv _ _ rfl, adv_adv]
    simp

def loopEvs (storing : Bool) (names : List Str) (pks : List (List V)) : List Ev :=
  names.map Ev.dataname ++ (Ev.loopStart names :: ((pks.map (pktEvs names)).flatten
    ++ [Ev.loopEnd (if storing then some names else none)]))

theorem kLoop_allCont (names : List Str) (pks : List (List V)) (s : St) (h0 : s.skip = 0)
    (hl : ∀ pk ∈ pks, pk.length = names.length) :
    kLoop allContP true names pks s
      = (adv s (loopEvs true names pks), some { category := none, names := names, packets := pks }) := by
  unfold kLoop
  simp only [inc0 s h0, kHeader_allCont names s h0, loopStartStep, adv_skip, h0, Int.le_refl, if_true, site_allCont,
    allContP, decide_true, Bool.and_self]
  rw [kPackets_allCont names pks _ [] (by simp [h0]) hl]
  simp only [loopEndStep, adv_skip, push_skip, h0, Int.lt_irrefl, gt_iff_lt, if_false, if_true, site_allCont,
    List.nil_append]
  rw [push_adv _ (Ev.loopStart names) rfl, push_adv _ (Ev.loopEnd (some names)) rfl, adv_adv, adv_adv, adv_adv]
  simp [loopEvs]

/-- no packet-less loop in the stored content -/
def NE (c : Content) : Prop := c.loops.all (fun l => !l.packets.isEmpty) = true

theorem prune_NE (c : Content) (h : NE c) : c.prune = c := by
  unfold Content.prune
  unfold NE at h
  have : c.loops.filter (fun l => !l.packets.isEmpty) = c.loops := List.filter_eq_self.mpr (List.all_eq_true.mp h)
  rw [this]

theorem NE_empty : NE Content.empty := rfl

theorem addScalar_all : ∀ (ls : List Loop) (nm : Str) (v : V), ls.all (fun l => !l.packets.isEmpty) = true →
    (addScalar ls nm v).all (fun l => !l.packets.isEmpty) = true
  | [], nm, v, _ => by simp [addScalar]
  | l :: ls, nm, v, h => by
    simp only [List.all_cons, Bool.and_eq_true] at h
    simp only [addScalar]
    split
    · simp only [List.all_cons, Bool.and_eq_true]
      refine ⟨?_, h.2⟩
      have := h.1
      cases hp : l.packets <;> simp_all
    · simp only [List.all_cons, Bool.and_eq_true]
      exact ⟨h.1, addScalar_all ls nm v h.2⟩

theorem NE_setScalar (c : Content) (nm : Str) (v : V) (h : NE c) : NE (c.setScalar nm v) := addScalar_all c.loops nm v h
theorem NE_addLoop (c : Content) (l : Loop) (h : NE c) (hl : l.packets ≠ []) : NE (c.addLoop l) := by
  unfold NE Content.addLoop at *
  simp only [List.all_append, List.all_cons, List.all_nil, Bool.and_true, Bool.and_eq_true]
  refine ⟨h, ?_⟩
  cases hp : l.packets <;> simp_all
theorem NE_addFrame (c : Content) (f : Container) (h : NE c) : NE (c.addFrame f) := h

theorem elemEvents_loop (st : Bool) (ns : List Str) (pks : List (List V)) :
    elemEvents st (.loop ns pks) = Ev.keyword [] :: loopEvs st ns pks := by
  simp only [elemEvents, loopEvs]
  rfl

mutual
  theorem kElem_allCont : ∀ (e : Elem) (a : Bool) (s : St) (c : Content), s.skip = 0 → wfElem a e = true → NE c →
      kElem allContP true e s c = (adv s (elemEvents true e), denoteElem e c) ∧ NE (denoteElem e c)
    | .item nm v, a, s, c, h0, _, hc => by
      simp only [kElem, h0, Int.lt_irrefl, gt_iff_lt, if_false, scalarItemStep, site_allCont, allContP, and_self, if_true,
        denoteElem, elemEvents]
      have hn : (note s (Ev.dataname nm)).skip = 0 := h0
      rw [inc0 _ hn, dec0 _ (by simpa [push, ParseCB.note] using h0), note_adv _ _ rfl, push_adv _ _ rfl, adv_adv]
      exact ⟨rfl, NE_setScalar c nm v hc⟩
    | .loop ns pks, a, s, c, h0, hw, hc => by
      obtain ⟨hn, hpk, hall⟩ := loop_wf_all ns pks hw
      simp only [kElem, h0, Int.le_refl, if_true, denoteElem, elemEvents_loop]
      rw [kLoop_allCont ns pks _ (by simp [ParseCB.note, h0]) (fun pk h => (hall pk h).2.1), note_adv _ _ rfl, adv_adv]
      exact ⟨rfl, NE_addLoop c _ hc hpk⟩
    | .frame code body, a, s, c, h0, hw, hc => by
      have hwb : wfElems false body = true := by
        simp only [wfElem, Bool.and_eq_true] at hw; exact hw.2
      have hfc : (!decide ((!true) = true ∨ s.skip > 0)) = true := by simp [h0]
      have hfc2 : (!decide ((!true) = true ∨ False)) = true := by decide
      simp only [kElem, hfc, hfc2, contStartStep, h0, Int.lt_irrefl, gt_iff_lt, if_false, site_allCont, if_true, denoteElem,
        elemEvents, Bool.false_eq_true]
      obtain ⟨hk, hne⟩ := kElems_allCont body false (push s (Ev.frameStart (some code))) Content.empty
        (by simp [push, h0]) hwb NE_empty
      rw [hk]
      simp only [containerEnd, adv_skip, push_skip, h0, dec0 (adv (push s (Ev.frameStart (some code))) (elemsEvents true body))
        (by simp [h0]), Int.le_refl, and_self, if_true, site_allCont, prune_NE _ hne, Bool.false_eq_true, if_false]
      rw [push_adv s _ rfl, push_adv _ (Ev.frameEnd (some code)) rfl, adv_adv, adv_adv]
      exact ⟨by simp, NE_addFrame c _ hc⟩
  theorem kElems_allCont : ∀ (es : List Elem) (a : Bool) (s : St) (c : Content), s.skip = 0 → wfElems a es = true → NE c →
      kElems allContP true es s c = (adv s (elemsEvents true es), denoteBody es c) ∧ NE (denoteBody es c)
    | [], a, s, c, _, _, hc => by simp [kElems, elemsEvents, denoteBody, adv_nil, hc]
    | e :: es, a, s, c, h0, hw, hc => by
      simp only [wfElems, Bool.and_eq_true] at hw
      obtain ⟨h1, hne1⟩ := kElem_allCont e a s c h0 hw.1 hc
      obtain ⟨h2, hne2⟩ := kElems_allCont es a (adv s (elemEvents true e)) (denoteElem e c) (by simp [h0]) hw.2 hne1
      simp only [kElems, h1, h2, elemsEvents, denoteBody, adv_adv]
      exact ⟨trivial, hne2⟩
end

def blockEvs (b : Block) : List Ev :=
  Ev.blockStart (some b.code) :: (elemsEvents true b.body ++ [Ev.blockEnd (some b.code)])

def denoteBlock (b : Block) : Container :=
  Container.mk b.code (denoteBody b.body Content.empty).frames (denoteBody b.body Content.empty).loops

theorem kBlock_allCont (b : Block) (s : St) (acc : List Container) (h0 : s.skip = 0) (hw : wfElems true b.body = true) :
    kBlock allContP true b s acc = (adv s (blockEvs b), acc ++ [denoteBlock b]) := by
  have hbc : (true && decide (s.skip ≤ 0)) = true := by simp [h0]
  have hbc2 : (true && decide ((0 : Int) ≤ 0)) = true := by decide
  simp only [kBlock, hbc, hbc2, contStartStep, h0, Int.lt_irrefl, gt_iff_lt, if_false, site_allCont, if_true]
  obtain ⟨hk, hne⟩ := kElems_allCont b.body true (push s (Ev.blockStart (some b.code))) Content.empty
    (by simp [push, h0]) hw NE_empty
  rw [hk]
  simp only [containerEnd, adv_skip, push_skip, h0, dec0 (adv (push s (Ev.blockStart (some b.code))) (elemsEvents true b.body))
    (by simp [h0]), Int.le_refl, and_self, if_true, site_allCont, prune_NE _ hne]
  rw [push_adv s _ rfl, push_adv _ (Ev.blockEnd (some b.code)) rfl, adv_adv, adv_adv]
  simp [blockEvs, denoteBlock]

theorem kBlocks_allCont : ∀ (d : Doc) (s : St) (acc : List Container), s.skip = 0 → wfDoc d = true →
    kBlocks allContP true d s acc = (adv s (d.map blockEvs).flatten, acc ++ d.map denoteBlock)
  | [], s, acc, _, _ => by simp [kBlocks, adv_nil]
  | b :: bs, s, acc, h0, hw => by
    simp only [wfDoc, List.all_cons, Bool.and_eq_true] at hw
    simp only [kBlocks, kBlock_allCont b s acc h0 hw.1]
    rw [kBlocks_allCont bs _ _ (by simp [h0]) (by simpa [wfDoc] using hw.2), adv_adv]
    simp

theorem kDoc_allCont (d : Doc) (hw : wfDoc d = true) :
    (kDoc allContP true d (St.init [])).1.log.reverse = docEvents true d
    ∧ (kDoc allContP true d (St.init [])).2 = denote d := by
  have h0 : (St.init []).skip = 0 := rfl
  simp only [kDoc, site_allCont]
  rw [kBlocks_allCont d _ [] (by simp [push, h0]) hw]
  simp only [cifEndStep, if_true, List.nil_append]
  rw [dec0 _ (by simp [push, h0]), push_adv (St.init []) _ rfl, push_adv _ (Ev.cifEnd true) rfl, adv_adv, adv_adv]
  constructor
  · simp only [adv, St.init, docEvents, List.reverse_append, List.reverse_reverse, List.append_nil,
      List.cons_append, List.nil_append, List.append_assoc, List.reverse_cons, List.reverse_nil]
    rfl
  · simp only [denote]
    rfl

end CifModel.Lemmas.ParseCB
