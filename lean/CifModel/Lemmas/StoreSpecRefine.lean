import CifModel.Lemmas.StoreRefineW
import CifModel.Spec.StoreSpec
import CifModel.Lemmas.StoreTree
/-
  Lemmas/StoreSpecRefine — the model's calls commute with `absS` (Spec/StoreSpec) and return the code the documented model gives,
  for a `Good` store and a valid handle.
-/
namespace CifModel.Store
open Gen.ErrCodes

theorem findLoop_absS (d : Db) (cid num : Nat) :
    (absS d).findLoop cid num = (d.loops.find? (fun x => x.cid == cid && x.loopNum == num)).map (absALoop d) := by
  unfold AState.findLoop absS
  simp only [List.find?_map]
  rfl

theorem findLoop_valid (d : Db) (h : Inv d) (x : LoopRow) (hx : x ∈ d.loops) :
    (absS d).findLoop x.cid x.loopNum = some (absALoop d x) := by
  rw [findLoop_absS, find_loop_of_mem d h x hx]; rfl

/-- the loops of `absS` after a change that maps the loop table by `φ` (keys kept) -/
theorem absS_loops_map (d d' : Db) (φ : LoopRow → LoopRow) (g : ALoop → ALoop) (hl : d'.loops = d.loops.map φ)
    (hpt : ∀ x ∈ d.loops, absALoop d' (φ x) = g (absALoop d x)) : (absS d').loops = (absS d).loops.map g := by
  show d'.loops.map (absALoop d') = (d.loops.map (absALoop d)).map g
  rw [hl, List.map_map, List.map_map]
  apply List.map_congr_left
  intro x hx
  exact hpt x hx

theorem packetFor_eq_packetOf (d : Db) (x : LoopRow) (pkt : List (Str × V)) :
    packetFor d x.cid x.loopNum pkt = (absALoop d x).packetOf pkt := by
  unfold packetFor ALoop.packetOf absALoop
  simp only [List.map_map]
  rfl

theorem hasItem_absALoop (d : Db) (x : LoopRow) (k : Str) :
    (absALoop d x).hasItem k = (d.loopItems x.cid x.loopNum).any (fun i => i.name == k) := by
  unfold ALoop.hasItem absALoop
  simp only [List.any_map]
  rfl

/-- cif_loop_add_packet commutes with `absS` and returns the documented model's code -/
theorem addPacket_spec (s : Store) (l : LH) (pkt : List (Str × V)) (hg : Good s.db) (hv : l.validB s.db = true)
    (hk : keysDistinct pkt = true) :
    absS (addPacket s l pkt).1.db = (specAddPacket (absS s.db) l pkt).1 ∧ (addPacket s l pkt).2 = (specAddPacket (absS s.db) l pkt).2 := by
  obtain ⟨x, hx, k1, k2, _⟩ := LH.valid_of_validB hv
  have hfind : (absS s.db).findLoop l.cid l.loopNum = some (absALoop s.db x) := by rw [← k1, ← k2]; exact findLoop_valid s.db hg.inv x hx
  by_cases hne : pkt = []
  · subst hne; simp [addPacket, specAddPacket]
  · have hempty : pkt.isEmpty = false := by cases pkt with | nil => exact absurd rfl hne | cons a b => rfl
    have hcode := addPacketBody_codeK s.db l pkt x hg.inv hx ⟨k1, k2⟩ (hg.rows.rb.at _ _)
      (hg.rows.scalar_count hg.inv x hx) (keysDistinct_pairwise pkt hk)
    have hres : (addPacket s l pkt).2 = (addPacketBody l pkt s.db).map Prod.snd := by
      unfold addPacket; simp only [hempty, Bool.false_eq_true, if_false]; exact nest_snd s _
    have hpk : (absALoop s.db x).packets.isEmpty = (s.db.loopRows x.cid x.loopNum).isEmpty := by
      show ((s.db.loopRows x.cid x.loopNum).map _).isEmpty = _
      cases s.db.loopRows x.cid x.loopNum <;> rfl
    have hhas : (fun e : Str × V => !(absALoop s.db x).hasItem e.1) =
        (fun e : Str × V => !(s.db.loopItems l.cid l.loopNum).any (fun i => i.name == e.1)) := by
      funext e; rw [hasItem_absALoop, k1, k2]
    unfold specAddPacket
    simp only [hempty, Bool.false_eq_true, if_false, hfind]
    have hcat : (absALoop s.db x).category = x.category := rfl
    rw [hcat, hpk, hhas]
    have hcode' : (addPacket s l pkt).2 =
        (if (x.category == some [] && !(s.db.loopRows x.cid x.loopNum).isEmpty) = true then (.error CIF_RESERVED_LOOP : Except Code Unit)
         else if (pkt.any fun e => !(s.db.loopItems l.cid l.loopNum).any fun i => i.name == e.1) = true then .error CIF_WRONG_LOOP
         else .ok ()) := by rw [hres, ← hcode]
    by_cases c1 : (x.category == some [] && !(s.db.loopRows x.cid x.loopNum).isEmpty) = true
    · simp only [c1, if_true] at hcode' ⊢
      exact ⟨by rw [(addPacket_error s l pkt _ hcode').1], hcode'⟩
    · simp only [c1, Bool.false_eq_true, if_false] at hcode' ⊢
      by_cases c2 : (pkt.any fun e => !(s.db.loopItems l.cid l.loopNum).any fun i => i.name == e.1) = true
      · simp only [c2, if_true] at hcode' ⊢
        exact ⟨by rw [(addPacket_error s l pkt _ hcode').1], hcode'⟩
      · simp only [c2, Bool.false_eq_true, if_false] at hcode' ⊢
        refine ⟨?_, hcode'⟩
        -- success: the database after the call
        have hbody : ∃ d2, addPacketBody l pkt s.db = .ok (d2, ()) := by
          rw [hres] at hcode'
          cases hb : addPacketBody l pkt s.db with
          | error c => rw [hb] at hcode'; cases hcode'
          | ok r => obtain ⟨d2, u'⟩ := r; exact ⟨d2, by cases u'; rfl⟩
        obtain ⟨d2, hb⟩ := hbody
        have hdb : (addPacket s l pkt).1.db = d2 := by
          have : (addPacket s l pkt).1 = (s.nest (addPacketBody l pkt)).1 := by
            unfold addPacket; simp only [hempty, Bool.false_eq_true, if_false]
          rw [this]; exact nest_db_ok s _ d2 () hb
        rw [hdb]
        obtain ⟨l3, i3, hpt, f3, b3⟩ := addPacket_pointwise s.db d2 l pkt hg.inv (hg.rows.rb.at _ _) hne hb
        have hcont : d2.containers = s.db.containers ∧ d2.nextId = s.db.nextId := by
          unfold addPacketBody at hb
          split at hb
          · split at hb <;> cases hb
          · rename_i d1 hbump
            split at hb
            · cases hb
            · rename_i row hrow
              split at hb
              · cases hb
              · rename_i d2' hadd
                simp only [Except.ok.injEq, Prod.mk.injEq, and_true] at hb
                subst hb
                obtain ⟨_, _, _, _, _, c1'⟩ := bumpRowNum_spec s.db d1 _ _ hbump
                obtain ⟨_, _, _, _, _, c2', _⟩ := addValues_spec pkt d1 d2' l.cid l.loopNum row hadd
                have n1 : d1.nextId = s.db.nextId := by
                  unfold Db.bumpRowNum at hbump; split at hbump; · cases hbump
                  cases hbump; rfl
                have n2 : ∀ (p : List (Str × V)) (a b : Db) (c n r : Nat), addValues a c n r p = .ok b → b.nextId = a.nextId := by
                  intro p
                  induction p with
                  | nil => intro a b c n r h; simp [addValues] at h; subst h; rfl
                  | cons e es ih =>
                    intro a b c n r h
                    unfold addValues at h
                    split at h; · cases h
                    split at h; · cases h
                    rename_i a1 hins
                    have := ih a1 b c n r h
                    unfold Db.insertValue at hins
                    split at hins; · cases hins
                    split at hins; · cases hins
                    split at hins; · cases hins
                    cases hins; exact this
                exact ⟨by show (d2'.fillPacket _ _ _).containers = _; unfold Db.fillPacket; simp only []; split <;> simp [c2', c1'],
                       by show (d2'.fillPacket _ _ _).nextId = _; unfold Db.fillPacket; simp only []; split <;> simp [n2 pkt d1 d2' _ _ _ hadd, n1]⟩
        have hloops := absS_loops_map s.db d2 _ (fun y => if y.cid == l.cid && y.num == l.loopNum then { y with packets := y.packets ++ [y.packetOf pkt] } else y) l3
          (by
            intro y hy
            have hp := hpt y hy
            have hitems : ∀ c n, d2.loopItems c n = s.db.loopItems c n := by intro c n; simp only [Db.loopItems, i3]
            by_cases hm : (y.cid == l.cid && y.loopNum == l.loopNum) = true
            · simp only [hm, if_true] at hp ⊢
              have hm' : ((absALoop s.db y).cid == l.cid && (absALoop s.db y).num == l.loopNum) = true := hm
              simp only [hm', if_true]
              unfold absALoop
              simp only [hitems, hp]
              have hmk : y.cid = l.cid ∧ y.loopNum = l.loopNum := by simpa using hm
              have := packetFor_eq_packetOf s.db y pkt
              rw [hmk.1, hmk.2] at this
              rw [this]; rfl
            · simp only [hm, Bool.false_eq_true, if_false] at hp ⊢
              have hm' : ((absALoop s.db y).cid == l.cid && (absALoop s.db y).num == l.loopNum) = false := by
                show (y.cid == l.cid && y.loopNum == l.loopNum) = false
                simpa using hm
              simp only [hm', Bool.false_eq_true, if_false]
              unfold absALoop
              simp only [hitems, hp])
        show ({ containers := d2.containers, blocks := d2.blocks, frames := d2.frames, nextId := d2.nextId, loops := (absS d2).loops } : AState) = _
        rw [hloops, hcont.1, hcont.2, f3, b3]
        rfl

theorem catReserved_valid (l : LH) (x : LoopRow) (cat : Option Str) (hc : x.category = l.category) :
    catReserved l cat = (x.category == some [] || cat == some []) := by
  unfold catReserved
  rw [hc]
  cases cat with
  | none => simp
  | some c =>
    cases c with
    | nil => simp
    | cons a b => simp [Bool.or_comm]

/-- cif_loop_set_category commutes with `absS`, returns the documented model's code and leaves the handle as the model does -/
theorem setCategory_spec (s : Store) (l : LH) (cat : Option Str) (hg : Good s.db) (hv : l.validB s.db = true) :
    absS (setCategory s l cat).1.db = (specSetCategory (absS s.db) l cat).1 ∧
    (setCategory s l cat).2.1 = (specSetCategory (absS s.db) l cat).2.1 ∧
    (setCategory s l cat).2.2 = (specSetCategory (absS s.db) l cat).2.2 := by
  obtain ⟨x, hx, k1, k2, k3⟩ := LH.valid_of_validB hv
  have hfind : (absS s.db).findLoop l.cid l.loopNum = some (absALoop s.db x) := by rw [← k1, ← k2]; exact findLoop_valid s.db hg.inv x hx
  have hfindd := find_loop_of_mem s.db hg.inv x hx
  rw [k1, k2] at hfindd
  unfold specSetCategory setCategory
  simp only [hfind]
  have hcat : (absALoop s.db x).category = x.category := rfl
  rw [hcat, catReserved_valid l x cat k3]
  by_cases hres : (x.category == some [] || cat == some []) = true
  · simp only [hres, if_true]; refine ⟨?_, ?_, ?_⟩ <;> first | rfl | trivial
  · simp only [hres, Bool.false_eq_true, if_false]
    have hne : (cat == some []) = false := by
      cases h1 : (cat == some []) with
      | false => rfl
      | true => simp [h1] at hres
    have hdb : s.db.setCategory l.cid l.loopNum cat =
        .ok ({ s.db with loops := s.db.loops.map (fun y => if y.cid == l.cid && y.loopNum == l.loopNum then { y with category := cat } else y) }, 1) := by
      unfold Db.setCategory
      rw [hfindd]
      simp [hne]
    rw [hdb]
    simp only [show ((1 : Nat) == 0) = false from rfl, show ((1 : Nat) == 1) = true from rfl, Bool.false_eq_true, if_false, if_true]
    obtain ⟨l1, htar, hoth, i1, _, f1, b1⟩ := setCategory_refines s.db _ l.cid l.loopNum cat hdb
    refine ⟨?_, by first | rfl | trivial, by first | rfl | trivial⟩
    have hloops := absS_loops_map s.db { s.db with loops := s.db.loops.map (fun y => if y.cid == l.cid && y.loopNum == l.loopNum then { y with category := cat } else y) }
      _ (fun y => if y.cid == l.cid && y.num == l.loopNum then { y with category := cat } else y) l1
      (by
        intro y _
        by_cases hm : (y.cid == l.cid && y.loopNum == l.loopNum) = true
        · have hm' : ((absALoop s.db y).cid == l.cid && (absALoop s.db y).num == l.loopNum) = true := hm
          simp only [hm, hm', if_true]
          have hmk : y.cid = l.cid ∧ y.loopNum = l.loopNum := by simpa using hm
          have := htar y hmk.1 hmk.2
          unfold absALoop
          simp only [this]
          rfl
        · have hm' : ((absALoop s.db y).cid == l.cid && (absALoop s.db y).num == l.loopNum) = false := by
            show (y.cid == l.cid && y.loopNum == l.loopNum) = false
            simpa using hm
          simp only [hm, hm', Bool.false_eq_true, if_false]
          unfold absALoop
          simp only [hoth y]
          rfl)
    show ({ containers := s.db.containers, blocks := s.db.blocks, frames := s.db.frames, nextId := s.db.nextId,
            loops := (absS _).loops } : AState) = _
    rw [hloops]
    rfl

theorem deleteLoops_loopItems (d : Db) (p : LoopRow → Bool) (hkey : ∀ a b : LoopRow, a.cid = b.cid → a.loopNum = b.loopNum → p a = p b)
    (y : LoopRow) (hp : p y = false) : (d.deleteLoops p).loopItems y.cid y.loopNum = d.loopItems y.cid y.loopNum := by
  let q : ItemRow → Bool := fun i => (d.loops.filter p).any (fun l => l.cid == i.cid && l.loopNum == i.loopNum)
  show (d.items.filter (fun i => !q i)).filter (fun i => i.cid == y.cid && i.loopNum == y.loopNum) = d.items.filter _
  rw [List.filter_filter]
  apply List.filter_congr
  intro i _
  by_cases hk : (i.cid == y.cid && i.loopNum == y.loopNum) = true
  · have hqi : q i = false := by
      cases hq : q i with
      | false => rfl
      | true =>
        obtain ⟨l, hl1, hlk⟩ := List.any_eq_true.mp hq
        simp at hlk hk
        have := hkey l y (by rw [hlk.1, hk.1]) (by rw [hlk.2, hk.2])
        rw [(List.mem_filter.mp hl1).2, hp] at this; cases this
    simp [hk, hqi]
  · simp [hk]

/-- cif_loop_destroy commutes with `absS` and returns CIF_OK -/
theorem destroyLoop_spec (s : Store) (l : LH) (hg : Good s.db) (hv : l.validB s.db = true) :
    absS (destroyLoop s l).1.db = (specDestroyLoop (absS s.db) l).1 ∧ (destroyLoop s l).2 = (specDestroyLoop (absS s.db) l).2 := by
  obtain ⟨x, hx, k1, k2, _⟩ := LH.valid_of_validB hv
  have hfind : (absS s.db).findLoop l.cid l.loopNum = some (absALoop s.db x) := by rw [← k1, ← k2]; exact findLoop_valid s.db hg.inv x hx
  have hn : (s.db.loops.filter (fun y => y.cid == l.cid && y.loopNum == l.loopNum)).length = 1 := by
    have h1 := hg.inv.toLoopPK l.cid l.loopNum
    have h2 : x ∈ s.db.loops.filter (fun y => y.cid == l.cid && y.loopNum == l.loopNum) := List.mem_filter.mpr ⟨hx, by simp [k1, k2]⟩
    have h3 : 0 < (s.db.loops.filter (fun y => y.cid == l.cid && y.loopNum == l.loopNum)).length := List.length_pos_of_mem h2
    omega
  unfold specDestroyLoop destroyLoop
  simp only [hfind]
  have hd : s.db.destroyLoop l.cid l.loopNum = (s.db.deleteLoops (fun y => y.cid == l.cid && y.loopNum == l.loopNum), 1) := by
    unfold Db.destroyLoop; rw [hn]
  rw [hd]
  simp only []
  refine ⟨?_, rfl⟩
  have hr := destroyLoop_refines s.db x hg.inv
  simp only [] at hr
  rw [k1, k2] at hr
  obtain ⟨l1, hoth, f1, b1⟩ := hr
  have hdl : (s.db.destroyLoop l.cid l.loopNum).1 = s.db.deleteLoops (fun y => y.cid == l.cid && y.loopNum == l.loopNum) := rfl
  rw [hdl] at l1 hoth f1 b1
  show ({ containers := (s.db.deleteLoops _).containers, blocks := (s.db.deleteLoops _).blocks, frames := (s.db.deleteLoops _).frames,
          nextId := (s.db.deleteLoops _).nextId, loops := (s.db.deleteLoops _).loops.map (absALoop (s.db.deleteLoops _)) } : AState) = _
  rw [f1, b1, l1]
  have hc : (s.db.deleteLoops (fun y => y.cid == l.cid && y.loopNum == l.loopNum)).containers = s.db.containers := rfl
  have hni : (s.db.deleteLoops (fun y => y.cid == l.cid && y.loopNum == l.loopNum)).nextId = s.db.nextId := rfl
  rw [hc, hni]
  have hl : (s.db.loops.filter (fun y => !(y.cid == l.cid && y.loopNum == l.loopNum))).map (absALoop (s.db.deleteLoops (fun y => y.cid == l.cid && y.loopNum == l.loopNum))) =
      (s.db.loops.map (absALoop s.db)).filter (fun y => !(y.cid == l.cid && y.num == l.loopNum)) := by
    rw [List.filter_map]
    have : ((fun y : ALoop => !(y.cid == l.cid && y.num == l.loopNum)) ∘ absALoop s.db) = (fun y : LoopRow => !(y.cid == l.cid && y.loopNum == l.loopNum)) := by
      funext y; rfl
    rw [this]
    apply List.map_congr_left
    intro y hy
    obtain ⟨hym, hyk⟩ := List.mem_filter.mp hy
    have hyk' : (y.cid == l.cid && y.loopNum == l.loopNum) = false := by
      cases hb : (y.cid == l.cid && y.loopNum == l.loopNum) with
      | false => rfl
      | true => rw [hb] at hyk; cases hyk
    unfold absALoop
    rw [deleteLoops_loopItems s.db _ (fun a b hc hl => by simp only [hc, hl]) y hyk']
    rw [hoth y hym (fun ⟨e1, e2⟩ => by simp [e1, e2] at hyk')]
  rw [hl]
  rfl

theorem getBlock_spec (s : Store) (n : Name) : (getBlock s n).2 = specGetBlockH (absS s.db) n := by
  unfold getBlock specGetBlockH
  have hb : (absS s.db).blocks = s.db.blocks := rfl
  rw [hb]
  cases s.db.blocks.find? (fun b : BlockRow => b.name == n.key) <;> rfl

theorem getFrame_spec (s : Store) (h : CH) (n : Option Name) : (getFrame s h n).2 = specGetFrameH (absS s.db) h n := by
  unfold getFrame specGetFrameH
  have hb : (absS s.db).frames = s.db.frames := rfl
  rw [hb]
  cases n with
  | none => rfl
  | some nm =>
    simp only []
    cases hv : nm.valid with
    | false => rfl
    | true =>
      simp only [Bool.not_true, Bool.false_eq_true, if_false]
      cases s.db.frames.find? (fun f : FrameRow => f.parent == h.id && f.name == nm.key) <;> rfl

/-- cif_container_destroy of an existing container commutes with `absS` and returns CIF_OK -/
theorem destroyContainer_spec (s : Store) (h : CH) (hg : Good s.db) (hv : h.validB s.db = true) :
    absS (destroyContainer s h).1.db = (specDestroyContainer (absS s.db) h).1 ∧
    (destroyContainer s h).2 = (specDestroyContainer (absS s.db) h).2 := by
  have hn : ((s.db.containers.filter (fun c => c.id == h.id)).length == 0) = false := by
    obtain ⟨r, hr, hre⟩ := (hasContainer_iff _ _).mp hv
    have : r ∈ s.db.containers.filter (fun c => c.id == h.id) := List.mem_filter.mpr ⟨hr, by simp [hre]⟩
    cases hl : s.db.containers.filter (fun c => c.id == h.id) with
    | nil => rw [hl] at this; cases this
    | cons a b => rfl
  let p : LoopRow → Bool := fun l => l.cid == h.id
  have hr := deleteLoops_refines s.db p hg.inv (fun a b hc _ => by simp only [p, hc])
  have hd' : s.db.deleteContainer h.id =
      ({ s.db.deleteLoops p with containers := s.db.containers.filter (fun c => !(c.id == h.id)),
                                 blocks := s.db.blocks.filter (fun b => !(b.cid == h.id)),
                                 frames := s.db.frames.filter (fun f => !(f.cid == h.id) && !(f.parent == h.id)) },
       (s.db.containers.filter (fun c => c.id == h.id)).length) := by
    unfold Db.deleteContainer
    simp only [hn, Bool.false_eq_true, if_false]
    rfl
  unfold destroyContainer specDestroyContainer
  rw [hd']
  have hn' : (((absS s.db).containers.filter (fun c => c.id == h.id)).length == 0) = false := hn
  simp only [hn, hn', Bool.false_eq_true, if_false]
  refine ⟨?_, by first | rfl | trivial⟩
  have e : ∀ (c1 : List ContainerRow) (b1 : List BlockRow) (f1 : List FrameRow) (y : LoopRow), absALoop { s.db.deleteLoops p with containers := c1, blocks := b1, frames := f1 } y = absALoop (s.db.deleteLoops p) y := fun _ _ _ _ => rfl
  have hl : ((s.db.deleteLoops p).loops).map (absALoop (s.db.deleteLoops p)) = (s.db.loops.map (absALoop s.db)).filter (fun y => !(y.cid == h.id)) := by
    rw [hr.1, List.filter_map]
    have : ((fun y : ALoop => !(y.cid == h.id)) ∘ absALoop s.db) = (fun y : LoopRow => !p y) := by funext y; rfl
    rw [this]
    apply List.map_congr_left
    intro y hy
    obtain ⟨hym, hyk⟩ := List.mem_filter.mp hy
    have hyk' : p y = false := by
      cases hb : p y with
      | false => rfl
      | true => rw [hb] at hyk; cases hyk
    unfold absALoop
    rw [deleteLoops_loopItems s.db p (fun a b hc _ => by simp only [p, hc]) y hyk', hr.2.1 y hym hyk']
  show ({ containers := s.db.containers.filter (fun c => !(c.id == h.id)), blocks := s.db.blocks.filter (fun b => !(b.cid == h.id)), frames := s.db.frames.filter (fun f => !(f.cid == h.id) && !(f.parent == h.id)), nextId := s.db.nextId, loops := ((s.db.deleteLoops p).loops).map (absALoop (s.db.deleteLoops p)) } : AState) = _
  rw [hl]
  rfl

theorem nestRO_snd {α} (s : Store) (body : Db → Except Code α) : (s.nestRO body).2 = body s.db := by
  have hb : s.beginNest.1.db = s.db := by unfold Store.beginNest; split <;> rfl
  unfold Store.nestRO
  simp only [hb]

theorem nestRO_db {α} (s : Store) (body : Db → Except Code α) : (s.nestRO body).1.db = s.db := (nestRO_same s body).1

/-- cif_loop_get_names through a valid handle -/
theorem getNames_spec (s : Store) (l : LH) (hg : Good s.db) (hv : l.validB s.db = true) :
    absS (getNames s l).1.db = absS s.db ∧ (getNames s l).2 = specGetNames (absS s.db) l := by
  obtain ⟨x, hx, k1, k2, _⟩ := LH.valid_of_validB hv
  have hfind : (absS s.db).findLoop l.cid l.loopNum = some (absALoop s.db x) := by rw [← k1, ← k2]; exact findLoop_valid s.db hg.inv x hx
  refine ⟨by unfold getNames; rw [nestRO_db], ?_⟩
  unfold getNames specGetNames
  rw [nestRO_snd, hfind]
  show _ = (match (s.db.loopItems x.cid x.loopNum).map (fun i => (i.name, i.nameOrig)) with | [] => _ | is => _)
  rw [k1, k2]
  cases s.db.loopItems l.cid l.loopNum <;> rfl

theorem absS_filter_loops (d : Db) (p : LoopRow → Bool) (q : ALoop → Bool) (h : ∀ x ∈ d.loops, q (absALoop d x) = p x) :
    (absS d).loops.filter q = (d.loops.filter p).map (absALoop d) := by
  show (d.loops.map (absALoop d)).filter q = _
  rw [List.filter_map]
  congr 1
  apply List.filter_congr
  intro x hx
  exact h x hx

/-- cif_container_get_category_loop -/
theorem getCategoryLoop_spec (s : Store) (h : CH) (cat : Option Str) :
    (getCategoryLoop s h cat).2 = specGetCategoryLoop (absS s.db) h cat := by
  unfold getCategoryLoop specGetCategoryLoop
  cases cat with
  | none => rfl
  | some c =>
    simp only []
    rw [absS_filter_loops s.db (fun l => l.cid == h.id && l.category == some c) _ (fun _ _ => rfl)]
    cases hf : s.db.loops.filter (fun l => l.cid == h.id && l.category == some c) with
    | nil => rfl
    | cons a as =>
      cases as with
      | nil => rfl
      | cons b bs => rfl

/-- cif_container_get_item_loop -/
theorem getItemLoop_spec (s : Store) (h : CH) (n : Option Name) : (getItemLoop s h n).2 = specGetItemLoop (absS s.db) h n := by
  unfold getItemLoop specGetItemLoop
  cases n with
  | none => rfl
  | some nm =>
    simp only []
    cases hv : nm.valid with
    | false => rfl
    | true =>
      simp only [Bool.not_true, Bool.false_eq_true, if_false]
      unfold getItemLoopInternal itemLoopRows
      rw [absS_filter_loops s.db (fun l => l.cid == h.id && s.db.items.any (fun i => i.cid == h.id && i.name == nm.key && i.loopNum == l.loopNum)) _
        (by
          intro x _
          rw [hasItem_absALoop]
          show (x.cid == h.id && (s.db.loopItems x.cid x.loopNum).any (fun i => i.name == nm.key)) = _
          cases hc : (x.cid == h.id) with
          | false => rfl
          | true =>
            have hxc : x.cid = h.id := by simpa using hc
            simp only [Bool.true_and, Db.loopItems, List.any_filter, hxc]
            congr 1
            funext i
            cases (i.cid == h.id) <;> cases (i.name == nm.key) <;> cases (i.loopNum == x.loopNum) <;> rfl)]
      cases hf : s.db.loops.filter (fun l => l.cid == h.id && s.db.items.any (fun i => i.cid == h.id && i.name == nm.key && i.loopNum == l.loopNum)) with
      | nil => rfl
      | cons a as =>
        cases as with
        | nil => rfl
        | cons b bs => rfl

/-- cif_container_prune commutes with `absS` -/
theorem prune_spec (s : Store) (h : CH) (hg : Good s.db) :
    absS (prune s h).1.db = (specPrune (absS s.db) h).1 ∧ (prune s h).2 = (specPrune (absS s.db) h).2 := by
  refine ⟨?_, rfl⟩
  let p : LoopRow → Bool := fun l => l.cid == h.id && !(s.db.items.any (fun i => i.cid == h.id && i.loopNum == l.loopNum
      && s.db.values.any (fun v => v.cid == h.id && v.name == i.name)))
  have hkey : ∀ a b : LoopRow, a.cid = b.cid → a.loopNum = b.loopNum → p a = p b := fun a b hc hl => by simp only [p, hc, hl]
  have hr := deleteLoops_refines s.db p hg.inv hkey
  have hsel : ∀ l : LoopRow, p l = (l.cid == h.id && (absLoop s.db l).packets.isEmpty) := by
    intro l
    cases hc : (l.cid == h.id) with
    | false => simp [p, hc]
    | true =>
      have hl : l.cid = h.id := by simpa using hc
      have := prune_selects s.db h.id l hl
      cases hp : p l with
      | true =>
        have h1 : (absLoop s.db l).packets = [] := this.mp (show p l = true from hp)
        simp [h1]
      | false =>
        cases he : (absLoop s.db l).packets with
        | nil =>
          have h2 : p l = true := this.mpr he
          rw [hp] at h2; cases h2
        | cons a as => simp
  unfold prune specPrune
  show ({ containers := s.db.containers, blocks := s.db.blocks, frames := s.db.frames, nextId := s.db.nextId,
          loops := (s.db.deleteLoops p).loops.map (absALoop (s.db.deleteLoops p)) } : AState) = _
  have hl : (s.db.deleteLoops p).loops.map (absALoop (s.db.deleteLoops p)) =
      (s.db.loops.map (absALoop s.db)).filter (fun y => !(y.cid == h.id && y.packets.isEmpty)) := by
    rw [hr.1, List.filter_map]
    have : ((fun y : ALoop => !(y.cid == h.id && y.packets.isEmpty)) ∘ absALoop s.db) = (fun y : LoopRow => !p y) := by
      funext y; simp only [Function.comp, hsel y]; rfl
    rw [this]
    apply List.map_congr_left
    intro y hy
    obtain ⟨hym, hyk⟩ := List.mem_filter.mp hy
    have hyk' : p y = false := by
      cases hb : p y with
      | false => rfl
      | true => rw [hb] at hyk; cases hyk
    unfold absALoop
    rw [deleteLoops_loopItems s.db p hkey y hyk', hr.2.1 y hym hyk']
  rw [hl]
  rfl

/-- cif_create_block outside any transaction commutes with `absS` and returns the documented model's code -/
theorem createBlock_spec (s : Store) (n : Option Name) (hg : Good s.db) (hac : s.autocommit = true) :
    absS (createBlock s n).1.db = (specCreateBlock (absS s.db) n).1 ∧ (createBlock s n).2 = (specCreateBlock (absS s.db) n).2 := by
  have hfresh := hg.inv.idFresh
  unfold createBlock specCreateBlock
  cases n with
  | none => exact ⟨rfl, rfl⟩
  | some nm =>
    simp only []
    cases hv : nm.valid with
    | false => simp
    | true =>
      have hb : s.begin = some { s with txn := some s.db } := by unfold Store.begin; simp [hac]
      have hbl : (absS s.db).blocks = s.db.blocks := rfl
      simp only [Bool.not_true, Bool.not_false, Bool.true_and, Bool.false_eq_true, if_false, hb, hbl]
      cases hdup : s.db.blocks.any (fun b => b.name == nm.key) with
      | true =>
        have : s.db.insertContainer.1.insertBlock s.db.insertContainer.2 nm.key nm.orig = none := by
          have hd : s.db.insertContainer.1.blocks = s.db.blocks := rfl
          unfold Db.insertBlock
          rw [hd]
          split
          · rfl
          · simp [hdup]
        simp only [this, if_true]
        refine ⟨?_, by first | rfl | trivial⟩
        rw [begin_rollback' s _ hb]
      | false =>
        have hpk : s.db.blocks.any (fun b => b.cid == s.db.nextId) = false := by
          rw [Bool.eq_false_iff]
          intro h
          obtain ⟨b, hbm, hbe⟩ := List.any_eq_true.mp h
          exact hfresh.2.2 b hbm (by simpa using hbe)
        have hins : s.db.insertContainer.1.insertBlock s.db.insertContainer.2 nm.key nm.orig =
            some { s.db.insertContainer.1 with blocks := s.db.blocks ++ [{ cid := s.db.nextId, name := nm.key, nameOrig := nm.orig }] } := by
          unfold Db.insertBlock Db.insertContainer
          simp [hpk, hdup, Db.hasContainer]
        simp only [hins, Bool.false_eq_true, if_false]
        refine ⟨?_, by first | rfl | trivial⟩
        simp only [Store.commit, Store.autocommit, Option.isNone_some, Bool.false_and, Bool.false_eq_true, if_false, Option.getD]
        rfl

/-- the name a lenient creation sees: validity waived, key and spelling as given -/
def lenName (n : Option Name) (len : Bool) : Option Name := if len then n.map (fun x => { x with valid := true }) else n

theorem createBlock_len_eq (s : Store) (n : Option Name) (len : Bool) : createBlock s n len = createBlock s (lenName n len) false := by
  cases len
  · rfl
  · cases n <;> simp [createBlock, lenName]

theorem specCreateBlock_len_eq (a : AState) (n : Option Name) (len : Bool) : specCreateBlock a n len = specCreateBlock a (lenName n len) false := by
  cases len
  · rfl
  · cases n <;> simp [specCreateBlock, lenName]

theorem createFrame_len_eq (s : Store) (hd : CH) (n : Option Name) (len : Bool) : createFrame s hd n len = createFrame s hd (lenName n len) false := by
  cases len
  · rfl
  · cases n <;> simp [createFrame, lenName]

theorem specCreateFrameH_len_eq (a : AState) (hd : CH) (n : Option Name) (len : Bool) :
    specCreateFrameH a hd n len = specCreateFrameH a hd (lenName n len) false := by
  cases len
  · rfl
  · cases n <;> simp [specCreateFrameH, lenName]

/-- cif_create_block_internal (lenient or not) outside any transaction commutes with `absS`, same code -/
theorem createBlock_specL (s : Store) (n : Option Name) (len : Bool) (hg : Good s.db) (hac : s.autocommit = true) :
    absS (createBlock s n len).1.db = (specCreateBlock (absS s.db) n len).1 ∧ (createBlock s n len).2 = (specCreateBlock (absS s.db) n len).2 := by
  rw [createBlock_len_eq, specCreateBlock_len_eq]
  exact createBlock_spec s _ hg hac

/-- cif_container_create_frame on an existing container, outside any transaction -/
theorem createFrame_spec (s : Store) (hd : CH) (n : Option Name) (hg : Good s.db) (hac : s.autocommit = true) (hv : hd.validB s.db = true) :
    absS (createFrame s hd n).1.db = (specCreateFrameH (absS s.db) hd n).1 ∧ (createFrame s hd n).2 = (specCreateFrameH (absS s.db) hd n).2 := by
  have h := hg.inv
  have hhd : s.db.hasContainer hd.id = true := hv
  have hlt : hd.id < s.db.nextId := by
    obtain ⟨r, hr, hre⟩ := (hasContainer_iff _ _).mp hhd
    rw [← hre]; exact h.ext.idsBelow r hr
  unfold createFrame specCreateFrameH
  cases n with
  | none => exact ⟨rfl, rfl⟩
  | some nm =>
    simp only []
    cases hvn : nm.valid with
    | false => simp
    | true =>
      have hb : s.begin = some { s with txn := some s.db } := by unfold Store.begin; simp [hac]
      have hfr : (absS s.db).frames = s.db.frames := rfl
      simp only [Bool.not_true, Bool.not_false, Bool.true_and, Bool.false_eq_true, if_false, hb, hfr]
      have hcidfree : s.db.frames.any (fun f => f.cid == s.db.nextId) = false := by
        rw [Bool.eq_false_iff]
        intro ha
        obtain ⟨f, hfm, hfe⟩ := List.any_eq_true.mp ha
        obtain ⟨r, hr, hre⟩ := (hasContainer_iff _ _).mp (h.tree.frameFK f hfm).1
        have := h.ext.idsBelow r hr
        have : f.cid = s.db.nextId := by simpa using hfe
        omega
      cases hdup : s.db.frames.any (fun f => f.parent == hd.id && f.name == nm.key) with
      | true =>
        have : s.db.insertContainer.1.insertFrame s.db.insertContainer.2 hd.id nm.key nm.orig = none := by
          have hd' : s.db.insertContainer.1.frames = s.db.frames := rfl
          unfold Db.insertFrame
          rw [hd']
          split
          · rfl
          · simp [hdup]
        simp only [this, if_true]
        refine ⟨?_, by first | rfl | trivial⟩
        rw [begin_rollback' s _ hb]
      | false =>
        have hins : s.db.insertContainer.1.insertFrame s.db.insertContainer.2 hd.id nm.key nm.orig = some (withFrame s.db hd.id nm.key nm.orig) := by
          have hne : (s.db.nextId == hd.id) = false := by simp; omega
          have hc2 : (s.db.containers ++ [({ id := s.db.nextId, nextLoopNum := 0 } : ContainerRow)]).any (fun r => r.id == hd.id) = true := by
            rw [List.any_append]
            have : s.db.containers.any (fun r => r.id == hd.id) = true := hhd
            simp [this]
          unfold Db.insertFrame Db.insertContainer withFrame
          simp [hcidfree, hdup, hne, Db.hasContainer, hc2, Db.insertContainer]
        simp only [hins, Bool.false_eq_true, if_false]
        refine ⟨?_, by first | rfl | trivial⟩
        simp only [Store.commit, Store.autocommit, Option.isNone_some, Bool.false_and, Bool.false_eq_true, if_false, Option.getD]
        rfl

/-- cif_container_create_frame_internal (lenient or not) on an existing container, outside any transaction -/
theorem createFrame_specL (s : Store) (hd : CH) (n : Option Name) (len : Bool) (hg : Good s.db) (hac : s.autocommit = true)
    (hv : hd.validB s.db = true) :
    absS (createFrame s hd n len).1.db = (specCreateFrameH (absS s.db) hd n len).1 ∧
      (createFrame s hd n len).2 = (specCreateFrameH (absS s.db) hd n len).2 := by
  rw [createFrame_len_eq, specCreateFrameH_len_eq]
  exact createFrame_spec s hd _ hg hac hv

theorem hasItem_absS (d : Db) (hinv : Inv d) (cid : Nat) (k : Str) : (absS d).hasItem cid k = d.hasItem cid k := by
  unfold AState.hasItem
  show (d.loops.map (absALoop d)).any _ = _
  rw [List.any_map]
  apply Bool.eq_iff_iff.mpr
  simp only [List.any_eq_true, Function.comp]
  constructor
  · rintro ⟨y, hy, hk⟩
    simp only [Bool.and_eq_true] at hk
    rw [hasItem_absALoop] at hk
    obtain ⟨i, hi, hik⟩ := List.any_eq_true.mp hk.2
    obtain ⟨him, hic⟩ := List.mem_filter.mp hi
    have hyc : y.cid = cid := by simpa [absALoop] using hk.1
    simp at hic hik
    exact (hasItem_iff _ _ _).mpr ⟨i, him, by rw [hic.1, hyc], hik⟩
  · intro hi
    obtain ⟨i, him, hic, hik⟩ := (hasItem_iff _ _ _).mp hi
    obtain ⟨y, hy, hyc, hyn⟩ := (hasLoop_iff _ _ _).mp (hinv.itemFK i him)
    refine ⟨y, hy, ?_⟩
    simp only [Bool.and_eq_true]
    refine ⟨by simp [absALoop, hyc, hic], ?_⟩
    rw [hasItem_absALoop]
    exact List.any_eq_true.mpr ⟨i, List.mem_filter.mpr ⟨him, by simp [hyc, hyn]⟩, by simp [hik]⟩

def Db.namesFresh (d : Db) (cid : Nat) : List Name → Bool
  | [] => true
  | n :: ns => !d.hasItem cid n.key && !ns.any (fun m => m.key == n.key) && namesFresh d cid ns

theorem namesFresh_absS (d : Db) (hinv : Inv d) (cid : Nat) : ∀ ns, (absS d).namesFresh cid ns = d.namesFresh cid ns
  | [] => rfl
  | n :: ns => by unfold AState.namesFresh Db.namesFresh; rw [hasItem_absS d hinv, namesFresh_absS d hinv cid ns]

theorem namesFresh_congr (d d' : Db) (cid : Nat) (hi : d'.items = d.items) : ∀ ns, d'.namesFresh cid ns = d.namesFresh cid ns
  | [] => rfl
  | n :: ns => by unfold Db.namesFresh; rw [namesFresh_congr d d' cid hi ns]; simp only [Db.hasItem, hi]

theorem namesFresh_insert (d : Db) (cid : Nat) (key orig : Str) (ln : Nat) : ∀ ns,
    Db.namesFresh { d with items := d.items ++ [{ cid := cid, name := key, nameOrig := orig, loopNum := ln }] } cid ns =
      (d.namesFresh cid ns && !ns.any (fun m => m.key == key))
  | [] => rfl
  | n :: ns => by
    unfold Db.namesFresh
    rw [namesFresh_insert d cid key orig ln ns]
    have ecomm : (key == n.key) = (n.key == key) := Bool.eq_iff_iff.mpr ⟨fun h => by rw [beq_iff_eq] at h ⊢; exact h.symm, fun h => by rw [beq_iff_eq] at h ⊢; exact h.symm⟩
    have : Db.hasItem { d with items := d.items ++ [{ cid := cid, name := key, nameOrig := orig, loopNum := ln }] } cid n.key =
        (d.hasItem cid n.key || n.key == key) := by
      show (d.items ++ [({ cid := cid, name := key, nameOrig := orig, loopNum := ln } : ItemRow)]).any (fun i => i.cid == cid && i.name == n.key) = _
      rw [List.any_append]
      show (d.hasItem cid n.key || (([({ cid := cid, name := key, nameOrig := orig, loopNum := ln } : ItemRow)]).any (fun i => i.cid == cid && i.name == n.key))) = _
      simp only [List.any_cons, List.any_nil, Bool.or_false, beq_self_eq_true, Bool.true_and, ecomm]
    rw [this]
    simp only [List.any_cons]
    cases d.hasItem cid n.key <;> cases (n.key == key) <;> cases ns.any (fun m => m.key == n.key) <;> cases d.namesFresh cid ns <;>
      cases ns.any (fun m => m.key == key) <;> rfl

/-- the item loop of cif_container_create_loop: CIF_DUP_ITEMNAME exactly when a name is not new or occurs twice -/
theorem addItems_code : ∀ (ns : List Name) (d : Db) (cid ln : Nat), d.hasLoop cid ln = true →
    match addItems d cid ln ns with
    | .ok _ => d.namesFresh cid ns = true
    | .error c => c = CIF_DUP_ITEMNAME ∧ d.namesFresh cid ns = false
  | [], d, cid, ln, _ => by simp [addItems, Db.namesFresh]
  | n :: ns, d, cid, ln, hl => by
    unfold addItems
    cases hi : d.hasItem cid n.key with
    | true =>
      have : d.insertItem cid n.key n.orig ln = none := by unfold Db.insertItem; simp [hi]
      rw [this]
      simp [Db.namesFresh, hi]
    | false =>
      have : d.insertItem cid n.key n.orig ln = some { d with items := d.items ++ [{ cid := cid, name := n.key, nameOrig := n.orig, loopNum := ln }] } := by
        unfold Db.insertItem; simp [hi, hl]
      rw [this]
      simp only []
      have ih := addItems_code ns { d with items := d.items ++ [{ cid := cid, name := n.key, nameOrig := n.orig, loopNum := ln }] } cid ln hl
      rw [namesFresh_insert] at ih
      unfold Db.namesFresh
      rw [hi]
      simp only [Bool.not_false, Bool.true_and]
      cases hr : addItems { d with items := d.items ++ [{ cid := cid, name := n.key, nameOrig := n.orig, loopNum := ln }] } cid ln ns with
      | ok d2 =>
        rw [hr] at ih; simp only [] at ih ⊢
        simp only [Bool.and_eq_true] at ih ⊢
        exact ⟨ih.2, ih.1⟩
      | error c =>
        rw [hr] at ih; simp only [] at ih ⊢
        refine ⟨ih.1, ?_⟩
        have := ih.2
        cases h1 : d.namesFresh cid ns <;> cases h2 : ns.any (fun m => m.key == n.key) <;> simp [h1, h2] at this ⊢

theorem container_unique : ∀ (l : List ContainerRow), l.Pairwise (fun a b => a.id ≠ b.id) → ∀ a ∈ l, ∀ b ∈ l, a.id = b.id → a = b
  | [], _, a, ha, _, _, _ => nomatch ha
  | x :: xs, hp, a, ha, b, hb, h1 => by
    rw [List.pairwise_cons] at hp
    rcases List.mem_cons.mp ha with rfl | ha' <;> rcases List.mem_cons.mp hb with rfl | hb'
    · rfl
    · exact absurd h1 (hp.1 b hb')
    · exact absurd h1.symm (hp.1 a ha')
    · exact container_unique xs hp.2 a ha' b hb' h1

/-- CREATE_LOOP_SQL on an existing container fails exactly for a second scalar loop -/
theorem insertLoop_code (d : Db) (cid : Nat) (cat : Option Str) (hinv : Inv d) (hc : d.hasContainer cid = true) :
    match d.insertLoopUnnumbered cid cat with
    | .error m => (cat == some [] && d.loops.any (fun l => l.cid == cid && l.category == some [])) = true ∧ m = msgDupScalar
    | .ok _ => (cat == some [] && d.loops.any (fun l => l.cid == cid && l.category == some [])) = false := by
  unfold Db.insertLoopUnnumbered
  by_cases hsd : (cat == some [] && d.loops.any (fun l => l.cid == cid && l.category == some [])) = true
  · simp only [hsd, if_true]; refine ⟨?_, ?_⟩ <;> first | rfl | trivial
  · simp only [hsd, Bool.false_eq_true, if_false]
    obtain ⟨c0, hc0, hc0id⟩ := (hasContainer_iff _ _).mp hc
    cases hfc : d.containers.find? (fun c => c.id == cid) with
    | none =>
      have := List.find?_eq_none.mp hfc c0 hc0
      simp [hc0id] at this
    | some c =>
      have hcm := List.mem_of_find?_eq_some hfc
      have hcid : c.id = cid := by have := List.find?_some hfc; simpa using this
      have hnoloop : d.hasLoop cid c.nextLoopNum = false := by
        cases hh : d.hasLoop cid c.nextLoopNum with
        | false => rfl
        | true =>
          obtain ⟨x, hx, hxc, hxn⟩ := (hasLoop_iff _ _ _).mp hh
          have := hinv.ext.loopNumsBelow c hcm x hx (by rw [hxc, hcid])
          omega
      simp only [hnoloop, Bool.false_eq_true, if_false]
      try simpa using hsd

/-- the code of cif_container_create_loop_internal in terms of the tables -/
theorem createLoopBody_code (cid : Nat) (cat : Option Str) (names : List Name) (d : Db) (hinv : Inv d) (hc : d.hasContainer cid = true) :
    match createLoopBody cid cat names d with
    | .ok _ => (cat == some [] && d.loops.any (fun l => l.cid == cid && l.category == some [])) = false ∧ d.namesFresh cid names = true
    | .error c => ((cat == some [] && d.loops.any (fun l => l.cid == cid && l.category == some [])) = true ∧ c = CIF_RESERVED_LOOP) ∨
        ((cat == some [] && d.loops.any (fun l => l.cid == cid && l.category == some [])) = false ∧ d.namesFresh cid names = false ∧ c = CIF_DUP_ITEMNAME) := by
  have hic := insertLoop_code d cid cat hinv hc
  unfold createLoopBody
  cases hins : d.insertLoopUnnumbered cid cat with
  | error m =>
    rw [hins] at hic
    simp only [] at hic ⊢
    obtain ⟨h1, h2⟩ := hic
    subst h2
    have : (msgDupScalar == scalarErrmsg) = true := by decide
    simp only [this, if_true]
    first | exact Or.inl ⟨h1, rfl⟩ | exact Or.inl ⟨h1, trivial⟩
  | ok d1 =>
    rw [hins] at hic
    simp only [] at hic ⊢
    obtain ⟨c, hcm, hcid, hln, hfresh, l1, i1, _⟩ := insertLoop_maxLoopNum d d1 cid cat hinv hins
    have hl : d1.hasLoop cid (d1.maxLoopNum cid) = true := by
      rw [hln]
      exact (hasLoop_iff _ _ _).mpr ⟨_, by rw [l1]; exact List.mem_append_right _ (List.mem_singleton.mpr rfl), rfl, rfl⟩
    have hcode := addItems_code names d1 cid (d1.maxLoopNum cid) hl
    rw [namesFresh_congr d d1 cid i1] at hcode
    cases hadd : addItems d1 cid (d1.maxLoopNum cid) names with
    | error c' => rw [hadd] at hcode; simp only [] at hcode ⊢; exact Or.inr ⟨hic, hcode.2, hcode.1⟩
    | ok d2 => rw [hadd] at hcode; simp only [] at hcode ⊢; exact ⟨hic, hcode⟩

/-- cif_container_create_loop_internal (any name list, the empty one included: cif_container_add_scalar) on an existing container
    commutes with `absS` and returns the documented model's code -/
theorem createLoopInternal_spec (s : Store) (hd : CH) (cat : Option Str) (names : List Name) (hg : Good s.db) (hv : hd.validB s.db = true) :
    absS (createLoopInternal s hd cat names).1.db = (specCreateLoopI (absS s.db) hd cat names).1 ∧
    (createLoopInternal s hd cat names).2 = (specCreateLoopI (absS s.db) hd cat names).2 := by
  have hinv := hg.inv
  have hc : s.db.hasContainer hd.id = true := hv
  unfold specCreateLoopI
  have hres : (createLoopInternal s hd cat names).2 = (createLoopBody hd.id cat names s.db).map Prod.snd := nest_snd s _
  have hscal : (absS s.db).loops.any (fun y => y.cid == hd.id && y.category == some []) =
      s.db.loops.any (fun l => l.cid == hd.id && l.category == some []) := by
    show (s.db.loops.map (absALoop s.db)).any _ = _
    rw [List.any_map]; rfl
  have hcont : (absS s.db).containers = s.db.containers := rfl
  rw [hscal, hcont, namesFresh_absS s.db hinv]
  obtain ⟨c0, hc0, hc0id⟩ := (hasContainer_iff _ _).mp hc
  have hcode := createLoopBody_code hd.id cat names s.db hinv hc
  cases hb : createLoopBody hd.id cat names s.db with
  | error c =>
    rw [hb] at hcode
    simp only [] at hcode
    have hcode2 : (createLoopInternal s hd cat names).2 = .error c := by rw [hres, hb]; rfl
    have hdb : (createLoopInternal s hd cat names).1.db = s.db := (nest_error s _ _ hcode2).1
    rcases hcode with ⟨h1, h2⟩ | ⟨h1, h2, h3⟩
    · simp only [h1, if_true]
      exact ⟨by rw [hdb], by rw [hcode2, h2]⟩
    · simp only [h1, Bool.false_eq_true, if_false, h2, Bool.not_false, if_true]
      cases hfc : s.db.containers.find? (fun c => c.id == hd.id) with
      | none =>
        have := List.find?_eq_none.mp hfc c0 hc0
        simp [hc0id] at this
      | some cc => exact ⟨by rw [hdb], by rw [hcode2, h3]⟩
  | ok r =>
    obtain ⟨d2, l⟩ := r
    rw [hb] at hcode
    simp only [] at hcode
    obtain ⟨h1, h2⟩ := hcode
    simp only [h1, Bool.false_eq_true, if_false, h2, Bool.not_true]
    have hcode2 : (createLoopInternal s hd cat names).2 = .ok l := by rw [hres, hb]; rfl
    have hdb : (createLoopInternal s hd cat names).1.db = d2 := nest_db_ok s _ d2 l hb
    -- the shape of the new state
    unfold createLoopBody at hb
    cases hins : s.db.insertLoopUnnumbered hd.id cat with
    | error m => rw [hins] at hb; simp only [] at hb; split at hb <;> cases hb
    | ok d1 =>
      rw [hins] at hb
      simp only [] at hb
      obtain ⟨c, hcm, hcid, hln, hfresh, l1, i1, v1, f1, b1⟩ := insertLoop_maxLoopNum s.db d1 hd.id cat hinv hins
      have hcon1 : d1.containers = s.db.containers.map (fun r => if r.id == hd.id then { r with nextLoopNum := r.nextLoopNum + 1 } else r) ∧
          d1.nextId = s.db.nextId := by
        unfold Db.insertLoopUnnumbered at hins
        split at hins; · cases hins
        split at hins; · cases hins
        split at hins; · cases hins
        cases hins; exact ⟨rfl, rfl⟩
      have hfc : s.db.containers.find? (fun c => c.id == hd.id) = some c := by
        cases hf : s.db.containers.find? (fun c => c.id == hd.id) with
        | none =>
          have := List.find?_eq_none.mp hf c hcm
          simp [hcid] at this
        | some c' =>
          have hm' := List.mem_of_find?_eq_some hf
          have hk' := List.find?_some hf
          simp at hk'
          rw [container_unique s.db.containers hinv.ext.containerPK c' hm' c hcm (by rw [hk', hcid])]
      rw [hfc]
      simp only []
      cases hadd : addItems d1 hd.id (d1.maxLoopNum hd.id) names with
      | error c' => rw [hadd] at hb; cases hb
      | ok d2' =>
        rw [hadd] at hb
        simp only [Except.ok.injEq, Prod.mk.injEq] at hb
        obtain ⟨hd2, hl'⟩ := hb
        subst hd2
        rw [hln] at hadd hl'
        obtain ⟨i2, l2, v2, f2, b2, c2, hnew⟩ := addItems_spec names d1 d2' hd.id c.nextLoopNum hadd
        rw [i1] at i2; rw [l1] at l2; rw [v1] at v2
        have hnew' : ∀ n ∈ names, s.db.hasItem hd.id n.key = false := by
          intro n hn; have := hnew n hn; simpa only [Db.hasItem, i1] using this
        refine ⟨?_, by rw [hcode2, ← hl']⟩
        rw [hdb]
        -- old loops keep their items and their packets
        have hold : ∀ x ∈ s.db.loops, absALoop d2' x = absALoop s.db x := by
          intro x hx
          have hit : d2'.loopItems x.cid x.loopNum = s.db.loopItems x.cid x.loopNum := by
            unfold Db.loopItems
            rw [i2, List.filter_append]
            have : (names.map (fun n => ({ cid := hd.id, name := n.key, nameOrig := n.orig, loopNum := c.nextLoopNum } : ItemRow))).filter
                (fun i => i.cid == x.cid && i.loopNum == x.loopNum) = [] := by
              rw [List.filter_eq_nil_iff]
              intro i hi hk
              obtain ⟨n, _, rfl⟩ := List.mem_map.mp hi
              simp at hk
              have := (hasLoop_iff s.db _ _).mpr ⟨x, hx, hk.1.symm, hk.2.symm⟩
              rw [hfresh] at this; cases this
            rw [this, List.append_nil]
          unfold absALoop
          rw [hit]
          congr 1
          simp only [absLoop, Db.loopRows, hit, v2]
        -- the new loop: the given items, no packet
        have hnewloop : absALoop d2' { cid := hd.id, loopNum := c.nextLoopNum, category := cat, lastRowNum := 0 } =
            { cid := hd.id, num := c.nextLoopNum, category := cat, items := names.map (fun n => (n.key, n.orig)), packets := [] } := by
          have hit : d2'.loopItems hd.id c.nextLoopNum = names.map (fun n => ({ cid := hd.id, name := n.key, nameOrig := n.orig, loopNum := c.nextLoopNum } : ItemRow)) := by
            unfold Db.loopItems
            rw [i2, List.filter_append]
            have h0 : s.db.items.filter (fun i => i.cid == hd.id && i.loopNum == c.nextLoopNum) = [] := by
              rw [List.filter_eq_nil_iff]
              intro i hi hk
              simp at hk
              have := hinv.itemFK i hi
              rw [hk.1, hk.2, hfresh] at this; cases this
            rw [h0, List.nil_append, List.filter_eq_self]
            intro i hi
            obtain ⟨n, _, rfl⟩ := List.mem_map.mp hi
            simp
          have hrows : d2'.loopRows hd.id c.nextLoopNum = [] := by
            unfold Db.loopRows
            rw [hit, v2]
            have : s.db.values.filter (fun v => v.cid == hd.id && (names.map (fun n => ({ cid := hd.id, name := n.key, nameOrig := n.orig, loopNum := c.nextLoopNum } : ItemRow))).any (fun i => i.name == v.name)) = [] := by
              rw [List.filter_eq_nil_iff]
              intro v hvm hk
              simp only [Bool.and_eq_true, List.any_map, List.any_eq_true, Function.comp] at hk
              obtain ⟨hvc, n, hn, hnk⟩ := hk
              have h1' := hinv.valueFK v hvm
              have hvc' : v.cid = hd.id := by simpa using hvc
              have hnk' : n.key = v.name := by simpa using hnk
              rw [hvc', ← hnk', hnew' n hn] at h1'; cases h1'
            rw [this]; rfl
          unfold absALoop
          simp only [hit, List.map_map]
          congr 1
          simp only [absLoop, hrows, List.map_nil]
        show ({ containers := d2'.containers, blocks := d2'.blocks, frames := d2'.frames, nextId := d2'.nextId,
                loops := d2'.loops.map (absALoop d2') } : AState) = _
        have hnx : d2'.nextId = s.db.nextId := by
          have : ∀ (ns : List Name) (a b : Db) (c n : Nat), addItems a c n ns = .ok b → b.nextId = a.nextId := by
            intro ns
            induction ns with
            | nil => intro a b c n h; simp [addItems] at h; subst h; rfl
            | cons e es ih =>
              intro a b c n h
              unfold addItems at h
              split at h; · cases h
              rename_i a1 hins'
              have := ih a1 b c n h
              unfold Db.insertItem at hins'
              split at hins'; · cases hins'
              split at hins'; · cases hins'
              cases hins'; exact this
          rw [this names d1 d2' _ _ hadd, hcon1.2]
        rw [c2, hcon1.1, b2, b1, f2, f1, hnx, l2, List.map_append, List.map_cons, List.map_nil, hnewloop]
        have : s.db.loops.map (absALoop d2') = s.db.loops.map (absALoop s.db) := List.map_congr_left hold
        rw [this]
        rfl

/-- cif_container_create_loop on an existing container commutes with `absS` and returns the documented model's code -/
theorem createLoop_spec (s : Store) (hd : CH) (cat : Option Str) (names : List Name) (hg : Good s.db) (hv : hd.validB s.db = true) :
    absS (createLoop s hd cat names).1.db = (specCreateLoop (absS s.db) hd cat names).1 ∧
    (createLoop s hd cat names).2 = (specCreateLoop (absS s.db) hd cat names).2 := by
  unfold createLoop specCreateLoop
  cases hne : names.isEmpty with
  | true => simp
  | false =>
    simp only [Bool.false_eq_true, if_false]
    cases hval : names.any (fun n => !n.valid) with
    | true => simp
    | false =>
      simp only [Bool.false_eq_true, if_false]
      exact createLoopInternal_spec s hd cat names hg hv

theorem setAllValues_tables (d : Db) (cid : Nat) (k : Str) (v : V) :
    (d.setAllValues cid k v).1.items = d.items ∧ (d.setAllValues cid k v).1.loops = d.loops ∧
    (d.setAllValues cid k v).1.containers = d.containers ∧ (d.setAllValues cid k v).1.nextId = d.nextId := by
  unfold Db.setAllValues; split <;> exact ⟨rfl, rfl, rfl, rfl⟩

/-- cif_loop_add_item through a valid handle commutes with `absS` and returns the documented model's code -/
theorem addItem_spec (s : Store) (l : LH) (n : Option Name) (v : Option V) (hg : Good s.db) (hv : l.validB s.db = true) :
    absS (addItem s l n v).1.db = (specAddItem (absS s.db) l n v).1 ∧ (addItem s l n v).2 = (specAddItem (absS s.db) l n v).2 := by
  have hinv := hg.inv
  obtain ⟨x, hx, k1, k2, _⟩ := LH.valid_of_validB hv
  unfold addItem specAddItem
  cases n with
  | none => exact ⟨rfl, rfl⟩
  | some nm =>
    simp only []
    cases hval : nm.valid with
    | false => simp
    | true =>
      simp only [Bool.not_true, Bool.false_eq_true, if_false]
      rw [hasItem_absS s.db hinv]
      have hres : (addItemInternal s l nm.key nm.orig (v.getD .unk)).2 = (addItemBody l nm.key nm.orig (v.getD .unk) s.db).map Prod.snd := nest_snd s _
      have hloop : s.db.hasLoop l.cid l.loopNum = true := (hasLoop_iff _ _ _).mpr ⟨x, hx, k1, k2⟩
      cases hi : s.db.hasItem l.cid nm.key with
      | true =>
        simp only [if_true]
        have hbody : addItemBody l nm.key nm.orig (v.getD .unk) s.db = .error CIF_DUP_ITEMNAME := by
          unfold addItemBody Db.insertItem; simp [hi]
        have hcode : (addItemInternal s l nm.key nm.orig (v.getD .unk)).2 = .error CIF_DUP_ITEMNAME := by rw [hres, hbody]; rfl
        have hdb : (addItemInternal s l nm.key nm.orig (v.getD .unk)).1.db = s.db := (nest_error s _ _ hcode).1
        cases hr : addItemInternal s l nm.key nm.orig (v.getD .unk) with
        | mk s1 r =>
          rw [hr] at hcode hdb
          simp only [] at hcode hdb
          subst hcode
          exact ⟨by rw [hdb], rfl⟩
      | false =>
        simp only [Bool.false_eq_true, if_false]
        have hins : s.db.insertItem l.cid nm.key nm.orig l.loopNum =
            some { s.db with items := s.db.items ++ [{ cid := l.cid, name := nm.key, nameOrig := nm.orig, loopNum := l.loopNum }] } := by
          unfold Db.insertItem; simp [hi, hloop]
        have hbody : ∃ d' k, addItemBody l nm.key nm.orig (v.getD .unk) s.db = .ok (d', k) ∧
            d'.items = s.db.items ++ [{ cid := l.cid, name := nm.key, nameOrig := nm.orig, loopNum := l.loopNum }] ∧
            d'.containers = s.db.containers ∧ d'.nextId = s.db.nextId := by
          unfold addItemBody
          rw [hins]
          obtain ⟨a, _, c, d⟩ := setAllValues_tables { s.db with items := s.db.items ++ [{ cid := l.cid, name := nm.key, nameOrig := nm.orig, loopNum := l.loopNum }] } l.cid nm.key (v.getD .unk)
          exact ⟨_, _, rfl, a, c, d⟩
        obtain ⟨d', k, hb, hit, hcon, hnx⟩ := hbody
        have hcode : (addItemInternal s l nm.key nm.orig (v.getD .unk)).2 = .ok k := by rw [hres, hb]; rfl
        have hdb : (addItemInternal s l nm.key nm.orig (v.getD .unk)).1.db = d' := nest_db_ok s _ d' k hb
        obtain ⟨htar, hoth, hl, hf, hbk⟩ := addItem_refines s.db d' l nm.key nm.orig (v.getD .unk) k x hinv hx ⟨k1, k2⟩ hb
        cases hr : addItemInternal s l nm.key nm.orig (v.getD .unk) with
        | mk s1 r =>
          rw [hr] at hcode hdb
          simp only [] at hcode hdb
          subst hcode
          simp only []
          refine ⟨?_, by first | rfl | trivial⟩
          rw [hdb]
          have hloops := absS_loops_map s.db d' id
            (fun y => if y.cid == l.cid && y.num == l.loopNum then { y with items := y.items ++ [(nm.key, nm.orig)], packets := y.packets.map (· ++ [v.getD .unk]) } else y)
            (by rw [hl, List.map_id])
            (by
              intro y hy
              simp only [id]
              by_cases hm : (y.cid == l.cid && y.loopNum == l.loopNum) = true
              · have hm' : ((absALoop s.db y).cid == l.cid && (absALoop s.db y).num == l.loopNum) = true := hm
                simp only [hm', if_true]
                have hmk : y.cid = l.cid ∧ y.loopNum = l.loopNum := by simpa using hm
                have : y = x := loopKey_unique s.db.loops hinv.loopPK y hy x hx (by rw [hmk.1, k1]) (by rw [hmk.2, k2])
                subst this
                have hitems : d'.loopItems y.cid y.loopNum = s.db.loopItems y.cid y.loopNum ++ [{ cid := l.cid, name := nm.key, nameOrig := nm.orig, loopNum := l.loopNum }] := by
                  unfold Db.loopItems
                  rw [hit, List.filter_append]
                  congr 1
                  simp [hmk.1, hmk.2]
                unfold absALoop
                rw [hitems, htar]
                simp only [List.map_append, List.map_cons, List.map_nil]
                try rfl
              · have hm' : ((absALoop s.db y).cid == l.cid && (absALoop s.db y).num == l.loopNum) = false := by
                  show (y.cid == l.cid && y.loopNum == l.loopNum) = false
                  simpa using hm
                simp only [hm', Bool.false_eq_true, if_false]
                have hitems : d'.loopItems y.cid y.loopNum = s.db.loopItems y.cid y.loopNum := by
                  unfold Db.loopItems
                  rw [hit, List.filter_append]
                  have : ([({ cid := l.cid, name := nm.key, nameOrig := nm.orig, loopNum := l.loopNum } : ItemRow)]).filter (fun i => i.cid == y.cid && i.loopNum == y.loopNum) = [] := by
                    rw [List.filter_eq_nil_iff]
                    intro i hi' hk'
                    simp at hi'; subst hi'
                    simp at hk'
                    apply hm
                    simp [hk'.1, hk'.2]
                  rw [this, List.append_nil]
                unfold absALoop
                rw [hitems, hoth y hy (fun ⟨e1, e2⟩ => hm (by simp [e1, e2, k1, k2]))])
          show ({ containers := d'.containers, blocks := d'.blocks, frames := d'.frames, nextId := d'.nextId, loops := (absS d').loops } : AState) = _
          rw [hloops, hcon, hnx, hf, hbk]
          rfl

/-- the values GET_VALUE_SQL yields for an item are the item's column in the documented model (none when the container has no
    such item) -/
theorem valuesOf_column (d : Db) (hg : Good d) (cid : Nat) (key : Str) :
    (d.valuesOf cid key).map (·.val) = (absS d).columnOf cid key := by
  have hinv := hg.inv
  unfold AState.columnOf
  show _ = (match (d.loops.map (absALoop d)).find? _ with | some x => x.column key | none => [])
  rw [List.find?_map]
  cases hf : d.loops.find? ((fun y : ALoop => y.cid == cid && y.hasItem key) ∘ absALoop d) with
  | none =>
    simp only [Option.map_none]
    -- no loop of the container has the item: no value either
    have hno : d.hasItem cid key = false := by
      cases hh : d.hasItem cid key with
      | false => rfl
      | true =>
        obtain ⟨i, him, hic, hik⟩ := (hasItem_iff _ _ _).mp hh
        obtain ⟨y, hy, hyc, hyn⟩ := (hasLoop_iff _ _ _).mp (hinv.itemFK i him)
        have := List.find?_eq_none.mp hf y hy
        simp only [Function.comp, Bool.and_eq_true, not_and, Bool.not_eq_true] at this
        have h1 : ((absALoop d y).cid == cid) = true := by simp [absALoop, hyc, hic]
        have h2 := this h1
        rw [hasItem_absALoop] at h2
        have : (d.loopItems y.cid y.loopNum).any (fun i => i.name == key) = true :=
          List.any_eq_true.mpr ⟨i, List.mem_filter.mpr ⟨him, by simp [hyc, hyn]⟩, by simp [hik]⟩
        rw [this] at h2; cases h2
    have : d.values.filter (fun v => v.cid == cid && v.name == key) = [] := by
      rw [List.filter_eq_nil_iff]
      intro v hv hk
      simp at hk
      have := hinv.valueFK v hv
      rw [hk.1, hk.2, hno] at this; cases this
    show ((d.values.filter (fun v => v.cid == cid && v.name == key)).foldr Db.insertByRow []).map _ = []
    rw [this]; rfl
  | some x =>
    simp only [Option.map_some]
    have hx := List.mem_of_find?_eq_some hf
    have hk := List.find?_some hf
    simp only [Function.comp, Bool.and_eq_true] at hk
    have hxc : x.cid = cid := by simpa [absALoop] using hk.1
    have hhas := hk.2
    rw [hasItem_absALoop] at hhas
    -- the position of the item in the loop
    let L := d.loopItems x.cid x.loopNum
    have hidx : (absALoop d x).items.findIdx (fun it => it.1 == key) = L.findIdx (fun i => i.name == key) := by
      show (L.map (fun i => (i.name, i.nameOrig))).findIdx _ = _
      rw [List.findIdx_map]; rfl
    have hlt : L.findIdx (fun i => i.name == key) < L.length := List.findIdx_lt_length.mpr (by
      obtain ⟨i, hi, hik⟩ := List.any_eq_true.mp hhas
      exact ⟨i, hi, hik⟩)
    let i := L[L.findIdx (fun i => i.name == key)]
    have hin : i.name = key := by
      have := List.findIdx_getElem (p := fun i : ItemRow => i.name == key) (xs := L) (w := hlt)
      simpa using this
    have him : i ∈ L := List.getElem_mem hlt
    have hget : L[L.findIdx (fun i => i.name == key)]? = some i := by simp [i, hlt]
    have h1 := getValue_good d hg x hx i him
    have h2 := absColumn_is_column d x i _ hget
    rw [hxc, hin] at h1
    rw [h1, ← h2]
    show _ = (absALoop d x).packets.map (fun p => p.getD ((absALoop d x).items.findIdx (fun it => it.1 == key)) .unk)
    rw [hidx]
    rfl

/-- cif_container_get_value -/
theorem getValue_spec (s : Store) (h : CH) (n : Option Name) (hg : Good s.db) : (getValue s h n).2 = specGetValue (absS s.db) h n := by
  unfold getValue specGetValue
  cases n with
  | none => rfl
  | some nm =>
    simp only []
    cases hv : nm.valid with
    | false => rfl
    | true =>
      simp only [Bool.not_true, Bool.false_eq_true, if_false]
      rw [← valuesOf_column s.db hg h.id nm.key]
      cases hvo : s.db.valuesOf h.id nm.key with
      | nil => rfl
      | cons v vs =>
        cases vs with
        | nil => rfl
        | cons w ws => rfl

/-- DESTROY_LOOP_SQL of an existing loop on `absS`: exactly that loop goes -/
theorem absS_deleteLoop (d : Db) (hg : Good d) (x : LoopRow) (hx : x ∈ d.loops) :
    absS (d.deleteLoops (fun y => y.cid == x.cid && y.loopNum == x.loopNum)) =
      { absS d with loops := (absS d).loops.filter (fun y => !(y.cid == x.cid && y.num == x.loopNum)) } := by
  have hr := destroyLoop_refines d x hg.inv
  simp only [] at hr
  obtain ⟨l1, hoth, f1, b1⟩ := hr
  have hdl : (d.destroyLoop x.cid x.loopNum).1 = d.deleteLoops (fun y => y.cid == x.cid && y.loopNum == x.loopNum) := rfl
  rw [hdl] at l1 hoth f1 b1
  show ({ containers := (d.deleteLoops _).containers, blocks := (d.deleteLoops _).blocks, frames := (d.deleteLoops _).frames,
          nextId := (d.deleteLoops _).nextId, loops := (d.deleteLoops _).loops.map (absALoop (d.deleteLoops _)) } : AState) = _
  rw [f1, b1, l1]
  have hc : (d.deleteLoops (fun y => y.cid == x.cid && y.loopNum == x.loopNum)).containers = d.containers := rfl
  have hni : (d.deleteLoops (fun y => y.cid == x.cid && y.loopNum == x.loopNum)).nextId = d.nextId := rfl
  rw [hc, hni]
  have hl : (d.loops.filter (fun y => !(y.cid == x.cid && y.loopNum == x.loopNum))).map (absALoop (d.deleteLoops (fun y => y.cid == x.cid && y.loopNum == x.loopNum))) =
      (d.loops.map (absALoop d)).filter (fun y => !(y.cid == x.cid && y.num == x.loopNum)) := by
    rw [List.filter_map]
    have : ((fun y : ALoop => !(y.cid == x.cid && y.num == x.loopNum)) ∘ absALoop d) = (fun y : LoopRow => !(y.cid == x.cid && y.loopNum == x.loopNum)) := by
      funext y; rfl
    rw [this]
    apply List.map_congr_left
    intro y hy
    obtain ⟨hym, hyk⟩ := List.mem_filter.mp hy
    have hyk' : (y.cid == x.cid && y.loopNum == x.loopNum) = false := by
      cases hb : (y.cid == x.cid && y.loopNum == x.loopNum) with
      | false => rfl
      | true => rw [hb] at hyk; cases hyk
    unfold absALoop
    rw [deleteLoops_loopItems d _ (fun a b hc hl => by simp only [hc, hl]) y hyk']
    rw [hoth y hym (fun ⟨e1, e2⟩ => by simp [e1, e2] at hyk')]
  rw [hl]
  rfl

theorem zip_map_filter_snd {α β γ} (f : α → β) (g : α → γ) (p : α → Bool) (q : β → Bool) (h : ∀ a, q (f a) = p a) :
    ∀ L : List α, (((L.map f).zip (L.map g)).filter (fun e => q e.1)).map (·.2) = (L.filter p).map g
  | [] => rfl
  | a :: as => by
    simp only [List.map_cons, List.zip_cons_cons, List.filter_cons, h a]
    cases p a <;> simp [zip_map_filter_snd f g p q h as]

/-- cif_container_remove_item on an existing container, outside any transaction, commutes with `absS` and returns the documented
    model's code -/
theorem removeItem_spec (s : Store) (hd : CH) (n : Option Name) (hg : Good s.db) (hac : s.autocommit = true) :
    absS (removeItem s hd n).1.db = (specRemoveItem (absS s.db) hd n).1 ∧ (removeItem s hd n).2 = (specRemoveItem (absS s.db) hd n).2 := by
  have hinv := hg.inv
  unfold removeItem specRemoveItem
  cases n with
  | none => exact ⟨rfl, rfl⟩
  | some nm =>
    simp only []
    cases hval : nm.valid with
    | false => simp
    | true =>
      have hb : s.begin = some { s with txn := some s.db } := by unfold Store.begin; simp [hac]
      simp only [Bool.not_true, Bool.false_eq_true, if_false, hb]
      have hil : (absS s.db).itemLoop hd.id nm.key =
          (s.db.loops.find? ((fun y : ALoop => y.cid == hd.id && y.hasItem nm.key) ∘ absALoop s.db)).map (absALoop s.db) := by
        show (s.db.loops.map (absALoop s.db)).find? _ = _
        rw [List.find?_map]
      rw [hil]
      cases hf : s.db.loops.find? ((fun y : ALoop => y.cid == hd.id && y.hasItem nm.key) ∘ absALoop s.db) with
      | none =>
        simp only [Option.map_none]
        have hno : s.db.hasItem hd.id nm.key = false := by
          cases hh : s.db.hasItem hd.id nm.key with
          | false => rfl
          | true =>
            obtain ⟨i, him, hic, hik⟩ := (hasItem_iff _ _ _).mp hh
            obtain ⟨y, hy, hyc, hyn⟩ := (hasLoop_iff _ _ _).mp (hinv.itemFK i him)
            have := List.find?_eq_none.mp hf y hy
            simp only [Function.comp, Bool.and_eq_true, not_and, Bool.not_eq_true] at this
            have h1 : ((absALoop s.db y).cid == hd.id) = true := by simp [absALoop, hyc, hic]
            have h2 := this h1
            rw [hasItem_absALoop] at h2
            have : (s.db.loopItems y.cid y.loopNum).any (fun i => i.name == nm.key) = true :=
              List.any_eq_true.mpr ⟨i, List.mem_filter.mpr ⟨him, by simp [hyc, hyn]⟩, by simp [hik]⟩
            rw [this] at h2; cases h2
        have hls : s.db.loopSize hd.id nm.key = none := by
          unfold Db.loopSize Db.loopOfItem
          have : s.db.items.find? (fun i => i.cid == hd.id && i.name == nm.key) = none := by
            apply List.find?_eq_none.mpr
            intro i him hk
            simp at hk
            have := (hasItem_iff _ _ _).mpr ⟨i, him, hk.1, hk.2⟩
            rw [hno] at this; cases this
          rw [this]; rfl
        have hls' : Db.loopSize ({ s with txn := some s.db } : Store).db hd.id nm.key = none := hls
        rw [hls']
        simp only []
        exact ⟨by rw [begin_rollback' s _ hb], by first | rfl | trivial⟩
      | some y =>
        simp only [Option.map_some]
        have hy := List.mem_of_find?_eq_some hf
        have hk := List.find?_some hf
        simp only [Function.comp, Bool.and_eq_true] at hk
        have hyc : y.cid = hd.id := by simpa [absALoop] using hk.1
        have hhas := hk.2
        rw [hasItem_absALoop] at hhas
        obtain ⟨i, hi, hik⟩ := List.any_eq_true.mp hhas
        have hik' : i.name = nm.key := by simpa using hik
        obtain ⟨him, hikey⟩ := List.mem_filter.mp hi
        have hikey' : i.cid = y.cid ∧ i.loopNum = y.loopNum := by simpa using hikey
        -- GET_LOOP_SIZE_SQL finds this loop
        have hls : s.db.loopSize hd.id nm.key = some (y.loopNum, (s.db.loopItems y.cid y.loopNum).length) := by
          unfold Db.loopSize Db.loopOfItem
          cases hfi : s.db.items.find? (fun i => i.cid == hd.id && i.name == nm.key) with
          | none =>
            have := List.find?_eq_none.mp hfi i him
            simp [hikey'.1, hyc, hik'] at this
          | some i0 =>
            have hm0 := List.mem_of_find?_eq_some hfi
            have hk0 := List.find?_some hfi
            simp at hk0
            have : i0 = i := itemKey_unique s.db.items hinv.itemPK i0 hm0 i him (by rw [hk0.1, hikey'.1, hyc]) (by rw [hk0.2, hik'])
            subst this
            simp [hikey'.2, hyc]
        have hls' : Db.loopSize ({ s with txn := some s.db } : Store).db hd.id nm.key = some (y.loopNum, (s.db.loopItems y.cid y.loopNum).length) := hls
        rw [hls']
        simp only []
        have hlen : (absALoop s.db y).items.length = (s.db.loopItems y.cid y.loopNum).length := by simp [absALoop]
        rw [hlen]
        have hcommit : ∀ d1 : Db, ((({ ({ s with txn := some s.db } : Store) with db := d1 } : Store).commit).getD { s with txn := some s.db }).db = d1 := by
          intro d1; simp [Store.commit, Store.autocommit]
        by_cases hone : ((s.db.loopItems y.cid y.loopNum).length == 1) = true
        · simp only [hone, if_true]
          refine ⟨?_, by first | rfl | trivial⟩
          rw [hcommit]
          have := absS_deleteLoop s.db hg y hy
          show absS (s.db.destroyLoop hd.id y.loopNum).1 = _
          rw [← hyc]
          exact this
        · simp only [hone, Bool.false_eq_true, if_false]
          refine ⟨?_, by first | rfl | trivial⟩
          rw [hcommit]
          have hone' : (s.db.loopItems y.cid y.loopNum).length ≠ 1 := by simpa using hone
          obtain ⟨j0, hj0, hj0n⟩ := loopSize_other s.db hinv hd.id nm.key y.loopNum _ hls hone' i him (by rw [hikey'.1, hyc]) hik'
          rw [hikey'.1, hikey'.2] at hj0
          have hr := removeItem_good s.db hg y i j0 hy hi hj0 (by rw [hik']; exact hj0n)
          simp only [] at hr
          rw [hik', hyc] at hr
          obtain ⟨htar, hoth, hl, hf', hb'⟩ := hr
          -- the item table afterwards
          have hitems : (s.db.removeItem hd.id nm.key).items = s.db.items.filter (fun j => !(j.cid == hd.id && j.name == nm.key)) := rfl
          have hloops := absS_loops_map s.db (s.db.removeItem hd.id nm.key) id
            (fun z => if z.cid == (absALoop s.db y).cid && z.num == (absALoop s.db y).num then z.dropItem nm.key else z)
            (by rw [hl, List.map_id])
            (by
              intro z hz
              simp only [id]
              by_cases hm : (z.cid == y.cid && z.loopNum == y.loopNum) = true
              · have hm' : ((absALoop s.db z).cid == (absALoop s.db y).cid && (absALoop s.db z).num == (absALoop s.db y).num) = true := hm
                simp only [hm', if_true]
                have hmk : z.cid = y.cid ∧ z.loopNum = y.loopNum := by simpa using hm
                have : z = y := loopKey_unique s.db.loops hinv.loopPK z hz y hy hmk.1 hmk.2
                subst this
                have hli : (s.db.removeItem hd.id nm.key).loopItems z.cid z.loopNum = (s.db.loopItems z.cid z.loopNum).filter (fun j => !(j.name == nm.key)) := by
                  unfold Db.loopItems
                  rw [hitems, List.filter_filter, List.filter_filter]
                  apply List.filter_congr
                  intro j _
                  rw [← hyc]
                  cases (j.cid == z.cid) <;> cases (j.loopNum == z.loopNum) <;> cases (j.name == nm.key) <;> rfl
                unfold absALoop ALoop.dropItem
                rw [hli, htar]
                simp only [absLoop_eq]
                rw [hyc]
                congr 1
                · rw [List.filter_map]; rfl
                · rw [List.map_map]
                  apply List.map_congr_left
                  intro r _
                  simp only [Function.comp]
                  exact (zip_map_filter_snd (fun j : ItemRow => (j.name, j.nameOrig)) (fun j => cell s.db hd.id j r)
                    (fun j => !(j.name == nm.key)) (fun e => !(e.1 == nm.key)) (fun _ => rfl) _).symm
              · have hm' : ((absALoop s.db z).cid == (absALoop s.db y).cid && (absALoop s.db z).num == (absALoop s.db y).num) = false := by
                  show (z.cid == y.cid && z.loopNum == y.loopNum) = false
                  simpa using hm
                simp only [hm', Bool.false_eq_true, if_false]
                have hli : (s.db.removeItem hd.id nm.key).loopItems z.cid z.loopNum = s.db.loopItems z.cid z.loopNum := by
                  unfold Db.loopItems
                  rw [hitems, List.filter_filter]
                  apply List.filter_congr
                  intro j hjm
                  by_cases hj : (j.cid == z.cid && j.loopNum == z.loopNum) = true
                  · -- j is not the removed item: that one lies in y
                    have hjk : j.cid = z.cid ∧ j.loopNum = z.loopNum := by simpa using hj
                    have : (j.cid == hd.id && j.name == nm.key) = false := by
                      cases hb2 : (j.cid == hd.id && j.name == nm.key) with
                      | false => rfl
                      | true =>
                        exfalso
                        simp at hb2
                        have : j = i := itemKey_unique s.db.items hinv.itemPK j hjm i him (by rw [hb2.1, hikey'.1, hyc]) (by rw [hb2.2, hik'])
                        subst this
                        apply hm
                        simp [← hjk.1, ← hjk.2, hikey'.1, hikey'.2]
                    simp [hj, this]
                  · simp [hj]
                unfold absALoop
                rw [hli, hoth z hz (fun ⟨e1, e2⟩ => hm (by simp [e1, e2, hyc]))])
          show ({ containers := (s.db.removeItem hd.id nm.key).containers, blocks := (s.db.removeItem hd.id nm.key).blocks,
                  frames := (s.db.removeItem hd.id nm.key).frames, nextId := (s.db.removeItem hd.id nm.key).nextId,
                  loops := (absS (s.db.removeItem hd.id nm.key)).loops } : AState) = _
          rw [hloops, hf', hb']
          rfl

/-- cif_container_get_all_loops -/
theorem allLoops_spec (s : Store) (h : CH) : (allLoops s h).1.db = s.db ∧ (allLoops s h).2 = specAllLoops (absS s.db) h := by
  refine ⟨by unfold allLoops; rw [nestRO_db], ?_⟩
  unfold allLoops specAllLoops
  rw [nestRO_snd]
  have hc : (absS s.db).containers.any (fun c => c.id == h.id) = s.db.hasContainer h.id := rfl
  rw [hc]
  cases s.db.hasContainer h.id with
  | false => rfl
  | true =>
    simp only [Bool.not_true, Bool.false_eq_true, if_false]
    rw [absS_filter_loops s.db (fun l => l.cid == h.id) _ (fun _ _ => rfl), List.map_map]
    rfl

/-- the caller's get_names over the handles cif_container_get_all_loops returned: the database is untouched and the answers are the
    documented model's -/
theorem foldNames_spec (d : Db) (hg : Good d) : ∀ (ls : List LH), (∀ l ∈ ls, l.validB d = true) →
    ∀ (acc : Store × List (Option Str × Option (List Str))), acc.1.db = d →
    (ls.foldl (fun (acc : Store × List (Option Str × Option (List Str))) l =>
        match getNames acc.1 l with
        | (s', .ok ns) => (s', acc.2 ++ [(l.category, some (ns.map (·.2)))])
        | (s', .error _) => (s', acc.2 ++ [(l.category, none)])) acc).1.db = d ∧
    (ls.foldl (fun (acc : Store × List (Option Str × Option (List Str))) l =>
        match getNames acc.1 l with
        | (s', .ok ns) => (s', acc.2 ++ [(l.category, some (ns.map (·.2)))])
        | (s', .error _) => (s', acc.2 ++ [(l.category, none)])) acc).2 =
      acc.2 ++ ls.map (fun l => match specGetNames (absS d) l with
        | .ok ns => (l.category, some (ns.map (·.2)))
        | .error _ => (l.category, none))
  | [], _, acc, hdb => ⟨hdb, by simp⟩
  | l :: ls, hv, acc, hdb => by
    simp only [List.foldl_cons, List.map_cons]
    have hvl := hv l List.mem_cons_self
    have hsp := getNames_spec acc.1 l (by rw [hdb]; exact hg) (by rw [hdb]; exact hvl)
    have hdb' : (getNames acc.1 l).1.db = d := by unfold getNames; rw [nestRO_db]; exact hdb
    rw [hdb] at hsp
    cases hr : getNames acc.1 l with
    | mk s' r =>
      rw [hr] at hsp hdb'
      simp only [] at hsp hdb'
      cases r with
      | ok ns =>
        have ih := foldNames_spec d hg ls (fun l' hl' => hv l' (List.mem_cons_of_mem _ hl')) (s', acc.2 ++ [(l.category, some (ns.map (·.2)))]) hdb'
        simp only [] at ih ⊢
        refine ⟨ih.1, ?_⟩
        rw [ih.2, ← hsp.2, List.append_assoc]
        rfl
      | error c =>
        have ih := foldNames_spec d hg ls (fun l' hl' => hv l' (List.mem_cons_of_mem _ hl')) (s', acc.2 ++ [(l.category, none)]) hdb'
        simp only [] at ih ⊢
        refine ⟨ih.1, ?_⟩
        rw [ih.2, ← hsp.2, List.append_assoc]
        rfl

theorem validB_of_mem (d : Db) (hinv : Inv d) (x : LoopRow) (hx : x ∈ d.loops) (cid : Nat) (hc : x.cid = cid) :
    LH.validB { cid := cid, loopNum := x.loopNum, category := x.category } d = true := by
  unfold LH.validB
  simp only []
  have := find_loop_of_mem d hinv x hx
  rw [hc] at this
  rw [this]
  simp

end CifModel.Store
