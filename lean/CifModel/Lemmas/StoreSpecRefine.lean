import CifModel.Lemmas.StoreRefineW
import CifModel.Spec.StoreSpec
/-
  Lemmas/StoreSpecRefine — the model's calls commute with `absS` (Spec/StoreSpec) and return the code the documented model gives,
  for a `Good` store and a valid handle.
-/
namespace CifModel.Store
open Gen.ErrCodes

theorem findLoop_absS (d : Db) (cid num : Nat) :
    (absS d).findLoop cid num = (d.loops.find? (fun x => x.cid == cid && x.loopNum == num)).map (absALoop d) := by
  unfold AState.findLoop absS
  simp only [List.find?_map]
  rfl

theorem findLoop_valid (d : Db) (h : Inv d) (x : LoopRow) (hx : x ∈ d.loops) :
    (absS d).findLoop x.cid x.loopNum = some (absALoop d x) := by
  rw [findLoop_absS, find_loop_of_mem d h x hx]; rfl

/-- the loops of `absS` after a change that maps the loop table by `φ` (keys kept) -/
theorem absS_loops_map (d d' : Db) (φ : LoopRow → LoopRow) (g : ALoop → ALoop) (hl : d'.loops = d.loops.map φ)
    (hpt : ∀ x ∈ d.loops, absALoop d' (φ x) = g (absALoop d x)) : (absS d').loops = (absS d).loops.map g := by
  show d'.loops.map (absALoop d') = (d.loops.map (absALoop d)).map g
  rw [hl, List.map_map, List.map_map]
  apply List.map_congr_left
  intro x hx
  exact hpt x hx

theorem packetFor_eq_packetOf (d : Db) (x : LoopRow) (pkt : List (Str × V)) :
    packetFor d x.cid x.loopNum pkt = (absALoop d x).packetOf pkt := by
  unfold packetFor ALoop.packetOf absALoop
  simp only [List.map_map]
  rfl

theorem hasItem_absALoop (d : Db) (x : LoopRow) (k : Str) :
    (absALoop d x).hasItem k = (d.loopItems x.cid x.loopNum).any (fun i => i.name == k) := by
  unfold ALoop.hasItem absALoop
  simp only [List.any_map]
  rfl

/-- cif_loop_add_packet commutes with `absS` and returns the documented model's code -/
theorem addPacket_spec (s : Store) (l : LH) (pkt : List (Str × V)) (hg : Good s.db) (hv : l.validB s.db = true)
    (hk : keysDistinct pkt = true) :
    absS (addPacket s l pkt).1.db = (specAddPacket (absS s.db) l pkt).1 ∧ (addPacket s l pkt).2 = (specAddPacket (absS s.db) l pkt).2 := by
  obtain ⟨x, hx, k1, k2, _⟩ := LH.valid_of_validB hv
  have hfind : (absS s.db).findLoop l.cid l.loopNum = some (absALoop s.db x) := by rw [← k1, ← k2]; exact findLoop_valid s.db hg.inv x hx
  by_cases hne : pkt = []
  · subst hne; simp [addPacket, specAddPacket]
  · have hempty : pkt.isEmpty = false := by cases pkt with | nil => exact absurd rfl hne | cons a b => rfl
    have hcode := addPacketBody_codeK s.db l pkt x hg.inv hx ⟨k1, k2⟩ (hg.rows.rb.at _ _)
      (hg.rows.scalar_count hg.inv x hx) (keysDistinct_pairwise pkt hk)
    have hres : (addPacket s l pkt).2 = (addPacketBody l pkt s.db).map Prod.snd := by
      unfold addPacket; simp only [hempty, Bool.false_eq_true, if_false]; exact nest_snd s _
    have hpk : (absALoop s.db x).packets.isEmpty = (s.db.loopRows x.cid x.loopNum).isEmpty := by
      show ((s.db.loopRows x.cid x.loopNum).map _).isEmpty = _
      cases s.db.loopRows x.cid x.loopNum <;> rfl
    have hhas : (fun e : Str × V => !(absALoop s.db x).hasItem e.1) =
        (fun e : Str × V => !(s.db.loopItems l.cid l.loopNum).any (fun i => i.name == e.1)) := by
      funext e; rw [hasItem_absALoop, k1, k2]
    unfold specAddPacket
    simp only [hempty, Bool.false_eq_true, if_false, hfind]
    have hcat : (absALoop s.db x).category = x.category := rfl
    rw [hcat, hpk, hhas]
    have hcode' : (addPacket s l pkt).2 =
        (if (x.category == some [] && !(s.db.loopRows x.cid x.loopNum).isEmpty) = true then (.error CIF_RESERVED_LOOP : Except Code Unit)
         else if (pkt.any fun e => !(s.db.loopItems l.cid l.loopNum).any fun i => i.name == e.1) = true then .error CIF_WRONG_LOOP
         else .ok ()) := by rw [hres, ← hcode]
    by_cases c1 : (x.category == some [] && !(s.db.loopRows x.cid x.loopNum).isEmpty) = true
    · simp only [c1, if_true] at hcode' ⊢
      exact ⟨by rw [(addPacket_error s l pkt _ hcode').1], hcode'⟩
    · simp only [c1, Bool.false_eq_true, if_false] at hcode' ⊢
      by_cases c2 : (pkt.any fun e => !(s.db.loopItems l.cid l.loopNum).any fun i => i.name == e.1) = true
      · simp only [c2, if_true] at hcode' ⊢
        exact ⟨by rw [(addPacket_error s l pkt _ hcode').1], hcode'⟩
      · simp only [c2, Bool.false_eq_true, if_false] at hcode' ⊢
        refine ⟨?_, hcode'⟩
        -- success: the database after the call
        have hbody : ∃ d2, addPacketBody l pkt s.db = .ok (d2, ()) := by
          rw [hres] at hcode'
          cases hb : addPacketBody l pkt s.db with
          | error c => rw [hb] at hcode'; cases hcode'
          | ok r => obtain ⟨d2, u'⟩ := r; exact ⟨d2, by cases u'; rfl⟩
        obtain ⟨d2, hb⟩ := hbody
        have hdb : (addPacket s l pkt).1.db = d2 := by
          have : (addPacket s l pkt).1 = (s.nest (addPacketBody l pkt)).1 := by
            unfold addPacket; simp only [hempty, Bool.false_eq_true, if_false]
          rw [this]; exact nest_db_ok s _ d2 () hb
        rw [hdb]
        obtain ⟨l3, i3, hpt, f3, b3⟩ := addPacket_pointwise s.db d2 l pkt hg.inv (hg.rows.rb.at _ _) hne hb
        have hcont : d2.containers = s.db.containers ∧ d2.nextId = s.db.nextId := by
          unfold addPacketBody at hb
          split at hb
          · split at hb <;> cases hb
          · rename_i d1 hbump
            split at hb
            · cases hb
            · rename_i row hrow
              split at hb
              · cases hb
              · rename_i d2' hadd
                simp only [Except.ok.injEq, Prod.mk.injEq, and_true] at hb
                subst hb
                obtain ⟨_, _, _, _, _, c1'⟩ := bumpRowNum_spec s.db d1 _ _ hbump
                obtain ⟨_, _, _, _, _, c2', _⟩ := addValues_spec pkt d1 d2' l.cid l.loopNum row hadd
                have n1 : d1.nextId = s.db.nextId := by
                  unfold Db.bumpRowNum at hbump; split at hbump; · cases hbump
                  cases hbump; rfl
                have n2 : ∀ (p : List (Str × V)) (a b : Db) (c n r : Nat), addValues a c n r p = .ok b → b.nextId = a.nextId := by
                  intro p
                  induction p with
                  | nil => intro a b c n r h; simp [addValues] at h; subst h; rfl
                  | cons e es ih =>
                    intro a b c n r h
                    unfold addValues at h
                    split at h; · cases h
                    split at h; · cases h
                    rename_i a1 hins
                    have := ih a1 b c n r h
                    unfold Db.insertValue at hins
                    split at hins; · cases hins
                    split at hins; · cases hins
                    split at hins; · cases hins
                    cases hins; exact this
                exact ⟨by show (d2'.fillPacket _ _ _).containers = _; unfold Db.fillPacket; simp only []; split <;> simp [c2', c1'],
                       by show (d2'.fillPacket _ _ _).nextId = _; unfold Db.fillPacket; simp only []; split <;> simp [n2 pkt d1 d2' _ _ _ hadd, n1]⟩
        have hloops := absS_loops_map s.db d2 _ (fun y => if y.cid == l.cid && y.num == l.loopNum then { y with packets := y.packets ++ [y.packetOf pkt] } else y) l3
          (by
            intro y hy
            have hp := hpt y hy
            have hitems : ∀ c n, d2.loopItems c n = s.db.loopItems c n := by intro c n; simp only [Db.loopItems, i3]
            by_cases hm : (y.cid == l.cid && y.loopNum == l.loopNum) = true
            · simp only [hm, if_true] at hp ⊢
              have hm' : ((absALoop s.db y).cid == l.cid && (absALoop s.db y).num == l.loopNum) = true := hm
              simp only [hm', if_true]
              unfold absALoop
              simp only [hitems, hp]
              have hmk : y.cid = l.cid ∧ y.loopNum = l.loopNum := by simpa using hm
              have := packetFor_eq_packetOf s.db y pkt
              rw [hmk.1, hmk.2] at this
              rw [this]; rfl
            · simp only [hm, Bool.false_eq_true, if_false] at hp ⊢
              have hm' : ((absALoop s.db y).cid == l.cid && (absALoop s.db y).num == l.loopNum) = false := by
                show (y.cid == l.cid && y.loopNum == l.loopNum) = false
                simpa using hm
              simp only [hm', Bool.false_eq_true, if_false]
              unfold absALoop
              simp only [hitems, hp])
        show ({ containers := d2.containers, blocks := d2.blocks, frames := d2.frames, nextId := d2.nextId, loops := (absS d2).loops } : AState) = _
        rw [hloops, hcont.1, hcont.2, f3, b3]
        rfl

theorem catReserved_valid (l : LH) (x : LoopRow) (cat : Option Str) (hc : x.category = l.category) :
    catReserved l cat = (x.category == some [] || cat == some []) := by
  unfold catReserved
  rw [hc]
  cases cat with
  | none => simp
  | some c =>
    cases c with
    | nil => simp
    | cons a b => simp [Bool.or_comm]

/-- cif_loop_set_category commutes with `absS`, returns the documented model's code and leaves the handle as the model does -/
theorem setCategory_spec (s : Store) (l : LH) (cat : Option Str) (hg : Good s.db) (hv : l.validB s.db = true) :
    absS (setCategory s l cat).1.db = (specSetCategory (absS s.db) l cat).1 ∧
    (setCategory s l cat).2.1 = (specSetCategory (absS s.db) l cat).2.1 ∧
    (setCategory s l cat).2.2 = (specSetCategory (absS s.db) l cat).2.2 := by
  obtain ⟨x, hx, k1, k2, k3⟩ := LH.valid_of_validB hv
  have hfind : (absS s.db).findLoop l.cid l.loopNum = some (absALoop s.db x) := by rw [← k1, ← k2]; exact findLoop_valid s.db hg.inv x hx
  have hfindd := find_loop_of_mem s.db hg.inv x hx
  rw [k1, k2] at hfindd
  unfold specSetCategory setCategory
  simp only [hfind]
  have hcat : (absALoop s.db x).category = x.category := rfl
  rw [hcat, catReserved_valid l x cat k3]
  by_cases hres : (x.category == some [] || cat == some []) = true
  · simp only [hres, if_true]; refine ⟨?_, ?_, ?_⟩ <;> first | rfl | trivial
  · simp only [hres, Bool.false_eq_true, if_false]
    have hne : (cat == some []) = false := by
      cases h1 : (cat == some []) with
      | false => rfl
      | true => simp [h1] at hres
    have hdb : s.db.setCategory l.cid l.loopNum cat =
        .ok ({ s.db with loops := s.db.loops.map (fun y => if y.cid == l.cid && y.loopNum == l.loopNum then { y with category := cat } else y) }, 1) := by
      unfold Db.setCategory
      rw [hfindd]
      simp [hne]
    rw [hdb]
    simp only [show ((1 : Nat) == 0) = false from rfl, show ((1 : Nat) == 1) = true from rfl, Bool.false_eq_true, if_false, if_true]
    obtain ⟨l1, htar, hoth, i1, _, f1, b1⟩ := setCategory_refines s.db _ l.cid l.loopNum cat hdb
    refine ⟨?_, by first | rfl | trivial, by first | rfl | trivial⟩
    have hloops := absS_loops_map s.db { s.db with loops := s.db.loops.map (fun y => if y.cid == l.cid && y.loopNum == l.loopNum then { y with category := cat } else y) }
      _ (fun y => if y.cid == l.cid && y.num == l.loopNum then { y with category := cat } else y) l1
      (by
        intro y _
        by_cases hm : (y.cid == l.cid && y.loopNum == l.loopNum) = true
        · have hm' : ((absALoop s.db y).cid == l.cid && (absALoop s.db y).num == l.loopNum) = true := hm
          simp only [hm, hm', if_true]
          have hmk : y.cid = l.cid ∧ y.loopNum = l.loopNum := by simpa using hm
          have := htar y hmk.1 hmk.2
          unfold absALoop
          simp only [this]
          rfl
        · have hm' : ((absALoop s.db y).cid == l.cid && (absALoop s.db y).num == l.loopNum) = false := by
            show (y.cid == l.cid && y.loopNum == l.loopNum) = false
            simpa using hm
          simp only [hm, hm', Bool.false_eq_true, if_false]
          unfold absALoop
          simp only [hoth y]
          rfl)
    show ({ containers := s.db.containers, blocks := s.db.blocks, frames := s.db.frames, nextId := s.db.nextId,
            loops := (absS _).loops } : AState) = _
    rw [hloops]
    rfl

theorem deleteLoops_loopItems (d : Db) (p : LoopRow → Bool) (hkey : ∀ a b : LoopRow, a.cid = b.cid → a.loopNum = b.loopNum → p a = p b)
    (y : LoopRow) (hp : p y = false) : (d.deleteLoops p).loopItems y.cid y.loopNum = d.loopItems y.cid y.loopNum := by
  let q : ItemRow → Bool := fun i => (d.loops.filter p).any (fun l => l.cid == i.cid && l.loopNum == i.loopNum)
  show (d.items.filter (fun i => !q i)).filter (fun i => i.cid == y.cid && i.loopNum == y.loopNum) = d.items.filter _
  rw [List.filter_filter]
  apply List.filter_congr
  intro i _
  by_cases hk : (i.cid == y.cid && i.loopNum == y.loopNum) = true
  · have hqi : q i = false := by
      cases hq : q i with
      | false => rfl
      | true =>
        obtain ⟨l, hl1, hlk⟩ := List.any_eq_true.mp hq
        simp at hlk hk
        have := hkey l y (by rw [hlk.1, hk.1]) (by rw [hlk.2, hk.2])
        rw [(List.mem_filter.mp hl1).2, hp] at this; cases this
    simp [hk, hqi]
  · simp [hk]

/-- cif_loop_destroy commutes with `absS` and returns CIF_OK -/
theorem destroyLoop_spec (s : Store) (l : LH) (hg : Good s.db) (hv : l.validB s.db = true) :
    absS (destroyLoop s l).1.db = (specDestroyLoop (absS s.db) l).1 ∧ (destroyLoop s l).2 = (specDestroyLoop (absS s.db) l).2 := by
  obtain ⟨x, hx, k1, k2, _⟩ := LH.valid_of_validB hv
  have hfind : (absS s.db).findLoop l.cid l.loopNum = some (absALoop s.db x) := by rw [← k1, ← k2]; exact findLoop_valid s.db hg.inv x hx
  have hn : (s.db.loops.filter (fun y => y.cid == l.cid && y.loopNum == l.loopNum)).length = 1 := by
    have h1 := hg.inv.toLoopPK l.cid l.loopNum
    have h2 : x ∈ s.db.loops.filter (fun y => y.cid == l.cid && y.loopNum == l.loopNum) := List.mem_filter.mpr ⟨hx, by simp [k1, k2]⟩
    have h3 : 0 < (s.db.loops.filter (fun y => y.cid == l.cid && y.loopNum == l.loopNum)).length := List.length_pos_of_mem h2
    omega
  unfold specDestroyLoop destroyLoop
  simp only [hfind]
  have hd : s.db.destroyLoop l.cid l.loopNum = (s.db.deleteLoops (fun y => y.cid == l.cid && y.loopNum == l.loopNum), 1) := by
    unfold Db.destroyLoop; rw [hn]
  rw [hd]
  simp only []
  refine ⟨?_, rfl⟩
  have hr := destroyLoop_refines s.db x hg.inv
  simp only [] at hr
  rw [k1, k2] at hr
  obtain ⟨l1, hoth, f1, b1⟩ := hr
  have hdl : (s.db.destroyLoop l.cid l.loopNum).1 = s.db.deleteLoops (fun y => y.cid == l.cid && y.loopNum == l.loopNum) := rfl
  rw [hdl] at l1 hoth f1 b1
  show ({ containers := (s.db.deleteLoops _).containers, blocks := (s.db.deleteLoops _).blocks, frames := (s.db.deleteLoops _).frames,
          nextId := (s.db.deleteLoops _).nextId, loops := (s.db.deleteLoops _).loops.map (absALoop (s.db.deleteLoops _)) } : AState) = _
  rw [f1, b1, l1]
  have hc : (s.db.deleteLoops (fun y => y.cid == l.cid && y.loopNum == l.loopNum)).containers = s.db.containers := rfl
  have hni : (s.db.deleteLoops (fun y => y.cid == l.cid && y.loopNum == l.loopNum)).nextId = s.db.nextId := rfl
  rw [hc, hni]
  have hl : (s.db.loops.filter (fun y => !(y.cid == l.cid && y.loopNum == l.loopNum))).map (absALoop (s.db.deleteLoops (fun y => y.cid == l.cid && y.loopNum == l.loopNum))) =
      (s.db.loops.map (absALoop s.db)).filter (fun y => !(y.cid == l.cid && y.num == l.loopNum)) := by
    rw [List.filter_map]
    have : ((fun y : ALoop => !(y.cid == l.cid && y.num == l.loopNum)) ∘ absALoop s.db) = (fun y : LoopRow => !(y.cid == l.cid && y.loopNum == l.loopNum)) := by
      funext y; rfl
    rw [this]
    apply List.map_congr_left
    intro y hy
    obtain ⟨hym, hyk⟩ := List.mem_filter.mp hy
    have hyk' : (y.cid == l.cid && y.loopNum == l.loopNum) = false := by
      cases hb : (y.cid == l.cid && y.loopNum == l.loopNum) with
      | false => rfl
      | true => rw [hb] at hyk; cases hyk
    unfold absALoop
    rw [deleteLoops_loopItems s.db _ (fun a b hc hl => by simp only [hc, hl]) y hyk']
    rw [hoth y hym (fun ⟨e1, e2⟩ => by simp [e1, e2] at hyk')]
  rw [hl]
  rfl

theorem getBlock_spec (s : Store) (n : Name) : (getBlock s n).2 = specGetBlockH (absS s.db) n := by
  unfold getBlock specGetBlockH
  have hb : (absS s.db).blocks = s.db.blocks := rfl
  rw [hb]
  cases s.db.blocks.find? (fun b : BlockRow => b.name == n.key) <;> rfl

theorem getFrame_spec (s : Store) (h : CH) (n : Option Name) : (getFrame s h n).2 = specGetFrameH (absS s.db) h n := by
  unfold getFrame specGetFrameH
  have hb : (absS s.db).frames = s.db.frames := rfl
  rw [hb]
  cases n with
  | none => rfl
  | some nm =>
    simp only []
    cases hv : nm.valid with
    | false => rfl
    | true =>
      simp only [Bool.not_true, Bool.false_eq_true, if_false]
      cases s.db.frames.find? (fun f : FrameRow => f.parent == h.id && f.name == nm.key) <;> rfl

/-- cif_container_destroy of an existing container commutes with `absS` and returns CIF_OK -/
theorem destroyContainer_spec (s : Store) (h : CH) (hg : Good s.db) (hv : h.validB s.db = true) :
    absS (destroyContainer s h).1.db = (specDestroyContainer (absS s.db) h).1 ∧
    (destroyContainer s h).2 = (specDestroyContainer (absS s.db) h).2 := by
  have hn : ((s.db.containers.filter (fun c => c.id == h.id)).length == 0) = false := by
    obtain ⟨r, hr, hre⟩ := (hasContainer_iff _ _).mp hv
    have : r ∈ s.db.containers.filter (fun c => c.id == h.id) := List.mem_filter.mpr ⟨hr, by simp [hre]⟩
    cases hl : s.db.containers.filter (fun c => c.id == h.id) with
    | nil => rw [hl] at this; cases this
    | cons a b => rfl
  let p : LoopRow → Bool := fun l => l.cid == h.id
  have hr := deleteLoops_refines s.db p hg.inv (fun a b hc _ => by simp only [p, hc])
  have hd' : s.db.deleteContainer h.id =
      ({ s.db.deleteLoops p with containers := s.db.containers.filter (fun c => !(c.id == h.id)),
                                 blocks := s.db.blocks.filter (fun b => !(b.cid == h.id)),
                                 frames := s.db.frames.filter (fun f => !(f.cid == h.id) && !(f.parent == h.id)) },
       (s.db.containers.filter (fun c => c.id == h.id)).length) := by
    unfold Db.deleteContainer
    simp only [hn, Bool.false_eq_true, if_false]
    rfl
  unfold destroyContainer specDestroyContainer
  rw [hd']
  have hn' : (((absS s.db).containers.filter (fun c => c.id == h.id)).length == 0) = false := hn
  simp only [hn, hn', Bool.false_eq_true, if_false]
  refine ⟨?_, by first | rfl | trivial⟩
  have e : ∀ (c1 : List ContainerRow) (b1 : List BlockRow) (f1 : List FrameRow) (y : LoopRow), absALoop { s.db.deleteLoops p with containers := c1, blocks := b1, frames := f1 } y = absALoop (s.db.deleteLoops p) y := fun _ _ _ _ => rfl
  have hl : ((s.db.deleteLoops p).loops).map (absALoop (s.db.deleteLoops p)) = (s.db.loops.map (absALoop s.db)).filter (fun y => !(y.cid == h.id)) := by
    rw [hr.1, List.filter_map]
    have : ((fun y : ALoop => !(y.cid == h.id)) ∘ absALoop s.db) = (fun y : LoopRow => !p y) := by funext y; rfl
    rw [this]
    apply List.map_congr_left
    intro y hy
    obtain ⟨hym, hyk⟩ := List.mem_filter.mp hy
    have hyk' : p y = false := by
      cases hb : p y with
      | false => rfl
      | true => rw [hb] at hyk; cases hyk
    unfold absALoop
    rw [deleteLoops_loopItems s.db p (fun a b hc _ => by simp only [p, hc]) y hyk', hr.2.1 y hym hyk']
  show ({ containers := s.db.containers.filter (fun c => !(c.id == h.id)), blocks := s.db.blocks.filter (fun b => !(b.cid == h.id)), frames := s.db.frames.filter (fun f => !(f.cid == h.id) && !(f.parent == h.id)), nextId := s.db.nextId, loops := ((s.db.deleteLoops p).loops).map (absALoop (s.db.deleteLoops p)) } : AState) = _
  rw [hl]
  rfl

theorem nestRO_snd {α} (s : Store) (body : Db → Except Code α) : (s.nestRO body).2 = body s.db := by
  have hb : s.beginNest.1.db = s.db := by unfold Store.beginNest; split <;> rfl
  unfold Store.nestRO
  simp only [hb]

theorem nestRO_db {α} (s : Store) (body : Db → Except Code α) : (s.nestRO body).1.db = s.db := (nestRO_same s body).1

/-- cif_loop_get_names through a valid handle -/
theorem getNames_spec (s : Store) (l : LH) (hg : Good s.db) (hv : l.validB s.db = true) :
    absS (getNames s l).1.db = absS s.db ∧ (getNames s l).2 = specGetNames (absS s.db) l := by
  obtain ⟨x, hx, k1, k2, _⟩ := LH.valid_of_validB hv
  have hfind : (absS s.db).findLoop l.cid l.loopNum = some (absALoop s.db x) := by rw [← k1, ← k2]; exact findLoop_valid s.db hg.inv x hx
  refine ⟨by unfold getNames; rw [nestRO_db], ?_⟩
  unfold getNames specGetNames
  rw [nestRO_snd, hfind]
  show _ = (match (s.db.loopItems x.cid x.loopNum).map (fun i => (i.name, i.nameOrig)) with | [] => _ | is => _)
  rw [k1, k2]
  cases s.db.loopItems l.cid l.loopNum <;> rfl

theorem absS_filter_loops (d : Db) (p : LoopRow → Bool) (q : ALoop → Bool) (h : ∀ x ∈ d.loops, q (absALoop d x) = p x) :
    (absS d).loops.filter q = (d.loops.filter p).map (absALoop d) := by
  show (d.loops.map (absALoop d)).filter q = _
  rw [List.filter_map]
  congr 1
  apply List.filter_congr
  intro x hx
  exact h x hx

/-- cif_container_get_category_loop -/
theorem getCategoryLoop_spec (s : Store) (h : CH) (cat : Option Str) :
    (getCategoryLoop s h cat).2 = specGetCategoryLoop (absS s.db) h cat := by
  unfold getCategoryLoop specGetCategoryLoop
  cases cat with
  | none => rfl
  | some c =>
    simp only []
    rw [absS_filter_loops s.db (fun l => l.cid == h.id && l.category == some c) _ (fun _ _ => rfl)]
    cases hf : s.db.loops.filter (fun l => l.cid == h.id && l.category == some c) with
    | nil => rfl
    | cons a as =>
      cases as with
      | nil => rfl
      | cons b bs => rfl

/-- cif_container_get_item_loop -/
theorem getItemLoop_spec (s : Store) (h : CH) (n : Option Name) : (getItemLoop s h n).2 = specGetItemLoop (absS s.db) h n := by
  unfold getItemLoop specGetItemLoop
  cases n with
  | none => rfl
  | some nm =>
    simp only []
    cases hv : nm.valid with
    | false => rfl
    | true =>
      simp only [Bool.not_true, Bool.false_eq_true, if_false]
      unfold getItemLoopInternal itemLoopRows
      rw [absS_filter_loops s.db (fun l => l.cid == h.id && s.db.items.any (fun i => i.cid == h.id && i.name == nm.key && i.loopNum == l.loopNum)) _
        (by
          intro x _
          rw [hasItem_absALoop]
          show (x.cid == h.id && (s.db.loopItems x.cid x.loopNum).any (fun i => i.name == nm.key)) = _
          cases hc : (x.cid == h.id) with
          | false => rfl
          | true =>
            have hxc : x.cid = h.id := by simpa using hc
            simp only [Bool.true_and, Db.loopItems, List.any_filter, hxc]
            congr 1
            funext i
            cases (i.cid == h.id) <;> cases (i.name == nm.key) <;> cases (i.loopNum == x.loopNum) <;> rfl)]
      cases hf : s.db.loops.filter (fun l => l.cid == h.id && s.db.items.any (fun i => i.cid == h.id && i.name == nm.key && i.loopNum == l.loopNum)) with
      | nil => rfl
      | cons a as =>
        cases as with
        | nil => rfl
        | cons b bs => rfl

/-- cif_container_prune commutes with `absS` -/
theorem prune_spec (s : Store) (h : CH) (hg : Good s.db) :
    absS (prune s h).1.db = (specPrune (absS s.db) h).1 ∧ (prune s h).2 = (specPrune (absS s.db) h).2 := by
  refine ⟨?_, rfl⟩
  let p : LoopRow → Bool := fun l => l.cid == h.id && !(s.db.items.any (fun i => i.cid == h.id && i.loopNum == l.loopNum
      && s.db.values.any (fun v => v.cid == h.id && v.name == i.name)))
  have hkey : ∀ a b : LoopRow, a.cid = b.cid → a.loopNum = b.loopNum → p a = p b := fun a b hc hl => by simp only [p, hc, hl]
  have hr := deleteLoops_refines s.db p hg.inv hkey
  have hsel : ∀ l : LoopRow, p l = (l.cid == h.id && (absLoop s.db l).packets.isEmpty) := by
    intro l
    cases hc : (l.cid == h.id) with
    | false => simp [p, hc]
    | true =>
      have hl : l.cid = h.id := by simpa using hc
      have := prune_selects s.db h.id l hl
      cases hp : p l with
      | true =>
        have h1 : (absLoop s.db l).packets = [] := this.mp (show p l = true from hp)
        simp [h1]
      | false =>
        cases he : (absLoop s.db l).packets with
        | nil =>
          have h2 : p l = true := this.mpr he
          rw [hp] at h2; cases h2
        | cons a as => simp
  unfold prune specPrune
  show ({ containers := s.db.containers, blocks := s.db.blocks, frames := s.db.frames, nextId := s.db.nextId,
          loops := (s.db.deleteLoops p).loops.map (absALoop (s.db.deleteLoops p)) } : AState) = _
  have hl : (s.db.deleteLoops p).loops.map (absALoop (s.db.deleteLoops p)) =
      (s.db.loops.map (absALoop s.db)).filter (fun y => !(y.cid == h.id && y.packets.isEmpty)) := by
    rw [hr.1, List.filter_map]
    have : ((fun y : ALoop => !(y.cid == h.id && y.packets.isEmpty)) ∘ absALoop s.db) = (fun y : LoopRow => !p y) := by
      funext y; simp only [Function.comp, hsel y]; rfl
    rw [this]
    apply List.map_congr_left
    intro y hy
    obtain ⟨hym, hyk⟩ := List.mem_filter.mp hy
    have hyk' : p y = false := by
      cases hb : p y with
      | false => rfl
      | true => rw [hb] at hyk; cases hyk
    unfold absALoop
    rw [deleteLoops_loopItems s.db p hkey y hyk', hr.2.1 y hym hyk']
  rw [hl]
  rfl

-- ---- worlds ------------------------------------------------------------------------------------------------------------------------------

open World in
theorem liveC_absW (w : World) (c : Nat) : (absW w).liveC c = (w.liveC c).map (fun s => absS s.db) := by
  unfold AWorld.liveC liveC absW
  simp only [List.getD, List.getElem?_map]
  cases w.cifs[c]? with
  | none => rfl
  | some x => cases x <;> rfl

open World in
theorem liveH_absW (w : World) (h : Nat) : (absW w).liveH h = (w.liveH h).map (fun p => (p.1, absS p.2.db)) := by
  unfold AWorld.liveH liveH
  show (match w.chs.getD h none with | none => none | some e => ((absW w).liveC e.cif).map (fun s => (e, s))) = _
  cases w.chs.getD h none with
  | none => rfl
  | some e =>
    simp only [liveC_absW]
    cases w.liveC e.cif <;> rfl

open World in
theorem liveL_absW (w : World) (l : Nat) : (absW w).liveL l = (w.liveL l).map (fun p => (p.1, absS p.2.db)) := by
  unfold AWorld.liveL liveL
  show (match w.lhs.getD l none with
        | none => none
        | some e => match (absW w).liveH e.ch with
          | none => none
          | some _ => ((absW w).liveC e.cif).map (fun s => (e, s))) = _
  cases w.lhs.getD l none with
  | none => rfl
  | some e =>
    simp only [liveH_absW, liveC_absW]
    cases w.liveH e.ch with
    | none => rfl
    | some p => cases w.liveC e.cif <;> rfl

open World in
theorem absW_setCif (w : World) (c : Nat) (s1 : Store) : (absW (w.setCif c s1)).cifs = ((absW w).setCif c (absS s1.db)).cifs := by
  unfold absW setCif AWorld.setCif
  simp only [List.map_set]
  rfl

open World in
/-- `C04_refines` for the ops `specStep` covers: in a world satisfying WOk, an op that keeps to the contract does to the documented
    model (`absW`) exactly what `specStep` says, and returns the same result -/
theorem specStep_refines (w : World) (op : Op) (h : WOk w) (hin : inContract w op = true) (hc : op.covered = true) :
    specStep (absW w) op = some (absW (step w op).1, (step w op).2) := by
  cases op with
  | addPkt l p =>
    have hin' : (okL w l && keysDistinct p) = true := hin
    simp only [Bool.and_eq_true] at hin'
    simp only [specStep, step, liveL_absW]
    cases hl : w.liveL l with
    | none => rfl
    | some pr =>
      obtain ⟨e, s⟩ := pr
      have hv : e.h.validB s.db = true := by
        have := hin'.1; unfold okL at this; rw [hl] at this
        simp only [Bool.and_eq_true] at this; exact this.2
      have hg := (h.good.live (liveL_liveC hl)).db
      obtain ⟨h1, h2⟩ := addPacket_spec s e.h p hg hv hin'.2
      simp only [Option.map_some]
      rw [← h1, ← h2]
      simp only [Option.some.injEq, Prod.mk.injEq, and_true]
      show ({ cifs := _, chs := _, lhs := _, its := _ } : AWorld) = { cifs := _, chs := _, lhs := _, its := _ }
      congr 1
      exact (absW_setCif w e.cif _).symm
  | setCat l cat =>
    simp only [specStep, step, liveL_absW]
    cases hl : w.liveL l with
    | none => rfl
    | some pr =>
      obtain ⟨e, s⟩ := pr
      have hv : e.h.validB s.db = true := by
        have : okL w l = true := hin
        unfold okL at this; rw [hl] at this
        simp only [Bool.and_eq_true] at this; exact this.2
      have hg := (h.good.live (liveL_liveC hl)).db
      obtain ⟨h1, h2, h3⟩ := setCategory_spec s e.h cat hg hv
      simp only [Option.map_some]
      rw [← h1, ← h2, ← h3]
      simp only [Option.some.injEq, Prod.mk.injEq, and_true]
      show ({ cifs := _, chs := _, lhs := _, its := _ } : AWorld) = { cifs := _, chs := _, lhs := _, its := _ }
      congr 1
      exact (absW_setCif w e.cif _).symm
  | ldestroy l =>
    simp only [specStep, step, liveL_absW]
    cases hl : w.liveL l with
    | none => rfl
    | some pr =>
      obtain ⟨e, s⟩ := pr
      have hv : e.h.validB s.db = true := by
        have : okL w l = true := hin
        unfold okL at this; rw [hl] at this
        simp only [Bool.and_eq_true] at this; exact this.2
      have hg := (h.good.live (liveL_liveC hl)).db
      obtain ⟨h1, h2⟩ := destroyLoop_spec s e.h hg hv
      simp only [Option.map_some]
      have hit : (absW w).itOnLh l = w.itOnLh l := rfl
      rw [hit]
      cases w.itOnLh l with
      | true => rfl
      | false =>
        simp only [Bool.false_eq_true, if_false]
        rw [← h1, ← h2]
        simp only [Option.some.injEq, Prod.mk.injEq, and_true]
        show ({ cifs := _, chs := _, lhs := _, its := _ } : AWorld) = { cifs := _, chs := _, lhs := _, its := _ }
        congr 1
        exact (absW_setCif w e.cif _).symm
  | cifNew => simp only [specStep, step, absW, List.map_append]; rfl
  | cifDel c =>
    simp only [specStep, step, liveC_absW]
    cases hl : w.liveC c with
    | none => rfl
    | some s =>
      simp only [Option.map_some, Option.some.injEq, Prod.mk.injEq, and_true]
      show ({ cifs := _, chs := _, lhs := _, its := _ } : AWorld) = { cifs := _, chs := _, lhs := _, its := _ }
      congr 1
      show (w.cifs.map _).set c none = (w.cifs.set c none).map _
      rw [List.map_set]; rfl
  | getBlock c n =>
    simp only [specStep, step, liveC_absW]
    cases hl : w.liveC c with
    | none => rfl
    | some s =>
      simp only [Option.map_some]
      have h1 := getBlock_fst s n
      have h2 := getBlock_spec s n
      rw [← h2]
      simp only [Option.some.injEq, Prod.mk.injEq, and_true]
      show ({ cifs := _, chs := _, lhs := _, its := _ } : AWorld) = { cifs := _, chs := _, lhs := _, its := _ }
      congr 1
      rw [h1]; exact (absW_setCif w c _).symm
  | blocks c =>
    simp only [specStep, step, liveC_absW]
    cases hl : w.liveC c with
    | none => rfl
    | some s =>
      simp only [Option.map_some, Option.some.injEq, Prod.mk.injEq]
      refine ⟨?_, rfl⟩
      show ({ cifs := _, chs := _, lhs := _, its := _ } : AWorld) = { cifs := _, chs := _, lhs := _, its := _ }
      congr 1
      exact (absW_setCif w c _).symm
  | getFrame hh n =>
    simp only [specStep, step, liveH_absW]
    cases hl : w.liveH hh with
    | none => rfl
    | some pr =>
      obtain ⟨e, s⟩ := pr
      simp only [Option.map_some]
      have h1 := getFrame_fst s e.h n
      have h2 := getFrame_spec s e.h n
      rw [← h2]
      simp only [Option.some.injEq, Prod.mk.injEq, and_true]
      show ({ cifs := _, chs := _, lhs := _, its := _ } : AWorld) = { cifs := _, chs := _, lhs := _, its := _ }
      congr 1
      rw [h1]; exact (absW_setCif w e.cif _).symm
  | frames hh =>
    simp only [specStep, step, liveH_absW]
    cases hl : w.liveH hh with
    | none => rfl
    | some pr =>
      obtain ⟨e, s⟩ := pr
      simp only [Option.map_some, Option.some.injEq, Prod.mk.injEq]
      refine ⟨?_, rfl⟩
      show ({ cifs := _, chs := _, lhs := _, its := _ } : AWorld) = { cifs := _, chs := _, lhs := _, its := _ }
      congr 1
      exact (absW_setCif w e.cif _).symm
  | code hh =>
    simp only [specStep, step, liveH_absW]
    cases hl : w.liveH hh with
    | none => rfl
    | some pr => rfl
  | isBlock hh =>
    simp only [specStep, step, liveH_absW]
    cases hl : w.liveH hh with
    | none => rfl
    | some pr => rfl
  | getCat l =>
    simp only [specStep, step, liveL_absW]
    cases hl : w.liveL l with
    | none => rfl
    | some pr => rfl
  | cdestroy hh =>
    simp only [specStep, step, liveH_absW]
    cases hl : w.liveH hh with
    | none => rfl
    | some pr =>
      obtain ⟨e, s⟩ := pr
      have hv : e.h.validB s.db = true := by
        have : okH w hh = true := hin
        unfold okH at this; rw [hl] at this
        simp only [Bool.and_eq_true] at this; exact this.2
      have hg := (h.good.live (liveH_liveC hl)).db
      obtain ⟨h1, h2⟩ := destroyContainer_spec s e.h hg hv
      simp only [Option.map_some]
      have hit : (absW w).itOnCh hh = w.itOnCh hh := rfl
      rw [hit]
      cases w.itOnCh hh with
      | true => rfl
      | false =>
        simp only [Bool.false_eq_true, if_false]
        rw [← h1, ← h2]
        simp only [Option.some.injEq, Prod.mk.injEq, and_true]
        show ({ cifs := _, chs := _, lhs := _, its := _ } : AWorld) = { cifs := _, chs := _, lhs := _, its := _ }
        congr 1
        exact (absW_setCif w e.cif _).symm
  | names l =>
    simp only [specStep, step, liveL_absW]
    cases hl : w.liveL l with
    | none => rfl
    | some pr =>
      obtain ⟨e, s⟩ := pr
      have hv : e.h.validB s.db = true := by
        have : okL w l = true := hin
        unfold okL at this; rw [hl] at this
        simp only [Bool.and_eq_true] at this; exact this.2
      have hg := (h.good.live (liveL_liveC hl)).db
      obtain ⟨h1, h2⟩ := getNames_spec s e.h hg hv
      simp only [Option.map_some]
      rw [← h2]
      simp only [Option.some.injEq, Prod.mk.injEq]
      refine ⟨?_, rfl⟩
      show ({ cifs := _, chs := _, lhs := _, its := _ } : AWorld) = { cifs := _, chs := _, lhs := _, its := _ }
      congr 1
      rw [← h1]; exact (absW_setCif w e.cif _).symm
  | catLoop hh cat =>
    simp only [specStep, step, liveH_absW]
    cases hl : w.liveH hh with
    | none => rfl
    | some pr =>
      obtain ⟨e, s⟩ := pr
      simp only [Option.map_some]
      have h1 := getCategoryLoop_fst s e.h cat
      have h2 := getCategoryLoop_spec s e.h cat
      rw [← h2]
      simp only [Option.some.injEq, Prod.mk.injEq, and_true]
      show ({ cifs := _, chs := _, lhs := _, its := _ } : AWorld) = { cifs := _, chs := _, lhs := _, its := _ }
      congr 1
      rw [h1]; exact (absW_setCif w e.cif _).symm
  | itemLoop hh n =>
    simp only [specStep, step, liveH_absW]
    cases hl : w.liveH hh with
    | none => rfl
    | some pr =>
      obtain ⟨e, s⟩ := pr
      simp only [Option.map_some]
      have h1 := getItemLoop_fst s e.h n
      have h2 := getItemLoop_spec s e.h n
      rw [← h2]
      simp only [Option.some.injEq, Prod.mk.injEq]
      refine ⟨?_, rfl⟩
      show ({ cifs := _, chs := _, lhs := _, its := _ } : AWorld) = { cifs := _, chs := _, lhs := _, its := _ }
      congr 1
      rw [h1]; exact (absW_setCif w e.cif _).symm
  | prune hh =>
    simp only [specStep, step, liveH_absW]
    cases hl : w.liveH hh with
    | none => rfl
    | some pr =>
      obtain ⟨e, s⟩ := pr
      have hg := (h.good.live (liveH_liveC hl)).db
      obtain ⟨h1, h2⟩ := prune_spec s e.h hg
      simp only [Option.map_some]
      rw [← h1, ← h2]
      simp only [Option.some.injEq, Prod.mk.injEq, and_true]
      show ({ cifs := _, chs := _, lhs := _, its := _ } : AWorld) = { cifs := _, chs := _, lhs := _, its := _ }
      congr 1
      exact (absW_setCif w e.cif _).symm
  | _ => cases hc

end CifModel.Store
