import CifModel.Lemmas.ParseCBLayout
import CifModel.Lemmas.ParseCBLayoutDup
import CifModel.Lemmas.ParseCBFuel
import CifModel.Lemmas.ParseCBGrammar
import CifModel.Lemmas.ParseCBDup
/-
  CifModel.Lemmas.ParseCBLayoutDoc — definitions used by the statements of Props/C15Layout.lean (the callbacks other than whitespace
  callbacks, the whitespace callbacks, token sequences with / without layout, the separators of Spec/Grammar's printer as layout) and
  the helper lemmas about them.
-/
set_option linter.unusedVariables false

namespace CifModel
open ParseCB Lemmas.ParseCB Spec.Doc

/-- the callbacks other than whitespace / comment callbacks (handler, data-name, keyword callbacks) -/
def C15_structOf (l : List Ev) : List Ev := l.filter (fun e => !isWsEv e)
/-- the whitespace / comment callbacks -/
def C15_wsOf (l : List Ev) : List Ev := l.filter isWsEv

/-- the token sequence without layout -/
def C15_strip (toks : List Tok) : List Tok := toks.map (fun t => { t with pre := [] })

/-- the token sequence with the `k`-th layout of `lay` in front of the `k`-th token -/
def C15_withLayout : List (List Seg) → List Tok → List Tok
  | _, [] => []
  | [], t :: r => { t with pre := [] } :: C15_withLayout [] r
  | pre :: lay, t :: r => { t with pre := pre } :: C15_withLayout lay r

theorem C15_strip_skel : ∀ toks : List Tok, SkelL toks (C15_strip toks)
  | [] => SkelL.nil
  | t :: r => SkelL.cons ⟨rfl, rfl, rfl⟩ (C15_strip_skel r)

theorem C15_withLayout_skel : ∀ (lay : List (List Seg)) (toks : List Tok), SkelL toks (C15_withLayout lay toks)
  | _, [] => SkelL.nil
  | [], t :: r => SkelL.cons ⟨rfl, rfl, rfl⟩ (C15_withLayout_skel [] r)
  | pre :: lay, t :: r => SkelL.cons ⟨rfl, rfl, rfl⟩ (C15_withLayout_skel lay r)

/-- all whitespace runs and comments of a layout, as callbacks -/
def C15_layoutEvents (lay : List (List Seg)) : List Ev := (lay.map (segEvents 0)).flatten

theorem zipWith_segEvents_nonpos : ∀ (marks : List Int) (lay : List (List Seg)), (∀ d ∈ marks, d ≤ 0) → marks.length = lay.length →
    (List.zipWith segEvents marks lay).flatten = C15_layoutEvents lay
  | [], [], _, _ => rfl
  | [], _ :: _, _, h => by simp at h
  | _ :: _, [], _, h => by simp at h
  | d :: ms, pre :: lay, hd, hl => by
    have ih := zipWith_segEvents_nonpos ms lay (fun x hx => hd x (List.mem_cons_of_mem _ hx)) (by simpa using hl)
    have h0 : d ≤ 0 := hd d (List.mem_cons_self ..)
    have hse : ∀ l : List Seg, segEvents d l = segEvents 0 l := by
      intro l
      induction l with
      | nil => rfl
      | cons s r ihr => cases s <;> simp [segEvents, h0, ihr]
    simp only [List.zipWith_cons_cons, List.flatten_cons, C15_layoutEvents, List.map_cons] at ih ⊢
    rw [ih, hse]

mutual
  theorem C15_elemEvents_nows (st : Bool) : ∀ (el : Elem) (e : Ev), e ∈ elemEvents st el → isWsEv e = false
    | .item n v, e, h => by
      simp only [elemEvents, List.mem_cons, List.not_mem_nil, or_false] at h
      rcases h with rfl | rfl <;> rfl
    | .loop ns pks, e, h => by
      simp only [elemEvents, List.mem_cons, List.mem_append, List.mem_map, List.mem_flatten, List.not_mem_nil, or_false] at h
      rcases h with rfl | ⟨n, _, rfl⟩ | rfl | ⟨l, ⟨pk, _, rfl⟩, h⟩ | rfl
      · rfl
      · rfl
      · rfl
      · simp only [List.mem_cons, List.mem_append, List.mem_map, List.not_mem_nil, or_false] at h
        rcases h with rfl | ⟨x, _, rfl⟩ | rfl <;> rfl
      · rfl
    | .frame c body, e, h => by
      simp only [elemEvents, List.mem_cons, List.mem_append, List.not_mem_nil, or_false] at h
      rcases h with rfl | h | rfl
      · rfl
      · exact C15_elemsEvents_nows st body e h
      · rfl
  theorem C15_elemsEvents_nows (st : Bool) : ∀ (es : List Elem) (e : Ev), e ∈ elemsEvents st es → isWsEv e = false
    | [], e, h => by simp [elemsEvents] at h
    | el :: es, e, h => by
      simp only [elemsEvents, List.mem_append] at h
      rcases h with h | h
      · exact C15_elemEvents_nows st el e h
      · exact C15_elemsEvents_nows st es e h
end
theorem C15_docEvents_nows (st : Bool) (d : Doc) : C15_structOf (docEvents st d) = docEvents st d := by
  unfold C15_structOf
  apply List.filter_eq_self.mpr
  intro e h
  simp only [docEvents, List.mem_cons, List.mem_append, List.mem_flatten, List.mem_map, List.not_mem_nil, or_false] at h
  rcases h with rfl | ⟨l, ⟨b, _, rfl⟩, h⟩ | rfl
  · rfl
  · simp only [List.mem_cons, List.mem_append, List.not_mem_nil, or_false] at h
    rcases h with rfl | h | rfl
    · rfl
    · rw [C15_elemsEvents_nows st b.body e h]; rfl
    · rfl
  · rfl

/-- the layout in front of every token of a printed document (`docPieces`: separators and tokens), the last entry in front of the end
    of input; separator `k` is `l k` — as `Spec.Grammar.renderPieces` numbers them -/
def C15_presOf (l : Spec.Grammar.Layout) : Nat → List Spec.Lexical.WsAtom → List Spec.Grammar.Piece → List (List Spec.Lexical.WsAtom)
  | _, pend, [] => [pend]
  | k, pend, .sep _ _ :: r => C15_presOf l (k + 1) (pend ++ l k) r
  | k, pend, .tok _ :: r => pend :: C15_presOf l k [] r

/-- a separator as the scanner reports it: blanks and line ends are whitespace, a comment is reported from `#` up to (not including)
    its line end, which is whitespace again (cif.h allows any splitting of a run into callbacks; only the concatenation matters) -/
def C15_segsOf : List Spec.Lexical.WsAtom → List Seg
  | [] => []
  | .blank c :: r => .ws [c] :: C15_segsOf r
  | .eol :: r => .ws [10] :: C15_segsOf r
  | .comment b :: r => .comment (35 :: b) :: .ws [10] :: C15_segsOf r

/-- the number of separators of a printed document -/
def C15_sepCount : List Spec.Grammar.Piece → Nat
  | [] => 0
  | .sep _ _ :: r => C15_sepCount r + 1
  | .tok _ :: r => C15_sepCount r

/-- the characters delivered to the whitespace callback, concatenated -/
def C15_wsText : List Ev → Str
  | [] => []
  | .ws t :: r => t ++ C15_wsText r
  | _ :: r => C15_wsText r

/-- the token sequence of a Grammar document printed with layout `l`: the tokens of the document (values decoded), each with the
    separator the printer puts in front of it -/
def C15_rendered (dia : Dialect) (nk : Str → Str) (g : Spec.Grammar.Doc) (l : Spec.Grammar.Layout) : List Tok :=
  C15_withLayout ((C15_presOf l 0 [] (Spec.Grammar.docPieces g)).map C15_segsOf) (tokensOf (ofDoc dia nk g))

theorem C15_wsText_append : ∀ (a b : List Ev), C15_wsText (a ++ b) = C15_wsText a ++ C15_wsText b
  | [], b => rfl
  | e :: a, b => by cases e <;> simp [C15_wsText, C15_wsText_append a b]

theorem C15_wsText_wsOf : ∀ (l : List Ev), C15_wsText (C15_wsOf l) = C15_wsText l
  | [] => rfl
  | e :: l => by
    have ih := C15_wsText_wsOf l
    unfold C15_wsOf at ih ⊢
    cases e <;> simp only [List.filter_cons, isWsEv, C15_wsText, Bool.false_eq_true, if_false, if_true, ih]

theorem C15_wsText_segs : ∀ (ws : List Spec.Lexical.WsAtom), C15_wsText (segEvents 0 (C15_segsOf ws)) = Spec.Lexical.renderWs ws
  | [] => rfl
  | .blank c :: r => by
    have := C15_wsText_segs r
    simp only [Spec.Lexical.renderWs, List.map_cons, List.flatten_cons] at this ⊢
    simp [C15_segsOf, segEvents, C15_wsText, this, Spec.Lexical.WsAtom.render]
  | .eol :: r => by
    have := C15_wsText_segs r
    simp only [Spec.Lexical.renderWs, List.map_cons, List.flatten_cons] at this ⊢
    simp [C15_segsOf, segEvents, C15_wsText, this, Spec.Lexical.WsAtom.render]
  | .comment b :: r => by
    have := C15_wsText_segs r
    simp only [Spec.Lexical.renderWs, List.map_cons, List.flatten_cons] at this ⊢
    simp [C15_segsOf, segEvents, C15_wsText, this, Spec.Lexical.WsAtom.render]

theorem C15_wsText_layout : ∀ (pres : List (List Spec.Lexical.WsAtom)),
    C15_wsText (C15_layoutEvents (pres.map C15_segsOf)) = (pres.map Spec.Lexical.renderWs).flatten
  | [] => rfl
  | a :: r => by
    have := C15_wsText_layout r
    simp only [C15_layoutEvents, List.map_cons, List.flatten_cons, C15_wsText_append] at this ⊢
    rw [this, C15_wsText_segs]

theorem C15_renderWs_append (a b : List Spec.Lexical.WsAtom) :
    Spec.Lexical.renderWs (a ++ b) = Spec.Lexical.renderWs a ++ Spec.Lexical.renderWs b := by
  simp [Spec.Lexical.renderWs]

/-- the layouts in front of the tokens, concatenated, are the separators `l k, l (k+1), …` of the printed document in order -/
theorem C15_presOf_flatten (l : Spec.Grammar.Layout) : ∀ (ps : List Spec.Grammar.Piece) (k : Nat) (pend : List Spec.Lexical.WsAtom),
    ((C15_presOf l k pend ps).map Spec.Lexical.renderWs).flatten
      = Spec.Lexical.renderWs pend ++ ((List.range' k (C15_sepCount ps)).map (fun i => Spec.Lexical.renderWs (l i))).flatten
  | [], k, pend => by simp [C15_presOf, C15_sepCount]
  | .sep _ _ :: r, k, pend => by
    rw [C15_presOf, C15_presOf_flatten l r (k + 1) (pend ++ l k), C15_sepCount, C15_renderWs_append]
    simp [List.range'_succ]
  | .tok _ :: r, k, pend => by
    rw [C15_presOf, List.map_cons, List.flatten_cons, C15_presOf_flatten l r k [], C15_sepCount]
    simp [Spec.Lexical.renderWs]


end CifModel
