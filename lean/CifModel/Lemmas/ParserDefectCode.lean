import CifModel.Lemmas.ParserDefectFrame

/-!
# C12, token level: block and frame codes (CIF_INVALID_FRAMECODE, CIF_DUP_FRAMECODE, CIF_INVALID_BLOCKCODE, CIF_DUP_BLOCKCODE)

"use the code anyway" resp. "reopen the specified block / frame" (table `@page error_recovery` of src/parser.c).
-/

set_option linter.unusedSimpArgs false
set_option linter.unusedVariables false

namespace CifModel.Model.Parser
open CifModel CifModel.Model CifModel.Model.Lexer CifModel.Spec.Grammar CifModel.Spec.Lexical
open CifModel.Gen.ErrCodes

/-! ### a container in the middle of its siblings -/

theorem find_mid {α} (p : α → Bool) (l r : List α) (a : α) (hl : ∀ x ∈ l, p x = false) (ha : p a = true) :
    (l ++ a :: r).find? p = some a := by
  induction l with
  | nil => simp [List.find?, ha]
  | cons x t ih =>
    have hx : p x = false := hl x (by simp)
    simp only [List.cons_append, List.find?, hx]
    exact ih (fun y hy => hl y (by simp [hy]))

theorem map_fresh {α} (p : α → Bool) (g : α → α) (l : List α) (hl : ∀ x ∈ l, p x = false) :
    l.map (fun c => if p c then g c else c) = l := by
  induction l with
  | nil => rfl
  | cons x t ih =>
    have hx : p x = false := hl x (by simp)
    simp only [List.map_cons, hx, Bool.false_eq_true, if_false]
    rw [ih (fun y hy => hl y (by simp [hy]))]

theorem map_mid {α} (p : α → Bool) (g : α → α) (l r : List α) (a : α) (hl : ∀ x ∈ l, p x = false) (hr : ∀ x ∈ r, p x = false)
    (ha : p a = true) : (l ++ a :: r).map (fun c => if p c then g c else c) = l ++ g a :: r := by
  rw [List.map_append, List.map_cons, map_fresh p g l hl, map_fresh p g r hr]
  simp [ha]

/-- a data block anywhere in the CIF, no other block has its (normalised) code; `k` = any spelling of that code -/
theorem View.blockMid (o : Opts) (ca cb : Cif) (code k : Str) (hk : o.norm code = o.norm k)
    (ha : ∀ c ∈ ca, codeIs o.norm (o.norm k) c = false) (hb : ∀ c ∈ cb, codeIs o.norm (o.norm k) c = false) :
    View o [o.norm k] (fun c => ca ++ c :: cb) code := by
  constructor
  · intro fs ls
    simp only [getIn]
    exact find_mid _ ca cb _ ha (by simp [codeIs, Container.code, hk])
  · intro f fs ls
    simp only [updIn]
    exact map_mid _ f ca cb _ ha hb (by simp [codeIs, Container.code, hk])

/-- a save frame anywhere among the frames of the last data block -/
theorem View.frameMid (o : Opts) (done : Cif) (bcode : Str) (fa fb : List Container) (bls : List Loop) (fcode k : Str)
    (hk : o.norm fcode = o.norm k)
    (hfresh : ∀ c ∈ done, codeIs o.norm (o.norm bcode) c = false)
    (ha : ∀ c ∈ fa, codeIs o.norm (o.norm k) c = false) (hb : ∀ c ∈ fb, codeIs o.norm (o.norm k) c = false) :
    View o [o.norm bcode, o.norm k] (fun c => done ++ [Container.mk bcode (fa ++ c :: fb) bls]) fcode := by
  constructor
  · intro fs ls
    simp only [getIn]
    rw [find_append_fresh _ done _ hfresh (by simp [codeIs, Container.code])]
    simp only [Container.frames]
    exact find_mid _ fa fb _ ha (by simp [codeIs, Container.code, hk])
  · intro f fs ls
    simp only [updIn]
    rw [map_append_fresh (codeIs o.norm (o.norm bcode))
      (fun c => Container.mk c.code (List.map (fun c => if codeIs o.norm (o.norm k) c = true then f c else c) c.frames) c.loops)
      done _ hfresh (by simp [codeIs, Container.code])]
    simp only [Container.code, Container.frames, Container.loops]
    rw [map_mid _ f fa fb _ ha hb (by simp [codeIs, Container.code, hk])]

/-! ### the creation switch -/

theorem createIn_frame_invalid (o : Opts) (done : Cif) (bcode : Str) (hfresh : ∀ c ∈ done, codeIs o.norm (o.norm bcode) c = false)
    (fc : Str) (fs : List Container) (ls : List Loop) (line col : Nat) (w : W)
    (hcif : w.cif = done ++ [.mk bcode fs ls]) (hinv : isValidName false fc = false)
    (hnew : ∀ c ∈ fs, codeIs o.norm (o.norm fc) c = false) :
    createIn o false [o.norm bcode] fc line col acceptAll w
      = .ok [o.norm bcode, o.norm fc]
          { log := ⟨CIF_INVALID_FRAMECODE, line, col⟩ :: w.log, cif := done ++ [.mk bcode (fs ++ [.mk fc [] []]) ls] } := by
  have hv := View.block o done bcode hfresh
  have hany : fs.any (codeIs o.norm (o.norm fc)) = false := by
    rw [List.any_eq_false]; intro c hc; simp [hnew c hc]
  unfold createIn
  simp only [bind_eq, pure_eq, P.bind, P.pure, getCif, setCif, hcif, hv.get, hv.upd, Bool.false_eq_true, if_false, hinv,
    Bool.not_false, if_true, report_accept,
    Option.map_some, Option.getD_some, Container.frames, Container.code, Container.loops, hany,
    List.singleton_append, List.cons_append, List.nil_append]

theorem createIn_frame_dup (o : Opts) (done : Cif) (bcode : Str) (hfresh : ∀ c ∈ done, codeIs o.norm (o.norm bcode) c = false)
    (fc : Str) (fs : List Container) (ls : List Loop) (line col : Nat) (w : W)
    (hcif : w.cif = done ++ [.mk bcode fs ls]) (hvalid : isValidName false fc = true)
    (hold : ∃ c ∈ fs, codeIs o.norm (o.norm fc) c = true) :
    createIn o false [o.norm bcode] fc line col acceptAll w
      = .ok [o.norm bcode, o.norm fc] { w with log := ⟨CIF_DUP_FRAMECODE, line, col⟩ :: w.log } := by
  have hv := View.block o done bcode hfresh
  have hany : fs.any (codeIs o.norm (o.norm fc)) = true := by
    rw [List.any_eq_true]; exact hold
  unfold createIn
  simp only [bind_eq, pure_eq, P.bind, P.pure, getCif, setCif, hcif, hv.get, hv.upd, Bool.false_eq_true, if_false, hvalid,
    Bool.not_true, if_true, report_accept,
    Option.map_some, Option.getD_some, Container.frames, Container.code, Container.loops, hany,
    List.singleton_append, List.cons_append, List.nil_append]

theorem createIn_block_invalid (o : Opts) (code : Str) (line col : Nat) (w : W) (hinv : isValidName false code = false)
    (hnew : ∀ c ∈ w.cif, codeIs o.norm (o.norm code) c = false) :
    createIn o true [] code line col acceptAll w
      = .ok [o.norm code] { log := ⟨CIF_INVALID_BLOCKCODE, line, col⟩ :: w.log, cif := w.cif ++ [.mk code [] []] } := by
  have hany : w.cif.any (codeIs o.norm (o.norm code)) = false := by
    rw [List.any_eq_false]; intro c hc; simp [hnew c hc]
  unfold createIn
  simp only [bind_eq, pure_eq, P.bind, P.pure, getCif, setCif, if_true, hinv, Bool.not_false, Bool.false_eq_true, if_false, hany,
    List.nil_append, report_accept]

theorem createIn_block_dup (o : Opts) (code : Str) (line col : Nat) (w : W) (hvalid : isValidName false code = true)
    (hold : ∃ c ∈ w.cif, codeIs o.norm (o.norm code) c = true) :
    createIn o true [] code line col acceptAll w
      = .ok [o.norm code] { w with log := ⟨CIF_DUP_BLOCKCODE, line, col⟩ :: w.log } := by
  have hany : w.cif.any (codeIs o.norm (o.norm code)) = true := by
    rw [List.any_eq_true]; exact hold
  unfold createIn
  simp only [bind_eq, pure_eq, P.bind, P.pure, getCif, setCif, if_true, hvalid, Bool.not_true, Bool.false_eq_true, if_false, hany,
    List.nil_append, report_accept]


/-! ### save frames -/

/-- a save frame whose code is not a valid frame code: one CIF_INVALID_FRAMECODE, the code is used anyway -/
theorem invalid_framecode_step (o : Opts) (done : Cif) (bcode : Str) (hfresh : ∀ c ∈ done, codeIs o.norm (o.norm bcode) c = false)
    (fc : Str) (body : List Item) (rest : List TokSpec) (s : PS) (fuel : Nat) (w : W) (fs : List Container)
    (ls : List Loop) (hcif : w.cif = done ++ [.mk bcode fs ls]) (hmfd : o.maxFrameDepth ≠ 0)
    (hn0 : noNul fc = true) (hinv : isValidName false fc = false)
    (hnew : ∀ c ∈ fs, codeIs o.norm (o.norm fc) c = false) (hwb : wfItems o body [] = true)
    (hfuel : szItems body + body.length + 3 ≤ fuel)
    (hF : Feeds o s ((.frameHead, fc) :: (itemsToks body ++ (.frameTerm, []) :: rest))) :
    ∃ s' r, elemsLoop o (fuel + 1) s (some [o.norm bcode]) true acceptAll w
        = elemsLoop o fuel s' (some [o.norm bcode]) true acceptAll
            { log := r :: w.log, cif := done ++ [.mk bcode (fs ++ [.mk fc [] (denoteItems o.dia o.normKey body [])]) ls] }
      ∧ r.code = CIF_INVALID_FRAMECODE ∧ Feeds o s' rest := by
  obtain ⟨t, s1, hty, htx, hn, _, hr⟩ := hF.inv
  obtain ⟨X, hX⟩ : ∃ X, fuel = X + 1 := ⟨fuel - 1, by omega⟩
  obtain ⟨g, hg⟩ : ∃ g, X = (g + 1) + body.length := ⟨X - body.length - 1, by omega⟩
  have hvf := View.frame o done bcode fs ls fc hfresh hnew
  let r0 : Report := ⟨CIF_INVALID_FRAMECODE, s1.scan.line, s1.scan.col - fc.length⟩
  obtain ⟨s2, h1, h2⟩ := items_structure o hvf body [] ((.frameTerm, []) :: rest) (consume s1) (g + 1) acceptAll
    { log := r0 :: w.log, cif := done ++ [.mk bcode (fs ++ [.mk fc [] []]) ls] } [] [] false rfl hwb
    (by intro k hk; simp [normNames] at hk) (by omega) (fun _ => ⟨_, _, _, rfl, rfl⟩) hr
  obtain ⟨t3, s3, hty3, _, hn3, _, hr3⟩ := h2.inv
  refine ⟨consume s3, r0, ?_, rfl, hr3⟩
  have hpacked : allPacked (denoteItems o.dia o.normKey body []) :=
    allPacked_denoteItems o body [] [] hwb (by intro l hl; cases hl)
  rw [← hg] at h1
  conv => lhs; rw [elemsLoop]
  simp only [bind_eq, pure_eq, P.bind, P.pure, hn, hty, htx, cstr_noNul hn0, Bool.not_true, and_false, false_and, if_false, hmfd,
    Bool.false_eq_true, createIn_frame_invalid o done bcode hfresh fc fs ls _ _ w hcif hinv hnew]
  conv => lhs; rw [hX, parseContainer]
  simp only [bind_eq, pure_eq, P.bind, P.pure, h1, r0]
  conv => lhs; rw [elemsLoop]
  simp only [bind_eq, pure_eq, P.bind, P.pure, hn3, hty3, Bool.false_eq_true, if_false, getCif, setCif, hvf.upd,
    pruneC_packed _ _ _ hpacked]
  rw [hX]

/-- a save frame header whose (normalised) code the block already has: one CIF_DUP_FRAMECODE, the existing frame `fc0` is
    reopened — the items are added to it (`seen` ⊇ its item names: the items are new to it) -/
theorem dup_framecode_step (o : Opts) (done : Cif) (bcode : Str) (hfresh : ∀ c ∈ done, codeIs o.norm (o.norm bcode) c = false)
    (fc fc0 : Str) (body : List Item) (seen : List Str) (rest : List TokSpec) (s : PS) (fuel : Nat) (w : W)
    (fa fb ffs : List Container) (fls ls : List Loop)
    (hcif : w.cif = done ++ [.mk bcode (fa ++ .mk fc0 ffs fls :: fb) ls]) (hmfd : o.maxFrameDepth ≠ 0)
    (hcode : wfCode fc = true) (hk : o.norm fc0 = o.norm fc)
    (ha : ∀ c ∈ fa, codeIs o.norm (o.norm fc) c = false) (hb : ∀ c ∈ fb, codeIs o.norm (o.norm fc) c = false)
    (hwb : wfItems o body seen = true) (hseen : ∀ k ∈ normNames o fls, k ∈ seen) (hpk : allPacked fls)
    (hfuel : szItems body + body.length + 3 ≤ fuel)
    (hF : Feeds o s ((.frameHead, fc) :: (itemsToks body ++ (.frameTerm, []) :: rest))) :
    ∃ s' r, elemsLoop o (fuel + 1) s (some [o.norm bcode]) true acceptAll w
        = elemsLoop o fuel s' (some [o.norm bcode]) true acceptAll
            { log := r :: w.log,
              cif := done ++ [.mk bcode (fa ++ .mk fc0 ffs (denoteItems o.dia o.normKey body fls) :: fb) ls] }
      ∧ r.code = CIF_DUP_FRAMECODE ∧ Feeds o s' rest := by
  simp only [wfCode, Bool.and_eq_true] at hcode
  obtain ⟨t, s1, hty, htx, hn, _, hr⟩ := hF.inv
  obtain ⟨X, hX⟩ : ∃ X, fuel = X + 1 := ⟨fuel - 1, by omega⟩
  obtain ⟨g, hg⟩ : ∃ g, X = (g + 1) + body.length := ⟨X - body.length - 1, by omega⟩
  have hvf := View.frameMid o done bcode fa fb ls fc0 fc hk hfresh ha hb
  let r0 : Report := ⟨CIF_DUP_FRAMECODE, s1.scan.line, s1.scan.col - fc.length⟩
  obtain ⟨s2, h1, h2⟩ := items_structure o hvf body seen ((.frameTerm, []) :: rest) (consume s1) (g + 1) acceptAll
    { w with log := r0 :: w.log } ffs fls false hcif hwb hseen (by omega) (fun _ => ⟨_, _, _, rfl, rfl⟩) hr
  obtain ⟨t3, s3, hty3, _, hn3, _, hr3⟩ := h2.inv
  refine ⟨consume s3, r0, ?_, rfl, hr3⟩
  have hpacked : allPacked (denoteItems o.dia o.normKey body fls) := allPacked_denoteItems o body seen fls hwb hpk
  rw [← hg] at h1
  conv => lhs; rw [elemsLoop]
  simp only [bind_eq, pure_eq, P.bind, P.pure, hn, hty, htx, cstr_noNul hcode.2, Bool.not_true, and_false, false_and, if_false, hmfd,
    Bool.false_eq_true,
    createIn_frame_dup o done bcode hfresh fc _ ls _ _ w hcif hcode.1 ⟨_, List.mem_append_right _ (List.mem_cons_self), by
      simp [codeIs, Container.code, hk]⟩]
  conv => lhs; rw [hX, parseContainer]
  simp only [bind_eq, pure_eq, P.bind, P.pure, h1, r0]
  conv => lhs; rw [elemsLoop]
  simp only [bind_eq, pure_eq, P.bind, P.pure, hn3, hty3, Bool.false_eq_true, if_false, getCif, setCif, hvf.upd,
    pruneC_packed _ _ _ hpacked]
  rw [hX]


/-- `elems_defect_run` with the recovered frames and loops of the block given explicitly (a recovery that is not the content of
    a repaired document: a reopened frame) -/
theorem elems_defect_run_gen (o : Opts) (done : Cif) (bcode : Str) (hfresh : ∀ c ∈ done, codeIs o.norm (o.norm bcode) c = false)
    (hmfd : o.maxFrameDepth ≠ 0) (pre post : List Elem) (fs2 : List Container) (ls2 : List Loop) (D : List TokSpec) (C : Code)
    (need : Nat) (seen fseen seen2 fseen2 : List Str) (rest : List TokSpec) (s : PS) (fuel : Nat) (w : W) (fs : List Container)
    (ls : List Loop)
    (hcif : w.cif = done ++ [.mk bcode fs ls]) (hpre : wfElems o pre seen fseen = true)
    (hseen : ∀ k ∈ normNames o ls, k ∈ seen) (hfseen : ∀ c ∈ fs, o.norm c.code ∈ fseen)
    (hpost : wfElems o post seen2 fseen2 = true)
    (hseen2 : ∀ k ∈ normNames o ls2, k ∈ seen2) (hfseen2 : ∀ c ∈ fs2, o.norm c.code ∈ fseen2)
    (hstep : ∀ (s1 : PS) (w1 : W) (f : Nat),
      w1.cif = done ++ [.mk bcode (denoteElems o.dia o.normKey pre fs ls).1 (denoteElems o.dia o.normKey pre fs ls).2] → need ≤ f →
      Feeds o s1 (D ++ (elemsToks post ++ rest)) →
      ∃ s2 r, elemsLoop o (f + 1) s1 (some [o.norm bcode]) true acceptAll w1
          = elemsLoop o f s2 (some [o.norm bcode]) true acceptAll { log := r :: w1.log, cif := done ++ [.mk bcode fs2 ls2] }
        ∧ r.code = C ∧ Feeds o s2 (elemsToks post ++ rest))
    (hfuel : szElems pre + szElems post + need + 1 ≤ fuel)
    (hpreTerm : ∃ ty tx ts, D ++ (elemsToks post ++ rest) = (ty, tx) :: ts ∧ isTerminator ty = true)
    (hrest : ∃ ty tx ts, rest = (ty, tx) :: ts ∧ isTerminator ty = true)
    (hF : Feeds o s (elemsToks pre ++ (D ++ (elemsToks post ++ rest)))) :
    ∃ s' r, elemsLoop o (fuel + post.length + 1 + pre.length) s (some [o.norm bcode]) true acceptAll w
        = elemsLoop o fuel s' (some [o.norm bcode]) true acceptAll
            { log := r :: w.log,
              cif := done ++ [.mk bcode (denoteElems o.dia o.normKey post fs2 ls2).1 (denoteElems o.dia o.normKey post fs2 ls2).2] }
      ∧ r.code = C ∧ Feeds o s' rest := by
  obtain ⟨s1, h1, h2⟩ := elems_structure o done bcode hfresh hmfd pre seen fseen _ s (fuel + post.length + 1) acceptAll w fs ls hcif
    hpre hseen hfseen (by omega) hpreTerm hF
  obtain ⟨s2, r, h3, hr, h4⟩ := hstep s1
    { w with cif := done ++ [.mk bcode (denoteElems o.dia o.normKey pre fs ls).1 (denoteElems o.dia o.normKey pre fs ls).2] }
    (fuel + post.length) rfl (by omega) h2
  obtain ⟨s3, h5, h6⟩ := elems_structure o done bcode hfresh hmfd post seen2 fseen2 rest s2 fuel acceptAll
    { log := r :: w.log, cif := done ++ [.mk bcode fs2 ls2] } fs2 ls2 rfl hpost hseen2 hfseen2 (by omega) hrest h4
  exact ⟨s3, r, by rw [h1, h3, h5], hr, h6⟩

/-- CIF_INVALID_FRAMECODE, universally: any well-formed elements of the data block before and behind the frame; one report, the
    frame is kept under its code -/
theorem invalid_framecode_run (o : Opts) (done : Cif) (bcode : Str) (hfresh : ∀ c ∈ done, codeIs o.norm (o.norm bcode) c = false)
    (hmfd : o.maxFrameDepth ≠ 0) (pre post : List Elem) (fc : Str) (body : List Item)
    (seen fseen seen2 fseen2 : List Str) (rest : List TokSpec) (s : PS) (fuel : Nat) (w : W)
    (fs : List Container) (ls : List Loop)
    (hcif : w.cif = done ++ [.mk bcode fs ls]) (hpre : wfElems o pre seen fseen = true)
    (hseen : ∀ k ∈ normNames o ls, k ∈ seen) (hfseen : ∀ c ∈ fs, o.norm c.code ∈ fseen)
    (hn0 : noNul fc = true) (hinv : isValidName false fc = false)
    (hnew : ∀ c ∈ (denoteElems o.dia o.normKey pre fs ls).1, codeIs o.norm (o.norm fc) c = false)
    (hwb : wfItems o body [] = true)
    (hpost : wfElems o post seen2 fseen2 = true)
    (hseen2 : ∀ k ∈ normNames o (denoteElems o.dia o.normKey (pre ++ [.frame fc (body.map Elem.plain)]) fs ls).2, k ∈ seen2)
    (hfseen2 : ∀ c ∈ (denoteElems o.dia o.normKey (pre ++ [.frame fc (body.map Elem.plain)]) fs ls).1, o.norm c.code ∈ fseen2)
    (hfuel : szElems pre + szElems post + (szItems body + body.length + 3) + 1 ≤ fuel)
    (hrest : ∃ ty tx ts, rest = (ty, tx) :: ts ∧ isTerminator ty = true)
    (hF : Feeds o s (elemsToks pre ++ (((.frameHead, fc) :: (itemsToks body ++ [(.frameTerm, [])])) ++ (elemsToks post ++ rest)))) :
    ∃ s' r, elemsLoop o (fuel + post.length + 1 + pre.length) s (some [o.norm bcode]) true acceptAll w
        = elemsLoop o fuel s' (some [o.norm bcode]) true acceptAll
            { log := r :: w.log,
              cif := done ++ [.mk bcode (denoteElems o.dia o.normKey (pre ++ [.frame fc (body.map Elem.plain)] ++ post) fs ls).1
                (denoteElems o.dia o.normKey (pre ++ [.frame fc (body.map Elem.plain)] ++ post) fs ls).2] }
      ∧ r.code = CIF_INVALID_FRAMECODE ∧ Feeds o s' rest := by
  refine elems_defect_run o done bcode hfresh hmfd pre post [.frame fc (body.map Elem.plain)] ((.frameHead, fc) :: (itemsToks body ++ [(.frameTerm, [])]))
    CIF_INVALID_FRAMECODE (szItems body + body.length + 3) seen fseen seen2 fseen2 rest s fuel w fs ls hcif hpre hseen hfseen hpost hseen2
    hfseen2 ?_ hfuel ⟨_, _, _, rfl, rfl⟩ hrest hF
  intro s1 w1 f hw1 hf hF1
  obtain ⟨s2, r, h1, h2, h3⟩ := invalid_framecode_step o done bcode hfresh fc body (elemsToks post ++ rest) s1 f w1 _ _ hw1 hmfd hn0
    hinv hnew hwb hf (by simpa using hF1)
  refine ⟨s2, r, ?_, h2, h3⟩
  rw [h1, denoteElems_append]
  simp [denoteElems, denoteElem, denoteElems_plains]

/-- CIF_DUP_FRAMECODE, universally: any well-formed elements before (among the frames they leave is `fc0`, spelled in any way
    that normalises like `fc`) and behind; one report, the items of the second frame are added to the first -/
theorem dup_framecode_run (o : Opts) (done : Cif) (bcode : Str) (hfresh : ∀ c ∈ done, codeIs o.norm (o.norm bcode) c = false)
    (hmfd : o.maxFrameDepth ≠ 0) (pre post : List Elem) (fc fc0 : Str) (body : List Item)
    (seen fseen seen2 fseen2 bseen : List Str) (rest : List TokSpec) (s : PS) (fuel : Nat) (w : W)
    (fs fa fb ffs : List Container) (ls fls : List Loop)
    (hcif : w.cif = done ++ [.mk bcode fs ls]) (hpre : wfElems o pre seen fseen = true)
    (hseen : ∀ k ∈ normNames o ls, k ∈ seen) (hfseen : ∀ c ∈ fs, o.norm c.code ∈ fseen)
    (hcode : wfCode fc = true) (hk : o.norm fc0 = o.norm fc)
    (hsplit : (denoteElems o.dia o.normKey pre fs ls).1 = fa ++ .mk fc0 ffs fls :: fb)
    (ha : ∀ c ∈ fa, codeIs o.norm (o.norm fc) c = false) (hb : ∀ c ∈ fb, codeIs o.norm (o.norm fc) c = false)
    (hwb : wfItems o body bseen = true) (hbseen : ∀ k ∈ normNames o fls, k ∈ bseen) (hpk : allPacked fls)
    (hpost : wfElems o post seen2 fseen2 = true)
    (hseen2 : ∀ k ∈ normNames o (denoteElems o.dia o.normKey pre fs ls).2, k ∈ seen2)
    (hfseen2 : ∀ c ∈ (denoteElems o.dia o.normKey pre fs ls).1, o.norm c.code ∈ fseen2)
    (hfuel : szElems pre + szElems post + (szItems body + body.length + 3) + 1 ≤ fuel)
    (hrest : ∃ ty tx ts, rest = (ty, tx) :: ts ∧ isTerminator ty = true)
    (hF : Feeds o s (elemsToks pre ++ (((.frameHead, fc) :: (itemsToks body ++ [(.frameTerm, [])])) ++ (elemsToks post ++ rest)))) :
    ∃ s' r, elemsLoop o (fuel + post.length + 1 + pre.length) s (some [o.norm bcode]) true acceptAll w
        = elemsLoop o fuel s' (some [o.norm bcode]) true acceptAll
            { log := r :: w.log,
              cif := done ++ [.mk bcode
                (denoteElems o.dia o.normKey post (fa ++ .mk fc0 ffs (denoteItems o.dia o.normKey body fls) :: fb)
                  (denoteElems o.dia o.normKey pre fs ls).2).1
                (denoteElems o.dia o.normKey post (fa ++ .mk fc0 ffs (denoteItems o.dia o.normKey body fls) :: fb)
                  (denoteElems o.dia o.normKey pre fs ls).2).2] }
      ∧ r.code = CIF_DUP_FRAMECODE ∧ Feeds o s' rest := by
  refine elems_defect_run_gen o done bcode hfresh hmfd pre post _ _ ((.frameHead, fc) :: (itemsToks body ++ [(.frameTerm, [])]))
    CIF_DUP_FRAMECODE (szItems body + body.length + 3) seen fseen seen2 fseen2 rest s fuel w fs ls hcif hpre hseen hfseen hpost hseen2
    ?_ ?_ hfuel ⟨_, _, _, rfl, rfl⟩ hrest hF
  · intro c hc
    rw [hsplit] at hfseen2
    rcases List.mem_append.mp hc with h | h
    · exact hfseen2 c (List.mem_append_left _ h)
    · rcases List.mem_cons.mp h with h | h
      · subst h
        exact hfseen2 (.mk fc0 ffs fls) (List.mem_append_right _ List.mem_cons_self)
      · exact hfseen2 c (List.mem_append_right _ (List.mem_cons_of_mem _ h))
  · intro s1 w1 f hw1 hf hF1
    rw [hsplit] at hw1
    exact dup_framecode_step o done bcode hfresh fc fc0 body bseen (elemsToks post ++ rest) s1 f w1 fa fb ffs fls _ hw1 hmfd hcode hk
      ha hb hwb hbseen hpk hf (by simpa using hF1)


/-! ### data blocks -/

theorem blocks_follow (r : List Block) (rest : List TokSpec) (h : blockFollow rest) : blockFollow (blocksToks r ++ rest) := by
  cases r with
  | nil => simpa [blocksToks] using h
  | cons b r' => exact ⟨.blockHead, b.code, elemsToks b.body ++ blocksToks r' ++ rest, by simp [blocksToks], Or.inl rfl⟩

/-- well-formed data blocks in front of something: the block loop goes on behind them -/
theorem blocks_prefix (o : Opts) (hstore : o.store = true) (hmfd : o.maxFrameDepth ≠ 0) :
    ∀ (bs : List Block) (bseen : List Str) (rest : List TokSpec) (s : PS) (fuel : Nat) (pol : Policy) (w : W),
      wfBlocks o bs bseen = true → (∀ c ∈ w.cif, o.norm c.code ∈ bseen) → szBlocks bs ≤ fuel → blockFollow rest →
      Feeds o s (blocksToks bs ++ rest) →
      ∃ s', blocksLoop o (fuel + bs.length) s pol w = blocksLoop o fuel s' pol { w with cif := w.cif ++ denote o.dia o.normKey bs }
        ∧ Feeds o s' rest
  | [], bseen, rest, s, fuel, pol, w, _, _, _, _, hF => by
    refine ⟨s, ?_, by simpa [blocksToks] using hF⟩
    simp only [List.length_nil, Nat.add_zero, denote, List.map_nil, List.append_nil]
  | b :: r, bseen, rest, s, fuel, pol, w, hwf, hseen, hfuel, hrest, hF => by
    simp only [wfBlocks, Bool.and_eq_true, Bool.not_eq_true'] at hwf
    obtain ⟨⟨⟨hcode, hcnew⟩, hwb⟩, hwr⟩ := hwf
    simp only [szBlocks] at hfuel
    have hnew : ∀ c ∈ w.cif, codeIs o.norm (o.norm b.code) c = false := by
      intro c hc
      have h1 := hseen c hc
      simp only [codeIs, beq_eq_false_iff_ne, ne_eq]
      intro heq
      rw [heq] at h1
      simp [List.contains_iff_mem] at hcnew
      exact hcnew h1
    simp only [blocksToks, List.cons_append, List.append_assoc] at hF
    obtain ⟨s1, h1, h2⟩ := block_step o hstore hmfd b (blocksToks r ++ rest) s (fuel + r.length) pol w hcode hnew hwb
      (by omega) (blocks_follow r rest hrest) hF
    obtain ⟨s2, h3, h4⟩ := blocks_prefix o hstore hmfd r (o.norm b.code :: bseen) rest s1 fuel pol
      { w with cif := w.cif ++ [denoteBlock o.dia o.normKey b] } hwr
      (by
        intro c hc
        rcases List.mem_append.mp hc with h | h
        · exact List.mem_cons_of_mem _ (hseen c h)
        · simp only [List.mem_singleton] at h; subst h; simp [denoteBlock, Container.code])
      (by omega) hrest h2
    refine ⟨s2, ?_, h4⟩
    have e : fuel + (b :: r).length = (fuel + r.length) + 1 := by simp; omega
    rw [e, h1, h3]
    simp [denote, List.append_assoc]

/-- a data block whose code is not a valid block code: one CIF_INVALID_BLOCKCODE, the code is used anyway -/
theorem invalid_blockcode_step (o : Opts) (hstore : o.store = true) (hmfd : o.maxFrameDepth ≠ 0) (b : Block) (rest : List TokSpec)
    (s : PS) (fuel : Nat) (w : W) (hn0 : noNul b.code = true) (hinv : isValidName false b.code = false)
    (hnew : ∀ c ∈ w.cif, codeIs o.norm (o.norm b.code) c = false)
    (hwb : wfElems o b.body [] [] = true) (hfuel : szBlock b ≤ fuel) (hrest : blockFollow rest)
    (hF : Feeds o s ((.blockHead, b.code) :: (elemsToks b.body ++ rest))) :
    ∃ s' r, blocksLoop o (fuel + 1) s acceptAll w
        = blocksLoop o fuel s' acceptAll { log := r :: w.log, cif := w.cif ++ [denoteBlock o.dia o.normKey b] }
      ∧ r.code = CIF_INVALID_BLOCKCODE ∧ Feeds o s' rest := by
  simp only [szBlock] at hfuel
  obtain ⟨t, s1, hty, htx, hn, _, hr⟩ := hF.inv
  obtain ⟨X, hX⟩ : ∃ X, fuel = X + 1 := ⟨fuel - 1, by omega⟩
  obtain ⟨g, hg⟩ : ∃ g, X = (g + 1) + b.body.length := ⟨X - b.body.length - 1, by omega⟩
  let r0 : Report := ⟨CIF_INVALID_BLOCKCODE, s1.scan.line, s1.scan.col - b.code.length⟩
  obtain ⟨s2, h1, h2⟩ := elems_structure o w.cif b.code hnew hmfd b.body [] [] rest (consume s1) (g + 1) acceptAll
    { log := r0 :: w.log, cif := w.cif ++ [.mk b.code [] []] } [] [] rfl hwb (by intro k hk; simp [normNames] at hk)
    (by intro c hc; cases hc) (by omega) (blockFollow_term hrest) hr
  rw [← hg] at h1
  obtain ⟨ty, tx, ts, rfl, hfol⟩ := hrest
  obtain ⟨t3, s3, hty3, htx3, hn3, ht3, hr3⟩ := h2.inv
  refine ⟨s3, r0, ?_, rfl, by rw [← hty3, ← htx3]; exact Feeds.pending ht3 hr3⟩
  have hpacked : allPacked (denoteElems o.dia o.normKey b.body [] []).2 :=
    allPacked_denoteElems o b.body [] [] [] [] hwb (by intro l hl; cases hl)
  have hv := View.block o w.cif b.code hnew
  conv => lhs; rw [blocksLoop]
  simp only [bind_eq, pure_eq, P.bind, P.pure, hn, hty, htx, hstore, if_true, cstr_noNul hn0,
    createIn_block_invalid o b.code _ _ w hinv hnew]
  conv => lhs; rw [hX, parseContainer]
  simp only [bind_eq, pure_eq, P.bind, P.pure, h1, r0]
  conv => lhs; rw [elemsLoop]
  rcases hfol with h | h
  · simp only [bind_eq, pure_eq, P.bind, P.pure, hn3, hty3, h, if_true, getCif, setCif, hv.upd, pruneC_packed _ _ _ hpacked]
    rw [hX]; rfl
  · simp only [bind_eq, pure_eq, P.bind, P.pure, hn3, hty3, h, if_true, getCif, setCif, hv.upd, pruneC_packed _ _ _ hpacked]
    rw [hX]; rfl

/-- a data block header whose (normalised) code the CIF already has: one CIF_DUP_BLOCKCODE, the existing block `code0` (anywhere
    in the CIF) is reopened — the items are added to it -/
theorem dup_blockcode_step (o : Opts) (hstore : o.store = true) (code code0 : Str) (body : List Item) (seen : List Str)
    (rest : List TokSpec) (s : PS) (fuel : Nat) (w : W) (ca cb : Cif) (bfs : List Container) (bls : List Loop)
    (hcif : w.cif = ca ++ .mk code0 bfs bls :: cb) (hcode : wfCode code = true) (hk : o.norm code0 = o.norm code)
    (ha : ∀ c ∈ ca, codeIs o.norm (o.norm code) c = false) (hb : ∀ c ∈ cb, codeIs o.norm (o.norm code) c = false)
    (hwb : wfItems o body seen = true) (hseen : ∀ k ∈ normNames o bls, k ∈ seen) (hpk : allPacked bls)
    (hfuel : szItems body + body.length + 3 ≤ fuel) (hrest : blockFollow rest)
    (hF : Feeds o s ((.blockHead, code) :: (itemsToks body ++ rest))) :
    ∃ s' r, blocksLoop o (fuel + 1) s acceptAll w
        = blocksLoop o fuel s' acceptAll
            { log := r :: w.log, cif := ca ++ .mk code0 bfs (denoteItems o.dia o.normKey body bls) :: cb }
      ∧ r.code = CIF_DUP_BLOCKCODE ∧ Feeds o s' rest := by
  simp only [wfCode, Bool.and_eq_true] at hcode
  obtain ⟨t, s1, hty, htx, hn, _, hr⟩ := hF.inv
  obtain ⟨X, hX⟩ : ∃ X, fuel = X + 1 := ⟨fuel - 1, by omega⟩
  obtain ⟨g, hg⟩ : ∃ g, X = (g + 1) + body.length := ⟨X - body.length - 1, by omega⟩
  have hv := View.blockMid o ca cb code0 code hk ha hb
  let r0 : Report := ⟨CIF_DUP_BLOCKCODE, s1.scan.line, s1.scan.col - code.length⟩
  obtain ⟨s2, h1, h2⟩ := items_structure o hv body seen rest (consume s1) (g + 1) acceptAll
    { w with log := r0 :: w.log } bfs bls true hcif hwb hseen (by omega) (fun _ => blockFollow_term hrest) hr
  rw [← hg] at h1
  obtain ⟨ty, tx, ts, rfl, hfol⟩ := hrest
  obtain ⟨t3, s3, hty3, htx3, hn3, ht3, hr3⟩ := h2.inv
  refine ⟨s3, r0, ?_, rfl, by rw [← hty3, ← htx3]; exact Feeds.pending ht3 hr3⟩
  have hpacked : allPacked (denoteItems o.dia o.normKey body bls) := allPacked_denoteItems o body seen bls hwb hpk
  conv => lhs; rw [blocksLoop]
  simp only [bind_eq, pure_eq, P.bind, P.pure, hn, hty, htx, hstore, if_true, cstr_noNul hcode.2,
    createIn_block_dup o code _ _ w hcode.1 ⟨.mk code0 bfs bls, by rw [hcif]; exact List.mem_append_right _ List.mem_cons_self, by
      simp [codeIs, Container.code, hk]⟩]
  conv => lhs; rw [hX, parseContainer]
  simp only [bind_eq, pure_eq, P.bind, P.pure, h1, r0]
  conv => lhs; rw [elemsLoop]
  rcases hfol with h | h
  · simp only [bind_eq, pure_eq, P.bind, P.pure, hn3, hty3, h, if_true, getCif, setCif, hv.upd, pruneC_packed _ _ _ hpacked]
    rw [hX]
  · simp only [bind_eq, pure_eq, P.bind, P.pure, hn3, hty3, h, if_true, getCif, setCif, hv.upd, pruneC_packed _ _ _ hpacked]
    rw [hX]


/-- CIF_INVALID_BLOCKCODE, universally, for the whole block loop of parse_cif: any well-formed data blocks before and behind; one
    report; the CIF is that of the document (the block is kept under its code) -/
theorem invalid_blockcode_run (o : Opts) (hstore : o.store = true) (hmfd : o.maxFrameDepth ≠ 0) (pre post : List Block) (b : Block)
    (bseen bseen2 : List Str) (s : PS) (fuel : Nat) (w : W)
    (hpre : wfBlocks o pre bseen = true) (hseen : ∀ c ∈ w.cif, o.norm c.code ∈ bseen)
    (hn0 : noNul b.code = true) (hinv : isValidName false b.code = false)
    (hnew : ∀ c ∈ w.cif ++ denote o.dia o.normKey pre, codeIs o.norm (o.norm b.code) c = false)
    (hwb : wfElems o b.body [] [] = true) (hpost : wfBlocks o post bseen2 = true)
    (hseen2 : ∀ c ∈ w.cif ++ denote o.dia o.normKey (pre ++ [b]), o.norm c.code ∈ bseen2)
    (hfuel : szBlocks pre + szBlock b + szBlocks post + 1 ≤ fuel)
    (hF : Feeds o s (blocksToks pre ++ ((.blockHead, b.code) :: (elemsToks b.body ++ (blocksToks post ++ [(.end_, [])]))))) :
    ∃ s' r, blocksLoop o (fuel + post.length + 1 + pre.length) s acceptAll w
        = .ok s' { log := r :: w.log, cif := w.cif ++ denote o.dia o.normKey (pre ++ [b] ++ post) }
      ∧ r.code = CIF_INVALID_BLOCKCODE := by
  obtain ⟨s1, h1, h2⟩ := blocks_prefix o hstore hmfd pre bseen _ s (fuel + post.length + 1) acceptAll w hpre hseen (by omega)
    ⟨_, _, _, rfl, Or.inl rfl⟩ hF
  obtain ⟨s2, r, h3, hr, h4⟩ := invalid_blockcode_step o hstore hmfd b (blocksToks post ++ [(.end_, [])]) s1 (fuel + post.length)
    { w with cif := w.cif ++ denote o.dia o.normKey pre } hn0 hinv hnew hwb (by omega) (blocks_rest_head post) h2
  obtain ⟨s3, h5⟩ := blocks_structure o hstore hmfd post bseen2 s2 fuel acceptAll
    { log := r :: w.log, cif := w.cif ++ denote o.dia o.normKey pre ++ [denoteBlock o.dia o.normKey b] } hpost
    (by simpa [denote, List.map_append, List.append_assoc] using hseen2) (by omega) h4
  refine ⟨s3, r, ?_, hr⟩
  rw [h1, h3, h5]
  simp [denote, List.map_append, List.append_assoc]

/-- CIF_DUP_BLOCKCODE, universally, for the whole block loop of parse_cif: any well-formed data blocks before — among the blocks
    of the CIF then is `code0`, spelled in any way that normalises like `code` — and behind; one report, the items of the second
    block are added to the first -/
theorem dup_blockcode_run (o : Opts) (hstore : o.store = true) (hmfd : o.maxFrameDepth ≠ 0) (pre post : List Block)
    (code code0 : Str) (body : List Item) (bseen bseen2 iseen : List Str) (s : PS) (fuel : Nat) (w : W)
    (ca cb : Cif) (bfs : List Container) (bls : List Loop)
    (hpre : wfBlocks o pre bseen = true) (hseen : ∀ c ∈ w.cif, o.norm c.code ∈ bseen)
    (hcode : wfCode code = true) (hk : o.norm code0 = o.norm code)
    (hsplit : w.cif ++ denote o.dia o.normKey pre = ca ++ .mk code0 bfs bls :: cb)
    (ha : ∀ c ∈ ca, codeIs o.norm (o.norm code) c = false) (hb : ∀ c ∈ cb, codeIs o.norm (o.norm code) c = false)
    (hwb : wfItems o body iseen = true) (hiseen : ∀ k ∈ normNames o bls, k ∈ iseen) (hpk : allPacked bls)
    (hpost : wfBlocks o post bseen2 = true)
    (hseen2 : ∀ c ∈ w.cif ++ denote o.dia o.normKey pre, o.norm c.code ∈ bseen2)
    (hfuel : szBlocks pre + (szItems body + body.length + 3) + szBlocks post + 1 ≤ fuel)
    (hF : Feeds o s (blocksToks pre ++ ((.blockHead, code) :: (itemsToks body ++ (blocksToks post ++ [(.end_, [])]))))) :
    ∃ s' r, blocksLoop o (fuel + post.length + 1 + pre.length) s acceptAll w
        = .ok s' { log := r :: w.log,
                   cif := (ca ++ .mk code0 bfs (denoteItems o.dia o.normKey body bls) :: cb) ++ denote o.dia o.normKey post }
      ∧ r.code = CIF_DUP_BLOCKCODE := by
  obtain ⟨s1, h1, h2⟩ := blocks_prefix o hstore hmfd pre bseen _ s (fuel + post.length + 1) acceptAll w hpre hseen (by omega)
    ⟨_, _, _, rfl, Or.inl rfl⟩ hF
  obtain ⟨s2, r, h3, hr, h4⟩ := dup_blockcode_step o hstore code code0 body iseen (blocksToks post ++ [(.end_, [])]) s1
    (fuel + post.length) { w with cif := w.cif ++ denote o.dia o.normKey pre } ca cb bfs bls hsplit hcode hk ha hb hwb hiseen hpk
    (by omega) (blocks_rest_head post) h2
  obtain ⟨s3, h5⟩ := blocks_structure o hstore hmfd post bseen2 s2 fuel acceptAll
    { log := r :: w.log, cif := ca ++ .mk code0 bfs (denoteItems o.dia o.normKey body bls) :: cb } hpost
    (by
      rw [hsplit] at hseen2
      intro c hc
      rcases List.mem_append.mp hc with h | h
      · exact hseen2 c (List.mem_append_left _ h)
      · rcases List.mem_cons.mp h with h | h
        · subst h
          exact hseen2 (.mk code0 bfs bls) (List.mem_append_right _ List.mem_cons_self)
        · exact hseen2 c (List.mem_append_right _ (List.mem_cons_of_mem _ h)))
    (by omega) h4
  exact ⟨s3, r, by rw [h1, h3, h5], hr⟩

end CifModel.Model.Parser
