import CifModel.Lemmas.NumbLimbRead
import CifModel.Lemmas.NumbLimbRound
import CifModel.Lemmas.NumbToDouble
/-
  Limb level of C10, part 5: refinement of to_double — the limb-level run computes what the exact-arithmetic level
  (`toDoubleCore`) computes.
-/
namespace CifModel.Lemmas.NumbLimbRefine
open CifModel.Model.Numb CifModel.Model.NumbLimbs CifModel.Lemmas.NumbLimbPass CifModel.Lemmas.NumbDigits
  CifModel.Lemmas.NumbLimbRead CifModel.Lemmas.NumbToDouble

/-- weight of the units limb: the array denotes `natOfLimbs digits / Wt` -/
def Wt (A : Arr) (u : Nat) : Nat := Bb ^ (A.digits.length - (u + 1))

/-- the array (with units limb `u`) denotes the fraction `num/den` -/
def Rel (A : Arr) (u num den : Nat) : Prop := natOfLimbs A.digits * den = num * Wt A u

theorem Wt_pos (A : Arr) (u : Nat) : 0 < Wt A u := Nat.pow_pos Bb_pos

theorem Bb_pow (k : Nat) : Bb ^ k = 10 ^ (9 * k) := by rw [Bb_eq, ← Nat.pow_mul]

/-! ### the array after reading -/

theorem replicate_getD (k j : Nat) : (List.replicate k 0).getD j 0 = 0 := by
  apply getD_of_all_zero
  intro x hx
  exact (List.mem_replicate.mp hx).2

theorem initArr_spec (sig2 : List Nat) (units : Nat) (msp lsp : Int) (A0 : Arr) (h : initArr sig2 units msp = some A0)
    (hd : ∀ d ∈ sig2, d ≤ 9) (hlen : (sig2.length : Int) = msp - lsp + 1) (hu : units < BIGNUM_DIGITS) :
    A0.digits.length = BIGNUM_DIGITS ∧ WF A0 ∧ A0.msd ≤ A0.lsd + 1 ∧ A0.lsd < BIGNUM_DIGITS ∧
    Rel A0 units (natOfDigits sig2 * T lsp) (B lsp) := by
  unfold initArr at h
  have hf1 : 1 ≤ firstOf msp := by unfold firstOf DDIG_PER_DIG; split <;> omega
  have hf9 : firstOf msp ≤ 9 := by unfold firstOf DDIG_PER_DIG; split <;> omega
  obtain ⟨pad, hval, hcnt, hpad, hsmall, hex⟩ := readLimbs_spec sig2 (firstOf msp) hf1 hf9 hd
  -- 9·(units − start) + first − 1 = msp
  have hid : 9 * ((units : Int) - startOf units msp) + (firstOf msp : Int) - 1 = msp := by
    unfold startOf firstOf DDIG_PER_DIG
    by_cases hm : msp ≥ 0
    · simp only [hm, if_true]; omega
    · simp only [hm, if_false]; omega
  generalize startOf units msp = startI at *
  generalize firstOf msp = first at *
  generalize readLimbs sig2 first = rl at *
  by_cases hc : startI < 0 ∨ BIGNUM_DIGITS < startI.toNat + rl.1.length + 1
  · rw [if_pos hc] at h; cases h
  · rw [if_neg hc] at h
    simp only [Option.some.injEq] at h
    have hs0 : 0 ≤ startI := by omega
    have hfit : startI.toNat + rl.1.length + 1 ≤ BIGNUM_DIGITS := by omega
    generalize hst : startI.toNat = start at *
    have hstI : startI = (start : Int) := by omega
    unfold BIGNUM_DIGITS at *
    rw [← h]
    have hdlen : (List.replicate start 0 ++ rl.1 ++ List.replicate (337 - start - rl.1.length) 0).length = 337 := by
      simp only [List.length_append, List.length_replicate]; omega
    have hN : natOfLimbs (List.replicate start 0 ++ rl.1 ++ List.replicate (337 - start - rl.1.length) 0)
        = natOfLimbs rl.1 * Bb ^ (337 - start - rl.1.length) := by
      rw [nat_append, nat_append, nat_zeros, nat_zeros, List.length_replicate]; simp
    refine ⟨hdlen, ⟨?_, ?_, ?_⟩, ?_, ?_, ?_⟩
    · intro x hx
      simp only [List.mem_append] at hx
      rcases hx with (hx | hx) | hx
      · rw [(List.mem_replicate.mp hx).2]; exact Bb_pos
      · exact hsmall x hx
      · rw [(List.mem_replicate.mp hx).2]; exact Bb_pos
    · intro j hj
      simp only at hj
      rw [List.append_assoc, getD_append_l _ _ _ (by rw [List.length_replicate]; exact hj)]
      exact replicate_getD _ _
    · intro j hj
      simp only at hj
      have : (List.replicate start 0 ++ rl.1).length ≤ j := by
        simp only [List.length_append, List.length_replicate]
        split at hj <;> omega
      rw [getD_append_r _ _ _ this]
      exact replicate_getD _ _
    · simp only; split <;> omega
    · simp only
      split <;> omega
    · unfold Rel Wt
      simp only
      rw [hdlen, hN, hval]
      unfold T B
      rw [Bb_pow, Bb_pow]
      -- powers of ten on both sides
      have e1 : natOfDigits sig2 * 10 ^ pad * 10 ^ (9 * (337 - start - rl.1.length)) * 10 ^ (-lsp).toNat
          = natOfDigits sig2 * 10 ^ (pad + 9 * (337 - start - rl.1.length) + (-lsp).toNat) := by
        rw [Nat.pow_add, Nat.pow_add]; grind
      have e2 : natOfDigits sig2 * 10 ^ lsp.toNat * 10 ^ (9 * (337 - (units + 1)))
          = natOfDigits sig2 * 10 ^ (lsp.toNat + 9 * (337 - (units + 1))) := by
        rw [Nat.pow_add]; grind
      rw [e1, e2]
      congr 2
      omega


/-! ### two presentations of one fraction -/

theorem div_eq_of_cross (a b c d : Nat) (hb : 0 < b) (hd : 0 < d) (h : a * d = c * b) : a / b = c / d := by
  have hdm : d * (c / d) + c % d = c := Nat.div_add_mod c d
  have hr : c % d < d := Nat.mod_lt _ hd
  generalize c / d = q at *
  generalize c % d = r at *
  apply Nat.div_eq_of_lt_le
  · apply Nat.le_of_mul_le_mul_right (c := d) _ hd
    calc q * b * d = (d * q) * b := by grind
      _ ≤ c * b := Nat.mul_le_mul_right _ (by omega)
      _ = a * d := h.symm
  · apply Nat.lt_of_mul_lt_mul_right (a := d)
    calc a * d = c * b := h
      _ < (d * (q + 1)) * b := Nat.mul_lt_mul_of_pos_right (by rw [Nat.mul_add]; omega) hb
      _ = (q + 1) * b * d := by grind

theorem mod_zero_of_cross (a b c d : Nat) (hb : 0 < b) (hd : 0 < d) (h : a * d = c * b) (h0 : c % d = 0) : a % b = 0 := by
  have hdm : d * (c / d) + c % d = c := Nat.div_add_mod c d
  rw [h0, Nat.add_zero] at hdm
  apply Nat.mod_eq_zero_of_dvd
  refine ⟨c / d, ?_⟩
  apply Nat.eq_of_mul_eq_mul_right hd
  calc a * d = c * b := h
    _ = (d * (c / d)) * b := by rw [hdm]
    _ = b * (c / d) * d := by grind

theorem mod_zero_iff_of_cross (a b c d : Nat) (hb : 0 < b) (hd : 0 < d) (h : a * d = c * b) : a % b = 0 ↔ c % d = 0 :=
  ⟨fun h0 => mod_zero_of_cross c d a b hd hb h.symm h0, fun h0 => mod_zero_of_cross a b c d hb hd h h0⟩

theorem roundToInt_cross (a b c d : Nat) (hb : 0 < b) (hd : 0 < d) (h : a * d = c * b) : roundToInt a b = roundToInt c d := by
  rw [CifModel.Lemmas.NumbRound.roundToInt_eq a b hb, CifModel.Lemmas.NumbRound.roundToInt_eq c d hd]
  exact CifModel.Lemmas.NumbRound.roundHalfEven_cross a b c d hb hd h

/-! ### integer part and fractional limbs of a well-formed array -/

theorem split_units (A : Arr) (u : Nat) (wf : WF A) (hu : u < A.digits.length) :
    natOfLimbs A.digits = natOfLimbs (A.digits.take (u + 1)) * Wt A u + natOfLimbs (A.digits.drop (u + 1)) ∧
    natOfLimbs (A.digits.drop (u + 1)) < Wt A u := by
  have hsplit : A.digits = A.digits.take (u + 1) ++ A.digits.drop (u + 1) := (List.take_append_drop _ _).symm
  have hN := nat_append (A.digits.take (u + 1)) (A.digits.drop (u + 1))
  rw [← hsplit] at hN
  have hlo : natOfLimbs (A.digits.drop (u + 1)) < Bb ^ (A.digits.drop (u + 1)).length :=
    nat_lt _ (fun x hx => wf.small x (List.mem_of_mem_drop hx))
  rw [List.length_drop] at hN hlo
  exact ⟨hN, hlo⟩

theorem floor_units (A : Arr) (u : Nat) (wf : WF A) (hu : u < A.digits.length) :
    natOfLimbs A.digits / Wt A u = natOfLimbs (A.digits.take (u + 1)) ∧
    natOfLimbs A.digits % Wt A u = natOfLimbs (A.digits.drop (u + 1)) := by
  obtain ⟨hN, hlo⟩ := split_units A u wf hu
  have hW := Wt_pos A u
  generalize Wt A u = W at *
  constructor
  · rw [hN, Nat.mul_comm _ W, Nat.mul_add_div hW, Nat.div_eq_of_lt hlo]; simp
  · rw [hN, Nat.mul_comm _ W, Nat.mul_add_mod, Nat.mod_eq_of_lt hlo]

theorem mantissaOf_eq (A : Arr) (u : Nat) (wf : WF A) : mantissaOf A u = natOfLimbs (A.digits.take (u + 1)) := by
  unfold mantissaOf
  by_cases h : A.msd ≤ u + 1
  · have e : u + 1 = A.msd + (u + 1 - A.msd) := by omega
    have : A.digits.take (u + 1) = A.digits.take A.msd ++ (A.digits.drop A.msd).take (u + 1 - A.msd) := by
      conv => lhs; rw [e]
      exact List.take_add
    rw [this, nat_append, all_zero_nat _ (take_zero_of_idx _ _ wf.zlo)]
    simp
  · have h0 : u + 1 - A.msd = 0 := by omega
    rw [h0, List.take_zero]
    have : natOfLimbs (A.digits.take (u + 1)) = 0 := by
      apply all_zero_nat
      apply take_zero_of_idx
      intro j hj
      exact wf.zlo j (by omega)
    rw [this]; rfl

/-- a non-zero limb behind the units limb ⇔ a non-zero fractional part -/
theorem frac_limbs (A : Arr) (u : Nat) (wf : WF A) (hu : u < A.digits.length) (h : natOfLimbs A.digits % Wt A u ≠ 0) :
    u < A.lsd := by
  rw [(floor_units A u wf hu).2] at h
  rcases Nat.lt_or_ge u A.lsd with h1 | h1
  · exact h1
  · exfalso
    apply h
    apply all_zero_nat
    apply drop_zero_of_idx
    intro j hj
    exact wf.zhi j (by omega)

/-- `lsd` sits on a non-zero limb (or at index 0): what the `while (*lsd == 0) lsd -= 1` loops establish -/
def Tight (A : Arr) : Prop := A.lsd = 0 ∨ A.digits.getD A.lsd 0 ≠ 0

theorem tight_frac (A : Arr) (u : Nat) (wf : WF A) (hu : u < A.digits.length) (ht : Tight A) (hl : A.lsd < A.digits.length)
    (h : u < A.lsd) : natOfLimbs A.digits % Wt A u ≠ 0 := by
  rw [(floor_units A u wf hu).2]
  intro h0
  have hall := CifModel.Lemmas.NumbLimbRound.nat_eq_zero _ h0
  rcases ht with h1 | h1
  · omega
  · apply h1
    rw [List.getD_eq_getElem?_getD, List.getElem?_eq_getElem hl]
    simp only [Option.getD_some]
    apply hall
    rw [List.mem_drop_iff_getElem]
    refine ⟨A.lsd - (u + 1), by omega, ?_⟩
    have : u + 1 + (A.lsd - (u + 1)) = A.lsd := by omega
    simp only [this]

theorem skipDown_stop : ∀ (fuel : Nat) (ds : List Nat) (i : Nat), i < fuel →
    skipDown fuel ds i = 0 ∨ ds.getD (skipDown fuel ds i) 0 ≠ 0 := by
  intro fuel
  induction fuel with
  | zero => intro ds i h; omega
  | succ f ih =>
    intro ds i h
    rw [skipDown]
    by_cases hc : ds.getD i 0 = 0 ∧ 0 < i
    · rw [if_pos hc]; exact ih ds (i - 1) (by omega)
    · rw [if_neg hc]
      by_cases h0 : 0 < i
      · right; intro e; exact hc ⟨e, h0⟩
      · left; omega

theorem shlPass_tight (s : Nat) (A A' : Arr) (h : shlPass s A = some A') (hl : A.lsd < A.digits.length)
    (hlen : A'.digits.length = A.digits.length) : Tight A' := by
  unfold shlPass at h
  simp only at h
  split at h
  · cases h
  · simp only [Option.some.injEq] at h
    rw [← h] at hlen ⊢
    simp only at hlen
    unfold Tight
    simp only
    apply skipDown_stop
    rw [hlen]; exact hl

end CifModel.Lemmas.NumbLimbRefine
