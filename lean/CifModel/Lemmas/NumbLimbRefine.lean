import CifModel.Lemmas.NumbLimbRead
import CifModel.Lemmas.NumbLimbRound
import CifModel.Lemmas.NumbToDouble
import CifModel.Lemmas.NumbShift
import CifModel.Lemmas.NumbWindow
/-
  Limb level of C10, part 5: refinement of to_double — the limb-level run computes what the exact-arithmetic level
  (`toDoubleCore`) computes.
-/
namespace CifModel.Lemmas.NumbLimbRefine
open CifModel.Model.Numb CifModel.Model.NumbLimbs CifModel.Lemmas.NumbLimbPass CifModel.Lemmas.NumbDigits
  CifModel.Lemmas.NumbLimbRead CifModel.Lemmas.NumbToDouble CifModel.Lemmas.NumbShift

/-- weight of the units limb: the array denotes `natOfLimbs digits / Wt` -/
def Wt (A : Arr) (u : Nat) : Nat := Bb ^ (A.digits.length - (u + 1))

/-- the array (with units limb `u`) denotes the fraction `num/den` -/
def Rel (A : Arr) (u num den : Nat) : Prop := natOfLimbs A.digits * den = num * Wt A u

theorem Wt_pos (A : Arr) (u : Nat) : 0 < Wt A u := Nat.pow_pos Bb_pos

theorem Bb_pow (k : Nat) : Bb ^ k = 10 ^ (9 * k) := by rw [Bb_eq, ← Nat.pow_mul]

/-! ### the array after reading -/

theorem replicate_getD (k j : Nat) : (List.replicate k 0).getD j 0 = 0 := by
  apply getD_of_all_zero
  intro x hx
  exact (List.mem_replicate.mp hx).2

theorem initArr_spec (sig2 : List Nat) (units : Nat) (msp lsp : Int) (A0 : Arr) (h : initArr sig2 units msp = some A0)
    (hd : ∀ d ∈ sig2, d ≤ 9) (hlen : (sig2.length : Int) = msp - lsp + 1) (hu : units < BIGNUM_DIGITS) :
    A0.digits.length = BIGNUM_DIGITS ∧ WF A0 ∧ A0.msd ≤ A0.lsd + 1 ∧ A0.lsd < BIGNUM_DIGITS ∧
    Rel A0 units (natOfDigits sig2 * T lsp) (B lsp) := by
  unfold initArr at h
  have hf1 : 1 ≤ firstOf msp := by unfold firstOf DDIG_PER_DIG; split <;> omega
  have hf9 : firstOf msp ≤ 9 := by unfold firstOf DDIG_PER_DIG; split <;> omega
  obtain ⟨pad, hval, hcnt, hpad, hsmall, hex⟩ := readLimbs_spec sig2 (firstOf msp) hf1 hf9 hd
  -- 9·(units − start) + first − 1 = msp
  have hid : 9 * ((units : Int) - startOf units msp) + (firstOf msp : Int) - 1 = msp := by
    unfold startOf firstOf DDIG_PER_DIG
    by_cases hm : msp ≥ 0
    · simp only [hm, if_true]; omega
    · simp only [hm, if_false]; omega
  generalize startOf units msp = startI at *
  generalize firstOf msp = first at *
  generalize readLimbs sig2 first = rl at *
  by_cases hc : startI < 0 ∨ BIGNUM_DIGITS < startI.toNat + rl.1.length + 1
  · rw [if_pos hc] at h; cases h
  · rw [if_neg hc] at h
    simp only [Option.some.injEq] at h
    have hs0 : 0 ≤ startI := by omega
    have hfit : startI.toNat + rl.1.length + 1 ≤ BIGNUM_DIGITS := by omega
    generalize hst : startI.toNat = start at *
    have hstI : startI = (start : Int) := by omega
    unfold BIGNUM_DIGITS at *
    rw [← h]
    have hdlen : (List.replicate start 0 ++ rl.1 ++ List.replicate (337 - start - rl.1.length) 0).length = 337 := by
      simp only [List.length_append, List.length_replicate]; omega
    have hN : natOfLimbs (List.replicate start 0 ++ rl.1 ++ List.replicate (337 - start - rl.1.length) 0)
        = natOfLimbs rl.1 * Bb ^ (337 - start - rl.1.length) := by
      rw [nat_append, nat_append, nat_zeros, nat_zeros, List.length_replicate]; simp
    refine ⟨hdlen, ⟨?_, ?_, ?_⟩, ?_, ?_, ?_⟩
    · intro x hx
      simp only [List.mem_append] at hx
      rcases hx with (hx | hx) | hx
      · rw [(List.mem_replicate.mp hx).2]; exact Bb_pos
      · exact hsmall x hx
      · rw [(List.mem_replicate.mp hx).2]; exact Bb_pos
    · intro j hj
      simp only at hj
      rw [List.append_assoc, getD_append_l _ _ _ (by rw [List.length_replicate]; exact hj)]
      exact replicate_getD _ _
    · intro j hj
      simp only at hj
      have : (List.replicate start 0 ++ rl.1).length ≤ j := by
        simp only [List.length_append, List.length_replicate]
        split at hj <;> omega
      rw [getD_append_r _ _ _ this]
      exact replicate_getD _ _
    · simp only; split <;> omega
    · simp only
      split <;> omega
    · unfold Rel Wt
      simp only
      rw [hdlen, hN, hval]
      unfold T B
      rw [Bb_pow, Bb_pow]
      -- powers of ten on both sides
      have e1 : natOfDigits sig2 * 10 ^ pad * 10 ^ (9 * (337 - start - rl.1.length)) * 10 ^ (-lsp).toNat
          = natOfDigits sig2 * 10 ^ (pad + 9 * (337 - start - rl.1.length) + (-lsp).toNat) := by
        rw [Nat.pow_add, Nat.pow_add]; grind
      have e2 : natOfDigits sig2 * 10 ^ lsp.toNat * 10 ^ (9 * (337 - (units + 1)))
          = natOfDigits sig2 * 10 ^ (lsp.toNat + 9 * (337 - (units + 1))) := by
        rw [Nat.pow_add]; grind
      rw [e1, e2]
      congr 2
      omega


/-! ### two presentations of one fraction -/

theorem div_eq_of_cross (a b c d : Nat) (hb : 0 < b) (hd : 0 < d) (h : a * d = c * b) : a / b = c / d := by
  have hdm : d * (c / d) + c % d = c := Nat.div_add_mod c d
  have hr : c % d < d := Nat.mod_lt _ hd
  generalize c / d = q at *
  generalize c % d = r at *
  apply Nat.div_eq_of_lt_le
  · apply Nat.le_of_mul_le_mul_right (c := d) _ hd
    calc q * b * d = (d * q) * b := by grind
      _ ≤ c * b := Nat.mul_le_mul_right _ (by omega)
      _ = a * d := h.symm
  · apply Nat.lt_of_mul_lt_mul_right (a := d)
    calc a * d = c * b := h
      _ < (d * (q + 1)) * b := Nat.mul_lt_mul_of_pos_right (by rw [Nat.mul_add]; omega) hb
      _ = (q + 1) * b * d := by grind

theorem mod_zero_of_cross (a b c d : Nat) (hb : 0 < b) (hd : 0 < d) (h : a * d = c * b) (h0 : c % d = 0) : a % b = 0 := by
  have hdm : d * (c / d) + c % d = c := Nat.div_add_mod c d
  rw [h0, Nat.add_zero] at hdm
  apply Nat.mod_eq_zero_of_dvd
  refine ⟨c / d, ?_⟩
  apply Nat.eq_of_mul_eq_mul_right hd
  calc a * d = c * b := h
    _ = (d * (c / d)) * b := by rw [hdm]
    _ = b * (c / d) * d := by grind

theorem mod_zero_iff_of_cross (a b c d : Nat) (hb : 0 < b) (hd : 0 < d) (h : a * d = c * b) : a % b = 0 ↔ c % d = 0 :=
  ⟨fun h0 => mod_zero_of_cross c d a b hd hb h.symm h0, fun h0 => mod_zero_of_cross a b c d hb hd h h0⟩

theorem roundToInt_cross (a b c d : Nat) (hb : 0 < b) (hd : 0 < d) (h : a * d = c * b) : roundToInt a b = roundToInt c d := by
  rw [CifModel.Lemmas.NumbRound.roundToInt_eq a b hb, CifModel.Lemmas.NumbRound.roundToInt_eq c d hd]
  exact CifModel.Lemmas.NumbRound.roundHalfEven_cross a b c d hb hd h

/-! ### integer part and fractional limbs of a well-formed array -/

theorem split_units (A : Arr) (u : Nat) (wf : WF A) (hu : u < A.digits.length) :
    natOfLimbs A.digits = natOfLimbs (A.digits.take (u + 1)) * Wt A u + natOfLimbs (A.digits.drop (u + 1)) ∧
    natOfLimbs (A.digits.drop (u + 1)) < Wt A u := by
  have hsplit : A.digits = A.digits.take (u + 1) ++ A.digits.drop (u + 1) := (List.take_append_drop _ _).symm
  have hN := nat_append (A.digits.take (u + 1)) (A.digits.drop (u + 1))
  rw [← hsplit] at hN
  have hlo : natOfLimbs (A.digits.drop (u + 1)) < Bb ^ (A.digits.drop (u + 1)).length :=
    nat_lt _ (fun x hx => wf.small x (List.mem_of_mem_drop hx))
  rw [List.length_drop] at hN hlo
  exact ⟨hN, hlo⟩

theorem floor_units (A : Arr) (u : Nat) (wf : WF A) (hu : u < A.digits.length) :
    natOfLimbs A.digits / Wt A u = natOfLimbs (A.digits.take (u + 1)) ∧
    natOfLimbs A.digits % Wt A u = natOfLimbs (A.digits.drop (u + 1)) := by
  obtain ⟨hN, hlo⟩ := split_units A u wf hu
  have hW := Wt_pos A u
  generalize Wt A u = W at *
  constructor
  · rw [hN, Nat.mul_comm _ W, Nat.mul_add_div hW, Nat.div_eq_of_lt hlo]; simp
  · rw [hN, Nat.mul_comm _ W, Nat.mul_add_mod, Nat.mod_eq_of_lt hlo]

theorem mantissaOf_eq (A : Arr) (u : Nat) (wf : WF A) : mantissaOf A u = natOfLimbs (A.digits.take (u + 1)) := by
  unfold mantissaOf
  by_cases h : A.msd ≤ u + 1
  · have e : u + 1 = A.msd + (u + 1 - A.msd) := by omega
    have : A.digits.take (u + 1) = A.digits.take A.msd ++ (A.digits.drop A.msd).take (u + 1 - A.msd) := by
      conv => lhs; rw [e]
      exact List.take_add
    rw [this, nat_append, all_zero_nat _ (take_zero_of_idx _ _ wf.zlo)]
    simp
  · have h0 : u + 1 - A.msd = 0 := by omega
    rw [h0, List.take_zero]
    have : natOfLimbs (A.digits.take (u + 1)) = 0 := by
      apply all_zero_nat
      apply take_zero_of_idx
      intro j hj
      exact wf.zlo j (by omega)
    rw [this]; rfl

/-- a non-zero limb behind the units limb ⇔ a non-zero fractional part -/
theorem frac_limbs (A : Arr) (u : Nat) (wf : WF A) (hu : u < A.digits.length) (h : natOfLimbs A.digits % Wt A u ≠ 0) :
    u < A.lsd := by
  rw [(floor_units A u wf hu).2] at h
  rcases Nat.lt_or_ge u A.lsd with h1 | h1
  · exact h1
  · exfalso
    apply h
    apply all_zero_nat
    apply drop_zero_of_idx
    intro j hj
    exact wf.zhi j (by omega)

/-- `lsd` sits on a non-zero limb (or at index 0): what the `while (*lsd == 0) lsd -= 1` loops establish -/
def Tight (A : Arr) : Prop := A.lsd = 0 ∨ A.digits.getD A.lsd 0 ≠ 0

theorem tight_frac (A : Arr) (u : Nat) (wf : WF A) (hu : u < A.digits.length) (ht : Tight A) (hl : A.lsd < A.digits.length)
    (h : u < A.lsd) : natOfLimbs A.digits % Wt A u ≠ 0 := by
  rw [(floor_units A u wf hu).2]
  intro h0
  have hall := CifModel.Lemmas.NumbLimbRound.nat_eq_zero _ h0
  rcases ht with h1 | h1
  · omega
  · apply h1
    rw [List.getD_eq_getElem?_getD, List.getElem?_eq_getElem hl]
    simp only [Option.getD_some]
    apply hall
    rw [List.mem_drop_iff_getElem]
    refine ⟨A.lsd - (u + 1), by omega, ?_⟩
    have : u + 1 + (A.lsd - (u + 1)) = A.lsd := by omega
    simp only [this]

theorem skipDown_stop : ∀ (fuel : Nat) (ds : List Nat) (i : Nat), i < fuel →
    skipDown fuel ds i = 0 ∨ ds.getD (skipDown fuel ds i) 0 ≠ 0 := by
  intro fuel
  induction fuel with
  | zero => intro ds i h; omega
  | succ f ih =>
    intro ds i h
    rw [skipDown]
    by_cases hc : ds.getD i 0 = 0 ∧ 0 < i
    · rw [if_pos hc]; exact ih ds (i - 1) (by omega)
    · rw [if_neg hc]
      by_cases h0 : 0 < i
      · right; intro e; exact hc ⟨e, h0⟩
      · left; omega

theorem shlPass_tight (s : Nat) (A A' : Arr) (h : shlPass s A = some A') (hl : A.lsd < A.digits.length)
    (hlen : A'.digits.length = A.digits.length) : Tight A' := by
  unfold shlPass at h
  simp only at h
  split at h
  · cases h
  · simp only [Option.some.injEq] at h
    rw [← h] at hlen ⊢
    simp only at hlen
    unfold Tight
    simp only
    apply skipDown_stop
    rw [hlen]; exact hl


/-! ### the state invariant of the limb-level run -/

/-- a work array in the state the loops of to_double keep it in -/
structure Good (A : Arr) : Prop where
  wf : WF A
  len : A.digits.length = BIGNUM_DIGITS
  lsd : A.lsd < BIGNUM_DIGITS
  ord : A.msd ≤ A.lsd + 1
  pos : natOfLimbs A.digits ≠ 0

theorem nonzero_between (A : Arr) (wf : WF A) (hpos : natOfLimbs A.digits ≠ 0) :
    ∃ j, A.msd ≤ j ∧ j ≤ A.lsd ∧ A.digits.getD j 0 ≠ 0 := by
  obtain ⟨j, hj⟩ := exists_nonzero _ hpos
  refine ⟨j, ?_, ?_, hj⟩
  · rcases Nat.lt_or_ge j A.msd with h | h
    · exact absurd (wf.zlo j h) hj
    · exact h
  · rcases Nat.lt_or_ge A.lsd j with h | h
    · exact absurd (wf.zhi j h) hj
    · exact h

theorem shlPass_good (s : Nat) (A A' : Arr) (h : shlPass s A = some A') (g : Good A) :
    Good A' ∧ natOfLimbs A'.digits = natOfLimbs A.digits * pow2 s ∧ Tight A' := by
  have hl : A.lsd < A.digits.length := by rw [g.len]; exact g.lsd
  obtain ⟨hv, hlen, wf'⟩ := shlPass_spec s A A' h g.wf g.ord hl
  have hpos' : natOfLimbs A'.digits ≠ 0 := by
    rw [hv]
    exact Nat.mul_ne_zero g.pos (Nat.ne_of_gt (Nat.two_pow_pos s))
  have ht := shlPass_tight s A A' h hl hlen
  -- the fields of A'
  have hf : A'.msd ≤ A.msd ∧ A'.lsd = skipDown A'.digits.length A'.digits A.lsd := by
    unfold shlPass at h
    simp only at h
    split at h
    · cases h
    · simp only [Option.some.injEq] at h
      rw [← h]
      simp only
      exact ⟨Nat.sub_le _ _, trivial⟩
  obtain ⟨j, hj1, hj2, hj3⟩ := nonzero_between A' wf' hpos'
  have hsd := skipDown_spec A'.digits.length A'.digits A.lsd
  refine ⟨⟨wf', by rw [hlen]; exact g.len, ?_, ?_, hpos'⟩, hv, ht⟩
  · have := g.lsd
    omega
  · omega

theorem shrPass_good (s : Nat) (A A' : Arr) (h : shrPass 0 s A = some A') (g : Good A) :
    Good A' ∧ natOfLimbs A'.digits * pow2 s = natOfLimbs A.digits := by
  obtain ⟨hv, hlen, wf', hl', hl2⟩ := shrPass_spec 0 s A A' h g.wf g.ord
  have hpos' : natOfLimbs A'.digits ≠ 0 := by
    intro h0
    rw [h0, Nat.zero_mul] at hv
    exact g.pos hv.symm
  have hf : A'.msd = skipUp A'.digits.length A'.digits A.msd := by
    unfold shrPass at h
    simp only at h
    split at h
    · cases h
    · split at h
      · cases h
      · simp only [Option.some.injEq] at h
        rw [← h]
  -- a non-zero limb at or above the old msd: the prefix is still zero
  obtain ⟨j, hj1, hj2, hj3⟩ := nonzero_between A' wf' hpos'
  have hsu := (skipUp_spec A'.digits.length A'.digits A.msd).1
  have hjm : A.msd ≤ j := by omega
  have hle := skipUp_le A'.digits.length A'.digits A.msd j hjm hj3
  refine ⟨⟨wf', by rw [hlen]; exact g.len, by rw [← g.len, ← hlen]; exact hl', ?_, hpos'⟩, hv⟩
  omega

/-! ### ldexp of an exactly doubled integer -/

theorem bitLen_mul_pow (m k : Nat) (hm : m ≠ 0) : bitLen (m * 2 ^ k) = bitLen m + k := by
  obtain ⟨h1, h2⟩ := bitLen_bounds m hm
  have hb1 : 1 ≤ bitLen m := by
    rcases Nat.eq_zero_or_pos (bitLen m) with h | h
    · rw [h] at h2; simp at h2; omega
    · exact h
  have e : bitLen m + k = (bitLen m - 1 + k) + 1 := by omega
  rw [e]
  apply bitLen_of_bounds
  · rw [Nat.pow_add]; exact Nat.mul_le_mul_right _ h1
  · have : bitLen m - 1 + k + 1 = bitLen m + k := by omega
    rw [this, Nat.pow_add]
    exact Nat.mul_lt_mul_of_pos_right h2 (Nat.two_pow_pos k)

theorem ldexp_dbl (neg : Bool) (m k : Nat) (e : Int) (hm : m ≠ 0) (hb : bitLen m + k ≤ 53) (he : -1022 ≤ e - (k : Int)) :
    ldexpNat neg (m * 2 ^ k) (e - (k : Int)) = ldexpNat neg m e := by
  have hb1 : 1 ≤ bitLen m := by
    obtain ⟨_, h2⟩ := bitLen_bounds m hm
    rcases Nat.eq_zero_or_pos (bitLen m) with h | h
    · rw [h] at h2; simp at h2; omega
    · exact h
  have hmk : m * 2 ^ k ≠ 0 := Nat.mul_ne_zero hm (Nat.ne_of_gt (Nat.two_pow_pos k))
  unfold ldexpNat
  simp only [hm, hmk, if_false, bitLen_mul_pow m k hm]
  have e1 : e - (k : Int) + ((bitLen m + k : Nat) : Int) = e + ((bitLen m : Nat) : Int) := by omega
  rw [e1]
  by_cases hinf : e + ((bitLen m : Nat) : Int) > 1024
  · simp only [hinf, if_true]
  · simp only [hinf, if_false]
    have n1 : e + ((bitLen m : Nat) : Int) - 1 ≥ -1022 := by omega
    simp only [n1, if_true]
    have c1 : bitLen m + k ≤ 53 := hb
    have c2 : bitLen m ≤ 53 := by omega
    simp only [c1, c2, if_true]
    unfold pow2
    have p1 : m * 2 ^ k * 2 ^ (53 - (bitLen m + k)) = m * 2 ^ (53 - bitLen m) := by
      rw [Nat.mul_assoc, ← Nat.pow_add]
      congr 2
      omega
    rw [p1]
    congr 1
    omega


/-! ### the mantissa loop and the rounding: limb level against exact level -/

theorem rel_cross (A : Arr) (u num den : Nat) (h : Rel A u num den) : natOfLimbs A.digits * den = num * Wt A u := h

theorem floor_agree (A : Arr) (u num den : Nat) (g : Good A) (hu : u < BIGNUM_DIGITS) (hden : 0 < den) (h : Rel A u num den) :
    mantissaOf A u = num / den := by
  rw [mantissaOf_eq A u g.wf, ← (floor_units A u g.wf (by rw [g.len]; exact hu)).1]
  exact div_eq_of_cross _ _ _ _ (Wt_pos A u) hden h

theorem frac_agree (A : Arr) (u num den : Nat) (hden : 0 < den) (h : Rel A u num den) :
    natOfLimbs A.digits % Wt A u = 0 ↔ num % den = 0 :=
  mod_zero_iff_of_cross _ _ _ _ (Wt_pos A u) hden h

/-- rounding, carry and ldexp agree -/
theorem finish_agree (A : Arr) (u num den : Nat) (e : Int) (g : Good A) (hu : u < BIGNUM_DIGITS) (hden : 0 < den)
    (h : Rel A u num den) : finishL A u e = finish num den e := by
  have hlen : u < A.digits.length := by rw [g.len]; exact hu
  have hr : roundToIntLimbs A.digits (mantissaOf A u) u A.lsd = roundToInt num den := by
    rw [mantissaOf_eq A u g.wf,
      CifModel.Lemmas.NumbLimbRound.roundToIntLimbs_eq A.digits u A.lsd g.wf.small g.wf.zhi (by rw [g.len]; exact g.lsd) hlen]
    exact roundToInt_cross _ _ _ _ (Wt_pos A u) hden h
  unfold finishL finish
  rw [hr]

theorem finish_exact_val (num den : Nat) (e : Int) (hden : 0 < den) (h0 : num % den = 0) (hM : num / den < 2 ^ 53) :
    finish num den e = ldexpNat false (num / den) e := by
  unfold finish
  have : roundToInt num den = num / den := by
    rw [CifModel.Lemmas.NumbRound.roundToInt_eq num den hden]
    exact roundHalfEven_exact num den hden h0
  rw [this]
  have : ¬ (pow2 53 - 1 < num / den) := by unfold pow2; omega
  simp only [this, if_false]

/-- from a tight state the two loops take the same decisions -/
theorem mant_sim_tight (u : Nat) (hu : u < BIGNUM_DIGITS) : ∀ (fuel : Nat) (A : Arr) (e : Int) (num den : Nat) (m : Arr × Int),
    Good A → Tight A → 0 < den → Rel A u num den → mantLoopL fuel A u e = some m →
    finishL m.1 u m.2 = finish (mantLoop fuel num den e).1 den (mantLoop fuel num den e).2 := by
  intro fuel
  induction fuel with
  | zero =>
    intro A e num den m g _ hden hrel hm
    simp only [mantLoopL, Option.some.injEq] at hm
    rw [← hm]
    simp only [mantLoop]
    exact finish_agree A u num den e g hu hden hrel
  | succ f ih =>
    intro A e num den m g ht hden hrel hm
    have hlen : u < A.digits.length := by rw [g.len]; exact hu
    have hfl := floor_agree A u num den g hu hden hrel
    have hfr := frac_agree A u num den hden hrel
    -- tight: a limb behind the units limb ⇔ a fractional part
    have hiff : A.lsd ≤ u ↔ num % den = 0 := by
      constructor
      · intro hle
        apply hfr.mp
        apply Classical.byContradiction
        intro hne
        have := frac_limbs A u g.wf hlen hne
        omega
      · intro h0
        rcases Nat.lt_or_ge u A.lsd with h1 | h1
        · exact absurd (hfr.mpr h0) (tight_frac A u g.wf hlen ht (by rw [g.len]; exact g.lsd) h1)
        · exact h1
    rw [mantLoopL] at hm
    rw [mantLoop]
    rw [hfl] at hm
    by_cases hc : pow2 52 ≤ num / den ∨ num % den = 0
    · have hcL : pow2 52 ≤ num / den ∨ A.lsd ≤ u := by
        rcases hc with h | h
        · exact Or.inl h
        · exact Or.inr (hiff.mpr h)
      rw [if_pos hcL] at hm
      rw [if_pos hc]
      simp only [Option.some.injEq] at hm
      rw [← hm]
      exact finish_agree A u num den e g hu hden hrel
    · have hcL : ¬ (pow2 52 ≤ num / den ∨ A.lsd ≤ u) := by
        intro h
        rcases h with h | h
        · exact hc (Or.inl h)
        · exact hc (Or.inr (hiff.mp h))
      rw [if_neg hcL] at hm
      rw [if_neg hc]
      cases hp : shlPass 1 A with
      | none => rw [hp] at hm; cases hm
      | some A' =>
        rw [hp] at hm
        simp only at hm
        obtain ⟨g', hv, ht'⟩ := shlPass_good 1 A A' hp g
        have hrel' : Rel A' u (num * 2) den := by
          unfold Rel Wt at *
          rw [g'.len, hv]
          rw [g.len] at hrel
          unfold pow2
          calc natOfLimbs A.digits * 2 ^ 1 * den = (natOfLimbs A.digits * den) * 2 := by grind
            _ = num * Bb ^ (BIGNUM_DIGITS - (u + 1)) * 2 := by rw [hrel]
            _ = num * 2 * Bb ^ (BIGNUM_DIGITS - (u + 1)) := by grind
        exact ih A' (e - 1) (num * 2) den m g' ht' hden hrel' hm


theorem rel_double (A A' : Arr) (u num den : Nat) (g : Good A) (g' : Good A') (hrel : Rel A u num den) (k : Nat)
    (hv : natOfLimbs A'.digits = natOfLimbs A.digits * pow2 k) : Rel A' u (num * 2 ^ k) den := by
  unfold Rel Wt at *
  rw [g'.len, hv]
  rw [g.len] at hrel
  unfold pow2
  calc natOfLimbs A.digits * 2 ^ k * den = (natOfLimbs A.digits * den) * 2 ^ k := by grind
    _ = num * Bb ^ (BIGNUM_DIGITS - (u + 1)) * 2 ^ k := by rw [hrel]
    _ = num * 2 ^ k * Bb ^ (BIGNUM_DIGITS - (u + 1)) := by grind

theorem num_pos_of_rel (A : Arr) (u num den : Nat) (g : Good A) (hden : 0 < den) (hrel : Rel A u num den) : 0 < num := by
  rcases Nat.eq_zero_or_pos num with h | h
  · exfalso
    unfold Rel at hrel
    rw [h, Nat.zero_mul] at hrel
    rcases Nat.mul_eq_zero.mp hrel with h1 | h1
    · exact g.pos h1
    · omega
  · exact h

theorem bitLen_le_of_lt (M k : Nat) (hM : M ≠ 0) (h : M < 2 ^ k) : bitLen M ≤ k := by
  obtain ⟨h1, _⟩ := bitLen_bounds M hM
  have : 2 ^ (bitLen M - 1) < 2 ^ k := Nat.lt_of_le_of_lt h1 h
  have := (Nat.pow_lt_pow_iff_right (by decide : 1 < 2)).mp this
  omega

/-- the mantissa loop from any state the scaling leaves (possibly with `lsd` on a zero limb, then `e ≥ 0`) -/
theorem mant_sim (u : Nat) (hu : u < BIGNUM_DIGITS) (f : Nat) (A : Arr) (e : Int) (num den : Nat) (m : Arr × Int)
    (g : Good A) (he : 0 ≤ e) (hden : 0 < den) (hrel : Rel A u num den) (hm : mantLoopL (f + 2) A u e = some m) :
    finishL m.1 u m.2 = finish (mantLoop (f + 2) num den e).1 den (mantLoop (f + 2) num den e).2 := by
  have hlen : u < A.digits.length := by rw [g.len]; exact hu
  have hfl := floor_agree A u num den g hu hden hrel
  have hfr := frac_agree A u num den hden hrel
  have himp : A.lsd ≤ u → num % den = 0 := by
    intro hle
    apply hfr.mp
    apply Classical.byContradiction
    intro hne
    have := frac_limbs A u g.wf hlen hne
    omega
  rw [mantLoopL] at hm
  rw [mantLoop]
  rw [hfl] at hm
  by_cases hc : pow2 52 ≤ num / den ∨ num % den = 0
  · rw [if_pos hc]
    by_cases hcL : pow2 52 ≤ num / den ∨ A.lsd ≤ u
    · rw [if_pos hcL] at hm
      simp only [Option.some.injEq] at hm
      rw [← hm]
      exact finish_agree A u num den e g hu hden hrel
    · -- `lsd` on a zero limb behind the units limb: one exact doubling more than the exact level
      rw [if_neg hcL] at hm
      have hM52 : num / den < 2 ^ 52 := by
        have : ¬ (pow2 52 ≤ num / den) := fun h => hcL (Or.inl h)
        unfold pow2 at this; omega
      have h0 : num % den = 0 := by
        rcases hc with h | h
        · unfold pow2 at h; omega
        · exact h
      cases hp : shlPass 1 A with
      | none => rw [hp] at hm; cases hm
      | some A' =>
        rw [hp] at hm
        simp only at hm
        obtain ⟨g', hv, ht'⟩ := shlPass_good 1 A A' hp g
        have hrel' := rel_double A A' u num den g g' hrel 1 hv
        have hsim := mant_sim_tight u hu (f + 1) A' (e - 1) (num * 2 ^ 1) den m g' ht' hden hrel' hm
        rw [hsim]
        have hnum : num = den * (num / den) := by
          have := Nat.div_add_mod num den
          rw [h0, Nat.add_zero] at this
          exact this.symm
        have h0' : num * 2 ^ 1 % den = 0 := by
          rw [hnum, Nat.mul_assoc]; exact Nat.mul_mod_right _ _
        have hdiv' : num * 2 ^ 1 / den = num / den * 2 ^ 1 := by
          conv => lhs; rw [hnum]
          rw [Nat.mul_assoc, Nat.mul_div_cancel_left _ hden]
        rw [mantLoop, if_pos (Or.inr h0')]
        rw [finish_exact_val _ den _ hden h0' (by rw [hdiv']; omega),
          finish_exact_val num den e hden h0 (by omega), hdiv']
        have hMne : num / den ≠ 0 := by
          intro hz
          have hnp := num_pos_of_rel A u num den g hden hrel
          rw [hz, Nat.mul_zero] at hnum
          omega
        have := ldexp_dbl false (num / den) 1 e hMne (by have := bitLen_le_of_lt _ 52 hMne hM52; omega) (by omega)
        exact this
  · rw [if_neg hc]
    have hcL : ¬ (pow2 52 ≤ num / den ∨ A.lsd ≤ u) := by
      intro h
      rcases h with h | h
      · exact hc (Or.inl h)
      · exact hc (Or.inr (himp h))
    rw [if_neg hcL] at hm
    cases hp : shlPass 1 A with
    | none => rw [hp] at hm; cases hm
    | some A' =>
      rw [hp] at hm
      simp only at hm
      obtain ⟨g', hv, ht'⟩ := shlPass_good 1 A A' hp g
      have hrel' := rel_double A A' u num den g g' hrel 1 hv
      have hsim := mant_sim_tight u hu (f + 1) A' (e - 1) (num * 2 ^ 1) den m g' ht' hden hrel' hm
      rw [hsim]


/-! ### the scaling loops -/

theorem shrLoop_spec (rs : Int) : ∀ (fuel : Nat) (A : Arr) (e : Int) (r : Arr × Int), Good A → e ≤ rs →
    rs - e ≤ 28 * (fuel : Int) → shrLoop fuel A e rs = some r →
    r.2 = rs ∧ Good r.1 ∧ natOfLimbs r.1.digits * 2 ^ (rs - e).toNat = natOfLimbs A.digits := by
  intro fuel
  induction fuel with
  | zero =>
    intro A e r g h1 h2 h
    simp only [shrLoop, Option.some.injEq] at h
    rw [← h]
    have : (rs - e).toNat = 0 := by omega
    rw [this]
    exact ⟨by simp only; omega, g, by simp⟩
  | succ f ih =>
    intro A e r g h1 h2 h
    rw [shrLoop] at h
    by_cases hc : e < rs
    · rw [if_pos hc] at h
      cases hp : shrPass 0 (min BDIG_PER_DIG (rs - e).toNat) A with
      | none => rw [hp] at h; cases h
      | some A' =>
        rw [hp] at h
        simp only at h
        obtain ⟨g', hv⟩ := shrPass_good _ A A' hp g
        have hsh : ((min BDIG_PER_DIG (rs - e).toNat : Nat) : Int) ≤ rs - e := by
          have : min BDIG_PER_DIG (rs - e).toNat ≤ (rs - e).toNat := Nat.min_le_right _ _
          omega
        have hsh2 : min BDIG_PER_DIG (rs - e).toNat = 28 ∨ ((min BDIG_PER_DIG (rs - e).toNat : Nat) : Int) = rs - e := by
          unfold BDIG_PER_DIG
          rcases Nat.le_total 28 (rs - e).toNat with h | h
          · left; exact Nat.min_eq_left h
          · right; rw [Nat.min_eq_right h]; omega
        generalize min BDIG_PER_DIG (rs - e).toNat = sh at *
        obtain ⟨a1, a2, a3⟩ := ih A' (e + (sh : Int)) r g' (by omega) (by rcases hsh2 with h | h <;> omega) h
        refine ⟨a1, a2, ?_⟩
        have : (rs - e).toNat = (rs - (e + (sh : Int))).toNat + sh := by omega
        rw [this, Nat.pow_add, ← Nat.mul_assoc, a3]
        exact hv
    · rw [if_neg hc] at h
      simp only [Option.some.injEq] at h
      rw [← h]
      have : (rs - e).toNat = 0 := by omega
      rw [this]
      exact ⟨by simp only; omega, g, by simp⟩

/-- from a tight state the left-shift loops of the two levels run in lock step -/
theorem shl_sim_tight (u : Nat) (hu : u < BIGNUM_DIGITS) (den : Nat) (hden : 0 < den) (rs : Int) :
    ∀ (fuel : Nat) (A : Arr) (e : Int) (num : Nat) (r : Arr × Int), Good A → Tight A → Rel A u num den →
    shlLoopL fuel A u e rs = some r →
    Good r.1 ∧ Tight r.1 ∧ Rel r.1 u (shlLoop fuel num den e rs).1 den ∧ r.2 = (shlLoop fuel num den e rs).2 := by
  intro fuel
  induction fuel with
  | zero =>
    intro A e num r g ht hrel h
    simp only [shlLoopL, Option.some.injEq] at h
    rw [← h]
    exact ⟨g, ht, hrel, rfl⟩
  | succ f ih =>
    intro A e num r g ht hrel h
    have hlen : u < A.digits.length := by rw [g.len]; exact hu
    have hfr := frac_agree A u num den hden hrel
    have hiff : u < A.lsd ↔ num % den ≠ 0 := by
      constructor
      · intro h1 h0
        exact tight_frac A u g.wf hlen ht (by rw [g.len]; exact g.lsd) h1 (hfr.mpr h0)
      · intro hne
        exact frac_limbs A u g.wf hlen (fun h0 => hne (hfr.mp h0))
    rw [shlLoopL] at h
    rw [shlLoop]
    by_cases hc : rs < e ∧ num % den ≠ 0
    · have hcL : rs < e ∧ u < A.lsd := ⟨hc.1, hiff.mpr hc.2⟩
      rw [if_pos hcL] at h
      rw [if_pos hc]
      cases hp : shlPass (min BDIG_PER_DIG (e - rs).toNat) A with
      | none => rw [hp] at h; cases h
      | some A' =>
        rw [hp] at h
        simp only at h
        obtain ⟨g', hv, ht'⟩ := shlPass_good _ A A' hp g
        have hrel' := rel_double A A' u num den g g' hrel _ hv
        exact ih A' _ (num * pow2 (min BDIG_PER_DIG (e - rs).toNat)) r g' ht' hrel' h
    · have hcL : ¬ (rs < e ∧ u < A.lsd) := fun hh => hc ⟨hh.1, hiff.mp hh.2⟩
      rw [if_neg hcL] at h
      rw [if_neg hc]
      simp only [Option.some.injEq] at h
      rw [← h]
      exact ⟨g, ht, hrel, rfl⟩


/-! ### the whole run after the digits have been read -/

/-- what the exact level computes from the same fraction and the same shift estimate -/
def coreB (num0 den0 : Nat) (rs : Int) : Dbl :=
  finish (mantLoop 64 (scaleStep num0 den0 rs).1 (scaleStep num0 den0 rs).2.1 (scaleStep num0 den0 rs).2.2).1
    (scaleStep num0 den0 rs).2.1
    (mantLoop 64 (scaleStep num0 den0 rs).1 (scaleStep num0 den0 rs).2.1 (scaleStep num0 den0 rs).2.2).2

theorem mantLoop_exit (fuel num den : Nat) (e : Int) (h0 : num % den = 0) : mantLoop (fuel + 1) num den e = (num, e) := by
  rw [mantLoop, if_pos (Or.inr h0)]

theorem limbRun_refines (A0 : Arr) (u : Nat) (rs : Int) (num0 den0 : Nat) (d : Dbl)
    (g : Good A0) (hu : u < BIGNUM_DIGITS) (hden : 0 < den0) (hrel : Rel A0 u num0 den0)
    (hrs1 : -1792 ≤ rs) (hrs2 : rs ≤ 1792) (Hhi : num0 * Q rs < den0 * P rs * 2 ^ 53)
    (h : limbRun A0 u rs = some d) : d = coreB num0 den0 rs := by
  unfold limbRun scaleL at h
  unfold coreB scaleStep
  by_cases hpos : 0 < rs
  · -- right shifts
    rw [if_pos hpos] at h
    rw [if_pos hpos]
    cases hs : shrLoop 64 A0 0 rs with
    | none => rw [hs] at h; cases h
    | some r =>
      rw [hs] at h
      simp only at h
      obtain ⟨a1, g1, a3⟩ := shrLoop_spec rs 64 A0 0 r g (by omega) (by omega) hs
      cases hm : mantLoopL 64 r.1 u r.2 with
      | none => rw [hm] at h; cases h
      | some m =>
        rw [hm] at h
        simp only [Option.some.injEq] at h
        rw [← h]
        have hrel1 : Rel r.1 u num0 (den0 * pow2 rs.toNat) := by
          unfold Rel Wt at *
          rw [g1.len]
          rw [g.len] at hrel
          have e0 : (rs - 0).toNat = rs.toNat := by simp
          rw [e0] at a3
          unfold pow2
          calc natOfLimbs r.1.digits * (den0 * 2 ^ rs.toNat) = (natOfLimbs r.1.digits * 2 ^ rs.toNat) * den0 := by grind
            _ = natOfLimbs A0.digits * den0 := by rw [a3]
            _ = num0 * Bb ^ (BIGNUM_DIGITS - (u + 1)) := hrel
        rw [a1] at hm
        exact mant_sim u hu 62 r.1 rs num0 (den0 * pow2 rs.toNat) m g1 (by omega)
          (Nat.mul_pos hden (Nat.two_pow_pos _)) hrel1 hm
  · rw [if_neg hpos] at h
    rw [if_neg hpos]
    by_cases hneg : rs < 0
    · -- left shifts
      rw [if_pos hneg] at h
      rw [if_pos hneg]
      simp only
      cases hs : shlLoopL 64 A0 u 0 rs with
      | none => rw [hs] at h; cases h
      | some r =>
        rw [hs] at h
        simp only at h
        cases hm : mantLoopL 64 r.1 u r.2 with
        | none => rw [hm] at h; cases h
        | some m =>
          rw [hm] at h
          simp only [Option.some.injEq] at h
          rw [← h]
          have hlen : u < A0.digits.length := by rw [g.len]; exact hu
          have hfr := frac_agree A0 u num0 den0 hden hrel
          by_cases hfb : num0 % den0 ≠ 0
          · -- a fractional part: both levels shift; afterwards `lsd` is tight
            have hfl : u < A0.lsd := frac_limbs A0 u g.wf hlen (fun h0 => hfb (hfr.mp h0))
            rw [show (64 : Nat) = 63 + 1 from rfl, shlLoopL, if_pos ⟨hneg, hfl⟩] at hs
            cases hp : shlPass (min BDIG_PER_DIG (0 - rs).toNat) A0 with
            | none => rw [hp] at hs; cases hs
            | some A' =>
              rw [hp] at hs
              simp only at hs
              obtain ⟨g', hv, ht'⟩ := shlPass_good _ A0 A' hp g
              have hrel' := rel_double A0 A' u num0 den0 g g' hrel _ hv
              obtain ⟨b1, b2, b3, b4⟩ := shl_sim_tight u hu den0 hden rs 63 A' _ _ r g' ht' hrel' hs
              have hB : shlLoop 64 num0 den0 0 rs = shlLoop 63 (num0 * pow2 (min BDIG_PER_DIG (0 - rs).toNat)) den0
                  (0 - ((min BDIG_PER_DIG (0 - rs).toNat : Nat) : Int)) rs := by
                rw [show (64 : Nat) = 63 + 1 from rfl, shlLoop, if_pos ⟨hneg, hfb⟩]
              rw [hB]
              rw [b4] at hm
              exact mant_sim_tight u hu 64 r.1 _ _ den0 m b1 b2 hden b3 hm
          · have h0 : num0 % den0 = 0 := by
              rcases Nat.eq_zero_or_pos (num0 % den0) with hh | hh
              · exact hh
              · exact absurd (Nat.ne_of_gt hh) hfb
            have hB : shlLoop 64 num0 den0 0 rs = (num0, 0) := by
              rw [show (64 : Nat) = 63 + 1 from rfl, shlLoop]
              have : ¬ (rs < 0 ∧ num0 % den0 ≠ 0) := fun hh => hh.2 h0
              rw [if_neg this]
            rw [hB]
            simp only
            by_cases hfl : u < A0.lsd
            · -- `lsd` on a zero limb: the limb level shifts an integer once
              rw [show (64 : Nat) = 63 + 1 from rfl, shlLoopL, if_pos ⟨hneg, hfl⟩] at hs
              cases hp : shlPass (min BDIG_PER_DIG (0 - rs).toNat) A0 with
              | none => rw [hp] at hs; cases hs
              | some A' =>
                rw [hp] at hs
                simp only at hs
                obtain ⟨g', hv, ht'⟩ := shlPass_good _ A0 A' hp g
                have hrel' := rel_double A0 A' u num0 den0 g g' hrel _ hv
                have hshle : min BDIG_PER_DIG (0 - rs).toNat ≤ 28 := Nat.min_le_left _ _
                have hshle2 : min BDIG_PER_DIG (0 - rs).toNat ≤ (-rs).toNat := by
                  have : (0 - rs).toNat = (-rs).toNat := by congr 1; omega
                  rw [← this]; exact Nat.min_le_right _ _
                generalize hshd : min BDIG_PER_DIG (0 - rs).toNat = sh at *
                obtain ⟨b1, b2, b3, b4⟩ := shl_sim_tight u hu den0 hden rs 63 A' _ _ r g' ht' hrel' hs
                have hnum : num0 = den0 * (num0 / den0) := by
                  have := Nat.div_add_mod num0 den0
                  rw [h0, Nat.add_zero] at this
                  exact this.symm
                have h0' : num0 * 2 ^ sh % den0 = 0 := by
                  rw [hnum, Nat.mul_assoc]; exact Nat.mul_mod_right _ _
                have hdiv' : num0 * 2 ^ sh / den0 = num0 / den0 * 2 ^ sh := by
                  conv => lhs; rw [hnum]
                  rw [Nat.mul_assoc, Nat.mul_div_cancel_left _ hden]
                have hBs : shlLoop 63 (num0 * 2 ^ sh) den0 (0 - (sh : Int)) rs = (num0 * 2 ^ sh, 0 - (sh : Int)) := by
                  rw [show (63 : Nat) = 62 + 1 from rfl, shlLoop]
                  have : ¬ (rs < 0 - (sh : Int) ∧ num0 * 2 ^ sh % den0 ≠ 0) := fun hh => hh.2 h0'
                  rw [if_neg this]
                rw [hBs] at b3 b4
                simp only at b3 b4
                rw [b4] at hm
                have hsim := mant_sim_tight u hu 64 r.1 _ _ den0 m b1 b2 hden b3 hm
                rw [hsim, show (64 : Nat) = 63 + 1 from rfl, mantLoop_exit _ _ _ _ h0', mantLoop_exit _ _ _ _ h0]
                -- M·2^sh < 2^53
                have hMlt : num0 / den0 * 2 ^ (-rs).toNat < 2 ^ 53 := by
                  rw [Q_nonpos_P rs (by omega)] at Hhi
                  have hq : Q rs = 2 ^ (-rs).toNat := rfl
                  rw [hq, Nat.mul_one] at Hhi
                  apply Nat.lt_of_mul_lt_mul_left (a := den0)
                  calc den0 * (num0 / den0 * 2 ^ (-rs).toNat) = (den0 * (num0 / den0)) * 2 ^ (-rs).toNat := by grind
                    _ = num0 * 2 ^ (-rs).toNat := by rw [← hnum]
                    _ < den0 * 2 ^ 53 := Hhi
                have hMsh : num0 / den0 * 2 ^ sh < 2 ^ 53 := by
                  have : 2 ^ sh ≤ 2 ^ (-rs).toNat := Nat.pow_le_pow_right (by decide) hshle2
                  have := Nat.mul_le_mul_left (num0 / den0) this
                  omega
                have hMne : num0 / den0 ≠ 0 := by
                  intro hz
                  have hnp := num_pos_of_rel A0 u num0 den0 g hden hrel
                  rw [hz, Nat.mul_zero] at hnum
                  omega
                rw [finish_exact_val _ den0 _ hden h0' (by rw [hdiv']; exact hMsh),
                  finish_exact_val num0 den0 0 hden h0 (by
                    have : num0 / den0 * 1 ≤ num0 / den0 * 2 ^ sh := Nat.mul_le_mul_left _ (Nat.two_pow_pos sh)
                    omega), hdiv']
                have hbl : bitLen (num0 / den0) + sh ≤ 53 := by
                  rw [← bitLen_mul_pow _ _ hMne]
                  exact bitLen_le_of_lt _ 53 (Nat.mul_ne_zero hMne (Nat.ne_of_gt (Nat.two_pow_pos sh))) hMsh
                exact ldexp_dbl false (num0 / den0) sh 0 hMne hbl (by omega)
            · -- no shift at either level
              rw [show (64 : Nat) = 63 + 1 from rfl, shlLoopL] at hs
              have : ¬ (rs < 0 ∧ u < A0.lsd) := fun hh => hfl hh.2
              rw [if_neg this] at hs
              simp only [Option.some.injEq] at hs
              rw [← hs] at hm
              exact mant_sim u hu 62 A0 0 num0 den0 m g (by omega) hden hrel hm
    · -- no scaling
      rw [if_neg hneg] at h
      rw [if_neg hneg]
      simp only at h ⊢
      cases hm : mantLoopL 64 A0 u 0 with
      | none => rw [hm] at h; cases h
      | some m =>
        rw [hm] at h
        simp only [Option.some.injEq] at h
        rw [← h]
        exact mant_sim u hu 62 A0 0 num0 den0 m g (by omega) hden hrel hm


/-! ### bounds on the shift estimates -/

theorem ten309_le : (10 : Nat) ^ 309 ≤ 2 ^ 1700 := by decide +kernel

theorem flog2_high (un ud : Nat) (hun : 0 < un) (hud : 0 < ud) (hb : un ≤ 2 ^ 1700 * ud) : flog2Rat un ud ≤ 1700 := by
  obtain ⟨s1, _⟩ := flog2Rat_spec un ud hun hud
  generalize flog2Rat un ud = k at *
  by_cases hk : 1700 < k
  · exfalso
    rw [P_nonneg_Q k (by omega), Nat.mul_one] at s1
    have hP : 2 ^ 1701 ≤ P k := by
      unfold P
      exact Nat.pow_le_pow_right (by decide) (by omega)
    have h1 : 2 ^ 1701 * ud ≤ P k * ud := Nat.mul_le_mul_right _ hP
    have h2 : (2 : Nat) ^ 1701 = 2 * 2 ^ 1700 := by rw [Nat.pow_succ, Nat.mul_comm]
    rw [h2] at h1
    have h3 : 2 * 2 ^ 1700 * ud = 2 * (2 ^ 1700 * ud) := by grind
    have h4 : 0 < 2 ^ 1700 * ud := Nat.mul_pos (Nat.two_pow_pos _) hud
    omega
  · omega

/-- the bignum part of to_double: limb level = exact level -/
theorem limbTail_refines (d0 : Nat) (rest : List Nat) (msp lsp : Int) (d : Dbl)
    (hd0 : 1 ≤ d0) (hdig : ∀ x ∈ d0 :: rest, x ≤ 9) (hlen : ((d0 :: rest).length : Int) = msp - lsp + 1)
    (hm1 : msp ≤ 308) (hm2 : -322 < msp)
    (h : limbTail (d0 :: rest) msp d0 = some d) :
    d = toDoubleCore (natOfDigits (d0 :: rest) * T lsp) (B lsp) ((d0 + 1) * T msp) (B msp) := by
  unfold limbTail at h
  simp only at h
  rw [num_uniform, num_uniform, den_uniform] at h
  have hmsp : msp = lsp + (rest.length : Int) := by simp only [List.length_cons] at hlen; omega
  -- the value and the estimate
  have hN := natOfDigits_cons d0 rest
  have hrl := natOfDigits_lt rest (fun x hx => hdig x (by simp [hx]))
  have h1 : d0 * 10 ^ rest.length ≤ natOfDigits (d0 :: rest) := by omega
  have h2 : natOfDigits (d0 :: rest) < (d0 + 1) * 10 ^ rest.length := by
    have : (d0 + 1) * 10 ^ rest.length = d0 * 10 ^ rest.length + 10 ^ rest.length := by grind
    omega
  have hNpos : 0 < natOfDigits (d0 :: rest) := by
    have : 1 * 1 ≤ d0 * 10 ^ rest.length := Nat.mul_le_mul hd0 (Nat.pow_pos (by decide))
    omega
  obtain ⟨e1, e2⟩ := estimate_bounds (natOfDigits (d0 :: rest)) d0 rest.length lsp hd0 h1 h2
  rw [← hmsp] at e1 e2
  have hnum0 : 0 < natOfDigits (d0 :: rest) * T lsp := Nat.mul_pos hNpos (T_pos _)
  have hun : 0 < (d0 + 1) * T msp := Nat.mul_pos (by omega) (T_pos _)
  have hun' : 0 < d0 * T msp := Nat.mul_pos (by omega) (T_pos _)
  have hudle : B msp ≤ 2 ^ 1700 := by
    refine Nat.le_trans ?_ ten321_le
    unfold B
    exact Nat.pow_le_pow_right (by decide) (by omega)
  have hunle : (d0 + 1) * T msp ≤ 2 ^ 1700 * B msp := by
    have hd9 : d0 ≤ 9 := hdig d0 (by simp)
    have hT : T msp ≤ 10 ^ 308 := by unfold T; exact Nat.pow_le_pow_right (by decide) (by omega)
    have : (d0 + 1) * T msp ≤ 10 * 10 ^ 308 := Nat.mul_le_mul (by omega) hT
    have e309 : (10 : Nat) * 10 ^ 308 = 10 ^ 309 := by rw [Nat.mul_comm, ← Nat.pow_succ]
    have hb : 2 ^ 1700 * 1 ≤ 2 ^ 1700 * B msp := Nat.mul_le_mul_left _ (B_pos msp)
    have := ten309_le
    omega
  have hlo1 := flog2_low _ _ hun (B_pos msp) hudle
  have hlo2 := flog2_low _ _ hun' (B_pos msp) hudle
  have hhi1 := flog2_high _ _ hun (B_pos msp) hunle
  obtain ⟨_, Hhi⟩ := rsMax_bounds _ _ _ _ hnum0 (B_pos lsp) hun (B_pos msp) e1 e2
  rw [toDoubleCore_eq]
  generalize hrsMax : 1 + flog2Rat ((d0 + 1) * T msp) (B msp) - ((DBL_MANT_DIG : Nat) : Int) = rsMax at *
  generalize hrsMin : 1 + flog2Rat (d0 * T msp) (B msp) - ((DBL_MANT_DIG : Nat) : Int) = rsMin at *
  have hr1 : -1792 ≤ rsMax := by unfold DBL_MANT_DIG at hrsMax; omega
  have hr2 : rsMax ≤ 1792 := by unfold DBL_MANT_DIG at hrsMax; omega
  have hr3 : -1792 ≤ rsMin := by unfold DBL_MANT_DIG at hrsMin; omega
  have hu : unitsOf msp rsMin rsMax < BIGNUM_DIGITS := by
    unfold unitsOf BIGNUM_DIGITS DDIG_PER_DIG
    split
    · omega
    · split <;> omega
  generalize unitsOf msp rsMin rsMax = u at *
  cases hA : initArr (d0 :: rest) u msp with
  | none => rw [hA] at h; cases h
  | some A0 =>
    rw [hA] at h
    simp only at h
    obtain ⟨a1, a2, a3, a4, a5⟩ := initArr_spec (d0 :: rest) u msp lsp A0 hA hdig hlen hu
    have g : Good A0 := by
      refine ⟨a2, a1, a4, a3, ?_⟩
      intro h0
      unfold Rel at a5
      rw [h0, Nat.zero_mul] at a5
      have := Nat.mul_pos hnum0 (Wt_pos A0 u)
      omega
    exact limbRun_refines A0 u rsMax _ _ d g hu (B_pos lsp) a5 hr1 hr2 Hhi h


/-! ### to_double: limb level = exact level -/

/-- **toDoubleLimbs refines toDoubleBig** (∀ digit strings with digits ≤ 9, ∀ scales): whenever the limb-level run
    stays inside its work array, it returns what the exact-arithmetic level returns -/
theorem toDoubleLimbs_refines (ds0 : List Nat) (scale : Int) (d : Dbl) (hdig : ∀ x ∈ ds0, x ≤ 9)
    (h : toDoubleLimbs ds0 scale = some d) : d = toDoubleBig ds0 scale := by
  unfold toDoubleLimbs at h
  unfold toDoubleBig
  simp only at h ⊢
  rcases CifModel.Lemmas.NumbWindow.dropWhile_zero_head ds0 with h0 | ⟨d0, r, h0, hd0⟩
  · rw [h0] at h ⊢
    simp only [if_true, Option.some.injEq] at h ⊢
    exact h.symm
  · rw [h0] at h ⊢
    have hne : ¬ (d0 :: r = []) := by simp
    simp only [hne, if_false] at h ⊢
    have hdig1 : ∀ x ∈ d0 :: r, x ≤ 9 :=
      fun x hx => hdig x (CifModel.Lemmas.NumbWindow.mem_dropWhile _ ds0 x (by rw [h0]; exact hx))
    obtain ⟨r', t, hsig, hdec, _⟩ := CifModel.Lemmas.NumbWindow.trail_decomp d0 r hd0
    rw [hsig] at h ⊢
    have hlenr : r.length = r'.length + t := by
      have := congrArg List.length hdec
      simp only [List.length_cons, List.length_append, List.length_replicate] at this
      omega
    have hdig2 : ∀ x ∈ d0 :: r', x ≤ 9 := by
      intro x hx
      apply hdig1 x
      rw [hdec]; exact List.mem_append_left _ hx
    simp only [List.length_cons, List.headD_cons] at h ⊢
    generalize hmsp : -scale + ((r.length + 1 - 1 : Nat) : Int) = msp at *
    generalize hlsp1 : -scale + ((r.length + 1 - (r'.length + 1) : Nat) : Int) = lsp1 at *
    by_cases hhi : msp > DBL_MAX_10_EXP
    · simp only [hhi, if_true, Option.some.injEq] at h ⊢
      exact h.symm
    · simp only [hhi, if_false] at h ⊢
      by_cases hlo : msp ≤ DBL_MIN_10_EXP - ((DBL_DIG : Nat) : Int)
      · simp only [hlo, if_true, Option.some.injEq] at h ⊢
        exact h.symm
      · simp only [hlo, if_false] at h ⊢
        have hm1 : msp ≤ 308 := by unfold DBL_MAX_10_EXP at hhi; omega
        have hm2 : -322 < msp := by unfold DBL_MIN_10_EXP DBL_DIG at hlo; omega
        rw [num_uniform, den_uniform, num_uniform, den_uniform]
        by_cases hlong : msp - lsp1 ≥ ((CIF_LINE_LENGTH : Nat) : Int)
        · -- truncated to a line's worth of digits
          simp only [hlong, decide_true, if_true] at h ⊢
          have htk : (d0 :: r').take CIF_LINE_LENGTH = d0 :: r'.take (CIF_LINE_LENGTH - 1) := by
            unfold CIF_LINE_LENGTH; rfl
          rw [htk] at h ⊢
          apply limbTail_refines d0 (r'.take (CIF_LINE_LENGTH - 1)) msp (1 + msp - ((CIF_LINE_LENGTH : Nat) : Int)) d (by omega)
            (fun x hx => hdig2 x (by
              rw [List.mem_cons] at hx ⊢
              rcases hx with e | e
              · exact Or.inl e
              · exact Or.inr (List.mem_of_mem_take e))) _ hm1 hm2 h
          simp only [List.length_cons, List.length_take]
          unfold CIF_LINE_LENGTH at hlong ⊢
          omega
        · simp only [hlong, decide_false, Bool.false_eq_true, if_false] at h ⊢
          apply limbTail_refines d0 r' msp lsp1 d (by omega) hdig2 _ hm1 hm2 h
          simp only [List.length_cons]
          omega

end CifModel.Lemmas.NumbLimbRefine
