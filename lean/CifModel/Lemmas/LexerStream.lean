import CifModel.Lemmas.LexerAccept
/-
  Lemmas/LexerStream — next_token as a whole and the token stream.
-/
namespace CifModel.Model.Lexer
open CifModel CifModel.Model.Chars CifModel.Spec.Lexical

/-- next_token in terms of the loop -/
theorem nextToken_eq (dia : Dialect) (s : Scan) (pol : Policy) (log : List Report) :
    nextToken dia s pol log =
      match tokLoop dia (s.rest.length + 1) (afterWsOf s.lastType) ⟨s.rest, s.line, s.col⟩ pol log with
      | .ok (t, p) l => .ok (t, ⟨p.rest, p.line, p.col, t.ty⟩) l
      | .abort rv l => .abort rv l := by
  simp only [nextToken, bind_eq, pure_eq, L.bind]
  cases tokLoop dia (s.rest.length + 1) (afterWsOf s.lastType) ⟨s.rest, s.line, s.col⟩ pol log with
  | ok a l => obtain ⟨t, p⟩ := a; rfl
  | abort rv l => rfl

theorem nextToken_ok_inv {dia : Dialect} {s s' : Scan} {pol : Policy} {log log' : List Report} {t : Tok}
    (h : nextToken dia s pol log = .ok (t, s') log') :
    ∃ p : Pos, tokLoop dia (s.rest.length + 1) (afterWsOf s.lastType) ⟨s.rest, s.line, s.col⟩ pol log = .ok (t, p) log'
      ∧ s' = ⟨p.rest, p.line, p.col, t.ty⟩ := by
  rw [nextToken_eq] at h
  cases hl : tokLoop dia (s.rest.length + 1) (afterWsOf s.lastType) ⟨s.rest, s.line, s.col⟩ pol log with
  | abort rv l => rw [hl] at h; cases h
  | ok a l =>
    obtain ⟨t1, p⟩ := a
    rw [hl] at h
    simp only [Res.ok.injEq, Prod.mk.injEq] at h
    obtain ⟨⟨h1, h2⟩, h3⟩ := h
    subst h1; subst h3
    exact ⟨p, rfl, h2.symm⟩

/-- everything one call of next_token guarantees (any policy, input without CR) -/
theorem nextToken_inv {dia : Dialect} {s s' : Scan} {pol : Policy} {log log' : List Report} {t : Tok}
    (hcr : noCR s.rest) (h : nextToken dia s pol log = .ok (t, s') log') :
    Inv log s.line s.col false s.rest = Inv log' s'.line s'.col false s'.rest ∧ noCR s'.rest
    ∧ t.line = s'.line ∧ t.col = s'.col ∧ s'.lastType = t.ty
    ∧ ((t.ty = .end_ ∧ s'.rest = [] ∧ t.text = []) ∨ (t.ty ≠ .end_ ∧ t.ty ≠ .error ∧ s'.rest.length < s.rest.length)) := by
  obtain ⟨p, hl, hs⟩ := nextToken_ok_inv h
  subst hs
  obtain ⟨h1, h2, h3, h4⟩ := tokLoop_inv dia pol _ _ _ _ _ _ _ hcr hl
  have h5 := tokLoop_progress dia pol _ _ _ _ _ _ _ (by simp) hl
  exact ⟨h1, h2, h3, h4, rfl, h5⟩

/-- under accept-all the token stream runs to END; the conserved quantity links the initial state to the END token -/
theorem tokensLoop_accept (dia : Dialect) : ∀ (fuel : Nat) (s : Scan) (toks : List Tok) (log : List Report),
    noCR s.rest → s.rest.length < fuel →
    ∃ ts t log', tokensLoop dia acceptAll fuel s toks log = (toks.reverse ++ ts ++ [t], 0, log')
      ∧ t.ty = .end_ ∧ t.text = [] ∧ (∀ x ∈ ts, x.ty ≠ .end_ ∧ x.ty ≠ .error)
      ∧ Inv log s.line s.col false s.rest = Inv log' t.line t.col false [] := by
  intro fuel
  induction fuel with
  | zero => intro s toks log _ h; omega
  | succ fuel ih =>
    intro s toks log hcr hf
    obtain ⟨a, l1, hn⟩ := (nextToken_noabort dia s).run log
    obtain ⟨t, s'⟩ := a
    obtain ⟨h1, h2, h3, h4, _, h5⟩ := nextToken_inv hcr hn
    simp only [tokensLoop, hn]
    by_cases hend : t.ty = .end_
    · rw [if_pos hend]
      rcases h5 with ⟨_, h6, h7⟩ | ⟨h6, _, _⟩
      · refine ⟨[], t, l1, by simp, hend, h7, by simp, ?_⟩
        rw [h1, h3, h4, h6]
      · exact absurd hend h6
    · rw [if_neg hend]
      rcases h5 with ⟨h6, _, _⟩ | ⟨_, h7, h8⟩
      · exact absurd h6 hend
      · obtain ⟨ts, te, l2, e1, e2, e3, e4, e5⟩ := ih s' (t :: toks) l1 h2 (by omega)
        refine ⟨t :: ts, te, l2, ?_, e2, e3, ?_, h1.trans e5⟩
        · rw [e1]; simp
        · intro x hx
          rcases List.mem_cons.mp hx with e | e
          · rw [e]; exact ⟨hend, h7⟩
          · exact e4 x e

/-- `tokLoop` when the first iteration yields a token -/
theorem tokLoop_tok {dia : Dialect} {f : Nat} {aw : Bool} {c : Nat} {r : Str} {line col : Nat} {pol : Policy}
    {log log' : List Report} {t : Tok} {p : Pos} (h : stepTok dia aw c r line col pol log = .ok (.tok t p) log') :
    tokLoop dia (f + 1) aw ⟨c :: r, line, col⟩ pol log = .ok (t, p) log' := by
  rw [tokLoop_cons, L.bind_ok h]; rfl

/-- the scanner states (with their logs) that a sequence of next_token calls can reach from the start of `input` -/
inductive Reach (dia : Dialect) (pol : Policy) (input : Str) : Scan → List Report → Prop
  | init : Reach dia pol input (Scan.init input) []
  | step {s s' : Scan} {log log' : List Report} {t : Tok} :
      Reach dia pol input s log → nextToken dia s pol log = .ok (t, s') log' → Reach dia pol input s' log'

theorem reach_inv {dia : Dialect} {pol : Policy} {input : Str} (hcr : noCR input) {s : Scan} {log : List Report}
    (h : Reach dia pol input s log) : Inv [] 1 0 false input = Inv log s.line s.col false s.rest ∧ noCR s.rest := by
  induction h with
  | init => exact ⟨rfl, hcr⟩
  | step _ hn ih =>
    obtain ⟨h1, h2, _⟩ := nextToken_inv ih.2 hn
    exact ⟨ih.1.trans h1, h2⟩

end CifModel.Model.Lexer
