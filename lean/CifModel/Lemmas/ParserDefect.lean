import CifModel.Lemmas.ParserStructure
/-
  Lemmas/ParserDefect — planted defects at the token level: one defective construct inside a run of well-formed items of a
  container (data block or save frame — any `View`), under the accept-all callback: exactly one report with the class's code,
  at the scanner line reached with the following token, and the content the documented recovery prescribes, the items before
  and behind the defect being parsed as if nothing had happened.
-/
set_option linter.unusedSimpArgs false

namespace CifModel.Model.Parser
open CifModel CifModel.Model CifModel.Model.Lexer CifModel.Spec.Grammar CifModel.Spec.Lexical
open CifModel.Gen.ErrCodes

theorem denoteItems_append (dia : Dialect) (nk : Str → Str) : ∀ (a b : List Item) (ls : List Loop),
    denoteItems dia nk (a ++ b) ls = denoteItems dia nk b (denoteItems dia nk a ls)
  | [], b, ls => rfl
  | .item n v :: r, b, ls => by simp only [List.cons_append, denoteItems]; exact denoteItems_append dia nk r b _
  | .loop ns ps :: r, b, ls => by simp only [List.cons_append, denoteItems]; exact denoteItems_append dia nk r b _

theorem report_accept (code : Code) (line col : Nat) (w : W) :
    report code line col acceptAll w = .ok () { w with log := ⟨code, line, col⟩ :: w.log } :=
  report_zero code line col acceptAll w rfl

/-! ### missing value: a data name that is not followed by a value — a synthetic unknown value -/

theorem missing_value_step (o : Opts) {path : Path} {put : Container → Cif} {code : Str} (hv : View o path put code)
    (n : Str) (ty : TokType) (tx : Str) (ts : List TokSpec) (s : PS) (fuel : Nat) (w : W) (fs : List Container) (ls : List Loop)
    (isBlock : Bool) (hcif : w.cif = put (.mk code fs ls)) (hname : wfName n = true) (hfresh : o.norm n ∉ normNames o ls)
    (hterm : isTerminator ty = true) (hF : Feeds o s ((.name, n) :: (ty, tx) :: ts)) :
    ∃ s' r, elemsLoop o (fuel + 1) s (some path) isBlock acceptAll w
        = elemsLoop o fuel s' (some path) isBlock acceptAll
            { log := r :: w.log, cif := put (.mk code fs (denoteItems o.dia o.normKey [.item n .unk] ls)) }
      ∧ r.code = CIF_MISSING_VALUE ∧ (∃ t, s'.tok = some t ∧ t.ty = ty ∧ t.text = tx ∧ r.line = s'.scan.line)
      ∧ Feeds o s' ((ty, tx) :: ts) := by
  simp only [wfName, Bool.and_eq_true] at hname
  obtain ⟨t, s1, hty, htx, hn, _, hr⟩ := hF.inv
  obtain ⟨t2, s2, hty2, htx2, hn2, ht2, hr2⟩ := hr.inv
  simp only [isTerminator, Bool.not_eq_true', Bool.or_eq_false_iff] at hterm
  refine ⟨s2, ⟨CIF_MISSING_VALUE, s2.scan.line, s2.scan.col - t2.text.length⟩, ?_, rfl, ⟨t2, ht2, hty2, htx2, rfl⟩,
    by rw [← hty2, ← htx2]; exact Feeds.pending ht2 hr2⟩
  conv => lhs; rw [elemsLoop]
  simp only [bind_eq, pure_eq, P.bind, P.pure, hn, hty, htx, cstr_noNul hname.2,
    itemExists_false o hv n fs ls acceptAll w hcif hname.1 hfresh, Bool.false_eq_true, if_false, hname.1, Bool.not_true, and_false]
  unfold parseItem
  simp only [bind_eq, pure_eq, P.bind, P.pure, hn2, hty2, hterm.1.1.1, hterm.1.1.2, Bool.false_eq_true, if_false, report_accept]
  rw [setValue_new o hv n .unk fs ls acceptAll
    ⟨⟨CIF_MISSING_VALUE, s2.scan.line, s2.scan.col - t2.text.length⟩ :: w.log, w.cif⟩ hcif hname.1 hfresh]
  simp [denoteItems, denoteVal]

/-- **missing value, universally**: any well-formed run `pre`, the name without value, any well-formed run `post` -/
theorem missing_value_run (o : Opts) {path : Path} {put : Container → Cif} {code : Str} (hv : View o path put code)
    (pre post : List Item) (n : Str) (seen seen2 : List Str) (rest : List TokSpec) (s : PS) (fuel : Nat) (w : W)
    (fs : List Container) (ls : List Loop) (isBlock : Bool) (hcif : w.cif = put (.mk code fs ls))
    (hpre : wfItems o pre seen = true) (hseen : ∀ k ∈ normNames o ls, k ∈ seen)
    (hname : wfName n = true) (hfresh : o.norm n ∉ normNames o (denoteItems o.dia o.normKey pre ls))
    (hpost : wfItems o post seen2 = true)
    (hseen2 : ∀ k ∈ normNames o (denoteItems o.dia o.normKey (pre ++ [.item n .unk]) ls), k ∈ seen2)
    (hfuel : szItems pre + szItems post + 1 ≤ fuel)
    (hpostne : post ≠ [] ∨ ∃ ty tx ts, rest = (ty, tx) :: ts ∧ isTerminator ty = true)
    (hrest : lastIsLoop post = true → ∃ ty tx ts, rest = (ty, tx) :: ts ∧ isTerminator ty = true)
    (hF : Feeds o s (itemsToks pre ++ ((.name, n) :: (itemsToks post ++ rest)))) :
    ∃ s' r, elemsLoop o (fuel + post.length + 1 + pre.length) s (some path) isBlock acceptAll w
        = elemsLoop o fuel s' (some path) isBlock acceptAll
            { log := r :: w.log, cif := put (.mk code fs (denoteItems o.dia o.normKey (pre ++ [.item n .unk] ++ post) ls)) }
      ∧ r.code = CIF_MISSING_VALUE ∧ Feeds o s' rest := by
  -- the token behind the name ends the (missing) value
  have hnext : ∃ ty tx ts, itemsToks post ++ rest = (ty, tx) :: ts ∧ isTerminator ty = true := by
    cases post with
    | nil =>
      rcases hpostne with h | h
      · exact absurd rfl h
      · simpa [itemsToks] using h
    | cons i r =>
      obtain ⟨ty, tx, ts, h, ht⟩ := itemToks_head i
      exact ⟨ty, tx, ts ++ (itemsToks r ++ rest), by simp [itemsToks, h], ht⟩
  obtain ⟨ty, tx, ts, hnx, hterm⟩ := hnext
  obtain ⟨s1, h1, h2⟩ := items_structure o hv pre seen _ s (fuel + post.length + 1) acceptAll w fs ls isBlock hcif hpre hseen
    (by omega) (fun _ => ⟨_, _, _, rfl, rfl⟩) hF
  rw [hnx] at h2
  obtain ⟨s2, r, h3, hr, _, h4⟩ := missing_value_step o hv n ty tx ts s1 (fuel + post.length)
    { w with cif := put (.mk code fs (denoteItems o.dia o.normKey pre ls)) } fs _ isBlock rfl hname hfresh hterm h2
  rw [← hnx] at h4
  obtain ⟨s3, h5, h6⟩ := items_structure o hv post seen2 rest s2 fuel acceptAll
    { log := r :: w.log, cif := put (.mk code fs (denoteItems o.dia o.normKey [.item n .unk] (denoteItems o.dia o.normKey pre ls))) }
    fs _ isBlock rfl hpost (by simpa [denoteItems_append] using hseen2) (by omega) hrest h4
  refine ⟨s3, r, ?_, hr, h6⟩
  rw [h1]
  have e : fuel + post.length + 1 = fuel + post.length + 1 := rfl
  rw [h3, h5]
  simp [denoteItems_append, denoteItems]


/-! ### the generic composition: well-formed run, ONE defective construct, well-formed run -/

/-- `D` = the tokens of the defective construct, `recover` = what the documented recovery makes of the loops of the container,
    `C` = the documented code; `hstep` = the behaviour of ONE iteration of the element loop on the construct -/
theorem defect_run (o : Opts) {path : Path} {put : Container → Cif} {code : Str} (hv : View o path put code)
    (pre post : List Item) (D : List TokSpec) (recover : List Loop → List Loop) (C : Code) (need : Nat)
    (seen seen2 : List Str) (rest : List TokSpec) (s : PS) (fuel : Nat) (w : W) (fs : List Container) (ls : List Loop) (isBlock : Bool)
    (hcif : w.cif = put (.mk code fs ls)) (hpre : wfItems o pre seen = true) (hseen : ∀ k ∈ normNames o ls, k ∈ seen)
    (hpost : wfItems o post seen2 = true)
    (hseen2 : ∀ k ∈ normNames o (recover (denoteItems o.dia o.normKey pre ls)), k ∈ seen2)
    (hstep : ∀ (s1 : PS) (w1 : W) (f : Nat), w1.cif = put (.mk code fs (denoteItems o.dia o.normKey pre ls)) → need ≤ f →
      Feeds o s1 (D ++ (itemsToks post ++ rest)) →
      ∃ s2 r, elemsLoop o (f + 1) s1 (some path) isBlock acceptAll w1
          = elemsLoop o f s2 (some path) isBlock acceptAll
              { log := r :: w1.log, cif := put (.mk code fs (recover (denoteItems o.dia o.normKey pre ls))) }
        ∧ r.code = C ∧ Feeds o s2 (itemsToks post ++ rest))
    (hfuel : szItems pre + szItems post + need + 1 ≤ fuel)
    (hpreTerm : lastIsLoop pre = true → ∃ ty tx ts, D ++ (itemsToks post ++ rest) = (ty, tx) :: ts ∧ isTerminator ty = true)
    (hrest : lastIsLoop post = true → ∃ ty tx ts, rest = (ty, tx) :: ts ∧ isTerminator ty = true)
    (hF : Feeds o s (itemsToks pre ++ (D ++ (itemsToks post ++ rest)))) :
    ∃ s' r, elemsLoop o (fuel + post.length + 1 + pre.length) s (some path) isBlock acceptAll w
        = elemsLoop o fuel s' (some path) isBlock acceptAll
            { log := r :: w.log, cif := put (.mk code fs (denoteItems o.dia o.normKey post (recover (denoteItems o.dia o.normKey pre ls)))) }
      ∧ r.code = C ∧ Feeds o s' rest := by
  obtain ⟨s1, h1, h2⟩ := items_structure o hv pre seen _ s (fuel + post.length + 1) acceptAll w fs ls isBlock hcif hpre hseen
    (by omega) hpreTerm hF
  obtain ⟨s2, r, h3, hr, h4⟩ := hstep s1 { w with cif := put (.mk code fs (denoteItems o.dia o.normKey pre ls)) } (fuel + post.length)
    rfl (by omega) h2
  obtain ⟨s3, h5, h6⟩ := items_structure o hv post seen2 rest s2 fuel acceptAll
    { log := r :: w.log, cif := put (.mk code fs (recover (denoteItems o.dia o.normKey pre ls))) } fs _ isBlock rfl hpost hseen2
    (by omega) hrest h4
  exact ⟨s3, r, by rw [h1, h3, h5], hr, h6⟩

/-! ### unexpected value: a value where a data name, keyword or header is expected — it is parsed and ignored -/

theorem unexpected_value_step (o : Opts) {path : Path} (v : Val) (next : List TokSpec) (s : PS) (fuel : Nat) (w : W) (isBlock : Bool)
    (hwv : wfVal o v = true) (hfuel : szVal v ≤ fuel) (hF : Feeds o s (valToks v ++ next)) :
    ∃ s' r, elemsLoop o (fuel + 1) s (some path) isBlock acceptAll w
        = elemsLoop o fuel s' (some path) isBlock acceptAll { w with log := r :: w.log }
      ∧ r.code = CIF_UNEXPECTED_VALUE ∧ Feeds o s' next := by
  obtain ⟨ty, tx, ts, hvt, hstart, hkey⟩ := valToks_head v
  have hF' := hF
  rw [hvt, List.cons_append] at hF'
  obtain ⟨t, s1, hty, htx, hn, ht, hr⟩ := hF'.inv
  have hpend : Feeds o s1 (valToks v ++ next) := by
    rw [hvt, List.cons_append, ← hty, ← htx]; exact Feeds.pending ht hr
  let r0 : Report := ⟨CIF_UNEXPECTED_VALUE, s1.scan.line, 1 + s1.scan.col - t.text.length⟩
  obtain ⟨s2, h1, h2⟩ := value_structure o v next s1 fuel acceptAll { w with log := r0 :: w.log } hwv hfuel hpend
  have hn1 := nextTok_pending o s1 t ht
  have hitem : parseItem o fuel s1 (some path) none acceptAll { w with log := r0 :: w.log } = .ok s2 { w with log := r0 :: w.log } := by
    unfold parseItem
    simp only [bind_eq, pure_eq, P.bind, P.pure, hn1, hty, hkey, hstart, if_true, Bool.false_eq_true, if_false, h1]
  refine ⟨s2, r0, ?_, rfl, h2⟩
  conv => lhs; rw [elemsLoop]
  cases ty <;> simp [isValueStart] at hstart <;>
    simp only [bind_eq, pure_eq, P.bind, P.pure, hn, hty, report_accept, hitem, r0]

/-! ### duplicate data name: the item is parsed and dropped -/

theorem itemExists_true (o : Opts) {path : Path} {put : Container → Cif} {code : Str} (hv : View o path put code)
    (n : Str) (fs : List Container) (ls : List Loop) (pol : Policy) (w : W) (hcif : w.cif = put (.mk code fs ls))
    (hvalid : isValidName true n = true) (hdup : o.norm n ∈ normNames o ls) :
    itemExists o path n pol w = .ok true w := by
  unfold itemExists
  simp only [hvalid, Bool.not_true, Bool.false_eq_true, if_false, bind_eq, pure_eq, P.bind, P.pure, getCif, hcif, hv.get,
    (hasItem_iff o code fs ls _).mpr hdup]

theorem dup_name_step (o : Opts) {path : Path} {put : Container → Cif} {code : Str} (hv : View o path put code)
    (n : Str) (v : Val) (next : List TokSpec) (s : PS) (fuel : Nat) (w : W) (fs : List Container) (ls : List Loop) (isBlock : Bool)
    (hcif : w.cif = put (.mk code fs ls)) (hname : wfName n = true) (hdup : o.norm n ∈ normNames o ls)
    (hwv : wfVal o v = true) (hfuel : szVal v ≤ fuel) (hF : Feeds o s ((.name, n) :: (valToks v ++ next))) :
    ∃ s' r, elemsLoop o (fuel + 1) s (some path) isBlock acceptAll w
        = elemsLoop o fuel s' (some path) isBlock acceptAll { log := r :: w.log, cif := put (.mk code fs ls) }
      ∧ r.code = CIF_DUP_ITEMNAME ∧ Feeds o s' next := by
  simp only [wfName, Bool.and_eq_true] at hname
  obtain ⟨t, s1, hty, htx, hn, _, hr⟩ := hF.inv
  obtain ⟨ty2, tx2, ts2, hvt, hstart, hkey⟩ := valToks_head v
  have hr' := hr
  rw [hvt, List.cons_append] at hr'
  obtain ⟨t2, s2, hty2, htx2, hn2, ht2, hr2⟩ := hr'.inv
  have hpend : Feeds o s2 (valToks v ++ next) := by
    rw [hvt, List.cons_append, ← hty2, ← htx2]; exact Feeds.pending ht2 hr2
  let r0 : Report := ⟨CIF_DUP_ITEMNAME, (consume s1).scan.line, (consume s1).scan.col⟩
  obtain ⟨s3, h1, h2⟩ := value_structure o v next s2 fuel acceptAll { w with log := r0 :: w.log } hwv hfuel hpend
  have hitem : parseItem o fuel (consume s1) (some path) none acceptAll { w with log := r0 :: w.log } = .ok s3 { w with log := r0 :: w.log } := by
    unfold parseItem
    simp only [bind_eq, pure_eq, P.bind, P.pure, hn2, hty2, hkey, hstart, if_true, Bool.false_eq_true, if_false, h1]
  refine ⟨s3, r0, ?_, rfl, h2⟩
  rw [← hcif]
  conv => lhs; rw [elemsLoop]
  simp only [bind_eq, pure_eq, P.bind, P.pure, hn, hty, htx, cstr_noNul hname.2,
    itemExists_true o hv n fs ls acceptAll w hcif hname.1 hdup, if_true, report_accept, hitem, r0]


/-! ### empty loop: a loop header that is not followed by any value — the (packet-less) loop is accepted -/

theorem empty_loop_step (o : Opts) {path : Path} {put : Container → Cif} {code : Str} (hv : View o path put code)
    (ns : List Str) (ty : TokType) (tx : Str) (ts : List TokSpec) (s : PS) (fuel : Nat) (w : W) (fs : List Container) (ls : List Loop)
    (isBlock : Bool) (hcif : w.cif = put (.mk code fs ls)) (hns : ns ≠ []) (hwf : ∀ n ∈ ns, wfName n = true)
    (hfresh : ∀ n ∈ ns, o.norm n ∉ normNames o ls) (hnd : (ns.map o.norm).Nodup) (hfuel : ns.length + 2 ≤ fuel)
    (hterm : isTerminator ty = true) (hnn : ty ≠ .name)
    (hF : Feeds o s ((.loopKw, []) :: (ns.map (fun n => (TokType.name, n)) ++ (ty, tx) :: ts))) :
    ∃ s' r, elemsLoop o (fuel + 1) s (some path) isBlock acceptAll w
        = elemsLoop o fuel s' (some path) isBlock acceptAll { log := r :: w.log, cif := put (.mk code fs (ls ++ [mkLoop ns []])) }
      ∧ r.code = CIF_EMPTY_LOOP ∧ Feeds o s' ((ty, tx) :: ts) := by
  obtain ⟨t, s1, hty, _, hn, _, hr⟩ := hF.inv
  obtain ⟨s2, h1, h2⟩ := header_structure o hv fs ls ns [] ((ty, tx) :: ts) (consume s1) fuel acceptAll w hcif hwf hfresh
    (by simpa using hnd) (by omega) ⟨ty, tx, ts, rfl, hnn⟩ hr
  simp only [List.nil_append, List.map_nil] at h1
  obtain ⟨t3, s3, hty3, htx3, hn3, ht3, hr3⟩ := h2.inv
  obtain ⟨g, hg⟩ : ∃ g, fuel = g + 1 := ⟨fuel - 1, by omega⟩
  simp only [isTerminator, Bool.not_eq_true', Bool.or_eq_false_iff, beq_eq_false_iff_ne, ne_eq] at hterm
  have hvalid : ns.any (fun n => !isValidName true n) = false := by
    rw [List.any_eq_false]
    intro n hn'
    have := hwf n hn'
    simp only [wfName, Bool.and_eq_true] at this
    simp [this.1]
  have hclash : ns.any (fun n => hasItem o.norm (.mk code fs ls) (o.norm n)) = false := by
    rw [List.any_eq_false]
    intro n hn'
    simp [hasItem_false o code fs ls _ (hfresh n hn')]
  have hempty : (ns.map some).isEmpty = false := by
    cases ns with
    | nil => exact absurd rfl hns
    | cons a r => rfl
  have hnsE : ns.isEmpty = false := by
    cases ns with
    | nil => exact absurd rfl hns
    | cons a r => rfl
  refine ⟨s3, ⟨CIF_EMPTY_LOOP, s3.scan.line, s3.scan.col - t3.text.length⟩, ?_, rfl,
    by rw [← hty3, ← htx3]; exact Feeds.pending ht3 hr3⟩
  conv => lhs; rw [elemsLoop]
  simp only [bind_eq, pure_eq, P.bind, P.pure, hn, hty]
  unfold parseLoop
  simp only [bind_eq, pure_eq, P.bind, P.pure, h1, hempty, Bool.false_eq_true, if_false, filterMap_map_some, hnsE, hvalid,
    getCif, setCif, hcif, hv.get, hv.upd, hclash, hasDup_false _ hnd, Bool.or_false, Container.code, Container.frames,
    Container.loops]
  conv => lhs; rw [hg, packetsLoop]
  simp [bind_eq, pure_eq, P.bind, P.pure, hn3, hty3, hterm.1.1.1, hterm.1.1.2, hterm.1.2, hterm.2, report_accept, mkLoop, hg]


/-! ### the classes, universally over the surrounding runs -/

theorem unexpected_value_run (o : Opts) {path : Path} {put : Container → Cif} {code : Str} (hv : View o path put code)
    (pre post : List Item) (v : Val) (seen seen2 : List Str) (rest : List TokSpec) (s : PS) (fuel : Nat) (w : W)
    (fs : List Container) (ls : List Loop) (isBlock : Bool) (hcif : w.cif = put (.mk code fs ls))
    (hpre : wfItems o pre seen = true) (hseen : ∀ k ∈ normNames o ls, k ∈ seen) (hnoloop : lastIsLoop pre = false)
    (hwv : wfVal o v = true) (hpost : wfItems o post seen2 = true)
    (hseen2 : ∀ k ∈ normNames o (denoteItems o.dia o.normKey pre ls), k ∈ seen2)
    (hfuel : szItems pre + szItems post + szVal v + 1 ≤ fuel)
    (hrest : lastIsLoop post = true → ∃ ty tx ts, rest = (ty, tx) :: ts ∧ isTerminator ty = true)
    (hF : Feeds o s (itemsToks pre ++ (valToks v ++ (itemsToks post ++ rest)))) :
    ∃ s' r, elemsLoop o (fuel + post.length + 1 + pre.length) s (some path) isBlock acceptAll w
        = elemsLoop o fuel s' (some path) isBlock acceptAll
            { log := r :: w.log, cif := put (.mk code fs (denoteItems o.dia o.normKey (pre ++ post) ls)) }
      ∧ r.code = CIF_UNEXPECTED_VALUE ∧ Feeds o s' rest := by
  have := defect_run o hv pre post (valToks v) id CIF_UNEXPECTED_VALUE (szVal v) seen seen2 rest s fuel w fs ls isBlock hcif hpre hseen
    hpost hseen2
    (by
      intro s1 w1 f hc hf hF1
      obtain ⟨s2, r, h1, h2, h3⟩ := unexpected_value_step o (path := path) v _ s1 f w1 isBlock hwv hf hF1
      refine ⟨s2, r, ?_, h2, h3⟩
      rw [h1]; simp only [id]; rw [← hc])
    hfuel (by intro h; rw [hnoloop] at h; cases h) hrest hF
  simpa [denoteItems_append] using this

theorem dup_name_run (o : Opts) {path : Path} {put : Container → Cif} {code : Str} (hv : View o path put code)
    (pre post : List Item) (n : Str) (v : Val) (seen seen2 : List Str) (rest : List TokSpec) (s : PS) (fuel : Nat) (w : W)
    (fs : List Container) (ls : List Loop) (isBlock : Bool) (hcif : w.cif = put (.mk code fs ls))
    (hpre : wfItems o pre seen = true) (hseen : ∀ k ∈ normNames o ls, k ∈ seen)
    (hname : wfName n = true) (hdup : o.norm n ∈ normNames o (denoteItems o.dia o.normKey pre ls))
    (hwv : wfVal o v = true) (hpost : wfItems o post seen2 = true)
    (hseen2 : ∀ k ∈ normNames o (denoteItems o.dia o.normKey pre ls), k ∈ seen2)
    (hfuel : szItems pre + szItems post + szVal v + 1 ≤ fuel)
    (hrest : lastIsLoop post = true → ∃ ty tx ts, rest = (ty, tx) :: ts ∧ isTerminator ty = true)
    (hF : Feeds o s (itemsToks pre ++ (((.name, n) :: valToks v) ++ (itemsToks post ++ rest)))) :
    ∃ s' r, elemsLoop o (fuel + post.length + 1 + pre.length) s (some path) isBlock acceptAll w
        = elemsLoop o fuel s' (some path) isBlock acceptAll
            { log := r :: w.log, cif := put (.mk code fs (denoteItems o.dia o.normKey (pre ++ post) ls)) }
      ∧ r.code = CIF_DUP_ITEMNAME ∧ Feeds o s' rest := by
  have := defect_run o hv pre post ((.name, n) :: valToks v) id CIF_DUP_ITEMNAME (szVal v) seen seen2 rest s fuel w fs ls isBlock hcif hpre
    hseen hpost hseen2
    (by
      intro s1 w1 f hc hf hF1
      simp only [List.cons_append, List.append_assoc] at hF1
      exact dup_name_step o hv n v _ s1 f w1 fs _ isBlock hc hname hdup hwv hf hF1)
    hfuel (fun _ => ⟨_, _, _, rfl, rfl⟩) hrest hF
  simpa [denoteItems_append] using this

theorem empty_loop_run (o : Opts) {path : Path} {put : Container → Cif} {code : Str} (hv : View o path put code)
    (pre post : List Item) (ns : List Str) (seen seen2 : List Str) (rest : List TokSpec) (s : PS) (fuel : Nat) (w : W)
    (fs : List Container) (ls : List Loop) (isBlock : Bool) (hcif : w.cif = put (.mk code fs ls))
    (hpre : wfItems o pre seen = true) (hseen : ∀ k ∈ normNames o ls, k ∈ seen)
    (hns : ns ≠ []) (hwf : ∀ n ∈ ns, wfName n = true)
    (hfresh : ∀ n ∈ ns, o.norm n ∉ normNames o (denoteItems o.dia o.normKey pre ls)) (hnd : (ns.map o.norm).Nodup)
    (hpost : wfItems o post seen2 = true)
    (hseen2 : ∀ k ∈ normNames o (denoteItems o.dia o.normKey pre ls ++ [mkLoop ns []]), k ∈ seen2)
    (hfuel : szItems pre + szItems post + (ns.length + 2) + 1 ≤ fuel)
    (hnext : ∃ ty tx ts, itemsToks post ++ rest = (ty, tx) :: ts ∧ isTerminator ty = true ∧ ty ≠ .name)
    (hrest : lastIsLoop post = true → ∃ ty tx ts, rest = (ty, tx) :: ts ∧ isTerminator ty = true)
    (hF : Feeds o s (itemsToks pre ++ (((.loopKw, []) :: ns.map (fun n => (TokType.name, n))) ++ (itemsToks post ++ rest)))) :
    ∃ s' r, elemsLoop o (fuel + post.length + 1 + pre.length) s (some path) isBlock acceptAll w
        = elemsLoop o fuel s' (some path) isBlock acceptAll
            { log := r :: w.log,
              cif := put (.mk code fs (denoteItems o.dia o.normKey post (denoteItems o.dia o.normKey pre ls ++ [mkLoop ns []]))) }
      ∧ r.code = CIF_EMPTY_LOOP ∧ Feeds o s' rest := by
  obtain ⟨ty, tx, ts, hnx, hterm, hnn⟩ := hnext
  exact defect_run o hv pre post ((.loopKw, []) :: ns.map (fun n => (TokType.name, n))) (fun l => l ++ [mkLoop ns []]) CIF_EMPTY_LOOP
    (ns.length + 2) seen seen2 rest s fuel w fs ls isBlock hcif hpre hseen hpost hseen2
    (by
      intro s1 w1 f hc hf hF1
      rw [hnx] at hF1 ⊢
      simp only [List.cons_append, List.append_assoc] at hF1
      exact empty_loop_step o hv ns ty tx ts s1 f w1 fs _ isBlock hc hns hwf hfresh hnd hf hterm hnn hF1)
    hfuel (fun _ => ⟨_, _, _, rfl, rfl⟩) hrest hF


/-! ### data before the first block header: parsed into an anonymous block -/

theorem elemToks_head_ty (e : Elem) : ∃ ty tx ts, elemToks e = (ty, tx) :: ts ∧ (ty = .name ∨ ty = .loopKw ∨ ty = .frameHead) := by
  cases e with
  | plain i =>
    cases i with
    | item n v => exact ⟨_, _, _, rfl, Or.inl rfl⟩
    | loop ns ps => exact ⟨_, _, _, rfl, Or.inr (Or.inl rfl)⟩
  | frame c b => exact ⟨_, _, _, rfl, Or.inr (Or.inr rfl)⟩

/-- elements `e :: es` that stand where a block header is expected (at the start of the input, or behind a complete block whose
    content they cannot belong to): CIF_NO_BLOCK_HEADER, and they are parsed into a data block with the empty code -/
theorem no_block_header_step (o : Opts) (hstore : o.store = true) (hmfd : o.maxFrameDepth ≠ 0) (e : Elem) (es : List Elem)
    (rest : List TokSpec) (s : PS) (fuel : Nat) (w : W)
    (hnew : ∀ c ∈ w.cif, codeIs o.norm (o.norm []) c = false) (hwb : wfElems o (e :: es) [] [] = true)
    (hfuel : szElems (e :: es) + (e :: es).length + 3 ≤ fuel) (hrest : blockFollow rest)
    (hF : Feeds o s (elemsToks (e :: es) ++ rest)) :
    ∃ s' r, blocksLoop o (fuel + 1) s acceptAll w
        = blocksLoop o fuel s' acceptAll { log := r :: w.log, cif := w.cif ++ [denoteBlock o.dia o.normKey { code := [], body := e :: es }] }
      ∧ r.code = CIF_NO_BLOCK_HEADER ∧ Feeds o s' rest := by
  obtain ⟨ty, tx, ts, hhead, hty0⟩ := elemToks_head_ty e
  have hF' := hF
  simp only [elemsToks, List.append_assoc] at hF'
  rw [hhead, List.cons_append] at hF'
  obtain ⟨t, s1, hty, htx, hn, ht, hr⟩ := hF'.inv
  have hpend : Feeds o s1 (elemsToks (e :: es) ++ rest) := by
    simp only [elemsToks, List.append_assoc]
    rw [hhead, List.cons_append, ← hty, ← htx]; exact Feeds.pending ht hr
  obtain ⟨X, hX⟩ : ∃ X, fuel = X + 1 := ⟨fuel - 1, by omega⟩
  obtain ⟨g, hg⟩ : ∃ g, X = (g + 1) + (e :: es).length := ⟨X - (e :: es).length - 1, by omega⟩
  obtain ⟨r0, hr0⟩ : ∃ r0 : Report, r0 = ⟨CIF_NO_BLOCK_HEADER, s1.scan.line, s1.scan.col - t.text.length⟩ := ⟨_, rfl⟩
  obtain ⟨s2, h1, h2⟩ := elems_structure o w.cif [] hnew hmfd (e :: es) [] [] rest s1 (g + 1) acceptAll
    { log := r0 :: w.log, cif := w.cif ++ [.mk [] [] []] } [] [] rfl hwb (by intro k hk; simp [normNames] at hk) (by intro c hc; cases hc)
    (by omega) (blockFollow_term hrest) hpend
  rw [← hg] at h1
  obtain ⟨ty3, tx3, ts3, rfl, hfol⟩ := hrest
  obtain ⟨t3, s3, hty3, htx3, hn3, ht3, hr3⟩ := h2.inv
  refine ⟨s3, r0, ?_, by rw [hr0], by rw [← hty3, ← htx3]; exact Feeds.pending ht3 hr3⟩
  have hpacked : allPacked (denoteElems o.dia o.normKey (e :: es) [] []).2 :=
    allPacked_denoteElems o (e :: es) [] [] [] [] hwb (by intro l hl; cases hl)
  have hv := View.block o w.cif [] hnew
  have hany : w.cif.any (codeIs o.norm (o.norm [])) = false := by
    rw [List.any_eq_false]; intro c hc; simp [hnew c hc]
  have hpark : nextTok o s1 acceptAll { log := r0 :: w.log, cif := w.cif ++ [.mk [] [] []] } = .ok (t, s1) _ :=
    nextTok_pending o s1 t ht _ _
  conv => lhs; rw [blocksLoop]
  have hbody : parseContainer o fuel s1 (some [o.norm []]) true acceptAll { log := r0 :: w.log, cif := w.cif ++ [.mk [] [] []] }
      = .ok s3 { log := r0 :: w.log, cif := w.cif ++ [denoteBlock o.dia o.normKey { code := [], body := e :: es }] } := by
    rw [hX, parseContainer]
    simp only [bind_eq, pure_eq, P.bind, P.pure, h1]
    rw [elemsLoop]
    rcases hfol with h | h <;>
      simp only [bind_eq, pure_eq, P.bind, P.pure, hn3, hty3, h, if_true, getCif, setCif, hv.upd, pruneC_packed _ _ _ hpacked,
        denoteBlock]
  rcases hty0 with h | h | h <;>
    simp only [bind_eq, pure_eq, P.bind, P.pure, hn, hty, h, report_accept, hstore, if_true, getCif, setCif, hany,
      Bool.false_eq_true, if_false, ← hr0, hbody]


/-! ### loops with dropped header names and / or a short last packet -/

/-- the values of a row that belong to retained columns (`sl` = the slots of the columns the values `vs` stand in) -/
def keepFrom : List (Option Str) → List V → List V
  | some _ :: sl, v :: vs => v :: keepFrom sl vs
  | none :: sl, _ :: vs => keepFrom sl vs
  | _, _ => []

theorem findHeaderName_noneG (o : Opts) (slots : List (Option Str)) (n : Str) (hvalid : isValidName true n = true)
    (hd : ∀ m ∈ slots.filterMap id, o.norm m ≠ o.norm n) : findHeaderName o slots n = none := by
  unfold findHeaderName
  simp [hvalid]
  intro x hx
  cases x with
  | none => simp
  | some m =>
    have hne := hd m (by simp [List.mem_filterMap]; exact hx)
    simp [hne]

/-- header names behind arbitrary slots (some of which may have been dropped) -/
theorem header_structureG (o : Opts) {path : Path} {put : Container → Cif} {code : Str} (hv : View o path put code)
    (fs : List Container) (ls : List Loop) : ∀ (ns : List Str) (slots : List (Option Str)) (rest : List TokSpec) (s : PS) (fuel : Nat)
      (pol : Policy) (w : W),
      w.cif = put (.mk code fs ls) → (∀ n ∈ ns, wfName n = true) → (∀ n ∈ ns, o.norm n ∉ normNames o ls) →
      ((slots.filterMap id ++ ns).map o.norm).Nodup → ns.length + 1 ≤ fuel →
      (∃ ty tx ts, rest = (ty, tx) :: ts ∧ ty ≠ .name) →
      Feeds o s (ns.map (fun n => (TokType.name, n)) ++ rest) →
      ∃ s', headerLoop o (some path) fuel s slots pol w = .ok (slots ++ ns.map some, s') w ∧ Feeds o s' rest
  | [], slots, rest, s, fuel, pol, w, _, _, _, _, hfuel, hrest, hF => by
    obtain ⟨f, rfl⟩ : ∃ f, fuel = f + 1 := ⟨fuel - 1, by omega⟩
    obtain ⟨ty, tx, ts, rfl, hty⟩ := hrest
    simp only [List.map_nil, List.nil_append] at hF
    obtain ⟨t, s1, ht1, ht2, hn, ht, hr⟩ := hF.inv
    refine ⟨s1, ?_, by rw [← ht1, ← ht2]; exact Feeds.pending ht hr⟩
    rw [headerLoop]
    simp only [bind_eq, pure_eq, P.bind, P.pure, hn, ht1, hty, if_false, List.append_nil, List.map_nil]
  | n :: ns, slots, rest, s, fuel, pol, w, hcif, hwf, hfresh, hnd, hfuel, hrest, hF => by
    obtain ⟨f, rfl⟩ : ∃ f, fuel = f + 1 := ⟨fuel - 1, by omega⟩
    simp only [List.map_cons, List.cons_append] at hF
    obtain ⟨t, s1, ht1, ht2, hn, _, hr⟩ := hF.inv
    have hw := hwf n (by simp)
    simp only [wfName, Bool.and_eq_true] at hw
    have hdist : ∀ m ∈ slots.filterMap id, o.norm m ≠ o.norm n := by
      intro m hm heq
      have h1 : ((slots.filterMap id ++ n :: ns).map o.norm) = (slots.filterMap id).map o.norm ++ o.norm n :: ns.map o.norm := by simp
      rw [h1] at hnd
      exact (List.nodup_append.mp hnd).2.2 (o.norm m) (List.mem_map.mpr ⟨m, hm, rfl⟩) (o.norm n) (by simp) heq
    have hnd' : (((slots ++ [some n]).filterMap id ++ ns).map o.norm).Nodup := by
      simpa [List.filterMap_append] using hnd
    obtain ⟨s2, h1, h2⟩ := header_structureG o hv fs ls ns (slots ++ [some n]) rest (consume s1) f pol w hcif
      (fun m hm => hwf m (by simp [hm])) (fun m hm => hfresh m (by simp [hm])) hnd' (by simp at hfuel; omega) hrest hr
    refine ⟨s2, ?_, h2⟩
    rw [headerLoop]
    simp only [bind_eq, pure_eq, P.bind, P.pure, hn, ht1, ht2, if_true, cstr_noNul hw.2,
      itemExists_false o hv n fs ls pol w hcif hw.1 (hfresh n (by simp)), Bool.false_eq_true, if_false,
      findHeaderName_noneG o slots n hw.1 hdist, h1]
    simp

/-- a duplicate name in a loop header (it repeats — in any spelling — an item of the container or an earlier, retained header
    name): CIF_DUP_ITEMNAME, the slot is dropped -/
theorem dup_header_name_step (o : Opts) {path : Path} {put : Container → Cif} {code : Str} (hv : View o path put code)
    (fs : List Container) (ls : List Loop) (n : Str) (slots : List (Option Str)) (rest : List TokSpec) (s : PS) (fuel : Nat) (w : W)
    (hcif : w.cif = put (.mk code fs ls)) (hname : wfName n = true)
    (hdup : o.norm n ∈ normNames o ls ∨ ∃ m ∈ slots.filterMap id, isValidName true m = true ∧ o.norm m = o.norm n)
    (hF : Feeds o s ((.name, n) :: rest)) :
    ∃ s1 r, headerLoop o (some path) (fuel + 1) s slots acceptAll w
        = headerLoop o (some path) fuel s1 (slots ++ [none]) acceptAll { w with log := r :: w.log }
      ∧ r.code = CIF_DUP_ITEMNAME ∧ Feeds o s1 rest := by
  simp only [wfName, Bool.and_eq_true] at hname
  obtain ⟨t, s1, ht1, ht2, hn, _, hr⟩ := hF.inv
  refine ⟨consume s1, ⟨CIF_DUP_ITEMNAME, s1.scan.line, s1.scan.col - t.text.length⟩, ?_, rfl, hr⟩
  rw [headerLoop]
  by_cases hin : o.norm n ∈ normNames o ls
  · simp only [bind_eq, pure_eq, P.bind, P.pure, hn, ht1, ht2, if_true, cstr_noNul hname.2,
      itemExists_true o hv n fs ls acceptAll w hcif hname.1 hin, report_accept]
  · rcases hdup with h | ⟨m, hm, hmv, hmn⟩
    · exact absurd h hin
    · have hfind : findHeaderName o slots n = some false := by
        unfold findHeaderName
        have hmem : some m ∈ slots := by simpa [List.mem_filterMap] using hm
        simp only [hname.1, Bool.not_true, Bool.false_eq_true, if_false]
        split
        · rfl
        · rename_i h
          exact absurd (List.any_eq_true.mpr ⟨some m, hmem, by simp [hmv, hmn]⟩) h
      simp only [bind_eq, pure_eq, P.bind, P.pure, hn, ht1, ht2, if_true, cstr_noNul hname.2,
        itemExists_false o hv n fs ls acceptAll w hcif hname.1 hin, Bool.false_eq_true, if_false, hfind, report_accept]


theorem drop_getD {α} (l : List α) (i : Nat) (x d : α) (t : List α) (h : l.drop i = x :: t) : l.getD i d = x := by
  have : l[i]? = some x := by
    rw [← List.head?_drop, h]; rfl
  simp [List.getD, this]

theorem drop_succ {α} (l : List α) (i : Nat) (x : α) (t : List α) (h : l.drop i = x :: t) : l.drop (i + 1) = t := by
  have : l.drop (i + 1) = (l.drop i).drop 1 := by rw [List.drop_drop]
  rw [this, h]; rfl

/-- the body of a loop whose header may have dropped names (`slots`), ending in whatever `hend` describes (the plain end of
    the body, or a short last packet) -/
theorem packetsG (o : Opts) {path : Path} {put : Container → Cif} {code : Str} (hv : View o path put code)
    (fs : List Container) (ls0 : List Loop) (slots : List (Option Str)) (names : List Str) (pol : Policy)
    (tailP : List (List V)) (Good : List Report → Prop) (rest rest' : List TokSpec) (K : Nat) (hK : 1 ≤ K)
    (hend : ∀ (D : List (List V)) (w1 : W) (s1 : PS) (g : Nat), w1.cif = put (.mk code fs (ls0 ++ [mkLoop names D])) → K ≤ g →
        Feeds o s1 rest →
        ∃ s' lg, packetsLoop o (some path) slots g s1 { idx := 0, some := true, cur := [] } pol w1
            = .ok s' { log := lg ++ w1.log, cif := put (.mk code fs (ls0 ++ [mkLoop names (D ++ tailP)])) } ∧ Good lg ∧ Feeds o s' rest') :
    ∀ (ps : List (List Val)) (vs : List Val) (sl : List (Option Str)) (cur : List V) (done : List (List V)) (b : Bool) (s : PS)
      (fuel : Nat) (w : W),
      w.cif = put (.mk code fs (ls0 ++ [mkLoop names done])) → vs ≠ [] →
      vs.length = sl.length → slots.drop (slots.length - sl.length) = sl → sl.length ≤ slots.length →
      (∀ p ∈ ps, p.length = slots.length) → slots ≠ [] →
      wfVals o vs = true → (∀ p ∈ ps, wfVals o p = true) → szVals vs + szPackets ps + K ≤ fuel →
      Feeds o s (valsToks vs ++ (packetsToks ps ++ rest)) →
      ∃ s' lg, packetsLoop o (some path) slots fuel s { idx := slots.length - sl.length, some := b, cur := cur } pol w
          = .ok s' { log := lg ++ w.log, cif := put (.mk code fs (ls0 ++ [mkLoop names
              (done ++ [cur ++ keepFrom sl (denoteVals o.dia o.normKey vs)]
                ++ ps.map (fun p => keepFrom slots (denoteVals o.dia o.normKey p)) ++ tailP)])) }
        ∧ Good lg ∧ Feeds o s' rest'
  | ps, [], _, _, _, _, _, _, _, _, hne, _, _, _, _, _, _, _, _, _ => absurd rfl hne
  | ps, _ :: _, [], _, _, _, _, _, _, _, _, hl, _, _, _, _, _, _, _, _ => by simp at hl
  | ps, v :: vs, x :: sl, cur, done, b, s, fuel, w, hcif, _, hlen, hdrop, hle, hps, hns, hwv, hwps, hfuel, hF => by
    simp only [szVals] at hfuel
    have hp := szVal_pos v
    obtain ⟨f, rfl⟩ : ∃ f, fuel = f + 1 := ⟨fuel - 1, by omega⟩
    simp only [wfVals, Bool.and_eq_true] at hwv
    obtain ⟨ty, tx, ts, hvt, hstart, hkey⟩ := valToks_head v
    simp only [valsToks, List.append_assoc] at hF
    have hF' := hF
    rw [hvt, List.cons_append] at hF'
    obtain ⟨t, s1, hty, htx, hn, ht, hr⟩ := hF'.inv
    have hpend : Feeds o s1 (valToks v ++ (valsToks vs ++ (packetsToks ps ++ rest))) := by
      rw [hvt, List.cons_append, ← hty, ← htx]; exact Feeds.pending ht hr
    obtain ⟨s2, h1, h2⟩ := value_structure o v _ s1 f pol w hwv.1 (by omega) hpend
    have hslot := drop_getD slots _ x none sl hdrop
    have hnext := drop_succ slots _ x sl hdrop
    simp only [List.length_cons] at hle hlen hdrop hslot hnext ⊢
    have hn0 : 0 < slots.length := by omega
    rw [packetsLoop]
    simp only [bind_eq, pure_eq, P.bind, P.pure, hn, hty, hkey, hstart, Bool.false_or, if_true, Bool.false_eq_true, if_false,
      h1, hslot]
    cases sl with
    | cons x2 sl2 =>
      cases vs with
      | nil => simp at hlen
      | cons v2 vs2 =>
        simp only [List.length_cons] at hle hlen hnext
        have hidx : slots.length - (sl2.length + 1 + 1) + 1 = slots.length - (sl2.length + 1) := by omega
        have hmod : (slots.length - (sl2.length + 1 + 1) + 1) % slots.length = slots.length - (sl2.length + 1) := by
          rw [hidx]; exact Nat.mod_eq_of_lt (by omega)
        have hne0 : ¬ (slots.length - (sl2.length + 1) = 0) := by omega
        simp only [List.length_cons, hmod, hne0, if_false]
        rw [hidx] at hnext
        obtain ⟨s3, lg, h3, hg, h4⟩ := packetsG o hv fs ls0 slots names pol tailP Good rest rest' K hK hend ps (v2 :: vs2) (x2 :: sl2)
          (if x.isSome then cur ++ [denoteVal o.dia o.normKey v] else cur) done b s2 f w hcif (by simp) (by simpa using hlen)
          (by simpa using hnext) (by simp; omega) hps hns hwv.2 hwps (by omega) h2
        simp only [List.length_cons] at h3
        refine ⟨s3, lg, ?_, hg, h4⟩
        rw [h3]
        cases x <;> simp [keepFrom, denoteVals, List.append_assoc]
    | nil =>
      cases vs with
      | cons v2 vs2 => simp at hlen
      | nil =>
        have hidx : slots.length - (0 + 1) + 1 = slots.length := by omega
        have hmod : (slots.length - (0 + 1) + 1) % slots.length = 0 := by rw [hidx]; exact Nat.mod_self _
        simp only [List.length_nil, hmod, if_true]
        rw [P.bind_ok (addPacket_mk o hv fs ls0 names done _ pol w hcif)]
        simp only [valsToks, List.nil_append] at h2
        cases ps with
        | nil =>
          simp only [packetsToks, List.nil_append] at h2
          obtain ⟨s3, lg, h3, hg, h4⟩ := hend (done ++ [if x.isSome then cur ++ [denoteVal o.dia o.normKey v] else cur])
            { w with cif := put (.mk code fs (ls0 ++ [mkLoop names (done ++ [if x.isSome then cur ++ [denoteVal o.dia o.normKey v] else cur])])) }
            s2 f rfl (by simp only [szPackets] at hfuel; omega) h2
          refine ⟨s3, lg, ?_, hg, h4⟩
          rw [h3]
          cases x <;> simp [keepFrom, denoteVals, List.append_assoc]
        | cons p ps2 =>
          have hpl : p.length = slots.length := hps p (by simp)
          simp only [packetsToks, List.append_assoc] at h2
          simp only [szPackets] at hfuel
          obtain ⟨s3, lg, h3, hg, h4⟩ := packetsG o hv fs ls0 slots names pol tailP Good rest rest' K hK hend ps2 p slots []
            (done ++ [if x.isSome then cur ++ [denoteVal o.dia o.normKey v] else cur]) true s2 f
            { w with cif := put (.mk code fs (ls0 ++ [mkLoop names (done ++ [if x.isSome then cur ++ [denoteVal o.dia o.normKey v] else cur])])) }
            rfl (by intro h; rw [h] at hpl; simp at hpl; exact hns (List.length_eq_zero_iff.mp hpl.symm)) hpl (by simp) (Nat.le_refl _) (fun q hq => hps q (by simp [hq])) hns (hwps p (by simp)) (fun q hq => hwps q (by simp [hq]))
            (by omega) h2
          simp only [Nat.sub_self] at h3
          refine ⟨s3, lg, ?_, hg, h4⟩
          rw [h3]
          cases x <;> simp [keepFrom, denoteVals, List.append_assoc]
termination_by ps vs => (ps.length, vs.length)


/-- unknown values for the retained columns among `sl` -/
def unkFill (sl : List (Option Str)) : List V := (sl.filter Option.isSome).map fun _ => V.unk

/-- the plain end of a loop body: a token that is neither a value nor a closing delimiter -/
theorem packets_end_plain (o : Opts) {path : Path} {put : Container → Cif} {code : Str} (fs : List Container) (ls0 : List Loop)
    (slots : List (Option Str)) (names : List Str) (pol : Policy) (ty : TokType) (tx : Str) (ts : List TokSpec)
    (hterm : isTerminator ty = true) :
    ∀ (D : List (List V)) (w1 : W) (s1 : PS) (g : Nat), w1.cif = put (.mk code fs (ls0 ++ [mkLoop names D])) → 1 ≤ g →
      Feeds o s1 ((ty, tx) :: ts) →
      ∃ s' lg, packetsLoop o (some path) slots g s1 { idx := 0, some := true, cur := [] } pol w1
          = .ok s' { log := lg ++ w1.log, cif := put (.mk code fs (ls0 ++ [mkLoop names (D ++ [])])) } ∧ lg = [] ∧
        Feeds o s' ((ty, tx) :: ts) := by
  intro D w1 s1 g hcif hg hF
  obtain ⟨f, rfl⟩ : ∃ f, g = f + 1 := ⟨g - 1, by omega⟩
  obtain ⟨t, s2, hty, htx, hn, ht, hr⟩ := hF.inv
  simp only [isTerminator, Bool.not_eq_true', Bool.or_eq_false_iff, beq_eq_false_iff_ne, ne_eq] at hterm
  refine ⟨s2, [], ?_, rfl, by rw [← hty, ← htx]; exact Feeds.pending ht hr⟩
  rw [packetsLoop]
  simp [bind_eq, pure_eq, P.bind, P.pure, hn, hty, hterm.1.1.1, hterm.1.1.2, hterm.1.2, hterm.2, ← hcif]

/-- a short last packet: its values, then the end of the body — CIF_PARTIAL_PACKET, the packet is filled out with unknown values -/
theorem partial_row (o : Opts) {path : Path} {put : Container → Cif} {code : Str} (hv : View o path put code)
    (fs : List Container) (ls0 : List Loop) (slots : List (Option Str)) (names : List Str) (ty : TokType) (tx : Str) (ts : List TokSpec)
    (hterm : isTerminator ty = true) (D : List (List V)) :
    ∀ (pv : List Val) (sl : List (Option Str)) (cur : List V) (b : Bool) (s : PS) (fuel : Nat) (w : W),
      w.cif = put (.mk code fs (ls0 ++ [mkLoop names D])) → pv.length < sl.length →
      slots.drop (slots.length - sl.length) = sl → sl.length ≤ slots.length → (pv = [] → sl.length < slots.length) →
      wfVals o pv = true → szVals pv + 1 ≤ fuel → Feeds o s (valsToks pv ++ (ty, tx) :: ts) →
      ∃ s' r, packetsLoop o (some path) slots fuel s { idx := slots.length - sl.length, some := b, cur := cur } acceptAll w
          = .ok s' { log := [r] ++ w.log, cif := put (.mk code fs (ls0 ++ [mkLoop names
              (D ++ [cur ++ keepFrom sl (denoteVals o.dia o.normKey pv) ++ unkFill (sl.drop pv.length)])])) }
        ∧ r.code = CIF_PARTIAL_PACKET ∧ Feeds o s' ((ty, tx) :: ts)
  | [], sl, cur, b, s, fuel, w, hcif, _, hdrop, hle, hidx, _, hfuel, hF => by
    obtain ⟨f, rfl⟩ : ∃ f, fuel = f + 1 := ⟨fuel - 1, by omega⟩
    simp only [valsToks, List.nil_append] at hF
    obtain ⟨t, s1, hty, htx, hn, ht, hr⟩ := hF.inv
    simp only [isTerminator, Bool.not_eq_true', Bool.or_eq_false_iff, beq_eq_false_iff_ne, ne_eq] at hterm
    have hi := hidx rfl
    have hne : ¬ (slots.length - sl.length = 0) := by omega
    refine ⟨s1, ⟨CIF_PARTIAL_PACKET, s1.scan.line, s1.scan.col - t.text.length⟩, ?_, rfl,
      by rw [← hty, ← htx]; exact Feeds.pending ht hr⟩
    rw [packetsLoop]
    simp only [bind_eq, pure_eq, P.bind, P.pure, hn, hty, hterm.1.1.1, hterm.1.1.2, Bool.or_self, Bool.false_eq_true, if_false,
      hterm.1.2, hterm.2, beq_iff_eq, hne, ne_eq, not_false_eq_true, if_true, report_accept, hdrop, decide_eq_true_eq, or_self]
    rw [addPacket_mk o hv fs ls0 names D _ acceptAll
      ⟨⟨CIF_PARTIAL_PACKET, s1.scan.line, s1.scan.col - t.text.length⟩ :: w.log, w.cif⟩ hcif]
    simp [keepFrom, denoteVals, unkFill]
  | v :: pv, [], _, _, _, _, _, _, hl, _, _, _, _, _, _ => by simp at hl
  | v :: pv, x :: sl, cur, b, s, fuel, w, hcif, hlen, hdrop, hle, _, hwv, hfuel, hF => by
    simp only [szVals] at hfuel
    have hp := szVal_pos v
    obtain ⟨f, rfl⟩ : ∃ f, fuel = f + 1 := ⟨fuel - 1, by omega⟩
    simp only [wfVals, Bool.and_eq_true] at hwv
    obtain ⟨vty, vtx, vts, hvt, hstart, hkey⟩ := valToks_head v
    simp only [valsToks, List.append_assoc] at hF
    have hF' := hF
    rw [hvt, List.cons_append] at hF'
    obtain ⟨t, s1, hty, htx, hn, ht, hr⟩ := hF'.inv
    have hpend : Feeds o s1 (valToks v ++ (valsToks pv ++ (ty, tx) :: ts)) := by
      rw [hvt, List.cons_append, ← hty, ← htx]; exact Feeds.pending ht hr
    obtain ⟨s2, h1, h2⟩ := value_structure o v _ s1 f acceptAll w hwv.1 (by omega) hpend
    have hslot := drop_getD slots _ x none sl hdrop
    have hnext := drop_succ slots _ x sl hdrop
    simp only [List.length_cons] at hle hlen hdrop hslot hnext ⊢
    have hidx : slots.length - (sl.length + 1) + 1 = slots.length - sl.length := by omega
    have hsl : 0 < sl.length := by omega
    have hmod : (slots.length - (sl.length + 1) + 1) % slots.length = slots.length - sl.length := by
      rw [hidx]; exact Nat.mod_eq_of_lt (by omega)
    have hne0 : ¬ (slots.length - sl.length = 0) := by omega
    rw [hidx] at hnext
    obtain ⟨s3, r, h3, hr3, h4⟩ := partial_row o hv fs ls0 slots names ty tx ts hterm D pv sl
      (if x.isSome then cur ++ [denoteVal o.dia o.normKey v] else cur) b s2 f w hcif (by omega) hnext (by omega) (fun _ => by omega)
      hwv.2 (by omega) h2
    refine ⟨s3, r, ?_, hr3, h4⟩
    rw [packetsLoop]
    simp only [bind_eq, pure_eq, P.bind, P.pure, hn, hty, hkey, hstart, Bool.false_or, if_true, Bool.false_eq_true, if_false,
      h1, hslot, hmod, hne0, h3]
    cases x <;> simp [keepFrom, denoteVals, List.append_assoc]


theorem keepFrom_map_some : ∀ (ns : List Str) (vs : List V), vs.length ≤ ns.length → keepFrom (ns.map some) vs = vs
  | _, [], _ => by cases ‹List Str› <;> rfl
  | [], _ :: _, h => by simp at h
  | n :: ns, v :: vs, h => by
    simp only [List.map_cons, keepFrom]
    rw [keepFrom_map_some ns vs (by simpa using h)]

theorem unkFill_map_some (ns : List Str) (k : Nat) : unkFill ((ns.map some).drop k) = List.replicate (ns.length - k) V.unk := by
  unfold unkFill
  rw [← List.map_drop]
  have : ((ns.drop k).map some).filter Option.isSome = (ns.drop k).map some := by
    rw [List.filter_eq_self]; intro a ha; obtain ⟨x, _, rfl⟩ := List.mem_map.mp ha; rfl
  rw [this, List.map_map]
  have : ∀ l : List Str, l.map ((fun _ => V.unk) ∘ some) = List.replicate l.length V.unk := by
    intro l; induction l with
    | nil => rfl
    | cons a r ih => simp [List.replicate_succ, ih]
  rw [this, List.length_drop]

theorem denoteVals_append (dia : Dialect) (nk : Str → Str) : ∀ (a b : List Val),
    denoteVals dia nk (a ++ b) = denoteVals dia nk a ++ denoteVals dia nk b
  | [], b => rfl
  | v :: a, b => by simp only [List.cons_append, denoteVals]; rw [denoteVals_append dia nk a b]

theorem denoteVals_replicate_unk (dia : Dialect) (nk : Str → Str) : ∀ k : Nat,
    denoteVals dia nk (List.replicate k Val.unk) = List.replicate k V.unk
  | 0 => rfl
  | k + 1 => by simp only [List.replicate_succ, denoteVals, denoteVal]; rw [denoteVals_replicate_unk dia nk k]

theorem denoteVals_length (dia : Dialect) (nk : Str → Str) : ∀ l : List Val, (denoteVals dia nk l).length = l.length
  | [] => rfl
  | v :: l => by simp only [denoteVals, List.length_cons]; rw [denoteVals_length dia nk l]

/-- parse_loop behind its header: the loop is created and the body follows -/
theorem parseLoop_create (o : Opts) {path : Path} {put : Container → Cif} {code : Str} (hv : View o path put code)
    (fs : List Container) (ls : List Loop) (slots : List (Option Str)) (s s2 : PS) (fuel : Nat) (pol : Policy) (w w' : W)
    (hhead : headerLoop o (some path) fuel s [] pol w = .ok (slots, s2) w') (hcif : w'.cif = put (.mk code fs ls))
    (hne : slots.filterMap id ≠ []) (hvalid : ∀ n ∈ slots.filterMap id, isValidName true n = true)
    (hfresh : ∀ n ∈ slots.filterMap id, o.norm n ∉ normNames o ls) (hnd : ((slots.filterMap id).map o.norm).Nodup) :
    parseLoop o fuel s (some path) pol w
      = packetsLoop o (some path) slots fuel s2 { idx := 0, some := false, cur := [] } pol
          { w' with cif := put (.mk code fs (ls ++ [mkLoop (slots.filterMap id) []])) } := by
  have hv1 : (slots.filterMap id).any (fun n => !isValidName true n) = false := by
    rw [List.any_eq_false]; intro n hn; simp [hvalid n hn]
  have hclash : (slots.filterMap id).any (fun n => hasItem o.norm (.mk code fs ls) (o.norm n)) = false := by
    rw [List.any_eq_false]; intro n hn; simp [hasItem_false o code fs ls _ (hfresh n hn)]
  have hempty : slots.isEmpty = false := by
    cases slots with
    | nil => exact absurd rfl hne
    | cons a r => rfl
  have hnE : (slots.filterMap id).isEmpty = false := by
    cases h : slots.filterMap id with
    | nil => exact absurd h hne
    | cons a r => rfl
  unfold parseLoop
  simp only [bind_eq, pure_eq, P.bind, P.pure, hhead, hempty, Bool.false_eq_true, if_false, hnE, hv1, getCif, setCif, hcif, hv.get,
    hv.upd, hclash, hasDup_false _ hnd, Bool.or_false, Container.code, Container.frames, Container.loops, mkLoop]

/-- **partial packet**: a loop (valid, new, distinct names) whose last packet `pv` is short: CIF_PARTIAL_PACKET, the packet is
    filled out with unknown values; the complete packets `ps` before it are stored as they are -/
theorem partial_packet_step (o : Opts) {path : Path} {put : Container → Cif} {code : Str} (hv : View o path put code)
    (ns : List Str) (ps : List (List Val)) (pv : List Val) (ty : TokType) (tx : Str) (ts : List TokSpec) (s : PS) (fuel : Nat) (w : W)
    (fs : List Container) (ls : List Loop) (isBlock : Bool) (hcif : w.cif = put (.mk code fs ls))
    (hwf : ∀ n ∈ ns, wfName n = true) (hfresh : ∀ n ∈ ns, o.norm n ∉ normNames o ls) (hnd : (ns.map o.norm).Nodup)
    (hlen : ∀ p ∈ ps, p.length = ns.length) (hwv : ∀ p ∈ ps, wfVals o p = true)
    (hpv : pv ≠ []) (hpl : pv.length < ns.length) (hwpv : wfVals o pv = true)
    (hfuel : ns.length + szPackets ps + szVals pv + 2 ≤ fuel) (hterm : isTerminator ty = true)
    (hF : Feeds o s ((.loopKw, []) :: (ns.map (fun n => (TokType.name, n)) ++ (packetsToks ps ++ (valsToks pv ++ (ty, tx) :: ts))))) :
    ∃ s' r, elemsLoop o (fuel + 1) s (some path) isBlock acceptAll w
        = elemsLoop o fuel s' (some path) isBlock acceptAll
            { log := r :: w.log, cif := put (.mk code fs (denoteItems o.dia o.normKey
                [.loop ns (ps ++ [pv ++ List.replicate (ns.length - pv.length) Val.unk])] ls)) }
      ∧ r.code = CIF_PARTIAL_PACKET ∧ Feeds o s' ((ty, tx) :: ts) := by
  obtain ⟨t, s1, hty, _, hn, _, hr⟩ := hF.inv
  have hns : ns ≠ [] := by intro h; rw [h] at hpl; simp at hpl
  -- the token behind the header is the first token of a value
  have hfirst : ∃ ty' tx' ts', packetsToks ps ++ (valsToks pv ++ (ty, tx) :: ts) = (ty', tx') :: ts' ∧ ty' ≠ .name := by
    have hval : ∀ (v : Val) (tl : List TokSpec), ∃ ty' tx' ts', valToks v ++ tl = (ty', tx') :: ts' ∧ ty' ≠ .name := by
      intro v tl
      obtain ⟨a, b, c, h, hs, _⟩ := valToks_head v
      exact ⟨a, b, c ++ tl, by simp [h], by intro e; rw [e] at hs; cases hs⟩
    cases ps with
    | nil =>
      cases pv with
      | nil => exact absurd rfl hpv
      | cons v r => simpa [packetsToks, valsToks, List.append_assoc] using hval v _
    | cons p r =>
      have : p ≠ [] := by
        intro h; have := hlen p (by simp); rw [h] at this; exact hns (List.length_eq_zero_iff.mp this.symm)
      cases p with
      | nil => exact absurd rfl this
      | cons v r2 => simpa [packetsToks, valsToks, List.append_assoc] using hval v _
  obtain ⟨s2, h1, h2⟩ := header_structure o hv fs ls ns [] _ (consume s1) fuel acceptAll w hcif hwf hfresh (by simpa using hnd)
    (by omega) hfirst hr
  simp only [List.nil_append, List.map_nil] at h1
  have hfm : (ns.map some).filterMap id = ns := filterMap_map_some ns
  have hcreate := parseLoop_create o hv fs ls (ns.map some) (consume s1) s2 fuel acceptAll w w h1 hcif (by rw [hfm]; exact hns)
    (by rw [hfm]; intro n hn'; have := hwf n hn'; simp only [wfName, Bool.and_eq_true] at this; exact this.1)
    (by rw [hfm]; exact hfresh) (by rw [hfm]; exact hnd)
  rw [hfm] at hcreate
  have hnl : (ns.map some).length = ns.length := by simp
  -- the body
  have hbody : ∃ s3 r, packetsLoop o (some path) (ns.map some) fuel s2 { idx := 0, some := false, cur := [] } acceptAll
        { w with cif := put (.mk code fs (ls ++ [mkLoop ns []])) }
      = .ok s3 { log := r :: w.log, cif := put (.mk code fs (ls ++ [mkLoop ns
          (ps.map (denoteVals o.dia o.normKey) ++ [denoteVals o.dia o.normKey pv ++ List.replicate (ns.length - pv.length) V.unk])])) }
      ∧ r.code = CIF_PARTIAL_PACKET ∧ Feeds o s3 ((ty, tx) :: ts) := by
    cases ps with
    | nil =>
      simp only [packetsToks, List.nil_append] at h2
      obtain ⟨s3, r, h3, hr3, h4⟩ := partial_row o hv fs ls (ns.map some) ns ty tx ts hterm [] pv (ns.map some) [] false s2 fuel
        { w with cif := put (.mk code fs (ls ++ [mkLoop ns []])) } rfl (by simpa using hpl) (by simp) (Nat.le_refl _)
        (fun h => absurd h hpv) hwpv (by omega) h2
      refine ⟨s3, r, ?_, hr3, h4⟩
      simp only [Nat.sub_self] at h3
      rw [h3, keepFrom_map_some ns _ (by rw [denoteVals_length]; omega), unkFill_map_some]
      simp
    | cons p0 ps' =>
      simp only [packetsToks, List.append_assoc] at h2
      simp only [szPackets] at hfuel
      obtain ⟨s3, lg, h3, ⟨r, hlg, hr3⟩, h4⟩ := packetsG o hv fs ls (ns.map some) ns acceptAll
        [denoteVals o.dia o.normKey pv ++ List.replicate (ns.length - pv.length) V.unk]
        (fun lg => ∃ r, lg = [r] ∧ r.code = CIF_PARTIAL_PACKET) (valsToks pv ++ (ty, tx) :: ts) ((ty, tx) :: ts) (szVals pv + 1) (by omega)
        (by
          intro D w1 s1' g hc hg hFe
          obtain ⟨s4, r, h5, hr5, h6⟩ := partial_row o hv fs ls (ns.map some) ns ty tx ts hterm D pv (ns.map some) [] true s1' g w1 hc
            (by simpa using hpl) (by simp) (Nat.le_refl _) (fun h => absurd h hpv) hwpv hg hFe
          refine ⟨s4, [r], ?_, ⟨r, rfl, hr5⟩, h6⟩
          simp only [Nat.sub_self] at h5
          rw [h5, keepFrom_map_some ns _ (by rw [denoteVals_length]; omega), unkFill_map_some]
          simp)
        ps' p0 (ns.map some) [] [] false s2 fuel { w with cif := put (.mk code fs (ls ++ [mkLoop ns []])) } rfl
        (by intro h; have := hlen p0 (by simp); rw [h] at this; exact hns (List.length_eq_zero_iff.mp this.symm))
        (by simpa using hlen p0 (by simp)) (by simp) (Nat.le_refl _) (fun q hq => by simpa using hlen q (by simp [hq]))
        (by intro h; exact hns (List.map_eq_nil_iff.mp h)) (hwv p0 (by simp)) (fun q hq => hwv q (by simp [hq])) (by omega) h2
      subst hlg
      refine ⟨s3, r, ?_, hr3, h4⟩
      simp only [Nat.sub_self] at h3
      rw [h3]
      have hk : ∀ q ∈ p0 :: ps', keepFrom (ns.map some) (denoteVals o.dia o.normKey q) = denoteVals o.dia o.normKey q := by
        intro q hq
        apply keepFrom_map_some
        rw [denoteVals_length, hlen q hq]; exact Nat.le_refl _
      simp only [List.nil_append, List.map_cons, hk p0 (by simp), List.singleton_append, List.cons_append]
      have hmap : List.map (fun p => keepFrom (ns.map some) (denoteVals o.dia o.normKey p)) ps' = List.map (denoteVals o.dia o.normKey) ps' := by
        apply List.map_congr_left
        intro q hq
        exact hk q (by simp [hq])
      rw [hmap]
  obtain ⟨s3, r, h3, hr3, h4⟩ := hbody
  refine ⟨s3, r, ?_, hr3, h4⟩
  conv => lhs; rw [elemsLoop]
  simp only [bind_eq, pure_eq, P.bind, P.pure, hn, hty, hcreate, h3]
  simp [denoteItems, mkLoop, denoteVals_append, denoteVals_replicate_unk]


theorem partial_packet_run (o : Opts) {path : Path} {put : Container → Cif} {code : Str} (hv : View o path put code)
    (pre post : List Item) (ns : List Str) (ps : List (List Val)) (pv : List Val) (seen seen2 : List Str) (rest : List TokSpec) (s : PS)
    (fuel : Nat) (w : W) (fs : List Container) (ls : List Loop) (isBlock : Bool) (hcif : w.cif = put (.mk code fs ls))
    (hpre : wfItems o pre seen = true) (hseen : ∀ k ∈ normNames o ls, k ∈ seen)
    (hwf : ∀ n ∈ ns, wfName n = true) (hfresh : ∀ n ∈ ns, o.norm n ∉ normNames o (denoteItems o.dia o.normKey pre ls))
    (hnd : (ns.map o.norm).Nodup) (hlen : ∀ p ∈ ps, p.length = ns.length) (hwv : ∀ p ∈ ps, wfVals o p = true)
    (hpv : pv ≠ []) (hpl : pv.length < ns.length) (hwpv : wfVals o pv = true)
    (hpost : wfItems o post seen2 = true)
    (hseen2 : ∀ k ∈ normNames o (denoteItems o.dia o.normKey
        [.loop ns (ps ++ [pv ++ List.replicate (ns.length - pv.length) Val.unk])] (denoteItems o.dia o.normKey pre ls)), k ∈ seen2)
    (hfuel : szItems pre + szItems post + (ns.length + szPackets ps + szVals pv + 2) + 1 ≤ fuel)
    (hnext : ∃ ty tx ts, itemsToks post ++ rest = (ty, tx) :: ts ∧ isTerminator ty = true)
    (hrest : lastIsLoop post = true → ∃ ty tx ts, rest = (ty, tx) :: ts ∧ isTerminator ty = true)
    (hF : Feeds o s (itemsToks pre ++ (((.loopKw, []) :: (ns.map (fun n => (TokType.name, n)) ++ (packetsToks ps ++ valsToks pv)))
      ++ (itemsToks post ++ rest)))) :
    ∃ s' r, elemsLoop o (fuel + post.length + 1 + pre.length) s (some path) isBlock acceptAll w
        = elemsLoop o fuel s' (some path) isBlock acceptAll
            { log := r :: w.log, cif := put (.mk code fs (denoteItems o.dia o.normKey
                (pre ++ [.loop ns (ps ++ [pv ++ List.replicate (ns.length - pv.length) Val.unk])] ++ post) ls)) }
      ∧ r.code = CIF_PARTIAL_PACKET ∧ Feeds o s' rest := by
  obtain ⟨ty, tx, ts, hnx, hterm⟩ := hnext
  have := defect_run o hv pre post ((.loopKw, []) :: (ns.map (fun n => (TokType.name, n)) ++ (packetsToks ps ++ valsToks pv)))
    (fun l => denoteItems o.dia o.normKey [.loop ns (ps ++ [pv ++ List.replicate (ns.length - pv.length) Val.unk])] l)
    CIF_PARTIAL_PACKET (ns.length + szPackets ps + szVals pv + 2) seen seen2 rest s fuel w fs ls isBlock hcif hpre hseen hpost hseen2
    (by
      intro s1 w1 f hc hf hF1
      rw [hnx] at hF1 ⊢
      simp only [List.cons_append, List.append_assoc] at hF1
      exact partial_packet_step o hv ns ps pv ty tx ts s1 f w1 fs _ isBlock hc hwf hfresh hnd hlen hwv hpv hpl hwpv hf hterm hF1)
    hfuel (fun _ => ⟨_, _, _, rfl, rfl⟩) hrest hF
  simpa [denoteItems_append, denoteItems] using this


/-! ### a duplicate name in a loop header -/

/-- header names, up to a point (equation form of `header_structureG`) -/
theorem header_run (o : Opts) {path : Path} {put : Container → Cif} {code : Str} (hv : View o path put code)
    (fs : List Container) (ls : List Loop) : ∀ (ns : List Str) (slots : List (Option Str)) (rest : List TokSpec) (s : PS) (fuel : Nat)
      (pol : Policy) (w : W),
      w.cif = put (.mk code fs ls) → (∀ n ∈ ns, wfName n = true) → (∀ n ∈ ns, o.norm n ∉ normNames o ls) →
      ((slots.filterMap id ++ ns).map o.norm).Nodup → Feeds o s (ns.map (fun n => (TokType.name, n)) ++ rest) →
      ∃ s', headerLoop o (some path) (fuel + ns.length) s slots pol w = headerLoop o (some path) fuel s' (slots ++ ns.map some) pol w
        ∧ Feeds o s' rest
  | [], slots, rest, s, fuel, pol, w, _, _, _, _, hF => ⟨s, by simp, by simpa using hF⟩
  | n :: ns, slots, rest, s, fuel, pol, w, hcif, hwf, hfresh, hnd, hF => by
    simp only [List.map_cons, List.cons_append] at hF
    obtain ⟨t, s1, ht1, ht2, hn, _, hr⟩ := hF.inv
    have hw := hwf n (by simp)
    simp only [wfName, Bool.and_eq_true] at hw
    have hdist : ∀ m ∈ slots.filterMap id, o.norm m ≠ o.norm n := by
      intro m hm heq
      have h1 : ((slots.filterMap id ++ n :: ns).map o.norm) = (slots.filterMap id).map o.norm ++ o.norm n :: ns.map o.norm := by simp
      rw [h1] at hnd
      exact (List.nodup_append.mp hnd).2.2 (o.norm m) (List.mem_map.mpr ⟨m, hm, rfl⟩) (o.norm n) (by simp) heq
    have hnd' : (((slots ++ [some n]).filterMap id ++ ns).map o.norm).Nodup := by
      simpa [List.filterMap_append] using hnd
    obtain ⟨s2, h1, h2⟩ := header_run o hv fs ls ns (slots ++ [some n]) rest (consume s1) fuel pol w hcif
      (fun m hm => hwf m (by simp [hm])) (fun m hm => hfresh m (by simp [hm])) hnd' hr
    refine ⟨s2, ?_, h2⟩
    have e : fuel + (n :: ns).length = (fuel + ns.length) + 1 := by simp; omega
    rw [e, headerLoop]
    simp only [bind_eq, pure_eq, P.bind, P.pure, hn, ht1, ht2, if_true, cstr_noNul hw.2,
      itemExists_false o hv n fs ls pol w hcif hw.1 (hfresh n (by simp)), Bool.false_eq_true, if_false,
      findHeaderName_noneG o slots n hw.1 hdist, h1]
    simp

theorem keepFrom_drop_col : ∀ (a b : List Str) (vs : List V), vs.length = a.length + 1 + b.length →
    keepFrom (a.map some ++ none :: b.map some) vs = vs.eraseIdx a.length
  | [], b, [], h => by simp at h; omega
  | [], b, v :: vs, h => by
    simp only [List.map_nil, List.nil_append, keepFrom, List.length_nil, List.eraseIdx_cons_zero]
    exact keepFrom_map_some b vs (by simp at h; omega)
  | x :: a, b, [], h => by simp at h; omega
  | x :: a, b, v :: vs, h => by
    simp only [List.map_cons, List.cons_append, keepFrom, List.length_cons, List.eraseIdx_cons_succ]
    rw [keepFrom_drop_col a b vs (by simp at h; omega)]

/-- **duplicate name in a loop header**: the header `ns₁ ++ [n'] ++ ns₂` where `n'` repeats (in any spelling) an item of the
    container or one of `ns₁`: CIF_DUP_ITEMNAME, the loop is created without that name and every packet loses that column -/
theorem dup_header_step (o : Opts) {path : Path} {put : Container → Cif} {code : Str} (hv : View o path put code)
    (ns1 ns2 : List Str) (n' : Str) (p0 : List Val) (ps : List (List Val)) (ty : TokType) (tx : Str) (ts : List TokSpec) (s : PS)
    (fuel : Nat) (w : W) (fs : List Container) (ls : List Loop) (isBlock : Bool) (hcif : w.cif = put (.mk code fs ls))
    (hwf : ∀ n ∈ ns1 ++ ns2, wfName n = true) (hfresh : ∀ n ∈ ns1 ++ ns2, o.norm n ∉ normNames o ls)
    (hnd : ((ns1 ++ ns2).map o.norm).Nodup) (hne : ns1 ++ ns2 ≠ [])
    (hname : wfName n' = true)
    (hdup : o.norm n' ∈ normNames o ls ∨ ∃ m ∈ ns1, o.norm m = o.norm n')
    (hlen : ∀ p ∈ p0 :: ps, p.length = ns1.length + 1 + ns2.length) (hwv : ∀ p ∈ p0 :: ps, wfVals o p = true)
    (hfuel : ns1.length + ns2.length + szPackets (p0 :: ps) + 3 ≤ fuel) (hterm : isTerminator ty = true)
    (hF : Feeds o s ((.loopKw, []) :: (ns1.map (fun n => (TokType.name, n)) ++ ((.name, n') ::
      (ns2.map (fun n => (TokType.name, n)) ++ (packetsToks (p0 :: ps) ++ (ty, tx) :: ts)))))) :
    ∃ s' r, elemsLoop o (fuel + 1) s (some path) isBlock acceptAll w
        = elemsLoop o fuel s' (some path) isBlock acceptAll
            { log := r :: w.log, cif := put (.mk code fs (ls ++ [mkLoop (ns1 ++ ns2)
                ((p0 :: ps).map (fun p => (denoteVals o.dia o.normKey p).eraseIdx ns1.length))])) }
      ∧ r.code = CIF_DUP_ITEMNAME ∧ Feeds o s' ((ty, tx) :: ts) := by
  obtain ⟨t, s1, hty, _, hn, _, hr⟩ := hF.inv
  obtain ⟨g, hg⟩ : ∃ g, fuel = (g + 1) + ns1.length := ⟨fuel - ns1.length - 1, by omega⟩
  -- the names in front of the duplicate
  obtain ⟨s2, h1, h2⟩ := header_run o hv fs ls ns1 [] _ (consume s1) (g + 1) acceptAll w hcif
    (fun n hn' => hwf n (by simp [hn'])) (fun n hn' => hfresh n (by simp [hn']))
    (by simp only [List.filterMap_nil, List.nil_append]; exact (List.nodup_append.mp (by simpa using hnd)).1) hr
  simp only [List.nil_append] at h1
  -- the duplicate
  obtain ⟨s3, r, h3, hr3, h4⟩ := dup_header_name_step o hv fs ls n' (ns1.map some) _ s2 g w hcif hname
    (by
      rcases hdup with h | ⟨m, hm, hmn⟩
      · exact Or.inl h
      · refine Or.inr ⟨m, by rw [filterMap_map_some]; exact hm, ?_, hmn⟩
        have := hwf m (by simp [hm]); simp only [wfName, Bool.and_eq_true] at this; exact this.1) h2
  -- the names behind it
  have hfirst : ∃ ty' tx' ts', packetsToks (p0 :: ps) ++ (ty, tx) :: ts = (ty', tx') :: ts' ∧ ty' ≠ .name := by
    have hp0 : p0 ≠ [] := by intro h; have := hlen p0 (by simp); rw [h] at this; simp at this; omega
    cases p0 with
    | nil => exact absurd rfl hp0
    | cons v r2 =>
      obtain ⟨a, b, c, h, hs, _⟩ := valToks_head v
      exact ⟨a, b, c ++ (valsToks r2 ++ (packetsToks ps ++ (ty, tx) :: ts)), by simp [packetsToks, valsToks, h, List.append_assoc],
        by intro e; rw [e] at hs; cases hs⟩
  obtain ⟨s4, h5, h6⟩ := header_structureG o hv fs ls ns2 (ns1.map some ++ [none]) _ s3 g acceptAll { w with log := r :: w.log } hcif
    (fun n hn' => hwf n (by simp [hn'])) (fun n hn' => hfresh n (by simp [hn']))
    (by simpa [List.filterMap_append, filterMap_map_some] using hnd) (by omega) hfirst h4
  have hslots : (ns1.map some ++ [none] ++ ns2.map some).filterMap id = ns1 ++ ns2 := by
    simp [List.filterMap_append, filterMap_map_some]
  have hhead : headerLoop o (some path) fuel (consume s1) [] acceptAll w
      = .ok (ns1.map some ++ [none] ++ ns2.map some, s4) { w with log := r :: w.log } := by
    rw [hg, h1, h3, h5]
  have hcreate := parseLoop_create o hv fs ls (ns1.map some ++ [none] ++ ns2.map some) (consume s1) s4 fuel acceptAll w
    { w with log := r :: w.log } hhead hcif (by rw [hslots]; exact hne)
    (by rw [hslots]; intro n hn'; have := hwf n hn'; simp only [wfName, Bool.and_eq_true] at this; exact this.1)
    (by rw [hslots]; exact hfresh) (by rw [hslots]; exact hnd)
  rw [hslots] at hcreate
  have hsl : (ns1.map some ++ [none] ++ ns2.map some).length = ns1.length + 1 + ns2.length := by simp; omega
  simp only [packetsToks, List.append_assoc] at h6
  obtain ⟨s5, lg, h7, hlg, h8⟩ := packetsG o hv fs ls (ns1.map some ++ [none] ++ ns2.map some) (ns1 ++ ns2) acceptAll [] (fun lg => lg = [])
    ((ty, tx) :: ts) ((ty, tx) :: ts) 1 (Nat.le_refl _)
    (packets_end_plain o fs ls _ _ acceptAll ty tx ts hterm)
    ps p0 (ns1.map some ++ [none] ++ ns2.map some) [] [] false s4 fuel
    { log := r :: w.log, cif := put (.mk code fs (ls ++ [mkLoop (ns1 ++ ns2) []])) } rfl
    (by intro h; have := hlen p0 (by simp); rw [h] at this; simp at this; omega)
    (by rw [hsl]; exact hlen p0 (by simp)) (by simp) (Nat.le_refl _) (fun q hq => by rw [hsl]; exact hlen q (by simp [hq]))
    (by simp) (hwv p0 (by simp)) (fun q hq => hwv q (by simp [hq])) (by simp only [szPackets] at hfuel; omega) h6
  subst hlg
  refine ⟨s5, r, ?_, hr3, h8⟩
  conv => lhs; rw [elemsLoop]
  simp only [bind_eq, pure_eq, P.bind, P.pure, hn, hty, hcreate]
  simp only [Nat.sub_self] at h7
  rw [h7]
  have hk : ∀ q ∈ p0 :: ps, keepFrom (ns1.map some ++ [none] ++ ns2.map some) (denoteVals o.dia o.normKey q)
      = (denoteVals o.dia o.normKey q).eraseIdx ns1.length := by
    intro q hq
    have e : ns1.map some ++ [none] ++ ns2.map some = ns1.map some ++ none :: ns2.map some := by simp
    rw [e]
    exact keepFrom_drop_col ns1 ns2 _ (by rw [denoteVals_length]; exact hlen q hq)
  have hmap : List.map (fun p => keepFrom (ns1.map some ++ [none] ++ ns2.map some) (denoteVals o.dia o.normKey p)) ps
      = List.map (fun p => (denoteVals o.dia o.normKey p).eraseIdx ns1.length) ps := by
    apply List.map_congr_left
    intro q hq
    exact hk q (by simp [hq])
  simp only [List.nil_append, List.append_nil, List.map_cons, hk p0 (by simp), hmap, List.singleton_append]


theorem dup_header_run (o : Opts) {path : Path} {put : Container → Cif} {code : Str} (hv : View o path put code)
    (pre post : List Item) (ns1 ns2 : List Str) (n' : Str) (p0 : List Val) (ps : List (List Val)) (seen seen2 : List Str)
    (rest : List TokSpec) (s : PS) (fuel : Nat) (w : W) (fs : List Container) (ls : List Loop) (isBlock : Bool)
    (hcif : w.cif = put (.mk code fs ls)) (hpre : wfItems o pre seen = true) (hseen : ∀ k ∈ normNames o ls, k ∈ seen)
    (hwf : ∀ n ∈ ns1 ++ ns2, wfName n = true)
    (hfresh : ∀ n ∈ ns1 ++ ns2, o.norm n ∉ normNames o (denoteItems o.dia o.normKey pre ls))
    (hnd : ((ns1 ++ ns2).map o.norm).Nodup) (hne : ns1 ++ ns2 ≠ []) (hname : wfName n' = true)
    (hdup : o.norm n' ∈ normNames o (denoteItems o.dia o.normKey pre ls) ∨ ∃ m ∈ ns1, o.norm m = o.norm n')
    (hlen : ∀ p ∈ p0 :: ps, p.length = ns1.length + 1 + ns2.length) (hwv : ∀ p ∈ p0 :: ps, wfVals o p = true)
    (hpost : wfItems o post seen2 = true)
    (hseen2 : ∀ k ∈ normNames o (denoteItems o.dia o.normKey pre ls ++ [mkLoop (ns1 ++ ns2)
        ((p0 :: ps).map (fun p => (denoteVals o.dia o.normKey p).eraseIdx ns1.length))]), k ∈ seen2)
    (hfuel : szItems pre + szItems post + (ns1.length + ns2.length + szPackets (p0 :: ps) + 3) + 1 ≤ fuel)
    (hnext : ∃ ty tx ts, itemsToks post ++ rest = (ty, tx) :: ts ∧ isTerminator ty = true)
    (hrest : lastIsLoop post = true → ∃ ty tx ts, rest = (ty, tx) :: ts ∧ isTerminator ty = true)
    (hF : Feeds o s (itemsToks pre ++ (((.loopKw, []) :: (ns1.map (fun n => (TokType.name, n)) ++ ((.name, n') ::
      (ns2.map (fun n => (TokType.name, n)) ++ packetsToks (p0 :: ps))))) ++ (itemsToks post ++ rest)))) :
    ∃ s' r, elemsLoop o (fuel + post.length + 1 + pre.length) s (some path) isBlock acceptAll w
        = elemsLoop o fuel s' (some path) isBlock acceptAll
            { log := r :: w.log, cif := put (.mk code fs (denoteItems o.dia o.normKey post
                (denoteItems o.dia o.normKey pre ls ++ [mkLoop (ns1 ++ ns2)
                  ((p0 :: ps).map (fun p => (denoteVals o.dia o.normKey p).eraseIdx ns1.length))]))) }
      ∧ r.code = CIF_DUP_ITEMNAME ∧ Feeds o s' rest := by
  obtain ⟨ty, tx, ts, hnx, hterm⟩ := hnext
  exact defect_run o hv pre post ((.loopKw, []) :: (ns1.map (fun n => (TokType.name, n)) ++ ((.name, n') ::
      (ns2.map (fun n => (TokType.name, n)) ++ packetsToks (p0 :: ps)))))
    (fun l => l ++ [mkLoop (ns1 ++ ns2) ((p0 :: ps).map (fun p => (denoteVals o.dia o.normKey p).eraseIdx ns1.length))])
    CIF_DUP_ITEMNAME (ns1.length + ns2.length + szPackets (p0 :: ps) + 3) seen seen2 rest s fuel w fs ls isBlock hcif hpre hseen hpost
    hseen2
    (by
      intro s1 w1 f hc hf hF1
      rw [hnx] at hF1 ⊢
      simp only [List.cons_append, List.append_assoc] at hF1
      exact dup_header_step o hv ns1 ns2 n' p0 ps ty tx ts s1 f w1 fs _ isBlock hc hwf hfresh hnd hne hname hdup hlen hwv hf hterm hF1)
    hfuel (fun _ => ⟨_, _, _, rfl, rfl⟩) hrest hF

/-! ### a table key that cannot be a table index (it holds a character CIF does not allow): the entry is dropped -/

/-- `… "k":value …}` where `cif_value_set_item_by_key` refuses the key: exactly one CIF_INVALID_INDEX, at the scanner's line behind
    the key; the value is parsed and dropped; the table is the entries before and the entries behind -/
theorem table_invalid_index_tail (o : Opts) (t : Tok) (s' : PS) (v : Val) (epost : List (Str × Presentation × Val))
    (X : List TokSpec) (fuel : Nat) (s1 : PS) (w1 : W) (acc1 : List (Str × Str × V))
    (hn : ∀ pol w, nextTok o s1 pol w = .ok (t, s') w) (hty : t.ty = .key) (hbad : hasDisallowed (cstr t.text) = true)
    (hwv : wfVal o v = true) (hepost : wfEntries o epost = true) (hf : szVal v + szEntries epost + 3 ≤ fuel)
    (hre : Feeds o (consume s') (valToks v ++ (entriesToks epost ++ (.ctable, [125]) :: X))) :
    ∃ s2 r, tableLoop o fuel s1 acc1 acceptAll w1
        = .ok (denoteEntries o.dia o.normKey epost acc1, s2) { w1 with log := r :: w1.log }
      ∧ r.code = CIF_INVALID_INDEX ∧ r.line = s'.scan.line ∧ Feeds o s2 X := by
  obtain ⟨F, rfl⟩ : ∃ F, fuel = F + 2 := ⟨fuel - 2, by omega⟩
  obtain ⟨vty, vtx, vts, hvt, hstart, _⟩ := valToks_head v
  have hr' := hre
  rw [hvt, List.cons_append] at hr'
  obtain ⟨t2, s2, hty2, htx2, hn2, ht2, hr2⟩ := hr'.inv
  have hpend : Feeds o s2 (valToks v ++ (entriesToks epost ++ (.ctable, [125]) :: X)) := by
    rw [hvt, List.cons_append, ← hty2, ← htx2]; exact Feeds.pending ht2 hr2
  let r0 : Report := ⟨CIF_INVALID_INDEX, (consume s').scan.line, (consume s').scan.col⟩
  obtain ⟨s3, h1, h2⟩ := value_structure o v _ s2 F acceptAll { w1 with log := r0 :: w1.log } hwv (by omega) hpend
  obtain ⟨s4, h4, h5⟩ := entries_structure o epost X s3 F acceptAll { w1 with log := r0 :: w1.log } acc1 hepost (by omega) h2
  refine ⟨s4, r0, ?_, rfl, rfl, h5⟩
  rw [tableLoop]
  simp only [bind_eq, pure_eq, P.bind, P.pure, hn, hty]
  rw [tableEntry]
  simp only [bind_eq, pure_eq, P.bind, P.pure, hbad, if_true, report_accept, hn2, hty2, hstart, h1, h4, r0]

end CifModel.Model.Parser
