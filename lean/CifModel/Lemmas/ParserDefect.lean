import CifModel.Lemmas.ParserStructure
/-
  Lemmas/ParserDefect — planted defects at the token level: one defective construct inside a run of well-formed items of a
  container (data block or save frame — any `View`), under the accept-all callback: exactly one report with the class's code,
  at the scanner line reached with the following token, and the content the documented recovery prescribes, the items before
  and behind the defect being parsed as if nothing had happened.
-/
set_option linter.unusedSimpArgs false

namespace CifModel.Model.Parser
open CifModel CifModel.Model CifModel.Model.Lexer CifModel.Spec.Grammar CifModel.Spec.Lexical
open CifModel.Gen.ErrCodes

theorem denoteItems_append (dia : Dialect) (nk : Str → Str) : ∀ (a b : List Item) (ls : List Loop),
    denoteItems dia nk (a ++ b) ls = denoteItems dia nk b (denoteItems dia nk a ls)
  | [], b, ls => rfl
  | .item n v :: r, b, ls => by simp only [List.cons_append, denoteItems]; exact denoteItems_append dia nk r b _
  | .loop ns ps :: r, b, ls => by simp only [List.cons_append, denoteItems]; exact denoteItems_append dia nk r b _

theorem report_accept (code : Code) (line col : Nat) (w : W) :
    report code line col acceptAll w = .ok () { w with log := ⟨code, line, col⟩ :: w.log } :=
  report_zero code line col acceptAll w rfl

/-! ### missing value: a data name that is not followed by a value — a synthetic unknown value -/

theorem missing_value_step (o : Opts) {path : Path} {put : Container → Cif} {code : Str} (hv : View o path put code)
    (n : Str) (ty : TokType) (tx : Str) (ts : List TokSpec) (s : PS) (fuel : Nat) (w : W) (fs : List Container) (ls : List Loop)
    (isBlock : Bool) (hcif : w.cif = put (.mk code fs ls)) (hname : wfName n = true) (hfresh : o.norm n ∉ normNames o ls)
    (hterm : isTerminator ty = true) (hF : Feeds o s ((.name, n) :: (ty, tx) :: ts)) :
    ∃ s' r, elemsLoop o (fuel + 1) s (some path) isBlock acceptAll w
        = elemsLoop o fuel s' (some path) isBlock acceptAll
            { log := r :: w.log, cif := put (.mk code fs (denoteItems o.dia o.normKey [.item n .unk] ls)) }
      ∧ r.code = CIF_MISSING_VALUE ∧ (∃ t, s'.tok = some t ∧ t.ty = ty ∧ t.text = tx ∧ r.line = s'.scan.line)
      ∧ Feeds o s' ((ty, tx) :: ts) := by
  simp only [wfName, Bool.and_eq_true] at hname
  obtain ⟨t, s1, hty, htx, hn, _, hr⟩ := hF.inv
  obtain ⟨t2, s2, hty2, htx2, hn2, ht2, hr2⟩ := hr.inv
  simp only [isTerminator, Bool.not_eq_true', Bool.or_eq_false_iff] at hterm
  refine ⟨s2, ⟨CIF_MISSING_VALUE, s2.scan.line, s2.scan.col - t2.text.length⟩, ?_, rfl, ⟨t2, ht2, hty2, htx2, rfl⟩,
    by rw [← hty2, ← htx2]; exact Feeds.pending ht2 hr2⟩
  conv => lhs; rw [elemsLoop]
  simp only [bind_eq, pure_eq, P.bind, P.pure, hn, hty, htx, cstr_noNul hname.2,
    itemExists_false o hv n fs ls acceptAll w hcif hname.1 hfresh, Bool.false_eq_true, if_false, hname.1, Bool.not_true, and_false]
  unfold parseItem
  simp only [bind_eq, pure_eq, P.bind, P.pure, hn2, hty2, hterm.1.1.1, hterm.1.1.2, Bool.false_eq_true, if_false, report_accept]
  rw [setValue_new o hv n .unk fs ls acceptAll
    ⟨⟨CIF_MISSING_VALUE, s2.scan.line, s2.scan.col - t2.text.length⟩ :: w.log, w.cif⟩ hcif hname.1 hfresh]
  simp [denoteItems, denoteVal]

/-- **missing value, universally**: any well-formed run `pre`, the name without value, any well-formed run `post` -/
theorem missing_value_run (o : Opts) {path : Path} {put : Container → Cif} {code : Str} (hv : View o path put code)
    (pre post : List Item) (n : Str) (seen seen2 : List Str) (rest : List TokSpec) (s : PS) (fuel : Nat) (w : W)
    (fs : List Container) (ls : List Loop) (isBlock : Bool) (hcif : w.cif = put (.mk code fs ls))
    (hpre : wfItems o pre seen = true) (hseen : ∀ k ∈ normNames o ls, k ∈ seen)
    (hname : wfName n = true) (hfresh : o.norm n ∉ normNames o (denoteItems o.dia o.normKey pre ls))
    (hpost : wfItems o post seen2 = true)
    (hseen2 : ∀ k ∈ normNames o (denoteItems o.dia o.normKey (pre ++ [.item n .unk]) ls), k ∈ seen2)
    (hfuel : szItems pre + szItems post + 1 ≤ fuel)
    (hpostne : post ≠ [] ∨ ∃ ty tx ts, rest = (ty, tx) :: ts ∧ isTerminator ty = true)
    (hrest : lastIsLoop post = true → ∃ ty tx ts, rest = (ty, tx) :: ts ∧ isTerminator ty = true)
    (hF : Feeds o s (itemsToks pre ++ ((.name, n) :: (itemsToks post ++ rest)))) :
    ∃ s' r, elemsLoop o (fuel + post.length + 1 + pre.length) s (some path) isBlock acceptAll w
        = elemsLoop o fuel s' (some path) isBlock acceptAll
            { log := r :: w.log, cif := put (.mk code fs (denoteItems o.dia o.normKey (pre ++ [.item n .unk] ++ post) ls)) }
      ∧ r.code = CIF_MISSING_VALUE ∧ Feeds o s' rest := by
  -- the token behind the name ends the (missing) value
  have hnext : ∃ ty tx ts, itemsToks post ++ rest = (ty, tx) :: ts ∧ isTerminator ty = true := by
    cases post with
    | nil =>
      rcases hpostne with h | h
      · exact absurd rfl h
      · simpa [itemsToks] using h
    | cons i r =>
      obtain ⟨ty, tx, ts, h, ht⟩ := itemToks_head i
      exact ⟨ty, tx, ts ++ (itemsToks r ++ rest), by simp [itemsToks, h], ht⟩
  obtain ⟨ty, tx, ts, hnx, hterm⟩ := hnext
  obtain ⟨s1, h1, h2⟩ := items_structure o hv pre seen _ s (fuel + post.length + 1) acceptAll w fs ls isBlock hcif hpre hseen
    (by omega) (fun _ => ⟨_, _, _, rfl, rfl⟩) hF
  rw [hnx] at h2
  obtain ⟨s2, r, h3, hr, _, h4⟩ := missing_value_step o hv n ty tx ts s1 (fuel + post.length)
    { w with cif := put (.mk code fs (denoteItems o.dia o.normKey pre ls)) } fs _ isBlock rfl hname hfresh hterm h2
  rw [← hnx] at h4
  obtain ⟨s3, h5, h6⟩ := items_structure o hv post seen2 rest s2 fuel acceptAll
    { log := r :: w.log, cif := put (.mk code fs (denoteItems o.dia o.normKey [.item n .unk] (denoteItems o.dia o.normKey pre ls))) }
    fs _ isBlock rfl hpost (by simpa [denoteItems_append] using hseen2) (by omega) hrest h4
  refine ⟨s3, r, ?_, hr, h6⟩
  rw [h1]
  have e : fuel + post.length + 1 = fuel + post.length + 1 := rfl
  rw [h3, h5]
  simp [denoteItems_append, denoteItems]


/-! ### the generic composition: well-formed run, ONE defective construct, well-formed run -/

/-- `D` = the tokens of the defective construct, `recover` = what the documented recovery makes of the loops of the container,
    `C` = the documented code; `hstep` = the behaviour of ONE iteration of the element loop on the construct -/
theorem defect_run (o : Opts) {path : Path} {put : Container → Cif} {code : Str} (hv : View o path put code)
    (pre post : List Item) (D : List TokSpec) (recover : List Loop → List Loop) (C : Code) (need : Nat)
    (seen seen2 : List Str) (rest : List TokSpec) (s : PS) (fuel : Nat) (w : W) (fs : List Container) (ls : List Loop) (isBlock : Bool)
    (hcif : w.cif = put (.mk code fs ls)) (hpre : wfItems o pre seen = true) (hseen : ∀ k ∈ normNames o ls, k ∈ seen)
    (hpost : wfItems o post seen2 = true)
    (hseen2 : ∀ k ∈ normNames o (recover (denoteItems o.dia o.normKey pre ls)), k ∈ seen2)
    (hstep : ∀ (s1 : PS) (w1 : W) (f : Nat), w1.cif = put (.mk code fs (denoteItems o.dia o.normKey pre ls)) → need ≤ f →
      Feeds o s1 (D ++ (itemsToks post ++ rest)) →
      ∃ s2 r, elemsLoop o (f + 1) s1 (some path) isBlock acceptAll w1
          = elemsLoop o f s2 (some path) isBlock acceptAll
              { log := r :: w1.log, cif := put (.mk code fs (recover (denoteItems o.dia o.normKey pre ls))) }
        ∧ r.code = C ∧ Feeds o s2 (itemsToks post ++ rest))
    (hfuel : szItems pre + szItems post + need + 1 ≤ fuel)
    (hpreTerm : lastIsLoop pre = true → ∃ ty tx ts, D ++ (itemsToks post ++ rest) = (ty, tx) :: ts ∧ isTerminator ty = true)
    (hrest : lastIsLoop post = true → ∃ ty tx ts, rest = (ty, tx) :: ts ∧ isTerminator ty = true)
    (hF : Feeds o s (itemsToks pre ++ (D ++ (itemsToks post ++ rest)))) :
    ∃ s' r, elemsLoop o (fuel + post.length + 1 + pre.length) s (some path) isBlock acceptAll w
        = elemsLoop o fuel s' (some path) isBlock acceptAll
            { log := r :: w.log, cif := put (.mk code fs (denoteItems o.dia o.normKey post (recover (denoteItems o.dia o.normKey pre ls)))) }
      ∧ r.code = C ∧ Feeds o s' rest := by
  obtain ⟨s1, h1, h2⟩ := items_structure o hv pre seen _ s (fuel + post.length + 1) acceptAll w fs ls isBlock hcif hpre hseen
    (by omega) hpreTerm hF
  obtain ⟨s2, r, h3, hr, h4⟩ := hstep s1 { w with cif := put (.mk code fs (denoteItems o.dia o.normKey pre ls)) } (fuel + post.length)
    rfl (by omega) h2
  obtain ⟨s3, h5, h6⟩ := items_structure o hv post seen2 rest s2 fuel acceptAll
    { log := r :: w.log, cif := put (.mk code fs (recover (denoteItems o.dia o.normKey pre ls))) } fs _ isBlock rfl hpost hseen2
    (by omega) hrest h4
  exact ⟨s3, r, by rw [h1, h3, h5], hr, h6⟩

/-! ### unexpected value: a value where a data name, keyword or header is expected — it is parsed and ignored -/

theorem unexpected_value_step (o : Opts) {path : Path} (v : Val) (next : List TokSpec) (s : PS) (fuel : Nat) (w : W) (isBlock : Bool)
    (hwv : wfVal o v = true) (hfuel : szVal v ≤ fuel) (hF : Feeds o s (valToks v ++ next)) :
    ∃ s' r, elemsLoop o (fuel + 1) s (some path) isBlock acceptAll w
        = elemsLoop o fuel s' (some path) isBlock acceptAll { w with log := r :: w.log }
      ∧ r.code = CIF_UNEXPECTED_VALUE ∧ Feeds o s' next := by
  obtain ⟨ty, tx, ts, hvt, hstart, hkey⟩ := valToks_head v
  have hF' := hF
  rw [hvt, List.cons_append] at hF'
  obtain ⟨t, s1, hty, htx, hn, ht, hr⟩ := hF'.inv
  have hpend : Feeds o s1 (valToks v ++ next) := by
    rw [hvt, List.cons_append, ← hty, ← htx]; exact Feeds.pending ht hr
  let r0 : Report := ⟨CIF_UNEXPECTED_VALUE, s1.scan.line, 1 + s1.scan.col - t.text.length⟩
  obtain ⟨s2, h1, h2⟩ := value_structure o v next s1 fuel acceptAll { w with log := r0 :: w.log } hwv hfuel hpend
  have hn1 := nextTok_pending o s1 t ht
  have hitem : parseItem o fuel s1 (some path) none acceptAll { w with log := r0 :: w.log } = .ok s2 { w with log := r0 :: w.log } := by
    unfold parseItem
    simp only [bind_eq, pure_eq, P.bind, P.pure, hn1, hty, hkey, hstart, if_true, Bool.false_eq_true, if_false, h1]
  refine ⟨s2, r0, ?_, rfl, h2⟩
  conv => lhs; rw [elemsLoop]
  cases ty <;> simp [isValueStart] at hstart <;>
    simp only [bind_eq, pure_eq, P.bind, P.pure, hn, hty, report_accept, hitem, r0]

/-! ### duplicate data name: the item is parsed and dropped -/

theorem itemExists_true (o : Opts) {path : Path} {put : Container → Cif} {code : Str} (hv : View o path put code)
    (n : Str) (fs : List Container) (ls : List Loop) (pol : Policy) (w : W) (hcif : w.cif = put (.mk code fs ls))
    (hvalid : isValidName true n = true) (hdup : o.norm n ∈ normNames o ls) :
    itemExists o path n pol w = .ok true w := by
  unfold itemExists
  simp only [hvalid, Bool.not_true, Bool.false_eq_true, if_false, bind_eq, pure_eq, P.bind, P.pure, getCif, hcif, hv.get,
    (hasItem_iff o code fs ls _).mpr hdup]

theorem dup_name_step (o : Opts) {path : Path} {put : Container → Cif} {code : Str} (hv : View o path put code)
    (n : Str) (v : Val) (next : List TokSpec) (s : PS) (fuel : Nat) (w : W) (fs : List Container) (ls : List Loop) (isBlock : Bool)
    (hcif : w.cif = put (.mk code fs ls)) (hname : wfName n = true) (hdup : o.norm n ∈ normNames o ls)
    (hwv : wfVal o v = true) (hfuel : szVal v ≤ fuel) (hF : Feeds o s ((.name, n) :: (valToks v ++ next))) :
    ∃ s' r, elemsLoop o (fuel + 1) s (some path) isBlock acceptAll w
        = elemsLoop o fuel s' (some path) isBlock acceptAll { log := r :: w.log, cif := put (.mk code fs ls) }
      ∧ r.code = CIF_DUP_ITEMNAME ∧ Feeds o s' next := by
  simp only [wfName, Bool.and_eq_true] at hname
  obtain ⟨t, s1, hty, htx, hn, _, hr⟩ := hF.inv
  obtain ⟨ty2, tx2, ts2, hvt, hstart, hkey⟩ := valToks_head v
  have hr' := hr
  rw [hvt, List.cons_append] at hr'
  obtain ⟨t2, s2, hty2, htx2, hn2, ht2, hr2⟩ := hr'.inv
  have hpend : Feeds o s2 (valToks v ++ next) := by
    rw [hvt, List.cons_append, ← hty2, ← htx2]; exact Feeds.pending ht2 hr2
  let r0 : Report := ⟨CIF_DUP_ITEMNAME, (consume s1).scan.line, (consume s1).scan.col⟩
  obtain ⟨s3, h1, h2⟩ := value_structure o v next s2 fuel acceptAll { w with log := r0 :: w.log } hwv hfuel hpend
  have hitem : parseItem o fuel (consume s1) (some path) none acceptAll { w with log := r0 :: w.log } = .ok s3 { w with log := r0 :: w.log } := by
    unfold parseItem
    simp only [bind_eq, pure_eq, P.bind, P.pure, hn2, hty2, hkey, hstart, if_true, Bool.false_eq_true, if_false, h1]
  refine ⟨s3, r0, ?_, rfl, h2⟩
  rw [← hcif]
  conv => lhs; rw [elemsLoop]
  simp only [bind_eq, pure_eq, P.bind, P.pure, hn, hty, htx, cstr_noNul hname.2,
    itemExists_true o hv n fs ls acceptAll w hcif hname.1 hdup, if_true, report_accept, hitem, r0]


/-! ### empty loop: a loop header that is not followed by any value — the (packet-less) loop is accepted -/

theorem empty_loop_step (o : Opts) {path : Path} {put : Container → Cif} {code : Str} (hv : View o path put code)
    (ns : List Str) (ty : TokType) (tx : Str) (ts : List TokSpec) (s : PS) (fuel : Nat) (w : W) (fs : List Container) (ls : List Loop)
    (isBlock : Bool) (hcif : w.cif = put (.mk code fs ls)) (hns : ns ≠ []) (hwf : ∀ n ∈ ns, wfName n = true)
    (hfresh : ∀ n ∈ ns, o.norm n ∉ normNames o ls) (hnd : (ns.map o.norm).Nodup) (hfuel : ns.length + 2 ≤ fuel)
    (hterm : isTerminator ty = true) (hnn : ty ≠ .name)
    (hF : Feeds o s ((.loopKw, []) :: (ns.map (fun n => (TokType.name, n)) ++ (ty, tx) :: ts))) :
    ∃ s' r, elemsLoop o (fuel + 1) s (some path) isBlock acceptAll w
        = elemsLoop o fuel s' (some path) isBlock acceptAll { log := r :: w.log, cif := put (.mk code fs (ls ++ [mkLoop ns []])) }
      ∧ r.code = CIF_EMPTY_LOOP ∧ Feeds o s' ((ty, tx) :: ts) := by
  obtain ⟨t, s1, hty, _, hn, _, hr⟩ := hF.inv
  obtain ⟨s2, h1, h2⟩ := header_structure o hv fs ls ns [] ((ty, tx) :: ts) (consume s1) fuel acceptAll w hcif hwf hfresh
    (by simpa using hnd) (by omega) ⟨ty, tx, ts, rfl, hnn⟩ hr
  simp only [List.nil_append, List.map_nil] at h1
  obtain ⟨t3, s3, hty3, htx3, hn3, ht3, hr3⟩ := h2.inv
  obtain ⟨g, hg⟩ : ∃ g, fuel = g + 1 := ⟨fuel - 1, by omega⟩
  simp only [isTerminator, Bool.not_eq_true', Bool.or_eq_false_iff, beq_eq_false_iff_ne, ne_eq] at hterm
  have hvalid : ns.any (fun n => !isValidName true n) = false := by
    rw [List.any_eq_false]
    intro n hn'
    have := hwf n hn'
    simp only [wfName, Bool.and_eq_true] at this
    simp [this.1]
  have hclash : ns.any (fun n => hasItem o.norm (.mk code fs ls) (o.norm n)) = false := by
    rw [List.any_eq_false]
    intro n hn'
    simp [hasItem_false o code fs ls _ (hfresh n hn')]
  have hempty : (ns.map some).isEmpty = false := by
    cases ns with
    | nil => exact absurd rfl hns
    | cons a r => rfl
  have hnsE : ns.isEmpty = false := by
    cases ns with
    | nil => exact absurd rfl hns
    | cons a r => rfl
  refine ⟨s3, ⟨CIF_EMPTY_LOOP, s3.scan.line, s3.scan.col - t3.text.length⟩, ?_, rfl,
    by rw [← hty3, ← htx3]; exact Feeds.pending ht3 hr3⟩
  conv => lhs; rw [elemsLoop]
  simp only [bind_eq, pure_eq, P.bind, P.pure, hn, hty]
  unfold parseLoop
  simp only [bind_eq, pure_eq, P.bind, P.pure, h1, hempty, Bool.false_eq_true, if_false, filterMap_map_some, hnsE, hvalid,
    getCif, setCif, hcif, hv.get, hv.upd, hclash, hasDup_false _ hnd, Bool.or_false, Container.code, Container.frames,
    Container.loops]
  conv => lhs; rw [hg, packetsLoop]
  simp [bind_eq, pure_eq, P.bind, P.pure, hn3, hty3, hterm.1.1.1, hterm.1.1.2, hterm.1.2, hterm.2, report_accept, mkLoop, hg]


/-! ### the classes, universally over the surrounding runs -/

theorem unexpected_value_run (o : Opts) {path : Path} {put : Container → Cif} {code : Str} (hv : View o path put code)
    (pre post : List Item) (v : Val) (seen seen2 : List Str) (rest : List TokSpec) (s : PS) (fuel : Nat) (w : W)
    (fs : List Container) (ls : List Loop) (isBlock : Bool) (hcif : w.cif = put (.mk code fs ls))
    (hpre : wfItems o pre seen = true) (hseen : ∀ k ∈ normNames o ls, k ∈ seen) (hnoloop : lastIsLoop pre = false)
    (hwv : wfVal o v = true) (hpost : wfItems o post seen2 = true)
    (hseen2 : ∀ k ∈ normNames o (denoteItems o.dia o.normKey pre ls), k ∈ seen2)
    (hfuel : szItems pre + szItems post + szVal v + 1 ≤ fuel)
    (hrest : lastIsLoop post = true → ∃ ty tx ts, rest = (ty, tx) :: ts ∧ isTerminator ty = true)
    (hF : Feeds o s (itemsToks pre ++ (valToks v ++ (itemsToks post ++ rest)))) :
    ∃ s' r, elemsLoop o (fuel + post.length + 1 + pre.length) s (some path) isBlock acceptAll w
        = elemsLoop o fuel s' (some path) isBlock acceptAll
            { log := r :: w.log, cif := put (.mk code fs (denoteItems o.dia o.normKey (pre ++ post) ls)) }
      ∧ r.code = CIF_UNEXPECTED_VALUE ∧ Feeds o s' rest := by
  have := defect_run o hv pre post (valToks v) id CIF_UNEXPECTED_VALUE (szVal v) seen seen2 rest s fuel w fs ls isBlock hcif hpre hseen
    hpost hseen2
    (by
      intro s1 w1 f hc hf hF1
      obtain ⟨s2, r, h1, h2, h3⟩ := unexpected_value_step o (path := path) v _ s1 f w1 isBlock hwv hf hF1
      refine ⟨s2, r, ?_, h2, h3⟩
      rw [h1]; simp only [id]; rw [← hc])
    hfuel (by intro h; rw [hnoloop] at h; cases h) hrest hF
  simpa [denoteItems_append] using this

theorem dup_name_run (o : Opts) {path : Path} {put : Container → Cif} {code : Str} (hv : View o path put code)
    (pre post : List Item) (n : Str) (v : Val) (seen seen2 : List Str) (rest : List TokSpec) (s : PS) (fuel : Nat) (w : W)
    (fs : List Container) (ls : List Loop) (isBlock : Bool) (hcif : w.cif = put (.mk code fs ls))
    (hpre : wfItems o pre seen = true) (hseen : ∀ k ∈ normNames o ls, k ∈ seen)
    (hname : wfName n = true) (hdup : o.norm n ∈ normNames o (denoteItems o.dia o.normKey pre ls))
    (hwv : wfVal o v = true) (hpost : wfItems o post seen2 = true)
    (hseen2 : ∀ k ∈ normNames o (denoteItems o.dia o.normKey pre ls), k ∈ seen2)
    (hfuel : szItems pre + szItems post + szVal v + 1 ≤ fuel)
    (hrest : lastIsLoop post = true → ∃ ty tx ts, rest = (ty, tx) :: ts ∧ isTerminator ty = true)
    (hF : Feeds o s (itemsToks pre ++ (((.name, n) :: valToks v) ++ (itemsToks post ++ rest)))) :
    ∃ s' r, elemsLoop o (fuel + post.length + 1 + pre.length) s (some path) isBlock acceptAll w
        = elemsLoop o fuel s' (some path) isBlock acceptAll
            { log := r :: w.log, cif := put (.mk code fs (denoteItems o.dia o.normKey (pre ++ post) ls)) }
      ∧ r.code = CIF_DUP_ITEMNAME ∧ Feeds o s' rest := by
  have := defect_run o hv pre post ((.name, n) :: valToks v) id CIF_DUP_ITEMNAME (szVal v) seen seen2 rest s fuel w fs ls isBlock hcif hpre
    hseen hpost hseen2
    (by
      intro s1 w1 f hc hf hF1
      simp only [List.cons_append, List.append_assoc] at hF1
      exact dup_name_step o hv n v _ s1 f w1 fs _ isBlock hc hname hdup hwv hf hF1)
    hfuel (fun _ => ⟨_, _, _, rfl, rfl⟩) hrest hF
  simpa [denoteItems_append] using this

theorem empty_loop_run (o : Opts) {path : Path} {put : Container → Cif} {code : Str} (hv : View o path put code)
    (pre post : List Item) (ns : List Str) (seen seen2 : List Str) (rest : List TokSpec) (s : PS) (fuel : Nat) (w : W)
    (fs : List Container) (ls : List Loop) (isBlock : Bool) (hcif : w.cif = put (.mk code fs ls))
    (hpre : wfItems o pre seen = true) (hseen : ∀ k ∈ normNames o ls, k ∈ seen)
    (hns : ns ≠ []) (hwf : ∀ n ∈ ns, wfName n = true)
    (hfresh : ∀ n ∈ ns, o.norm n ∉ normNames o (denoteItems o.dia o.normKey pre ls)) (hnd : (ns.map o.norm).Nodup)
    (hpost : wfItems o post seen2 = true)
    (hseen2 : ∀ k ∈ normNames o (denoteItems o.dia o.normKey pre ls ++ [mkLoop ns []]), k ∈ seen2)
    (hfuel : szItems pre + szItems post + (ns.length + 2) + 1 ≤ fuel)
    (hnext : ∃ ty tx ts, itemsToks post ++ rest = (ty, tx) :: ts ∧ isTerminator ty = true ∧ ty ≠ .name)
    (hrest : lastIsLoop post = true → ∃ ty tx ts, rest = (ty, tx) :: ts ∧ isTerminator ty = true)
    (hF : Feeds o s (itemsToks pre ++ (((.loopKw, []) :: ns.map (fun n => (TokType.name, n))) ++ (itemsToks post ++ rest)))) :
    ∃ s' r, elemsLoop o (fuel + post.length + 1 + pre.length) s (some path) isBlock acceptAll w
        = elemsLoop o fuel s' (some path) isBlock acceptAll
            { log := r :: w.log,
              cif := put (.mk code fs (denoteItems o.dia o.normKey post (denoteItems o.dia o.normKey pre ls ++ [mkLoop ns []]))) }
      ∧ r.code = CIF_EMPTY_LOOP ∧ Feeds o s' rest := by
  obtain ⟨ty, tx, ts, hnx, hterm, hnn⟩ := hnext
  exact defect_run o hv pre post ((.loopKw, []) :: ns.map (fun n => (TokType.name, n))) (fun l => l ++ [mkLoop ns []]) CIF_EMPTY_LOOP
    (ns.length + 2) seen seen2 rest s fuel w fs ls isBlock hcif hpre hseen hpost hseen2
    (by
      intro s1 w1 f hc hf hF1
      rw [hnx] at hF1 ⊢
      simp only [List.cons_append, List.append_assoc] at hF1
      exact empty_loop_step o hv ns ty tx ts s1 f w1 fs _ isBlock hc hns hwf hfresh hnd hf hterm hnn hF1)
    hfuel (fun _ => ⟨_, _, _, rfl, rfl⟩) hrest hF


/-! ### data before the first block header: parsed into an anonymous block -/

theorem elemToks_head_ty (e : Elem) : ∃ ty tx ts, elemToks e = (ty, tx) :: ts ∧ (ty = .name ∨ ty = .loopKw ∨ ty = .frameHead) := by
  cases e with
  | plain i =>
    cases i with
    | item n v => exact ⟨_, _, _, rfl, Or.inl rfl⟩
    | loop ns ps => exact ⟨_, _, _, rfl, Or.inr (Or.inl rfl)⟩
  | frame c b => exact ⟨_, _, _, rfl, Or.inr (Or.inr rfl)⟩

/-- elements `e :: es` that stand where a block header is expected (at the start of the input, or behind a complete block whose
    content they cannot belong to): CIF_NO_BLOCK_HEADER, and they are parsed into a data block with the empty code -/
theorem no_block_header_step (o : Opts) (hstore : o.store = true) (hmfd : o.maxFrameDepth ≠ 0) (e : Elem) (es : List Elem)
    (rest : List TokSpec) (s : PS) (fuel : Nat) (w : W)
    (hnew : ∀ c ∈ w.cif, codeIs o.norm (o.norm []) c = false) (hwb : wfElems o (e :: es) [] [] = true)
    (hfuel : szElems (e :: es) + (e :: es).length + 3 ≤ fuel) (hrest : blockFollow rest)
    (hF : Feeds o s (elemsToks (e :: es) ++ rest)) :
    ∃ s' r, blocksLoop o (fuel + 1) s acceptAll w
        = blocksLoop o fuel s' acceptAll { log := r :: w.log, cif := w.cif ++ [denoteBlock o.dia o.normKey { code := [], body := e :: es }] }
      ∧ r.code = CIF_NO_BLOCK_HEADER ∧ Feeds o s' rest := by
  obtain ⟨ty, tx, ts, hhead, hty0⟩ := elemToks_head_ty e
  have hF' := hF
  simp only [elemsToks, List.append_assoc] at hF'
  rw [hhead, List.cons_append] at hF'
  obtain ⟨t, s1, hty, htx, hn, ht, hr⟩ := hF'.inv
  have hpend : Feeds o s1 (elemsToks (e :: es) ++ rest) := by
    simp only [elemsToks, List.append_assoc]
    rw [hhead, List.cons_append, ← hty, ← htx]; exact Feeds.pending ht hr
  obtain ⟨X, hX⟩ : ∃ X, fuel = X + 1 := ⟨fuel - 1, by omega⟩
  obtain ⟨g, hg⟩ : ∃ g, X = (g + 1) + (e :: es).length := ⟨X - (e :: es).length - 1, by omega⟩
  obtain ⟨r0, hr0⟩ : ∃ r0 : Report, r0 = ⟨CIF_NO_BLOCK_HEADER, s1.scan.line, s1.scan.col - t.text.length⟩ := ⟨_, rfl⟩
  obtain ⟨s2, h1, h2⟩ := elems_structure o w.cif [] hnew hmfd (e :: es) [] [] rest s1 (g + 1) acceptAll
    { log := r0 :: w.log, cif := w.cif ++ [.mk [] [] []] } [] [] rfl hwb (by intro k hk; simp [normNames] at hk) (by intro c hc; cases hc)
    (by omega) (blockFollow_term hrest) hpend
  rw [← hg] at h1
  obtain ⟨ty3, tx3, ts3, rfl, hfol⟩ := hrest
  obtain ⟨t3, s3, hty3, htx3, hn3, ht3, hr3⟩ := h2.inv
  refine ⟨s3, r0, ?_, by rw [hr0], by rw [← hty3, ← htx3]; exact Feeds.pending ht3 hr3⟩
  have hpacked : allPacked (denoteElems o.dia o.normKey (e :: es) [] []).2 :=
    allPacked_denoteElems o (e :: es) [] [] [] [] hwb (by intro l hl; cases hl)
  have hv := View.block o w.cif [] hnew
  have hany : w.cif.any (codeIs o.norm (o.norm [])) = false := by
    rw [List.any_eq_false]; intro c hc; simp [hnew c hc]
  have hpark : nextTok o s1 acceptAll { log := r0 :: w.log, cif := w.cif ++ [.mk [] [] []] } = .ok (t, s1) _ :=
    nextTok_pending o s1 t ht _ _
  conv => lhs; rw [blocksLoop]
  have hbody : parseContainer o fuel s1 (some [o.norm []]) true acceptAll { log := r0 :: w.log, cif := w.cif ++ [.mk [] [] []] }
      = .ok s3 { log := r0 :: w.log, cif := w.cif ++ [denoteBlock o.dia o.normKey { code := [], body := e :: es }] } := by
    rw [hX, parseContainer]
    simp only [bind_eq, pure_eq, P.bind, P.pure, h1]
    rw [elemsLoop]
    rcases hfol with h | h <;>
      simp only [bind_eq, pure_eq, P.bind, P.pure, hn3, hty3, h, if_true, getCif, setCif, hv.upd, pruneC_packed _ _ _ hpacked,
        denoteBlock]
  rcases hty0 with h | h | h <;>
    simp only [bind_eq, pure_eq, P.bind, P.pure, hn, hty, h, report_accept, hstore, if_true, getCif, setCif, hany,
      Bool.false_eq_true, if_false, ← hr0, hbody]

end CifModel.Model.Parser
