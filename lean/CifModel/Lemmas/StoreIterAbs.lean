import CifModel.Lemmas.StoreIterOk
import CifModel.Lemmas.StoreRefineS
import CifModel.Spec.StoreSpec
/-
  Lemmas/StoreIterAbs — what cif_pktitr_next_packet delivers, stated on the STORE, not through the model's own packet builder: for
  an iterator tied to its store (`IterOk`) the packet holds, for every item of the loop in the loop's order, exactly the value stored
  for that item in the row delivered (the unknown value when none is stored) — and that row is the first row of the loop that has
  not yet been passed.
-/
namespace CifModel.Store
open Gen.ErrCodes

/-- the value stored for item `n` of container `cid` in row `r` (the primary key of item_value), the unknown value if none -/
def cellK (d : Db) (cid : Nat) (n : Str) (r : Nat) : V :=
  ((d.values.find? (fun v => v.cid == cid && v.name == n && v.rowNum == r)).map (·.val)).getD .unk

theorem cellK_cell (d : Db) (cid : Nat) (j : ItemRow) (r : Nat) : cellK d cid j.name r = cell d cid j r := rfl

/-- `fillPacket` on entries that are still unknown for the names of `g`, `g` naming no item twice: every entry gets the value of
    the row of `g` with its name, entries without such a row stay -/
theorem fillPacket_result : ∀ (g : List ValueRow) (p : List (Str × V)), g.Pairwise (fun a b => a.name ≠ b.name) →
    (∀ x ∈ g, ∃ e ∈ p, e.1 = x.name) → (∀ e ∈ p, (∃ x ∈ g, x.name = e.1) → e.2 = V.unk) →
    fillPacket p g = some (p.map (fun e => (e.1, match g.find? (fun x => x.name == e.1) with | some x => x.val | none => e.2)))
  | [], p, _, _, _ => by simp [fillPacket]
  | x :: xs, p, hd, hin, hunk => by
    rw [List.pairwise_cons] at hd
    unfold fillPacket
    obtain ⟨e0, he0, he0n⟩ := hin x List.mem_cons_self
    have hcond : p.any (fun e => e.1 == x.name && e.2.kindCode == 5) = true := by
      refine List.any_eq_true.mpr ⟨e0, he0, ?_⟩
      have := hunk e0 he0 ⟨x, List.mem_cons_self, he0n.symm⟩
      simp [he0n, this, V.kindCode]
    simp only [hcond, if_true]
    have ih := fillPacket_result xs (p.map (fun e => if e.1 == x.name then (e.1, x.val) else e)) hd.2
      (by
        intro y hy
        obtain ⟨e, he, hen⟩ := hin y (List.mem_cons_of_mem _ hy)
        refine ⟨if e.1 == x.name then (e.1, x.val) else e, List.mem_map.mpr ⟨e, he, rfl⟩, ?_⟩
        split <;> exact hen)
      (by
        intro e' he' ⟨y, hy, hyn⟩
        obtain ⟨e, he, rfl⟩ := List.mem_map.mp he'
        by_cases hx : (e.1 == x.name) = true
        · exfalso
          simp only [hx, if_true] at hyn
          have : e.1 = x.name := by simpa using hx
          exact hd.1 y hy (by rw [hyn, this])
        · simp only [hx, Bool.false_eq_true, if_false] at hyn ⊢
          exact hunk e he ⟨y, List.mem_cons_of_mem _ hy, hyn⟩)
    rw [ih, List.map_map]
    congr 1
    apply List.map_congr_left
    intro e he
    simp only [Function.comp]
    by_cases hx : (e.1 == x.name) = true
    · have hxe : e.1 = x.name := by simpa using hx
      simp only [hx, if_true]
      have h1 : (x :: xs).find? (fun y => y.name == e.1) = some x := by
        simp [List.find?_cons, hxe]
      have h2 : xs.find? (fun y => y.name == e.1) = none := by
        apply List.find?_eq_none.mpr
        intro y hy hk
        have : y.name = e.1 := by simpa using hk
        exact hd.1 y hy (by rw [this, hxe])
      rw [h1, h2]
    · simp only [hx, Bool.false_eq_true, if_false]
      have hne : (x.name == e.1) = false := by
        cases hb : (x.name == e.1) with
        | false => rfl
        | true => exfalso; apply hx; have : x.name = e.1 := by simpa using hb
                  simp [this]
      simp [List.find?_cons, hne]

theorem valueKey_unique : ∀ (vs : List ValueRow), vs.Pairwise ValueKeyNe → ∀ a ∈ vs, ∀ b ∈ vs, a.cid = b.cid → a.name = b.name → a.rowNum = b.rowNum → a = b
  | [], _, a, ha, _, _, _, _, _ => nomatch ha
  | x :: xs, hp, a, ha, b, hb, h1, h2, h3 => by
    rw [List.pairwise_cons] at hp
    rcases List.mem_cons.mp ha with rfl | ha' <;> rcases List.mem_cons.mp hb with rfl | hb'
    · rfl
    · exact absurd ⟨h1, h2, h3⟩ (hp.1 b hb')
    · exact absurd ⟨h1.symm, h2.symm, h3.symm⟩ (hp.1 a ha')
    · exact valueKey_unique xs hp.2 a ha' b hb' h1 h2 h3

/-- in a list sorted by row number whose elements all have row ≥ `a`, the elements with row `a` are exactly `takeWhile (== a)` -/
theorem mem_takeWhile_sorted (a : Nat) : ∀ l : List ValueRow, l.Pairwise (fun x y => x.rowNum ≤ y.rowNum) → (∀ x ∈ l, a ≤ x.rowNum) →
    ∀ y ∈ l, y.rowNum = a → y ∈ l.takeWhile (fun x => x.rowNum == a)
  | [], _, _, y, hy, _ => by cases hy
  | x :: xs, hp, hge, y, hy, hya => by
    rw [List.pairwise_cons] at hp
    have hxa : x.rowNum = a := by
      rcases List.mem_cons.mp hy with rfl | hy'
      · exact hya
      · have := hp.1 y hy'; have := hge x List.mem_cons_self; omega
    have hx : (x.rowNum == a) = true := by simp [hxa]
    simp only [List.takeWhile_cons, hx, if_true]
    rcases List.mem_cons.mp hy with rfl | hy'
    · exact List.mem_cons_self
    · exact List.mem_cons_of_mem _ (mem_takeWhile_sorted a xs hp.2 (fun z hz => hge z (List.mem_cons_of_mem _ hz)) y hy' hya)

/-- cif_pktitr_next_packet on a tied iterator with rows pending: the packet delivered holds, for every item of the loop in the loop's
    order, exactly the value STORED for that item in the first pending row (the unknown value when none is stored), and the iterator
    moves on to that row -/
theorem nextPacket_delivers (s : Store) (it : Iter) (d : Db) (h : IterOk it d) (hinv : Inv d) (hs : s.autocommit = false)
    (r : ValueRow) (rest : List ValueRow) (hrows : it.rows = r :: rest) :
    nextPacket s it = ({ it with rows := it.rows.dropWhile (fun x => x.rowNum == r.rowNum), prev := (r.rowNum : Int),
                                 finished := (it.rows.dropWhile (fun x => x.rowNum == r.rowNum)).isEmpty },
                       .ok (it.names.map (fun n => (n, cellK d it.cid n r.rowNum)))) := by
  have hfin : it.finished = false := by rw [h.fin, hrows]; rfl
  have hsorted := h.sorted
  rw [hrows] at hsorted
  have hge : ∀ x ∈ r :: rest, r.rowNum ≤ x.rowNum := by
    intro x hx
    rcases List.mem_cons.mp hx with rfl | hx
    · exact Nat.le_refl _
    · exact (List.pairwise_cons.mp hsorted).1 x hx
  let g := (r :: rest).takeWhile (fun x => x.rowNum == r.rowNum)
  have hgsub : ∀ x ∈ g, x ∈ it.rows ∧ x.rowNum = r.rowNum := by
    intro x hx
    exact ⟨by rw [hrows]; exact (List.takeWhile_sublist _).subset hx, by simpa using mem_takeWhile_pred _ _ _ hx⟩
  have hgall : ∀ y ∈ it.rows, y.rowNum = r.rowNum → y ∈ g := by
    intro y hy hya
    rw [hrows] at hy
    exact mem_takeWhile_sorted r.rowNum (r :: rest) hsorted hge y hy hya
  -- the group names every item at most once
  have hgd : g.Pairwise (fun a b => a.name ≠ b.name) := by
    have hk : g.Pairwise ValueKeyNe := by
      have := h.keys; rw [hrows] at this
      exact this.sublist (List.takeWhile_sublist _)
    refine List.Pairwise.imp_of_mem ?_ hk
    intro a b ha hb hab hn
    exact hab ⟨by rw [(h.fresh a (hgsub a ha).1).2.1, (h.fresh b (hgsub b hb).1).2.1], hn, by rw [(hgsub a ha).2, (hgsub b hb).2]⟩
  have hres := fillPacket_result g (it.names.map (fun n => (n, V.unk))) hgd
    (by
      intro x hx
      have hf := (h.fresh x (hgsub x hx).1).2.2
      obtain ⟨i, hi, hin⟩ := List.any_eq_true.mp hf
      refine ⟨(x.name, V.unk), List.mem_map.mpr ⟨x.name, ?_, rfl⟩, rfl⟩
      rw [h.namesEq]
      exact List.mem_map.mpr ⟨i, hi, by simpa using hin⟩)
    (by
      intro e he _
      obtain ⟨n, _, rfl⟩ := List.mem_map.mp he
      rfl)
  -- what the group holds for a name is what the store holds
  have hcell : ∀ n ∈ it.names, (match g.find? (fun x => x.name == n) with | some x => x.val | none => V.unk) = cellK d it.cid n r.rowNum := by
    intro n hn
    unfold cellK
    cases hf : d.values.find? (fun v => v.cid == it.cid && v.name == n && v.rowNum == r.rowNum) with
    | some v =>
      have hvm := List.mem_of_find?_eq_some hf
      have hvk := List.find?_some hf
      simp only [Bool.and_eq_true, beq_iff_eq] at hvk
      have hinloop : (d.loopItems it.cid it.loopNum).any (fun i => i.name == v.name) = true := by
        rw [h.namesEq] at hn
        obtain ⟨i, hi, rfl⟩ := List.mem_map.mp hn
        exact List.any_eq_true.mpr ⟨i, hi, by simp [hvk.1.2]⟩
      have hvr : v ∈ it.rows := h.complete v hvm hvk.1.1 hinloop ⟨r, by rw [hrows]; exact List.mem_cons_self, by omega⟩
      have hvg : v ∈ g := hgall v hvr hvk.2
      cases hg : g.find? (fun x => x.name == n) with
      | none =>
        have := List.find?_eq_none.mp hg v hvg
        simp [hvk.1.2] at this
      | some x =>
        have hxg := List.mem_of_find?_eq_some hg
        have hxn : x.name = n := by have := List.find?_some hg; simpa using this
        have hxv := (h.fresh x (hgsub x hxg).1)
        have : x = v := valueKey_unique d.values hinv.valuePK x hxv.1 v hvm (by rw [hxv.2.1, hvk.1.1]) (by rw [hxn, hvk.1.2]) (by rw [(hgsub x hxg).2, hvk.2])
        simp [this]
    | none =>
      cases hg : g.find? (fun x => x.name == n) with
      | none => rfl
      | some x =>
        exfalso
        have hxg := List.mem_of_find?_eq_some hg
        have hxn : x.name = n := by have := List.find?_some hg; simpa using this
        have hxv := (h.fresh x (hgsub x hxg).1)
        have := List.find?_eq_none.mp hf x hxv.1
        simp [hxv.2.1, hxn, (hgsub x hxg).2] at this
  unfold nextPacket
  simp only [hfin, hs, Bool.false_eq_true, if_false]
  rw [hrows]
  simp only []
  rw [hres]
  simp only [List.map_map]
  congr 1
  congr 1
  apply List.map_congr_left
  intro n hn
  simp only [Function.comp]
  rw [hcell n hn]

-- ---- strictly ascending lists of row numbers ------------------------------------------------------------------------------------------

theorem sorted_index_of_mem : ∀ (L : List Nat), L.Pairwise (· < ·) → ∀ m ∈ L, L[(L.filter (fun q => decide (q < m))).length]? = some m
  | [], _, m, hm => by cases hm
  | x :: xs, hp, m, hm => by
    rw [List.pairwise_cons] at hp
    by_cases hx : x < m
    · have hmx : m ∈ xs := by
        rcases List.mem_cons.mp hm with rfl | h
        · omega
        · exact h
      simp only [List.filter_cons, hx, decide_true, if_true, List.length_cons, List.getElem?_cons_succ]
      exact sorted_index_of_mem xs hp.2 m hmx
    · have hxm : x = m := by
        rcases List.mem_cons.mp hm with rfl | h
        · rfl
        · have := hp.1 m h; omega
      subst hxm
      have : xs.filter (fun q => decide (q < x)) = [] := by
        rw [List.filter_eq_nil_iff]
        intro q hq; have := hp.1 q hq; simp; omega
      simp [List.filter_cons, this]

theorem sorted_count_le : ∀ (L : List Nat), L.Pairwise (· < ·) → ∀ m ∈ L,
    (L.filter (fun q => decide (q ≤ m))).length = (L.filter (fun q => decide (q < m))).length + 1
  | [], _, m, hm => by cases hm
  | x :: xs, hp, m, hm => by
    rw [List.pairwise_cons] at hp
    by_cases hx : x < m
    · have hmx : m ∈ xs := by
        rcases List.mem_cons.mp hm with rfl | h
        · omega
        · exact h
      have hle : x ≤ m := by omega
      simp only [List.filter_cons, hx, hle, decide_true, if_true, List.length_cons]
      rw [sorted_count_le xs hp.2 m hmx]
    · have hxm : x = m := by
        rcases List.mem_cons.mp hm with rfl | h
        · rfl
        · have := hp.1 m h; omega
      subst hxm
      have h1 : xs.filter (fun q => decide (q < x)) = [] := by
        rw [List.filter_eq_nil_iff]; intro q hq; have := hp.1 q hq; simp; omega
      have h2 : xs.filter (fun q => decide (q ≤ x)) = [] := by
        rw [List.filter_eq_nil_iff]; intro q hq; have := hp.1 q hq; simp; omega
      simp [List.filter_cons, h1, h2]

theorem sorted_filter_ne_eraseIdx : ∀ (L : List Nat), L.Pairwise (· < ·) → ∀ (m idx : Nat), L[idx]? = some m →
    L.filter (fun q => !(q == m)) = L.eraseIdx idx
  | [], _, m, idx, h => by simp at h
  | x :: xs, hp, m, idx, h => by
    rw [List.pairwise_cons] at hp
    cases idx with
    | zero =>
      simp at h; subst h
      have : xs.filter (fun q => !(q == x)) = xs := by
        rw [List.filter_eq_self]; intro q hq; have := hp.1 q hq; simp; omega
      simp [List.filter_cons, this]
    | succ k =>
      simp only [List.getElem?_cons_succ] at h
      have hm : m ∈ xs := List.mem_of_getElem? h
      have hne : (x == m) = false := by have := hp.1 m hm; simp; omega
      simp only [List.filter_cons, hne, Bool.not_false, if_true, List.eraseIdx_cons_succ]
      rw [sorted_filter_ne_eraseIdx xs hp.2 m k h]

theorem map_set_of_agree {β} (f f' : Nat → β) : ∀ (L : List Nat), L.Pairwise (· < ·) → ∀ (m idx : Nat), L[idx]? = some m →
    (∀ q ∈ L, q ≠ m → f' q = f q) → L.map f' = (L.map f).set idx (f' m)
  | [], _, m, idx, h, _ => by simp at h
  | x :: xs, hp, m, idx, h, hag => by
    rw [List.pairwise_cons] at hp
    cases idx with
    | zero =>
      simp at h; subst h
      simp only [List.map_cons, List.set_cons_zero]
      congr 1
      apply List.map_congr_left
      intro q hq
      exact hag q (List.mem_cons_of_mem _ hq) (by have := hp.1 q hq; omega)
    | succ k =>
      simp only [List.getElem?_cons_succ] at h
      have hm : m ∈ xs := List.mem_of_getElem? h
      simp only [List.map_cons, List.set_cons_succ]
      rw [hag x List.mem_cons_self (by have := hp.1 m hm; omega)]
      congr 1
      exact map_set_of_agree f f' xs hp.2 m k h (fun q hq hne => hag q (List.mem_cons_of_mem _ hq) hne)

-- ---- where a tied iterator stands in its loop -------------------------------------------------------------------------------------------

/-- with rows pending, the passed rows are those below the first pending row -/
theorem doneIn_pending (it : Iter) (d : Db) (h : IterOk it d) (r : ValueRow) (rest : List ValueRow) (hrows : it.rows = r :: rest) :
    it.doneIn d = ((d.loopRows it.cid it.loopNum).filter (fun q => decide (q < r.rowNum))).length ∧
    r.rowNum ∈ d.loopRows it.cid it.loopNum := by
  have hsorted := h.sorted
  rw [hrows] at hsorted
  have hrm : r ∈ it.rows := by rw [hrows]; exact List.mem_cons_self
  refine ⟨?_, (h.future r hrm).1⟩
  unfold Iter.doneIn
  congr 1
  apply List.filter_congr
  intro q hq
  unfold Iter.pend
  apply Bool.eq_iff_iff.mpr
  simp only [Bool.not_eq_true', decide_eq_true_eq]
  constructor
  · intro hnp
    rcases Nat.lt_or_ge q r.rowNum with hlt | hge
    · exact hlt
    · exfalso
      obtain ⟨v, hv, hvc, hva, hvr⟩ := (mem_loopRows_iff _ _ _ _).mp hq
      have := h.complete v hv hvc hva ⟨r, hrm, by omega⟩
      have : it.rows.any (fun x => x.rowNum == q) = true := List.any_eq_true.mpr ⟨v, this, by simp [hvr]⟩
      rw [hnp] at this; cases this
  · intro hlt
    cases hb : it.rows.any (fun x => x.rowNum == q) with
    | false => rfl
    | true =>
      exfalso
      obtain ⟨x, hx, hxq⟩ := List.any_eq_true.mp hb
      have hxq' : x.rowNum = q := by simpa using hxq
      rw [hrows] at hx
      rcases List.mem_cons.mp hx with rfl | hx'
      · omega
      · have := (List.pairwise_cons.mp hsorted).1 x hx'; omega

/-- with a current packet, the passed rows are those up to the current row -/
theorem doneIn_current (it : Iter) (d : Db) (h : IterOk it d) (hp : 0 < it.prev) :
    it.doneIn d = ((d.loopRows it.cid it.loopNum).filter (fun q => decide (q ≤ it.prev.toNat))).length ∧
    it.prev.toNat ∈ d.loopRows it.cid it.loopNum := by
  refine ⟨?_, h.cur hp⟩
  unfold Iter.doneIn
  congr 1
  apply List.filter_congr
  intro q hq
  unfold Iter.pend
  apply Bool.eq_iff_iff.mpr
  simp only [Bool.not_eq_true', decide_eq_true_eq]
  constructor
  · intro hnp
    rcases Nat.lt_or_ge it.prev.toNat q with hlt | hge
    · exfalso
      obtain ⟨x, hx, hxq⟩ := h.above hp q hq (by omega)
      have : it.rows.any (fun x => x.rowNum == q) = true := List.any_eq_true.mpr ⟨x, hx, by simp [hxq]⟩
      rw [hnp] at this; cases this
    · exact hge
  · intro hle
    cases hb : it.rows.any (fun x => x.rowNum == q) with
    | false => rfl
    | true =>
      exfalso
      obtain ⟨x, hx, hxq⟩ := List.any_eq_true.mp hb
      have hxq' : x.rowNum = q := by simpa using hxq
      have := (h.future x hx).2
      omega

end CifModel.Store
