import CifModel.Lemmas.ParserTrace
import CifModel.Lemmas.ParserRect
import CifModel.Spec.DataModel
/-
  Lemmas/ParserStoreOps — the storage primitives of the parser model ARE the documented API functions (Spec/DataModel.lean, written
  from cif.h by the store group): on a consistent, rectangular container

      SOp.setVal   = Container.specSetValue      (cif_container_set_value: every packet of the item's loop, or a new scalar)
      SOp.addPkt   = Loop.specAddPacket          (cif_loop_add_packet on the loop being filled, packet = names ↦ values)
      SOp.mkBlock  = specCreateBlock             (cif_create_block, code not yet in use)
      SOp.mkFrame  = Container.specCreateFrame   (cif_container_create_frame, code not yet in use in that container)
      SOp.mkLoop   = Container.specCreateLoop    (cif_container_create_loop, category NULL, names valid / absent / distinct)
      SOp.prune    = Container.specPrune         (cif_container_prune)

  so that a parse is, on the documented data model, the composition of the documented effects of the API calls it makes
  (Lemmas/ParserTrace.parse_replay).  The interesting one is set_value: the parser model writes the FIRST matching cell of each
  packet and extends the FIRST scalar loop, the specification speaks of "every cell whose name matches" and "the scalar loops" — they
  agree because names are unique after normalisation, packets are as wide as their header (C03_packets_rectangular) and there is at
  most one scalar loop (C03_consistent_after).
-/
set_option linter.unusedSimpArgs false
set_option linter.unusedVariables false

namespace CifModel.Model.Parser
open CifModel CifModel.Model CifModel.Model.Lexer CifModel.Gen.ErrCodes

/-! ### set_value -/

theorem nodup_names_of_mem (o : Opts) : ∀ (ls : List Loop) (l : Loop), (normNames o ls).Nodup → l ∈ ls → (l.names.map o.norm).Nodup
  | [], _, _, h => by cases h
  | a :: r, l, hn, hl => by
    rw [normNames_cons, List.nodup_append] at hn
    rcases List.mem_cons.mp hl with rfl | hl
    · exact hn.1
    · exact nodup_names_of_mem o r l hn.2.1 hl

/-- in a list without repetition the first index with a given value is the only one -/
theorem findIdx?_unique {α} [BEq α] [LawfulBEq α] : ∀ (xs : List α) (k : α) (i j : Nat), xs.Nodup →
    xs.findIdx? (fun x => x == k) = some i → xs[j]? = some k → j = i
  | [], _, _, _, _, h, _ => by simp at h
  | x :: r, k, i, j, hn, hi, hj => by
    rw [List.nodup_cons] at hn
    by_cases hx : x = k
    · subst hx
      simp only [List.findIdx?_cons, beq_self_eq_true, if_true, Option.some.injEq] at hi
      subst hi
      cases j with
      | zero => rfl
      | succ j =>
        simp only [List.getElem?_cons_succ] at hj
        exact absurd (List.mem_of_getElem? hj) hn.1
    · have hb : (x == k) = false := by simpa using hx
      simp only [List.findIdx?_cons, hb, Bool.false_eq_true, if_false, Option.map_eq_some_iff] at hi
      obtain ⟨i', hi', rfl⟩ := hi
      cases j with
      | zero => simp only [List.getElem?_cons_zero, Option.some.injEq] at hj; exact absurd hj hx
      | succ j =>
        simp only [List.getElem?_cons_succ] at hj
        rw [findIdx?_unique r k i' j hn.2 hi' hj]

theorem findIdx?_spec {α} [BEq α] [LawfulBEq α] : ∀ (xs : List α) (k : α) (i : Nat),
    xs.findIdx? (fun x => x == k) = some i → xs[i]? = some k
  | [], _, _, h => by simp at h
  | x :: r, k, i, hi => by
    by_cases hx : x = k
    · subst hx
      simp only [List.findIdx?_cons, beq_self_eq_true, if_true, Option.some.injEq] at hi
      subst hi; rfl
    · have hb : (x == k) = false := by simpa using hx
      simp only [List.findIdx?_cons, hb, Bool.false_eq_true, if_false, Option.map_eq_some_iff] at hi
      obtain ⟨i', hi', rfl⟩ := hi
      simpa using findIdx?_spec r k i' hi'

/-- the item's cell in one packet: "set the first matching cell" = "every cell whose name matches" -/
theorem set_eq_spec (norm : Str → Str) (names : List Str) (k : Str) (i : Nat) (v : V) (p : List V)
    (hn : (names.map norm).Nodup) (hi : names.findIdx? (fun n => norm n == k) = some i) (hp : p.length = names.length) :
    p.set i v = (List.range names.length).map (fun j => if norm (names.getD j []) == k then v else p.getD j .unk) := by
  have hi' : (names.map norm).findIdx? (fun x => x == k) = some i := by
    rw [List.findIdx?_map]; exact hi
  apply List.ext_getElem
  · simp [hp]
  · intro j h1 h2
    simp only [List.length_map, List.length_range] at h2
    simp only [List.getElem_map, List.getElem_range, List.getElem_set]
    have hj : names.getD j [] = names[j] := by simp [List.getD_eq_getElem?_getD, List.getElem?_eq_getElem h2]
    have hpj : p.getD j .unk = p[j]'(by omega) := by simp [List.getD_eq_getElem?_getD, List.getElem?_eq_getElem (show j < p.length by omega)]
    rw [hj, hpj]
    by_cases hij : i = j
    · subst hij
      have := findIdx?_spec (names.map norm) k i hi'
      simp only [List.getElem?_map, List.getElem?_eq_getElem h2, Option.map_some, Option.some.injEq] at this
      simp [this]
    · have hne : ¬ norm names[j] = k := by
        intro e
        apply hij
        have hj' : (names.map norm)[j]? = some k := by simp [List.getElem?_eq_getElem h2, e]
        exact (findIdx?_unique (names.map norm) k i j hn hi' hj').symm
      simp [hij, hne]

theorem setAll_spec (norm : Str → Str) (k : Str) (v : V) (l : Loop) (hn : (l.names.map norm).Nodup) (hr : LoopRect l) :
    setAll norm k v l = if l.specHasItem norm k then
        { l with packets := l.packets.map (fun p => (List.range l.names.length).map (fun i =>
            if norm (l.names.getD i []) == k then v else p.getD i .unk)) } else l := by
  unfold setAll
  cases hf : l.names.findIdx? (fun n => norm n == k) with
  | none =>
    have : l.specHasItem norm k = false := by
      simp only [Loop.specHasItem, List.any_eq_false]
      intro n hn'
      rw [List.findIdx?_eq_none_iff] at hf
      simpa using hf n hn'
    simp [this]
  | some i =>
    have : l.specHasItem norm k = true := by
      simp only [Loop.specHasItem, List.any_eq_true]
      have hf' : (l.names.map norm).findIdx? (fun x => x == k) = some i := by
        rw [List.findIdx?_map]; exact hf
      have h1 := findIdx?_spec (l.names.map norm) k i hf'
      simp only [List.getElem?_map, Option.map_eq_some_iff] at h1
      obtain ⟨n, hn1, hn2⟩ := h1
      exact ⟨n, List.mem_of_getElem? hn1, by simp [hn2]⟩
    simp only [this, if_true]
    congr 1
    apply List.map_congr_left
    intro p hp
    exact set_eq_spec norm l.names k i v p hn hf (hr p hp)

/-- the scalar loop after the new item: the model's case split on `isEmpty` is the specification's match on the packet list -/
theorem scalar_upd_eq (l : Loop) (name : Str) (v : V) :
    ({ l with names := l.names ++ [name],
              packets := if l.packets.isEmpty then [l.names.map (fun _ => V.unk) ++ [v]] else l.packets.map (· ++ [v]) } : Loop)
      = { l with names := l.names ++ [name], packets := match l.packets with
            | [] => [l.names.map (fun _ => V.unk) ++ [v]]
            | ps => ps.map (· ++ [v]) } := by
  cases h : l.packets <;> simp

theorem addScalar_spec (name : Str) (v : V) : ∀ (ls : List Loop), (ls.filter Parser.isScalarLoop).length ≤ 1 →
    addScalar ls name v =
      if ls.any Loop.specIsScalar then
        ls.map (fun l => if l.specIsScalar then
          { l with names := l.names ++ [name], packets := match l.packets with
              | [] => [l.names.map (fun _ => V.unk) ++ [v]]
              | ps => ps.map (· ++ [v]) } else l)
      else ls ++ [{ category := some [], names := [name], packets := [[v]] }]
  | [], _ => by simp [addScalar]
  | l :: r, h => by
    have hsame : ∀ x : Loop, Parser.isScalarLoop x = x.specIsScalar := fun _ => rfl
    simp only [addScalar]
    by_cases hs : Parser.isScalarLoop l = true
    · have hs' : l.specIsScalar = true := by rw [← hsame]; exact hs
      simp only [List.filter_cons, hs, if_true, List.length_cons] at h
      have hr : r.filter Parser.isScalarLoop = [] := List.eq_nil_of_length_eq_zero (by omega)
      have hr' : ∀ x ∈ r, x.specIsScalar = false := by
        intro x hx
        rw [List.filter_eq_nil_iff] at hr
        rw [← hsame]
        simpa using hr x hx
      simp only [hs, if_true, List.any_cons, hs', Bool.true_or, List.map_cons]
      rw [scalar_upd_eq]
      congr 1
      symm
      calc r.map _ = r.map id := List.map_congr_left (fun x hx => by simp [hr' x hx])
        _ = r := List.map_id r
    · have hs' : l.specIsScalar = false := by rw [← hsame]; simpa using hs
      simp only [List.filter_cons, hs, if_false] at h
      simp only [hs, if_false, List.any_cons, hs', Bool.false_or, List.map_cons, Bool.false_eq_true]
      rw [addScalar_spec name v r h]
      split <;> simp

/-- **cif_container_set_value**: on a consistent, rectangular container the parser model's primitive is the documented function -/
theorem setValueC_spec (o : Opts) (name : Str) (v : V) (c : Container) (hok : OkC o c) (hr : RectC c) :
    setValueC o name v c = Container.specSetValue o.norm c (o.norm name) name v := by
  obtain ⟨code, fs, ls⟩ := c
  rw [OkC_mk] at hok
  rw [RectC_mk] at hr
  have hany : hasItem o.norm (.mk code fs ls) (o.norm name) = ls.any (fun l => l.specHasItem o.norm (o.norm name)) := rfl
  simp only [setValueC, Container.specSetValue, hany, Container.code, Container.frames, Container.loops]
  by_cases h : ls.any (fun l => l.specHasItem o.norm (o.norm name)) = true
  · simp only [h, if_true]
    congr 1
    apply List.map_congr_left
    intro l hl
    exact setAll_spec o.norm _ v l (nodup_names_of_mem o ls l hok.1.1 hl) (hr.1 l hl)
  · simp only [h, if_false, Bool.false_eq_true]
    rw [addScalar_spec name v ls hok.1.2.1]
    split <;> rfl

/-! ### add_packet -/

theorem zip_lookup : ∀ (ks : List Str) (vs : List V), ks.Nodup → ks.length = vs.length →
    ks.map (fun k => (((ks.zip vs).find? (fun e => e.1 == k)).map (·.2)).getD V.unk) = vs
  | [], [], _, _ => rfl
  | [], _ :: _, _, h => by simp at h
  | _ :: _, [], _, h => by simp at h
  | k :: ks, v :: vs, hn, hl => by
    rw [List.nodup_cons] at hn
    simp only [List.length_cons, Nat.add_right_cancel_iff] at hl
    simp only [List.map_cons, List.zip_cons_cons, List.find?_cons, beq_self_eq_true, Option.map_some, Option.getD_some]
    congr 1
    have ih := zip_lookup ks vs hn.2 hl
    conv => rhs; rw [← ih]
    apply List.map_congr_left
    intro k' hk'
    have : (k == k') = false := by
      simp only [beq_eq_false_iff_ne, ne_eq]
      intro e; subst e; exact hn.1 hk'
    simp [this]

/-- **cif_loop_add_packet** on the loop being filled: the packet `names ↦ values` (keys normalised) is accepted by the documented
    function and adds exactly the row of values -/
theorem addPkt_spec (norm : Str → Str) (l : Loop) (vals : List V) (hn : (l.names.map norm).Nodup)
    (hlen : vals.length = l.names.length) (hne : vals ≠ []) (hs : ¬ (l.specIsScalar = true ∧ l.packets ≠ [])) :
    Loop.specAddPacket norm l ((l.names.map norm).zip vals) = .ok { l with packets := l.packets ++ [vals] } := by
  unfold Loop.specAddPacket
  have h1 : ((l.names.map norm).zip vals).isEmpty = false := by
    cases hv : vals with
    | nil => exact absurd hv hne
    | cons v vs =>
      cases hnm : l.names with
      | nil => rw [hv, hnm] at hlen; simp at hlen
      | cons n ns => simp
  have h2 : (l.specIsScalar && !l.packets.isEmpty) = false := by
    by_cases hsc : l.specIsScalar = true
    · have : l.packets = [] := by
        by_cases hp : l.packets = []
        · exact hp
        · exact absurd ⟨hsc, hp⟩ hs
      simp [this]
    · simp [hsc]
  have h3 : ((l.names.map norm).zip vals).any (fun e => !l.specHasItem norm e.1) = false := by
    rw [List.any_eq_false]
    intro e he
    have hm := (List.of_mem_zip he).1
    obtain ⟨n, hn1, hn2⟩ := List.mem_map.mp hm
    have : l.specHasItem norm e.1 = true := by
      simp only [Loop.specHasItem, List.any_eq_true]
      exact ⟨n, hn1, by simp [hn2]⟩
    simp [this]
  simp only [h1, h2, h3, Bool.false_eq_true, if_false]
  have := zip_lookup (l.names.map norm) vals hn (by simp [hlen])
  rw [List.map_map] at this
  simp only [Function.comp_def] at this
  rw [this]

/-! ### creation of containers -/

/-- **cif_create_block** with a valid code that is not in use -/
theorem mkBlock_spec (o : Opts) (cif : Cif) (code : Str) (lenient : Bool) (hfresh : cif.any (codeIs o.norm (o.norm code)) = false) :
    specCreateBlock o.norm cif (o.norm code) code true = .ok ((SOp.mkBlock code lenient).apply o cif) := by
  have : cif.any (fun c => o.norm c.code == o.norm code) = false := hfresh
  simp [specCreateBlock, SOp.apply, this]

/-- **cif_container_create_frame** with a valid code that is not in use in the container -/
theorem mkFrame_spec (o : Opts) (c : Container) (code : Str) (hfresh : c.frames.any (codeIs o.norm (o.norm code)) = false) :
    c.specCreateFrame o.norm (o.norm code) code true = .ok (Container.mk c.code (c.frames ++ [Container.mk code [] []]) c.loops) := by
  have : c.frames.any (fun f => o.norm f.code == o.norm code) = false := hfresh
  simp [Container.specCreateFrame, this]

/-! ### create_loop, prune (group gX: the two calls that had no function in Spec/DataModel) -/

theorem specKeysDistinct_hasDup : ∀ ks : List Str, specKeysDistinct ks = !hasDup ks
  | [] => rfl
  | k :: ks => by simp [specKeysDistinct, hasDup, specKeysDistinct_hasDup ks]

theorem specHasItem_hasItem (norm : Str → Str) (c : Container) (k : Str) : c.specHasItem norm k = hasItem norm c k := rfl

/-- **cif_container_create_loop** (category NULL) with names that are valid, absent from the container and pairwise distinct — what
    `SOp.docOk` records for every `mkLoop` of a trace: the documented function succeeds and adds exactly the empty loop the parser
    model adds -/
theorem mkLoop_spec (o : Opts) (c : Container) (names : List Str) (hne : names ≠ [])
    (hv : (names.any fun n => !isValidName true n) = false)
    (hcl : ((names.any fun n => hasItem o.norm c (o.norm n)) || hasDup (names.map o.norm)) = false) :
    c.specCreateLoop o.norm none names (isValidName true)
      = .ok (Container.mk c.code c.frames (c.loops ++ [{ category := none, names := names, packets := [] }])) := by
  have h1 : names.isEmpty = false := by cases names with | nil => exact absurd rfl hne | cons _ _ => rfl
  have h3 : (names.any (fun n => c.specHasItem o.norm (o.norm n)) || !specKeysDistinct (names.map o.norm)) = false := by
    rw [specKeysDistinct_hasDup, Bool.not_not]
    exact hcl
  unfold Container.specCreateLoop
  rw [h1, hv, h3]
  rfl

/-- **cif_container_prune** -/
theorem prune_spec' (c : Container) : pruneC c = c.specPrune := by
  cases c; rfl

end CifModel.Model.Parser
