import CifModel.Lemmas.StoreWOkQ
/-
  Lemmas/StoreRefineW — the loop-level refinement / code-agreement theorems with their hypotheses discharged from `Good` (what `WOk`
  gives for every managed CIF) and from the validity of the handle (what `inContract` tests): nothing about the history is assumed
  any more.
-/
namespace CifModel.Store
open Gen.ErrCodes World

theorem LH.valid_of_validB {l : LH} {d : Db} (hv : l.validB d = true) : l.Valid d := by
  unfold LH.validB at hv
  split at hv
  · rename_i x hf
    have hm := List.mem_of_find?_eq_some hf
    have hk := List.find?_some hf
    simp at hk hv
    exact ⟨x, hm, hk.1, hk.2, hv⟩
  · cases hv

theorem keysDistinct_pairwise : ∀ p : List (Str × V), keysDistinct p = true → p.Pairwise (fun a b => a.1 ≠ b.1)
  | [], _ => List.Pairwise.nil
  | e :: es, h => by
    unfold keysDistinct at h
    simp only [Bool.and_eq_true, Bool.not_eq_true'] at h
    refine List.pairwise_cons.mpr ⟨?_, keysDistinct_pairwise es h.2⟩
    intro b hb heq
    have : es.any (fun x => x.1 == e.1) = true := List.any_eq_true.mpr ⟨b, hb, by simp [heq]⟩
    rw [h.1] at this; cases this

theorem nest_snd {α} (s : Store) (body : Db → Except Code (Db × α)) : (s.nest body).2 = (body s.db).map Prod.snd := by
  have hb : s.beginNest.1.db = s.db := by unfold Store.beginNest; split <;> rfl
  unfold Store.nest
  generalize hbn : s.beginNest = b at hb
  obtain ⟨s1, top⟩ := b
  simp only [] at hb ⊢
  rw [hb]
  cases body s.db with
  | error c => rfl
  | ok r => rfl

theorem nest_db_ok {α} (s : Store) (body : Db → Except Code (Db × α)) (d2 : Db) (a : α) (hb : body s.db = .ok (d2, a)) :
    (s.nest body).1.db = d2 := by
  unfold Store.nest Store.beginNest
  by_cases hac : s.autocommit = true
  · simp only [hac, if_true, hb]
    simp [Store.commitNest, Store.commit, Store.autocommit]
  · simp only [hac, Bool.false_eq_true, if_false]
    have : s.save.db = s.db := rfl
    rw [this, hb]
    simp [Store.commitNest, Store.release, Store.save]

/-- cif_loop_add_packet through a valid handle, packet with distinct keys, in a `Good` store: the code is the documented model's; on
    success the handle's loop gains exactly the documented packet at the end and every other loop, the blocks and the frames are
    what they were; on failure the database is what it was.  No hypothesis about the history. -/
theorem addPacket_good (norm : Str → Str) (s : Store) (l : LH) (pkt : List (Str × V)) (hg : Good s.db) (hv : l.validB s.db = true)
    (hk : keysDistinct pkt = true) (hn : ItemsNormOK norm s.db) :
    ∃ x ∈ s.db.loops, x.cid = l.cid ∧ x.loopNum = l.loopNum ∧
      (addPacket s l pkt).2 = ((absLoop s.db x).specAddPacket norm pkt).map (fun _ => ()) ∧
      (match (addPacket s l pkt).2 with
       | .ok _ => (∀ cid', absLoops (addPacket s l pkt).1.db cid' = (s.db.loops.filter (fun y => y.cid == cid')).map (fun y =>
                    if y.cid == l.cid && y.loopNum == l.loopNum then
                      { absLoop s.db y with packets := (absLoop s.db y).packets ++ [packetFor s.db l.cid l.loopNum pkt] }
                    else absLoop s.db y)) ∧
                  (addPacket s l pkt).1.db.frames = s.db.frames ∧ (addPacket s l pkt).1.db.blocks = s.db.blocks
       | .error _ => (addPacket s l pkt).1.db = s.db) := by
  obtain ⟨x, hx, k1, k2, _⟩ := LH.valid_of_validB hv
  refine ⟨x, hx, k1, k2, ?_⟩
  by_cases hne : pkt = []
  · subst hne
    refine ⟨by simp [addPacket, Loop.specAddPacket, Except.map], ?_⟩
    simp [addPacket]
  · have hempty : pkt.isEmpty = false := by cases pkt with | nil => exact absurd rfl hne | cons a b => rfl
    have hcode := addPacketBody_code norm s.db l pkt x hg.inv hx ⟨k1, k2⟩ (hg.rows.rb.at _ _)
      (hg.rows.scalar_count hg.inv x hx) (keysDistinct_pairwise pkt hk) hn hne
    have hres : (addPacket s l pkt).2 = (addPacketBody l pkt s.db).map Prod.snd := by
      unfold addPacket; simp only [hempty, Bool.false_eq_true, if_false]; exact nest_snd s _
    have hcode' : (addPacket s l pkt).2 = ((absLoop s.db x).specAddPacket norm pkt).map (fun _ => ()) := by
      rw [hres, ← hcode]
    refine ⟨hcode', ?_⟩
    cases hr : (addPacket s l pkt).2 with
    | error c => exact (addPacket_error s l pkt c hr).1
    | ok u =>
      have hbody : ∃ d2, addPacketBody l pkt s.db = .ok (d2, u) := by
        rw [hres] at hr
        cases hb : addPacketBody l pkt s.db with
        | error c => rw [hb] at hr; cases hr
        | ok r => obtain ⟨d2, u'⟩ := r; exact ⟨d2, by cases u; cases u'; rfl⟩
      obtain ⟨d2, hb⟩ := hbody
      have hdb := nest_db_ok s _ d2 u hb
      have hdb' : (addPacket s l pkt).1.db = d2 := by
        have : (addPacket s l pkt).1 = (s.nest (addPacketBody l pkt)).1 := by
          unfold addPacket; simp only [hempty, Bool.false_eq_true, if_false]
        rw [this]; exact hdb
      simp only []
      rw [hdb']
      cases u
      exact addPacket_refines s.db d2 l pkt hg.inv (hg.rows.rb.at _ _) hne hb

/-- cif_loop_set_category through a valid handle: the documented model's code, nothing else assumed -/
theorem setCategory_good (s : Store) (l : LH) (cat : Option Str) (hg : Good s.db) (hv : l.validB s.db = true) :
    ∃ x ∈ s.db.loops, x.cid = l.cid ∧ x.loopNum = l.loopNum ∧
      (setCategory s l cat).2.2 = ((absLoop s.db x).specSetCategory cat).map (fun _ => ()) := by
  obtain ⟨x, hx, k1, k2, k3⟩ := LH.valid_of_validB hv
  exact ⟨x, hx, k1, k2, setCategory_code s l cat x hg.inv hx ⟨k1, k2⟩ k3.symm⟩

/-- in a `Good` store the values cif_container_get_value sees for an item are exactly the item's column in the documented model -/
theorem getValue_good (d : Db) (hg : Good d) (x : LoopRow) (hx : x ∈ d.loops) (i : ItemRow) (hi : i ∈ d.loopItems x.cid x.loopNum) :
    (d.valuesOf x.cid i.name).map (·.val) = absColumn d x i :=
  getValue_refines d x i hg.inv hi (fun r hr => hg.total x hx r hr i hi)

/-- in a `Good` store removing an item that is not the last of its loop keeps every packet of the loop -/
theorem removeItem_good (d : Db) (hg : Good d) (x : LoopRow) (i j0 : ItemRow) (hx : x ∈ d.loops)
    (hi : i ∈ d.loopItems x.cid x.loopNum) (hj0 : j0 ∈ d.loopItems x.cid x.loopNum) (hne0 : j0.name ≠ i.name) :
    let d' := d.removeItem x.cid i.name
    let keep := (d.loopItems x.cid x.loopNum).filter (fun j => !(j.name == i.name))
    absLoop d' x = { category := x.category, names := keep.map (·.nameOrig),
                     packets := (d.loopRows x.cid x.loopNum).map (fun r => keep.map (fun j => cell d x.cid j r)) } ∧
    (∀ y ∈ d.loops, ¬(y.cid = x.cid ∧ y.loopNum = x.loopNum) → absLoop d' y = absLoop d y) ∧
    d'.loops = d.loops ∧ d'.frames = d.frames ∧ d'.blocks = d.blocks :=
  removeItem_refines d x i j0 hg.inv hx hi hj0 hne0 (fun r hr j hj => hg.total x hx r hr j hj)

end CifModel.Store
