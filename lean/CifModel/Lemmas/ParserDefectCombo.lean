import CifModel.Lemmas.ParserDefectSeg
/-
  Lemmas/ParserDefectCombo (group gW) — two defects in ONE loop: a data name repeated in the loop header (dropped: CIF_DUP_ITEMNAME)
  AND a short last packet (CIF_PARTIAL_PACKET), for ALL instances.  (Group gJ: kernel-evaluated instances only.)

  parse_loop_packets indexes the columns with the FULL column index and skips the values of dropped columns (`keepFrom`); when the
  body ends inside a packet the retained columns that have no value yet are filled with unknown values (`unkFill`; the defect D6
  of /repo, fixed in c2dc55d, was exactly in this combination).  `short_row` states what is stored in the terms of the document:
  the packet padded with unknown values to the full width, then the dropped column erased — the same function of the row as for
  the complete packets.
-/
set_option linter.unusedSimpArgs false

namespace CifModel.Model.Parser
open CifModel CifModel.Model CifModel.Model.Lexer CifModel.Spec.Grammar CifModel.Spec.Lexical
open CifModel.Gen.ErrCodes

/-- a short row: the values kept, then unknown values for the retained columns that are left = the row padded to the full width
    with unknown values, with the values of the dropped columns removed -/
theorem keepFrom_pad : ∀ (sl : List (Option Str)) (vs : List V), vs.length ≤ sl.length →
    keepFrom sl vs ++ unkFill (sl.drop vs.length) = keepFrom sl (vs ++ List.replicate (sl.length - vs.length) V.unk)
  | [], [], _ => by simp [keepFrom, unkFill]
  | [], _ :: _, h => by simp at h
  | some x :: sl, [], _ => by
    have := keepFrom_pad sl [] (Nat.zero_le _)
    simp only [List.length_nil, List.drop_zero, List.nil_append, Nat.sub_zero, keepFrom] at this ⊢
    simp only [List.length_cons, List.replicate_succ, keepFrom]
    rw [← this]
    simp [unkFill]
  | none :: sl, [], _ => by
    have := keepFrom_pad sl [] (Nat.zero_le _)
    simp only [List.length_nil, List.drop_zero, List.nil_append, Nat.sub_zero, keepFrom] at this ⊢
    simp only [List.length_cons, List.replicate_succ, keepFrom]
    rw [← this]
    simp [unkFill]
  | some x :: sl, v :: vs, h => by
    have := keepFrom_pad sl vs (by simpa using h)
    simp only [List.length_cons, List.drop_succ_cons, keepFrom, List.cons_append, Nat.add_sub_add_right]
    rw [← this]
  | none :: sl, v :: vs, h => by
    have := keepFrom_pad sl vs (by simpa using h)
    simp only [List.length_cons, List.drop_succ_cons, keepFrom, List.cons_append, Nat.add_sub_add_right]
    rw [← this]

/-- … for one dropped column: pad, then erase that column -/
theorem short_row (a b : List Str) (vs : List V) (h : vs.length ≤ a.length + 1 + b.length) :
    keepFrom (a.map some ++ [none] ++ b.map some) vs ++ unkFill ((a.map some ++ [none] ++ b.map some).drop vs.length)
      = (vs ++ List.replicate (a.length + 1 + b.length - vs.length) V.unk).eraseIdx a.length := by
  have hl : (a.map some ++ [none] ++ b.map some).length = a.length + 1 + b.length := by simp; omega
  rw [keepFrom_pad _ vs (by rw [hl]; exact h), hl]
  have e : a.map some ++ [none] ++ b.map some = a.map some ++ none :: b.map some := by simp
  rw [e]
  exact keepFrom_drop_col a b _ (by simp; omega)

/-- **a duplicate name in the header AND a short last packet**: the header `ns₁ ++ [n'] ++ ns₂` in which `n'` repeats a name of the
    container or of `ns₁` (any spelling), complete packets `ps` (full width, the value of the dropped column included), a last
    packet `pv` with at least one and fewer than all values, then a token that ends the loop body.  EXACTLY two reports:
    CIF_DUP_ITEMNAME at the repeated name, CIF_PARTIAL_PACKET behind the last value; the loop has the names `ns₁ ++ ns₂`, every
    complete packet without the value of the dropped column, and the last packet = `pv` padded with unknown values to the full
    width, without the dropped column. -/
theorem dup_header_partial_step_at (o : Opts) {path : Path} {put : Container → Cif} {code : Str} (hv : View o path put code)
    (ns1 ns2 : List Str) (n' : Str) (ps : List (List Val)) (pv : List Val) (ty : TokType) (tx : Str) (ts : List TokSpec) (s : PS)
    (fuel : Nat) (w : W) (fs : List Container) (ls : List Loop) (isBlock : Bool) (hcif : w.cif = put (.mk code fs ls))
    (hwf : ∀ n ∈ ns1 ++ ns2, wfName n = true) (hfresh : ∀ n ∈ ns1 ++ ns2, o.norm n ∉ normNames o ls)
    (hnd : ((ns1 ++ ns2).map o.norm).Nodup) (hne : ns1 ++ ns2 ≠ [])
    (hname : wfName n' = true)
    (hdup : o.norm n' ∈ normNames o ls ∨ ∃ m ∈ ns1, o.norm m = o.norm n')
    (hlen : ∀ p ∈ ps, p.length = ns1.length + 1 + ns2.length) (hwv : ∀ p ∈ ps, wfVals o p = true)
    (hpv : pv ≠ []) (hpl : pv.length < ns1.length + 1 + ns2.length) (hwpv : wfVals o pv = true)
    (hfuel : ns1.length + ns2.length + szPackets ps + szVals pv + 4 ≤ fuel) (hterm : isTerminator ty = true)
    (hF : Feeds o s ((.loopKw, []) :: (ns1.map (fun n => (TokType.name, n)) ++ ((.name, n') ::
      (ns2.map (fun n => (TokType.name, n)) ++ (packetsToks ps ++ (valsToks pv ++ (ty, tx) :: ts))))))) :
    ∃ s' r1 r2, elemsLoop o (fuel + 1) s (some path) isBlock acceptAll w
        = elemsLoop o fuel s' (some path) isBlock acceptAll
            { log := r2 :: r1 :: w.log, cif := put (.mk code fs (ls ++ [mkLoop (ns1 ++ ns2)
                (ps.map (fun p => (denoteVals o.dia o.normKey p).eraseIdx ns1.length) ++
                  [(denoteVals o.dia o.normKey pv ++ List.replicate (ns1.length + 1 + ns2.length - pv.length) V.unk).eraseIdx
                    ns1.length])])) }
      ∧ r1.code = CIF_DUP_ITEMNAME ∧ r2.code = CIF_PARTIAL_PACKET ∧ Feeds o s' ((ty, tx) :: ts)
      ∧ RepAt o s (1 + ns1.length) r1
      ∧ RepAt o s (1 + ns1.length + 1 + ns2.length + (packetsToks ps).length + (valsToks pv).length) r2
      ∧ At o s (1 + ns1.length + 1 + ns2.length + (packetsToks ps).length + (valsToks pv).length) s' := by
  obtain ⟨t, s1, hty, _, hn, ht, hr⟩ := hF.inv
  obtain ⟨g, hg⟩ : ∃ g, fuel = (g + 1) + ns1.length := ⟨fuel - ns1.length - 1, by omega⟩
  -- the names in front of the duplicate
  obtain ⟨s2, h1, h2, ha2⟩ := header_run_at o hv fs ls ns1 [] _ (consume s1) (g + 1) acceptAll w hcif
    (fun n hn' => hwf n (by simp [hn'])) (fun n hn' => hfresh n (by simp [hn']))
    (by simp only [List.filterMap_nil, List.nil_append]; exact (List.nodup_append.mp (by simpa using hnd)).1) hr
  simp only [List.nil_append] at h1
  have a2 := ((At.refl o s).step hn ht).trans ha2
  -- the duplicate
  obtain ⟨s3, r1, h3, hr3, h4, hrep3, ha3⟩ := dup_header_name_step_at o hv fs ls n' (ns1.map some) _ s2 g w hcif hname
    (by
      rcases hdup with h | ⟨m, hm, hmn⟩
      · exact Or.inl h
      · refine Or.inr ⟨m, by rw [filterMap_map_some]; exact hm, ?_, hmn⟩
        have := hwf m (by simp [hm]); simp only [wfName, Bool.and_eq_true] at this; exact this.1) h2
  -- the names behind it; the token behind the header is the first token of a value
  have hval : ∀ (v : Val) (tl : List TokSpec), ∃ ty' tx' ts', valToks v ++ tl = (ty', tx') :: ts' ∧ ty' ≠ .name := by
    intro v tl
    obtain ⟨a, b, c, h, hs, _⟩ := valToks_head v
    exact ⟨a, b, c ++ tl, by simp [h], by intro e; rw [e] at hs; cases hs⟩
  have hfirst : ∃ ty' tx' ts', packetsToks ps ++ (valsToks pv ++ (ty, tx) :: ts) = (ty', tx') :: ts' ∧ ty' ≠ .name := by
    cases ps with
    | nil =>
      cases pv with
      | nil => exact absurd rfl hpv
      | cons v r => simpa [packetsToks, valsToks, List.append_assoc] using hval v _
    | cons p r =>
      have : p ≠ [] := by
        intro h; have := hlen p (by simp); rw [h] at this; simp at this; omega
      cases p with
      | nil => exact absurd rfl this
      | cons v r2 => simpa [packetsToks, valsToks, List.append_assoc] using hval v _
  obtain ⟨s4, h5, h6, ha6⟩ := header_structureG_at o hv fs ls ns2 (ns1.map some ++ [none]) _ s3 g acceptAll { w with log := r1 :: w.log } hcif
    (fun n hn' => hwf n (by simp [hn'])) (fun n hn' => hfresh n (by simp [hn']))
    (by simpa [List.filterMap_append, filterMap_map_some] using hnd) (by omega) hfirst h4
  have hslots : (ns1.map some ++ [none] ++ ns2.map some).filterMap id = ns1 ++ ns2 := by
    simp [List.filterMap_append, filterMap_map_some]
  have hhead : headerLoop o (some path) fuel (consume s1) [] acceptAll w
      = .ok (ns1.map some ++ [none] ++ ns2.map some, s4) { w with log := r1 :: w.log } := by
    rw [hg, h1, h3, h5]
  have hcreate := parseLoop_create o hv fs ls (ns1.map some ++ [none] ++ ns2.map some) (consume s1) s4 fuel acceptAll w
    { w with log := r1 :: w.log } hhead hcif (by rw [hslots]; exact hne)
    (by rw [hslots]; intro n hn'; have := hwf n hn'; simp only [wfName, Bool.and_eq_true] at this; exact this.1)
    (by rw [hslots]; exact hfresh) (by rw [hslots]; exact hnd)
  rw [hslots] at hcreate
  have hsl : (ns1.map some ++ [none] ++ ns2.map some).length = ns1.length + 1 + ns2.length := by simp; omega
  have a4 := (a2.trans ha3).trans ha6
  -- the body
  have hrow : ∀ (cur : List V), cur = [] →
      cur ++ keepFrom (ns1.map some ++ [none] ++ ns2.map some) (denoteVals o.dia o.normKey pv)
        ++ unkFill ((ns1.map some ++ [none] ++ ns2.map some).drop pv.length)
      = (denoteVals o.dia o.normKey pv ++ List.replicate (ns1.length + 1 + ns2.length - pv.length) V.unk).eraseIdx ns1.length := by
    intro cur hc
    subst hc
    have := short_row ns1 ns2 (denoteVals o.dia o.normKey pv) (by rw [denoteVals_length]; omega)
    rw [denoteVals_length] at this
    simpa using this
  have hbody : ∃ s5 r2, packetsLoop o (some path) (ns1.map some ++ [none] ++ ns2.map some) fuel s4 { idx := 0, some := false, cur := [] }
        acceptAll { log := r1 :: w.log, cif := put (.mk code fs (ls ++ [mkLoop (ns1 ++ ns2) []])) }
      = .ok s5 { log := r2 :: r1 :: w.log, cif := put (.mk code fs (ls ++ [mkLoop (ns1 ++ ns2)
          (ps.map (fun p => (denoteVals o.dia o.normKey p).eraseIdx ns1.length) ++
            [(denoteVals o.dia o.normKey pv ++ List.replicate (ns1.length + 1 + ns2.length - pv.length) V.unk).eraseIdx ns1.length])])) }
      ∧ r2.code = CIF_PARTIAL_PACKET ∧ Feeds o s5 ((ty, tx) :: ts) ∧ RepAt o s4 ((packetsToks ps).length + (valsToks pv).length) r2
      ∧ At o s4 ((packetsToks ps).length + (valsToks pv).length) s5 := by
    cases ps with
    | nil =>
      simp only [packetsToks, List.nil_append] at h6
      obtain ⟨s5, r2, h7, hr7, h8, hrep, ha8⟩ := partial_row_at o hv fs ls (ns1.map some ++ [none] ++ ns2.map some) (ns1 ++ ns2) ty tx ts hterm []
        pv (ns1.map some ++ [none] ++ ns2.map some) [] false s4 fuel
        { log := r1 :: w.log, cif := put (.mk code fs (ls ++ [mkLoop (ns1 ++ ns2) []])) } rfl (by rw [hsl]; exact hpl) (by simp)
        (Nat.le_refl _) (fun h => absurd h hpv) hwpv (by omega) h6
      refine ⟨s5, r2, ?_, hr7, h8, hrep.cast (by lenarith), ha8.cast (by lenarith)⟩
      simp only [Nat.sub_self] at h7
      rw [h7, hrow [] rfl]
      simp
    | cons p0 ps' =>
      simp only [packetsToks, List.append_assoc] at h6
      simp only [szPackets] at hfuel
      obtain ⟨s5, lg, h7, ⟨sE, haE, r2, hlg, hr7, hrepE⟩, h8, ha8⟩ := packetsG_at o hv fs ls (ns1.map some ++ [none] ++ ns2.map some)
        (ns1 ++ ns2) acceptAll
        [(denoteVals o.dia o.normKey pv ++ List.replicate (ns1.length + 1 + ns2.length - pv.length) V.unk).eraseIdx ns1.length]
        (fun sE lg => ∃ r, lg = [r] ∧ r.code = CIF_PARTIAL_PACKET ∧ RepAt o sE (valsToks pv).length r) (valsToks pv).length
        (valsToks pv ++ (ty, tx) :: ts) ((ty, tx) :: ts) (szVals pv + 1) (by omega)
        (by
          intro D w1 s1' g' hc hg' hFe
          obtain ⟨s6, r, h9, hr9, h10, hrep9, ha9⟩ := partial_row_at o hv fs ls (ns1.map some ++ [none] ++ ns2.map some) (ns1 ++ ns2) ty tx ts
            hterm D pv (ns1.map some ++ [none] ++ ns2.map some) [] true s1' g' w1 hc (by rw [hsl]; exact hpl) (by simp) (Nat.le_refl _)
            (fun h => absurd h hpv) hwpv hg' hFe
          refine ⟨s6, [r], ?_, ⟨r, rfl, hr9, hrep9⟩, h10, ha9⟩
          simp only [Nat.sub_self] at h9
          rw [h9, hrow [] rfl])
        ps' p0 (ns1.map some ++ [none] ++ ns2.map some) [] [] false s4 fuel
        { log := r1 :: w.log, cif := put (.mk code fs (ls ++ [mkLoop (ns1 ++ ns2) []])) } rfl
        (by intro h; have := hlen p0 (by simp); rw [h] at this; simp at this; omega)
        (by rw [hsl]; exact hlen p0 (by simp)) (by simp) (Nat.le_refl _) (fun q hq => by rw [hsl]; exact hlen q (by simp [hq]))
        (by simp) (hwv p0 (by simp)) (fun q hq => hwv q (by simp [hq])) (by omega) h6
      subst hlg
      refine ⟨s5, r2, ?_, hr7, h8, (RepAt.shift haE hrepE).cast (by lenarith), ha8.cast (by lenarith)⟩
      simp only [Nat.sub_self] at h7
      rw [h7]
      have hk : ∀ q ∈ p0 :: ps', keepFrom (ns1.map some ++ none :: ns2.map some) (denoteVals o.dia o.normKey q)
          = (denoteVals o.dia o.normKey q).eraseIdx ns1.length := by
        intro q hq
        exact keepFrom_drop_col ns1 ns2 _ (by rw [denoteVals_length]; exact hlen q hq)
      have hmap : List.map (fun p => keepFrom (ns1.map some ++ none :: ns2.map some) (denoteVals o.dia o.normKey p)) ps'
          = List.map (fun p => (denoteVals o.dia o.normKey p).eraseIdx ns1.length) ps' := by
        apply List.map_congr_left
        intro q hq
        exact hk q (by simp [hq])
      simp only [List.nil_append, List.map_cons, List.singleton_append, List.cons_append, List.append_assoc, hk p0 (by simp), hmap]
  obtain ⟨s5, r2, h7, hr7, h8, hrep7, ha8⟩ := hbody
  refine ⟨s5, r1, r2, ?_, hr3, hr7, h8, (RepAt.shift a2 hrep3).cast (by lenarith), (RepAt.shift a4 hrep7).cast (by lenarith),
    (a4.trans ha8).cast (by lenarith)⟩
  conv => lhs; rw [elemsLoop]
  simp only [bind_eq, pure_eq, P.bind, P.pure, hn, hty, hcreate, h7]

/-- … as a segment of the element loop with two reports (compose with `Seg.elems` / other segments for the surroundings) -/
theorem Seg.dup_header_partial (o : Opts) {path : Path} {put : Container → Cif} {code : Str} (hv : View o path put code)
    (isBlock : Bool) (ns1 ns2 : List Str) (n' : Str) (ps : List (List Val)) (pv : List Val) (fs : List Container) (ls : List Loop)
    (hwf : ∀ n ∈ ns1 ++ ns2, wfName n = true) (hfresh : ∀ n ∈ ns1 ++ ns2, o.norm n ∉ normNames o ls)
    (hnd : ((ns1 ++ ns2).map o.norm).Nodup) (hne : ns1 ++ ns2 ≠ [])
    (hname : wfName n' = true)
    (hdup : o.norm n' ∈ normNames o ls ∨ ∃ m ∈ ns1, o.norm m = o.norm n')
    (hlen : ∀ p ∈ ps, p.length = ns1.length + 1 + ns2.length) (hwv : ∀ p ∈ ps, wfVals o p = true)
    (hpv : pv ≠ []) (hpl : pv.length < ns1.length + 1 + ns2.length) (hwpv : wfVals o pv = true) :
    Seg o path put code isBlock
      ((.loopKw, []) :: (ns1.map (fun n => (TokType.name, n)) ++ ((.name, n') ::
        (ns2.map (fun n => (TokType.name, n)) ++ (packetsToks ps ++ valsToks pv)))))
      fs ls fs (ls ++ [mkLoop (ns1 ++ ns2)
        (ps.map (fun p => (denoteVals o.dia o.normKey p).eraseIdx ns1.length) ++
          [(denoteVals o.dia o.normKey pv ++ List.replicate (ns1.length + 1 + ns2.length - pv.length) V.unk).eraseIdx ns1.length])])
      [(CIF_DUP_ITEMNAME, 1 + ns1.length),
       (CIF_PARTIAL_PACKET, 1 + ns1.length + 1 + ns2.length + (packetsToks ps).length + (valsToks pv).length)]
      (1 + ns1.length + 1 + ns2.length + (packetsToks ps).length + (valsToks pv).length) 1
      (ns1.length + ns2.length + szPackets ps + szVals pv + 4) termFollow := by
  intro rest s fuel w hw hf hfol hF
  obtain ⟨ty, tx, ts, rfl, hterm⟩ := hfol
  obtain ⟨s', r1, r2, e, c1, c2, hfe, p1, p2, ha⟩ := dup_header_partial_step_at o hv ns1 ns2 n' ps pv ty tx ts s fuel w fs ls isBlock hw
    hwf hfresh hnd hne hname hdup hlen hwv hpv hpl hwpv hf hterm (by simpa [List.append_assoc] using hF)
  exact ⟨s', [r1, r2], by simpa using e, ⟨c1, p1, c2, p2, trivial⟩, hfe, ha⟩

end CifModel.Model.Parser
