import CifModel.Lemmas.ParseCBMirror
import CifModel.Lemmas.ParseCBTrace
/-
  CifModel.Lemmas.ParseCBDoc — stage 1 of the document-level theorems: on the (layout-free) token sequence of a
  well-formed document, and for a handler program that answers only CONTINUE / SKIP_CURRENT / SKIP_SIBLINGS (`NoStop`), the
  token parser consumes exactly the tokens of every element and behaves like the *structural* interpreter `k…` below,
  which applies the same handler steps to the document tree (no tokens, no fuel).
-/
namespace CifModel.Lemmas.ParseCB
open CifModel.ParseCB CifModel.Spec.Doc

/-- the program never answers END or a code -/
def NoStop (p : Prog) : Prop := ∀ k e, p k e = CONTINUE ∨ p k e = SKIP_CURRENT ∨ p k e = SKIP_SIBLINGS

theorem site_ok (p : Prog) (hp : NoStop p) (s : St) (e : Ev) (cur sib : Option Int) : (site p s e cur sib).1 = OK := by
  unfold site
  rcases hp s.n e with h | h | h
  · simp [h]
  · have : ¬ (SKIP_CURRENT = CONTINUE) := by decide
    simp [h, this]
  · have h1 : ¬ (SKIP_SIBLINGS = CONTINUE) := by decide
    have h2 : ¬ (SKIP_SIBLINGS = SKIP_CURRENT) := by decide
    simp [h, h1, h2]

-- ---- the structural interpreter (counter-based, CIF_OK path) ---------------------------------------------------------

/-- the values of one packet from column `col` on -/
def kRow (p : Prog) (names : List Str) : Nat → List V → St → St
  | _, [], s => s
  | col, v :: vs, s => kRow p names (col + 1) vs (itemStep p (names.getD col []) OK v s).2

def kPackets (p : Prog) (loopH : Bool) (names : List Str) : List (List V) → St → List (List V) → St × List (List V)
  | [], s, acc => (s, acc)
  | pk :: pks, s, acc =>
    let s2 := kRow p names 0 pk (pktStartStep p s).2
    let pe := pktEndStep p (List.zip names pk) s2
    kPackets p loopH names pks pe.2.1 (if pe.2.2 && loopH then acc ++ [pk] else acc)

def kHeader : List Str → St → St
  | [], s => s
  | nm :: ns, s => kHeader ns (if s.skip ≤ 0 then note s (.dataname nm) else s)

def kLoop (p : Prog) (cont : Bool) (names : List Str) (pks : List (List V)) (s : St) : St × Option Loop :=
  let s1 := kHeader names (inc s)
  let ls := loopStartStep p cont names s1
  let pk := kPackets p ls.2.2.1 names pks ls.2.1 []
  let e := loopEndStep p (if ls.2.2.1 then some names else none) OK pk.1
  (e.2, if ls.2.2.1 then some { category := none, names := names, packets := pk.2 } else none)

mutual
  def kElem (p : Prog) (cont : Bool) : Elem → St → Content → St × Content
    | .item nm v, s, c =>
      if s.skip > 0 then (dec (inc s), c)
      else
        let it := scalarItemStep p cont nm v (inc (note s (.dataname nm)))
        (dec it.2.1, match it.2.2 with | some (n, w) => c.setScalar n w | none => c)
    | .loop names pks, s, c =>
      let lp := kLoop p cont names pks (if s.skip ≤ 0 then note s (.keyword []) else s)
      (lp.1, match lp.2 with | some l => c.addLoop l | none => c)
    | .frame code body, s, c =>
      let fc := !(!cont ∨ s.skip > 0)
      let st := (contStartStep p fc false code s).2
      let el := kElems p fc body st .empty
      let ce := containerEnd p fc false code OK el.1 el.2
      (ce.2.1, if fc then c.addFrame (.mk code ce.2.2.frames ce.2.2.loops) else c)
  def kElems (p : Prog) (cont : Bool) : List Elem → St → Content → St × Content
    | [], s, c => (s, c)
    | e :: es, s, c => kElems p cont es (kElem p cont e s c).1 (kElem p cont e s c).2
end

def kBlock (p : Prog) (cif : Bool) (b : Block) (s : St) (acc : List Container) : St × List Container :=
  let bc := cif && decide (s.skip ≤ 0)
  let st := (contStartStep p bc true b.code s).2
  let el := kElems p bc b.body st .empty
  let ce := containerEnd p bc true b.code OK el.1 el.2
  (ce.2.1, if bc then acc ++ [.mk b.code ce.2.2.frames ce.2.2.loops] else acc)

def kBlocks (p : Prog) (cif : Bool) : List Block → St → List Container → St × List Container
  | [], s, acc => (s, acc)
  | b :: bs, s, acc => kBlocks p cif bs (kBlock p cif b s acc).1 (kBlock p cif b s acc).2

/-- the whole document -/
def kDoc (p : Prog) (cif : Bool) (d : Doc) (s : St) : St × List Container :=
  let st := (site p s (.cifStart cif) (some 1) (some 1)).2
  let b := kBlocks p cif d st []
  ((cifEndStep p cif OK b.1).2, b.2)

-- ---- the scanner position commutes with everything that is not token handling ------------------------------------------

@[simp] theorem atb_skip (s : St) (t : List Tok) (b : Bool) : (atb s t b).skip = s.skip := rfl
@[simp] theorem atb_n (s : St) (t : List Tok) (b : Bool) : (atb s t b).n = s.n := rfl
@[simp] theorem atb_atb (s : St) (t t' : List Tok) (b b' : Bool) : atb (atb s t b) t' b' = atb s t' b' := rfl
theorem inc_atb (s : St) (t : List Tok) (b : Bool) : inc (atb s t b) = atb (inc s) t b := by
  unfold inc; simp only [atb_skip]; by_cases h : s.skip > 0 <;> simp only [h, if_true, if_false] <;> rfl
theorem dec_atb (s : St) (t : List Tok) (b : Bool) : dec (atb s t b) = atb (dec s) t b := by
  unfold dec; simp only [atb_skip]; by_cases h : s.skip > 0 <;> simp only [h, if_true, if_false] <;> rfl
theorem note_atb (s : St) (t : List Tok) (b : Bool) (e : Ev) : note (atb s t b) e = atb (note s e) t b := rfl
theorem push_atb (s : St) (t : List Tok) (b : Bool) (e : Ev) : push (atb s t b) e = atb (push s e) t b := rfl
theorem setSkip_atb (s : St) (t : List Tok) (b : Bool) (d : Option Int) : setSkip (atb s t b) d = atb (setSkip s d) t b := by
  cases d <;> rfl

theorem site_atb (p : Prog) (s : St) (t : List Tok) (b : Bool) (e : Ev) (cur sib : Option Int) :
    site p (atb s t b) e cur sib = ((site p s e cur sib).1, atb (site p s e cur sib).2 t b) := by
  unfold site
  simp only [atb_n, push_atb, setSkip_atb]
  split
  · rfl
  · split
    · rfl
    · split <;> rfl

theorem pktStart_atb (p : Prog) (s : St) (t : List Tok) (b : Bool) :
    pktStartStep p (atb s t b) = ((pktStartStep p s).1, atb (pktStartStep p s).2 t b) := by
  unfold pktStartStep
  simp only [atb_skip, site_atb]
  by_cases h : s.skip > 0 <;> simp only [h, if_true, if_false] <;> rfl

theorem itemStep_atb (p : Prog) (nm : Str) (r : Int) (v : V) (s : St) (t : List Tok) (b : Bool) :
    itemStep p nm r v (atb s t b) = ((itemStep p nm r v s).1, atb (itemStep p nm r v s).2 t b) := by
  unfold itemStep
  simp only [atb_skip, site_atb]
  by_cases h : r = OK ∧ s.skip ≤ 0 <;> simp only [h, and_self, if_true, if_false]

theorem pktEnd_atb (p : Prog) (items : List (Str × V)) (s : St) (t : List Tok) (b : Bool) :
    pktEndStep p items (atb s t b) = ((pktEndStep p items s).1, atb (pktEndStep p items s).2.1 t b, (pktEndStep p items s).2.2) := by
  unfold pktEndStep
  simp only [atb_skip, atb_n, site_atb]
  by_cases h : s.skip > 0 <;> simp only [h, if_true, if_false] <;> rfl

theorem loopStart_atb (p : Prog) (cont : Bool) (names : List Str) (s : St) (t : List Tok) (b : Bool) :
    loopStartStep p cont names (atb s t b)
      = ((loopStartStep p cont names s).1, atb (loopStartStep p cont names s).2.1 t b, (loopStartStep p cont names s).2.2) := by
  unfold loopStartStep
  simp only [atb_skip, atb_n, site_atb]
  by_cases h : s.skip ≤ 0 <;> simp only [h, if_true, if_false] <;> rfl

theorem loopEnd_atb (p : Prog) (hd : Option (List Str)) (r : Int) (s : St) (t : List Tok) (b : Bool) :
    loopEndStep p hd r (atb s t b) = ((loopEndStep p hd r s).1, atb (loopEndStep p hd r s).2 t b) := by
  unfold loopEndStep
  simp only [atb_skip, site_atb]
  by_cases h : s.skip > 0
  · simp only [h, if_true]; rfl
  · simp only [h, if_false]
    by_cases hr : r = OK <;> simp only [hr, if_true, if_false]

theorem contStart_atb (p : Prog) (cont isBlock : Bool) (code : Str) (s : St) (t : List Tok) (b : Bool) :
    contStartStep p cont isBlock code (atb s t b)
      = ((contStartStep p cont isBlock code s).1, atb (contStartStep p cont isBlock code s).2 t b) := by
  unfold contStartStep
  simp only [atb_skip, site_atb, inc_atb]
  by_cases h : s.skip > 0 <;> simp only [h, if_true, if_false]

theorem containerEnd_atb (p : Prog) (cont isBlock : Bool) (code : Str) (r : Int) (s : St) (c : Content) (t : List Tok) (b : Bool) :
    containerEnd p cont isBlock code r (atb s t b) c
      = ((containerEnd p cont isBlock code r s c).1, atb (containerEnd p cont isBlock code r s c).2.1 t b,
         (containerEnd p cont isBlock code r s c).2.2) := by
  unfold containerEnd
  simp only [dec_atb, atb_skip, site_atb]
  by_cases h : r = OK ∧ (dec s).skip ≤ 0 <;> simp only [h, and_self, if_true, if_false]

theorem scalarItem_atb (p : Prog) (cont : Bool) (nm : Str) (v : V) (s : St) (t : List Tok) (b : Bool) :
    scalarItemStep p cont nm v (atb s t b)
      = ((scalarItemStep p cont nm v s).1, atb (scalarItemStep p cont nm v s).2.1 t b, (scalarItemStep p cont nm v s).2.2) := by
  unfold scalarItemStep
  simp only [site_atb, atb_n]
  rfl

-- ---- stage 1: token consumption -------------------------------------------------------------------------------------------

/-- looking at the first token of a value -/
theorem nextToken_value (v : V) (rest : List Tok) (s : St) (b : Bool) :
    (nextToken (atb s (valueToks v ++ rest) b)).2 = atb s (valueToks v ++ rest) true
    ∧ isValueStart (nextToken (atb s (valueToks v ++ rest) b)).1 = true := by
  obtain ⟨t, ts, hvt, hpre, hstart⟩ := valueToks_head v
  rw [hvt, List.cons_append, nextToken_atb s t _ b hpre]
  exact ⟨rfl, hstart⟩

theorem item_doc_skip (p : Prog) (fuel : Nat) (cont : Bool) (v : V) (rest : List Tok) (s : St) (b : Bool)
    (hw : wfV v = true) (hf : szV v ≤ fuel) :
    parseItem p fuel cont none (atb s (valueToks v ++ rest) b) = (OK, atb (dec (inc s)) rest false, none) := by
  unfold parseItem
  obtain ⟨h1, h2⟩ := nextToken_value v rest s b
  simp only [h1, h2, Bool.not_true, Bool.false_eq_true, if_false, inc_atb, value_mirror v rest (inc s) true fuel hw hf,
    if_true, dec_atb]

theorem item_doc_named (p : Prog) (fuel : Nat) (cont : Bool) (nm : Str) (v : V) (rest : List Tok) (s : St) (b : Bool)
    (hw : wfV v = true) (hf : szV v ≤ fuel) :
    parseItem p fuel cont (some nm) (atb s (valueToks v ++ rest) b)
      = ((scalarItemStep p cont nm v (inc s)).1, atb (dec (scalarItemStep p cont nm v (inc s)).2.1) rest false,
         (scalarItemStep p cont nm v (inc s)).2.2) := by
  unfold parseItem
  obtain ⟨h1, h2⟩ := nextToken_value v rest s b
  simp only [h1, h2, Bool.not_true, Bool.false_eq_true, if_false, inc_atb, value_mirror v rest (inc s) true fuel hw hf,
    if_true, scalarItem_atb, dec_atb]

/-- a token without layout -/
def plain (ty : TokType) (text : Str) : Tok := { ty := ty, pre := [], text := text, v := .unk }

@[simp] theorem plain_ty (ty : TokType) (tx : Str) : (plain ty tx).ty = ty := rfl
@[simp] theorem plain_text (ty : TokType) (tx : Str) : (plain ty tx).text = tx := rfl
@[simp] theorem plain_pre (ty : TokType) (tx : Str) : (plain ty tx).pre = [] := rfl

/-- the header of a loop: the data names, up to a token that is not a name -/
theorem header_doc : ∀ (names : List Str) (t : Tok) (rest : List Tok) (s : St) (b : Bool) (fuel : Nat) (acc : List Str),
    t.pre = [] → t.ty ≠ .name → names.length + 1 ≤ fuel →
    headerLoop fuel (atb s (names.map (fun n => plain .name n) ++ t :: rest) b) acc
      = (OK, acc ++ names, atb (kHeader names s) (t :: rest) true)
  | [], t, rest, s, b, fuel, acc, hpre, hty, hf => by
    obtain ⟨f, rfl⟩ : ∃ f, fuel = f + 1 := ⟨fuel - 1, by omega⟩
    simp only [List.map_nil, List.nil_append, headerLoop, nextToken_atb s t rest b hpre, hty, if_false, kHeader,
      List.append_nil]
  | nm :: ns, t, rest, s, b, fuel, acc, hpre, hty, hf => by
    obtain ⟨f, rfl⟩ : ∃ f, fuel = f + 1 := ⟨fuel - 1, by omega⟩
    simp only [List.map_cons, List.cons_append, headerLoop, nextToken_atb s (plain .name nm) _ b rfl]
    simp only [plain_ty, plain_text, if_true, cur_atb, atb_skip, kHeader]
    by_cases h : s.skip ≤ 0
    · simp only [h, if_true, note_atb, consume_atb]
      rw [header_doc ns t rest _ false f _ hpre hty (by simpa using hf)]
      simp
    · simp only [h, if_false, consume_atb]
      rw [header_doc ns t rest _ false f _ hpre hty (by simpa using hf)]
      simp

theorem pktStart_ok (p : Prog) (hp : NoStop p) (s : St) : (pktStartStep p s).1 = OK := by
  unfold pktStartStep; split
  · rfl
  · exact site_ok p hp _ _ _ _
theorem itemStep_ok (p : Prog) (hp : NoStop p) (nm : Str) (v : V) (s : St) : (itemStep p nm OK v s).1 = OK := by
  unfold itemStep; split
  · exact site_ok p hp _ _ _ _
  · rfl
theorem pktEnd_ok (p : Prog) (hp : NoStop p) (items : List (Str × V)) (s : St) : (pktEndStep p items s).1 = OK := by
  unfold pktEndStep; split
  · rfl
  · exact site_ok p hp _ _ _ _

/-- the rest `cur` of the current packet (from column `k.col` to the last column), then on with the following tokens -/
theorem row_doc (p : Prog) (hp : NoStop p) (loopH : Bool) (names : List Str) :
    ∀ (cur : List V) (X : List Tok) (s : St) (b : Bool) (k : PkSt) (fuel : Nat),
      cur ≠ [] → k.col + cur.length = names.length → (∀ v ∈ cur, wfV v = true ∧ szV v ≤ fuel) →
      packetsLoop p loopH names (fuel + cur.length) (atb s (valuesToks cur ++ X) b) k
        = packetsLoop p loopH names fuel
            (atb (pktEndStep p (List.zip names (k.row ++ cur))
                    (kRow p names k.col cur (if k.col = 0 then (pktStartStep p s).2 else s))).2.1 X false)
            { col := 0, row := [], havePk := true,
              stored := if (pktEndStep p (List.zip names (k.row ++ cur))
                    (kRow p names k.col cur (if k.col = 0 then (pktStartStep p s).2 else s))).2.2 && loopH
                  then k.stored ++ [k.row ++ cur] else k.stored }
  | [], _, _, _, _, _, h, _, _ => absurd rfl h
  | v :: vs, X, s, b, k, fuel, _, hlen, hv => by
    have hvv := hv v (List.mem_cons_self ..)
    obtain ⟨h1, h2⟩ := nextToken_value v (valuesToks vs ++ X) s b
    have hs1 : (if k.col = 0 then pktStartStep p (atb s (valueToks v ++ (valuesToks vs ++ X)) true)
          else (OK, atb s (valueToks v ++ (valuesToks vs ++ X)) true))
        = (OK, atb (if k.col = 0 then (pktStartStep p s).2 else s) (valueToks v ++ (valuesToks vs ++ X)) true) := by
      by_cases hc : k.col = 0
      · simp only [hc, if_true, pktStart_atb, pktStart_ok p hp]
      · simp only [hc, if_false]
    rw [show fuel + (v :: vs).length = (fuel + vs.length) + 1 by simp; omega]
    simp only [packetsLoop, valuesToks, List.append_assoc, h1, h2, if_true, hs1, ne_eq, not_true_eq_false, if_false,
      value_mirror v (valuesToks vs ++ X) _ true (fuel + vs.length) hvv.1 (by omega), itemStep_atb, itemStep_ok p hp]
    cases vs with
    | nil =>
      have hcol : (k.col + 1) % names.length = 0 := by
        simp only [List.length_cons, List.length_nil] at hlen
        rw [hlen]; exact Nat.mod_self _
      simp only [hcol, if_true, pktEnd_atb, pktEnd_ok p hp, ne_eq, not_true_eq_false, if_false, valuesToks,
        List.nil_append, List.length_nil, Nat.add_zero, kRow]
      rfl
    | cons v' vs' =>
      have hlt : k.col + 1 < names.length := by simp only [List.length_cons] at hlen; omega
      have hcol : (k.col + 1) % names.length = k.col + 1 := Nat.mod_eq_of_lt hlt
      have hne : ¬ (k.col + 1 = 0) := by omega
      simp only [hcol, hne, if_false]
      have ih := row_doc p hp loopH names (v' :: vs') X
        (itemStep p (names.getD k.col []) OK v (if k.col = 0 then (pktStartStep p s).2 else s)).2 false
        { k with col := k.col + 1, row := k.row ++ [v] } fuel (by simp)
        (by simp only [List.length_cons] at hlen ⊢; omega)
        (fun w hw => hv w (List.mem_cons_of_mem _ hw))
      simp only [hne, if_false, List.append_assoc, List.singleton_append] at ih
      rw [ih]
      simp only [kRow]
      rfl

/-- tokens that end a loop body in a well-formed document -/
def isStopper : TokType → Bool
  | .name | .loopKw | .frameHead | .frameTerm | .blockHead | .end_ => true
  | _ => false

def totLen (pks : List (List V)) : Nat := (pks.map List.length).sum

/-- the packets of a loop body, up to the token that ends it -/
theorem packets_doc (p : Prog) (hp : NoStop p) (loopH : Bool) (names : List Str) (F : Nat) :
    ∀ (pks : List (List V)) (t : Tok) (rest : List Tok) (s : St) (b : Bool) (h : Bool) (acc : List (List V)),
      t.pre = [] → isStopper t.ty = true → (h = true ∨ pks ≠ []) →
      (∀ pk ∈ pks, pk ≠ [] ∧ pk.length = names.length ∧ ∀ v ∈ pk, wfV v = true ∧ szV v ≤ F) →
      packetsLoop p loopH names (F + totLen pks + 1) (atb s ((pks.map valuesToks).flatten ++ t :: rest) b)
          { col := 0, row := [], havePk := h, stored := acc }
        = (OK, atb (kPackets p loopH names pks s acc).1 (t :: rest) true,
           { col := 0, row := [], havePk := true, stored := (kPackets p loopH names pks s acc).2 })
  | [], t, rest, s, b, h, acc, hpre, hst, hh, _ => by
    have hh' : h = true := by rcases hh with h1 | h1; exact h1; exact absurd rfl h1
    have hv : isValueStart t.ty = false := by cases ht : t.ty <;> simp_all [isStopper, isValueStart]
    have hc : ¬ (t.ty = .clist ∨ t.ty = .ctable) := by cases ht : t.ty <;> simp_all [isStopper]
    simp only [totLen, List.map_nil, List.sum_nil, Nat.add_zero, List.flatten_nil, List.nil_append, packetsLoop,
      nextToken_atb s t rest b hpre, hv, Bool.false_eq_true, if_false, hc, ne_eq, not_true_eq_false, hh',
      Bool.not_true, kPackets]
  | pk :: pks, t, rest, s, b, h, acc, hpre, hst, _, hall => by
    obtain ⟨hne, hlen, hvals⟩ := hall pk (List.mem_cons_self ..)
    have hfuel : F + totLen (pk :: pks) + 1 = (F + totLen pks + 1) + pk.length := by
      simp [totLen]; omega
    rw [hfuel]
    simp only [List.map_cons, List.flatten_cons, List.append_assoc]
    rw [row_doc p hp loopH names pk _ s b { col := 0, row := [], havePk := h, stored := acc } (F + totLen pks + 1) hne
      (by simpa using hlen) (fun v hv => ⟨(hvals v hv).1, by have := (hvals v hv).2; omega⟩)]
    simp only [if_true, List.nil_append]
    rw [packets_doc p hp loopH names F pks t rest _ false true _ hpre hst (Or.inl rfl)
      (fun q hq => hall q (List.mem_cons_of_mem _ hq))]
    simp only [kPackets]

theorem loopStart_ok (p : Prog) (hp : NoStop p) (cont : Bool) (names : List Str) (s : St) :
    (loopStartStep p cont names s).1 = OK ∧ (loopStartStep p cont names s).2.2.2 = true := by
  unfold loopStartStep
  split
  · simp [site_ok p hp]
  · exact ⟨rfl, rfl⟩

theorem loopEnd_ok (p : Prog) (hp : NoStop p) (hd : Option (List Str)) (s : St) : (loopEndStep p hd OK s).1 = OK := by
  unfold loopEndStep
  split
  · rfl
  · simp [site_ok p hp]

/-- the first token of a non-empty loop body is the first token of a value -/
theorem body_head (pks : List (List V)) (X : List Tok) (h : ∀ pk ∈ pks, pk ≠ []) (hne : pks ≠ []) :
    ∃ tv tvs, (pks.map valuesToks).flatten ++ X = tv :: tvs ∧ tv.pre = [] ∧ tv.ty ≠ .name := by
  cases pks with
  | nil => exact absurd rfl hne
  | cons pk pks =>
    cases pk with
    | nil => exact absurd rfl (h [] (List.mem_cons_self ..))
    | cons v vs =>
      obtain ⟨t, ts, hvt, hpre, hstart⟩ := valueToks_head v
      refine ⟨t, ts ++ (valuesToks vs ++ ((pks.map valuesToks).flatten ++ X)), ?_, hpre, ?_⟩
      · simp [valuesToks, hvt]
      · intro hn; rw [hn] at hstart; simp [isValueStart] at hstart

/-- a loop (after its `loop_` keyword): header, body, up to the token that ends the body -/
theorem loop_doc (p : Prog) (hp : NoStop p) (cont : Bool) (names : List Str) (pks : List (List V)) (F : Nat)
    (t : Tok) (rest : List Tok) (s : St) (b : Bool) (fuel : Nat)
    (hpre : t.pre = []) (hst : isStopper t.ty = true) (hn : names ≠ []) (hpk : pks ≠ [])
    (hall : ∀ pk ∈ pks, pk ≠ [] ∧ pk.length = names.length ∧ ∀ v ∈ pk, wfV v = true ∧ szV v ≤ F)
    (hf1 : names.length + 1 ≤ fuel) (hf2 : F + totLen pks + 1 ≤ fuel) :
    parseLoop p fuel cont (atb s (names.map (fun n => plain .name n) ++ ((pks.map valuesToks).flatten ++ t :: rest)) b)
      = (OK, atb (kLoop p cont names pks s).1 (t :: rest) true, (kLoop p cont names pks s).2) := by
  obtain ⟨tv, tvs, hbody, htvpre, htvty⟩ := body_head pks (t :: rest) (fun pk h => (hall pk h).1) hpk
  unfold parseLoop
  simp only [inc_atb, hbody]
  rw [header_doc names tv tvs (inc s) b fuel [] htvpre htvty hf1]
  simp only [List.nil_append, ne_eq, not_true_eq_false, if_false]
  have hemp : names.isEmpty = false := by cases names <;> simp_all
  simp only [hemp, Bool.false_eq_true, if_false, loopStart_atb, (loopStart_ok p hp cont names _).2, if_true]
  rw [← hbody]
  have hfuel : fuel = (fuel - totLen pks - 1) + totLen pks + 1 := by omega
  rw [hfuel, packets_doc p hp _ names (fuel - totLen pks - 1) pks t rest _ true false [] hpre hst (Or.inr hpk)
    (fun pk h => ⟨(hall pk h).1, (hall pk h).2.1, fun v hv => ⟨((hall pk h).2.2 v hv).1, by
      have := ((hall pk h).2.2 v hv).2; omega⟩⟩)]
  simp only [loopEnd_atb, loopEnd_ok p hp, kLoop]

theorem scalarItem_ok (p : Prog) (hp : NoStop p) (cont : Bool) (nm : Str) (v : V) (s : St) :
    (scalarItemStep p cont nm v s).1 = OK := by
  unfold scalarItemStep; exact site_ok p hp _ _ _ _

/-- one iteration of the element loop: a scalar item -/
theorem step_item (p : Prog) (hp : NoStop p) (m : Int) (f : Nat) (cont isBlock : Bool) (nm : Str) (v : V) (Y : List Tok)
    (s : St) (b : Bool) (c : Content) (hw : wfV v = true) (hf : szV v ≤ f) :
    elemsLoop p m (f + 1) cont isBlock (atb s (plain .name nm :: (valueToks v ++ Y)) b) c
      = elemsLoop p m f cont isBlock (atb (kElem p cont (.item nm v) s c).1 Y false) (kElem p cont (.item nm v) s c).2 := by
  simp only [elemsLoop, nextToken_atb s (plain .name nm) _ b rfl, plain_ty, atb_skip, cur_atb, plain_text, kElem]
  by_cases h : s.skip > 0
  · simp only [h, if_true, consume_atb, item_doc_skip p f cont v Y s false hw hf]
  · simp only [h, if_false, note_atb, consume_atb, item_doc_named p f cont nm v Y _ false hw hf,
      scalarItem_ok p hp, if_true]
    rfl

/-- one iteration of the element loop: a loop -/
theorem step_loop (p : Prog) (hp : NoStop p) (m : Int) (f : Nat) (cont isBlock : Bool) (names : List Str)
    (pks : List (List V)) (F : Nat) (t : Tok) (rest : List Tok) (s : St) (b : Bool) (c : Content)
    (hpre : t.pre = []) (hst : isStopper t.ty = true) (hn : names ≠ []) (hpk : pks ≠ [])
    (hall : ∀ pk ∈ pks, pk ≠ [] ∧ pk.length = names.length ∧ ∀ v ∈ pk, wfV v = true ∧ szV v ≤ F)
    (hf1 : names.length + 1 ≤ f) (hf2 : F + totLen pks + 1 ≤ f) :
    elemsLoop p m (f + 1) cont isBlock
        (atb s (plain .loopKw [] :: (names.map (fun n => plain .name n) ++ ((pks.map valuesToks).flatten ++ t :: rest))) b) c
      = elemsLoop p m f cont isBlock (atb (kElem p cont (.loop names pks) s c).1 (t :: rest) true)
          (kElem p cont (.loop names pks) s c).2 := by
  simp only [elemsLoop, nextToken_atb s (plain .loopKw []) _ b rfl, plain_ty, atb_skip, cur_atb, plain_text, kElem]
  have hnote : (if s.skip ≤ 0 then note (atb s (plain .loopKw [] :: (names.map (fun n => plain .name n) ++
        ((pks.map valuesToks).flatten ++ t :: rest))) true) (Ev.keyword []) else
        atb s (plain .loopKw [] :: (names.map (fun n => plain .name n) ++ ((pks.map valuesToks).flatten ++ t :: rest))) true)
      = atb (if s.skip ≤ 0 then note s (Ev.keyword []) else s)
          (plain .loopKw [] :: (names.map (fun n => plain .name n) ++ ((pks.map valuesToks).flatten ++ t :: rest))) true := by
    by_cases h : s.skip ≤ 0 <;> simp only [h, if_true, if_false, note_atb]
  simp only [hnote, consume_atb, loop_doc p hp cont names pks F t rest _ false f hpre hst hn hpk hall hf1 hf2, if_true]
  rfl

-- ---- well-formed documents and their sizes --------------------------------------------------------------------------------

mutual
  /-- well-formed element: values well-formed; loops with at least one name and one packet, every packet as long as
      the header; save frames only where allowed (in data blocks) and not nested -/
  def wfElem (allowF : Bool) : Elem → Bool
    | .item _ v => wfV v
    | .loop names pks => !names.isEmpty && !pks.isEmpty && pks.all (fun pk => pk.length == names.length && wfVs pk)
    | .frame _ body => allowF && wfElems false body
  def wfElems (allowF : Bool) : List Elem → Bool
    | [] => true
    | e :: es => wfElem allowF e && wfElems allowF es
end

def sumSz (pks : List (List V)) : Nat := (pks.map szVs).sum

mutual
  def szElem : Elem → Nat
    | .item _ v => szV v + 1
    | .loop names pks => names.length + sumSz pks + totLen pks + 3
    | .frame _ body => szElems body + 3
  def szElems : List Elem → Nat
    | [] => 0
    | e :: es => szElem e + szElems es + 1
end

theorem szV_le_szVs : ∀ (pk : List V) (v : V), v ∈ pk → szV v ≤ szVs pk
  | [], _, h => by simp at h
  | w :: ws, v, h => by
    simp only [szVs]
    rcases List.mem_cons.mp h with h | h
    · subst h; omega
    · have := szV_le_szVs ws v h; omega

theorem szVs_le_sumSz : ∀ (pks : List (List V)) (pk : List V), pk ∈ pks → szVs pk ≤ sumSz pks
  | [], _, h => by simp at h
  | q :: qs, pk, h => by
    simp only [sumSz, List.map_cons, List.sum_cons]
    rcases List.mem_cons.mp h with h | h
    · subst h; omega
    · have := szVs_le_sumSz qs pk h; simp only [sumSz] at this; omega

theorem wfVs_mem : ∀ (pk : List V), wfVs pk = true → ∀ v ∈ pk, wfV v = true
  | [], _, _, h => by simp at h
  | w :: ws, hw, v, h => by
    simp only [wfVs, Bool.and_eq_true] at hw
    rcases List.mem_cons.mp h with h | h
    · subst h; exact hw.1
    · exact wfVs_mem ws hw.2 v h

/-- the hypotheses of `loop_doc` from the well-formedness of a loop element -/
theorem loop_wf_all (names : List Str) (pks : List (List V)) (h : wfElem a (.loop names pks) = true) :
    names ≠ [] ∧ pks ≠ [] ∧ ∀ pk ∈ pks, pk ≠ [] ∧ pk.length = names.length ∧ ∀ v ∈ pk, wfV v = true ∧ szV v ≤ sumSz pks := by
  simp only [wfElem, Bool.and_eq_true, Bool.not_eq_true', List.isEmpty_eq_false_iff, List.all_eq_true,
    beq_iff_eq] at h
  obtain ⟨⟨hn, hp⟩, hall⟩ := h
  refine ⟨hn, hp, fun pk hpk => ?_⟩
  obtain ⟨hlen, hw⟩ := hall pk hpk
  refine ⟨?_, hlen, fun v hv => ⟨wfVs_mem pk hw v hv, Nat.le_trans (szV_le_szVs pk v hv) (szVs_le_sumSz pks pk hpk)⟩⟩
  intro he
  rw [he] at hlen
  exact hn (List.length_eq_zero_iff.mp hlen.symm)

theorem elemToks_item (n : Str) (v : V) : elemToks (.item n v) = plain .name n :: valueToks v := rfl
theorem elemToks_loop (ns : List Str) (pks : List (List V)) :
    elemToks (.loop ns pks) = plain .loopKw [] :: (ns.map (fun n => plain .name n) ++ (pks.map valuesToks).flatten) := rfl
theorem elemToks_frame (c : Str) (body : List Elem) :
    elemToks (.frame c body) = plain .frameHead c :: (elemsToks body ++ [plain .frameTerm []]) := rfl

/-- what follows an element is a token without layout that ends a loop body -/
theorem elems_head (es : List Elem) (t : Tok) (rest : List Tok) (hpre : t.pre = []) (hst : isStopper t.ty = true) :
    ∃ th tl, elemsToks es ++ t :: rest = th :: tl ∧ th.pre = [] ∧ isStopper th.ty = true := by
  cases es with
  | nil => exact ⟨t, rest, rfl, hpre, hst⟩
  | cons e es =>
    cases e with
    | item n v => exact ⟨plain .name n, valueToks v ++ (elemsToks es ++ t :: rest), by simp [elemsToks, elemToks_item], rfl, rfl⟩
    | loop ns pks => exact ⟨plain .loopKw [], ns.map (fun n => plain .name n) ++ ((pks.map valuesToks).flatten ++ (elemsToks es ++ t :: rest)), by simp [elemsToks, elemToks_loop], rfl, rfl⟩
    | frame c body => exact ⟨plain .frameHead c, elemsToks body ++ plain .frameTerm [] :: (elemsToks es ++ t :: rest), by simp [elemsToks, elemToks_frame], rfl, rfl⟩

/-- the token that ends a container body, and the scanner position after the body -/
def termOK (isBlock : Bool) (ty : TokType) : Prop := if isBlock then ty = .blockHead ∨ ty = .end_ else ty = .frameTerm
def endState (isBlock : Bool) (s : St) (t : Tok) (rest : List Tok) : St :=
  if isBlock then atb s (t :: rest) true else atb s rest false

/-- one iteration of the element loop on a save frame (as a hypothesis of `elems_doc`, discharged by `step_frame`) -/
def StepFrame (p : Prog) (cont : Bool) : Prop :=
  ∀ (code : Str) (body : List Elem) (Y : List Tok) (s : St) (b : Bool) (c : Content) (f : Nat),
    wfElems false body = true → szElems body + 2 ≤ f →
    elemsLoop p 1 (f + 1) cont true (atb s (plain .frameHead code :: (elemsToks body ++ plain .frameTerm [] :: Y)) b) c
      = elemsLoop p 1 f cont true (atb (kElem p cont (.frame code body) s c).1 Y false) (kElem p cont (.frame code body) s c).2

/-- the body of a container, up to the token that ends it -/
theorem elems_doc (p : Prog) (hp : NoStop p) (cont isBlock : Bool) (hframe : isBlock = true → StepFrame p cont) :
    ∀ (es : List Elem) (t : Tok) (rest : List Tok) (s : St) (b : Bool) (c : Content) (fuel : Nat),
      wfElems isBlock es = true → t.pre = [] → termOK isBlock t.ty → szElems es + 1 ≤ fuel →
      elemsLoop p 1 fuel cont isBlock (atb s (elemsToks es ++ t :: rest) b) c
        = (OK, endState isBlock (kElems p cont es s c).1 t rest, (kElems p cont es s c).2)
  | [], t, rest, s, b, c, fuel, _, hpre, hterm, hf => by
    obtain ⟨f, rfl⟩ : ∃ f, fuel = f + 1 := ⟨fuel - 1, by omega⟩
    simp only [elemsToks, List.nil_append, elemsLoop, nextToken_atb s t rest b hpre, kElems]
    unfold termOK at hterm
    cases isBlock with
    | true =>
      simp only [if_true] at hterm
      rcases hterm with h | h <;> simp [h, endState]
    | false =>
      simp only [Bool.false_eq_true, if_false] at hterm
      simp [hterm, endState, consume_atb]
  | e :: es, t, rest, s, b, c, fuel, hw, hpre, hterm, hf => by
    obtain ⟨f, rfl⟩ : ∃ f, fuel = f + 1 := ⟨fuel - 1, by omega⟩
    simp only [wfElems, Bool.and_eq_true] at hw
    simp only [szElems] at hf
    have hstT : isStopper t.ty = true := by
      unfold termOK at hterm
      cases isBlock <;> simp at hterm
      · simp [hterm, isStopper]
      · rcases hterm with h | h <;> simp [h, isStopper]
    have ih := elems_doc p hp cont isBlock hframe es t rest
    cases e with
    | item n v =>
      simp only [szElem] at hf
      simp only [elemsToks, elemToks_item, List.cons_append, List.append_assoc, kElems]
      rw [step_item p hp 1 f cont isBlock n v _ s b c (by simpa [wfElem] using hw.1) (by omega)]
      exact ih _ _ _ f hw.2 hpre hterm (by omega)
    | loop ns pks =>
      simp only [szElem] at hf
      obtain ⟨hn, hpk, hall⟩ := loop_wf_all ns pks hw.1
      obtain ⟨th, tl, hhead, hthpre, hthst⟩ := elems_head es t rest hpre hstT
      simp only [elemsToks, elemToks_loop, List.cons_append, List.append_assoc, kElems, hhead]
      rw [step_loop p hp 1 f cont isBlock ns pks (sumSz pks) th tl s b c hthpre hthst hn hpk hall (by omega) (by omega)]
      rw [← hhead]
      exact ih _ _ _ f hw.2 hpre hterm (by omega)
    | frame code body =>
      simp only [szElem] at hf
      have hb : isBlock = true ∧ wfElems false body = true := by
        simpa [wfElem] using hw.1
      obtain ⟨hb1, hb2⟩ := hb
      subst hb1
      have hsf := hframe rfl
      simp only [elemsToks, elemToks_frame, List.cons_append, List.append_assoc, List.singleton_append, kElems]
      rw [hsf code body _ s b c f hb2 (by omega)]
      exact ih _ _ _ f hw.2 hpre hterm (by omega)

theorem contStart_ok (p : Prog) (hp : NoStop p) (cont isBlock : Bool) (code : Str) (s : St) :
    (contStartStep p cont isBlock code s).1 = OK := by
  unfold contStartStep; split
  · rfl
  · exact site_ok p hp _ _ _ _

theorem containerEnd_ok (p : Prog) (hp : NoStop p) (cont isBlock : Bool) (code : Str) (s : St) (c : Content) :
    (containerEnd p cont isBlock code OK s c).1 = OK := by
  unfold containerEnd; split
  · exact site_ok p hp _ _ _ _
  · rfl

/-- a save frame after its `save_<code>` token: body, `save_` -/
theorem frame_doc (p : Prog) (hp : NoStop p) (fc : Bool) (code : Str) (body : List Elem) (Y : List Tok) (s : St) (b : Bool)
    (f : Nat) (hw : wfElems false body = true) (hf : szElems body + 1 ≤ f) :
    parseContainer p 1 (f + 1) fc false code (atb s (elemsToks body ++ plain .frameTerm [] :: Y) b)
      = (OK,
         atb (containerEnd p fc false code OK (kElems p fc body (contStartStep p fc false code s).2 .empty).1
                (kElems p fc body (contStartStep p fc false code s).2 .empty).2).2.1 Y false,
         (containerEnd p fc false code OK (kElems p fc body (contStartStep p fc false code s).2 .empty).1
                (kElems p fc body (contStartStep p fc false code s).2 .empty).2).2.2) := by
  simp only [parseContainer, contStart_atb, contStart_ok p hp, ne_eq, not_true_eq_false, if_false]
  rw [elems_doc p hp fc false (fun h => nomatch h) body (plain .frameTerm []) Y _ b .empty f hw rfl rfl hf]
  simp only [endState, Bool.false_eq_true, if_false, containerEnd_atb, containerEnd_ok p hp]

theorem step_frame (p : Prog) (hp : NoStop p) (cont : Bool) : StepFrame p cont := by
  intro code body Y s b c f hw hf
  simp only [elemsLoop, nextToken_atb s (plain .frameHead code) _ b rfl, plain_ty, atb_skip, cur_atb, plain_text,
    consume_atb, kElem]
  obtain ⟨g, rfl⟩ : ∃ g, f = g + 1 := ⟨f - 1, by omega⟩
  by_cases h : ((!cont) = true ∨ s.skip > 0)
  · have hfc : (!decide ((!cont) = true ∨ s.skip > 0)) = false := by rw [decide_eq_true h]; rfl
    simp only [hfc]
    simp only [h, if_true]
    rw [frame_doc p hp false code body Y s false g hw (by omega)]
    simp only [if_true, Bool.false_eq_true, if_false]
  · have hfc : (!decide ((!cont) = true ∨ s.skip > 0)) = true := by rw [decide_eq_false h]; rfl
    have h10 : ¬ ((1 : Int) = 0) := by decide
    simp only [hfc]
    simp only [h, if_false, h10, Bool.not_true, Bool.false_eq_true, and_false]
    rw [frame_doc p hp true code body Y s false g hw (by omega)]
    simp only [if_true]

/-- a data block after its `data_<code>` token -/
theorem block_doc (p : Prog) (hp : NoStop p) (bc : Bool) (code : Str) (body : List Elem) (t : Tok) (rest : List Tok) (s : St)
    (b : Bool) (f : Nat) (hw : wfElems true body = true) (hpre : t.pre = []) (hterm : t.ty = .blockHead ∨ t.ty = .end_)
    (hf : szElems body + 1 ≤ f) :
    parseContainer p 1 (f + 1) bc true code (atb s (elemsToks body ++ t :: rest) b)
      = (OK,
         atb (containerEnd p bc true code OK (kElems p bc body (contStartStep p bc true code s).2 .empty).1
                (kElems p bc body (contStartStep p bc true code s).2 .empty).2).2.1 (t :: rest) true,
         (containerEnd p bc true code OK (kElems p bc body (contStartStep p bc true code s).2 .empty).1
                (kElems p bc body (contStartStep p bc true code s).2 .empty).2).2.2) := by
  simp only [parseContainer, contStart_atb, contStart_ok p hp, ne_eq, not_true_eq_false, if_false]
  rw [elems_doc p hp bc true (fun _ => step_frame p hp bc) body t rest _ b .empty f hw hpre (by simpa [termOK] using hterm) hf]
  simp only [endState, if_true, containerEnd_atb, containerEnd_ok p hp]

def blocksToks (d : Doc) : List Tok := (d.map (fun b => plain .blockHead b.code :: elemsToks b.body)).flatten

theorem tokensOf_eq (d : Doc) : tokensOf d = blocksToks d ++ [plain .end_ []] := rfl

def szDoc : Doc → Nat
  | [] => 0
  | b :: bs => szElems b.body + 3 + szDoc bs

def wfDoc (d : Doc) : Bool := d.all (fun b => wfElems true b.body)

theorem blocks_head (d : Doc) : ∃ t rest, blocksToks d ++ [plain .end_ []] = t :: rest ∧ t.pre = []
    ∧ (t.ty = .blockHead ∨ t.ty = .end_) := by
  cases d with
  | nil => exact ⟨plain .end_ [], [], rfl, rfl, Or.inr rfl⟩
  | cons b bs =>
    exact ⟨plain .blockHead b.code, elemsToks b.body ++ (blocksToks bs ++ [plain .end_ []]),
      by simp [blocksToks], rfl, Or.inl rfl⟩

theorem blocks_doc (p : Prog) (hp : NoStop p) (cif : Bool) : ∀ (d : Doc) (s : St) (b : Bool) (acc : List Container) (fuel : Nat),
    wfDoc d = true → szDoc d + 1 ≤ fuel →
    blocksLoop p 1 cif fuel (atb s (blocksToks d ++ [plain .end_ []]) b) acc
      = (OK, atb (kBlocks p cif d s acc).1 [plain .end_ []] true, (kBlocks p cif d s acc).2)
  | [], s, b, acc, fuel, _, hf => by
    obtain ⟨f, rfl⟩ : ∃ f, fuel = f + 1 := ⟨fuel - 1, by omega⟩
    simp [blocksToks, blocksLoop, nextToken_atb s (plain .end_ []) [] b rfl, kBlocks]
  | blk :: bs, s, b, acc, fuel, hw, hf => by
    obtain ⟨f, rfl⟩ : ∃ f, fuel = f + 1 := ⟨fuel - 1, by omega⟩
    simp only [szDoc] at hf
    simp only [wfDoc, List.all_cons, Bool.and_eq_true] at hw
    obtain ⟨t, rest, hhead, hpre, hterm⟩ := blocks_head bs
    have htoks : blocksToks (blk :: bs) ++ [plain .end_ []]
        = plain .blockHead blk.code :: (elemsToks blk.body ++ (t :: rest)) := by
      rw [← hhead]; simp [blocksToks]
    rw [htoks]
    simp only [blocksLoop, nextToken_atb s (plain .blockHead blk.code) _ b rfl, plain_ty, atb_skip, cur_atb, plain_text,
      consume_atb]
    obtain ⟨g, rfl⟩ : ∃ g, f = g + 1 := ⟨f - 1, by omega⟩
    rw [block_doc p hp (cif && decide (s.skip ≤ 0)) blk.code blk.body t rest s false g hw.1 hpre hterm (by omega)]
    simp only [if_true]
    rw [← hhead]
    have ih := blocks_doc p hp cif bs
      (containerEnd p (cif && decide (s.skip ≤ 0)) true blk.code OK
        (kElems p (cif && decide (s.skip ≤ 0)) blk.body (contStartStep p (cif && decide (s.skip ≤ 0)) true blk.code s).2 .empty).1
        (kElems p (cif && decide (s.skip ≤ 0)) blk.body (contStartStep p (cif && decide (s.skip ≤ 0)) true blk.code s).2 .empty).2).2.1
      true
      (if (cif && decide (s.skip ≤ 0)) = true then acc ++ [Container.mk blk.code
        (containerEnd p (cif && decide (s.skip ≤ 0)) true blk.code OK
          (kElems p (cif && decide (s.skip ≤ 0)) blk.body (contStartStep p (cif && decide (s.skip ≤ 0)) true blk.code s).2 .empty).1
          (kElems p (cif && decide (s.skip ≤ 0)) blk.body (contStartStep p (cif && decide (s.skip ≤ 0)) true blk.code s).2 .empty).2).2.2.frames
        (containerEnd p (cif && decide (s.skip ≤ 0)) true blk.code OK
          (kElems p (cif && decide (s.skip ≤ 0)) blk.body (contStartStep p (cif && decide (s.skip ≤ 0)) true blk.code s).2 .empty).1
          (kElems p (cif && decide (s.skip ≤ 0)) blk.body (contStartStep p (cif && decide (s.skip ≤ 0)) true blk.code s).2 .empty).2).2.2.loops]
        else acc)
      (g + 1) (by simpa [wfDoc] using hw.2) (by omega)
    rw [ih]
    simp only [kBlocks, kBlock]

/-- **stage 1**: on the token sequence of a well-formed document and for a program that only continues or skips, the
    token parser with enough fuel is the structural interpreter -/
theorem doc_stage1 (p : Prog) (hp : NoStop p) (cif : Bool) (d : Doc) (fuel : Nat) (hw : wfDoc d = true)
    (hf : szDoc d + 1 ≤ fuel) :
    (parseCif p 1 cif fuel (St.init (tokensOf d))).1 = OK
    ∧ (parseCif p 1 cif fuel (St.init (tokensOf d))).2.1.log = (kDoc p cif d (St.init [])).1.log
    ∧ (parseCif p 1 cif fuel (St.init (tokensOf d))).2.2 = (kDoc p cif d (St.init [])).2 := by
  have hinit : St.init (tokensOf d) = atb (St.init []) (blocksToks d ++ [plain .end_ []]) false := rfl
  have hne : p (St.init []).n (.cifStart cif) ≠ END := by
    rcases hp (St.init []).n (.cifStart cif) with h | h | h <;> rw [h] <;> decide
  unfold parseCif
  rw [hinit]
  simp only [atb_n, hne, if_false, site_atb, site_ok p hp, if_true]
  rw [blocks_doc p hp cif d _ false [] fuel hw hf]
  have hend : ∀ s, (cifEndStep p cif OK s).1 = OK := by
    intro s
    unfold cifEndStep
    simp only [if_true]
    rcases hp (dec s).n (.cifEnd cif) with h | h | h <;> rw [h] <;> decide
  refine ⟨hend _, ?_, rfl⟩
  unfold kDoc cifEndStep
  simp only [if_true, dec_atb, push_atb]
  rfl

end CifModel.Lemmas.ParseCB
