import CifModel.Lemmas.ParseCBDoc
/-
  CifModel.Lemmas.ParseCBFuel — the model's own fuel `fuelFor` (4 per token + 8) is enough for every document.
-/
namespace CifModel.Lemmas.ParseCB
open CifModel.ParseCB CifModel.Spec.Doc

mutual
  theorem szV_tok : ∀ (v : V), szV v + 1 ≤ 3 * (valueToks v).length
    | .unk => by simp [szV, valueToks]
    | .na => by simp [szV, valueToks]
    | .chr true _ => by simp [szV, valueToks]
    | .chr false _ => by simp [szV, valueToks]
    | .numb .. => by simp [szV, valueToks]
    | .lst vs => by
      have := szVs_tok vs
      simp only [szV, valueToks, List.length_cons, List.length_append, List.length_nil]
      omega
    | .tbl es => by
      have := szEs_tok es
      simp only [szV, valueToks, List.length_cons, List.length_append, List.length_nil]
      omega
  theorem szVs_tok : ∀ (vs : List V), szVs vs ≤ 3 * (valuesToks vs).length
    | [] => by simp [szVs, valuesToks]
    | v :: vs => by
      have h1 := szV_tok v
      have h2 := szVs_tok vs
      simp only [szVs, valuesToks, List.length_append]
      omega
  theorem szEs_tok : ∀ (es : List (Str × Str × V)), szEs es ≤ 3 * (entriesToks es).length
    | [] => by simp [szEs, entriesToks]
    | (_, _, v) :: es => by
      have h1 := szV_tok v
      have h2 := szEs_tok es
      simp only [szEs, entriesToks, List.length_cons, List.length_append]
      omega
end

theorem len_valuesToks : ∀ (vs : List V), vs.length ≤ (valuesToks vs).length
  | [] => by simp [valuesToks]
  | v :: vs => by
    have h1 := szV_tok v
    have h2 := len_valuesToks vs
    simp only [valuesToks, List.length_append, List.length_cons]
    omega

theorem body_tok : ∀ (pks : List (List V)),
    sumSz pks ≤ 3 * ((pks.map valuesToks).flatten).length ∧ totLen pks ≤ ((pks.map valuesToks).flatten).length
  | [] => by simp [sumSz, totLen]
  | pk :: pks => by
    obtain ⟨h1, h2⟩ := body_tok pks
    have h3 := szVs_tok pk
    have h4 := len_valuesToks pk
    simp only [sumSz, totLen, List.map_cons, List.sum_cons, List.flatten_cons, List.length_append] at h1 h2 ⊢
    omega

mutual
  theorem szElem_tok : ∀ (e : Elem), szElem e + 1 ≤ 4 * (elemToks e).length
    | .item n v => by
      have := szV_tok v
      simp only [szElem, elemToks_item, List.length_cons]
      omega
    | .loop ns pks => by
      obtain ⟨h1, h2⟩ := body_tok pks
      simp only [szElem, elemToks_loop, List.length_cons, List.length_append, List.length_map]
      omega
    | .frame c body => by
      have := szElems_tok body
      simp only [szElem, elemToks_frame, List.length_cons, List.length_append, List.length_nil]
      omega
  theorem szElems_tok : ∀ (es : List Elem), szElems es ≤ 4 * (elemsToks es).length
    | [] => by simp [szElems, elemsToks]
    | e :: es => by
      have h1 := szElem_tok e
      have h2 := szElems_tok es
      simp only [szElems, elemsToks, List.length_append]
      omega
end

theorem szDoc_tok : ∀ (d : Doc), szDoc d ≤ 4 * (blocksToks d).length
  | [] => by simp [szDoc, blocksToks]
  | b :: bs => by
    have h1 := szElems_tok b.body
    have h2 := szDoc_tok bs
    simp only [szDoc, blocksToks, List.map_cons, List.flatten_cons, List.length_append, List.length_cons] at h2 ⊢
    omega

/-- the model's fuel suffices for the token sequence of any document -/
theorem fuelFor_enough (d : Doc) : szDoc d + 1 ≤ fuelFor (tokensOf d) := by
  have := szDoc_tok d
  simp only [fuelFor, tokensOf_eq, List.length_append, List.length_cons, List.length_nil]
  omega

end CifModel.Lemmas.ParseCB
