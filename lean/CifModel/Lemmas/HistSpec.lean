import CifModel.Model.HeapHist
import CifModel.Lemmas.Value
import CifModel.Lemmas.ValueHist
/-
  The TIED pure interpreter of the history language (`Hist.stepP?`, run by family val next to the library) against the
  independent specification Spec/ValueSpec: a list at any path is a sequence (`seqInsert / seqSet / seqRemove / seqGet` on
  `List V`), a table or packet at any path is an association map keyed by the normalised key (`AMap.set / erase / lookup`),
  wrong-kind and index errors leave the state as it is.  (group gM, review finding rA A.7)
-/
namespace CifModel.Model.Hist
open CifModel CifModel.Model.Value Spec.ValueSpec

/-! ### members of the object at a reference -/

theorem setChild_none_of_child_none (v : V) (s : Step) (x : V) (h : child v s = none) : setChild v s x = none := by
  cases v <;> cases s <;> simp only [child, setChild] at h ⊢
  · rename_i vs i
    rw [getAt_eq] at h
    have : ¬ i < vs.length := fun hi => by rw [List.getElem?_eq_getElem hi] at h; cases h
    simp [this]
  · rename_i es nk
    cases hm : mapFind es nk with
    | none => rfl
    | some e => rw [hm] at h; cases h

theorem setChild_some_of_child_some (v : V) (s : Step) (x c : V) (h : child v s = some c) : ∃ v', setChild v s x = some v' := by
  cases v <;> cases s <;> simp only [child, setChild] at h ⊢ <;> try (cases h)
  · rename_i vs i
    rw [getAt_eq] at h
    have : i < vs.length := by
      by_cases hi : i < vs.length
      · exact hi
      · rw [List.getElem?_eq_none (by omega)] at h; cases h
    exact ⟨.lst (setAt x i vs), by simp [this]⟩
  · rename_i es nk
    cases hm : mapFind es nk with
    | none => rw [hm] at h; cases h
    | some e => exact ⟨_, rfl⟩

theorem resolve_append (p : List Step) (s : Step) : ∀ v : V, resolve v (p ++ [s]) = (resolve v p).bind (fun c => child c s) := by
  induction p with
  | nil => intro v; simp only [List.nil_append, resolve, Option.bind_some]; cases child v s <;> rfl
  | cons s0 p ih =>
    intro v
    simp only [List.cons_append, resolve]
    cases child v s0 with
    | none => rfl
    | some c => exact ih c

theorem update_append (p : List Step) (s : Step) (x : V) : ∀ v : V, update v (p ++ [s]) x =
    (resolve v p).bind (fun c => (setChild c s x).bind (fun c' => update v p c')) := by
  induction p with
  | nil =>
    intro v
    simp only [List.nil_append, update, resolve, Option.bind_some]
    cases hc : child v s with
    | none => simp [setChild_none_of_child_none v s x hc]
    | some c => cases setChild v s x <;> simp
  | cons s0 p ih =>
    intro v
    simp only [List.cons_append, update, resolve]
    cases hc : child v s0 with
    | none => rfl
    | some c =>
      simp only [ih c]
      cases resolve c p with
      | none => rfl
      | some d =>
        simp only [Option.bind_some]
        cases setChild d s x with
        | none => rfl
        | some d' => cases update c p d' <;> simp

theorem getP_member (p : PState) (r : Ref) (s : Step) : getP p (r.member s) = (getP p r).bind (fun c => child c s) := by
  simp only [getP, Ref.member]
  cases p.get r.root with
  | none => rfl
  | some v => exact resolve_append r.path s v

theorem putP_member (p : PState) (r : Ref) (s : Step) (x c : V) (hg : getP p r = some c) :
    putP p (r.member s) x = (setChild c s x).bind (fun c' => putP p r c') := by
  simp only [getP] at hg
  simp only [putP, Ref.member]
  cases hp : p.get r.root with
  | none => rw [hp] at hg; cases hg
  | some v =>
    rw [hp] at hg
    simp only [update_append, hg, Option.bind_some]
    cases setChild c s x with
    | none => rfl
    | some c' => simp only [Option.bind_some]

theorem isVal_member' {r : Ref} (hv : r.root.ok = true) (st : Step) : (r.member st).isVal = true := by
  unfold Ref.isVal Ref.member
  cases hr : r.root <;> cases hp : r.path <;> simp_all

theorem isVal_root_ok {r : Ref} (hv : r.isVal = true) : r.root.ok = true := by
  unfold Ref.isVal at hv
  cases hr : r.root <;> cases hp : r.path <;> simp_all

/-- what happens to the element / value handed out by a remove: released, or moved into an empty slot -/
def handOut (p1 : PState) (dst : Option Nat) (x : V) : Option PState :=
  match dst with
  | none => some p1
  | some k => if (Root.val k).ok && (p1.get (.val k)).isNone then some (setP p1 (.val k) (some x)) else none

/-! ### the specification clauses, for any state -/

/-- **lists**: the object at `r` (any path) is the list `vs` -/
def ListIsSeq (p : PState) : Prop :=
  ∀ (r : Ref) (vs : List V), r.isVal = true → getP p r = some (.lst vs) → ∀ i : Nat,
    -- insert: a copy of the source's value (NULL: the unknown value) spliced in; CIF_INVALID_INDEX: nothing happens
    (∀ src x, srcP p src = some x →
      stepP? p (.lins r i src) = (match seqInsert vs i (x.getD .unk) with | .ok l => putP p r (.lst l) | .invalidIndex => none))
    -- set: NULL ↦ the unknown value; an object other than the element itself ↦ a copy of its value; the element itself ↦ nothing
    ∧ stepP? p (.lset r i none) = (match seqSet vs i .unk with | .ok l => putP p r (.lst l) | .invalidIndex => none)
    ∧ (∀ sr sv, sr.isVal = true → getP p sr = some sv → sr ≠ r.member (.idx i) →
        stepP? p (.lset r i (some sr)) = (match seqSet vs i sv with | .ok l => putP p r (.lst l) | .invalidIndex => none))
    ∧ stepP? p (.lset r i (some (r.member (.idx i)))) = (match seqGet vs i with | .ok _ => some p | .invalidIndex => none)
    -- remove: the gap is closed, the element goes to the caller's slot or is released
    ∧ (∀ dst, stepP? p (.lrem r i dst) =
        (match seqRemove vs i with | .ok (l, x) => (putP p r (.lst l)).bind (fun p1 => handOut p1 dst x) | .invalidIndex => none))
    -- get: by reference, the state is untouched
    ∧ stepP? p (.lget r i) = none
    ∧ getP p (r.member (.idx i)) = (match seqGet vs i with | .ok x => some x | .invalidIndex => none)

/-- **tables and packets**: the object at `r` (any path; a packet slot itself) holds the entries `es` -/
def TableIsMap (p : PState) : Prop :=
  ∀ (r : Ref) (es : List Entry), r.root.ok = true → getP p r = some (.tbl es) → ∀ (nk : Str),
    -- set, key not present: the abstract map with the key entered under the spelling given
    (∀ key src x, (absMap es).lookup nk = none → srcP p src = some x →
      ∃ es', stepP? p (.mset r key (some nk) src) = putP p r (.tbl es') ∧ absMap es' = (absMap es).set nk key (x.getD .unk))
    -- set, key present: first the spelling (an `AMap.set` with the old value), then the value part on the member
    ∧ (∀ key src vOld, (absMap es).lookup nk = some vOld →
      ∃ es1, absMap es1 = (absMap es).set nk key vOld
        ∧ stepP? p (.mset r key (some nk) src) = (putP p r (.tbl es1)).bind (fun p1 => setValueP p1 src (r.member (.key nk))))
    -- remove (the map has no key twice): the key is gone, the value goes to the caller's slot or is released
    ∧ (∀ dst, nodupKeys es = true →
        ∃ es', absMap es' = (absMap es).erase nk ∧
          stepP? p (.mrem r (some nk) dst) = (match (absMap es).lookup nk with
            | some v => (putP p r (.tbl es')).bind (fun p1 => handOut p1 dst v)
            | none => none))
    -- get: lookup, by reference
    ∧ stepP? p (.mget r (some nk)) = none
    ∧ getP p (r.member (.key nk)) = (absMap es).lookup nk
    -- a key the normaliser rejects: nothing happens
    ∧ (∀ key src, stepP? p (.mset r key none src) = none) ∧ (∀ dst, stepP? p (.mrem r none dst) = none)

/-- **wrong kind**: a list operation on something that is not a list, a map operation on something that is not a table or packet:
    the state is untouched -/
def WrongKindNothing (p : PState) : Prop :=
  ∀ (r : Ref) (c : V), getP p r = some c →
    ((∀ vs, c ≠ .lst vs) → ∀ i src dst, stepP? p (.lins r i src) = none ∧ stepP? p (.lset r i src) = none
        ∧ stepP? p (.lrem r i dst) = none)
    ∧ ((∀ es, c ≠ .tbl es) → ∀ key nk src dst, stepP? p (.mset r key nk src) = none ∧ stepP? p (.mrem r nk dst) = none)

theorem lookup_none_iff (es : List Entry) (nk : Str) : (absMap es).lookup nk = none ↔ mapFind es nk = none := by
  simp only [AMap.lookup, absMap]
  cases mapFind es nk <;> simp

theorem listIsSeq_any (p : PState) : ListIsSeq p := by
  intro r vs hv hg i
  have hmem : getP p (r.member (.idx i)) = vs[i]? := by
    rw [getP_member, hg]; simp [child, getAt_eq]
  have hput : ∀ x, i < vs.length → putP p (r.member (.idx i)) x = putP p r (.lst (vs.set i x)) := by
    intro x hi
    rw [putP_member p r (.idx i) x _ hg]
    simp [setChild, hi, setAt_eq]
  have hmv : (r.member (.idx i)).isVal = true := isVal_member' (isVal_root_ok hv) _
  refine ⟨?_, ?_, ?_, ?_, ?_, rfl, ?_⟩
  · intro src x hx
    simp only [stepP?, hv, if_true, hg, hx, seqInsert]
    by_cases hi : i ≤ vs.length
    · simp [hi, insertAt_eq _ _ _ hi]
    · simp [hi]
  · simp only [stepP?, hv, if_true, hg, seqSet, setValueP, cleanP, hmem]
    by_cases hi : i < vs.length
    · simp [hi, List.getElem?_eq_getElem hi, hput .unk hi]
    · simp [hi]
  · intro sr sv hsv hgs hne
    simp only [stepP?, hv, if_true, hg, seqSet, setValueP, copyOntoP, hsv, hmv, Bool.and_self, hgs, hmem]
    by_cases hi : i < vs.length
    · simp [hi, List.getElem?_eq_getElem hi, hne, hput sv hi]
    · simp [hi]
  · simp only [stepP?, hv, if_true, hg, seqGet, setValueP, copyOntoP, hmv, Bool.and_self, hmem]
    by_cases hi : i < vs.length
    · simp [hi, List.getElem?_eq_getElem hi]
    · have : vs[i]? = none := by simp; omega
      simp [hi, this]
  · intro dst
    simp only [stepP?, hv, if_true, hg, seqRemove, getAt_eq, removeAt_eq]
    cases hvi : vs[i]? with
    | none => rfl
    | some x =>
      simp only []
      cases putP p r (.lst (vs.eraseIdx i)) with
      | none => rfl
      | some p1 => cases dst <;> rfl
  · rw [hmem]; simp only [seqGet]; cases vs[i]? <;> rfl

theorem tableIsMap_any (p : PState) : TableIsMap p := by
  intro r es hv hg nk
  have hmem : getP p (r.member (.key nk)) = (absMap es).lookup nk := by
    rw [getP_member, hg]; simp only [Option.bind_some, child, AMap.lookup, absMap]; cases mapFind es nk <;> rfl
  refine ⟨?_, ?_, ?_, rfl, hmem, fun _ _ => by simp [stepP?, hv, hg], fun _ => by simp [stepP?, hv, hg]⟩
  · intro key src x hnone hx
    have hmf := (lookup_none_iff es nk).mp hnone
    exact ⟨mapSet es nk key x, by simp [stepP?, hv, hg, hmf, hx], abs_mapSet es nk key x⟩
  · intro key src vOld hl
    cases hmf : mapFind es nk with
    | none => rw [(lookup_none_iff es nk).mpr hmf] at hl; cases hl
    | some e =>
      have hv' : e.2.2 = vOld := by
        simp only [AMap.lookup, absMap, hmf, Option.map_some, Option.some.injEq] at hl; exact hl
      refine ⟨mapReplace es nk key e.2.2, ?_, by simp only [stepP?, hv, if_true, hg, hmf]; cases putP p r (.tbl (mapReplace es nk key e.2.2)) <;> rfl⟩
      have := abs_mapSet es nk key (some e.2.2)
      simp only [mapSet, hmf, Option.getD_some] at this
      rw [this, hv']
  · intro dst hnd
    refine ⟨mapErase es nk, abs_mapErase es nk hnd, ?_⟩
    simp only [stepP?, hv, if_true, hg, AMap.lookup, absMap]
    cases hmf : mapFind es nk with
    | none => rfl
    | some e =>
      simp only [Option.map_some]
      cases putP p r (.tbl (mapErase es nk)) with
      | none => rfl
      | some p1 => cases dst <;> rfl

theorem wrongKind_any (p : PState) : WrongKindNothing p := by
  intro r c hg
  constructor
  · intro hn i src dst
    cases c <;> first | exact absurd rfl (hn _) | (simp only [stepP?, hg]; refine ⟨?_, ?_, ?_⟩ <;> (split <;> first | rfl | (cases srcP p src <;> rfl)))
  · intro hn key nk src dst
    cases c <;> first | exact absurd rfl (hn _) | (simp only [stepP?, hg]; refine ⟨?_, ?_⟩ <;> (split <;> first | rfl | (cases nk <;> rfl)))

end CifModel.Model.Hist
