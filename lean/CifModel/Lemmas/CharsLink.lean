import CifModel.Model.Lexer
/-
  Lemmas/CharsLink — LINK THEOREMS: the hand-written character classification and constants of the scanner model against
  the data regenerated from the sources on every run (Gen/CharClass.lean, tools/translate_chars.py).  If a class-table
  entry, a metaclass, a class code collision or one of the constants changes in /repo, one of these stops checking.
  (Kept out of Model/ so that the model driver still builds in that situation and the correspondence can look for a
  concrete failing input.)
-/
namespace CifModel.Model.Chars
open CifModel

theorem charTableMax_link : Gen.CharClass.charTableMax = 160 := by decide

/-- every entry of the CIF 2.0 class table -/
theorem classV2_link : ∀ c, c < 160 → Gen.CharClass.classV2[c]? = some (classOf .cif2 c).code := by
  have h := forall_lt_of_range_all (n := 160) (p := fun c => Gen.CharClass.classV2[c]? == some (classOf .cif2 c).code) (by decide +kernel)
  intro c hc
  simpa using h c hc

/-- every entry of the CIF 1.1 class table -/
theorem classV1_link : ∀ c, c < 160 → Gen.CharClass.classV1[c]? = some (classOf .cif1 c).code := by
  have h := forall_lt_of_range_all (n := 160) (p := fun c => Gen.CharClass.classV1[c]? == some (classOf .cif1 c).code) (by decide +kernel)
  intro c hc
  simpa using h c hc

theorem tableLength_link : Gen.CharClass.classV2.length = 160 ∧ Gen.CharClass.classV1.length = 160 := by decide +kernel

/-- `CLASS_OF` above the table -/
theorem classHigh_link : (classOf .cif2 160).code = Gen.CharClass.classHighV2 ∧ (classOf .cif1 160).code = Gen.CharClass.classHighV1 := by
  decide +kernel

/-- the metaclass table, in both modes, for every class the tables can hold -/
theorem meta_link : ∀ k ∈ Cls.all, Gen.CharClass.metaV2[k.code]? = some (metaOfCls k).code
                                ∧ Gen.CharClass.metaV1[k.code]? = some (metaOfCls k).code := by
  have h : Cls.all.all (fun k => Gen.CharClass.metaV2[k.code]? == some (metaOfCls k).code
                              && Gen.CharClass.metaV1[k.code]? == some (metaOfCls k).code) = true := by decide +kernel
  intro k hk
  have := List.all_eq_true.mp h k hk
  simpa using this

theorem Cls.mem_all (k : Cls) : k ∈ Cls.all := by cases k <;> decide

/-- distinct classes have distinct codes (so comparing classes is comparing codes, as the C does) -/
theorem Cls.code_injective : ∀ k ∈ Cls.all, ∀ k' ∈ Cls.all, k.code = k'.code → k = k' := by
  have h : Cls.all.all (fun k => Cls.all.all (fun k' => k.code != k'.code || k == k')) = true := by decide +kernel
  intro k hk k' hk' e
  have := List.all_eq_true.mp (List.all_eq_true.mp h k hk) k' hk'
  simp [e] at this
  exact this

end CifModel.Model.Chars

namespace CifModel.Model.Lexer
open CifModel CifModel.Model.Chars

theorem consts_link : lineLength = Gen.CharClass.CIF_LINE_LENGTH ∧ cif1MaxChar = Gen.CharClass.CIF1_MAX_CHAR
    ∧ eofChar = Gen.CharClass.EOF_CHAR ∧ colon = Gen.CharClass.UCHAR_COLON
    ∧ replChar .cif2 = Gen.CharClass.REPL_CHAR ∧ replChar .cif1 = Gen.CharClass.REPL1_CHAR
    ∧ Gen.CharClass.UCHAR_NL = 10 ∧ Gen.CharClass.UCHAR_CR = 13 ∧ Gen.CharClass.UCHAR_BOM = 0xFEFF
    ∧ Gen.CharClass.initLine = 1 ∧ Gen.CharClass.initColumn = 0 ∧ Gen.CharClass.initTtype = Gen.CharClass.ttEnd := by
  decide

end CifModel.Model.Lexer
