import CifModel.Model.NumbLimbs
import CifModel.Gen.NumbConsts
/- link lemmas of the limb level: array sizes and positions against the constants the compiler sees -/
namespace CifModel.Lemmas.NumbLimbLink
open CifModel.Model CifModel.Gen

theorem link_limb_arrays : NumbLimbs.BIGNUM_DIGITS = NumbConsts.BIGNUM_DIGITS ∧ NumbLimbs.DIG_PER_DBL = NumbConsts.DIG_PER_DBL ∧
    NumbLimbs.UNITS_DIGIT = NumbConsts.UNITS_DIGIT ∧ Numb.BDIG_PER_DIG = NumbConsts.BDIG_PER_DIG ∧
    Numb.BBASE = 10 ^ Numb.DDIG_PER_DIG := by decide

end CifModel.Lemmas.NumbLimbLink
