import CifModel.Model.ParserTrace
import CifModel.Lemmas.ParserConsistent
import CifModel.Lemmas.ParserValues
/-
  Lemmas/ParserTrace — the instrumented parser of Model/ParserTrace.lean IS the parser of Model/Parser.lean with a trace:

    * `parseT_out`    : forgetting the trace gives exactly `parse` (same return value, same reports, same target), for every
                        option record, policy, initial target and input;
    * `parse_replay`  : the target after the parse is the replay of the recorded store calls on the initial target
                        (`SOp.apply`, i.e. the documented effect of each call), in order.

  Method: a relational Hoare logic `SimHT pre mt m post` between an instrumented production `mt : PT α` and the original `m : P α`,
  run from states that agree on `W` and in which the target is the replay of the trace so far (`Good`); closure under bind / if /
  lifting of target-preserving productions; `emit` against the original `setCif`.
-/
set_option linter.unusedSimpArgs false
set_option linter.unusedVariables false

namespace CifModel.Model.Parser
open CifModel CifModel.Model CifModel.Model.Lexer CifModel.Gen.ErrCodes

@[simp] theorem pureT_eq {α} (a : α) : (pure a : PT α) = PT.pure a := rfl
@[simp] theorem bindT_eq {α β} (m : PT α) (f : α → PT β) : (m >>= f) = PT.bind m f := rfl

/-- what every recorded call satisfies by construction: cif_container_set_value is only recorded under a valid data name (the C
    function refuses any other: CIF_INVALID_ITEMNAME), and the values handed to the store contain no number object
    (Lemmas/ParserValues: what parse_value returns) -/
def SOp.wf : SOp → Prop
  | .setVal _ n v => isValidName true n = true ∧ numbFree v = true
  | .addPkt _ vals => ∀ v ∈ vals, numbFree v = true
  | _ => True

/-- the target is the replay of the trace so far, and every recorded call is well-formed -/
def Good (o : Opts) (pre0 : Cif) (wt : WT) : Prop := wt.w.cif = replay o wt.ops pre0 ∧ ∀ op ∈ wt.ops, op.wf

structure SimHT (o : Opts) (pre0 : Cif) {α} (pre : Cif → Prop) (mt : PT α) (m : P α) (post : α → Cif → Prop) : Prop where
  run : ∀ pol wt, Good o pre0 wt → pre wt.w.cif →
    match mt pol wt, m pol wt.w with
    | .ok a wt', .ok a' w' => a = a' ∧ wt'.w = w' ∧ Good o pre0 wt' ∧ post a w'.cif
    | .abort r wt', .abort r' w' => r = r' ∧ wt'.w = w' ∧ Good o pre0 wt'
    | _, _ => False

abbrev Sim (o : Opts) (pre0 : Cif) {α} (mt : PT α) (m : P α) : Prop := SimHT o pre0 (fun _ => True) mt m (fun _ _ => True)

variable {o : Opts} {pre0 : Cif}

theorem SimHT.bind {α β} {pre : Cif → Prop} {mid : α → Cif → Prop} {post : β → Cif → Prop} {mt : PT α} {m : P α}
    {ft : α → PT β} {f : α → P β} (hm : SimHT o pre0 pre mt m mid) (hf : ∀ a, SimHT o pre0 (mid a) (ft a) (f a) post) :
    SimHT o pre0 pre (PT.bind mt ft) (P.bind m f) post := by
  constructor
  intro pol wt hg hp
  have h1 := hm.run pol wt hg hp
  simp only [PT.bind, P.bind]
  cases hA : mt pol wt with
  | ok a wt1 =>
    cases hB : m pol wt.w with
    | ok a' w1 =>
      rw [hA, hB] at h1
      obtain ⟨rfl, rfl, hg1, hmid⟩ := h1
      exact (hf a).run pol wt1 hg1 hmid
    | abort r' w1 => rw [hA, hB] at h1; exact h1.elim
  | abort r wt1 =>
    cases hB : m pol wt.w with
    | ok a' w1 => rw [hA, hB] at h1; exact h1.elim
    | abort r' w1 => rw [hA, hB] at h1; exact h1

theorem SimHT.conseq {α} {pre pre' : Cif → Prop} {post post' : α → Cif → Prop} {mt : PT α} {m : P α}
    (h : SimHT o pre0 pre mt m post) (hpre : ∀ c, pre' c → pre c) (hpost : ∀ a c, post a c → post' a c) :
    SimHT o pre0 pre' mt m post' := by
  constructor
  intro pol wt hg hp
  have h1 := h.run pol wt hg (hpre _ hp)
  cases hA : mt pol wt with
  | ok a wt1 =>
    cases hB : m pol wt.w with
    | ok a' w1 => rw [hA, hB] at h1; exact ⟨h1.1, h1.2.1, h1.2.2.1, hpost _ _ h1.2.2.2⟩
    | abort r' w1 => rw [hA, hB] at h1; exact h1.elim
  | abort r wt1 =>
    cases hB : m pol wt.w with
    | ok a' w1 => rw [hA, hB] at h1; exact h1.elim
    | abort r' w1 => rw [hA, hB] at h1; exact h1

theorem SimHT.pure {α} {pre : Cif → Prop} {post : α → Cif → Prop} (a : α) (h : ∀ c, pre c → post a c) :
    SimHT o pre0 pre (PT.pure a) (P.pure a) post :=
  ⟨fun _ wt hg hp => ⟨rfl, rfl, hg, h _ hp⟩⟩

/-- a production that leaves the target alone, lifted -/
theorem SimHT.liftP {α} {pre : Cif → Prop} (m : P α) (hcif : ∀ c0 : Cif, Pres (fun c => c = c0) m) :
    SimHT o pre0 pre (Parser.liftP m) m (fun _ c => pre c) := by
  constructor
  intro pol wt hg hp
  have h1 := (hcif wt.w.cif).run pol wt.w rfl
  simp only [Parser.liftP]
  cases hB : m pol wt.w with
  | ok a w1 =>
    rw [hB] at h1
    simp only [] at h1
    refine ⟨rfl, rfl, ?_, by rw [h1]; exact hp⟩
    simp only [Good] at hg ⊢
    rw [h1]; exact hg
  | abort r w1 =>
    rw [hB] at h1
    simp only [] at h1
    refine ⟨rfl, rfl, ?_⟩
    simp only [Good] at hg ⊢
    rw [h1]; exact hg

/-- … with what the production returns -/
theorem SimHT.liftPR {α} {pre : Cif → Prop} {Q : α → Prop} (m : P α) (hcif : ∀ c0 : Cif, Pres (fun c => c = c0) m) (hret : Ret Q m) :
    SimHT o pre0 pre (Parser.liftP m) m (fun a c => pre c ∧ Q a) := by
  constructor
  intro pol wt hg hp
  have h1 := (SimHT.liftP (o := o) (pre0 := pre0) (pre := pre) m hcif).run pol wt hg hp
  cases hA : Parser.liftP m pol wt with
  | ok a wt1 =>
    cases hB : m pol wt.w with
    | ok a' w1 =>
      rw [hA, hB] at h1
      obtain ⟨rfl, h2, h3, h4⟩ := h1
      exact ⟨rfl, h2, h3, h4, hret.run pol wt.w a w1 hB⟩
    | abort r' w1 => rw [hA, hB] at h1; exact h1.elim
  | abort r wt1 =>
    cases hB : m pol wt.w with
    | ok a' w1 => rw [hA, hB] at h1; exact h1.elim
    | abort r' w1 => rw [hA, hB] at h1; exact h1

theorem SimHT.getCif {pre : Cif → Prop} : SimHT o pre0 pre (Parser.liftP Parser.getCif) Parser.getCif (fun a c => a = c ∧ pre c) :=
  ⟨fun _ wt hg hp => ⟨rfl, rfl, hg, rfl, hp⟩⟩

/-- a recorded store call against the original's `setCif` -/
theorem SimHT.emit (op : SOp) (c' : Cif) (hwf : op.wf) :
    SimHT o pre0 (fun c => op.apply o c = c') (emit o op) (Parser.setCif c') (fun _ _ => True) := by
  constructor
  intro pol wt hg hp
  simp only [Parser.emit, Parser.setCif]
  refine ⟨by first | rfl | trivial, by rw [hp], ?_, trivial⟩
  simp only [Good, replay, List.foldr_cons, List.mem_cons] at hg ⊢
  refine ⟨by rw [← hg.1], ?_⟩
  rintro x (rfl | hx)
  · exact hwf
  · exact hg.2 x hx

theorem SimHT.ite {α} {pre : Cif → Prop} {post : α → Cif → Prop} {c : Prop} [Decidable c] {at_ bt : PT α} {a b : P α}
    (ha : SimHT o pre0 pre at_ a post) (hb : SimHT o pre0 pre bt b post) :
    SimHT o pre0 pre (if c then at_ else bt) (if c then a else b) post := by
  split <;> assumption

theorem SimHT.pull {α} {R : Cif → Prop} {p : Prop} {post : α → Cif → Prop} {mt : PT α} {m : P α}
    (h : p → SimHT o pre0 R mt m post) : SimHT o pre0 (fun c => R c ∧ p) mt m post :=
  ⟨fun pol wt hg hw => (h hw.2).run pol wt hg hw.1⟩

theorem Sim.of {α} {post : α → Cif → Prop} {mt : PT α} {m : P α} (h : SimHT o pre0 (fun _ => True) mt m post) :
    Sim o pre0 mt m := h.conseq (fun _ h => h) (fun _ _ _ => trivial)

theorem Sim.weaken {α} {pre : Cif → Prop} {mt : PT α} {m : P α} (h : Sim o pre0 mt m) : SimHT o pre0 pre mt m (fun _ _ => True) :=
  h.conseq (fun _ _ => trivial) (fun _ _ h => h)

theorem Sim.pure {α} (a : α) : Sim o pre0 (PT.pure a) (P.pure a) := SimHT.pure a (fun _ _ => trivial)

theorem Sim.bind {α β} {mt : PT α} {m : P α} {ft : α → PT β} {f : α → P β} (hm : Sim o pre0 mt m)
    (hf : ∀ a, Sim o pre0 (ft a) (f a)) : Sim o pre0 (PT.bind mt ft) (P.bind m f) :=
  SimHT.bind hm hf

theorem Sim.liftP {α} (m : P α) (hcif : ∀ c0 : Cif, Pres (fun c => c = c0) m) : Sim o pre0 (Parser.liftP m) m :=
  (SimHT.liftP m hcif).conseq (fun _ h => h) (fun _ _ _ => trivial)

theorem Sim.ite {α} {c : Prop} [Decidable c] {at_ bt : PT α} {a b : P α} (ha : Sim o pre0 at_ a) (hb : Sim o pre0 bt b) :
    Sim o pre0 (if c then at_ else bt) (if c then a else b) := SimHT.ite ha hb

theorem Sim.clamp {mt : PT Unit} {m : P Unit} (h : Sim o pre0 mt m) : Sim o pre0 (clampT mt) (clamp m) := by
  constructor
  intro pol wt hg hp
  have h1 := h.run pol wt hg hp
  cases hA : mt pol wt with
  | ok a wt1 =>
    cases hB : m pol wt.w with
    | ok a' w1 => rw [hA, hB] at h1; simpa only [clampT, Parser.clamp, hA, hB] using h1
    | abort r' w1 => rw [hA, hB] at h1; exact h1.elim
  | abort r wt1 =>
    cases hB : m pol wt.w with
    | ok a' w1 => rw [hA, hB] at h1; exact h1.elim
    | abort r' w1 =>
      rw [hA, hB] at h1
      obtain ⟨rfl, rfl, hg1⟩ := h1
      by_cases hc : r > 0
      · simp only [clampT, Parser.clamp, hA, hB, hc, if_true]; exact ⟨trivial, trivial, hg1⟩
      · simp only [clampT, Parser.clamp, hA, hB, hc, if_false]; exact ⟨trivial, trivial, hg1, trivial⟩

/-- the productions that leave the target alone -/
syntax "keepq" : tactic
macro_rules
  | `(tactic| keepq) => `(tactic| first
      | exact Pres.report _ _ _ _
      | exact Pres.fail _ _
      | exact Pres.getCif _
      | exact ask_pres _ _ _ _
      | exact nextTok_pres _ _ _
      | exact parseValue_pres _ _ _ _
      | exact headerLoop_pres _ _ _ _ _ _
      | exact itemExists_pres _ _ _ _)

/-- `simq [h₁, …]`: decompose an instrumented production and the original side by side -/
syntax "simq" "[" term,* "]" : tactic
macro_rules
  | `(tactic| simq [$hs,*]) => `(tactic| repeat (first
      | exact Sim.pure _
      | exact Sim.liftP _ (fun _ => by keepq)
      | (first $[| exact $hs ..]*)
      | apply Sim.bind
      | apply Sim.ite
      | intro _
      | split))

/-! ### the store operations -/

theorem setValue_sim (o : Opts) (pre0 : Cif) (path : Path) (name : Str) (v : V) (hnf : numbFree v = true) :
    Sim o pre0 (setValueT o path name v) (setValue o path name v) := by
  unfold setValueT setValue
  by_cases hv : isValidName true name = true
  · simp only [hv, Bool.not_true, Bool.false_eq_true, if_false, bind_eq, pure_eq]
    constructor
    intro pol wt hg _
    simp only [Parser.emit, P.bind, P.pure, Parser.getCif, Parser.setCif, SOp.apply, setValueC]
    refine ⟨by first | rfl | trivial, rfl, ?_, trivial⟩
    simp only [Good, replay, List.foldr_cons, SOp.apply, setValueC, List.mem_cons] at hg ⊢
    refine ⟨by rw [← hg.1], ?_⟩
    rintro x (rfl | hx)
    · exact ⟨hv, hnf⟩
    · exact hg.2 x hx
  · simp only [hv, Bool.not_false, if_true, bind_eq, pure_eq]
    constructor
    intro pol wt hg _
    simp only [Parser.liftP, P.bind, Parser.fail]
    exact ⟨by first | rfl | trivial, by first | rfl | trivial, hg⟩

theorem addPacket_sim (o : Opts) (pre0 : Cif) (loopAt : Option Path) (p : List V) (hp : ∀ v ∈ p, numbFree v = true) :
    Sim o pre0 (addPacketT o loopAt p) (addPacket o loopAt p) := by
  cases loopAt with
  | none => exact Sim.pure _
  | some path =>
    constructor
    intro pol wt hg _
    simp only [addPacketT, addPacket, Parser.emit, bind_eq, P.bind, Parser.getCif, Parser.setCif, SOp.apply]
    refine ⟨by first | rfl | trivial, by first | rfl | trivial, ?_, trivial⟩
    simp only [Good, replay, List.foldr_cons, SOp.apply, List.mem_cons] at hg ⊢
    refine ⟨by rw [← hg.1], ?_⟩
    rintro x (rfl | hx)
    · exact hp
    · exact hg.2 x hx

/-- a recorded call against the original's `setCif`, the target being known -/
theorem SimHT.emit_at (op : SOp) (cif c' : Cif) (h : op.apply o cif = c') (hwf : op.wf) :
    SimHT o pre0 (fun c => cif = c ∧ True) (Parser.emit o op) (Parser.setCif c') (fun _ _ => True) :=
  (SimHT.emit op c' hwf).conseq (fun c hc => by rw [← hc.1]; exact h) (fun _ _ h => h)

/-- the pruning at the end of parse_container -/
theorem prune_sim (o : Opts) (pre0 : Cif) (path : Path) (s : PS) :
    Sim o pre0 (PT.bind (emit o (.prune path)) fun _ => PT.pure s)
      (P.bind Parser.getCif fun cif => P.bind (Parser.setCif (updIn o.norm pruneC path cif)) fun _ => P.pure s) := by
  constructor
  intro pol wt hg _
  simp only [PT.bind, P.bind, Parser.emit, Parser.getCif, Parser.setCif, PT.pure, P.pure, SOp.apply]
  refine ⟨by first | rfl | trivial, by first | rfl | trivial, ?_, trivial⟩
  simp only [Good, replay, List.foldr_cons, SOp.apply, List.mem_cons] at hg ⊢
  refine ⟨by rw [← hg.1], ?_⟩
  rintro x (rfl | hx)
  · exact trivial
  · exact hg.2 x hx

section Productions
attribute [local irreducible] parseValue listLoop tableLoop tableEntry nextTok P.bind P.pure Parser.report Parser.fail
  headerLoop packetsLoop parseContainer elemsLoop blocksLoop PT.bind PT.pure Parser.liftP Parser.emit
  packetsLoopT parseContainerT elemsLoopT blocksLoopT

theorem parseItem_sim (o : Opts) (pre0 : Cif) (fuel : Nat) (s : PS) (cont : Option Path) (name : Option Str) :
    Sim o pre0 (parseItemT o fuel s cont name) (parseItem o fuel s cont name) := by
  unfold parseItemT parseItem
  have hstore : ∀ (path : Path) (n : Str) (y : V × PS), SimHT o pre0 (fun _ => True ∧ numbFree y.1 = true)
      (PT.bind (setValueT o path n y.1) fun _ => PT.pure y.2) (P.bind (setValue o path n y.1) fun _ => P.pure y.2)
      (fun _ _ => True) :=
    fun path n y => SimHT.pull (fun hy => Sim.bind (setValue_sim o pre0 path n y.1 hy) (fun _ => Sim.pure _))
  have hval : ∀ (path : Path) (n : Str) (s' : PS), Sim o pre0
      (PT.bind (Parser.liftP (parseValue o fuel s')) fun y => PT.bind (setValueT o path n y.1) fun _ => PT.pure y.2)
      (P.bind (parseValue o fuel s') fun y => P.bind (setValue o path n y.1) fun _ => P.pure y.2) :=
    fun path n s' => Sim.of (SimHT.bind (SimHT.liftPR _ (fun _ => by keepq) (parseValue_numbFree o fuel s')) (fun y => hstore path n y))
  cases name with
  | none => cases cont <;> simp only [bind_eq, pure_eq, bindT_eq, pureT_eq] <;> simq []
  | some n =>
    cases cont with
    | none => simp only [bind_eq, pure_eq, bindT_eq, pureT_eq]; simq []
    | some path =>
      simp only [bind_eq, pure_eq, bindT_eq, pureT_eq]
      apply Sim.bind (Sim.liftP _ (fun _ => by keepq))
      rintro ⟨t, s1⟩
      simp only []
      apply Sim.ite
      · apply Sim.bind (Sim.liftP _ (fun _ => by keepq))
        intro _
        exact hval path n _
      · apply Sim.ite
        · exact hval path n _
        · apply Sim.bind (Sim.liftP _ (fun _ => by keepq))
          intro _
          exact Sim.of (SimHT.bind (SimHT.pure (post := fun y _ => True ∧ numbFree y.1 = true) _ (fun _ _ => ⟨trivial, rfl⟩))
            (fun y => hstore path n y))

theorem numbFree_snoc (cur : List V) (v : V) (b : Bool) (hcur : ∀ x ∈ cur, numbFree x = true) (hv : numbFree v = true) :
    ∀ x ∈ (if b = true then cur ++ [v] else cur), numbFree x = true := by
  intro x hx
  split at hx
  · rcases List.mem_append.mp hx with h | h
    · exact hcur x h
    · simp only [List.mem_singleton] at h; subst h; exact hv
  · exact hcur x hx

theorem packetsLoop_sim (o : Opts) (pre0 : Cif) (loopAt : Option Path) (slots : List (Option Str)) :
    ∀ (fuel : Nat) (s : PS) (k : Pk), (∀ x ∈ k.cur, numbFree x = true) →
      Sim o pre0 (packetsLoopT o loopAt slots fuel s k) (packetsLoop o loopAt slots fuel s k) := by
  intro fuel
  induction fuel with
  | zero => intro s k _; rw [packetsLoopT, packetsLoop]; exact Sim.liftP _ (fun _ => by keepq)
  | succ fuel ih =>
    intro s k hcur
    rw [packetsLoopT, packetsLoop]
    simp only [bind_eq, pure_eq, bindT_eq, pureT_eq]
    apply Sim.bind (Sim.liftP _ (fun _ => by keepq))
    rintro ⟨t, s1⟩
    simp only []
    have hval : ∀ s2 : PS, Sim o pre0
        (PT.bind (Parser.liftP (parseValue o fuel s2)) fun x =>
          if (k.idx + 1) % slots.length = 0 then
            (addPacketT o loopAt (if (slots.getD k.idx none).isSome = true then k.cur ++ [x.fst] else k.cur)).bind
              fun _ => packetsLoopT o loopAt slots fuel x.snd { idx := 0, some := true, cur := [] }
          else
            packetsLoopT o loopAt slots fuel x.snd
              { idx := (k.idx + 1) % slots.length, some := k.some,
                cur := if (slots.getD k.idx none).isSome = true then k.cur ++ [x.fst] else k.cur })
        (P.bind (parseValue o fuel s2) fun x =>
          if (k.idx + 1) % slots.length = 0 then
            (addPacket o loopAt (if (slots.getD k.idx none).isSome = true then k.cur ++ [x.fst] else k.cur)).bind
              fun _ => packetsLoop o loopAt slots fuel x.snd { idx := 0, some := true, cur := [] }
          else
            packetsLoop o loopAt slots fuel x.snd
              { idx := (k.idx + 1) % slots.length, some := k.some,
                cur := if (slots.getD k.idx none).isSome = true then k.cur ++ [x.fst] else k.cur }) := by
      intro s2
      refine Sim.of (post := fun _ _ => True) (SimHT.bind (SimHT.liftPR _ (fun _ => by keepq) (parseValue_numbFree o fuel s2)) ?_)
      rintro ⟨v, s3⟩
      apply SimHT.pull
      intro hv
      have hcur' := numbFree_snoc k.cur v (slots.getD k.idx none).isSome hcur hv
      apply Sim.ite
      · exact Sim.bind (addPacket_sim o pre0 loopAt _ hcur') (fun _ => ih _ _ (by intro x hx; cases hx))
      · exact ih _ _ hcur'
    apply Sim.ite
    · apply Sim.ite
      · apply Sim.bind (Sim.liftP _ (fun _ => by keepq))
        intro _
        apply Sim.bind (Sim.pure _)
        intro s2
        exact hval s2
      · apply Sim.bind (Sim.pure _)
        intro s2
        exact hval s2
    · apply Sim.ite
      · apply Sim.bind (Sim.liftP _ (fun _ => by keepq))
        intro _
        exact ih _ k hcur
      · apply Sim.ite
        · apply Sim.bind (Sim.liftP _ (fun _ => by keepq))
          intro _
          apply Sim.bind
          · apply addPacket_sim
            intro x hx
            rcases List.mem_append.mp hx with h | h
            · exact hcur x h
            · simp only [List.mem_map] at h
              obtain ⟨_, _, rfl⟩ := h
              rfl
          · intro _
            exact Sim.pure _
        · simq []

theorem parseLoop_sim (o : Opts) (pre0 : Cif) (fuel : Nat) (s : PS) (cont : Option Path) :
    Sim o pre0 (parseLoopT o fuel s cont) (parseLoop o fuel s cont) := by
  unfold parseLoopT parseLoop
  simp only [bind_eq, pure_eq, bindT_eq, pureT_eq]
  have hpk : ∀ (la : Option Path) (slots : List (Option Str)) (s : PS), Sim o pre0
      (packetsLoopT o la slots fuel s { idx := 0, some := false, cur := [] })
      (packetsLoop o la slots fuel s { idx := 0, some := false, cur := [] }) :=
    fun la slots s => packetsLoop_sim o pre0 la slots fuel s _ (by intro x hx; cases hx)
  apply Sim.bind (Sim.liftP _ (fun _ => by keepq))
  rintro ⟨slots, s1⟩
  simp only []
  apply Sim.ite
  · simq []
  · cases cont with
    | none => simp only []; simq [hpk]
    | some path =>
      simp only []
      apply Sim.ite
      · simq [hpk]
      · apply Sim.ite
        · simq [hpk]
        · refine Sim.of (post := fun _ _ => True) (SimHT.bind SimHT.getCif ?_)
          intro cif
          apply SimHT.ite
          · exact Sim.weaken (by simq [hpk])
          · apply SimHT.bind (SimHT.emit_at _ cif _ rfl (by trivial))
            intro _
            exact Sim.weaken (by simq [hpk])

theorem createIn_sim (o : Opts) (pre0 : Cif) (isBlock : Bool) (parent : Path) (code : Str) (line col : Nat) :
    Sim o pre0 (createInT o isBlock parent code line col) (createIn o isBlock parent code line col) := by
  unfold createInT createIn
  simp only [bind_eq, pure_eq, bindT_eq, pureT_eq]
  refine Sim.of (post := fun _ _ => True) (SimHT.bind SimHT.getCif ?_)
  intro cif
  have hrep : ∀ (code : Code) (line col : Nat) (a : Path), SimHT o pre0 (fun c => cif = c ∧ True)
      (PT.bind (Parser.liftP (Parser.report code line col)) fun _ => PT.pure a)
      (P.bind (Parser.report code line col) fun _ => P.pure a) (fun _ _ => True) :=
    fun code line col a => Sim.weaken (Sim.bind (Sim.liftP _ (fun _ => by keepq)) (fun _ => Sim.pure _))
  have hadd : ∀ (op : SOp) (c' : Cif) (a : Path), op.apply o cif = c' → op.wf → SimHT o pre0 (fun c => cif = c ∧ True)
      (PT.bind (emit o op) fun _ => PT.pure a) (P.bind (Parser.setCif c') fun _ => P.pure a) (fun _ _ => True) :=
    fun op c' a h hwf => SimHT.bind (SimHT.emit_at op cif c' h hwf) (fun _ => Sim.weaken (Sim.pure _))
  cases isBlock <;> simp only [Bool.false_eq_true, if_false, if_true]
  · apply SimHT.ite
    · apply SimHT.bind (SimHT.liftP _ (fun _ => by keepq))
      intro _
      apply SimHT.ite
      · exact hrep _ _ _ _
      · exact hadd _ _ _ rfl (by trivial)
    · apply SimHT.ite
      · exact hrep _ _ _ _
      · exact hadd _ _ _ rfl (by trivial)
  · apply SimHT.ite
    · apply SimHT.bind (SimHT.liftP _ (fun _ => by keepq))
      intro _
      apply SimHT.ite
      · exact hrep _ _ _ _
      · exact hadd _ _ _ rfl (by trivial)
    · apply SimHT.ite
      · exact hrep _ _ _ _
      · exact hadd _ _ _ rfl (by trivial)

theorem containers_sim (o : Opts) (pre0 : Cif) : ∀ fuel : Nat,
    (∀ s cont isBlock, Sim o pre0 (parseContainerT o fuel s cont isBlock) (parseContainer o fuel s cont isBlock)) ∧
    (∀ s cont isBlock, Sim o pre0 (elemsLoopT o fuel s cont isBlock) (elemsLoop o fuel s cont isBlock)) := by
  intro fuel
  induction fuel with
  | zero =>
    refine ⟨?_, ?_⟩ <;> intros
    · rw [parseContainerT, parseContainer]; exact Sim.liftP _ (fun _ => by keepq)
    · rw [elemsLoopT, elemsLoop]; exact Sim.liftP _ (fun _ => by keepq)
  | succ fuel ih =>
    obtain ⟨hc, he⟩ := ih
    have hp := parseItem_sim o pre0
    have hl := parseLoop_sim o pre0
    have hk := createIn_sim o pre0
    have hpr := prune_sim o pre0
    refine ⟨?_, ?_⟩
    · intro s cont isBlock
      rw [parseContainerT, parseContainer]
      cases cont <;> simp only [bind_eq, pure_eq, bindT_eq, pureT_eq] <;> simq [hpr, hc, he]
    · intro s cont isBlock
      rw [elemsLoopT, elemsLoop]
      simp only [bind_eq, pure_eq, bindT_eq, pureT_eq]
      apply Sim.bind (Sim.liftP _ (fun _ => by keepq))
      rintro ⟨⟨ty, text, line, col⟩, s1⟩
      cases cont <;> cases ty <;> simp only [] <;> simq [hc, he, hp, hl, hk]

theorem blocksLoop_sim (o : Opts) (pre0 : Cif) : ∀ (fuel : Nat) (s : PS), Sim o pre0 (blocksLoopT o fuel s) (blocksLoop o fuel s) := by
  intro fuel
  induction fuel with
  | zero => intro s; rw [blocksLoopT, blocksLoop]; exact Sim.liftP _ (fun _ => by keepq)
  | succ fuel ih =>
    intro s
    rw [blocksLoopT, blocksLoop]
    simp only [bind_eq, pure_eq, bindT_eq, pureT_eq]
    have hk := createIn_sim o pre0
    have hc := (containers_sim o pre0 fuel).1
    apply Sim.bind (Sim.liftP _ (fun _ => by keepq))
    rintro ⟨⟨ty, text, line, col⟩, s1⟩
    have hanon : ∀ (KT : PT PS) (K : P PS), Sim o pre0 KT K →
        Sim o pre0 (PT.bind (Parser.liftP Parser.getCif) fun cif =>
            if cif.any (codeIs o.norm (o.norm [])) = true then KT
            else PT.bind (emit o (.mkBlock [] true)) fun _ => KT)
          (P.bind Parser.getCif fun cif =>
            if cif.any (codeIs o.norm (o.norm [])) = true then K
            else P.bind (Parser.setCif (cif ++ [Container.mk [] [] []])) fun _ => K) := by
      intro KT K hK
      refine Sim.of (post := fun _ _ => True) (SimHT.bind SimHT.getCif ?_)
      intro cif
      apply SimHT.ite
      · exact Sim.weaken hK
      · exact SimHT.bind (SimHT.emit_at _ cif _ rfl (by trivial)) (fun _ => Sim.weaken hK)
    cases ty <;> simp only [] <;>
      first
        | (simq [hk, hc, ih]; done)
        | (apply Sim.bind (Sim.liftP _ (fun _ => by keepq))
           intro _
           apply Sim.ite
           · apply hanon
             simq [hc, ih]
           · simq [hc, ih])

end Productions

/-! ### the whole parse -/

theorem parseCif_sim (o : Opts) (pre0 : Cif) (fuel : Nat) (s : PS) : Sim o pre0 (parseCifT o fuel s) (parseCif o fuel s) := by
  unfold parseCifT parseCif
  simp only [bind_eq, pure_eq, bindT_eq, pureT_eq]
  exact Sim.clamp (Sim.bind (blocksLoop_sim o pre0 fuel s) (fun _ => Sim.pure _))

theorem afterFirst_sim (o : Opts) (pre0 : Cif) (fuel : Nat) (c : CU) (rest : Str) :
    Sim o pre0 (afterFirstT o fuel c rest) (afterFirst o fuel c rest) := by
  unfold afterFirstT afterFirst
  simp only [bind_eq, pure_eq, bindT_eq, pureT_eq]
  have hp := parseCif_sim o pre0 fuel
  simq [hp]

theorem parseInternal_sim (o : Opts) (pre0 : Cif) (fuel : Nat) (units : Str) :
    Sim o pre0 (parseInternalT o fuel units) (parseInternal o fuel units) := by
  cases units with
  | nil => exact Sim.pure _
  | cons c rest =>
    simp only [parseInternalT, parseInternal]
    have ha := afterFirst_sim o pre0 fuel
    simq [ha]

/-- forgetting the trace gives back the parser of Model/Parser.lean: same return value, same reports, same target -/
theorem runT_out (o : Opts) (pol : Policy) (pre : Cif) (fuel : Nat) (units : Str) :
    (runT o pol pre fuel units).out = run o pol pre fuel units ∧
    (run o pol pre fuel units).cif = replay o (runT o pol pre fuel units).ops.reverse pre ∧
    ∀ op ∈ (runT o pol pre fuel units).ops, op.wf := by
  have h := (parseInternal_sim o pre fuel units).run pol { w := { log := [], cif := pre }, ops := [] }
    ⟨rfl, fun _ h => by cases h⟩ trivial
  unfold runT run
  cases hA : parseInternalT o fuel units pol { w := { log := [], cif := pre }, ops := [] } with
  | ok a wt =>
    cases hB : parseInternal o fuel units pol { log := [], cif := pre } with
    | ok a' w' =>
      rw [hA, hB] at h
      obtain ⟨_, rfl, hg, _⟩ := h
      simp only [List.reverse_reverse]
      exact ⟨by first | rfl | trivial, hg.1, fun op hop => hg.2 op (List.mem_reverse.mp hop)⟩
    | abort r w' => rw [hA, hB] at h; exact h.elim
  | abort r wt =>
    cases hB : parseInternal o fuel units pol { log := [], cif := pre } with
    | ok a' w' => rw [hA, hB] at h; exact h.elim
    | abort r' w' =>
      rw [hA, hB] at h
      obtain ⟨rfl, rfl, hg⟩ := h
      simp only [List.reverse_reverse]
      exact ⟨by first | rfl | trivial, hg.1, fun op hop => hg.2 op (List.mem_reverse.mp hop)⟩

theorem parseT_out (o : Opts) (pol : Policy) (pre : Cif) (units : Str) : (parseT o pol pre units).out = parse o pol pre units :=
  (runT_out o pol pre (fuelFor units) units).1

/-- the target after a parse is the replay of the recorded store calls (oldest first) on the initial target -/
theorem parse_replay (o : Opts) (pol : Policy) (pre : Cif) (units : Str) :
    (parse o pol pre units).cif = (storeTrace o pol pre units).foldl (fun c op => op.apply o c) pre := by
  have h := (runT_out o pol pre (fuelFor units) units).2.1
  unfold parse storeTrace parseT
  rw [h, replay, List.foldr_reverse]

/-- cif_container_set_value is only ever called (successfully) with a valid data name -/
theorem storeTrace_wf (o : Opts) (pol : Policy) (pre : Cif) (units : Str) : ∀ op ∈ storeTrace o pol pre units, op.wf :=
  (runT_out o pol pre (fuelFor units) units).2.2

end CifModel.Model.Parser
