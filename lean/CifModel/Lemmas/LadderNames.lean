import CifModel.Lemmas.LadderClone
/-
  CifModel.Lemmas.LadderNames — the cif_loop_get_names ladder (linked list of (node, string), then the array of strings):
  both the code as it is (`fixed = false`, leaks one node when a string allocation fails) and the repaired variant.
-/
namespace CifModel.Lemmas.Ladder
open CifModel.Model.Ladder CifModel.Spec.HeapTrace

/-- all blocks of a list of (node, string) entries -/
def nodeIds : List (Nat × Nat) → List Nat
  | [] => []
  | (nd, str) :: rest => nd :: str :: nodeIds rest

/-- what stays live after a failure although nobody owns it: nothing in the repaired variant; in the code as it is, the
    node obtained by request `k - 1` when the failed request `k` is the second one of its iteration (`c` = request
    counter when the row loop is entered at an iteration boundary) -/
def leakOf (fixed : Bool) (k c : Nat) : List Nat :=
  if fixed then [] else if (k - c) % 2 = 0 then [k - 1] else []

theorem freeNodes_spec : ∀ (nodes : List (Nat × Nat)) (s : St) (L : List Nat), Inv s (nodeIds nodes ++ L) →
    Inv (freeNodes nodes s) L ∧ Same s (freeNodes nodes s)
  | [], s, L, h => by simpa [freeNodes, nodeIds, Same.refl] using h
  | (nd, str) :: rest, s, L, h => by
    simp only [freeNodes]
    have h1 : Inv s (str :: nd :: (nodeIds rest ++ L)) := h.perm (by simp only [nodeIds]; perm_ac)
    have ⟨h2, h3⟩ := freeNodes_spec rest _ L h1.free.free
    exact ⟨h2, (((Same.refl s).free _).free _).trans h3⟩

theorem freeNodeObjs_spec : ∀ (nodes : List (Nat × Nat)) (s : St) (L : List Nat), Inv s (nodeIds nodes ++ L) →
    Inv (freeNodeObjs nodes s) (nodes.map (·.2) ++ L) ∧ Same s (freeNodeObjs nodes s)
  | [], s, L, h => by simpa [freeNodeObjs, nodeIds, Same.refl] using h
  | (nd, str) :: rest, s, L, h => by
    simp only [freeNodeObjs]
    have h1 : Inv s (nd :: (nodeIds rest ++ (str :: L))) := h.perm (by simp only [nodeIds]; perm_ac)
    have ⟨h2, h3⟩ := freeNodeObjs_spec rest _ _ h1.free
    exact ⟨h2.perm (by simp only [List.map_cons]; perm_ac), ((Same.refl s).free _).trans h3⟩

/-- the row loop -/
theorem namesRows_spec (fixed : Bool) (k : Nat) : ∀ (n : Nat) (nodes : List (Nat × Nat)) (s : St) (L : List Nat),
    Inv s (nodeIds nodes ++ L) →
    (∃ nodes', (namesRows fixed k n nodes s).1 = some nodes' ∧ Good k (2 * n) s (namesRows fixed k n nodes s).2 ∧
        Inv (namesRows fixed k n nodes s).2 (nodeIds nodes' ++ L) ∧ nodes'.length = nodes.length + n) ∨
    ((namesRows fixed k n nodes s).1 = none ∧ Bad k (2 * n) s (namesRows fixed k n nodes s).2 ∧
        Inv (namesRows fixed k n nodes s).2 (leakOf fixed k s.count ++ L)) := by
  intro n
  induction n with
  | zero =>
    intro nodes s L h
    left
    simp only [namesRows]
    exact ⟨nodes, rfl, Good.refl k s, h, rfl⟩
  | succ n ih =>
    intro nodes s L h
    simp only [namesRows]
    rcases alloc_cases k s with ⟨hk, ha⟩ | ⟨hk, ha⟩ <;> simp only [ha]
    · right
      have ⟨f1, f2⟩ := freeNodes_spec nodes _ L h.fail
      have hl : leakOf fixed k s.count = [] := by
        unfold leakOf; cases fixed <;> simp; omega
      rw [hl]
      exact ⟨trivial, ((Bad.alloc hk).same f2).mono (by omega), f1⟩
    · have g1 := Good.alloc hk
      have i1 := h.alloc
      have hc1 : ({ count := s.count + 1, evs := s.evs ++ [.alloc (s.count + 1)] } : St).count = s.count + 1 := rfl
      generalize ({ count := s.count + 1, evs := s.evs ++ [.alloc (s.count + 1)] } : St) = s1 at g1 i1 hc1 ⊢
      rcases alloc_cases k s1 with ⟨hk2, ha⟩ | ⟨hk2, ha⟩ <;> simp only [ha]
      · right
        have b := g1.bad' (Bad.alloc hk2) (Nat.le_refl _)
        cases fixed with
        | true =>
          simp only [if_true]
          have i2 : Inv (free (s.count + 1) { count := s1.count + 1, evs := s1.evs ++ [.fail (s1.count + 1)] })
              (nodeIds nodes ++ L) := Inv.free i1.fail
          have ⟨f1, f2⟩ := freeNodes_spec nodes _ L i2
          exact ⟨trivial, ((b.free _).same f2).mono (by omega), by simpa [leakOf] using f1⟩
        | false =>
          simp only [Bool.false_eq_true, if_false]
          have i2 : Inv { count := s1.count + 1, evs := s1.evs ++ [.fail (s1.count + 1)] }
              (nodeIds nodes ++ ((s.count + 1) :: L)) := i1.fail.perm (by perm_ac)
          have ⟨f1, f2⟩ := freeNodes_spec nodes _ _ i2
          have hl : leakOf false k s.count = [s.count + 1] := by
            unfold leakOf
            have : k - s.count = 2 := by omega
            simp [this]; omega
          rw [hl]
          exact ⟨trivial, (b.same f2).mono (by omega), f1⟩
      · have g2 := g1.trans (Good.alloc hk2)
        have i2 : Inv { count := s1.count + 1, evs := s1.evs ++ [.alloc (s1.count + 1)] }
            (nodeIds ((s.count + 1, s1.count + 1) :: nodes) ++ L) := i1.alloc.perm (by simp only [nodeIds]; perm_ac)
        rcases ih ((s.count + 1, s1.count + 1) :: nodes) _ L i2 with ⟨nodes', e1, e2, e3, e4⟩ | ⟨e1, e2, e3⟩
        · left
          exact ⟨nodes', e1, g2.trans' e2 (by omega), e3, by rw [e4]; simp; omega⟩
        · right
          refine ⟨e1, g2.bad' e2 (by omega), ?_⟩
          have hl : leakOf fixed k (s1.count + 1) = leakOf fixed k s.count := by
            have hb := e2.1
            simp only at hb
            unfold leakOf
            cases fixed <;> simp
            have : (k - (s1.count + 1)) % 2 = (k - s.count) % 2 := by omega
            rw [this]
          rw [← hl]; exact e3

/-- number of library requests of cif_loop_get_names (fault-free): two per name and the array -/
def namesAllocs (n : Nat) : Nat := if n = 0 then 0 else 2 * n + 1

/-- cif_loop_get_names, from any consistent state -/
theorem getNamesGen_spec (fixed : Bool) (k n : Nat) (s : St) (L : List Nat) (h : Inv s L) :
    ((getNamesGen fixed k n s).1 = (if n = 0 then INVALID_HANDLE else OK) ∧
        Good k (namesAllocs n) s (getNamesGen fixed k n s).2.2 ∧
        (getNamesGen fixed k n s).2.1.length = namesAllocs n - n ∧
        Inv (getNamesGen fixed k n s).2.2 ((getNamesGen fixed k n s).2.1 ++ L)) ∨
    ((getNamesGen fixed k n s).1 = MEMORY_ERROR ∧ (getNamesGen fixed k n s).2.1 = [] ∧
        Bad k (namesAllocs n) s (getNamesGen fixed k n s).2.2 ∧
        Inv (getNamesGen fixed k n s).2.2 ((if k ≤ s.count + 2 * n then leakOf fixed k s.count else []) ++ L)) := by
  simp only [getNamesGen, namesAllocs]
  have hh := namesRows_spec fixed k n [] s L (by simpa [nodeIds] using h)
  generalize namesRows fixed k n [] s = r at hh ⊢
  obtain ⟨ro, rs⟩ := r
  rcases hh with ⟨nodes, h1, h2, h3, h4⟩ | ⟨h1, h2, h3⟩ <;> simp only at h1 h2 h3 <;> subst h1 <;> simp only
  · by_cases hn : n = 0
    · left
      subst hn
      simp only [if_true]
      have : nodes = [] := List.eq_nil_of_length_eq_zero (by simpa using h4)
      subst this
      exact ⟨trivial, h2, rfl, by simpa [nodeIds] using h3⟩
    · simp only [hn, if_false]
      rcases alloc_cases k rs with ⟨hk, ha⟩ | ⟨hk, ha⟩ <;> simp only [ha]
      · right
        have ⟨f1, f2⟩ := freeNodes_spec nodes _ L h3.fail
        have hgt : ¬ k ≤ s.count + 2 * n := by have := h2.1; omega
        simp only [hgt, if_false, List.nil_append]
        exact ⟨trivial, trivial, (h2.bad (Bad.alloc hk)).same f2, f1⟩
      · left
        have i1 : Inv { count := rs.count + 1, evs := rs.evs ++ [.alloc (rs.count + 1)] }
            (nodeIds nodes ++ ((rs.count + 1) :: L)) := h3.alloc.perm (by perm_ac)
        have ⟨f1, f2⟩ := freeNodeObjs_spec nodes _ _ i1
        refine ⟨trivial, ?_, by simp [h4]; omega, f1.perm (by perm_ac)⟩
        have g := h2.trans (Good.alloc hk)
        unfold Good at g ⊢
        rw [f2.1, f2.2]; exact g
  · right
    have hle : k ≤ s.count + 2 * n := h2.2.1
    simp only [hle, if_true]
    exact ⟨trivial, trivial, h2.mono (by split <;> omega), h3⟩

end CifModel.Lemmas.Ladder
