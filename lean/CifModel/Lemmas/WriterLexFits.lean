import CifModel.Lemmas.WriterLexUnits
/-
  (iii) No line of a text field written by `write_text` is longer than the limit.
-/
namespace CifModel.Lemmas.WriterLexFits
open CifModel.Model CifModel.Model.Writer
open CifModel.Spec.Lexical
open CifModel.Model.Lexer (colAdd posAfter_noeol linesFit_append linesFit_noeol)

theorem linesFit_mono : ∀ (X : Str) (k k' : Nat), k' ≤ k → linesFit k X = true → linesFit k' X = true := by
  intro X
  induction X with
  | nil => intro _ _ _ _; rfl
  | cons c r ih =>
    intro k k' hk h
    simp only [linesFit] at h ⊢
    split
    · rename_i hc
      simp only [hc, ↓reduceIte, Bool.and_eq_true, decide_eq_true_eq] at h ⊢
      exact ⟨by omega, h.2⟩
    · rename_i hc
      simp only [hc, ↓reduceIte] at h
      exact ih _ _ (by omega) h

theorem colAdd_le (s : Str) : colAdd s ≤ s.length := by
  unfold colAdd; exact List.length_filter_le _ _

/-- a terminator-free stretch in front -/
theorem linesFit_skip (p X : Str) (j : Nat) (hp : (10 : CU) ∉ p) (h : linesFit (j + p.length) X = true) :
    linesFit j (p ++ X) = true := by
  have hne : p.all (fun x => !isEol x) = true := by
    rw [List.all_eq_true]; intro x hx
    simp only [isEol, Bool.not_eq_true', beq_eq_false_iff_ne, ne_eq]
    intro e; exact hp (e ▸ hx)
  rw [linesFit_append, linesFit_noeol p hne, posAfter_noeol p hne, Bool.true_and]
  exact linesFit_mono X _ _ (by have := colAdd_le p; omega) h

/-- physical lines, each within the limit, followed by a line break -/
theorem flat_fits : ∀ (Q : List Str) (t : Str) (k : Nat), k ≤ 2048 → (∀ p ∈ Q, (10 : CU) ∉ p ∧ p.length ≤ 2048) →
    t.all (fun x => !isEol x) = true → linesFit k (flat Q ++ 10 :: t) = true := by
  intro Q
  induction Q with
  | nil =>
    intro t k hk _ ht
    simp only [flat, List.nil_append, linesFit, ↓reduceIte, Bool.and_eq_true, decide_eq_true_eq]
    exact ⟨hk, linesFit_noeol t ht 0⟩
  | cons p ps ih =>
    intro t k hk h ht
    have hp := h p List.mem_cons_self
    simp only [flat, List.cons_append, linesFit, ↓reduceIte, Bool.and_eq_true, decide_eq_true_eq]
    refine ⟨hk, ?_⟩
    rw [List.append_assoc]
    apply linesFit_skip p _ 0 hp.1
    exact ih t _ (by omega) (fun x hx => h x (List.mem_cons_of_mem _ hx)) ht

/-! ### the length of a folded segment -/

theorem foldScanLow_bounds (line : Str) (target : Nat) :
    ∀ (fuel len : Nat) (low : Option Nat), (∀ lo, low = some lo → lo ≤ target) →
      (∀ k, foldScanLow line target fuel len low = .inl k → k ≤ target) ∧
      (∀ low', foldScanLow line target fuel len low = .inr low' → ∀ lo, low' = some lo → lo ≤ target) := by
  intro fuel
  induction fuel with
  | zero =>
    intro len low hlow
    constructor
    · intro k h; simp [foldScanLow] at h
    · intro low' h lo hlo; simp [foldScanLow] at h; subst h; exact hlow lo hlo
  | succ f ih =>
    intro len low hlow
    simp only [foldScanLow]
    by_cases h1 : len > target
    · simp only [h1, ↓reduceIte]
      exact ⟨(by intro k h; cases h), (by intro low' h lo hlo; cases h; exact hlow lo hlo)⟩
    · simp only [h1, ↓reduceIte]
      by_cases h2 : len ≥ line.length
      · simp only [h2, ↓reduceIte]
        exact ⟨(by intro k h; cases h; omega), (by intro low' h; cases h)⟩
      · simp only [h2, ↓reduceIte]
        apply ih (len + 1)
        intro lo hlo
        split at hlo
        · cases hlo; omega
        · exact hlow lo hlo

/-- a fold never yields a segment longer than target + window (where semicolons are harmless) -/
theorem foldLine_le_window (line : Str) (target window : Nat) (forPrefix : Bool)
    (hw : 0 < window) (hsemi : forPrefix = true ∨ (59 : CU) ∉ line) :
    foldLine line true target window forPrefix ≤ target + window := by
  simp only [foldLine, Bool.true_eq_false, ↓reduceIte]
  have hs := foldScanLow_bounds line target (target + 2) 0 none (by intro lo h; cases h)
  split
  · rename_i len hl; have := hs.1 len hl; omega
  · rename_i low hl
    have hlow := hs.2 low hl
    split
    · rename_i hlong; exact hlong
    · split
      · rename_i high hh
        have hm := List.mem_of_find?_eq_some hh
        rw [List.mem_range'_1] at hm
        split
        · omega
        · rename_i lo
          have := hlow lo rfl
          split
          · omega
          · split <;> omega
      · split
        · rename_i len hf
          exact (Lemmas.WriterFold.mem_windowOrder target window len (List.mem_of_find?_eq_some hf)).1
        · rename_i hnone
          exfalso
          rw [List.find?_eq_none] at hnone
          have h1 := hnone target (Lemmas.WriterFold.target_mem_windowOrder target window)
          have h2 := hnone (target + 1) (Lemmas.WriterFold.succ_target_mem_windowOrder target window hw)
          have p1 := Lemmas.WriterFold.foldOk_false line forPrefix target hsemi (by simpa using h1)
          have p2 := Lemmas.WriterFold.foldOk_false line forPrefix (target + 1) hsemi (by simpa using h2)
          simp only [Nat.add_sub_cancel] at p2
          exact Lemmas.WriterFold.not_two_pairs _ _ _ p1 p2

/-! ### physical lines -/

def pfxLen (pre : Bool) : Nat := if pre then 2 else 0

theorem pfx_length (pre : Bool) : (Lemmas.WriterText.pfx pre).length = pfxLen pre := by
  cases pre <;> rfl

theorem segLines_len (pre protect : Bool) (target : Nat) :
    ∀ (fuel : Nat) (tok : Str) (ps : List Str), (pre = true ∨ (59 : CU) ∉ tok) →
      segLines true pre protect target fuel tok = .ok ps → ∀ p ∈ ps, p.length ≤ pfxLen pre + (target + WINDOW) + 1 := by
  intro fuel
  induction fuel with
  | zero => intro tok ps _ h p hp; simp [segLines] at h; subst h; simp at hp
  | succ f ih =>
    intro tok ps hsemi h p hp
    cases tok with
    | nil => simp [segLines] at h; subst h; simp at hp
    | cons c cs =>
      simp only [segLines] at h
      have hle := foldLine_le_window (c :: cs) target WINDOW pre (by decide) hsemi
      generalize foldLine (c :: cs) true target WINDOW pre = len at h hle
      split at h
      · cases h
      · cases hr : segLines true pre protect target f ((c :: cs).drop len) with
        | error e => simp [hr] at h
        | ok rest =>
          simp only [hr] at h
          cases h
          rcases List.mem_cons.mp hp with h1 | h1
          · subst h1
            have e : (if pre = true then PREFIX else []) = Lemmas.WriterText.pfx pre := rfl
            simp only [e, List.length_append, pfx_length, Lemmas.WriterChar.printfS_length]
            split <;> simp [BSL] <;> omega
          · apply ih _ rest _ hr p h1
            rcases hsemi with hs | hs
            · left; exact hs
            · right; intro hm; exact hs (List.mem_of_mem_drop hm)

theorem textPhys_len (fold pre : Bool) :
    ∀ (ls : List Str) (Q : List Str), (pre = true ∨ ∀ l ∈ ls, (59 : CU) ∉ l) →
      (fold = true ∨ ∀ l ∈ ls, l.length + pfxLen pre ≤ LINE) →
      textPhys fold pre (targetLength pre) ls = .ok Q → ∀ p ∈ Q, p.length ≤ 2048 := by
  intro ls
  induction ls with
  | nil => intro Q _ _ h p hp; simp [textPhys] at h; subst h; simp at hp
  | cons l rest ih =>
    intro Q hsemi hlen h p hp
    simp only [textPhys] at h
    cases h1 : logicalLinePhys fold pre (targetLength pre) l with
    | error e => simp [h1] at h
    | ok ps =>
      cases h2 : textPhys fold pre (targetLength pre) rest with
      | error e => simp [h1, h2] at h
      | ok qs =>
        simp only [h1, h2] at h
        cases h
        rcases List.mem_append.mp hp with h3 | h3
        · cases l with
          | nil => simp [logicalLinePhys] at h1; subst h1; simp at h3; subst h3; simp
          | cons c cs =>
            simp only [logicalLinePhys, List.length_cons] at h1
            cases fold with
            | true =>
              simp only [Bool.true_and] at h1
              cases hs : segLines true pre (endsBslBlank (c :: cs)) (targetLength pre) (cs.length + 1) (c :: cs) with
              | error e => simp [hs] at h1
              | ok ss =>
                simp only [hs] at h1
                cases h1
                rcases List.mem_append.mp h3 with h4 | h4
                · have hs' : pre = true ∨ (59 : CU) ∉ (c :: cs) := by
                    rcases hsemi with hh | hh
                    · left; exact hh
                    · right; exact hh _ List.mem_cons_self
                  have := segLines_len pre _ _ _ _ _ hs' hs p h4
                  have ht : pfxLen pre + (targetLength pre + WINDOW) + 1 ≤ 2048 := by cases pre <;> decide
                  omega
                · split at h4
                  · simp at h4; subst h4; simp
                  · simp at h4
            | false =>
              simp only [Bool.false_and] at h1
              cases hs : segLines false pre false (targetLength pre) (cs.length + 1) (c :: cs) with
              | error e => simp [hs] at h1
              | ok ss =>
                simp only [hs, Bool.false_eq_true, ↓reduceIte, List.append_nil] at h1
                cases h1
                have := Lemmas.WriterText.segLines_nofold pre _ (cs.length + 1) (c :: cs) ps (by simp) (by simp) hs
                subst this
                simp only [List.mem_singleton] at h3
                subst h3
                rcases hlen with hh | hh
                · cases hh
                · have := hh (c :: cs) List.mem_cons_self
                  have hL : LINE = 2048 := rfl
                  simp only [List.length_append, pfx_length]
                  omega
        · apply ih qs _ _ h2 p h3
          · rcases hsemi with hh | hh
            · left; exact hh
            · right; exact fun x hx => hh x (List.mem_cons_of_mem _ hx)
          · rcases hlen with hh | hh
            · left; exact hh
            · right; exact fun x hx => hh x (List.mem_cons_of_mem _ hx)

/-- logical lines joined by LF, followed by a line break -/
theorem join_fits (t : Str) (ht : t.all (fun x => !isEol x) = true) :
    ∀ (ls : List Str) (k : Nat), ls ≠ [] → (∀ l ∈ ls, (10 : CU) ∉ l) → k + (ls.headD []).length ≤ 2048 →
      (∀ l ∈ ls.tail, l.length ≤ 2048) → linesFit k (Spec.TextProtocol.joinLines ls ++ 10 :: t) = true := by
  intro ls
  induction ls with
  | nil => intro _ h; exact absurd rfl h
  | cons l rest ih =>
    intro k _ hno hk htail
    cases rest with
    | nil =>
      simp only [Spec.TextProtocol.joinLines]
      apply linesFit_skip l _ k (hno l List.mem_cons_self)
      simp only [linesFit, ↓reduceIte, Bool.and_eq_true, decide_eq_true_eq]
      exact ⟨by simpa using hk, linesFit_noeol t ht 0⟩
    | cons l' r =>
      simp only [Spec.TextProtocol.joinLines, List.append_assoc, List.cons_append]
      apply linesFit_skip l _ k (hno l List.mem_cons_self)
      simp only [linesFit, ↓reduceIte, Bool.and_eq_true, decide_eq_true_eq]
      refine ⟨by simpa using hk, ?_⟩
      apply ih 0 (by simp) (fun x hx => hno x (List.mem_cons_of_mem _ hx))
      · have := htail l' (by simp)
        simpa using this
      · intro x hx
        exact htail x (by simp at hx ⊢; right; exact hx)

/-- (iii) no line of `<LF>;` body `<LF>;` is over-long -/
theorem text_out_fits (s : Str) (fold pre : Bool) (body : Str) (hcr : (13 : CU) ∉ s)
    (h : Writer.textBody s fold pre = .ok body)
    (hsemi : (fold = false ∧ pre = false) ∨ pre = true ∨ (59 : CU) ∉ s)
    (hlen : fold = true ∨ ((∀ l ∈ splitLines s, l.length + pfxLen pre ≤ LINE) ∧ ((splitLines s).headD []).length + 1 ≤ LINE))
    (col : Nat) (hcol : col ≤ LINE) :
    linesFit col (10 :: renderValue .text body) = true := by
  have hL : LINE = 2048 := rfl
  have hsp := Lemmas.WriterText.splitLines_spec s
  have h59 : ([59] : Str).all (fun x => !isEol x) = true := by decide
  simp only [renderValue, linesFit, ↓reduceIte, Bool.and_eq_true, decide_eq_true_eq]
  refine ⟨by omega, ?_⟩
  simp only [show ¬ (59 : CU) = 10 by decide, ↓reduceIte, show isTrailU 59 = false by decide, Bool.false_eq_true, Nat.zero_add]
  unfold Writer.textBody at h
  by_cases h00 : fold = false ∧ pre = false
  · simp only [h00, and_self, ↓reduceIte] at h
    cases h
    rcases hlen with hf | ⟨hall, hfirst⟩
    · rw [h00.1] at hf; cases hf
    · rw [← hsp.2]
      apply join_fits [59] h59 (splitLines s) 1 (Lemmas.WriterText.splitLines_ne_nil s) hsp.1
      · omega
      · intro l hl
        have := hall l (List.mem_of_mem_tail hl)
        omega
  · simp only [h00, ↓reduceIte] at h
    cases hq : textPhys fold pre (targetLength pre) (splitLines s) with
    | error e => simp [hq] at h
    | ok Q =>
      simp only [hq] at h
      cases h
      have hfp : fold = true ∨ pre = true := by cases fold <;> cases pre <;> simp_all
      have hno : ∀ l ∈ splitLines s, Lemmas.DecodeLines.NoEol l := fun l hl =>
        Lemmas.WriterText.noEol_of_no10_no13 (hsp.1 l hl)
          (fun h13 => hcr (Lemmas.WriterText.splitLines_mem s l hl 13 h13))
      obtain ⟨_, hnoe, _⟩ :=
        Lemmas.WriterText.textPhys_spec fold pre hfp _ (splitLines s) Q (Lemmas.WriterText.splitLines_ne_nil s) hno hq
      have hsemi' : pre = true ∨ ∀ l ∈ splitLines s, (59 : CU) ∉ l := by
        rcases hsemi with hh | hh | hh
        · exact absurd hh h00
        · left; exact hh
        · right; exact fun l hl hm => hh (Lemmas.WriterText.splitLines_mem s l hl 59 hm)
      have hlen' : fold = true ∨ ∀ l ∈ splitLines s, l.length + pfxLen pre ≤ LINE := by
        rcases hlen with hh | hh
        · left; exact hh
        · right; exact hh.1
      have hQ := textPhys_len fold pre (splitLines s) Q hsemi' hlen' hq
      rw [List.append_assoc]
      have hm : (10 : CU) ∉ textMarker fold pre := by cases fold <;> cases pre <;> decide
      apply linesFit_skip _ _ 1 hm
      apply flat_fits Q [59] _ _ _ h59
      · have : (textMarker fold pre).length ≤ 4 := by cases fold <;> cases pre <;> decide
        omega
      · intro p hp
        exact ⟨fun h10 => (hnoe p hp 10 h10).1 rfl, hQ p hp⟩

/-- for CR-free strings the line decomposition of the analysis specification is the writer's -/
theorem splitLines_eq : ∀ (s : Str), (13 : CU) ∉ s → Spec.splitLines s = Writer.splitLines s := by
  intro s
  induction s with
  | nil => intro _; rfl
  | cons c rest ih =>
    intro h13
    have hc13 : c ≠ 13 := fun e => h13 (e ▸ List.mem_cons_self)
    have hrest : (13 : CU) ∉ rest := fun e => h13 (List.mem_cons_of_mem _ e)
    simp only [Spec.splitLines, Writer.splitLines, hc13, false_and, ↓reduceIte, or_false]
    rw [ih hrest]
    by_cases hc : c = 10
    · simp [hc]
    · simp only [hc, ↓reduceIte]
      cases Writer.splitLines rest <;> rfl

end CifModel.Lemmas.WriterLexFits
