import CifModel.Lemmas.ParserBasic
import CifModel.Spec.Grammar
/-
  Lemmas/ParserStructure — the productions of Model/Parser.lean build, from the token sequence of a well-formed abstract
  document (Spec/Grammar.lean), exactly the content the document denotes, and report nothing.

  The scanner is abstracted by `Feeds`: "from this parser state the scanner hands out, silently and under every policy, tokens
  with these types and texts".  (That the rendered characters of a document make the scanner of Model/Lexer.lean do so is the
  lexical half of C01: Props/C01.lean.)
-/
set_option linter.unusedSimpArgs false

namespace CifModel.Model.Parser
open CifModel CifModel.Model CifModel.Model.Lexer CifModel.Spec.Grammar CifModel.Spec.Lexical

/-! ### the scanner as a token source -/

/-- from the parser state `s` the scanner hands out, silently and under every policy, tokens with the types and texts `ts` -/
inductive Feeds (o : Opts) : PS → List TokSpec → Prop
  | nil (s : PS) : Feeds o s []
  | cons {s s' : PS} {t : Tok} {ts : List TokSpec} (hn : ∀ pol w, nextTok o s pol w = .ok (t, s') w) (ht : s'.tok = some t)
      (hr : Feeds o (consume s') ts) : Feeds o s ((t.ty, t.text) :: ts)

theorem Feeds.inv {o : Opts} {s : PS} {ty : TokType} {tx : Str} {ts : List TokSpec} (h : Feeds o s ((ty, tx) :: ts)) :
    ∃ (t : Tok) (s' : PS), t.ty = ty ∧ t.text = tx ∧ (∀ pol w, nextTok o s pol w = .ok (t, s') w) ∧ s'.tok = some t ∧
      Feeds o (consume s') ts := by
  cases h with
  | cons hn ht hr => exact ⟨_, _, rfl, rfl, hn, ht, hr⟩

theorem nextTok_pending (o : Opts) (s : PS) (t : Tok) (h : s.tok = some t) (pol : Policy) (w : W) :
    nextTok o s pol w = .ok (t, s) w := by
  simp [nextTok, h, P.pure]

/-- a state whose pending token is `t` feeds `t` again (next_token does not rescan a token that is ready) -/
theorem Feeds.pending {o : Opts} {s : PS} {t : Tok} {ts : List TokSpec} (ht : s.tok = some t) (hr : Feeds o (consume s) ts) :
    Feeds o s ((t.ty, t.text) :: ts) :=
  Feeds.cons (fun pol w => nextTok_pending o s t ht pol w) ht hr

/-! ### well-formedness (decidable) -/

def noNul (s : Str) : Bool := s.all (· != 0)

theorem cstr_id (t : Str) (h : ∀ c ∈ t, c ≠ 0) : cstr t = t := by
  unfold cstr
  induction t with
  | nil => rfl
  | cons c r ih =>
    have hc : c ≠ 0 := h c (by simp)
    simp only [List.takeWhile_cons, hc, ne_eq, not_false_eq_true, decide_true, if_true]
    rw [ih (fun c' hc' => h c' (by simp [hc']))]

theorem cstr_noNul {s : Str} (h : noNul s = true) : cstr s = s := by
  apply cstr_id
  intro c hc
  simp only [noNul, List.all_eq_true, bne_iff_ne, ne_eq] at h
  exact h c hc

/-- a whitespace-delimited value: not `?` / `.`, not a reserved form, no whitespace; in CIF 2.0 no bracket or brace -/
def wfBare (dia : Dialect) (s : Str) : Bool :=
  s != [] && s != [63] && s != [46] && noNul s && !isReserved s && !hasHardDisallowed s
    && (noDisallowed s == !hasBracket s) && (dia == .cif1 || noDisallowed s)

mutual
  def wfVal (o : Opts) : Val → Bool
    | .unk => true
    | .na => true
    | .str s .bare => wfBare o.dia s
    | .str s .text => noNul s && (Decode.decodeText o.unfold o.prem s == s)
    | .str s _ => noNul s
    | .enc text body => noNul text && (Decode.decodeText o.unfold o.prem body == text)
    | .lst vs => wfVals o vs
    | .tbl es => wfEntries o es
  def wfVals (o : Opts) : List Val → Bool
    | [] => true
    | v :: vs => wfVal o v && wfVals o vs
  def wfEntries (o : Opts) : List (Str × Presentation × Val) → Bool
    | [] => true
    | (k, _, v) :: es => noNul k && !hasDisallowed k && wfVal o v && wfEntries o es
end

mutual
  /-- number of tokens -/
  def szVal : Val → Nat
    | .lst vs => szVals vs + 2
    | .tbl es => szEntries es + 2
    | _ => 1
  def szVals : List Val → Nat
    | [] => 0
    | v :: vs => szVal v + szVals vs
  def szEntries : List (Str × Presentation × Val) → Nat
    | [] => 0
    | (_, _, v) :: es => szVal v + szEntries es + 1
end

theorem szVal_pos (v : Val) : 0 < szVal v := by
  cases v <;> simp [szVal]

/-- the first token of a value starts a value -/
theorem valToks_head (v : Val) : ∃ ty tx ts, valToks v = (ty, tx) :: ts ∧ isValueStart ty = true ∧ isKeyTok ty = false := by
  cases v with
  | unk => exact ⟨_, _, _, rfl, rfl, rfl⟩
  | na => exact ⟨_, _, _, rfl, rfl, rfl⟩
  | str s p => cases p <;> exact ⟨_, _, _, rfl, rfl, rfl⟩
  | enc t b => exact ⟨_, _, _, rfl, rfl, rfl⟩
  | lst vs => exact ⟨_, _, _, by simp only [valToks]; rfl, rfl, rfl⟩
  | tbl es => exact ⟨_, _, _, by simp only [valToks]; rfl, rfl, rfl⟩

theorem tableSet_eq_putEntry (nk : Str → Str) (es : List (Str × Str × V)) (k : Str) (v : V) :
    tableSet nk es k v = putEntry nk es k v := rfl

theorem bareValue_wf (dia : Dialect) (s : Str) (h : wfBare dia s = true) :
    bareValue dia s = some (.chr (dia == .cif1 && hasBracket s) s) := by
  simp only [wfBare, Bool.and_eq_true, bne_iff_ne, ne_eq, Bool.not_eq_true', beq_iff_eq, Bool.or_eq_true] at h
  obtain ⟨⟨⟨⟨⟨⟨⟨h1, h2⟩, h3⟩, h4⟩, h5⟩, h6⟩, h7⟩, h8⟩ := h
  unfold bareValue
  rw [cstr_noNul h4]
  by_cases hb : hasBracket s = true
  · have hn : noDisallowed s = false := by rw [h7, hb]; rfl
    rcases h8 with h8 | h8
    · subst h8; simp [h2, h3, setQuoted, h1, h5, hn, h6, hb]
    · rw [hn] at h8; cases h8
  · have hb' : hasBracket s = false := by simpa using hb
    have hn : noDisallowed s = true := by rw [h7, hb']; rfl
    simp [h2, h3, setQuoted, h1, h5, hn, hb']


/-! ### values -/

theorem value_tok_step (o : Opts) (s : PS) (tx : Str) (rest : List TokSpec) (fuel : Nat) (pol : Policy) (w : W) (v : V)
    (hf : Feeds o s ((.value, tx) :: rest)) (hb : bareValue o.dia tx = some v) :
    ∃ s', parseValue o (fuel + 1) s pol w = .ok (v, s') w ∧ Feeds o s' rest := by
  obtain ⟨t, s', hty, htx, hn, _, hr⟩ := hf.inv
  refine ⟨consume s', ?_, hr⟩
  rw [parseValue]
  simp only [bind_eq, pure_eq, P.bind, P.pure, hn, hty, htx, hb]

theorem qvalue_tok_step (o : Opts) (s : PS) (tx : Str) (rest : List TokSpec) (fuel : Nat) (pol : Policy) (w : W)
    (hf : Feeds o s ((.qvalue, tx) :: rest)) (h0 : noNul tx = true) :
    ∃ s', parseValue o (fuel + 1) s pol w = .ok (.chr true tx, s') w ∧ Feeds o s' rest := by
  obtain ⟨t, s', hty, htx, hn, _, hr⟩ := hf.inv
  refine ⟨consume s', ?_, hr⟩
  rw [parseValue]
  simp only [bind_eq, pure_eq, P.bind, P.pure, hn, hty, htx, cstr_noNul h0]

theorem tvalue_tok_step (o : Opts) (s : PS) (body text : Str) (rest : List TokSpec) (fuel : Nat) (pol : Policy) (w : W)
    (hf : Feeds o s ((.tvalue, body) :: rest)) (hd : Decode.decodeText o.unfold o.prem body = text) (h0 : noNul text = true) :
    ∃ s', parseValue o (fuel + 1) s pol w = .ok (.chr true text, s') w ∧ Feeds o s' rest := by
  obtain ⟨t, s', hty, htx, hn, _, hr⟩ := hf.inv
  refine ⟨consume s', ?_, hr⟩
  rw [parseValue]
  simp only [bind_eq, pure_eq, P.bind, P.pure, hn, hty, htx, hd, cstr_noNul h0]

mutual
  theorem value_structure (o : Opts) : ∀ (v : Val) (rest : List TokSpec) (s : PS) (fuel : Nat) (pol : Policy) (w : W),
      wfVal o v = true → szVal v ≤ fuel → Feeds o s (valToks v ++ rest) →
      ∃ s', parseValue o fuel s pol w = .ok (denoteVal o.dia o.normKey v, s') w ∧ Feeds o s' rest
    | .unk, rest, s, fuel, pol, w, _, hf, hF => by
      obtain ⟨f, rfl⟩ : ∃ f, fuel = f + 1 := ⟨fuel - 1, by simp [szVal] at hf; omega⟩
      exact value_tok_step o s _ rest f pol w .unk hF (by simp [bareValue])
    | .na, rest, s, fuel, pol, w, _, hf, hF => by
      obtain ⟨f, rfl⟩ : ∃ f, fuel = f + 1 := ⟨fuel - 1, by simp [szVal] at hf; omega⟩
      exact value_tok_step o s _ rest f pol w .na hF (by simp [bareValue])
    | .str tx .bare, rest, s, fuel, pol, w, hw, hf, hF => by
      obtain ⟨f, rfl⟩ : ∃ f, fuel = f + 1 := ⟨fuel - 1, by simp [szVal] at hf; omega⟩
      exact value_tok_step o s tx rest f pol w _ hF (bareValue_wf o.dia tx (by simpa [wfVal] using hw))
    | .str tx .squote, rest, s, fuel, pol, w, hw, hf, hF => by
      obtain ⟨f, rfl⟩ : ∃ f, fuel = f + 1 := ⟨fuel - 1, by simp [szVal] at hf; omega⟩
      exact qvalue_tok_step o s tx rest f pol w hF (by simpa [wfVal] using hw)
    | .str tx .dquote, rest, s, fuel, pol, w, hw, hf, hF => by
      obtain ⟨f, rfl⟩ : ∃ f, fuel = f + 1 := ⟨fuel - 1, by simp [szVal] at hf; omega⟩
      exact qvalue_tok_step o s tx rest f pol w hF (by simpa [wfVal] using hw)
    | .str tx .tsquote, rest, s, fuel, pol, w, hw, hf, hF => by
      obtain ⟨f, rfl⟩ : ∃ f, fuel = f + 1 := ⟨fuel - 1, by simp [szVal] at hf; omega⟩
      exact qvalue_tok_step o s tx rest f pol w hF (by simpa [wfVal] using hw)
    | .str tx .tdquote, rest, s, fuel, pol, w, hw, hf, hF => by
      obtain ⟨f, rfl⟩ : ∃ f, fuel = f + 1 := ⟨fuel - 1, by simp [szVal] at hf; omega⟩
      exact qvalue_tok_step o s tx rest f pol w hF (by simpa [wfVal] using hw)
    | .str tx .text, rest, s, fuel, pol, w, hw, hf, hF => by
      obtain ⟨f, rfl⟩ : ∃ f, fuel = f + 1 := ⟨fuel - 1, by simp [szVal] at hf; omega⟩
      simp only [wfVal, Bool.and_eq_true, beq_iff_eq] at hw
      exact tvalue_tok_step o s tx tx rest f pol w hF hw.2 hw.1
    | .enc text body, rest, s, fuel, pol, w, hw, hf, hF => by
      obtain ⟨f, rfl⟩ : ∃ f, fuel = f + 1 := ⟨fuel - 1, by simp [szVal] at hf; omega⟩
      simp only [wfVal, Bool.and_eq_true, beq_iff_eq] at hw
      exact tvalue_tok_step o s body text rest f pol w hF hw.2 hw.1
    | .lst vs, rest, s, fuel, pol, w, hw, hf, hF => by
      obtain ⟨f, rfl⟩ : ∃ f, fuel = f + 1 := ⟨fuel - 1, by simp [szVal] at hf; omega⟩
      simp only [valToks, List.cons_append, List.append_assoc, List.singleton_append] at hF
      obtain ⟨t, s', hty, _, hn, _, hr⟩ := hF.inv
      obtain ⟨s'', h1, h2⟩ := values_structure o vs rest (consume s') f pol w [] (by simpa [wfVal] using hw)
        (by simp [szVal] at hf; omega) hr
      refine ⟨s'', ?_, h2⟩
      rw [parseValue]
      simp only [bind_eq, pure_eq, P.bind, P.pure, hn, hty, h1, denoteVal, List.nil_append]
    | .tbl es, rest, s, fuel, pol, w, hw, hf, hF => by
      obtain ⟨f, rfl⟩ : ∃ f, fuel = f + 1 := ⟨fuel - 1, by simp [szVal] at hf; omega⟩
      simp only [valToks, List.cons_append, List.append_assoc, List.singleton_append] at hF
      obtain ⟨t, s', hty, _, hn, _, hr⟩ := hF.inv
      obtain ⟨s'', h1, h2⟩ := entries_structure o es rest (consume s') f pol w [] (by simpa [wfVal] using hw)
        (by simp [szVal] at hf; omega) hr
      refine ⟨s'', ?_, h2⟩
      rw [parseValue]
      simp only [bind_eq, pure_eq, P.bind, P.pure, hn, hty, h1, denoteVal]
  theorem values_structure (o : Opts) : ∀ (vs : List Val) (rest : List TokSpec) (s : PS) (fuel : Nat) (pol : Policy) (w : W)
      (acc : List V), wfVals o vs = true → szVals vs + 1 ≤ fuel → Feeds o s (valsToks vs ++ (.clist, [93]) :: rest) →
      ∃ s', listLoop o fuel s acc pol w = .ok (acc ++ denoteVals o.dia o.normKey vs, s') w ∧ Feeds o s' rest
    | [], rest, s, fuel, pol, w, acc, _, hf, hF => by
      obtain ⟨f, rfl⟩ : ∃ f, fuel = f + 1 := ⟨fuel - 1, by omega⟩
      simp only [valsToks, List.nil_append] at hF
      obtain ⟨t, s', hty, _, hn, _, hr⟩ := hF.inv
      refine ⟨consume s', ?_, hr⟩
      rw [listLoop]
      simp [bind_eq, pure_eq, P.bind, P.pure, hn, hty, isKeyTok, isValueStart, denoteVals]
    | v :: vs, rest, s, fuel, pol, w, acc, hw, hf, hF => by
      obtain ⟨f, rfl⟩ : ∃ f, fuel = f + 1 := ⟨fuel - 1, by omega⟩
      simp only [wfVals, Bool.and_eq_true] at hw
      simp only [szVals] at hf
      have hp := szVal_pos v
      obtain ⟨ty, tx, ts, hvt, hstart, hkey⟩ := valToks_head v
      simp only [valsToks, List.append_assoc] at hF
      have hF' := hF
      rw [hvt, List.cons_append] at hF'
      obtain ⟨t, s', hty, htx, hn, ht, hr⟩ := hF'.inv
      -- the element is parsed from the state in which its first token is pending
      have hpend : Feeds o s' (valToks v ++ (valsToks vs ++ (.clist, [93]) :: rest)) := by
        rw [hvt, List.cons_append, ← hty, ← htx]; exact Feeds.pending ht hr
      obtain ⟨s1, h1, h2⟩ := value_structure o v _ s' f pol w hw.1 (by omega) hpend
      obtain ⟨s2, h3, h4⟩ := values_structure o vs rest s1 f pol w (acc ++ [denoteVal o.dia o.normKey v]) hw.2 (by omega) h2
      refine ⟨s2, ?_, h4⟩
      rw [listLoop]
      simp only [bind_eq, pure_eq, P.bind, P.pure, hn, hty, hkey, hstart, if_true, h1, h3, denoteVals,
        List.append_assoc, List.singleton_append, Bool.false_eq_true, if_false]
  theorem entries_structure (o : Opts) : ∀ (es : List (Str × Presentation × Val)) (rest : List TokSpec) (s : PS) (fuel : Nat)
      (pol : Policy) (w : W) (acc : List (Str × Str × V)), wfEntries o es = true → szEntries es + 1 ≤ fuel →
      Feeds o s (entriesToks es ++ (.ctable, [125]) :: rest) →
      ∃ s', tableLoop o fuel s acc pol w = .ok (denoteEntries o.dia o.normKey es acc, s') w ∧ Feeds o s' rest
    | [], rest, s, fuel, pol, w, acc, _, hf, hF => by
      obtain ⟨f, rfl⟩ : ∃ f, fuel = f + 1 := ⟨fuel - 1, by omega⟩
      simp only [entriesToks, List.nil_append] at hF
      obtain ⟨t, s', hty, _, hn, _, hr⟩ := hF.inv
      refine ⟨consume s', ?_, hr⟩
      rw [tableLoop]
      simp [bind_eq, pure_eq, P.bind, P.pure, hn, hty, denoteEntries]
    | (k, kp, v) :: es, rest, s, fuel, pol, w, acc, hw, hf, hF => by
      obtain ⟨f, rfl⟩ : ∃ f, fuel = f + 1 := ⟨fuel - 1, by omega⟩
      simp only [wfEntries, Bool.and_eq_true, Bool.not_eq_true'] at hw
      simp only [szEntries] at hf
      have hp := szVal_pos v
      obtain ⟨g, rfl⟩ : ∃ g, f = g + 1 := ⟨f - 1, by omega⟩
      simp only [entriesToks, List.cons_append, List.append_assoc] at hF
      obtain ⟨t, s', hty, htx, hn, _, hr⟩ := hF.inv
      obtain ⟨vty, vtx, vts, hvt, hstart, _⟩ := valToks_head v
      have hr' := hr
      rw [hvt, List.cons_append] at hr'
      obtain ⟨t2, s2, hty2, htx2, hn2, ht2, hr2⟩ := hr'.inv
      have hpend : Feeds o s2 (valToks v ++ (entriesToks es ++ (.ctable, [125]) :: rest)) := by
        rw [hvt, List.cons_append, ← hty2, ← htx2]; exact Feeds.pending ht2 hr2
      obtain ⟨s3, h1, h2⟩ := value_structure o v _ s2 g pol w hw.1.2 (by omega) hpend
      obtain ⟨s4, h3, h4⟩ := entries_structure o es rest s3 g pol w (putEntry o.normKey acc k (denoteVal o.dia o.normKey v)) hw.2 (by omega) h2
      refine ⟨s4, ?_, h4⟩
      rw [tableLoop]
      simp only [bind_eq, pure_eq, P.bind, P.pure, hn, hty, htx, cstr_noNul hw.1.1.1]
      rw [tableEntry]
      simp only [bind_eq, pure_eq, P.bind, P.pure, hw.1.1.2, Bool.false_eq_true, if_false, hn2, hty2, hstart, if_true, h1,
        tableSet_eq_putEntry, h3, denoteEntries]
end


/-! ### the store: a view of the container that is being filled -/

/-- `put c` is the whole CIF when the container under construction (code `code`, addressed by `path`) is `c` -/
structure View (o : Opts) (path : Path) (put : Container → Cif) (code : Str) : Prop where
  get : ∀ fs ls, getIn o.norm path (put (.mk code fs ls)) = some (.mk code fs ls)
  upd : ∀ (f : Container → Container) fs ls, updIn o.norm f path (put (.mk code fs ls)) = put (f (.mk code fs ls))

theorem find_append_fresh {α} (p : α → Bool) (l : List α) (a : α) (hl : ∀ x ∈ l, p x = false) (ha : p a = true) :
    (l ++ [a]).find? p = some a := by
  induction l with
  | nil => simp [List.find?, ha]
  | cons x r ih =>
    have hx : p x = false := hl x (by simp)
    simp only [List.cons_append, List.find?, hx]
    exact ih (fun y hy => hl y (by simp [hy]))

theorem map_append_fresh {α} (p : α → Bool) (g : α → α) (l : List α) (a : α) (hl : ∀ x ∈ l, p x = false) (ha : p a = true) :
    (l ++ [a]).map (fun c => if p c then g c else c) = l ++ [g a] := by
  induction l with
  | nil => simp [ha]
  | cons x r ih =>
    have hx : p x = false := hl x (by simp)
    simp only [List.cons_append, List.map_cons, hx, Bool.false_eq_true, if_false]
    rw [ih (fun y hy => hl y (by simp [hy]))]

/-- the data block that is being filled is the last one, and no earlier block has its (normalised) code -/
theorem View.block (o : Opts) (done : Cif) (code : Str) (hfresh : ∀ c ∈ done, codeIs o.norm (o.norm code) c = false) :
    View o [o.norm code] (fun c => done ++ [c]) code := by
  constructor
  · intro fs ls
    simp only [getIn]
    exact find_append_fresh _ done _ hfresh (by simp [codeIs, Container.code])
  · intro f fs ls
    simp only [updIn]
    exact map_append_fresh _ f done _ hfresh (by simp [codeIs, Container.code])

/-- the save frame that is being filled is the last frame of the last block -/
theorem View.frame (o : Opts) (done : Cif) (bcode : Str) (fdone : List Container) (bls : List Loop) (fcode : Str)
    (hfresh : ∀ c ∈ done, codeIs o.norm (o.norm bcode) c = false)
    (hffresh : ∀ c ∈ fdone, codeIs o.norm (o.norm fcode) c = false) :
    View o [o.norm bcode, o.norm fcode] (fun c => done ++ [Container.mk bcode (fdone ++ [c]) bls]) fcode := by
  constructor
  · intro fs ls
    simp only [getIn]
    rw [find_append_fresh _ done _ hfresh (by simp [codeIs, Container.code])]
    simp only [Container.frames]
    exact find_append_fresh _ fdone _ hffresh (by simp [codeIs, Container.code])
  · intro f fs ls
    simp only [updIn]
    rw [map_append_fresh (codeIs o.norm (o.norm bcode))
      (fun c => Container.mk c.code (List.map (fun c => if codeIs o.norm (o.norm fcode) c = true then f c else c) c.frames) c.loops)
      done _ hfresh (by simp [codeIs, Container.code])]
    simp only [Container.code, Container.frames, Container.loops]
    rw [map_append_fresh _ f fdone _ hffresh (by simp [codeIs, Container.code])]

theorem addScalar_eq (ls : List Loop) (n : Str) (v : V) : addScalar ls n v = putScalar ls n v := by
  induction ls with
  | nil => rfl
  | cons l r ih =>
    simp only [addScalar, putScalar, Parser.isScalarLoop, Spec.Grammar.isScalarLoop, ih]
    first | rfl | (split <;> rfl)

/-- the normalised item names a list of loops defines -/
def normNames (o : Opts) (ls : List Loop) : List Str := (ls.map (fun l => l.names.map o.norm)).flatten

theorem hasItem_iff (o : Opts) (code : Str) (fs : List Container) (ls : List Loop) (k : Str) :
    hasItem o.norm (.mk code fs ls) k = true ↔ k ∈ normNames o ls := by
  simp only [hasItem, Container.loops, normNames, List.any_eq_true, List.mem_flatten, List.mem_map, beq_iff_eq]
  constructor
  · rintro ⟨l, hl, n, hn, rfl⟩
    exact ⟨l.names.map o.norm, ⟨l, hl, rfl⟩, List.mem_map.mpr ⟨n, hn, rfl⟩⟩
  · rintro ⟨_, ⟨l, hl, rfl⟩, hk⟩
    obtain ⟨n, hn, rfl⟩ := List.mem_map.mp hk
    exact ⟨l, hl, n, hn, rfl⟩

theorem normNames_putScalar (o : Opts) (ls : List Loop) (n : Str) (v : V) (k : Str) :
    k ∈ normNames o (putScalar ls n v) ↔ k ∈ normNames o ls ∨ k = o.norm n := by
  induction ls with
  | nil => simp [putScalar, normNames]
  | cons l r ih =>
    simp only [putScalar]
    split
    · simp only [normNames, List.map_cons, List.flatten_cons, List.map_append, List.mem_append, List.map_nil, List.mem_cons,
        List.not_mem_nil, or_false]
      constructor
      · rintro ((h | h) | h)
        · exact Or.inl (Or.inl h)
        · exact Or.inr h
        · exact Or.inl (Or.inr h)
      · rintro ((h | h) | h)
        · exact Or.inl (Or.inl h)
        · exact Or.inr h
        · exact Or.inl (Or.inr h)
    · simp only [normNames, List.map_cons, List.flatten_cons, List.mem_append] at ih ⊢
      rw [ih]
      constructor
      · rintro (h | h | h)
        · exact Or.inl (Or.inl h)
        · exact Or.inl (Or.inr h)
        · exact Or.inr h
      · rintro ((h | h) | h)
        · exact Or.inl h
        · exact Or.inr (Or.inl h)
        · exact Or.inr (Or.inr h)

theorem normNames_append (o : Opts) (ls : List Loop) (l : Loop) (k : Str) :
    k ∈ normNames o (ls ++ [l]) ↔ k ∈ normNames o ls ∨ k ∈ l.names.map o.norm := by
  simp [normNames]


/-! ### items -/

def wfName (n : Str) : Bool := isValidName true n && noNul n

theorem hasItem_false (o : Opts) (code : Str) (fs : List Container) (ls : List Loop) (k : Str) (h : k ∉ normNames o ls) :
    hasItem o.norm (.mk code fs ls) k = false := by
  cases hb : hasItem o.norm (.mk code fs ls) k with
  | false => rfl
  | true => exact absurd ((hasItem_iff o code fs ls k).mp hb) h

theorem itemExists_false (o : Opts) {path : Path} {put : Container → Cif} {code : Str} (hv : View o path put code)
    (n : Str) (fs : List Container) (ls : List Loop) (pol : Policy) (w : W) (hcif : w.cif = put (.mk code fs ls))
    (hvalid : isValidName true n = true) (hfresh : o.norm n ∉ normNames o ls) :
    itemExists o path n pol w = .ok false w := by
  unfold itemExists
  simp only [hvalid, Bool.not_true, Bool.false_eq_true, if_false, bind_eq, pure_eq, P.bind, P.pure, getCif, hcif, hv.get,
    hasItem_false o code fs ls _ hfresh]

theorem setValue_new (o : Opts) {path : Path} {put : Container → Cif} {code : Str} (hv : View o path put code)
    (n : Str) (v : V) (fs : List Container) (ls : List Loop) (pol : Policy) (w : W) (hcif : w.cif = put (.mk code fs ls))
    (hvalid : isValidName true n = true) (hfresh : o.norm n ∉ normNames o ls) :
    setValue o path n v pol w = .ok () { w with cif := put (.mk code fs (putScalar ls n v)) } := by
  unfold setValue
  simp only [hvalid, Bool.not_true, Bool.false_eq_true, if_false, bind_eq, pure_eq, P.bind, P.pure, getCif, setCif, hcif, hv.upd,
    hasItem_false o code fs ls _ hfresh, Container.code, Container.frames, Container.loops, addScalar_eq]

theorem parseItem_named (o : Opts) {path : Path} {put : Container → Cif} {code : Str} (hv : View o path put code)
    (n : Str) (v : Val) (rest : List TokSpec) (s : PS) (fuel : Nat) (pol : Policy) (w : W) (fs : List Container) (ls : List Loop)
    (hcif : w.cif = put (.mk code fs ls)) (hvalid : isValidName true n = true) (hfresh : o.norm n ∉ normNames o ls)
    (hwv : wfVal o v = true) (hfuel : szVal v ≤ fuel) (hF : Feeds o s (valToks v ++ rest)) :
    ∃ s', parseItem o fuel s (some path) (some n) pol w
        = .ok s' { w with cif := put (.mk code fs (putScalar ls n (denoteVal o.dia o.normKey v))) } ∧ Feeds o s' rest := by
  obtain ⟨ty, tx, ts, hvt, hstart, hkey⟩ := valToks_head v
  have hF' := hF
  rw [hvt, List.cons_append] at hF'
  obtain ⟨t, s1, hty, htx, hn, ht, hr⟩ := hF'.inv
  have hpend : Feeds o s1 (valToks v ++ rest) := by
    rw [hvt, List.cons_append, ← hty, ← htx]; exact Feeds.pending ht hr
  obtain ⟨s2, h1, h2⟩ := value_structure o v rest s1 fuel pol w hwv hfuel hpend
  refine ⟨s2, ?_, h2⟩
  unfold parseItem
  simp only [bind_eq, pure_eq, P.bind, P.pure, hn, hty, hkey, hstart, if_true, Bool.false_eq_true, if_false, h1,
    setValue_new o hv n _ fs ls pol w hcif hvalid hfresh]

/-- one scalar item inside the element loop of a container -/
theorem item_step (o : Opts) {path : Path} {put : Container → Cif} {code : Str} (hv : View o path put code)
    (n : Str) (v : Val) (rest : List TokSpec) (s : PS) (fuel : Nat) (pol : Policy) (w : W) (fs : List Container) (ls : List Loop)
    (isBlock : Bool) (hcif : w.cif = put (.mk code fs ls)) (hname : wfName n = true) (hfresh : o.norm n ∉ normNames o ls)
    (hwv : wfVal o v = true) (hfuel : szVal v ≤ fuel) (hF : Feeds o s ((.name, n) :: (valToks v ++ rest))) :
    ∃ s', elemsLoop o (fuel + 1) s (some path) isBlock pol w
        = elemsLoop o fuel s' (some path) isBlock pol { w with cif := put (.mk code fs (putScalar ls n (denoteVal o.dia o.normKey v))) }
      ∧ Feeds o s' rest := by
  simp only [wfName, Bool.and_eq_true] at hname
  obtain ⟨t, s1, hty, htx, hn, _, hr⟩ := hF.inv
  obtain ⟨s2, h1, h2⟩ := parseItem_named o hv n v rest (consume s1) fuel pol w fs ls hcif hname.1 hfresh hwv hfuel hr
  refine ⟨s2, ?_, h2⟩
  rw [elemsLoop]
  simp only [bind_eq, pure_eq, P.bind, P.pure, hn, hty, htx, cstr_noNul hname.2,
    itemExists_false o hv n fs ls pol w hcif hname.1 hfresh, Bool.false_eq_true, if_false, hname.1, Bool.not_true, and_false, h1]


/-! ### loops -/

theorem findHeaderName_none (o : Opts) (pre : List Str) (n : Str) (hvalid : isValidName true n = true)
    (hd : ∀ m ∈ pre, o.norm m ≠ o.norm n) : findHeaderName o (pre.map some) n = none := by
  unfold findHeaderName
  have : (pre.map some).any (fun e => match e with | some m => isValidName true m && o.norm m == o.norm n | none => false) = false := by
    rw [List.any_eq_false]
    intro e he
    obtain ⟨m, hm, rfl⟩ := List.mem_map.mp he
    simp [hd m hm]
  simp [hvalid]
  intro x hx _
  exact hd x hx

def isTerminator (ty : TokType) : Bool :=
  !(isKeyTok ty || isValueStart ty || ty == .clist || ty == .ctable)

/-- the header of a loop: every name is new to the container and to the header, so every slot is retained -/
theorem header_structure (o : Opts) {path : Path} {put : Container → Cif} {code : Str} (hv : View o path put code)
    (fs : List Container) (ls : List Loop) : ∀ (ns pre : List Str) (rest : List TokSpec) (s : PS) (fuel : Nat) (pol : Policy) (w : W),
      w.cif = put (.mk code fs ls) → (∀ n ∈ ns, wfName n = true) → (∀ n ∈ ns, o.norm n ∉ normNames o ls) →
      ((pre ++ ns).map o.norm).Nodup → ns.length + 1 ≤ fuel →
      (∃ ty tx ts, rest = (ty, tx) :: ts ∧ ty ≠ .name) →
      Feeds o s (ns.map (fun n => (TokType.name, n)) ++ rest) →
      ∃ s', headerLoop o (some path) fuel s (pre.map some) pol w = .ok ((pre ++ ns).map some, s') w ∧ Feeds o s' rest
  | [], pre, rest, s, fuel, pol, w, _, _, _, _, hfuel, hrest, hF => by
    obtain ⟨f, rfl⟩ : ∃ f, fuel = f + 1 := ⟨fuel - 1, by omega⟩
    obtain ⟨ty, tx, ts, rfl, hty⟩ := hrest
    simp only [List.map_nil, List.nil_append] at hF
    obtain ⟨t, s1, ht1, ht2, hn, ht, hr⟩ := hF.inv
    refine ⟨s1, ?_, by rw [← ht1, ← ht2]; exact Feeds.pending ht hr⟩
    rw [headerLoop]
    simp only [bind_eq, pure_eq, P.bind, P.pure, hn, ht1, hty, if_false, List.append_nil]
  | n :: ns, pre, rest, s, fuel, pol, w, hcif, hwf, hfresh, hnd, hfuel, hrest, hF => by
    obtain ⟨f, rfl⟩ : ∃ f, fuel = f + 1 := ⟨fuel - 1, by omega⟩
    simp only [List.map_cons, List.cons_append] at hF
    obtain ⟨t, s1, ht1, ht2, hn, _, hr⟩ := hF.inv
    have hw := hwf n (by simp)
    simp only [wfName, Bool.and_eq_true] at hw
    have hdist : ∀ m ∈ pre, o.norm m ≠ o.norm n := by
      intro m hm heq
      have h1 : ((pre ++ n :: ns).map o.norm) = pre.map o.norm ++ o.norm n :: ns.map o.norm := by simp
      rw [h1] at hnd
      have := (List.nodup_append.mp hnd).2.2 (o.norm m) (List.mem_map.mpr ⟨m, hm, rfl⟩) (o.norm n) (by simp)
      exact this heq
    have hnd' : (((pre ++ [n]) ++ ns).map o.norm).Nodup := by simpa using hnd
    obtain ⟨s2, h1, h2⟩ := header_structure o hv fs ls ns (pre ++ [n]) rest (consume s1) f pol w hcif
      (fun m hm => hwf m (by simp [hm])) (fun m hm => hfresh m (by simp [hm])) hnd' (by simp at hfuel; omega) hrest hr
    refine ⟨s2, ?_, h2⟩
    rw [headerLoop]
    simp only [bind_eq, pure_eq, P.bind, P.pure, hn, ht1, ht2, if_true, cstr_noNul hw.2,
      itemExists_false o hv n fs ls pol w hcif hw.1 (hfresh n (by simp)), Bool.false_eq_true, if_false,
      findHeaderName_none o pre n hw.1 hdist]
    have e : pre.map some ++ [some n] = (pre ++ [n]).map some := by simp
    rw [e, h1]
    simp

theorem addPacketLast_append (ls0 : List Loop) (l : Loop) (p : List V) :
    addPacketLast (ls0 ++ [l]) p = ls0 ++ [{ l with packets := l.packets ++ [p] }] := by
  induction ls0 with
  | nil => rfl
  | cons a r ih =>
    cases r with
    | nil => simp [addPacketLast]
    | cons b r' =>
      simp only [List.cons_append, addPacketLast] at ih ⊢
      rw [ih]

theorem addPacket_last (o : Opts) {path : Path} {put : Container → Cif} {code : Str} (hv : View o path put code)
    (fs : List Container) (ls0 : List Loop) (l : Loop) (p : List V) (pol : Policy) (w : W)
    (hcif : w.cif = put (.mk code fs (ls0 ++ [l]))) :
    addPacket o (some path) p pol w = .ok () { w with cif := put (.mk code fs (ls0 ++ [{ l with packets := l.packets ++ [p] }])) } := by
  unfold addPacket
  simp only [bind_eq, pure_eq, P.bind, P.pure, getCif, setCif, hcif, hv.upd, Container.code, Container.frames, Container.loops,
    addPacketLast_append]

def szPackets : List (List Val) → Nat
  | [] => 0
  | p :: ps => szVals p + szPackets ps

theorem szVals_pos_of_ne (vs : List Val) (h : vs ≠ []) : 0 < szVals vs := by
  cases vs with
  | nil => exact absurd rfl h
  | cons v r => simp only [szVals]; have := szVal_pos v; omega


/-- a loop without category -/
def mkLoop (ns : List Str) (packets : List (List V)) : Loop := { category := none, names := ns, packets := packets }

theorem addPacket_mk (o : Opts) {path : Path} {put : Container → Cif} {code : Str} (hv : View o path put code)
    (fs : List Container) (ls0 : List Loop) (ns : List Str) (done : List (List V)) (p : List V) (pol : Policy) (w : W)
    (hcif : w.cif = put (.mk code fs (ls0 ++ [mkLoop ns done]))) :
    addPacket o (some path) p pol w = .ok () { w with cif := put (.mk code fs (ls0 ++ [mkLoop ns (done ++ [p])])) } :=
  addPacket_last o hv fs ls0 (mkLoop ns done) p pol w hcif

theorem slots_kept (ns : List Str) (i : Nat) (h : i < ns.length) : ((ns.map some).getD i none).isSome = true := by
  simp [List.getD, List.getElem?_map, List.getElem?_eq_getElem h]

/-- the body of a loop: `cur` = values of the current packet read so far, `vs` = those still to come, `ps` = the packets after
    it, `done` = the packets already stored -/
theorem packets_structure (o : Opts) {path : Path} {put : Container → Cif} {code : Str} (hv : View o path put code)
    (fs : List Container) (ls0 : List Loop) (ns : List Str) :
    ∀ (ps : List (List Val)) (vs : List Val) (cur : List V) (done : List (List V)) (b : Bool) (rest : List TokSpec) (s : PS)
      (fuel : Nat) (pol : Policy) (w : W),
      w.cif = put (.mk code fs (ls0 ++ [mkLoop ns done])) →
      vs ≠ [] → cur.length + vs.length = ns.length → (∀ p ∈ ps, p.length = ns.length) → ns ≠ [] →
      wfVals o vs = true → (∀ p ∈ ps, wfVals o p = true) → szVals vs + szPackets ps + 1 ≤ fuel →
      (∃ ty tx ts, rest = (ty, tx) :: ts ∧ isTerminator ty = true) →
      Feeds o s (valsToks vs ++ (packetsToks ps ++ rest)) →
      ∃ s', packetsLoop o (some path) (ns.map some) fuel s { idx := cur.length, some := b, cur := cur } pol w
          = .ok s' { w with cif := put (.mk code fs (ls0 ++ [mkLoop ns (done ++ [cur ++ denoteVals o.dia o.normKey vs] ++ ps.map (denoteVals o.dia o.normKey))])) }
        ∧ Feeds o s' rest
  | ps, [], _, _, _, _, _, _, _, _, _, hne, _, _, _, _, _, _, _, _ => absurd rfl hne
  | ps, v :: vs, cur, done, b, rest, s, fuel, pol, w, hcif, _, hlen, hps, hns, hwv, hwps, hfuel, hrest, hF => by
    obtain ⟨f, rfl⟩ : ∃ f, fuel = f + 1 := ⟨fuel - 1, by omega⟩
    simp only [wfVals, Bool.and_eq_true] at hwv
    simp only [szVals] at hfuel
    have hp := szVal_pos v
    obtain ⟨ty, tx, ts, hvt, hstart, hkey⟩ := valToks_head v
    simp only [valsToks, List.append_assoc] at hF
    have hF' := hF
    rw [hvt, List.cons_append] at hF'
    obtain ⟨t, s1, hty, htx, hn, ht, hr⟩ := hF'.inv
    have hpend : Feeds o s1 (valToks v ++ (valsToks vs ++ (packetsToks ps ++ rest))) := by
      rw [hvt, List.cons_append, ← hty, ← htx]; exact Feeds.pending ht hr
    obtain ⟨s2, h1, h2⟩ := value_structure o v _ s1 f pol w hwv.1 (by omega) hpend
    have hidx : cur.length < ns.length := by simp at hlen; omega
    have hkept := slots_kept ns cur.length hidx
    have hnl : (ns.map some).length = ns.length := by simp
    rw [packetsLoop]
    simp only [bind_eq, pure_eq, P.bind, P.pure, hn, hty, hkey, hstart, Bool.false_or, if_true, Bool.false_eq_true, if_false,
      h1, hkept, hnl]
    cases vs with
    | cons v2 vs2 =>
      -- the packet is not complete yet
      have hmod : (cur.length + 1) % ns.length = cur.length + 1 := Nat.mod_eq_of_lt (by simp at hlen; omega)
      have hne0 : ¬ (cur.length + 1 = 0) := by omega
      simp only [hmod, hne0, if_false]
      have hl2 : (cur ++ [denoteVal o.dia o.normKey v]).length = cur.length + 1 := by simp
      obtain ⟨s3, h3, h4⟩ := packets_structure o hv fs ls0 ns ps (v2 :: vs2) (cur ++ [denoteVal o.dia o.normKey v]) done b rest s2 f pol w
        hcif (by simp) (by simp at hlen ⊢; omega) hps hns hwv.2 hwps (by omega) hrest h2
      rw [hl2] at h3
      refine ⟨s3, ?_, h4⟩
      rw [h3]
      simp [denoteVals, List.append_assoc]
    | nil =>
      -- the packet is complete: it is stored, and the next packet (or the end of the body) follows
      have hfull : cur.length + 1 = ns.length := by simpa using hlen
      have hmod : (cur.length + 1) % ns.length = 0 := by rw [hfull]; exact Nat.mod_self _
      simp only [hmod, if_true]
      rw [P.bind_ok (addPacket_mk o hv fs ls0 ns done (cur ++ [denoteVal o.dia o.normKey v]) pol w hcif)]
      simp only [valsToks, List.nil_append] at h2
      cases ps with
      | nil =>
        obtain ⟨ty2, tx2, ts2, rfl, hterm⟩ := hrest
        simp only [packetsToks, List.nil_append] at h2
        obtain ⟨t3, s3, hty3, htx3, hn3, ht3, hr3⟩ := h2.inv
        obtain ⟨g, rfl⟩ : ∃ g, f = g + 1 := ⟨f - 1, by omega⟩
        refine ⟨s3, ?_, by rw [← hty3, ← htx3]; exact Feeds.pending ht3 hr3⟩
        simp only [isTerminator, Bool.not_eq_true', Bool.or_eq_false_iff, beq_eq_false_iff_ne, ne_eq] at hterm
        rw [packetsLoop]
        simp [bind_eq, pure_eq, P.bind, P.pure, hn3, hty3, hterm.1.1.1, hterm.1.1.2, hterm.1.2, hterm.2, denoteVals,
          szPackets, List.append_assoc]
      | cons p ps2 =>
        have hpl : p.length = ns.length := hps p (by simp)
        have hpne : p ≠ [] := by
          intro h; rw [h] at hpl; simp at hpl
          exact hns (List.length_eq_zero_iff.mp hpl.symm)
        simp only [packetsToks, List.append_assoc] at h2
        have hsp := szVals_pos_of_ne p hpne
        simp only [szPackets] at hfuel
        obtain ⟨s3, h3, h4⟩ := packets_structure o hv fs ls0 ns ps2 p [] (done ++ [cur ++ [denoteVal o.dia o.normKey v]]) true rest s2 f pol
          { w with cif := put (.mk code fs (ls0 ++ [mkLoop ns (done ++ [cur ++ [denoteVal o.dia o.normKey v]])])) }
          rfl hpne (by simpa using hpl) (fun q hq => hps q (by simp [hq])) hns (hwps p (by simp)) (fun q hq => hwps q (by simp [hq]))
          (by omega) hrest h2
        refine ⟨s3, ?_, h4⟩
        simp only [List.length_nil] at h3
        rw [h3]
        simp [denoteVals, List.append_assoc]
termination_by ps vs => (ps.length, vs.length)


theorem hasDup_false (l : List Str) (h : l.Nodup) : hasDup l = false := by
  induction l with
  | nil => rfl
  | cons a r ih =>
    rw [List.nodup_cons] at h
    simp only [hasDup, Bool.or_eq_false_iff]
    exact ⟨by simpa using h.1, ih h.2⟩

theorem filterMap_map_some (l : List Str) : (l.map some).filterMap id = l := by
  induction l with
  | nil => rfl
  | cons a r ih => simp [List.filterMap_cons, ih]

/-- one loop inside the element loop of a container -/
theorem loop_step (o : Opts) {path : Path} {put : Container → Cif} {code : Str} (hv : View o path put code)
    (ns : List Str) (p0 : List Val) (ps : List (List Val)) (rest : List TokSpec) (s : PS) (fuel : Nat) (pol : Policy) (w : W)
    (fs : List Container) (ls : List Loop) (isBlock : Bool) (hcif : w.cif = put (.mk code fs ls))
    (hns : ns ≠ []) (hwf : ∀ n ∈ ns, wfName n = true) (hfresh : ∀ n ∈ ns, o.norm n ∉ normNames o ls)
    (hnd : (ns.map o.norm).Nodup) (hlen : ∀ p ∈ p0 :: ps, p.length = ns.length) (hwv : ∀ p ∈ p0 :: ps, wfVals o p = true)
    (hfuel : ns.length + szPackets (p0 :: ps) + 1 ≤ fuel)
    (hrest : ∃ ty tx ts, rest = (ty, tx) :: ts ∧ isTerminator ty = true)
    (hF : Feeds o s ((.loopKw, []) :: (ns.map (fun n => (TokType.name, n)) ++ (packetsToks (p0 :: ps) ++ rest)))) :
    ∃ s', elemsLoop o (fuel + 1) s (some path) isBlock pol w
        = elemsLoop o fuel s' (some path) isBlock pol
            { w with cif := put (.mk code fs (ls ++ [mkLoop ns ((p0 :: ps).map (denoteVals o.dia o.normKey))])) }
      ∧ Feeds o s' rest := by
  obtain ⟨t, s1, hty, _, hn, _, hr⟩ := hF.inv
  have hp0l : p0.length = ns.length := hlen p0 (by simp)
  have hp0 : p0 ≠ [] := by
    intro h; rw [h] at hp0l; exact hns (List.length_eq_zero_iff.mp hp0l.symm)
  -- the token behind the header: the first token of the first value
  have hfirst : ∃ ty tx ts, (packetsToks (p0 :: ps) ++ rest) = (ty, tx) :: ts ∧ ty ≠ .name := by
    cases p0 with
    | nil => exact absurd rfl hp0
    | cons v vs =>
      obtain ⟨ty, tx, ts, hvt, hstart, _⟩ := valToks_head v
      refine ⟨ty, tx, ts ++ (valsToks vs ++ packetsToks ps ++ rest), ?_, ?_⟩
      · simp [packetsToks, valsToks, hvt, List.append_assoc]
      · intro h; rw [h] at hstart; cases hstart
  obtain ⟨s2, h1, h2⟩ := header_structure o hv fs ls ns [] _ (consume s1) fuel pol w hcif hwf hfresh (by simpa using hnd)
    (by simp only [szPackets] at hfuel; omega) hfirst hr
  simp only [List.nil_append, List.map_nil] at h1
  -- the loop is created
  let w1 : W := { w with cif := put (.mk code fs (ls ++ [mkLoop ns []])) }
  have hsz : szVals p0 + szPackets ps + 1 ≤ fuel := by simp only [szPackets] at hfuel; omega
  simp only [packetsToks, List.append_assoc] at h2
  obtain ⟨s3, h3, h4⟩ := packets_structure o hv fs ls ns ps p0 [] [] false rest s2 fuel pol w1 rfl hp0 (by simpa using hp0l)
    (fun p hp => hlen p (by simp [hp])) hns (hwv p0 (by simp)) (fun p hp => hwv p (by simp [hp])) hsz hrest h2
  refine ⟨s3, ?_, h4⟩
  have hvalid : ns.any (fun n => !isValidName true n) = false := by
    rw [List.any_eq_false]
    intro n hn'
    have := hwf n hn'
    simp only [wfName, Bool.and_eq_true] at this
    simp [this.1]
  have hclash : ns.any (fun n => hasItem o.norm (.mk code fs ls) (o.norm n)) = false := by
    rw [List.any_eq_false]
    intro n hn'
    simp [hasItem_false o code fs ls _ (hfresh n hn')]
  have hempty : (ns.map some).isEmpty = false := by
    cases ns with
    | nil => exact absurd rfl hns
    | cons a r => rfl
  have hnsE : ns.isEmpty = false := by
    cases ns with
    | nil => exact absurd rfl hns
    | cons a r => rfl
  rw [elemsLoop]
  simp only [bind_eq, pure_eq, P.bind, P.pure, hn, hty]
  unfold parseLoop
  simp only [bind_eq, pure_eq, P.bind, P.pure, h1, hempty, Bool.false_eq_true, if_false, filterMap_map_some, hnsE, hvalid,
    getCif, setCif, hcif, hv.get, hv.upd, hclash, hasDup_false _ hnd, Bool.or_false, Container.code, Container.frames,
    Container.loops]
  simp only [List.length_nil, List.nil_append] at h3
  exact h3 ▸ rfl


/-! ### runs of items -/

def freshAll (o : Opts) (ns : List Str) (seen : List Str) : Bool := ns.all fun n => !seen.contains (o.norm n)

/-- well-formed items of one container; `seen` = the normalised names already defined in it -/
def wfItems (o : Opts) : List Item → List Str → Bool
  | [], _ => true
  | .item n v :: r, seen => wfName n && !seen.contains (o.norm n) && wfVal o v && wfItems o r (o.norm n :: seen)
  | .loop ns ps :: r, seen =>
    !ns.isEmpty && !ps.isEmpty && ns.all wfName && freshAll o ns seen && !hasDup (ns.map o.norm)
      && ps.all (fun p => p.length == ns.length && wfVals o p) && wfItems o r (ns.map o.norm ++ seen)

def szItem : Item → Nat
  | .item _ v => szVal v + 1
  | .loop ns ps => ns.length + szPackets ps + 1

def szItems : List Item → Nat
  | [] => 0
  | i :: r => szItem i + szItems r

theorem nodup_of_hasDup_false : ∀ (l : List Str), hasDup l = false → l.Nodup
  | [], _ => List.nodup_nil
  | a :: r, h => by
    simp only [hasDup, Bool.or_eq_false_iff] at h
    exact List.nodup_cons.mpr ⟨by simpa using h.1, nodup_of_hasDup_false r h.2⟩

/-- the first token of an item ends the body of a loop -/
theorem itemToks_head (i : Item) : ∃ ty tx ts, itemToks i = (ty, tx) :: ts ∧ isTerminator ty = true := by
  cases i with
  | item n v => exact ⟨_, _, _, rfl, rfl⟩
  | loop ns ps => exact ⟨_, _, _, rfl, rfl⟩

theorem items_rest_head (r : List Item) (rest : List TokSpec) (hrest : ∃ ty tx ts, rest = (ty, tx) :: ts ∧ isTerminator ty = true) :
    ∃ ty tx ts, itemsToks r ++ rest = (ty, tx) :: ts ∧ isTerminator ty = true := by
  cases r with
  | nil => simpa [itemsToks] using hrest
  | cons i r' =>
    obtain ⟨ty, tx, ts, h, ht⟩ := itemToks_head i
    exact ⟨ty, tx, ts ++ (itemsToks r' ++ rest), by simp [itemsToks, h], ht⟩

/-- does the run end in a loop?  (Only then must the token behind it end the loop body.) -/
def lastIsLoop : List Item → Bool
  | [] => false
  | [.loop _ _] => true
  | [.item _ _] => false
  | _ :: i :: r => lastIsLoop (i :: r)

theorem items_structure (o : Opts) {path : Path} {put : Container → Cif} {code : Str} (hv : View o path put code) :
    ∀ (its : List Item) (seen : List Str) (rest : List TokSpec) (s : PS) (fuel : Nat) (pol : Policy) (w : W) (fs : List Container)
      (ls : List Loop) (isBlock : Bool), w.cif = put (.mk code fs ls) → wfItems o its seen = true →
      (∀ k ∈ normNames o ls, k ∈ seen) → szItems its ≤ fuel →
      (lastIsLoop its = true → ∃ ty tx ts, rest = (ty, tx) :: ts ∧ isTerminator ty = true) → Feeds o s (itemsToks its ++ rest) →
      ∃ s', elemsLoop o (fuel + its.length) s (some path) isBlock pol w
          = elemsLoop o fuel s' (some path) isBlock pol { w with cif := put (.mk code fs (denoteItems o.dia o.normKey its ls)) }
        ∧ Feeds o s' rest
  | [], seen, rest, s, fuel, pol, w, fs, ls, isBlock, hcif, _, _, _, _, hF => by
    refine ⟨s, ?_, by simpa [itemsToks] using hF⟩
    simp only [List.length_nil, Nat.add_zero, denoteItems]
    have : ({ w with cif := put (.mk code fs ls) } : W) = w := by cases w; simp_all
    rw [this]
  | .item n v :: r, seen, rest, s, fuel, pol, w, fs, ls, isBlock, hcif, hwf, hseen, hfuel, hrest, hF => by
    simp only [wfItems, Bool.and_eq_true, Bool.not_eq_true'] at hwf
    obtain ⟨⟨⟨hname, hnew⟩, hwv⟩, hwr⟩ := hwf
    simp only [szItems, szItem] at hfuel
    have hfresh : o.norm n ∉ normNames o ls := by
      intro h
      have := hseen _ h
      simp [List.contains_iff_mem] at hnew
      exact hnew this
    simp only [itemsToks, itemToks, List.cons_append, List.append_assoc] at hF
    obtain ⟨s1, h1, h2⟩ := item_step o hv n v (itemsToks r ++ rest) s (fuel + r.length) pol w fs ls isBlock hcif hname hfresh hwv
      (by omega) hF
    obtain ⟨s2, h3, h4⟩ := items_structure o hv r (o.norm n :: seen) rest s1 fuel pol
      { w with cif := put (.mk code fs (putScalar ls n (denoteVal o.dia o.normKey v))) } fs _ isBlock rfl hwr
      (by
        intro k hk
        rcases (normNames_putScalar o ls n _ k).mp hk with h | h
        · exact List.mem_cons_of_mem _ (hseen k h)
        · rw [h]; exact List.mem_cons_self)
      (by omega) (by intro hl; cases r with
        | nil => simp [lastIsLoop] at hl
        | cons i2 r2 => exact hrest (by simpa [lastIsLoop] using hl)) h2
    refine ⟨s2, ?_, h4⟩
    have e : fuel + (Item.item n v :: r).length = (fuel + r.length) + 1 := by simp; omega
    rw [e, h1, h3]
    simp [denoteItems]
  | .loop ns ps :: r, seen, rest, s, fuel, pol, w, fs, ls, isBlock, hcif, hwf, hseen, hfuel, hrest, hF => by
    simp only [wfItems, Bool.and_eq_true, Bool.not_eq_true', freshAll, List.all_eq_true, beq_iff_eq] at hwf
    obtain ⟨⟨⟨⟨⟨⟨hnsE, hpsE⟩, hnames⟩, hfr⟩, hdup⟩, hpk⟩, hwr⟩ := hwf
    simp only [szItems, szItem] at hfuel
    have hns : ns ≠ [] := by intro h; rw [h] at hnsE; cases hnsE
    cases ps with
    | nil => cases hpsE
    | cons p0 ps' =>
      have hfresh : ∀ n ∈ ns, o.norm n ∉ normNames o ls := by
        intro n hn h
        have := hfr n hn
        simp [List.contains_iff_mem] at this
        exact this (hseen _ h)
      simp only [itemsToks, itemToks, List.cons_append, List.append_assoc] at hF
      obtain ⟨s1, h1, h2⟩ := loop_step o hv ns p0 ps' (itemsToks r ++ rest) s (fuel + r.length) pol w fs ls isBlock hcif hns hnames
        hfresh (nodup_of_hasDup_false _ hdup) (fun p hp => (hpk p hp).1) (fun p hp => (hpk p hp).2) (by omega)
        (by cases r with
          | nil => simpa [itemsToks] using hrest (by simp [lastIsLoop])
          | cons i2 r2 =>
            obtain ⟨ty, tx, ts, h, ht⟩ := itemToks_head i2
            exact ⟨ty, tx, ts ++ (itemsToks r2 ++ rest), by simp [itemsToks, h], ht⟩) hF
      obtain ⟨s2, h3, h4⟩ := items_structure o hv r (ns.map o.norm ++ seen) rest s1 fuel pol
        { w with cif := put (.mk code fs (ls ++ [mkLoop ns ((p0 :: ps').map (denoteVals o.dia o.normKey))])) } fs _ isBlock rfl hwr
        (by
          intro k hk
          rcases (normNames_append o ls _ k).mp hk with h | h
          · exact List.mem_append_right _ (hseen k h)
          · exact List.mem_append_left _ h)
        (by omega) (by intro hl; cases r with
          | nil => simp [lastIsLoop] at hl
          | cons i2 r2 => exact hrest (by simpa [lastIsLoop] using hl)) h2
      refine ⟨s2, ?_, h4⟩
      have e : fuel + (Item.loop ns (p0 :: ps') :: r).length = (fuel + r.length) + 1 := by simp; omega
      rw [e, h1, h3]
      simp [denoteItems, mkLoop]


/-! ### pruning: every loop the productions leave behind has a packet -/

def allPacked (ls : List Loop) : Prop := ∀ l ∈ ls, l.packets.isEmpty = false

theorem allPacked_putScalar (ls : List Loop) (n : Str) (v : V) (h : allPacked ls) : allPacked (putScalar ls n v) := by
  induction ls with
  | nil => intro l hl; simp [putScalar] at hl; subst hl; rfl
  | cons a r ih =>
    simp only [putScalar]
    split
    · intro l hl
      rcases List.mem_cons.mp hl with rfl | hl
      · have ha := h a (by simp)
        simp only [ha, Bool.false_eq_true, if_false]
        cases hp : a.packets with
        | nil => rw [hp] at ha; cases ha
        | cons x y => rfl
      · exact h l (by simp [hl])
    · intro l hl
      rcases List.mem_cons.mp hl with rfl | hl
      · exact h _ (by simp)
      · exact ih (fun l hl => h l (by simp [hl])) l hl

theorem allPacked_denoteItems (o : Opts) : ∀ (its : List Item) (seen : List Str) (ls : List Loop), wfItems o its seen = true →
    allPacked ls → allPacked (denoteItems o.dia o.normKey its ls)
  | [], _, ls, _, h => by simpa [denoteItems] using h
  | .item n v :: r, seen, ls, hw, h => by
    simp only [wfItems, Bool.and_eq_true] at hw
    simp only [denoteItems]
    exact allPacked_denoteItems o r _ _ hw.2 (allPacked_putScalar ls n _ h)
  | .loop ns ps :: r, seen, ls, hw, h => by
    simp only [wfItems, Bool.and_eq_true, Bool.not_eq_true'] at hw
    simp only [denoteItems]
    refine allPacked_denoteItems o r _ _ hw.2 ?_
    intro l hl
    rcases List.mem_append.mp hl with hl | hl
    · exact h l hl
    · simp only [List.mem_singleton] at hl
      subst hl
      cases ps with
      | nil => simp at hw
      | cons a b => rfl

theorem pruneC_packed (code : Str) (fs : List Container) (ls : List Loop) (h : allPacked ls) :
    pruneC (.mk code fs ls) = .mk code fs ls := by
  simp only [pruneC]
  congr
  rw [List.filter_eq_self]
  intro l hl
  simp [h l hl]

/-! ### save frames and data blocks -/

def wfCode (c : Str) : Bool := isValidName false c && noNul c

theorem createIn_frame (o : Opts) (done : Cif) (bcode : Str) (hfresh : ∀ c ∈ done, codeIs o.norm (o.norm bcode) c = false)
    (fc : Str) (fs : List Container) (ls : List Loop) (line col : Nat) (pol : Policy) (w : W)
    (hcif : w.cif = done ++ [.mk bcode fs ls]) (hvalid : isValidName false fc = true)
    (hnew : ∀ c ∈ fs, codeIs o.norm (o.norm fc) c = false) :
    createIn o false [o.norm bcode] fc line col pol w
      = .ok [o.norm bcode, o.norm fc] { w with cif := done ++ [.mk bcode (fs ++ [.mk fc [] []]) ls] } := by
  have hv := View.block o done bcode hfresh
  have hany : fs.any (codeIs o.norm (o.norm fc)) = false := by
    rw [List.any_eq_false]; intro c hc; simp [hnew c hc]
  unfold createIn
  simp only [bind_eq, pure_eq, P.bind, P.pure, getCif, setCif, hcif, hv.get, hv.upd, Bool.false_eq_true, if_false, hvalid,
    Bool.not_true, Option.map_some, Option.getD_some, Container.frames, Container.code, Container.loops, hany,
    List.singleton_append, List.cons_append, List.nil_append]

theorem createIn_block (o : Opts) (code : Str) (line col : Nat) (pol : Policy) (w : W) (hvalid : isValidName false code = true)
    (hnew : ∀ c ∈ w.cif, codeIs o.norm (o.norm code) c = false) :
    createIn o true [] code line col pol w = .ok [o.norm code] { w with cif := w.cif ++ [.mk code [] []] } := by
  have hany : w.cif.any (codeIs o.norm (o.norm code)) = false := by
    rw [List.any_eq_false]; intro c hc; simp [hnew c hc]
  unfold createIn
  simp only [bind_eq, pure_eq, P.bind, P.pure, getCif, setCif, if_true, hvalid, Bool.not_true, Bool.false_eq_true, if_false, hany,
    List.nil_append]

/-! ### nested containers: the view of a save frame inside the container under construction -/

theorem View.path_ne {o : Opts} {path : Path} {put : Container → Cif} {code : Str} (hv : View o path put code) : path ≠ [] := by
  intro h
  subst h
  have := hv.get [] []
  simp [getIn] at this

theorem getIn_snoc (norm : Str → Str) (k : Str) : ∀ (path : Path) (cs : List Container), path ≠ [] →
    getIn norm (path ++ [k]) cs = (getIn norm path cs).bind fun c => c.frames.find? (codeIs norm k)
  | [], _, h => absurd rfl h
  | [k0], cs, _ => by
    simp only [List.singleton_append, getIn]
    cases cs.find? (codeIs norm k0) <;> simp
  | k0 :: k1 :: ks, cs, _ => by
    simp only [List.cons_append, getIn]
    cases cs.find? (codeIs norm k0) with
    | none => simp
    | some c => simpa using getIn_snoc norm k (k1 :: ks) c.frames (by simp)

theorem updIn_snoc (norm : Str → Str) (f : Container → Container) (k : Str) : ∀ (path : Path) (cs : List Container), path ≠ [] →
    updIn norm f (path ++ [k]) cs =
      updIn norm (fun c => Container.mk c.code (c.frames.map fun x => if codeIs norm k x then f x else x) c.loops) path cs
  | [], _, h => absurd rfl h
  | [k0], cs, _ => by simp only [List.singleton_append, updIn]
  | k0 :: k1 :: ks, cs, _ => by
    simp only [List.cons_append, updIn]
    apply List.map_congr_left
    intro c _
    split
    · have := updIn_snoc norm f k (k1 :: ks) c.frames (by simp)
      simp only [List.cons_append] at this
      rw [this]
    · rfl

/-- the save frame that is being filled is the last frame of the container under construction -/
theorem View.child {o : Opts} {path : Path} {put : Container → Cif} {code : Str} (hv : View o path put code)
    (fdone : List Container) (ls : List Loop) (fcode : Str) (hffresh : ∀ c ∈ fdone, codeIs o.norm (o.norm fcode) c = false) :
    View o (path ++ [o.norm fcode]) (fun c => put (.mk code (fdone ++ [c]) ls)) fcode := by
  constructor
  · intro fs' ls'
    rw [getIn_snoc o.norm _ path _ hv.path_ne, hv.get]
    simp only [Option.bind_some, Container.frames]
    exact find_append_fresh _ fdone _ hffresh (by simp [codeIs, Container.code])
  · intro f fs' ls'
    rw [updIn_snoc o.norm f _ path _ hv.path_ne, hv.upd]
    simp only [Container.code, Container.frames, Container.loops]
    rw [map_append_fresh _ f fdone _ hffresh (by simp [codeIs, Container.code])]

theorem createIn_child (o : Opts) {path : Path} {put : Container → Cif} {code : Str} (hv : View o path put code)
    (fc : Str) (fs : List Container) (ls : List Loop) (line col : Nat) (pol : Policy) (w : W)
    (hcif : w.cif = put (.mk code fs ls)) (hvalid : isValidName false fc = true)
    (hnew : ∀ c ∈ fs, codeIs o.norm (o.norm fc) c = false) :
    createIn o false path fc line col pol w
      = .ok (path ++ [o.norm fc]) { w with cif := put (.mk code (fs ++ [.mk fc [] []]) ls) } := by
  have hany : fs.any (codeIs o.norm (o.norm fc)) = false := by
    rw [List.any_eq_false]; intro c hc; simp [hnew c hc]
  unfold createIn
  simp only [bind_eq, pure_eq, P.bind, P.pure, getCif, setCif, hcif, hv.get, hv.upd, Bool.false_eq_true, if_false, hvalid,
    Bool.not_true, Option.map_some, Option.getD_some, Container.frames, Container.code, Container.loops, hany]

/-! ### the elements of a container -/

def itemNames (o : Opts) : Item → List Str
  | .item n _ => [o.norm n]
  | .loop ns _ => ns.map o.norm

/-- no save frame among the elements -/
def noFrames (es : List Elem) : Bool := es.all fun e => match e with | .plain _ => true | .frame _ _ => false

mutual
  /-- a well-formed element of a container: `seen` = normalised item names, `fseen` = normalised frame codes already there.
      A save frame that itself holds save frames asks for a parser whose max_frame_depth is not 1 (the model, like parser.c,
      clamps the option to "none" (0), "one level" (1) or "unlimited" (negative)) -/
  def wfElem (o : Opts) : Elem → List Str → List Str → Bool
    | .plain i, seen, _ => wfItems o [i] seen
    | .frame c b, _, fseen =>
      wfCode c && !fseen.contains (o.norm c) && wfElems o b [] [] && (noFrames b || o.maxFrameDepth != 1)
  /-- well-formed elements of a container -/
  def wfElems (o : Opts) : List Elem → List Str → List Str → Bool
    | [], _, _ => true
    | e :: r, seen, fseen =>
      wfElem o e seen fseen &&
        wfElems o r (match e with | .plain i => itemNames o i ++ seen | .frame _ _ => seen)
          (match e with | .plain _ => fseen | .frame c _ => o.norm c :: fseen)
end

theorem wfElems_plain (o : Opts) (i : Item) (r : List Elem) (seen fseen : List Str) :
    wfElems o (.plain i :: r) seen fseen = (wfItems o [i] seen && wfElems o r (itemNames o i ++ seen) fseen) := by
  simp only [wfElems, wfElem]

theorem wfElems_frame (o : Opts) (c : Str) (b r : List Elem) (seen fseen : List Str) :
    wfElems o (.frame c b :: r) seen fseen =
      (wfCode c && !fseen.contains (o.norm c) && wfElems o b [] [] && (noFrames b || o.maxFrameDepth != 1)
        && wfElems o r seen (o.norm c :: fseen)) := by
  simp only [wfElems, wfElem]

mutual
  def szElem : Elem → Nat
    | .plain i => szItem i
    | .frame _ b => szElems b + b.length + 3
  def szElems : List Elem → Nat
    | [] => 0
    | e :: r => szElem e + szElems r
end

theorem noFrames_plains (its : List Item) : noFrames (its.map Elem.plain) = true := by
  simp [noFrames]

theorem szElems_plains : ∀ its : List Item, szElems (its.map Elem.plain) = szItems its
  | [] => by simp [szElems, szItems]
  | i :: r => by simp [szElems, szElem, szItems, szElems_plains r]

theorem wfItems_cons (o : Opts) (i : Item) (r : List Item) (seen : List Str) :
    wfItems o (i :: r) seen = (wfItems o [i] seen && wfItems o r (itemNames o i ++ seen)) := by
  cases i <;> simp [wfItems, itemNames, Bool.and_assoc]

theorem wfElems_plains (o : Opts) : ∀ (its : List Item) (seen fseen : List Str),
    wfElems o (its.map Elem.plain) seen fseen = wfItems o its seen
  | [], _, _ => by simp [wfElems, wfItems]
  | i :: r, seen, fseen => by
    rw [List.map_cons, wfElems_plain, wfElems_plains o r]
    conv => rhs; rw [wfItems_cons]

theorem elemToks_head (e : Elem) : ∃ ty tx ts, elemToks e = (ty, tx) :: ts ∧ isTerminator ty = true := by
  cases e with
  | plain i => simpa [elemToks] using itemToks_head i
  | frame c b => exact ⟨.frameHead, c, elemsToks b ++ [(.frameTerm, [])], by simp [elemToks], rfl⟩

theorem elems_rest_head (r : List Elem) (rest : List TokSpec) (hrest : ∃ ty tx ts, rest = (ty, tx) :: ts ∧ isTerminator ty = true) :
    ∃ ty tx ts, elemsToks r ++ rest = (ty, tx) :: ts ∧ isTerminator ty = true := by
  cases r with
  | nil => simpa [elemsToks] using hrest
  | cons e r' =>
    obtain ⟨ty, tx, ts, h, ht⟩ := elemToks_head e
    exact ⟨ty, tx, ts ++ (elemsToks r' ++ rest), by simp [elemsToks, h], ht⟩

theorem normNames_item (o : Opts) (i : Item) (seen : List Str) (ls : List Loop) (hw : wfItems o [i] seen = true)
    (hseen : ∀ k ∈ normNames o ls, k ∈ seen) : ∀ k ∈ normNames o (denoteItems o.dia o.normKey [i] ls), k ∈ itemNames o i ++ seen := by
  intro k hk
  cases i with
  | item n v =>
    simp only [denoteItems] at hk
    rcases (normNames_putScalar o ls n _ k).mp hk with h | h
    · exact List.mem_append_right _ (hseen k h)
    · rw [h]; simp [itemNames]
  | loop ns ps =>
    simp only [denoteItems] at hk
    rcases (normNames_append o ls _ k).mp hk with h | h
    · exact List.mem_append_right _ (hseen k h)
    · exact List.mem_append_left _ h

theorem allPacked_denoteElems (o : Opts) : ∀ (es : List Elem) (seen fseen : List Str) (fs : List Container) (ls : List Loop),
    wfElems o es seen fseen = true → allPacked ls → allPacked (denoteElems o.dia o.normKey es fs ls).2
  | [], _, _, fs, ls, _, h => by simpa [denoteElems] using h
  | .plain i :: r, seen, fseen, fs, ls, hw, h => by
    rw [wfElems_plain, Bool.and_eq_true] at hw
    rw [denoteElems_plain]
    exact allPacked_denoteElems o r _ _ fs _ hw.2 (allPacked_denoteItems o [i] seen ls hw.1 h)
  | .frame c b :: r, seen, fseen, fs, ls, hw, h => by
    rw [wfElems_frame, Bool.and_eq_true] at hw
    rw [denoteElems_frame]
    exact allPacked_denoteElems o r _ _ _ ls hw.2 h

/-- the elements of a container (a data block or a save frame at any depth), frames inside them included -/
theorem elemsV (o : Opts) (hmfd : o.maxFrameDepth ≠ 0) :
    ∀ (es : List Elem) (path : Path) (put : Container → Cif) (code : Str) (hv : View o path put code) (isBlock : Bool)
      (seen fseen : List Str) (rest : List TokSpec) (s : PS) (fuel : Nat) (pol : Policy) (w : W)
      (fs : List Container) (ls : List Loop),
      (isBlock = true ∨ noFrames es = true ∨ o.maxFrameDepth ≠ 1) →
      w.cif = put (.mk code fs ls) → wfElems o es seen fseen = true →
      (∀ k ∈ normNames o ls, k ∈ seen) → (∀ c ∈ fs, o.norm c.code ∈ fseen) → szElems es ≤ fuel →
      (∃ ty tx ts, rest = (ty, tx) :: ts ∧ isTerminator ty = true) → Feeds o s (elemsToks es ++ rest) →
      ∃ s', elemsLoop o (fuel + es.length) s (some path) isBlock pol w
          = elemsLoop o fuel s' (some path) isBlock pol
              { w with cif := put (.mk code (denoteElems o.dia o.normKey es fs ls).1 (denoteElems o.dia o.normKey es fs ls).2) }
        ∧ Feeds o s' rest
  | [], path, put, code, hv, isBlock, seen, fseen, rest, s, fuel, pol, w, fs, ls, _, hcif, _, _, _, _, _, hF => by
    refine ⟨s, ?_, by simpa [elemsToks] using hF⟩
    simp only [List.length_nil, Nat.add_zero, denoteElems]
    have : ({ w with cif := put (.mk code fs ls) } : W) = w := by cases w; simp_all
    rw [this]
  | .plain i :: r, path, put, code, hv, isBlock, seen, fseen, rest, s, fuel, pol, w, fs, ls, hlvl, hcif, hwf, hseen, hfseen, hfuel,
      hrest, hF => by
    rw [wfElems_plain, Bool.and_eq_true] at hwf
    simp only [szElems, szElem] at hfuel
    simp only [elemsToks, elemToks, List.append_assoc] at hF
    have hF1 : Feeds o s (itemsToks [i] ++ (elemsToks r ++ rest)) := by simpa [itemsToks] using hF
    obtain ⟨s1, h1, h2⟩ := items_structure o hv [i] seen (elemsToks r ++ rest) s (fuel + r.length) pol w fs ls isBlock hcif hwf.1 hseen
      (by simp [szItems]; omega) (fun _ => elems_rest_head r rest hrest) hF1
    obtain ⟨s2, h3, h4⟩ := elemsV o hmfd r path put code hv isBlock (itemNames o i ++ seen) fseen rest s1 fuel pol
      { w with cif := put (.mk code fs (denoteItems o.dia o.normKey [i] ls)) } fs _
      (by rcases hlvl with h | h | h
          · exact Or.inl h
          · exact Or.inr (Or.inl (by simpa [noFrames] using h))
          · exact Or.inr (Or.inr h))
      rfl hwf.2 (normNames_item o i seen ls hwf.1 hseen) hfseen (by omega) hrest h2
    refine ⟨s2, ?_, h4⟩
    have e : fuel + (Elem.plain i :: r).length = (fuel + r.length) + [i].length := by simp; omega
    rw [e, h1, h3, denoteElems_plain]
  | .frame c b :: r, path, put, code, hv, isBlock, seen, fseen, rest, s, fuel, pol, w, fs, ls, hlvl, hcif, hwf, hseen, hfseen, hfuel,
      hrest, hF => by
    rw [wfElems_frame] at hwf
    simp only [Bool.and_eq_true, Bool.not_eq_true', Bool.or_eq_true, bne_iff_ne, ne_eq] at hwf
    obtain ⟨⟨⟨⟨hcode, hcnew⟩, hwb⟩, hdeep⟩, hwr⟩ := hwf
    simp only [szElems, szElem] at hfuel
    have hnew : ∀ c' ∈ fs, codeIs o.norm (o.norm c) c' = false := by
      intro c' hc'
      have h1 := hfseen c' hc'
      simp only [codeIs, beq_eq_false_iff_ne, ne_eq]
      intro heq
      rw [heq] at h1
      simp [List.contains_iff_mem] at hcnew
      exact hcnew h1
    have hl1 : isBlock = true ∨ o.maxFrameDepth ≠ 1 := by
      rcases hlvl with h | h | h
      · exact Or.inl h
      · simp [noFrames] at h
      · exact Or.inr h
    have hc0 : ¬ (o.maxFrameDepth = 0 ∧ (!isBlock) = true) := by simp [hmfd]
    have hc1 : ¬ (o.maxFrameDepth = 1 ∧ (!isBlock) = true) := by
      rcases hl1 with h | h
      · simp [h]
      · simp [h]
    simp only [wfCode, Bool.and_eq_true] at hcode
    simp only [elemsToks, elemToks, List.cons_append, List.append_assoc, List.singleton_append] at hF
    obtain ⟨t, s1, hty, htx, hn, _, hr⟩ := hF.inv
    obtain ⟨X, hX⟩ : ∃ X, fuel + r.length = X + 1 := ⟨fuel + r.length - 1, by omega⟩
    obtain ⟨g, hg⟩ : ∃ g, X = (g + 1) + b.length := ⟨X - b.length - 1, by omega⟩
    have hvf := hv.child fs ls c hnew
    obtain ⟨s2, h1, h2⟩ := elemsV o hmfd b _ _ _ hvf false [] [] ((.frameTerm, []) :: (elemsToks r ++ rest)) (consume s1) (g + 1) pol
      { w with cif := put (.mk code (fs ++ [.mk c [] []]) ls) } [] [] (Or.inr hdeep) rfl hwb
      (by intro k hk; simp [normNames] at hk) (by intro c' hc'; cases hc') (by omega) ⟨_, _, _, rfl, rfl⟩ hr
    obtain ⟨t3, s3, hty3, _, hn3, _, hr3⟩ := h2.inv
    have hpacked : allPacked (denoteElems o.dia o.normKey b [] []).2 :=
      allPacked_denoteElems o b [] [] [] [] hwb (by intro l hl; cases hl)
    obtain ⟨s4, h3, h4⟩ := elemsV o hmfd r path put code hv isBlock seen (o.norm c :: fseen) rest (consume s3) fuel pol
      { w with cif := put (.mk code (fs ++ [.mk c (denoteElems o.dia o.normKey b [] []).1 (denoteElems o.dia o.normKey b [] []).2]) ls) }
      _ ls
      (by rcases hlvl with h | h | h
          · exact Or.inl h
          · simp [noFrames] at h
          · exact Or.inr (Or.inr h))
      rfl hwr hseen
      (by
        intro c' hc'
        rcases List.mem_append.mp hc' with h | h
        · exact List.mem_cons_of_mem _ (hfseen c' h)
        · simp only [List.mem_singleton] at h; subst h; simp [Container.code])
      (by omega) hrest hr3
    refine ⟨s4, ?_, h4⟩
    have e : fuel + (Elem.frame c b :: r).length = (fuel + r.length) + 1 := by simp; omega
    rw [← hg] at h1
    rw [e]
    conv => lhs; rw [elemsLoop]
    simp only [bind_eq, pure_eq, P.bind, P.pure, hn, hty, htx, cstr_noNul hcode.2, hc0, hc1, if_false, hmfd, false_and,
      createIn_child o hv c fs ls _ _ pol w hcif hcode.1 hnew]
    conv => lhs; rw [hX, parseContainer]
    simp only [bind_eq, pure_eq, P.bind, P.pure, h1]
    conv => lhs; rw [elemsLoop]
    simp only [bind_eq, pure_eq, P.bind, P.pure, hn3, hty3, Bool.false_eq_true, if_false, getCif, setCif, hvf.upd,
      pruneC_packed _ _ _ hpacked]
    rw [← hX, h3, denoteElems_frame]
termination_by es => sizeOf es

/-- the elements of a data block -/
theorem elems_structure (o : Opts) (done : Cif) (bcode : Str) (hfresh : ∀ c ∈ done, codeIs o.norm (o.norm bcode) c = false)
    (hmfd : o.maxFrameDepth ≠ 0) :
    ∀ (es : List Elem) (seen fseen : List Str) (rest : List TokSpec) (s : PS) (fuel : Nat) (pol : Policy) (w : W)
      (fs : List Container) (ls : List Loop), w.cif = done ++ [.mk bcode fs ls] → wfElems o es seen fseen = true →
      (∀ k ∈ normNames o ls, k ∈ seen) → (∀ c ∈ fs, o.norm c.code ∈ fseen) → szElems es ≤ fuel →
      (∃ ty tx ts, rest = (ty, tx) :: ts ∧ isTerminator ty = true) → Feeds o s (elemsToks es ++ rest) →
      ∃ s', elemsLoop o (fuel + es.length) s (some [o.norm bcode]) true pol w
          = elemsLoop o fuel s' (some [o.norm bcode]) true pol
              { w with cif := done ++ [.mk bcode (denoteElems o.dia o.normKey es fs ls).1 (denoteElems o.dia o.normKey es fs ls).2] }
        ∧ Feeds o s' rest :=
  fun es seen fseen rest s fuel pol w fs ls hcif hwf hseen hfseen hfuel hrest hF =>
    elemsV o hmfd es _ _ _ (View.block o done bcode hfresh) true seen fseen rest s fuel pol w fs ls (Or.inl rfl) hcif hwf hseen hfseen
      hfuel hrest hF

/-! ### data blocks -/

/-- well-formed data blocks; `bseen` = the normalised block codes already in the CIF -/
def wfBlocks (o : Opts) : List Block → List Str → Bool
  | [], _ => true
  | b :: r, bseen => wfCode b.code && !bseen.contains (o.norm b.code) && wfElems o b.body [] [] && wfBlocks o r (o.norm b.code :: bseen)

def szBlock (b : Block) : Nat := szElems b.body + b.body.length + 3

def szBlocks : List Block → Nat
  | [] => 0
  | b :: r => szBlock b + szBlocks r

/-- the token that follows a data block: the next block header or the end of the input -/
def blockFollow (rest : List TokSpec) : Prop :=
  ∃ ty tx ts, rest = (ty, tx) :: ts ∧ (ty = .blockHead ∨ ty = .end_)

theorem blockFollow_term {rest : List TokSpec} (h : blockFollow rest) : ∃ ty tx ts, rest = (ty, tx) :: ts ∧ isTerminator ty = true := by
  obtain ⟨ty, tx, ts, rfl, h | h⟩ := h <;> exact ⟨ty, tx, ts, rfl, by subst h; rfl⟩

/-- one data block inside the block loop of parse_cif -/
theorem block_step (o : Opts) (hstore : o.store = true) (hmfd : o.maxFrameDepth ≠ 0) (b : Block) (rest : List TokSpec) (s : PS)
    (fuel : Nat) (pol : Policy) (w : W) (hcode : wfCode b.code = true) (hnew : ∀ c ∈ w.cif, codeIs o.norm (o.norm b.code) c = false)
    (hwb : wfElems o b.body [] [] = true) (hfuel : szBlock b ≤ fuel) (hrest : blockFollow rest)
    (hF : Feeds o s ((.blockHead, b.code) :: (elemsToks b.body ++ rest))) :
    ∃ s', blocksLoop o (fuel + 1) s pol w = blocksLoop o fuel s' pol { w with cif := w.cif ++ [denoteBlock o.dia o.normKey b] }
      ∧ Feeds o s' rest := by
  simp only [wfCode, Bool.and_eq_true] at hcode
  simp only [szBlock] at hfuel
  obtain ⟨t, s1, hty, htx, hn, _, hr⟩ := hF.inv
  obtain ⟨X, hX⟩ : ∃ X, fuel = X + 1 := ⟨fuel - 1, by omega⟩
  obtain ⟨g, hg⟩ : ∃ g, X = (g + 1) + b.body.length := ⟨X - b.body.length - 1, by omega⟩
  obtain ⟨s2, h1, h2⟩ := elems_structure o w.cif b.code hnew hmfd b.body [] [] rest (consume s1) (g + 1) pol
    { w with cif := w.cif ++ [.mk b.code [] []] } [] [] rfl hwb (by intro k hk; simp [normNames] at hk) (by intro c hc; cases hc)
    (by omega) (blockFollow_term hrest) hr
  rw [← hg] at h1
  obtain ⟨ty, tx, ts, rfl, hfol⟩ := hrest
  obtain ⟨t3, s3, hty3, htx3, hn3, ht3, hr3⟩ := h2.inv
  refine ⟨s3, ?_, by rw [← hty3, ← htx3]; exact Feeds.pending ht3 hr3⟩
  have hpacked : allPacked (denoteElems o.dia o.normKey b.body [] []).2 :=
    allPacked_denoteElems o b.body [] [] [] [] hwb (by intro l hl; cases hl)
  have hv := View.block o w.cif b.code hnew
  conv => lhs; rw [blocksLoop]
  simp only [bind_eq, pure_eq, P.bind, P.pure, hn, hty, htx, hstore, if_true, cstr_noNul hcode.2,
    createIn_block o b.code _ _ pol w hcode.1 hnew]
  conv => lhs; rw [hX, parseContainer]
  simp only [bind_eq, pure_eq, P.bind, P.pure, h1]
  conv => lhs; rw [elemsLoop]
  rcases hfol with h | h
  · simp only [bind_eq, pure_eq, P.bind, P.pure, hn3, hty3, h, if_true, getCif, setCif, hv.upd, pruneC_packed _ _ _ hpacked]
    rw [hX]; rfl
  · simp only [bind_eq, pure_eq, P.bind, P.pure, hn3, hty3, h, if_true, getCif, setCif, hv.upd, pruneC_packed _ _ _ hpacked]
    rw [hX]; rfl

theorem blocks_rest_head (r : List Block) : blockFollow (blocksToks r ++ [(.end_, [])]) := by
  cases r with
  | nil => exact ⟨_, _, _, rfl, Or.inr rfl⟩
  | cons b r' => exact ⟨.blockHead, b.code, elemsToks b.body ++ blocksToks r' ++ [(.end_, [])], by simp [blocksToks], Or.inl rfl⟩

theorem blocks_structure (o : Opts) (hstore : o.store = true) (hmfd : o.maxFrameDepth ≠ 0) :
    ∀ (bs : List Block) (bseen : List Str) (s : PS) (fuel : Nat) (pol : Policy) (w : W), wfBlocks o bs bseen = true →
      (∀ c ∈ w.cif, o.norm c.code ∈ bseen) → szBlocks bs + 1 ≤ fuel → Feeds o s (blocksToks bs ++ [(.end_, [])]) →
      ∃ s', blocksLoop o (fuel + bs.length) s pol w = .ok s' { w with cif := w.cif ++ denote o.dia o.normKey bs }
  | [], bseen, s, fuel, pol, w, _, _, hfuel, hF => by
    obtain ⟨f, rfl⟩ : ∃ f, fuel = f + 1 := ⟨fuel - 1, by omega⟩
    simp only [blocksToks, List.nil_append] at hF
    obtain ⟨t, s1, hty, _, hn, _, _⟩ := hF.inv
    refine ⟨s1, ?_⟩
    simp only [List.length_nil, Nat.add_zero]
    rw [blocksLoop]
    simp only [bind_eq, pure_eq, P.bind, P.pure, hn, hty, denote, List.map_nil, List.append_nil]
  | b :: r, bseen, s, fuel, pol, w, hwf, hseen, hfuel, hF => by
    simp only [wfBlocks, Bool.and_eq_true, Bool.not_eq_true'] at hwf
    obtain ⟨⟨⟨hcode, hcnew⟩, hwb⟩, hwr⟩ := hwf
    simp only [szBlocks] at hfuel
    have hnew : ∀ c ∈ w.cif, codeIs o.norm (o.norm b.code) c = false := by
      intro c hc
      have h1 := hseen c hc
      simp only [codeIs, beq_eq_false_iff_ne, ne_eq]
      intro heq
      rw [heq] at h1
      simp [List.contains_iff_mem] at hcnew
      exact hcnew h1
    simp only [blocksToks, List.cons_append, List.append_assoc] at hF
    obtain ⟨s1, h1, h2⟩ := block_step o hstore hmfd b (blocksToks r ++ [(.end_, [])]) s (fuel + r.length) pol w hcode hnew hwb
      (by omega) (blocks_rest_head r) hF
    obtain ⟨s2, h3⟩ := blocks_structure o hstore hmfd r (o.norm b.code :: bseen) s1 fuel pol
      { w with cif := w.cif ++ [denoteBlock o.dia o.normKey b] } hwr
      (by
        intro c hc
        rcases List.mem_append.mp hc with h | h
        · exact List.mem_cons_of_mem _ (hseen c h)
        · simp only [List.mem_singleton] at h; subst h; simp [denoteBlock, Container.code])
      (by omega) h2
    refine ⟨s2, ?_⟩
    have e : fuel + (b :: r).length = (fuel + r.length) + 1 := by simp; omega
    rw [e, h1, h3]
    simp [denote, List.append_assoc]

end CifModel.Model.Parser
