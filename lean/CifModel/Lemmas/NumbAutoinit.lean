import CifModel.Lemmas.NumbRoundtrip
/-
  Lemmas for C10_autoinit_scale: cif_value_autoinit_numb picks the largest scale whose rounded su does not exceed the
  su rule.
-/
namespace CifModel.Lemmas.NumbAutoinit
open CifModel.Model.Numb CifModel.Spec.Rounding CifModel.Lemmas.NumbRound CifModel.Lemmas.NumbMisc CifModel.Lemmas.NumbDigits
  CifModel.Lemmas.NumbRoundtrip

/-! ### rounding a fraction against integer bounds -/

theorem rhe_le_of_lt (X Y h : Nat) (hY : 0 < Y) (hlt : X < h * Y) : roundHalfEven X Y ≤ h := by
  have hq : X / Y < h := (Nat.div_lt_iff_lt_mul hY).mpr hlt
  unfold roundHalfEven
  simp only
  generalize X / Y = q at *
  split
  · omega
  · split
    · split <;> omega
    · omega

theorem rhe_ge_of_le (X Y l : Nat) (hY : 0 < Y) (hle : l * Y ≤ X) : l ≤ roundHalfEven X Y := by
  have hq : l ≤ X / Y := (Nat.le_div_iff_mul_le hY).mpr hle
  unfold roundHalfEven
  simp only
  generalize X / Y = q at *
  split
  · omega
  · split
    · split <;> omega
    · omega

/-- strictly more than `l − ½` rounds to at least `l` -/
theorem rhe_ge_of_half_lt (X Y l : Nat) (hY : 0 < Y) (hl : 1 ≤ l) (h : (2 * l - 1) * Y < 2 * X) : l ≤ roundHalfEven X Y := by
  have hdm : Y * (X / Y) + X % Y = X := Nat.div_add_mod X Y
  have hr : X % Y < Y := Nat.mod_lt X hY
  unfold roundHalfEven
  simp only
  generalize hq : X / Y = q at *
  generalize hrr : X % Y = r at *
  -- q ≥ l - 1, and if q = l - 1 then 2r > Y
  have hmul : (2 * l - 1) * Y = 2 * (l * Y) - Y := by
    rw [Nat.sub_mul, Nat.one_mul, Nat.mul_assoc]
  by_cases hql : l ≤ q
  · split
    · omega
    · split
      · split <;> omega
      · omega
  · have hq1 : q + 1 ≤ l := by omega
    have h1 : Y * (q + 1) ≤ Y * l := Nat.mul_le_mul_left Y hq1
    have h2 : Y * (q + 1) = Y * q + Y := by rw [Nat.mul_add, Nat.mul_one]
    have h3 : Y * l = l * Y := Nat.mul_comm _ _
    have h4 : Y ≤ l * Y := Nat.le_mul_of_pos_left Y hl
    -- 2X > 2lY - Y ≥ 2Y(q+1) - Y  →  2r > Y ... and q + 1 = l
    have hge : 2 * (Y * q) + Y < 2 * X := by omega
    have h2r : Y < 2 * r := by omega
    have hql' : q + 1 = l := by
      -- X < Y(q+1) so 2lY - Y < 2Y(q+1); with q+1 ≤ l this forces equality
      rcases Nat.lt_or_ge (q + 1) l with hlt | hge'
      · exfalso
        have h5 : Y * (q + 2) ≤ Y * l := Nat.mul_le_mul_left Y (by omega)
        have h6 : Y * (q + 2) = Y * q + 2 * Y := by rw [Nat.mul_add]; omega
        omega
      · omega
    have c1 : ¬ (2 * r < Y) := by omega
    have c2 : ¬ (2 * r = Y) := by omega
    simp only [c1, c2, if_false]
    omega

/-- `R = h` forces `X ≥ (h − ½)·Y` -/
theorem half_le_of_rhe_eq (X Y h : Nat) (hY : 0 < Y) (he : roundHalfEven X Y = h) : (2 * h - 1) * Y ≤ 2 * X := by
  have := (roundHalfEven_close X Y hY).1.2
  rw [he] at this
  have hmul : (2 * h - 1) * Y = 2 * (h * Y) - Y := by
    rw [Nat.sub_mul, Nat.one_mul, Nat.mul_assoc]
  omega


/-! ### one more decimal place: `c/d = 10·a/b` -/

theorem up_ge (a b c d h : Nat) (hb : 0 < b) (law : c * b = 10 * a * d) (hge : h * b ≤ a) : 10 * h * d ≤ c := by
  apply Nat.le_of_mul_le_mul_right (c := b) _ hb
  calc 10 * h * d * b = 10 * d * (h * b) := by grind
    _ ≤ 10 * d * a := Nat.mul_le_mul_left _ hge
    _ = c * b := by rw [law]; grind

theorem down_lt (a b c d h : Nat) (hb : 0 < b) (law : c * b = 10 * a * d) (hlt : c < 10 * h * d) : a < h * b := by
  rcases Nat.lt_or_ge a (h * b) with h1 | h1
  · exact h1
  · have := up_ge a b c d h hb law h1
    omega

theorem down_half (a b c d h : Nat) (hb : 0 < b) (hd : 0 < d) (hh : 1 ≤ h) (law : c * b = 10 * a * d)
    (hge : (2 * (10 * h) - 1) * d ≤ 2 * c) : (2 * h - 1) * b < 2 * a := by
  apply Nat.lt_of_mul_lt_mul_right (a := 10 * d)
  have hbd : 0 < b * d := Nat.mul_pos hb hd
  have e1 : (2 * h - 1) * b * (10 * d) = (20 * h - 10) * (b * d) := by
    have : (2 * h - 1) * 10 = 20 * h - 10 := by omega
    calc (2 * h - 1) * b * (10 * d) = ((2 * h - 1) * 10) * (b * d) := by grind
      _ = (20 * h - 10) * (b * d) := by rw [this]
  have e2 : 2 * a * (10 * d) = 2 * (c * b) := by rw [law]; grind
  have e3 : (2 * (10 * h) - 1) * d * b = (20 * h - 1) * (b * d) := by
    have : 2 * (10 * h) - 1 = 20 * h - 1 := by omega
    rw [this]; grind
  have h1 : (20 * h - 1) * (b * d) ≤ 2 * (c * b) := by
    rw [← e3]
    calc (2 * (10 * h) - 1) * d * b ≤ 2 * c * b := Nat.mul_le_mul_right b hge
      _ = 2 * (c * b) := by grind
  have h2 : (20 * h - 10) * (b * d) < (20 * h - 1) * (b * d) := Nat.mul_lt_mul_of_pos_right (by omega) hbd
  rw [e1, e2]
  omega

/-! ### the su at a scale: `N s / D s = su·10^s` -/

def Ns (vn : Nat) (s : Int) : Nat := vn * T s
def Ds (vd : Nat) (s : Int) : Nat := vd * B s

theorem scaled_uniform (m : Nat) (e s : Int) :
    scaledNum m e s = Ns (ratOfBin m e).1 s ∧ scaledDen m e s = Ds (ratOfBin m e).2 s := by
  unfold scaledNum scaledDen Ns Ds T B pow10
  by_cases h : s ≥ 0
  · rw [if_pos h, if_pos h]
    have : (-s).toNat = 0 := by omega
    rw [this]; simp
  · rw [if_neg h, if_neg h]
    have : s.toNat = 0 := by omega
    rw [this]; simp

theorem Ds_pos (vd : Nat) (s : Int) (h : 0 < vd) : 0 < Ds vd s := Nat.mul_pos h (B_pos s)

theorem step_law (vn vd : Nat) (s : Int) : Ns vn (s + 1) * Ds vd s = 10 * Ns vn s * Ds vd (s + 1) := by
  unfold Ns Ds
  have law := TB_add s 1
  have b1 : B 1 = 1 := by decide
  have t1 : T 1 = 10 := by decide
  rw [b1, t1, Nat.mul_one] at law
  -- law : T (s + 1) * B s = T s * 10 * B (s + 1)
  calc vn * T (s + 1) * (vd * B s) = vn * vd * (T (s + 1) * B s) := by grind
    _ = vn * vd * (T s * 10 * B (s + 1)) := by rw [law]
    _ = 10 * (vn * T s) * (vd * B (s + 1)) := by grind


/-! ### the exact decimal logarithm -/

theorem decDigits_ge_pow (n : Nat) (hn : n ≠ 0) : 10 ^ ((decDigits n).length - 1) ≤ n := by
  obtain ⟨d, r, e, hd⟩ := decDigitsF_head (n + 1) n (by omega) hn
  have hv := natOfDigits_decDigits n
  unfold decDigits at hv ⊢
  rw [e] at hv ⊢
  rw [natOfDigits_cons] at hv
  simp only [List.length_cons, Nat.add_sub_cancel]
  have : 1 * 10 ^ r.length ≤ d * 10 ^ r.length := Nat.mul_le_mul_right _ (by omega)
  omega

theorem decDigits_length_pos (n : Nat) : 1 ≤ (decDigits n).length := by
  unfold decDigits
  rw [decDigitsF]
  split
  · simp
  · simp

theorem leastPow10_spec (num den : Nat) : ∀ (fuel k0 : Nat), den ≤ num * 10 ^ (k0 + fuel) →
    (∀ j, j < k0 → ¬ den ≤ num * 10 ^ j) →
    den ≤ num * 10 ^ (leastPow10 fuel num den k0) ∧ (∀ j, j < leastPow10 fuel num den k0 → ¬ den ≤ num * 10 ^ j) := by
  intro fuel
  induction fuel with
  | zero =>
    intro k0 h1 h2
    rw [leastPow10]
    exact ⟨by simpa using h1, h2⟩
  | succ f ih =>
    intro k0 h1 h2
    rw [leastPow10]
    unfold pow10
    by_cases hc : den ≤ num * 10 ^ k0
    · rw [if_pos hc]; exact ⟨hc, h2⟩
    · rw [if_neg hc]
      apply ih (k0 + 1)
      · have : k0 + 1 + f = k0 + (f + 1) := by omega
        rw [this]; exact h1
      · intro j hj
        rcases Nat.lt_or_ge j k0 with h | h
        · exact h2 j h
        · have : j = k0 := by omega
          rw [this]; exact hc

theorem flog10Rat_spec (num den : Nat) (hn : 0 < num) (hd : 0 < den) (hfuel : den ≤ num * 10 ^ 400) :
    T (flog10Rat num den) * den ≤ num * B (flog10Rat num den) ∧
    num * B (flog10Rat num den) < 10 * (T (flog10Rat num den) * den) := by
  unfold flog10Rat
  by_cases h : den ≤ num
  · rw [if_pos h]
    have hq : 1 ≤ num / den := (Nat.le_div_iff_mul_le hd).mpr (by omega)
    have hq0 : num / den ≠ 0 := by omega
    have h1 := decDigits_ge_pow (num / den) hq0
    have h2 := decDigits_lt_pow (num / den)
    have hl := decDigits_length_pos (num / den)
    generalize (decDigits (num / den)).length = L at *
    have hT : T (((L - 1 : Nat) : Nat) : Int) = 10 ^ (L - 1) := by unfold T; simp
    have hB : B (((L - 1 : Nat) : Nat) : Int) = 1 := by
      unfold B
      have : (-(((L - 1 : Nat) : Nat) : Int)).toNat = 0 := by omega
      rw [this]
    rw [hT, hB, Nat.mul_one]
    have hL : 10 ^ L = 10 * 10 ^ (L - 1) := by
      have : L = (L - 1) + 1 := by omega
      rw [this, Nat.pow_succ, Nat.mul_comm]; simp
    have d1 : num / den * den ≤ num := Nat.div_mul_le_self num den
    have d2 : num < den * (num / den + 1) := Nat.lt_mul_div_succ num hd
    constructor
    · exact Nat.le_trans (Nat.mul_le_mul_right den h1) d1
    · have : den * (num / den + 1) ≤ den * 10 ^ L := Nat.mul_le_mul_left den (by omega)
      calc num < den * (num / den + 1) := d2
        _ ≤ den * 10 ^ L := this
        _ = 10 * (10 ^ (L - 1) * den) := by rw [hL]; grind
  · rw [if_neg h]
    have hlt : num < den := by omega
    obtain ⟨s1, s2⟩ := leastPow10_spec num den 400 0 (by simpa using hfuel) (by intro j hj; omega)
    generalize leastPow10 400 num den 0 = k at *
    have hk : 1 ≤ k := by
      rcases Nat.eq_zero_or_pos k with h0 | h0
      · rw [h0] at s1; simp at s1; omega
      · exact h0
    have hT : T (-((k : Nat) : Int)) = 1 := by
      unfold T
      have : (-((k : Nat) : Int)).toNat = 0 := by omega
      rw [this]
    have hB : B (-((k : Nat) : Int)) = 10 ^ k := by unfold B; simp
    rw [hT, hB, Nat.one_mul]
    refine ⟨s1, ?_⟩
    have hprev := s2 (k - 1) (by omega)
    have hk' : 10 ^ k = 10 * 10 ^ (k - 1) := by
      have : k = (k - 1) + 1 := by omega
      rw [this, Nat.pow_succ, Nat.mul_comm]; simp
    have : num * 10 ^ k = 10 * (num * 10 ^ (k - 1)) := by rw [hk']; grind
    omega


/-! ### sprintf("%.*e") as exact arithmetic -/

/-- the rounded su at scale `s` -/
def Rs (vn vd : Nat) (s : Int) : Nat := roundHalfEven (Ns vn s) (Ds vd s)

theorem pow_succ_ten (p : Nat) (hp : 1 ≤ p) : 10 ^ p = 10 * 10 ^ (p - 1) := by
  have : p = (p - 1) + 1 := by omega
  rw [this, Nat.pow_succ, Nat.mul_comm]; simp

/-- with `x0 = ⌊log₁₀ su⌋` and `s0 = p − 1 − x0`: `10^(p−1) ≤ su·10^s0 < 10^p` -/
theorem s0_bounds (vn vd p : Nat) (hvn : 0 < vn) (hvd : 0 < vd) (hp : 1 ≤ p) (hfuel : vd ≤ vn * 10 ^ 400) :
    10 ^ (p - 1) * Ds vd (((p - 1 : Nat) : Int) - flog10Rat vn vd) ≤ Ns vn (((p - 1 : Nat) : Int) - flog10Rat vn vd) ∧
    Ns vn (((p - 1 : Nat) : Int) - flog10Rat vn vd) < 10 ^ p * Ds vd (((p - 1 : Nat) : Int) - flog10Rat vn vd) := by
  obtain ⟨f1, f2⟩ := flog10Rat_spec vn vd hvn hvd hfuel
  generalize flog10Rat vn vd = x0 at *
  generalize hs0 : ((p - 1 : Nat) : Int) - x0 = s0
  have law := TB_add s0 x0
  have hsum : s0 + x0 = ((p - 1 : Nat) : Int) := by omega
  have hT : T ((p - 1 : Nat) : Int) = 10 ^ (p - 1) := by unfold T; simp
  have hB : B ((p - 1 : Nat) : Int) = 1 := by
    unfold B
    have : (-((p - 1 : Nat) : Int)).toNat = 0 := by omega
    rw [this]
  rw [hsum, hT, hB, Nat.mul_one] at law
  -- law : 10 ^ (p - 1) * B s0 * B x0 = T s0 * T x0
  unfold Ns Ds
  have hBx := B_pos x0
  constructor
  · apply Nat.le_of_mul_le_mul_right (c := B x0) _ hBx
    calc 10 ^ (p - 1) * (vd * B s0) * B x0 = vd * (10 ^ (p - 1) * B s0 * B x0) := by grind
      _ = (T x0 * vd) * T s0 := by rw [law]; grind
      _ ≤ (vn * B x0) * T s0 := Nat.mul_le_mul_right _ f1
      _ = vn * T s0 * B x0 := by grind
  · apply Nat.lt_of_mul_lt_mul_right (a := B x0)
    calc vn * T s0 * B x0 = (vn * B x0) * T s0 := by grind
      _ < (10 * (T x0 * vd)) * T s0 := Nat.mul_lt_mul_of_pos_right f2 (T_pos s0)
      _ = 10 * vd * (T s0 * T x0) := by grind
      _ = 10 * vd * (10 ^ (p - 1) * B s0 * B x0) := by rw [law]
      _ = 10 ^ p * (vd * B s0) * B x0 := by rw [pow_succ_ten p hp]; grind

/-- what `sciDigits` delivers, in terms of the rounded su at the scale of its last digit `scale0 = p − 1 − x` -/
theorem sciDigits_spec (vn vd p : Nat) (hvn : 0 < vn) (hvd : 0 < vd) (hp : 1 ≤ p) (hfuel : vd ≤ vn * 10 ^ 400) :
    (sciDigits vn vd p).1 = Rs vn vd (-(sciDigits vn vd p).2 + ((p : Nat) : Int) - 1) ∧
    Ns vn (-(sciDigits vn vd p).2 + ((p : Nat) : Int) - 1) < 10 ^ p * Ds vd (-(sciDigits vn vd p).2 + ((p : Nat) : Int) - 1) ∧
    10 ^ p ≤ Rs vn vd (-(sciDigits vn vd p).2 + ((p : Nat) : Int) - 1 + 1) := by
  obtain ⟨b1, b2⟩ := s0_bounds vn vd p hvn hvd hp hfuel
  unfold sciDigits
  simp only
  generalize hx0 : flog10Rat vn vd = x0 at *
  -- the fraction the model rounds is the su at scale s0
  have hs0 : ((p - 1 : Nat) : Int) - x0 = -(x0 - ((p - 1 : Nat) : Int)) := by omega
  have hn' : (if x0 - ((p - 1 : Nat) : Int) ≥ 0 then vn else vn * pow10 (-(x0 - ((p - 1 : Nat) : Int))).toNat)
      = Ns vn (((p - 1 : Nat) : Int) - x0) := by
    unfold Ns T pow10
    by_cases h : x0 - ((p - 1 : Nat) : Int) ≥ 0
    · rw [if_pos h]
      have : (((p - 1 : Nat) : Int) - x0).toNat = 0 := by omega
      rw [this]; simp
    · rw [if_neg h, hs0]
  have hd' : (if x0 - ((p - 1 : Nat) : Int) ≥ 0 then vd * pow10 (x0 - ((p - 1 : Nat) : Int)).toNat else vd)
      = Ds vd (((p - 1 : Nat) : Int) - x0) := by
    unfold Ds B pow10
    by_cases h : x0 - ((p - 1 : Nat) : Int) ≥ 0
    · rw [if_pos h]
      have : (-(((p - 1 : Nat) : Int) - x0)) = x0 - ((p - 1 : Nat) : Int) := by omega
      rw [this]
    · rw [if_neg h]
      have : (-(((p - 1 : Nat) : Int) - x0)).toNat = 0 := by omega
      rw [this]; simp
  rw [hn', hd', rhe_eq_spec]
  generalize hs : ((p - 1 : Nat) : Int) - x0 = s0 at *
  have hd0 := Ds_pos vd s0 hvd
  have hpow := pow_succ_ten p hp
  have hh1 : 1 ≤ 10 ^ (p - 1) := Nat.pow_pos (by decide)
  by_cases hz : roundHalfEven (Ns vn s0) (Ds vd s0) = pow10 p
  · -- the rounding carried into the next decade
    rw [if_pos hz]
    simp only
    unfold pow10 at hz ⊢
    have hsc : -(x0 + 1) + ((p : Nat) : Int) - 1 = s0 - 1 := by omega
    rw [hsc]
    have hlaw := step_law vn vd (s0 - 1)
    have e1 : s0 - 1 + 1 = s0 := by omega
    rw [e1] at hlaw ⊢
    have hdm := Ds_pos vd (s0 - 1) hvd
    have up : Ns vn (s0 - 1) < 10 ^ (p - 1) * Ds vd (s0 - 1) :=
      down_lt _ _ _ _ (10 ^ (p - 1)) hdm hlaw (by rw [← hpow]; exact b2)
    have hhalf := half_le_of_rhe_eq _ _ _ hd0 hz
    rw [hpow] at hhalf
    have lo := down_half _ _ _ _ (10 ^ (p - 1)) hdm hd0 hh1 hlaw hhalf
    refine ⟨?_, ?_, ?_⟩
    · unfold Rs
      have r1 := rhe_le_of_lt _ _ _ hdm up
      have r2 := rhe_ge_of_half_lt _ _ _ hdm hh1 lo
      omega
    · have : 10 ^ (p - 1) * Ds vd (s0 - 1) ≤ 10 ^ p * Ds vd (s0 - 1) :=
        Nat.mul_le_mul_right _ (Nat.pow_le_pow_right (by decide) (by omega))
      omega
    · unfold Rs; rw [hz]; exact Nat.le_refl _
  · rw [if_neg hz]
    simp only
    have hsc : -x0 + ((p : Nat) : Int) - 1 = s0 := by omega
    rw [hsc]
    refine ⟨rfl, b2, ?_⟩
    unfold Rs
    have hlaw := step_law vn vd s0
    have := up_ge _ _ _ _ (10 ^ (p - 1)) hd0 hlaw b1
    rw [← hpow] at this
    exact rhe_ge_of_le _ _ _ (Ds_pos vd (s0 + 1) hvd) this


/-! ### the scale rule -/

theorem pow1074_le : (2 : Nat) ^ 1074 ≤ 10 ^ 400 := by decide +kernel

theorem ratOfBin_pos (m : Nat) (e : Int) (hm : m ≠ 0) (he : -1074 ≤ e) :
    0 < (ratOfBin m e).1 ∧ 0 < (ratOfBin m e).2 ∧ (ratOfBin m e).2 ≤ (ratOfBin m e).1 * 10 ^ 400 := by
  unfold ratOfBin pow2
  have hmpos : 0 < m := by omega
  have h400 : 0 < 10 ^ 400 := Nat.pow_pos (by decide)
  by_cases h : e ≥ 0
  · rw [if_pos h]
    simp only
    have h1 : 0 < m * 2 ^ e.toNat := Nat.mul_pos hmpos (Nat.two_pow_pos _)
    exact ⟨h1, by decide, Nat.mul_pos h1 h400⟩
  · rw [if_neg h]
    simp only
    refine ⟨hmpos, Nat.two_pow_pos _, ?_⟩
    have h1 : 2 ^ (-e).toNat ≤ 2 ^ 1074 := Nat.pow_le_pow_right (by decide) (by omega)
    have h2 : 1 * 10 ^ 400 ≤ m * 10 ^ 400 := Nat.mul_le_mul_right _ hmpos
    have := pow1074_le
    omega

/-- **the su rule**: the scale chosen by `autoScale` is the largest whose rounded su does not exceed the rule -/
theorem autoScale_largest (su : Bin) (rule : Nat) (hm : su.m ≠ 0) (he : -1074 ≤ su.e) (hr : 2 ≤ rule) :
    Rs (ratOfBin su.m su.e).1 (ratOfBin su.m su.e).2 (autoScale su rule) ≤ rule ∧
    rule < Rs (ratOfBin su.m su.e).1 (ratOfBin su.m su.e).2 (autoScale su rule + 1) := by
  obtain ⟨hvn, hvd, hfuel⟩ := ratOfBin_pos su.m su.e hm he
  have hp := decDigits_length_pos rule
  have hlt := decDigits_lt_pow rule
  have hge := decDigits_ge_pow rule (by omega)
  obtain ⟨c0, c1, c2⟩ := sciDigits_spec _ _ (decDigits rule).length hvn hvd hp hfuel
  unfold autoScale
  generalize (ratOfBin su.m su.e).1 = vn at *
  generalize (ratOfBin su.m su.e).2 = vd at *
  generalize (decDigits rule).length = p at *
  generalize hsc : -(sciDigits vn vd p).2 + ((p : Nat) : Int) - 1 = scale0 at *
  by_cases hgt : (sciDigits vn vd p).1 > rule
  · rw [if_pos hgt]
    have e1 : scale0 - 1 + 1 = scale0 := by omega
    rw [e1]
    constructor
    · have hlaw := step_law vn vd (scale0 - 1)
      rw [e1] at hlaw
      have hdm := Ds_pos vd (scale0 - 1) hvd
      have up : Ns vn (scale0 - 1) < 10 ^ (p - 1) * Ds vd (scale0 - 1) :=
        down_lt _ _ _ _ (10 ^ (p - 1)) hdm hlaw (by rw [← pow_succ_ten p hp]; exact c1)
      have := rhe_le_of_lt _ _ _ hdm up
      unfold Rs
      omega
    · rw [← c0]; exact hgt
  · rw [if_neg hgt]
    constructor
    · rw [← c0]; omega
    · omega

end CifModel.Lemmas.NumbAutoinit
