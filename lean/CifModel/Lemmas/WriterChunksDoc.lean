import CifModel.Lemmas.WriterChunksVal
/-
  Lemmas/WriterChunksDoc — packets, loop headers, loops, save frames, data blocks and the whole `cif_write` as chunks: the
  units written are the rendering of chunks whose tokens are the tokens of an abstract document (`Spec.Grammar`) built from the
  CIF as walked, with one `Val` per value written.
-/
set_option linter.unusedSimpArgs false
set_option linter.unusedVariables false
set_option maxRecDepth 8000

namespace CifModel.Lemmas.WriterChunks
open CifModel CifModel.Model CifModel.Model.Writer CifModel.Model.Lexer CifModel.Spec.Lexical CifModel.Spec.Grammar
open CifModel.Lemmas.LexGlue CifModel.Lemmas.WriterLex CifModel.Lemmas.WriterLines

/-! ### the abstract document of a walked CIF, given the values' presentations -/

/-- two lists related elementwise -/
inductive All2 {α β : Type} (R : α → β → Prop) : List α → List β → Prop
  | nil : All2 R [] []
  | cons {a : α} {b : β} {as : List α} {bs : List β} (h : R a b) (t : All2 R as bs) : All2 R (a :: as) (b :: bs)

/-- the scalar items of one packet -/
def mkItems (p : List (Str × V)) (vals : List Val) : List Item := List.zipWith (fun nv val => Item.item nv.1 val) p vals

/-- `vals` present the values of packet `p`: one well-formed `Val` per value, denoting it -/
def packetOk (o : Parser.Opts) (p : List (Str × V)) (vals : List Val) : Prop :=
  vals.length = p.length ∧ Parser.wfVals o vals = true ∧ backVs (p.map (·.2)) (denoteVals o.dia o.normKey vals)

/-- the items a loop is written as: the scalar loop as `name value` pairs, any other loop as `loop_` -/
def loopItems (l : WLoop) (valss : List (List Val)) : List Item :=
  if isScalars l.category then mkItems (l.packets.headD []) (valss.headD []) else [.loop l.header valss]

/-- `its` are the items of the loops, for some presentation of every value -/
def LoopsRel (o : Parser.Opts) : List WLoop → List Item → Prop
  | [], its => its = []
  | l :: r, its => ∃ valss its', All2 (packetOk o) l.packets valss ∧ its = loopItems l valss ++ its' ∧ LoopsRel o r its'

theorem itemsToks_append (a b : List Item) : itemsToks (a ++ b) = itemsToks a ++ itemsToks b := by
  induction a with
  | nil => rfl
  | cons i r ih => simp [itemsToks, ih]

/-! ### what is asked of the CIF as walked -/

/-- the items of a packet: values as `valueR`; names (when they are written) as `nameR` -/
def itemsR (dia : Dialect) (nk : Str → Str) (named : Bool) (p : List (Str × V)) : Prop :=
  ∀ nv ∈ p, valueR dia nk nv.2 ∧ (named = true → nameR dia nv.1)

/-- a loop: the scalar loop has exactly one packet; header names as `nameR`; packets as `itemsR` -/
def loopR (dia : Dialect) (nk : Str → Str) (l : WLoop) : Prop :=
  (isScalars l.category = true → ∃ p, l.packets = [p]) ∧ (isScalars l.category = false → ∀ n ∈ l.header, nameR dia n)
    ∧ ∀ p ∈ l.packets, itemsR dia nk (isScalars l.category) p

/-- what the loops and containers leave in the context -/
def KeepL (c c' : Ctx) : Prop := c'.separateValues = c.separateValues ∧ c'.depth = c.depth ∧ c'.version = c.version

theorem KeepL.refl (c : Ctx) : KeepL c c := ⟨rfl, rfl, rfl⟩
theorem KeepL.trans {a b c : Ctx} (h1 : KeepL a b) (h2 : KeepL b c) : KeepL a c :=
  ⟨h2.1.trans h1.1, h2.2.1.trans h1.2.1, h2.2.2.trans h1.2.2⟩
theorem Keep.toL {a b : Ctx} (h : Keep a b) : KeepL a b := ⟨h.1, h.2.2.1, h.2.2.2⟩
theorem KeepL.dia {o : Parser.Opts} {a b : Ctx} (hd : o.dia = diaOf a) (h : KeepL a b) : o.dia = diaOf b := by
  rw [hd]; unfold diaOf Ctx.isCif1; rw [h.2.2]

theorem plain_eol : plainWs [WsAtom.eol] := by intro x hx; simp at hx; exact Or.inr hx

/-- a line break, from any state -/
theorem mach_eol (dia : Dialect) (c : Ctx) : Mach dia (A dia c) [.ws [.eol]] (AS dia) :=
  (mach_ws dia [.eol] plain_eol (by simp)).weaken (fun _ _ h => h.1) (fun _ _ h => h)

theorem mach_eol' (dia : Dialect) : Mach dia (wOk dia) [.ws [.eol]] (AS dia) := mach_ws dia [.eol] plain_eol (by simp)

/-! ### packets -/

theorem items_chunks (o : Parser.Opts) (hun : o.unfold = true) (hpr : o.prem = true) : ∀ (p : List (Str × V)) (c : Ctx) (out : Str) (c' : Ctx),
    o.dia = diaOf c → c.lastColumn ≤ LINE → c.separateValues = true → itemsR o.dia o.normKey c.writeItemNames p →
    writeItems p c = .ok (out, c') →
    c'.lastColumn ≤ LINE ∧ Keep c c' ∧
    ∃ vals cs, packetOk o p vals ∧ out = renderChunks cs
      ∧ toks cs = (if c.writeItemNames then itemsToks (mkItems p vals) else valsToks vals)
      ∧ Mach o.dia (A o.dia c) cs (A o.dia c') := by
  intro p
  induction p with
  | nil =>
    intro c out c' _ hcol _ _ h
    simp only [writeItems, Except.ok.injEq, Prod.mk.injEq] at h
    obtain ⟨rfl, rfl⟩ := h
    refine ⟨hcol, Keep.refl c, [], [], ⟨rfl, rfl, by simp [denoteVals, backVs]⟩, rfl, ?_, Mach.nil _ _⟩
    cases c.writeItemNames <;> rfl
  | cons nv rest ih =>
    intro c out c' hd hcol hsv hR h
    obtain ⟨n, v⟩ := nv
    simp only [writeItems] at h
    obtain ⟨o1, c1, o2, hitem, hrest, rfl⟩ := andThen_ok h
    have hnv := hR (n, v) (by simp)
    obtain ⟨hc1, hk1, val, cs1, hr1, ht1, hw1, hb1, hm1⟩ := item_chunks o hun hpr n v c o1 c1 hd hcol hnv.2 hnv.1 hitem
    obtain ⟨hc2, hk2, vals, cs2, ⟨hl2, hw2, hb2⟩, hr2, ht2, hm2⟩ := ih c1 o2 c' (keep_dia hd hk1) hc1 (by rw [hk1.1, hsv])
      (by rw [hk1.2.1]; exact fun x hx => hR x (by simp [hx])) hrest
    refine ⟨hc2, hk1.trans hk2, val :: vals, cs1 ++ cs2, ⟨by simp [hl2], by simp [Parser.wfVals, hw1, hw2], ?_⟩,
      by rw [renderChunks_append, hr1, hr2], ?_, (hm1.weaken (fun lt w h => preItem_of_A c hsv h) (fun _ _ h => h)).append hm2⟩
    · exact ⟨_, _, by simp [denoteVals], hb1, hb2⟩
    · rw [toks_append, ht1, ht2, hk1.2.1]
      cases c.writeItemNames
      · simp [valsToks]
      · simp [mkItems, itemsToks, itemToks]

theorem packet_chunks (o : Parser.Opts) (hun : o.unfold = true) (hpr : o.prem = true) (p : List (Str × V)) (c : Ctx) (out : Str) (c' : Ctx)
    (hd : o.dia = diaOf c) (hcol : c.lastColumn ≤ LINE) (hsv : c.separateValues = true)
    (hR : itemsR o.dia o.normKey c.writeItemNames p) (h : writePacket p c = .ok (out, c')) :
    c'.lastColumn = 0 ∧ Keep c c' ∧
    ∃ vals cs, packetOk o p vals ∧ out = renderChunks cs
      ∧ toks cs = (if c.writeItemNames then itemsToks (mkItems p vals) else valsToks vals)
      ∧ Mach o.dia (A o.dia c) cs (AS o.dia) := by
  unfold writePacket at h
  obtain ⟨o1, c1, o2, hitems, hnl, rfl⟩ := andThen_ok h
  simp only [writeNewline, Except.ok.injEq, Prod.mk.injEq] at hnl
  obtain ⟨rfl, rfl⟩ := hnl
  obtain ⟨hc1, hk1, vals, cs, hp, hr, ht, hm⟩ := items_chunks o hun hpr p c o1 c1 hd hcol hsv hR hitems
  refine ⟨rfl, hk1.trans (keep_col _ _), vals, cs ++ [.ws [.eol]], hp, ?_, ?_, hm.append (mach_eol _ _)⟩
  · rw [renderChunks_append, hr]; rfl
  · rw [toks_append, ht]; simp [toks]

theorem packets_chunks (o : Parser.Opts) (hun : o.unfold = true) (hpr : o.prem = true) : ∀ (ps : List (List (Str × V))) (c : Ctx)
    (out : Str) (c' : Ctx), o.dia = diaOf c → c.lastColumn ≤ LINE → c.separateValues = true → c.writeItemNames = false →
    (∀ p ∈ ps, itemsR o.dia o.normKey false p) → writePackets ps c = .ok (out, c') →
    c'.lastColumn ≤ LINE ∧ Keep c c' ∧
    ∃ valss cs, All2 (packetOk o) ps valss ∧ out = renderChunks cs ∧ toks cs = packetsToks valss
      ∧ Mach o.dia (A o.dia c) cs (A o.dia c') := by
  intro ps
  induction ps with
  | nil =>
    intro c out c' _ hcol _ _ _ h
    simp only [writePackets, Except.ok.injEq, Prod.mk.injEq] at h
    obtain ⟨rfl, rfl⟩ := h
    exact ⟨hcol, Keep.refl c, [], [], All2.nil, rfl, rfl, Mach.nil _ _⟩
  | cons p rest ih =>
    intro c out c' hd hcol hsv hnm hR h
    simp only [writePackets] at h
    obtain ⟨o1, c1, o2, hp, hrest, rfl⟩ := andThen_ok h
    obtain ⟨hz1, hk1, vals, cs1, hp1, hr1, ht1, hm1⟩ := packet_chunks o hun hpr p c o1 c1 hd hcol hsv
      (by rw [hnm]; exact hR p (by simp)) hp
    obtain ⟨hc2, hk2, valss, cs2, hp2, hr2, ht2, hm2⟩ := ih c1 o2 c' (keep_dia hd hk1) (by omega) (by rw [hk1.1, hsv])
      (by rw [hk1.2.1, hnm]) (fun q hq => hR q (by simp [hq])) hrest
    refine ⟨hc2, hk1.trans hk2, vals :: valss, cs1 ++ cs2, All2.cons hp1 hp2, by rw [renderChunks_append, hr1, hr2], ?_,
      hm1.append (hm2.weaken (fun lt w h => A_of_AS c1 h) (fun _ _ h => h))⟩
    rw [toks_append, ht1, ht2, hnm]; simp [packetsToks]

/-! ### loop headers -/

theorem header_chunks (dia : Dialect) : ∀ (ns : List Str) (c : Ctx) (out : Str) (c' : Ctx), (∀ n ∈ ns, nameR dia n) →
    writeHeaderNames ns c = .ok (out, c') →
    (c.lastColumn = 0 → c'.lastColumn = 0) ∧ Keep c c' ∧
    ∃ cs, out = renderChunks cs ∧ toks cs = ns.map (fun n => (TokType.name, n)) ∧ Mach dia (AS dia) cs (AS dia) := by
  intro ns
  induction ns with
  | nil =>
    intro c out c' _ h
    simp only [writeHeaderNames, Except.ok.injEq, Prod.mk.injEq] at h
    obtain ⟨rfl, rfl⟩ := h
    exact ⟨fun h => h, Keep.refl c, [], rfl, rfl, Mach.nil _ _⟩
  | cons n rest ih =>
    intro c out c' hR h
    simp only [writeHeaderNames] at h
    split at h
    · cases h
    · obtain ⟨o1, c1, o2, hline, hrest, rfl⟩ := andThen_ok h
      simp only [Except.ok.injEq, Prod.mk.injEq] at hline
      obtain ⟨rfl, rfl⟩ := hline
      obtain ⟨hz, hk, cs, hr, ht, hm⟩ := ih _ o2 c' (fun x hx => hR x (by simp [hx])) hrest
      have hn := hR n (by simp)
      refine ⟨fun _ => hz rfl, (keep_col c 0).trans hk,
        [.ws (if Writer.countChar32 n < LINE then [WsAtom.blank 32] else []), .tk (.name n)] ++ ([.ws [.eol]] ++ cs), ?_, ?_, ?_⟩
      · rw [renderChunks_append, renderChunks_append, ← hr]
        by_cases hi : Writer.countChar32 n < LINE
        · simp [hi, renderChunks, renderWs, WsAtom.render, Tk.chars]
        · simp [hi, renderChunks, renderWs, WsAtom.render, Tk.chars]
      · rw [toks_append, toks_append, ht]; simp [toks, Tk.spec]
      · refine ((mach_wtk dia _ (.name n) ?_ hn.1 (by intro h; cases h)).weaken ?_ (fun _ _ h => h)).append
          (((mach_eol' dia).weaken ?_ (fun _ _ h => h)).append hm)
        · intro x hx
          split at hx
          · simp only [List.mem_singleton] at hx; exact Or.inl hx
          · cases hx
        · intro lt w hw
          refine ⟨hw.1, Or.inr ?_⟩
          rcases hw.2 with h | h
          · exact Or.inl h
          · exact Or.inr (by simp [adjOk, h])
        · intro lt w hw
          obtain ⟨_, rfl⟩ := hw
          exact wOk_nil dia lt

/-! ### loops -/

theorem loop_chunks (o : Parser.Opts) (hun : o.unfold = true) (hpr : o.prem = true) (l : WLoop) (c : Ctx) (out : Str) (c' : Ctx)
    (hd : o.dia = diaOf c) (hsv : c.separateValues = true) (hR : loopR o.dia o.normKey l) (h : writeLoop l c = .ok (out, c')) :
    c'.lastColumn = 0 ∧ KeepL c c' ∧
    ∃ valss cs, All2 (packetOk o) l.packets valss ∧ out = renderChunks cs ∧ toks cs = itemsToks (loopItems l valss)
      ∧ Mach o.dia (A o.dia c) cs (AS o.dia) := by
  obtain ⟨hR1, hR2, hR3⟩ := hR
  unfold writeLoop at h
  simp only at h
  obtain ⟨o1, c1, o2, hstart, hrest, rfl⟩ := andThen_ok h
  split at hrest
  · cases hrest
  obtain ⟨o3, c2, o4, hpackets, hnl, rfl⟩ := andThen_ok hrest
  simp only [writeNewline, Except.ok.injEq, Prod.mk.injEq] at hnl
  obtain ⟨rfl, rfl⟩ := hnl
  cases hs : isScalars l.category with
  | true =>
    simp only [hs, if_true, writeNewline, Except.ok.injEq, Prod.mk.injEq] at hstart
    obtain ⟨rfl, rfl⟩ := hstart
    obtain ⟨p, hp⟩ := hR1 hs
    rw [hp] at hpackets
    simp only [writePackets] at hpackets
    obtain ⟨o5, c3, o6, hpk, hnil, rfl⟩ := andThen_ok hpackets
    simp only [Except.ok.injEq, Prod.mk.injEq] at hnil
    obtain ⟨rfl, rfl⟩ := hnil
    obtain ⟨hz, hk, vals, cs, hpok, hr, ht, hm⟩ := packet_chunks o hun hpr p { c with lastColumn := 0, writeItemNames := true } o5 c3
      (by have := hd; exact this) (by show 0 ≤ LINE; omega) hsv
      (by have := hR3 p (by rw [hp]; simp); rw [hs] at this; exact this) hpk
    refine ⟨rfl, ⟨by simp only; rw [hk.1], by simp only; rw [hk.2.2.1], by simp only; rw [hk.2.2.2]⟩, [vals],
      [.ws [.eol]] ++ (cs ++ [.ws [.eol]]), by rw [hp]; exact All2.cons hpok All2.nil, ?_, ?_, ?_⟩
    · rw [renderChunks_append, renderChunks_append, ← hr]; simp [renderChunks, renderWs, WsAtom.render]
    · rw [toks_append, toks_append, ht]
      simp [toks, loopItems, hs, hp]
    · exact (mach_eol _ _).append ((hm.weaken (fun lt w h => A_of_AS _ h) (fun _ _ h => h)).append
        ((mach_eol' _).weaken (fun _ _ h => h.1) (fun _ _ h => h)))
  | false =>
    simp only [hs, Bool.false_eq_true, if_false] at hstart
    obtain ⟨o5, c3, o6, hkw, hnames, rfl⟩ := andThen_ok hstart
    simp only [Except.ok.injEq, Prod.mk.injEq] at hkw
    obtain ⟨rfl, rfl⟩ := hkw
    obtain ⟨hz1, hk1, cs1, hr1, ht1, hm1⟩ := header_chunks o.dia l.header _ o6 c1 (hR2 hs) hnames
    have hc1 : c1.lastColumn = 0 := hz1 rfl
    obtain ⟨hc2, hk2, valss, cs2, hpok, hr2, ht2, hm2⟩ := packets_chunks o hun hpr l.packets c1 o3 c2
      (by rw [hd]; unfold diaOf Ctx.isCif1; rw [hk1.2.2.2]) (by omega) (by rw [hk1.1]; exact hsv) (by rw [hk1.2.1])
      (fun p hp => by have := hR3 p hp; rw [hs] at this; exact this) hpackets
    refine ⟨rfl, ⟨by simp only; rw [hk2.1, hk1.1], by simp only; rw [hk2.2.2.1, hk1.2.2.1], by simp only; rw [hk2.2.2.2, hk1.2.2.2]⟩,
      valss, [.ws [.eol], .tk .loopKw, .ws [.eol]] ++ (cs1 ++ (cs2 ++ [.ws [.eol]])), hpok, ?_, ?_, ?_⟩
    · rw [renderChunks_append, renderChunks_append, renderChunks_append, ← hr1, ← hr2]
      simp [renderChunks, renderWs, WsAtom.render, Tk.chars, LOOP_HEAD]
    · rw [toks_append, toks_append, toks_append, ht1, ht2]
      simp [toks, Tk.spec, loopItems, hs, itemsToks, itemToks]
    · have hkw : Mach o.dia (A o.dia c) [.ws [.eol], .tk .loopKw, .ws [.eol]] (AS o.dia) := by
        have h1 := (mach_wtk o.dia [.eol] .loopKw plain_eol rfl (by intro h; cases h)).weaken
          (P' := A o.dia c) (Q' := wOk o.dia) (fun lt w h => ⟨h.1, Or.inl (by simp)⟩)
          (fun lt w h => by obtain ⟨_, rfl⟩ := h; exact wOk_nil _ _)
        exact h1.append (mach_eol' _)
      exact hkw.append (hm1.append ((hm2.weaken (fun lt w h => A_of_AS _ h) (fun _ _ h => h)).append
        ((mach_eol' _).weaken (fun _ _ h => h.1) (fun _ _ h => h))))

theorem loops_chunks (o : Parser.Opts) (hun : o.unfold = true) (hpr : o.prem = true) : ∀ (ls : List WLoop) (c : Ctx) (out : Str) (c' : Ctx),
    o.dia = diaOf c → c.separateValues = true → (∀ l ∈ ls, loopR o.dia o.normKey l) → writeLoops ls c = .ok (out, c') →
    (c.lastColumn = 0 → c'.lastColumn = 0) ∧ KeepL c c' ∧
    ∃ its cs, LoopsRel o ls its ∧ out = renderChunks cs ∧ toks cs = itemsToks its ∧ Mach o.dia (AS o.dia) cs (AS o.dia) := by
  intro ls
  induction ls with
  | nil =>
    intro c out c' _ _ _ h
    simp only [writeLoops, Except.ok.injEq, Prod.mk.injEq] at h
    obtain ⟨rfl, rfl⟩ := h
    exact ⟨fun h => h, KeepL.refl c, [], [], rfl, rfl, rfl, Mach.nil _ _⟩
  | cons l rest ih =>
    intro c out c' hd hsv hR h
    simp only [writeLoops] at h
    obtain ⟨o1, c1, o2, hl, hrest, rfl⟩ := andThen_ok h
    obtain ⟨hz1, hk1, valss, cs1, hp1, hr1, ht1, hm1⟩ := loop_chunks o hun hpr l c o1 c1 hd hsv (hR l (by simp)) hl
    obtain ⟨hz2, hk2, its, cs2, hrel, hr2, ht2, hm2⟩ := ih c1 o2 c' (hk1.dia hd) (by rw [hk1.1, hsv])
      (fun x hx => hR x (by simp [hx])) hrest
    refine ⟨fun _ => hz2 hz1, hk1.trans hk2, loopItems l valss ++ its, cs1 ++ cs2, ⟨valss, its, hp1, rfl, hrel⟩,
      by rw [renderChunks_append, hr1, hr2], by rw [toks_append, ht1, ht2, itemsToks_append],
      (hm1.weaken (fun lt w h => A_of_AS c h) (fun _ _ h => h)).append hm2⟩

/-! ### save frames, data blocks -/

/-- a block or frame code: non-empty, allowed non-blank characters -/
def codeR (dia : Dialect) (code : Str) : Prop := (Tk.data code).ok dia = true

mutual
  /-- `e` is the save frame `k` — its save frames first, then its items —, for some presentation of every value -/
  def FrameRel (o : Parser.Opts) : WContainer → Elem → Prop
    | .mk code frames loops, e =>
      ∃ es its, FramesRel o frames es ∧ LoopsRel o loops its ∧ e = .frame code (es ++ its.map Elem.plain)
  /-- `es` are the save frames, in order -/
  def FramesRel (o : Parser.Opts) : List WContainer → List Elem → Prop
    | [], es => es = []
    | k :: r, es => ∃ e es', FrameRel o k e ∧ es = e :: es' ∧ FramesRel o r es'
end

/-- `b` is the data block, for some presentation of every value: frames first, then the items -/
def BlockRel (o : Parser.Opts) (k : WContainer) (b : Block) : Prop :=
  ∃ code frames loops elems its, k = .mk code frames loops ∧ FramesRel o frames elems ∧ LoopsRel o loops its
    ∧ b = { code := code, body := elems ++ its.map Elem.plain }

mutual
  /-- what is asked of a save frame (and of the save frames inside it) -/
  def frameR (dia : Dialect) (nk : Str → Str) : WContainer → Prop
    | .mk code frames loops => codeR dia code ∧ framesR dia nk frames ∧ ∀ l ∈ loops, loopR dia nk l
  def framesR (dia : Dialect) (nk : Str → Str) : List WContainer → Prop
    | [] => True
    | k :: r => frameR dia nk k ∧ framesR dia nk r
end

theorem framesR_iff (dia : Dialect) (nk : Str → Str) : ∀ fs : List WContainer, framesR dia nk fs ↔ ∀ f ∈ fs, frameR dia nk f
  | [] => by simp [framesR]
  | k :: r => by simp [framesR, framesR_iff dia nk r]

/-- what is asked of a data block -/
def blockR (dia : Dialect) (nk : Str → Str) (k : WContainer) : Prop :=
  ∃ code frames loops, k = .mk code frames loops ∧ codeR dia code ∧ (∀ f ∈ frames, frameR dia nk f) ∧ ∀ l ∈ loops, loopR dia nk l

theorem elemsToks_append (a b : List Elem) : elemsToks (a ++ b) = elemsToks a ++ elemsToks b := by
  induction a with
  | nil => rfl
  | cons i r ih => simp [elemsToks, ih]

theorem elemsToks_plain (its : List Item) : elemsToks (its.map Elem.plain) = itemsToks its := by
  induction its with
  | nil => rfl
  | cons i r ih => simp [elemsToks, elemToks, itemsToks, ih]

theorem head_frame (dia : Dialect) (code : Str) (hc : codeR dia code) :
    Mach dia (wOk dia) [.ws [.eol], .tk (.save code), .ws [.eol]] (AS dia) := by
  have h1 := (mach_wtk dia [.eol] (.save code) plain_eol hc (by intro h; cases h)).weaken
    (P' := wOk dia) (Q' := wOk dia) (fun lt w h => ⟨h, Or.inl (by simp)⟩)
    (fun lt w h => by obtain ⟨_, rfl⟩ := h; exact wOk_nil _ _)
  exact h1.append (mach_eol' _)

theorem head_block (dia : Dialect) (code : Str) (hc : codeR dia code) :
    Mach dia (wOk dia) [.ws [.eol], .tk (.data code), .ws [.eol]] (AS dia) := by
  have h1 := (mach_wtk dia [.eol] (.data code) plain_eol hc (by intro h; cases h)).weaken
    (P' := wOk dia) (Q' := wOk dia) (fun lt w h => ⟨h, Or.inl (by simp)⟩)
    (fun lt w h => by obtain ⟨_, rfl⟩ := h; exact wOk_nil _ _)
  exact h1.append (mach_eol' _)

theorem tail_frame (dia : Dialect) : Mach dia (wOk dia) [.ws [.eol], .tk .saveEnd, .ws [.eol]] (AS dia) := by
  have h1 := (mach_wtk dia [.eol] .saveEnd plain_eol rfl (by intro h; cases h)).weaken
    (P' := wOk dia) (Q' := wOk dia) (fun lt w h => ⟨h, Or.inl (by simp)⟩)
    (fun lt w h => by obtain ⟨_, rfl⟩ := h; exact wOk_nil _ _)
  exact h1.append (mach_eol' _)

mutual
theorem frame_chunks (o : Parser.Opts) (hun : o.unfold = true) (hpr : o.prem = true) : ∀ (k : WContainer) (c : Ctx)
    (out : Str) (c' : Ctx), 1 ≤ c.depth → o.dia = diaOf c → c.separateValues = true → frameR o.dia o.normKey k →
    writeContainer k c = .ok (out, c') →
    c'.lastColumn = 0 ∧ KeepL c c' ∧
    ∃ e cs, FrameRel o k e ∧ out = renderChunks cs ∧ toks cs = elemToks e ∧ Mach o.dia (wOk o.dia) cs (AS o.dia)
  | .mk code frames loops, c, out, c', hdepth, hd, hsv, hR, h => by
    simp only [frameR] at hR
    obtain ⟨hcode, hframesR, hloopsR⟩ := hR
    unfold writeContainer at h
    split at h
    · cases h
    simp only at h
    obtain ⟨o1, c1, o2, hhead, hrest, rfl⟩ := andThen_ok h
    simp only [Except.ok.injEq, Prod.mk.injEq] at hhead
    obtain ⟨rfl, rfl⟩ := hhead
    obtain ⟨o3, c2, o4, hframes, hrest2, rfl⟩ := andThen_ok hrest
    obtain ⟨o5, c3, o6, hloops, hend, rfl⟩ := andThen_ok hrest2
    obtain ⟨hz1, hk1, es, cs1, hrel1, hr1, ht1, hm1⟩ := frames_chunks o hun hpr frames { c with lastColumn := 0, depth := c.depth + 1 } o3 c2
      (by simp only; omega) (by have := hd; exact this) hsv ((framesR_iff _ _ _).mp hframesR) hframes
    obtain ⟨hz2, hk2, its, cs2, hrel2, hr2, ht2, hm2⟩ := loops_chunks o hun hpr loops c2 o5 c3 (hk1.dia (by have := hd; exact this))
      (by rw [hk1.1]; exact hsv) hloopsR hloops
    have hdep : ¬ (c3.depth - 1 = 0) := by rw [hk2.2.1, hk1.2.1]; simp only; omega
    simp only [hdep, if_false, Except.ok.injEq, Prod.mk.injEq] at hend
    obtain ⟨rfl, rfl⟩ := hend
    refine ⟨rfl, ⟨by simp only; rw [hk2.1, hk1.1], by simp only; rw [hk2.2.1, hk1.2.1]; simp only; omega,
        by simp only; rw [hk2.2.2, hk1.2.2]⟩,
      .frame code (es ++ its.map Elem.plain),
      [.ws [.eol], .tk (.save code), .ws [.eol]] ++ (cs1 ++ (cs2 ++ [.ws [.eol], .tk .saveEnd, .ws [.eol]])), ?_, ?_, ?_, ?_⟩
    · simp only [FrameRel]
      exact ⟨es, its, hrel1, hrel2, rfl⟩
    · have hne : ¬ (c.depth = 0) := by omega
      rw [renderChunks_append, renderChunks_append, renderChunks_append, ← hr1, ← hr2]
      simp [hne, renderChunks, renderWs, WsAtom.render, Tk.chars, FRAME_HEAD, FRAME_END]
    · rw [toks_append, toks_append, toks_append, ht1, ht2]
      simp [toks, Tk.spec, elemToks, elemsToks_append, elemsToks_plain]
    · exact (head_frame o.dia code hcode).append
        (hm1.append (hm2.append ((tail_frame o.dia).weaken (fun _ _ h => h.1) (fun _ _ h => h))))

theorem frames_chunks (o : Parser.Opts) (hun : o.unfold = true) (hpr : o.prem = true) : ∀ (fs : List WContainer) (c : Ctx)
    (out : Str) (c' : Ctx), 1 ≤ c.depth → o.dia = diaOf c → c.separateValues = true → (∀ f ∈ fs, frameR o.dia o.normKey f) →
    writeContainers fs c = .ok (out, c') →
    (c.lastColumn = 0 → c'.lastColumn = 0) ∧ KeepL c c' ∧
    ∃ es cs, FramesRel o fs es ∧ out = renderChunks cs ∧ toks cs = elemsToks es ∧ Mach o.dia (AS o.dia) cs (AS o.dia)
  | [], c, out, c', _, _, _, _, h => by
    simp only [writeContainers, Except.ok.injEq, Prod.mk.injEq] at h
    obtain ⟨rfl, rfl⟩ := h
    exact ⟨fun h => h, KeepL.refl c, [], [], by simp [FramesRel], rfl, by simp [toks, elemsToks], Mach.nil _ _⟩
  | f :: rest, c, out, c', hdepth, hd, hsv, hR, h => by
    simp only [writeContainers] at h
    obtain ⟨o1, c1, o2, hf, hrest, rfl⟩ := andThen_ok h
    obtain ⟨hz1, hk1, e, cs1, hrel1, hr1, ht1, hm1⟩ := frame_chunks o hun hpr f c o1 c1 hdepth hd hsv (hR f (by simp)) hf
    obtain ⟨hz2, hk2, es, cs2, hrel2, hr2, ht2, hm2⟩ := frames_chunks o hun hpr rest c1 o2 c' (by rw [hk1.2.1]; exact hdepth) (hk1.dia hd)
      (by rw [hk1.1, hsv]) (fun x hx => hR x (by simp [hx])) hrest
    refine ⟨fun _ => hz2 hz1, hk1.trans hk2, e :: es, cs1 ++ cs2, ?_,
      by rw [renderChunks_append, hr1, hr2], by rw [toks_append, ht1, ht2]; simp [elemsToks],
      (hm1.weaken (fun _ _ h => h.1) (fun _ _ h => h)).append hm2⟩
    simp only [FramesRel]
    exact ⟨e, es, hrel1, rfl, hrel2⟩
end

/-- every accepted token has at least one character -/
theorem tk_nonempty {dia : Dialect} {t : Tk} (h : t.ok dia = true) : 0 < t.chars.length := by
  cases t with
  | data code => simp [Tk.chars]
  | save code => simp [Tk.chars]
  | saveEnd => simp [Tk.chars]
  | loopKw => simp [Tk.chars]
  | name n =>
    cases n with
    | nil => simp [Tk.ok] at h
    | cons u s => simp [Tk.chars]
  | val p s =>
    cases p with
    | bare =>
      cases s with
      | nil => simp [Tk.ok, admissible, bareOk] at h
      | cons u r => simp [Tk.chars, renderValue]
    | squote => simp [Tk.chars, renderValue]
    | dquote => simp [Tk.chars, renderValue]
    | tsquote => simp [Tk.chars, renderValue]
    | tdquote => simp [Tk.chars, renderValue]
    | text => simp [Tk.chars, renderValue]
  | key p k => simp [Tk.chars]
  | opn c => simp [Tk.chars]
  | cls c => simp [Tk.chars]

theorem okP_len (dia : Dialect) : ∀ (cs : List Chunk) (lt : TokType) (w : List WsAtom), okP dia lt w cs →
    (toks cs).length ≤ (renderChunks cs).length := by
  intro cs
  induction cs with
  | nil => intro _ _ _; simp [toks, renderChunks]
  | cons x r ih =>
    intro lt w h
    cases x with
    | ws a =>
      have := ih lt (w ++ a) h
      simp only [toks, renderChunks, List.length_append]; omega
    | tk t =>
      obtain ⟨_, hok, _, _, hr⟩ := h
      have := ih _ _ hr
      have := tk_nonempty hok
      simp only [toks, renderChunks, List.length_append, List.length_cons]; omega

theorem block_chunks (o : Parser.Opts) (hun : o.unfold = true) (hpr : o.prem = true) (k : WContainer) (c : Ctx)
    (out : Str) (c' : Ctx) (hdepth : c.depth = 0) (hd : o.dia = diaOf c) (hsv : c.separateValues = true)
    (hR : blockR o.dia o.normKey k) (h : writeContainer k c = .ok (out, c')) :
    c'.lastColumn = 0 ∧ KeepL c c' ∧
    ∃ b cs, BlockRel o k b ∧ out = renderChunks cs ∧ toks cs = blocksToks [b] ∧ Mach o.dia (wOk o.dia) cs (AS o.dia)
      ∧ (toks cs).length + 1 ≤ (renderChunks cs).length := by
  obtain ⟨code, frames, loops, rfl, hcode, hframesR, hloopsR⟩ := hR
  unfold writeContainer at h
  split at h
  · cases h
  simp only at h
  obtain ⟨o1, c1, o2, hhead, hrest, rfl⟩ := andThen_ok h
  simp only [Except.ok.injEq, Prod.mk.injEq] at hhead
  obtain ⟨rfl, rfl⟩ := hhead
  obtain ⟨o3, c2, o4, hframes, hrest2, rfl⟩ := andThen_ok hrest
  obtain ⟨o5, c3, o6, hloops, hend, rfl⟩ := andThen_ok hrest2
  obtain ⟨hz1, hk1, es, cs1, hrel1, hr1, ht1, hm1⟩ := frames_chunks o hun hpr frames { c with lastColumn := 0, depth := c.depth + 1 } o3 c2
    (by simp only; omega) (by have := hd; exact this) hsv hframesR hframes
  obtain ⟨hz2, hk2, its, cs2, hrel2, hr2, ht2, hm2⟩ := loops_chunks o hun hpr loops c2 o5 c3 (hk1.dia (by have := hd; exact this))
    (by rw [hk1.1]; exact hsv) hloopsR hloops
  have hdep : c3.depth - 1 = 0 := by rw [hk2.2.1, hk1.2.1]; simp only; omega
  simp only [hdep, if_true, writeNewline, Except.ok.injEq, Prod.mk.injEq] at hend
  obtain ⟨rfl, rfl⟩ := hend
  have hmrest : Mach o.dia (AS o.dia) (cs1 ++ (cs2 ++ [.ws [.eol]])) (AS o.dia) :=
    hm1.append (hm2.append ((mach_eol' _).weaken (fun _ _ h => h.1) (fun _ _ h => h)))
  refine ⟨rfl, ⟨by simp only; rw [hk2.1, hk1.1], by simp only; rw [hdepth], by simp only; rw [hk2.2.2, hk1.2.2]⟩,
    { code := code, body := es ++ its.map Elem.plain },
    [.ws [.eol], .tk (.data code), .ws [.eol]] ++ (cs1 ++ (cs2 ++ [.ws [.eol]])), ⟨code, frames, loops, es, its, rfl, hrel1, hrel2, rfl⟩,
    ?_, ?_, ?_, ?_⟩
  · rw [renderChunks_append, renderChunks_append, renderChunks_append, ← hr1, ← hr2]
    simp [hdepth, renderChunks, renderWs, WsAtom.render, Tk.chars, BLOCK_HEAD]
  · rw [toks_append, toks_append, toks_append, ht1, ht2]
    simp [toks, Tk.spec, blocksToks, elemsToks_append, elemsToks_plain]
  · exact (head_block o.dia code hcode).append hmrest
  · have hlen := okP_len o.dia _ .end_ [] (hmrest .end_ [] ⟨wOk_nil _ _, Or.inr rfl⟩).1
    rw [renderChunks_append, toks_append]
    simp only [toks, renderChunks, renderWs, WsAtom.render, Tk.chars, List.length_append, List.length_cons, List.length_nil,
      List.map_cons, List.map_nil, List.flatten_cons, List.flatten_nil] at hlen ⊢
    omega

/-- what is asked of the CIF: every container a data block as `blockR` -/
def cifR (dia : Dialect) (nk : Str → Str) (cif : WCif) : Prop := ∀ k ∈ cif, blockR dia nk k

theorem blocksToks_append (a b : List Block) : blocksToks (a ++ b) = blocksToks a ++ blocksToks b := by
  induction a with
  | nil => rfl
  | cons i r ih => simp [blocksToks, ih]

theorem blocks_chunks (o : Parser.Opts) (hun : o.unfold = true) (hpr : o.prem = true) : ∀ (ks : List WContainer) (c : Ctx)
    (out : Str) (c' : Ctx), c.depth = 0 → o.dia = diaOf c → c.separateValues = true → cifR o.dia o.normKey ks →
    writeContainers ks c = .ok (out, c') →
    KeepL c c' ∧
    ∃ d cs, All2 (BlockRel o) ks d ∧ out = renderChunks cs ∧ toks cs = blocksToks d ∧ Mach o.dia (AS o.dia) cs (AS o.dia)
      ∧ (toks cs).length + d.length ≤ (renderChunks cs).length := by
  intro ks
  induction ks with
  | nil =>
    intro c out c' _ _ _ _ h
    simp only [writeContainers, Except.ok.injEq, Prod.mk.injEq] at h
    obtain ⟨rfl, rfl⟩ := h
    exact ⟨KeepL.refl c, [], [], All2.nil, rfl, rfl, Mach.nil _ _, by simp [toks, renderChunks]⟩
  | cons k rest ih =>
    intro c out c' hdepth hd hsv hR h
    simp only [writeContainers] at h
    obtain ⟨o1, c1, o2, hb, hrest, rfl⟩ := andThen_ok h
    obtain ⟨hz1, hk1, b, cs1, hrel1, hr1, ht1, hm1, hl1⟩ := block_chunks o hun hpr k c o1 c1 hdepth hd hsv (hR k (by simp)) hb
    obtain ⟨hk2, d, cs2, hrel2, hr2, ht2, hm2, hl2⟩ := ih c1 o2 c' (by rw [hk1.2.1, hdepth]) (hk1.dia hd) (by rw [hk1.1, hsv])
      (fun x hx => hR x (by simp [hx])) hrest
    refine ⟨hk1.trans hk2, b :: d, cs1 ++ cs2, All2.cons hrel1 hrel2, by rw [renderChunks_append, hr1, hr2], ?_,
      (hm1.weaken (fun _ _ h => h.1) (fun _ _ h => h)).append hm2, ?_⟩
    · rw [toks_append, ht1, ht2]
      have : blocksToks (b :: d) = blocksToks ([b] ++ d) := rfl
      rw [this, blocksToks_append]
    · rw [toks_append, renderChunks_append]
      simp only [List.length_append, List.length_cons]
      omega

/-! ### the whole file -/

/-- the version comment -/
def magicBody (cif1 : Bool) : Str := if cif1 then a!"\\#CIF_1.1" else a!"\\#CIF_2.0"

theorem cif_chunks (o : Parser.Opts) (hun : o.unfold = true) (hpr : o.prem = true) (version : Nat) (cif : WCif) (out : Str)
    (hd : o.dia = if version = 1 then .cif1 else .cif2) (hR : cifR o.dia o.normKey cif) (h : writeCif version cif = .ok out) :
    ∃ d cs, All2 (BlockRel o) cif d ∧ out = renderChunks cs ∧ toks cs = blocksToks d ∧ okC o.dia .end_ [] cs
      ∧ (toks cs).length + d.length ≤ out.length ∧ out.head? = some 35 := by
  unfold writeCif at h
  simp only at h
  cases hall : (andThen (Except.ok (if (Ctx.isCif1 { version := if version = 1 then 1 else 0 }) = true then MAGIC11 else MAGIC20,
      ({ version := if version = 1 then 1 else 0 } : Ctx))) fun c1 => andThen (writeContainers cif c1) fun c2 => Except.ok (writeNewline c2)) with
  | error e => rw [hall] at h; cases h
  | ok r =>
    obtain ⟨o', cfin⟩ := r
    rw [hall] at h
    simp only [Except.ok.injEq] at h
    subst h
    obtain ⟨o1, c1, o2, hmagic, hrest, rfl⟩ := andThen_ok hall
    simp only [Except.ok.injEq, Prod.mk.injEq] at hmagic
    obtain ⟨rfl, rfl⟩ := hmagic
    obtain ⟨o3, c2, o4, hblocks, hnl, rfl⟩ := andThen_ok hrest
    simp only [writeNewline, Except.ok.injEq, Prod.mk.injEq] at hnl
    obtain ⟨rfl, rfl⟩ := hnl
    have hdia : o.dia = diaOf { version := if version = 1 then 1 else 0 } := by
      rw [hd]; unfold diaOf Ctx.isCif1
      by_cases hv : version = 1 <;> simp [hv]
    obtain ⟨_, d, cs, hrel, hr, ht, hm, hl⟩ := blocks_chunks o hun hpr cif _ o3 c2 rfl hdia rfl hR hblocks
    have hmagic : (if (Ctx.isCif1 { version := if version = 1 then 1 else 0 }) = true then MAGIC11 else MAGIC20)
        = renderWs [WsAtom.comment (magicBody (version == 1))] := by
      by_cases hv : version = 1 <;> simp [hv, Ctx.isCif1, magicBody, renderWs, WsAtom.render, MAGIC11, MAGIC20]
    have hwm : AS o.dia .end_ [WsAtom.comment (magicBody (version == 1))] := by
      refine ⟨⟨?_, Or.inl rfl⟩, Or.inr rfl⟩
      intro a ha
      simp only [List.mem_singleton] at ha
      subst ha
      by_cases hv : version = 1 <;> cases hdd : o.dia <;> simp [hv, magicBody, WsAtom.ok] <;> decide
    obtain ⟨hp1, hq1⟩ := hm _ _ hwm
    refine ⟨d, .ws [WsAtom.comment (magicBody (version == 1))] :: (cs ++ [.ws [.eol]]), hrel, ?_, ?_, ?_, ?_, ?_⟩
    · rw [hmagic, hr]; simp [renderChunks, renderChunks_append, renderWs, WsAtom.render]
    · simp [toks, toks_append, ht]
    · apply okC_of_okP
      · show okP o.dia .end_ ([] ++ [WsAtom.comment (magicBody (version == 1))]) (cs ++ [.ws [.eol]])
        rw [okP_append]
        exact ⟨hp1, trivial⟩
      · show wOk o.dia (stAfter .end_ ([] ++ [WsAtom.comment (magicBody (version == 1))]) (cs ++ [.ws [.eol]])).1
          (stAfter .end_ ([] ++ [WsAtom.comment (magicBody (version == 1))]) (cs ++ [.ws [.eol]])).2
        rw [stAfter_append]
        exact wOk_plain hq1.1 plain_eol
    · rw [hr]
      simp only [toks, toks_append, List.length_append, List.append_nil]
      omega
    · by_cases hv : version = 1 <;> simp [hv, Ctx.isCif1, MAGIC11, MAGIC20]

end CifModel.Lemmas.WriterChunks
